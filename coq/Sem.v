(** Semantic types: what the analyzer stores and emits ([src/types/*.rs]). *)
From SA Require Export Ast.

(** ** Types.  [SStruct name attrs]: [attrs] is the normal form of the attribute [HashMap]:
    for every attribute name its last occurrence, with its original index, listed by index.
    With it Leibniz equality is Rust's derived [==] on [Type]. *)
Inductive sem_ty :=
| SPrim (p : prim_ty)
| SStruct (name : string) (attrs : list (string * N * sem_ty))
| SArray (t : sem_ty) (n : N).

Definition prim_ty_eqb (a b : prim_ty) : bool :=
  match a, b with
  | PU8, PU8 | PU16, PU16 | PU32, PU32 | PU64, PU64
  | PI8, PI8 | PI16, PI16 | PI32, PI32 | PI64, PI64
  | PF32, PF32 | PF64, PF64 | PBool, PBool | PChar, PChar | PPtr, PPtr | PNone, PNone => true
  | _, _ => false
  end.

Fixpoint sem_ty_eqb (a b : sem_ty) : bool :=
  match a, b with
  | SPrim p, SPrim q => prim_ty_eqb p q
  | SStruct n la, SStruct m lb =>
      String.eqb n m &&
      (fix go (la lb : list (string * N * sem_ty)) : bool :=
         match la, lb with
         | [], [] => true
         | (x, i, t) :: la', (y, j, u) :: lb' =>
             String.eqb x y && N.eqb i j && sem_ty_eqb t u && go la' lb'
         | _, _ => false
         end) la lb
  | SArray t n, SArray u m => sem_ty_eqb t u && N.eqb n m
  | _, _ => false
  end.

(** Keep, for every name, the last occurrence; indices are positions in the declaration. *)
Fixpoint norm_attrs {A : Type} (i : N) (l : list (string * A)) : list (string * N * A) :=
  match l with
  | [] => []
  | (x, a) :: l' =>
      if existsb (fun p => String.eqb x (fst p)) l' then norm_attrs (i + 1) l'
      else (x, i, a) :: norm_attrs (i + 1) l'
  end.

Fixpoint sem_of_ty (t : ast_ty) : sem_ty :=
  match t with
  | TPrim p => SPrim p
  | TStruct n attrs =>
      SStruct (iname n) (norm_attrs 0 (map (fun p => (iname (fst p), sem_of_ty (snd p))) attrs))
  | TArray t' n => SArray (sem_of_ty t') n
  end.

Definition struct_of_decl (name : ident) (attrs : list (ident * ast_ty)) : sem_ty :=
  sem_of_ty (TStruct name attrs).

Definition prim_ty_display (p : prim_ty) : string :=
  match p with
  | PU8 => "u8" | PU16 => "u16" | PU32 => "u32" | PU64 => "u64"
  | PI8 => "i8" | PI16 => "i16" | PI32 => "i32" | PI64 => "i64"
  | PF32 => "f32" | PF64 => "f64" | PBool => "bool" | PChar => "char"
  | PPtr => "ptr" | PNone => "()"
  end.

(** [Display for Type] = [Type::name()]. *)
Fixpoint type_name (t : sem_ty) : string :=
  match t with
  | SPrim p => prim_ty_display p
  | SStruct n _ => n
  | SArray t' n => "[" ++ debug_string (type_name t') ++ ";" ++ dec n ++ "]"
  end.

Definition is_prim (t : sem_ty) : bool := match t with SPrim _ => true | _ => false end.

Fixpoint attr_lookup (a : string) (l : list (string * N * sem_ty)) : option (N * sem_ty) :=
  match l with
  | [] => None
  | (x, i, t) :: l' => if String.eqb a x then Some (i, t) else attr_lookup a l'
  end.

(** ** Values, expression results, constants, functions *)
Record value := Value { v_inner : string; v_ty : sem_ty; v_mut : bool }.

Inductive eres_val := RReg (n : N) | RPrim (p : prim_val).
Record eres := ERes { r_ty : sem_ty; r_val : eres_val }.

Inductive cval_sem := CCs (name : string) | CVs (v : prim_val).
Record const_sem := Const {
  c_name : string; c_ty : sem_ty; c_head : cval_sem; c_rest : list (binop * cval_sem) }.

Record func_sem := Func { f_name : string; f_ty : sem_ty; f_params : list sem_ty }.

(** ** Instructions ([SemanticStackContext], body part) *)
Inductive instr :=
| IExprValue (v : value) (reg : N)
| IExprConst (c : const_sem) (reg : N)
| IExprStruct (v : value) (idx : N) (reg : N)
| IExprOp (op : binop) (l r : eres) (reg : N)
| ICall (f : func_sem) (args : list eres) (reg : N)
| ILet (v : value) (e : eres)
| IBind (v : value) (e : eres)
| IFnRet (e : eres)
| IFnRetLabel (e : eres)
| ISetLabel (l : string)
| IJumpTo (l : string)
| IIfCondExpr (e : eres) (lbegin lend : string)
| ICondExpr (l r : eres) (c : cmpop) (reg : N)
| IJumpFnRet (e : eres)
| ILogic (op : logicop) (lreg rreg reg : N)
| IIfCondLogic (lbegin lend : string) (reg : N)
| IFnArg (v : value) (pname : string) (pty : sem_ty)
| IExt (tag reg : N).

(** Global-stack instructions.  The body mirror inside [FunctionDeclaration] is compared by the
    harness in place and is not part of the model (DESIGN.md §4.6). *)
Inductive ginstr :=
| GTypes (t : sem_ty)
| GConst (c : const_sem)
| GFnDecl (name : string) (params : list (string * sem_ty)) (res : sem_ty).

(** One name per [SemanticStackContext] variant the model knows: tied to the regenerated variant
    list so that a variant removed from or renamed in the Rust enum breaks the build.  A variant
    ADDED to the Rust enum is tolerated here: as long as nothing emits it, nothing changes; once
    the analyzer emits it, the per-function instruction-kind lint and the correspondence say so. *)
Definition model_variant_names : list string :=
  ["ExpressionValue"; "ExpressionConst"; "ExpressionStructValue"; "ExpressionOperation"; "Call";
   "LetBinding"; "Binding"; "FunctionDeclaration"; "Constant"; "Types";
   "ExpressionFunctionReturn"; "ExpressionFunctionReturnWithLabel"; "SetLabel"; "JumpTo";
   "IfConditionExpression"; "ConditionExpression"; "JumpFunctionReturn"; "LogicCondition";
   "IfConditionLogic"; "FunctionArg"; "ExtendedExpression"].
Lemma variants_tied :
  forallb (fun n => existsb (String.eqb n) instr_variant_names) model_variant_names = true.
Proof. reflexivity. Qed.

(** ** Blocks: a [BlockState] with its finished children *)
Inductive block := Block {
  b_values : list (string * value);
  b_inner : list string;
  b_labels : list string;
  b_reg : N;
  b_mret : bool;
  b_ctx : list instr;
  b_kids : list block }.

(** ** Diagnostics.  [e_val = None]: the text is a debug dump or an expression rendering that the
    model leaves unspecified (DESIGN.md §3.2). *)
Record err := Err { e_kind : err_kind; e_val : option string; e_loc : loc }.

Record globals := Globals {
  g_types : list (string * sem_ty);
  g_consts : list (string * const_sem);
  g_funcs : list (string * func_sem) }.

Record output := Output {
  o_errors : list err;
  o_globals : globals;
  o_gstack : list ginstr;
  o_fns : list block }.
