(** The analyzer: an executable model of [src/semantic.rs] and [src/types/block_state.rs].

    No proofs live here, so the model still extracts and runs when a proof breaks.
    A [BlockState] chain is the list [frames]: head = the block being analysed, last = the
    function's root block.  Finished blocks are stored in their parent's [b_kids]. *)
From SA Require Export Sem.

(** ** The body-phase monad: state (live frames, error list) + result *)
Inductive panic_kind := PLoopLabel | PSuffixOverflow | PIllKinded | PNoFrame.

Record bst := BSt { frames : list block; errs : list err }.

Inductive res (A : Type) :=
| Ok (a : A) (s : bst)
| Panic (k : panic_kind)
| OutOfFuel.
Arguments Ok {A} a s.
Arguments Panic {A} k.
Arguments OutOfFuel {A}.

Definition M (A : Type) := bst -> res A.
Definition ret {A} (a : A) : M A := fun s => Ok a s.
Definition bind {A B} (m : M A) (f : A -> M B) : M B :=
  fun s => match m s with
           | Ok a s' => f a s'
           | Panic k => Panic k
           | OutOfFuel => OutOfFuel
           end.
Notation "x <- m ;; k" := (bind m (fun x => k))
  (at level 61, m at next level, right associativity).
Notation "m ;;; k" := (bind m (fun _ => k))
  (at level 61, right associativity).

Definition panic {A} (k : panic_kind) : M A := fun _ => Panic k.
Definition out_of_fuel {A} : M A := fun _ => OutOfFuel.
Definition gets {A} (f : list block -> A) : M A := fun s => Ok (f (frames s)) s.
Definition upd_frames (f : list block -> list block) : M unit :=
  fun s => Ok tt (BSt (f (frames s)) (errs s)).
Definition when (b : bool) (m : M unit) : M unit := if b then m else ret tt.

(** ** [BlockState] primitives *)
Definition set_reg (r : N) (b : block) : block :=
  Block (b_values b) (b_inner b) (b_labels b) r (b_mret b) (b_ctx b) (b_kids b).
Definition push_ctx (i : instr) (b : block) : block :=
  Block (b_values b) (b_inner b) (b_labels b) (b_reg b) (b_mret b) (b_ctx b ++ [i]) (b_kids b).
Definition add_inner (n : string) (b : block) : block :=
  Block (b_values b) (sadd n (b_inner b)) (b_labels b) (b_reg b) (b_mret b) (b_ctx b) (b_kids b).
Definition add_label (n : string) (b : block) : block :=
  Block (b_values b) (b_inner b) (sadd n (b_labels b)) (b_reg b) (b_mret b) (b_ctx b) (b_kids b).
Definition set_mret (b : block) : block :=
  Block (b_values b) (b_inner b) (b_labels b) (b_reg b) true (b_ctx b) (b_kids b).
Definition set_value (x : string) (v : value) (b : block) : block :=
  Block (ainsert x v (b_values b)) (b_inner b) (b_labels b) (b_reg b) (b_mret b) (b_ctx b)
        (b_kids b).
Definition add_kid (c : block) (b : block) : block :=
  Block (b_values b) (b_inner b) (b_labels b) (b_reg b) (b_mret b) (b_ctx b) (b_kids b ++ [c]).
Definition set_kids (ks : list block) (b : block) : block :=
  Block (b_values b) (b_inner b) (b_labels b) (b_reg b) (b_mret b) (b_ctx b) ks.

Definition empty_block : block := Block [] [] [] 0 false [] [].

Definition head_reg (fs : list block) : N :=
  match fs with b :: _ => b_reg b | [] => 0 end.
Definition head_mret (fs : list block) : bool :=
  match fs with b :: _ => b_mret b | [] => false end.
Definition head_ctx (fs : list block) : list instr :=
  match fs with b :: _ => b_ctx b | [] => [] end.

(** [inc_register]: [set_register(self.last_register_number + 1)] writes the head's number + 1
    into the head and every ancestor. *)
Definition inc_register : M unit :=
  upd_frames (fun fs => map (set_reg (head_reg fs + 1)) fs).
Definition get_reg : M N := gets head_reg.

(** The two idioms in which the code increments the counter: allocate a register for the
    instruction that defines it, or increment alone.  The model is written with these. *)
Definition alloc_emit (mk : N -> instr) : M N :=
  inc_register ;;; r <- get_reg ;; upd_frames (map (push_ctx (mk r))) ;;; ret r.
Definition bump : M N := inc_register ;;; get_reg.

(** Every instruction push is recorded locally and forwarded to all ancestors. *)
Definition emit (i : instr) : M unit := upd_frames (map (push_ctx i)).
Definition set_inner_name (n : string) : M unit := upd_frames (map (add_inner n)).
Definition set_label_name (n : string) : M unit := upd_frames (map (add_label n)).
Definition set_return : M unit := upd_frames (map set_mret).

Definition insert_value (x : string) (v : value) : M unit :=
  upd_frames (fun fs => match fs with b :: r => set_value x v b :: r | [] => [] end).

Fixpoint lookup_frames (x : string) (fs : list block) : option value :=
  match fs with
  | [] => None
  | b :: r => match alookup x (b_values b) with
              | Some v => Some v
              | None => lookup_frames x r
              end
  end.
Definition lookup_value (x : string) : M (option value) := gets (lookup_frames x).

Definition inner_exists (n : string) (fs : list block) : bool :=
  existsb (fun b => smem n (b_inner b)) fs.
Definition label_exists (n : string) (fs : list block) : bool :=
  existsb (fun b => smem n (b_labels b)) fs.

Definition add_error (e : err) : M unit :=
  fun s => Ok tt (BSt (frames s) (errs s ++ [e])).

(** [BlockState::new(Some(parent))] + [set_child]: the child copies the parent's counter,
    registries and return flag.  It is stored in the parent's children when it is finished
    ([pop_child]); nothing can be appended to the parent's children in between. *)
Definition new_child (fs : list block) : block :=
  match fs with
  | p :: _ => Block [] (b_inner p) (b_labels p) (b_reg p) (b_mret p) [] []
  | [] => empty_block
  end.
Definition push_child : M unit := upd_frames (fun fs => new_child fs :: fs).

(** Finishes the head block; returns its position among the parent's children. *)
Definition pop_child : M nat :=
  fun s => match frames s with
           | c :: p :: r => Ok (length (b_kids p)) (BSt (add_kid c p :: r) (errs s))
           | _ => Panic PNoFrame
           end.

Fixpoint update_nth {A} (k : nat) (f : A -> A) (l : list A) : list A :=
  match l, k with
  | [], _ => []
  | x :: l', O => f x :: l'
  | x :: l', S k' => x :: update_nth k' f l'
  end.

(** A push through a block that is no longer on the live chain (the then-block of an [if]
    after its else part was analysed): recorded in that finished child of the head, and
    forwarded to the head and its ancestors as usual. *)
Definition emit_kid (k : nat) (i : instr) : M unit :=
  upd_frames (fun fs =>
    match fs with
    | p :: r => set_kids (update_nth k (push_ctx i) (b_kids p)) p :: r
    | [] => []
    end) ;;;
  emit i.

(** [get_next_inner_name]: probe [set_attr_counter] until the name is free. *)
Fixpoint next_inner_name (fuel : nat) (n : string) : M string :=
  fun s =>
    match fuel with
    | O => OutOfFuel
    | S f =>
        match set_attr_counter n with
        | None => Panic PSuffixOverflow
        | Some n' => if inner_exists n' (frames s) then next_inner_name f n' s else Ok n' s
        end
    end.
Definition inner_probe_fuel (fs : list block) : nat :=
  S (S (length (concat (map b_inner fs)))).

(** [get_and_set_next_label] *)
Fixpoint label_probe (fuel : nat) (n : string) : M string :=
  fun s =>
    match fuel with
    | O => OutOfFuel
    | S f =>
        match set_attr_counter n with
        | None => Panic PSuffixOverflow
        | Some n' =>
            if label_exists n' (frames s) then label_probe f n' s
            else (set_label_name n' ;;; ret n') s
        end
    end.
Definition label_probe_fuel (fs : list block) : nat :=
  S (S (length (concat (map b_labels fs)))).
Definition gen_label (base : string) : M string :=
  ex <- gets (label_exists base) ;;
  if ex then (fuel <- gets label_probe_fuel ;; label_probe fuel base)
  else (set_label_name base ;;; ret base).

(** ** Operator priority folding ([expression_operations_priority], [fetch_op_priority]) *)
Definition links := list (binop * expr_val).

(** One level pass: every operator of priority [p] is folded, with its left and right
    operands, into a bracketed leaf that becomes the left operand of what follows. *)
Fixpoint fetch (p : N) (v : expr_val) (rest : links) : expr_val * links :=
  match rest with
  | [] => (v, [])
  | (op, v2) :: rest' =>
      if N.eqb (prio op) p then fetch p (EVSub (Expr v [(op, v2)])) rest'
      else let '(v', r') := fetch p v2 rest' in (v, (op, v') :: r')
  end.

(** [(0..=MAX).rev()] *)
Definition levels : list N := map N.of_nat (rev (seq 0 (S (N.to_nat max_prio)))).

Definition fold_priority (e : expr) : expr :=
  match e with
  | Expr v rest =>
      match rest with
      | [] | [_] => e
      | _ => let '(v', r') := fold_left (fun acc p => fetch p (fst acc) (snd acc)) levels (v, rest)
             in Expr v' r'
      end
  end.

(** ** Expressions *)
Definition loc10 : loc := (1, 0).
Definition loc11 : loc := (1, 1).

Definition cval_sem_of (c : cval) : cval_sem :=
  match c with CConst n => CCs (iname n) | CVal v => CVs v end.
Definition const_of (name : ident) (ty : ast_ty) (v : cexpr) : const_sem :=
  Const (iname name) (sem_of_ty ty) (cval_sem_of (ce_head v))
        (map (fun p => (fst p, cval_sem_of (snd p))) (ce_rest v)).

Section WithGlobals.
  Variable G : globals.

  (** [check_type_exists] *)
  Definition check_type_exists (t : sem_ty) (val : option string) (l : loc) : M bool :=
    if is_prim t then ret true
    else if amem (type_name t) (g_types G) then ret true
    else (add_error (Err ETypeNotFound val l) ;;; ret false).

  Section WithExpression.
    (** the recursive call [self.expression] *)
    Variable E : expr -> M (option eres).

    (** the argument loop of [function_call]; [None]: an argument failed (the [?]) *)
    Fixpoint call_args (callee : ident) (params : list sem_ty) (i : nat) (args : list expr)
             (acc : list eres) : M (option (list eres)) :=
      match args with
      | [] => ret (Some acc)
      | a :: args' =>
          r <- E a ;;
          match r with
          | None => ret None
          | Some er =>
              match nth_error params i with
              | Some pt =>
                  if sem_ty_eqb pt (r_ty er)
                  then call_args callee params (S i) args' (acc ++ [er])
                  else (add_error (Err EFunctionParameterTypeWrong (Some (type_name (r_ty er)))
                                       (iloc callee)) ;;;
                        call_args callee params (S i) args' acc)
              | None =>
                  add_error (Err EFunctionParameterTypeWrong (Some (type_name (r_ty er)))
                                 (iloc callee)) ;;;
                  call_args callee params (S i) args' acc
              end
          end
      end.

    Definition function_call (f : ident) (args : list expr) : M (option sem_ty) :=
      match alookup (iname f) (g_funcs G) with
      | None => add_error (Err EFunctionNotFound (Some (iname f)) (iloc f)) ;;; ret None
      | Some fd =>
          ps <- call_args f (f_params fd) O args [] ;;
          match ps with
          | None => ret None
          | Some params =>
              alloc_emit (ICall fd params) ;;;
              ret (Some (f_ty fd))
          end
      end.

    Definition expr_value (v : expr_val) : M (option eres) :=
      match v with
      | EVName x =>
          (* the code increments the register first and then looks at what it found *)
          vs <- lookup_value (iname x) ;;
          match vs with
          | Some val => r <- alloc_emit (IExprValue val) ;; ret (Some (ERes (v_ty val) (RReg r)))
          | None =>
              match alookup (iname x) (g_consts G) with
              | Some c => r <- alloc_emit (IExprConst c) ;; ret (Some (ERes (c_ty c) (RReg r)))
              | None =>
                  bump ;;;
                  add_error (Err EValueNotFound (Some (iname x)) (iloc x)) ;;; ret None
              end
          end
      | EVPrim p => ret (Some (ERes (SPrim (pv_ty p)) (RPrim p)))
      | EVCall f args =>
          t <- function_call f args ;;
          match t with
          | None => ret None
          | Some ty =>
              (* the call wrote register n; the operand names n + 1 (finding F7) *)
              r <- bump ;;
              ret (Some (ERes ty (RReg r)))
          end
      | EVField x a =>
          vs <- lookup_value (iname x) ;;
          match vs with
          | None => add_error (Err EValueNotFound (Some (iname x)) (iloc x)) ;;; ret None
          | Some val =>
              match v_ty val with
              | SStruct _ attrs =>
                  ok <- check_type_exists (v_ty val) (Some (iname x)) (iloc x) ;;
                  if negb ok then ret None
                  else
                    match alookup (type_name (v_ty val)) (g_types G) with
                    | None => ret None
                    | Some declared =>
                        if negb (sem_ty_eqb (v_ty val) declared)
                        then add_error (Err EWrongExpressionType (Some (iname x)) (iloc x)) ;;;
                             ret None
                        else
                          match attr_lookup (iname a) attrs with
                          | None =>
                              add_error (Err EValueNotStructField (Some (iname x)) (iloc x)) ;;;
                              ret None
                          | Some (idx, aty) =>
                              alloc_emit (IExprStruct val idx) ;;;
                              (* finding F7 again: the operand names the register after *)
                              r' <- bump ;;
                              ret (Some (ERes aty (RReg r')))
                          end
                    end
              | _ => add_error (Err EValueNotStruct (Some (iname x)) (iloc x)) ;;; ret None
              end
          end
      | EVSub e => E e
      | EVExt t tag =>
          (* the fixed harness extension of DESIGN.md §4.5 *)
          r <- alloc_emit (IExt tag) ;;
          ret (Some (ERes (sem_of_ty t) (RReg r)))
      end.

    (** the left-to-right walk of [expression_operation] over the links of a chain *)
    Fixpoint expr_chain (left : eres) (rest : links) : M (option eres) :=
      match rest with
      | [] => ret (Some left)
      | (op, v) :: rest' =>
          rv <- expr_value v ;;
          match rv with
          | None => ret None
          | Some rgt =>
              if negb (sem_ty_eqb (r_ty left) (r_ty rgt))
              then add_error (Err EWrongExpressionType (Some (type_name (r_ty left))) loc10) ;;;
                   ret None
              else
                r <- alloc_emit (IExprOp op left rgt) ;;
                expr_chain (ERes (r_ty rgt) (RReg r)) rest'
          end
      end.

    Definition expression_body (e : expr) : M (option eres) :=
      match fold_priority e with
      | Expr v rest =>
          rv <- expr_value v ;;
          match rv with
          | None => ret None
          | Some first => expr_chain first rest
          end
      end.
  End WithExpression.

  Fixpoint expression (fuel : nat) (e : expr) : M (option eres) :=
    match fuel with
    | O => out_of_fuel
    | S f => expression_body (expression f) e
    end.

  (** ** Statements *)
  Section WithFuel.
    Variable fuel : nat.          (* fuel of every [expression] call of this function body *)
    Variable RT : sem_ty.         (* result type of the function being analysed *)
    Let Ex := expression fuel.

    Definition let_binding (x : ident) (mut : bool) (ty : option ast_ty) (e : expr) : M unit :=
      r <- Ex e ;;
      match r with
      | None => ret tt
      | Some er =>
          let mismatch := match ty with
                          | Some t => negb (sem_ty_eqb (r_ty er) (sem_of_ty t))
                          | None => false
                          end in
          if mismatch then add_error (Err EWrongLetType (Some (iname x)) (iloc x))
          else
            vs <- lookup_value (iname x) ;;
            let base := match vs with Some val => v_inner val | None => iname x end in
            pf <- gets inner_probe_fuel ;;
            inner <- next_inner_name pf base ;;
            let val := Value inner (r_ty er) mut in
            insert_value (iname x) val ;;;
            set_inner_name inner ;;;
            emit (ILet val er)
      end.

    Definition binding (x : ident) (e : expr) : M unit :=
      r <- Ex e ;;
      match r with
      | None => ret tt
      | Some er =>
          vs <- lookup_value (iname x) ;;
          match vs with
          | None => add_error (Err EValueNotFound (Some (iname x)) (iloc x))
          | Some val =>
              if negb (v_mut val)
              then add_error (Err EValueIsNotMutable (Some (iname x)) (iloc x))
              else if negb (sem_ty_eqb (v_ty val) (r_ty er))
              then add_error (Err EWrongExpressionType (Some (iname x)) (iloc x))
              else emit (IBind val er)
          end
      end.

    Definition call_stmt (f : ident) (args : list expr) : M unit :=
      function_call Ex f args ;;; ret tt.

    (** [condition_expression]; returns the register holding the result *)
    Fixpoint condition_expression (c : lcond) : M N :=
      match c with
      | LC l cmp r next =>
          lres <- Ex l ;;
          rres <- Ex r ;;
          match lres, rres with
          | Some lr, Some rr =>
              if negb (sem_ty_eqb (r_ty lr) (r_ty rr))
              then add_error (Err EConditionExpressionWrongType (Some (type_name (r_ty lr)))
                                  loc10) ;;; get_reg
              else if negb (is_prim (r_ty lr))
              then add_error (Err EConditionExpressionNotSupported (Some (type_name (r_ty lr)))
                                  loc10) ;;; get_reg
              else
                alloc_emit (ICondExpr lr rr cmp) ;;;
                match next with
                | Some (op, c') =>
                    lreg <- get_reg ;;
                    rreg <- condition_expression c' ;;
                    alloc_emit (ILogic op lreg rreg) ;;; ret tt
                | None => ret tt
                end ;;;
                get_reg
          | _, _ => add_error (Err EConditionIsEmpty None loc10) ;;; get_reg
          end
      end.

    (** [if_condition_calculation] *)
    Definition if_condition_calculation (c : cond) (lbegin lelse lend : string) (is_else : bool)
      : M unit :=
      let target := if is_else then lelse else lend in
      match c with
      | CSingle e =>
          r <- Ex e ;;
          match r with
          | None => ret tt
          | Some er => emit (IIfCondExpr er lbegin target)
          end
      | CLogic lc =>
          reg <- condition_expression lc ;;
          emit (IIfCondLogic lbegin target reg)
      end.

    (** the return-type check of nested returns (repair of finding F9) *)
    Definition check_return_type (er : eres) : M unit :=
      when (negb (sem_ty_eqb RT (r_ty er))) (add_error (Err EWrongReturnType None loc10)).

    Record flags := Flags { fl_ret : bool; fl_brk : bool; fl_cont : bool }.
    Definition flags0 := Flags false false false.

    (** which of the three nested statement loops *)
    Inductive bkind := KIf | KIfLoop | KLoop.

    Definition code_after_errors (k : bkind) (fl : flags) : M unit :=
      when (fl_ret fl) (add_error (Err EForbiddenCodeAfterReturnDeprecated None loc11)) ;;;
      match k with
      | KIf => ret tt
      | _ =>
          when (fl_brk fl) (add_error (Err EForbiddenCodeAfterBreakDeprecated None loc11)) ;;;
          when (fl_cont fl) (add_error (Err EForbiddenCodeAfterContinueDeprecated None loc11))
      end.

    Section WithControl.
      (** the recursive calls [self.if_condition] and [self.loop_statement] *)
      Variable IFC : ifstmt -> option string -> option (string * string) -> M unit.
      Variable LOOP : list stmt -> M unit.

      (** one statement of an if-body ([KIf]), a loop-flavoured if-body ([KIfLoop]) or a loop
          body ([KLoop]).  [lend]: the end label of the enclosing if chain (unused for [KLoop]);
          [lloop]: (begin, end) labels of the enclosing loop. *)
      Definition nested_stmt (k : bkind) (lend : string) (lloop : option (string * string))
                 (fl : flags) (st : stmt) : M flags :=
        match st with
        | SLet x m t e => let_binding x m t e ;;; ret fl
        | SBind x e => binding x e ;;; ret fl
        | SCall f args => call_stmt f args ;;; ret fl
        | SIf i =>
            match k with
            | KLoop => IFC i None lloop
            | _ => IFC i (Some lend) lloop
            end ;;; ret fl
        | SLoop body => LOOP body ;;; ret fl
        | SRet e =>
            r <- Ex e ;;
            match r with
            | Some er =>
                check_return_type er ;;;
                emit (IJumpFnRet er) ;;;
                set_return ;;;
                ret (Flags true (fl_brk fl) (fl_cont fl))
            | None => ret fl
            end
        | SBreak =>
            match k, lloop with
            | KIf, _ | _, None => panic PIllKinded
            | _, Some (_, lloop_end) =>
                emit (IJumpTo lloop_end) ;;; ret (Flags (fl_ret fl) true (fl_cont fl))
            end
        | SContinue =>
            match k, lloop with
            | KIf, _ | _, None => panic PIllKinded
            | _, Some (lloop_begin, _) =>
                emit (IJumpTo lloop_begin) ;;; ret (Flags (fl_ret fl) (fl_brk fl) true)
            end
        | SExprStmt _ => panic PIllKinded
        end.

      Fixpoint run_body (k : bkind) (lend : string) (lloop : option (string * string))
               (fl : flags) (ss : list stmt) : M flags :=
        match ss with
        | [] => ret fl
        | st :: ss' =>
            code_after_errors k fl ;;;
            fl' <- nested_stmt k lend lloop fl st ;;
            run_body k lend lloop fl' ss'
        end.

      (** [if_condition_body] / [if_condition_loop_body]; returns "return was called" *)
      Definition if_body (b : ifbody) (lend : string) (lloop : option (string * string))
        : M bool :=
        match b with
        | IBIf ss => fl <- run_body KIf lend lloop flags0 ss ;; ret (fl_ret fl)
        | IBLoop ss =>
            match lloop with
            | None => panic PLoopLabel      (* [expect("loop label should be set")] *)
            | Some _ => fl <- run_body KIfLoop lend lloop flags0 ss ;; ret (fl_ret fl)
            end
        end.

      Definition is_some {A} (o : option A) : bool := match o with Some _ => true | None => false end.

      (** [if_condition] *)
      Definition if_condition_step (i : ifstmt) (label_end : option string)
                 (label_loop : option (string * string)) : M unit :=
        match i with
        | IfS c body els elif =>
            when (is_some els && is_some elif)
                 (add_error (Err EIfElseDuplicated (Some "if-condition") loc10)) ;;;
            push_child ;;;
            lbegin <- gen_label "if_begin" ;;
            lelse <- gen_label "if_else" ;;
            lend <- match label_end with
                    | Some l => ret l
                    | None => gen_label "if_end"
                    end ;;
            let is_else := is_some els || is_some elif in
            if_condition_calculation c lbegin lelse lend is_else ;;;
            emit (ISetLabel lbegin) ;;;
            returned <- if_body body lend label_loop ;;
            when (negb returned) (emit (IJumpTo lend)) ;;;
            if is_else then
              emit (ISetLabel lelse) ;;;
              (* from here on the then-block is only pushed through: it is finished *)
              slot <- pop_child ;;
              match els with
              | Some eb =>
                  push_child ;;;
                  returned' <- if_body eb lend label_loop ;;
                  pop_child ;;;
                  when (negb returned') (emit_kid slot (IJumpTo lend))
              | None =>
                  match elif with
                  | Some ei => IFC ei (Some lend) label_loop
                  | None => ret tt
                  end
              end ;;;
              when (negb (is_some label_end)) (emit_kid slot (ISetLabel lend))
            else
              when (negb (is_some label_end)) (emit (ISetLabel lend)) ;;;
              pop_child ;;; ret tt
        end.

      Definition is_jump_to (l : string) (i : instr) : bool :=
        match i with IJumpTo l' => String.eqb l l' | _ => false end.

      (** [loop_statement] *)
      Definition loop_step (body : list stmt) : M unit :=
        push_child ;;;
        lbegin <- gen_label "loop_begin" ;;
        lend <- gen_label "loop_end" ;;
        emit (IJumpTo lbegin) ;;;
        emit (ISetLabel lbegin) ;;;
        fl <- run_body KLoop "" (Some (lbegin, lend)) flags0 body ;;
        (if fl_ret fl then
           (* repair of finding F3: the end label is still the target of every break *)
           ctx <- gets head_ctx ;;
           when (existsb (is_jump_to lend) ctx) (emit (ISetLabel lend))
         else
           emit (IJumpTo lbegin) ;;;
           emit (ISetLabel lend)) ;;;
        pop_child ;;; ret tt.
    End WithControl.

    Fixpoint if_condition (n : nat) (i : ifstmt) (label_end : option string)
             (label_loop : option (string * string)) : M unit :=
      match n with
      | O => out_of_fuel
      | S n' => if_condition_step (if_condition n') (loop_statement n') i label_end label_loop
      end
    with loop_statement (n : nat) (body : list stmt) : M unit :=
      match n with
      | O => out_of_fuel
      | S n' => loop_step (if_condition n') (loop_statement n') body
      end.

    (** [init_func_params]: stops at the first duplicated parameter name *)
    Fixpoint init_func_params (ps : list (ident * ast_ty)) : M unit :=
      match ps with
      | [] => ret tt
      | (x, t) :: ps' =>
          vs <- lookup_value (iname x) ;;
          match vs with
          | Some _ => add_error (Err EFunctionArgumentNameDuplicated (Some (iname x)) loc11)
          | None =>
              let val := Value (iname x) (sem_of_ty t) false in
              insert_value (iname x) val ;;;
              set_inner_name (iname x) ;;;
              emit (IFnArg val (iname x) (sem_of_ty t)) ;;;
              init_func_params ps'
          end
      end.

    (** the statement loop of [function_body]; the flag is "return was called" *)
    Definition fn_stmt (returned : bool) (st : stmt) : M bool :=
      match st with
      | SLet x m t e => let_binding x m t e ;;; ret returned
      | SBind x e => binding x e ;;; ret returned
      | SCall f args => call_stmt f args ;;; ret returned
      | SIf i => if_condition fuel i None None ;;; ret returned
      | SLoop body => loop_statement fuel body ;;; ret returned
      | SExprStmt e | SRet e =>
          r <- Ex e ;;
          when returned (add_error (Err EReturnAlreadyCalled None loc10)) ;;;
          match r with
          | Some er =>
              check_type_exists (r_ty er) None loc10 ;;;
              when (negb (sem_ty_eqb RT (r_ty er)))
                   (add_error (Err EWrongReturnType None loc10)) ;;;
              mret <- gets head_mret ;;
              (if mret then emit (IFnRetLabel er) else emit (IFnRet er)) ;;;
              ret true
          | None => ret returned
          end
      | SBreak | SContinue => panic PIllKinded
      end.

    Fixpoint fn_stmts (returned : bool) (ss : list stmt) : M bool :=
      match ss with
      | [] => ret returned
      | st :: ss' =>
          when returned (add_error (Err EForbiddenCodeAfterReturnDeprecated None loc11)) ;;;
          returned' <- fn_stmt returned st ;;
          fn_stmts returned' ss'
      end.
  End WithFuel.

  Definition fuel_of (f : fn_decl) : nat := S (S (size_fn f)).

  (** [function_body], on the state that already holds the root block as its only frame *)
  Definition function_body_m (f : fn_decl) : M unit :=
    let fuel := fuel_of f in
    let RT := sem_of_ty (fn_result f) in
    init_func_params (fn_params f) ;;;
    returned <- fn_stmts fuel RT false (fn_body f) ;;
    when (negb returned) (add_error (Err EReturnNotFound (Some "") (iloc (fn_name f)))).
End WithGlobals.

(** ** Declaration passes *)
Record gstate := GState { gs_globals : globals; gs_stack : list ginstr; gs_errs : list err }.

Definition gstate0 : gstate := GState (Globals [] [] []) [] [].

Definition g_add_error (e : err) (st : gstate) : gstate :=
  GState (gs_globals st) (gs_stack st) (gs_errs st ++ [e]).

(** [types] *)
Definition decl_type (st : gstate) (name : ident) (attrs : list (ident * ast_ty)) : gstate :=
  let G := gs_globals st in
  if amem (iname name) (g_types G)
  then g_add_error (Err ETypeAlreadyExist (Some (iname name)) (iloc name)) st
  else
    let t := struct_of_decl name attrs in
    GState (Globals (g_types G ++ [(type_name t, t)]) (g_consts G) (g_funcs G))
           (gs_stack st ++ [GTypes t]) (gs_errs st).

(** [check_constant_value_expression]: walks the links after the head; stops with success at the
    first literal (finding F8). [Some c]: the first missing constant. *)
Fixpoint check_const_links (G : globals) (l : list (binop * cval)) : option ident :=
  match l with
  | [] => None
  | (_, CConst c) :: l' =>
      if amem (iname c) (g_consts G) then check_const_links G l' else Some c
  | (_, CVal _) :: _ => None
  end.

Definition g_check_type_exists (st : gstate) (t : sem_ty) (val : string) (l : loc)
  : gstate * bool :=
  if is_prim t then (st, true)
  else if amem (type_name t) (g_types (gs_globals st)) then (st, true)
  else (g_add_error (Err ETypeNotFound (Some val) l) st, false).

(** [constant] *)
Definition decl_const (st : gstate) (name : ident) (ty : ast_ty) (v : cexpr) : gstate :=
  let G := gs_globals st in
  if amem (iname name) (g_consts G)
  then g_add_error (Err EConstantAlreadyExist (Some (iname name)) (iloc name)) st
  else
    match check_const_links G (ce_rest v) with
    | Some c => g_add_error (Err EConstantNotFound (Some (iname c)) (iloc c)) st
    | None =>
        let c := const_of name ty v in
        let '(st', ok) := g_check_type_exists st (c_ty c) (c_name c) (iloc name) in
        if ok then
          let G' := gs_globals st' in
          GState (Globals (g_types G') (g_consts G' ++ [(c_name c, c)]) (g_funcs G'))
                 (gs_stack st' ++ [GConst c]) (gs_errs st')
        else st'
    end.

(** the parameter loop of [function_declaration]: [force_quite || !check(..)] short-circuits *)
Fixpoint decl_fn_params (st : gstate) (quit : bool) (floc : loc) (ps : list (ident * ast_ty))
  : gstate * bool :=
  match ps with
  | [] => (st, quit)
  | (x, t) :: ps' =>
      if quit then decl_fn_params st true floc ps'
      else
        let '(st', ok) := g_check_type_exists st (sem_of_ty t) (iname x) floc in
        decl_fn_params st' (negb ok) floc ps'
  end.

(** [function_declaration] *)
Definition decl_fn (st : gstate) (f : fn_decl) : gstate :=
  let G := gs_globals st in
  let name := fn_name f in
  if amem (iname name) (g_funcs G)
  then g_add_error (Err EFunctionAlreadyExist (Some (iname name)) (iloc name)) st
  else
    let '(st1, ok) := g_check_type_exists st (sem_of_ty (fn_result f)) (iname name) (iloc name) in
    let '(st2, quit) := decl_fn_params st1 (negb ok) (iloc name) (fn_params f) in
    if quit then st2
    else
      let G2 := gs_globals st2 in
      let fd := Func (iname name) (sem_of_ty (fn_result f))
                     (map (fun p => sem_of_ty (snd p)) (fn_params f)) in
      GState (Globals (g_types G2) (g_consts G2) (g_funcs G2 ++ [(iname name, fd)]))
             (gs_stack st2 ++
              [GFnDecl (iname name)
                       (map (fun p => (iname (fst p), sem_of_ty (snd p))) (fn_params f))
                       (sem_of_ty (fn_result f))])
             (gs_errs st2).

Definition pass_types (st : gstate) (t : top) : gstate :=
  match t with TStructDecl n a => decl_type st n a | _ => st end.
Definition pass_decls (st : gstate) (t : top) : gstate :=
  match t with
  | TConst n ty v => decl_const st n ty v
  | TFn f => decl_fn st f
  | _ => st
  end.

Definition declarations (p : program) : gstate :=
  fold_left pass_decls p (fold_left pass_types p gstate0).

Definition functions_of (p : program) : list fn_decl :=
  flat_map (fun t => match t with TFn f => [f] | _ => [] end) p.

(** ** The driver ([State::run]) *)
Inductive run_result :=
| ROk (o : output)
| RPanic (k : panic_kind)
| ROutOfFuel.

(** One function body on the threaded error list: the root block is the only frame. *)
Definition function_body (G : globals) (errs0 : list err) (f : fn_decl) : res unit :=
  function_body_m G f (BSt [empty_block] errs0).

Fixpoint bodies (G : globals) (errs0 : list err) (roots : list block) (fs : list fn_decl)
  : run_result + (list err * list block) :=
  match fs with
  | [] => inr (errs0, roots)
  | f :: fs' =>
      match function_body G errs0 f with
      | Ok _ s =>
          match frames s with
          | [root] => bodies G (errs s) (roots ++ [root]) fs'
          | _ => inl (RPanic PNoFrame)
          end
      | Panic k => inl (RPanic k)
      | OutOfFuel => inl ROutOfFuel
      end
  end.

Definition run (p : program) : run_result :=
  let d := declarations p in
  match bodies (gs_globals d) (gs_errs d) [] (functions_of p) with
  | inl r => r
  | inr (errors, roots) => ROk (Output errors (gs_globals d) (gs_stack d) roots)
  end.
