(** What the monitors of [Mon/Verdict.v] decide, as Prop statements. *)
From SA Require Import Sem.
From SA.Spec Require Import FirstViolation.
From SA.Mon Require Import Verdict.
Local Open Scope list_scope.

(** ** Equalities *)
Lemma err_kind_name_inj a b : err_kind_name a = err_kind_name b -> a = b.
Proof. destruct a, b; intro H; try reflexivity; discriminate H. Qed.

Lemma err_kind_eqb_spec a b : err_kind_eqb a b = true <-> a = b.
Proof.
  unfold err_kind_eqb. rewrite String.eqb_eq. split.
  - apply err_kind_name_inj.
  - intros ->. reflexivity.
Qed.

Lemma loc_eqb_spec (a b : loc) : loc_eqb a b = true <-> a = b.
Proof.
  destruct a as [a1 a2], b as [b1 b2]. unfold loc_eqb. cbn.
  rewrite Bool.andb_true_iff, !N.eqb_eq. split.
  - intros [-> ->]. reflexivity.
  - intro H. inversion H. split; reflexivity.
Qed.

(** ** C14 *)

(** The specification's violation and the reported error agree: same kind, same location, and
    the same text whenever the specification fixes one. *)
Definition viol_matches (v : viol) (e : err) : Prop :=
  vi_kind v = e_kind e /\
  vi_loc v = e_loc e /\
  (forall s, vi_val v = Some s -> e_val e = Some s).

Definition first_error_matches (spec : option viol) (first : option err) : Prop :=
  match spec, first with
  | None, None => True
  | Some v, Some e => viol_matches v e
  | _, _ => False
  end.

Lemma val_agrees_spec (s r : option string) :
  val_agrees s r = true <-> (forall x, s = Some x -> r = Some x).
Proof.
  destruct s as [s|]; cbn.
  - destruct r as [r|].
    + rewrite String.eqb_eq. split.
      * intros -> x Hx. inversion Hx. reflexivity.
      * intro H. specialize (H s eq_refl). inversion H. reflexivity.
    + split; [discriminate|]. intro H. specialize (H s eq_refl). discriminate H.
  - split; [|reflexivity]. intros _ x Hx. discriminate Hx.
Qed.

Lemma viol_agrees_spec v e : viol_agrees v e = true <-> viol_matches v e.
Proof.
  unfold viol_agrees, viol_matches.
  rewrite !Bool.andb_true_iff, err_kind_eqb_spec, loc_eqb_spec, val_agrees_spec.
  split.
  - intros [[Hk Hl] Hv]. split; [exact Hk | split; [exact Hl | exact Hv]].
  - intros [Hk [Hl Hv]]. split; [split; [exact Hk | exact Hl] | exact Hv].
Qed.

Theorem chk_C14_spec p o :
  chk_C14 p o = true <-> first_error_matches (first_violation true p) (hd_error (o_errors o)).
Proof.
  unfold chk_C14, first_error_matches.
  destruct (first_violation true p) as [v|], (hd_error (o_errors o)) as [e|].
  - apply viol_agrees_spec.
  - split; [discriminate | intros []].
  - split; [discriminate | intros []].
  - split; reflexivity.
Qed.

(** ** C01, C02 *)
Lemma no_errors_spec o : no_errors o = true <-> o_errors o = [].
Proof.
  unfold no_errors. destruct (o_errors o); split; try reflexivity; discriminate.
Qed.

Lemma implb_spec a b : implb a b = true <-> (a = true -> b = true).
Proof. destruct a, b; cbn; split; auto; intro H; discriminate (H eq_refl). Qed.

Theorem chk_C02_spec p o :
  chk_C02 p o = true <-> (wf_b p = true -> o_errors o = []).
Proof. unfold chk_C02. rewrite implb_spec, no_errors_spec. reflexivity. Qed.

Theorem chk_C01_spec p o :
  chk_C01 p o = true <-> (o_errors o = [] -> wf_b p = true).
Proof. unfold chk_C01. rewrite implb_spec, no_errors_spec. reflexivity. Qed.

Theorem chk_C01_quirk_spec p o :
  chk_C01_quirk p o = true <-> (o_errors o = [] -> accepted_spec_b p = true).
Proof. unfold chk_C01_quirk. rewrite implb_spec, no_errors_spec. reflexivity. Qed.

(** The intended C01 can fail while the enforced one holds only inside the known class. *)
Theorem chk_C01_gap p o :
  chk_C01_quirk p o = true -> chk_C01 p o = false -> in_K_F2_or_F8 p = true.
Proof.
  unfold chk_C01_quirk, chk_C01, in_K_F2_or_F8.
  destruct (no_errors o), (accepted_spec_b p), (wf_b p); cbn; congruence.
Qed.

(** What the wildcard in [first_violation] means for the verdict: the distinguished answer
    for a stuck check is a violation, never "well-formed". *)
Lemma first_violation_none enforced p :
  first_violation enforced p = None <-> check_program enforced p = Pass tt.
Proof.
  unfold first_violation. destruct (check_program enforced p) as [[]| |]; split;
    try reflexivity; discriminate.
Qed.

Print Assumptions chk_C14_spec.
Print Assumptions chk_C02_spec.
Print Assumptions chk_C01_spec.
Print Assumptions chk_C01_quirk_spec.
Print Assumptions chk_C01_gap.
