(** Family T2: extension expressions are opaque leaves, evaluated once, in place (C19).

    On accepted programs the output of the model passes the monitor of [Mon/C19.v]:
    - the tags of the [ExtendedExpression] instructions of every root stack are the tags of the
      extension leaves of the source, in evaluation order;
    - every operand that names the register of the j-th of them carries the type of the j-th leaf,
      and that register is read exactly once;
    - every extension instruction of a block occurs in its parent's stack (from C18).

    The walk is the one of [DefUse.v], in the end-anchored logic of [DenoteLogic.v].  What is
    accumulated about the suffix [c] a computation pushed is [ExtSpec h h' c L ers P]: a linear
    account of the registers in [(h, h']] -- [L] are the source leaves, [ers] / [P] the operands /
    registers that the computation hands to whoever consumes its result. *)
From Coq Require Import Lia Permutation.
From SA Require Import Model.
From SA.Spec Require Import Stack Tables Bracket.
From SA.Mon Require Import C19.
From SA.Proofs Require Import Reach InvReg Trace InvNames DefUse Fold InvTree DenoteLogic.
Local Open Scope list_scope.

(** ** Lists *)
Notation cnt := count_N.

Lemma cnt_app r a b : cnt r (a ++ b) = cnt r a + cnt r b.
Proof. induction a as [|x a IH]; cbn; [reflexivity|]. rewrite IH. lia. Qed.

Definition InR (lo hi : N) (l : list N) : Prop := Forall (fun n => lo < n <= hi) l.

Lemma cnt_out lo hi l r : InR lo hi l -> r <= lo \/ hi < r -> cnt r l = 0.
Proof.
  intros H Hr. induction H as [|x l Hx _ IH]; cbn; [reflexivity|].
  destruct (N.eqb_spec r x); [lia | exact IH].
Qed.

Lemma InR_widen lo hi lo' hi' l : lo' <= lo -> hi <= hi' -> InR lo hi l -> InR lo' hi' l.
Proof. intros H1 H2 H. eapply Forall_impl; [|exact H]. cbn. intros r Hr. lia. Qed.

Lemma InR_app lo hi a b : InR lo hi (a ++ b) <-> InR lo hi a /\ InR lo hi b.
Proof. apply Forall_app. Qed.

Lemma nthN_app_l {A} (l1 l2 : list A) : forall i t, nthN l1 i = Some t -> nthN (l1 ++ l2) i = Some t.
Proof.
  induction l1 as [|x l1 IH]; intros i t H; cbn in *; [discriminate|].
  destruct (N.eqb i 0); [exact H | apply IH, H].
Qed.

Lemma nthN_app_r {A} (l1 l2 : list A) : forall i, nthN (l1 ++ l2) (N.of_nat (length l1) + i) = nthN l2 i.
Proof.
  induction l1 as [|x l1 IH]; intros i.
  - cbn [length app]. f_equal; lia.
  - cbn [length app nthN]. destruct (N.eqb_spec (N.of_nat (S (length l1)) + i) 0) as [E|E]; [lia|].
    rewrite <- (IH i). f_equal. lia.
Qed.

(** [src] holds [L] from position [j] on *)
Definition at_off {A} (src : list A) (j : N) (L : list A) : Prop :=
  forall i t, nthN L i = Some t -> nthN src (j + i) = Some t.

Lemma at_off_self {A} (src : list A) : at_off src 0 src.
Proof. intros i t H. exact H. Qed.

Lemma at_off_app_l {A} (src : list A) j L1 L2 : at_off src j (L1 ++ L2) -> at_off src j L1.
Proof. intros H i t Hi. apply H, nthN_app_l, Hi. Qed.

Lemma at_off_app_r {A} (src : list A) j L1 L2 :
  at_off src j (L1 ++ L2) -> at_off src (j + N.of_nat (length L1)) L2.
Proof.
  intros H i t Hi. rewrite <- N.add_assoc. apply H. rewrite nthN_app_r. exact Hi.
Qed.

Lemma list_N_eqb_refl l : list_N_eqb l l = true.
Proof. induction l as [|x l IH]; cbn; [reflexivity|]. rewrite N.eqb_refl. exact IH. Qed.

(** ** The monitor, compositionally *)
Lemma stack_exts_app a b : stack_exts (a ++ b) = stack_exts a ++ stack_exts b.
Proof. unfold stack_exts. apply flat_map_app. Qed.

Definition uses (c : list instr) : list N := flat_map use_regs c.
Lemma uses_app a b : uses (a ++ b) = uses a ++ uses b.
Proof. unfold uses. apply flat_map_app. Qed.

Fixpoint seen_from (seen : list (N * N)) (j : N) (c : list instr) : list (N * N) :=
  match c with
  | [] => seen
  | i :: c' =>
      match i with
      | IExt _ r => seen_from ((r, j) :: seen) (j + 1) c'
      | _ => seen_from seen j c'
      end
  end.

Lemma scan_types_app src : forall c1 seen j c2,
  scan_types src seen j (c1 ++ c2) =
  scan_types src seen j c1 &&
  scan_types src (seen_from seen j c1) (j + N.of_nat (length (stack_exts c1))) c2.
Proof.
  induction c1 as [|i c1 IH]; intros seen j c2.
  - cbn. f_equal; lia.
  - cbn [app scan_types seen_from]. destruct i; rewrite IH, <- ?Bool.andb_assoc;
      cbn [stack_exts flat_map ext_of app length]; fold (stack_exts c1); try reflexivity.
    do 3 f_equal. lia.
Qed.

Lemma seen_from_app : forall c1 seen j c2,
  seen_from seen j (c1 ++ c2) =
  seen_from (seen_from seen j c1) (j + N.of_nat (length (stack_exts c1))) c2.
Proof.
  induction c1 as [|i c1 IH]; intros seen j c2.
  - cbn. f_equal; lia.
  - cbn [app seen_from]. destruct i; rewrite IH;
      cbn [stack_exts flat_map ext_of app length]; fold (stack_exts c1); try reflexivity.
    f_equal. lia.
Qed.

Definition SeenLe (h : N) (seen : list (N * N)) : Prop := forall r j, In (r, j) seen -> r <= h.

Lemma ext_pos_out h seen n : SeenLe h seen -> h < n -> ext_pos n seen = None.
Proof.
  intros Hs Hn. induction seen as [|[r j] seen IH]; [reflexivity|]. cbn.
  destruct (N.eqb_spec n r) as [E|E].
  - subst r. specialize (Hs n j (or_introl eq_refl)). lia.
  - apply IH. intros r' j' Hin. apply (Hs r' j'). right. exact Hin.
Qed.

Definition XIn (lo hi : N) (c : list instr) : Prop :=
  Forall (fun tr => lo < snd tr <= hi) (stack_exts c).

Lemma ext_pos_stable lo hi n : forall c seen j,
  XIn lo hi c -> n <= lo -> ext_pos n (seen_from seen j c) = ext_pos n seen.
Proof.
  induction c as [|i c IH]; intros seen j Hx Hn; [reflexivity|].
  destruct i; cbn [seen_from]; try (apply IH; [exact Hx | exact Hn]).
  unfold XIn in Hx. cbn [stack_exts flat_map ext_of app] in Hx. inversion Hx as [|? ? Hr Hx']; subst.
  rewrite IH by assumption. cbn [ext_pos snd] in *.
  destruct (N.eqb_spec n reg); [lia | reflexivity].
Qed.

Lemma SeenLe_mono lo hi seen : lo <= hi -> SeenLe lo seen -> SeenLe hi seen.
Proof. intros Hle Hs r j Hin. specialize (Hs r j Hin). lia. Qed.

Lemma SeenLe_from lo hi : forall c seen j,
  SeenLe hi seen -> XIn lo hi c -> SeenLe hi (seen_from seen j c).
Proof.
  induction c as [|i c IH]; intros seen j Hs Hx; [exact Hs|].
  destruct i; cbn [seen_from]; try (apply IH; assumption).
  unfold XIn in Hx. cbn [stack_exts flat_map ext_of app] in Hx.
  inversion Hx as [|? ? Hr Hx']; subst. cbn [snd] in Hr.
  apply IH; [|exact Hx']. intros r j' [Hin|Hin]; [inversion Hin; subst; lia|].
  apply (Hs r j' Hin).
Qed.

(** ** The linear account of a suffix *)
Definition regs_of (ers : list eres) : list N := flat_map eres_reg ers.

Record ExtSpec (h h' : N) (c : list instr) (L : list (N * ast_ty)) (ers : list eres) (P : list N)
  : Prop := {
  es_le : h <= h';
  es_tags : map fst (stack_exts c) = map fst L;
  es_xin : XIn h h' c;
  es_uin : InR h h' (uses c);
  es_pin : InR h h' P;
  es_ein : InR h h' (regs_of ers);
  es_once : forall tr, In tr (stack_exts c) -> cnt (snd tr) (uses c ++ P) = 1;
  es_types : forall src seen j, at_off src j L -> SeenLe h seen ->
             scan_types src seen j c = true /\
             Forall (fun e => operand_ty_ok src (seen_from seen j c) e = true) ers }.

Lemma ES_nil h : ExtSpec h h [] [] [] [].
Proof.
  constructor.
  - lia.
  - reflexivity.
  - constructor.
  - constructor.
  - constructor.
  - constructor.
  - intros tr [].
  - intros src seen j _ _. split; [reflexivity | constructor].
Qed.

Lemma tags_length c (L : list (N * ast_ty)) :
  map fst (stack_exts c) = map fst L -> length (stack_exts c) = length L.
Proof. intro H. rewrite <- (map_length fst (stack_exts c)), H. apply map_length. Qed.

Lemma operand_ok_stable src lo hi c seen j e :
  XIn lo hi c -> InR 0 lo (eres_reg e) ->
  operand_ty_ok src (seen_from seen j c) e = operand_ty_ok src seen e.
Proof.
  intros Hx He. unfold operand_ty_ok, eres_reg in *. destruct (r_val e) as [n|p]; [|reflexivity].
  inversion He as [|? ? Hn _]; subst. rewrite (ext_pos_stable lo hi) by (assumption || lia).
  reflexivity.
Qed.

Lemma InR_regs_of lo hi ers e : InR lo hi (regs_of ers) -> In e ers -> InR lo hi (eres_reg e).
Proof.
  intros H Hin. induction ers as [|x ers IH]; [destruct Hin|].
  unfold regs_of in H. cbn [flat_map] in H. apply InR_app in H as [H1 H2].
  destruct Hin as [->|Hin]; [exact H1 | apply IH; assumption].
Qed.

Lemma ES_app h h1 h2 c1 c2 L1 L2 ers1 ers2 P1 P2 :
  ExtSpec h h1 c1 L1 ers1 P1 -> ExtSpec h1 h2 c2 L2 ers2 P2 ->
  ExtSpec h h2 (c1 ++ c2) (L1 ++ L2) (ers1 ++ ers2) (P1 ++ P2).
Proof.
  intros [le1 tg1 xi1 ui1 pi1 ei1 on1 ty1] [le2 tg2 xi2 ui2 pi2 ei2 on2 ty2].
  assert (W1 : forall l, InR h h1 l -> InR h h2 l) by (intro l; apply InR_widen; lia).
  assert (W2 : forall l, InR h1 h2 l -> InR h h2 l) by (intro l; apply InR_widen; lia).
  constructor.
  - lia.
  - rewrite stack_exts_app, !map_app, tg1, tg2. reflexivity.
  - unfold XIn in *. rewrite stack_exts_app. apply Forall_app. split.
    + eapply Forall_impl; [|exact xi1]. cbn. intros; lia.
    + eapply Forall_impl; [|exact xi2]. cbn. intros; lia.
  - rewrite uses_app. apply InR_app. split; auto.
  - apply InR_app. split; auto.
  - unfold regs_of in *. rewrite flat_map_app. apply InR_app. split; auto.
  - intros tr Hin. rewrite stack_exts_app in Hin. rewrite uses_app, !cnt_app.
    apply in_app_or in Hin as [Hin|Hin].
    + specialize (on1 tr Hin). rewrite cnt_app in on1.
      unfold XIn in xi1. rewrite Forall_forall in xi1. specialize (xi1 tr Hin).
      rewrite (cnt_out h1 h2 (uses c2)), (cnt_out h1 h2 P2) by (assumption || lia). lia.
    + specialize (on2 tr Hin). rewrite cnt_app in on2.
      unfold XIn in xi2. rewrite Forall_forall in xi2. specialize (xi2 tr Hin).
      rewrite (cnt_out h h1 (uses c1)), (cnt_out h h1 P1) by (assumption || lia). lia.
  - intros src seen j Ho Hs.
    destruct (ty1 src seen j (at_off_app_l _ _ _ _ Ho) Hs) as [S1 O1].
    assert (Hs1 : SeenLe h1 (seen_from seen j c1)).
    { apply (SeenLe_from h h1); [eapply SeenLe_mono; eassumption | exact xi1]. }
    pose proof (at_off_app_r _ _ _ _ Ho) as Ho2. rewrite <- (tags_length _ _ tg1) in Ho2.
    destruct (ty2 src _ _ Ho2 Hs1) as [S2 O2].
    rewrite scan_types_app, S1, S2, seen_from_app. split; [reflexivity|].
    apply Forall_app. split; [|exact O2].
    rewrite Forall_forall in *. intros e He.
    rewrite (operand_ok_stable src h1 h2); [apply O1, He | exact xi2|].
    eapply InR_widen; [| |eapply InR_regs_of; [exact ei1 | exact He]]; lia.
Qed.

(** an instruction that is not an extension consumes exactly what is pending *)
Lemma ES_emit h h' c L ers P i :
  ExtSpec h h' c L ers P -> ext_of i = [] -> use_regs i = P ->
  Forall (fun o => In o ers) (operands_of i) ->
  ExtSpec h h' (c ++ [i]) L [] [].
Proof.
  intros [le1 tg1 xi1 ui1 pi1 ei1 on1 ty1] Hx Hu Ho.
  assert (Hse : stack_exts (c ++ [i]) = stack_exts c).
  { rewrite stack_exts_app. cbn. rewrite Hx. rewrite !app_nil_r. reflexivity. }
  assert (Hus : uses (c ++ [i]) = uses c ++ P).
  { rewrite uses_app. cbn. rewrite Hu, app_nil_r. reflexivity. }
  constructor.
  - exact le1.
  - rewrite Hse. exact tg1.
  - unfold XIn. rewrite Hse. exact xi1.
  - rewrite Hus. apply InR_app. split; assumption.
  - constructor.
  - constructor.
  - intros tr Hin. rewrite Hse in Hin. rewrite Hus, app_nil_r. apply on1, Hin.
  - intros src seen j Hof Hs. destruct (ty1 src seen j Hof Hs) as [S1 O1].
    split; [|constructor]. rewrite scan_types_app, S1. cbn [andb scan_types].
    assert (Hf : forallb (operand_ty_ok src (seen_from seen j c)) (operands_of i) = true).
    { apply forallb_forall. intros o Hin. rewrite Forall_forall in Ho, O1. apply O1, Ho, Hin. }
    rewrite Hf. destruct i; reflexivity.
Qed.

(** new registers that no extension defined become pending *)
Lemma ES_pend h h' h'' c L ers P ers' P' :
  ExtSpec h h' c L ers P -> h' <= h'' -> InR h' h'' P' -> InR h' h'' (regs_of ers') ->
  ExtSpec h h'' c L (ers ++ ers') (P ++ P').
Proof.
  intros [le1 tg1 xi1 ui1 pi1 ei1 on1 ty1] Hle HP He.
  assert (W1 : forall l, InR h h' l -> InR h h'' l) by (intro l; apply InR_widen; lia).
  assert (W2 : forall l, InR h' h'' l -> InR h h'' l) by (intro l; apply InR_widen; lia).
  constructor.
  - lia.
  - exact tg1.
  - eapply Forall_impl; [|exact xi1]. cbn. intros; lia.
  - auto.
  - apply InR_app. split; auto.
  - unfold regs_of in *. rewrite flat_map_app. apply InR_app. split; auto.
  - intros tr Hin. specialize (on1 tr Hin). rewrite app_assoc, cnt_app.
    unfold XIn in xi1. rewrite Forall_forall in xi1. specialize (xi1 tr Hin).
    rewrite (cnt_out h' h'' P') by (assumption || lia). lia.
  - intros src seen j Hof Hs. destruct (ty1 src seen j Hof Hs) as [S1 O1].
    split; [exact S1|]. apply Forall_app. split; [exact O1|].
    assert (Hs1 : SeenLe h' (seen_from seen j c)).
    { apply (SeenLe_from h h'); [eapply SeenLe_mono; eassumption | exact xi1]. }
    apply Forall_forall. intros e Hin. pose proof (InR_regs_of _ _ _ _ He Hin) as Hr.
    unfold operand_ty_ok, eres_reg in *. destruct (r_val e) as [n|p]; [|reflexivity].
    inversion Hr as [|? ? Hn _]; subst. rewrite (ext_pos_out h') by (assumption || lia).
    reflexivity.
Qed.

Lemma ES_emit_pend h h' h'' c L ers P i ers' P' :
  ExtSpec h h' c L ers P -> ext_of i = [] -> use_regs i = P ->
  Forall (fun o => In o ers) (operands_of i) ->
  h' <= h'' -> InR h' h'' P' -> InR h' h'' (regs_of ers') ->
  ExtSpec h h'' (c ++ [i]) L ers' P'.
Proof.
  intros H Hx Hu Ho Hle HP He.
  apply (ES_pend h h' h'' (c ++ [i]) L [] [] ers' P'); try assumption.
  eapply ES_emit; eassumption.
Qed.

Lemma sem_ty_eqb_refl t : sem_ty_eqb t t = true.
Proof. apply sem_ty_eqb_eq. reflexivity. Qed.

Lemma ES_ext h tag t :
  ExtSpec h (h + 1) [IExt tag (h + 1)] [(tag, t)] [ERes (sem_of_ty t) (RReg (h + 1))] [h + 1].
Proof.
  constructor.
  - lia.
  - reflexivity.
  - constructor; [cbn; lia | constructor].
  - constructor.
  - constructor; [lia | constructor].
  - constructor; [lia | constructor].
  - intros tr [<-|[]]. cbn. rewrite N.eqb_refl. reflexivity.
  - intros src seen j Hof Hs. split; [reflexivity|]. constructor; [|constructor].
    unfold operand_ty_ok. cbn [r_val seen_from ext_pos]. rewrite N.eqb_refl.
    specialize (Hof 0 (tag, t) eq_refl). rewrite N.add_0_r in Hof. rewrite Hof.
    cbn [r_ty]. apply sem_ty_eqb_refl.
Qed.

Lemma ES_conv h h' c L ers P c' L' :
  ExtSpec h h' c L ers P -> c = c' -> L = L' -> ExtSpec h h' c' L' ers P.
Proof. intros H -> ->. exact H. Qed.

(** ** The source side: flat forms of the nested fixpoints, brackets of the fold *)
Definition links_exts (rest : links) : list (N * ast_ty) :=
  flat_map (fun ov => val_exts (snd ov)) rest.
Definition args_exts (args : list expr) : list (N * ast_ty) := flat_map expr_exts args.
Definition stmts_exts (ss : list stmt) : list (N * ast_ty) := flat_map stmt_exts ss.

Lemma expr_exts_flat v rest : expr_exts (Expr v rest) = val_exts v ++ links_exts rest.
Proof.
  cbn [expr_exts]. f_equal. induction rest as [|[o v'] rest IH]; [reflexivity|].
  cbn [links_exts flat_map snd]. rewrite IH. reflexivity.
Qed.

Lemma call_exts_flat f args : val_exts (EVCall f args) = args_exts args.
Proof.
  cbn [val_exts]. induction args as [|a args IH]; [reflexivity|].
  cbn [args_exts flat_map]. rewrite IH. reflexivity.
Qed.

Lemma loop_exts_flat body : stmt_exts (SLoop body) = stmts_exts body.
Proof.
  cbn [stmt_exts]. induction body as [|x body IH]; [reflexivity|].
  cbn [stmts_exts flat_map]. rewrite IH. reflexivity.
Qed.

Lemma ifbody_exts_flat b :
  ifbody_exts b = stmts_exts (match b with IBIf ss | IBLoop ss => ss end).
Proof.
  destruct b as [ss|ss]; cbn [ifbody_exts]; (induction ss as [|x ss IH]; [reflexivity|]);
    cbn [stmts_exts flat_map]; rewrite IH; reflexivity.
Qed.

Lemma links_exts_app a b : links_exts (a ++ b) = links_exts a ++ links_exts b.
Proof. unfold links_exts. apply flat_map_app. Qed.

Lemma embed_exts t : val_exts (embed t) = val_exts (thead t) ++ links_exts (tlinks t).
Proof.
  induction t as [v|l IHl o r IHr]; cbn [embed thead tlinks].
  - cbn [links_exts flat_map]. rewrite app_nil_r. reflexivity.
  - change (val_exts (EVSub (Expr (embed l) [(o, embed r)])))
      with (expr_exts (Expr (embed l) [(o, embed r)])).
    rewrite expr_exts_flat. cbn [links_exts flat_map snd]. rewrite app_nil_r, IHl, IHr.
    rewrite links_exts_app. cbn [links_exts flat_map snd]. rewrite <- app_assoc. reflexivity.
Qed.

Lemma expr_exts_fold e : expr_exts (fold_priority e) = expr_exts e.
Proof.
  destruct e as [v rest]. destruct (Nat.leb 2 (length rest)) eqn:El.
  - apply Nat.leb_le in El. destruct (fold_priority_correct v rest El) as (t & _ & Hi & Hf).
    rewrite Hf. rewrite !expr_exts_flat. cbn [links_exts flat_map]. rewrite app_nil_r.
    rewrite embed_exts. unfold inorder in Hi. inversion Hi; subst. reflexivity.
  - apply Nat.leb_gt in El. rewrite fold_priority_short by exact El. reflexivity.
Qed.

(** ** The walk *)
Ltac unwrap := repeat match goal with |- Grow _ _ -> _ => intros _ end.

Section Walk.
  Variable Cf : list instr.
  Variable G : globals.

  Definition XP (s : bst) (L : list (N * ast_ty)) (r : option eres) (s' : bst) : Prop :=
    exists er c, r = Some er /\ Ctx s' = Ctx s ++ c /\
                 ExtSpec (hr s) (hr s') c L [er] (eres_reg er).

  Definition SP (L : list (N * ast_ty)) (s s' : bst) : Prop :=
    exists c, Ctx s' = Ctx s ++ c /\ ExtSpec (hr s) (hr s') c L [] [].

  Notation ST L s m := (HT Cf s m (fun _ s' => SP L s s')).

  Lemma SP_trans L1 L2 s s1 s2 : SP L1 s s1 -> SP L2 s1 s2 -> SP (L1 ++ L2) s s2.
  Proof.
    intros (c1 & C1 & E1) (c2 & C2 & E2). exists (c1 ++ c2).
    split; [rewrite C2, C1, app_assoc; reflexivity|].
    apply (ES_app _ _ _ _ _ _ _ [] [] [] [] E1 E2).
  Qed.

  Lemma SP_same s s' : hr s' = hr s -> Ctx s' = Ctx s -> SP [] s s'.
  Proof.
    intros Hh Hc. exists []. rewrite app_nil_r. split; [exact Hc|]. rewrite Hh. apply ES_nil.
  Qed.

  Definition xplain (i : instr) : Prop :=
    def_reg i = None /\ ext_of i = [] /\ use_regs i = [] /\ operands_of i = [].

  Lemma SP_plain i s s' : xplain i -> EmitP i s s' -> SP [] s s'.
  Proof.
    intros (_ & Hx & Hu & Ho) (Hh & Hc & _). exists [i]. split; [exact Hc|]. rewrite Hh.
    apply (ES_emit _ _ [] [] [] [] i (ES_nil _) Hx Hu). rewrite Ho. constructor.
  Qed.

  Lemma ST_bind L1 L2 {A B} s (m : M A) (f : A -> M B) :
    ST L1 s m -> (forall a s1, ST L2 s1 (f a)) -> ST (L1 ++ L2) s (bind m f).
  Proof.
    intros Hm Hf. eapply HT_bind; [exact Hm|]. intros a s1 W1 G1 H1.
    eapply HT_conseq; [apply Hf|]. intros b s' W' G' F' HQ _. fin_all.
    eapply SP_trans; eassumption.
  Qed.

  Lemma ST_conv L' L {A} s (m : M A) : ST L' s m -> L' = L -> ST L s m.
  Proof. intros H <-. exact H. Qed.

  Lemma ST_ret {A} s (a : A) : ST [] s (ret a).
  Proof. apply HT_ret. intros _. apply SP_same; reflexivity. Qed.

  Lemma ST_same {A} s (m : M A) : HT Cf s m (fun _ s' => Same s s') -> ST [] s m.
  Proof.
    intro H. eapply HT_conseq; [exact H|]. intros a s' _ _ _ (Hh & Hc & _). apply SP_same; assumption.
  Qed.

  Lemma ST_emit s i : xplain i -> ST [] s (emit i).
  Proof.
    intro Hp. eapply HT_conseq; [apply HT_emit, Hp|]. intros a s' _ _ _ HE.
    eapply SP_plain; eassumption.
  Qed.
  Lemma ST_emit_kid s k i : xplain i -> ST [] s (emit_kid k i).
  Proof.
    intro Hp. eapply HT_conseq; [apply HT_emit_kid, Hp|]. intros a s' _ _ _ HE.
    eapply SP_plain; eassumption.
  Qed.
  Lemma ST_push s : ST [] s push_child.
  Proof.
    eapply HT_conseq; [apply HT_push_child|]. intros a s' _ _ _ (Hh & Hc & _). apply SP_same; assumption.
  Qed.
  Lemma ST_pop s : ST [] s pop_child.
  Proof.
    eapply HT_conseq; [apply HT_pop_child|]. intros a s' _ _ _ (Hh & Hc & _). apply SP_same; assumption.
  Qed.
  Lemma ST_gen_label s base : ST [] s (gen_label base).
  Proof. apply ST_same, HT_gen_label. Qed.
  Lemma ST_set_return s : ST [] s set_return.
  Proof. apply ST_same, HT_set_return. Qed.
  Lemma ST_when s c m : ST [] s m -> ST [] s (when c m).
  Proof. intro H. destruct c; [exact H | apply ST_ret]. Qed.
  Lemma ST_gets_bind L {A B} s (g : list block -> A) (f : A -> M B) :
    ST L s (f (g (frames s))) -> ST L s (bind (gets g) f).
  Proof. apply HT_gets_bind. Qed.

  Lemma ST_error_nil s e : ST [] s (add_error e).
  Proof. apply HT_error. Qed.

  Ltac st_go :=
    repeat first
      [ apply ST_ret
      | apply HT_panic | apply HT_oof | apply ST_error_nil
      | match goal with H : _ |- HT _ _ _ _ => solve [apply H] end
      | apply ST_emit; repeat split
      | apply ST_emit_kid; repeat split
      | apply ST_gen_label | apply ST_push | apply ST_pop | apply ST_set_return
      | apply ST_when
      | apply ST_gets_bind
      | eapply ST_bind; [| intros ? ?]
      | progress cbv zeta ].

  Ltac st_norm := cbn [app]; repeat rewrite app_nil_r; repeat rewrite <- app_assoc; reflexivity.

  Lemma regs_of_snoc acc er : regs_of (acc ++ [er]) = regs_of acc ++ eres_reg er.
  Proof. unfold regs_of. rewrite flat_map_app. cbn. rewrite app_nil_r. reflexivity. Qed.

  (** ** The expression level *)
  Section Expr.
    Variable E : expr -> M (option eres).
    Hypothesis HE : forall e s, HT Cf s (E e) (XP s (expr_exts e)).

    Lemma X_call_args callee params : forall args i acc s,
      HT Cf s (call_args E callee params i args acc)
         (fun r s' => forall h0 c0 L0, ExtSpec h0 (hr s) c0 L0 acc (regs_of acc) ->
            exists ps c, r = Some ps /\ Ctx s' = Ctx s ++ c /\
              ExtSpec h0 (hr s') (c0 ++ c) (L0 ++ args_exts args) ps (regs_of ps)).
    Proof.
      induction args as [|a args IH]; intros i acc s; cbn [call_args].
      - apply HT_ret. intros _ h0 c0 L0 H. exists acc, []. rewrite !app_nil_r.
        split; [reflexivity|]. split; [reflexivity | exact H].
      - eapply HT_bind; [apply HE|]. intros r s1 W1 G1 H1.
        destruct r as [er|].
        2: { apply HT_ret. intros F. unwrap. fin_all. destruct H1 as (er & c & Hr & _). discriminate. }
        assert (Herr : forall e0 Q,
                   HT Cf s1 (add_error e0 ;;; call_args E callee params (S i) args acc) Q).
        { intros. apply HT_error_then. intro s2. eapply HT_weaken, IH. }
        destruct (nth_error params i) as [pt|]; [|apply Herr].
        destruct (sem_ty_eqb pt (r_ty er)); [|apply Herr].
        eapply HT_conseq; [apply IH|]. intros ps s' W' G' F' HQ. unwrap. fin_all.
        destruct H1 as (er0 & c1 & Hr & C1 & ES1). inversion Hr; subst er0.
        intros h0 c0 L0 ES0.
        destruct (HQ h0 (c0 ++ c1) (L0 ++ expr_exts a)) as (ps' & c2 & Hps & C2 & ES2).
        { rewrite regs_of_snoc. apply (ES_app _ _ _ _ _ _ _ _ _ _ _ ES0 ES1). }
        exists ps', (c1 ++ c2). split; [exact Hps|].
        split; [rewrite C2, C1, app_assoc; reflexivity|].
        cbn [args_exts flat_map]. rewrite !app_assoc. rewrite <- !app_assoc in ES2.
        rewrite <- !app_assoc. exact ES2.
    Qed.

    Lemma X_function_call f args s :
      HT Cf s (function_call G E f args)
         (fun r s' => (exists ty, r = Some ty) /\ SP (args_exts args) s s').
    Proof.
      unfold function_call. destruct (alookup (iname f) (g_funcs G)) as [fd|]; [|apply HT_error_ret].
      eapply HT_bind; [apply X_call_args|]. intros ps s1 W1 G1 H1.
      destruct ps as [params|].
      2: { apply HT_ret. intros F. unwrap. fin_all.
           destruct (H1 (hr s) [] [] (ES_nil _)) as (ps & c & Hr & _). discriminate. }
      eapply HT_bind; [apply HT_alloc; intro; reflexivity|]. intros r s2 W2 G2 H2.
      apply HT_ret. intros F. unwrap. fin_all.
      destruct (H1 (hr s) [] [] (ES_nil _)) as (ps & c & Hr & C1 & ES1). inversion Hr; subst ps.
      destruct H2 as (Er & Hh & C2 & _).
      split; [eexists; reflexivity|]. exists (c ++ [ICall fd params r]).
      split; [rewrite C2, C1, app_assoc; reflexivity|]. rewrite Hh. cbn [app] in ES1.
      apply (ES_emit_pend _ (hr s1) r _ _ _ _ (ICall fd params r) [] [] ES1);
        [reflexivity | reflexivity | apply Forall_forall; auto | lia | constructor | constructor].
    Qed.

    (** a leaf instruction that reads no register: its register is the result *)
    Lemma X_alloc_res s mk t :
      (forall n, def_reg (mk n) = Some n) -> (forall n, ext_of (mk n) = []) ->
      (forall n, use_regs (mk n) = []) -> (forall n, operands_of (mk n) = []) ->
      HT Cf s (r <- alloc_emit mk ;; ret (Some (ERes t (RReg r)))) (XP s []).
    Proof.
      intros Hd Hx Hu Ho. eapply HT_bind; [apply HT_alloc, Hd|]. intros r s1 W1 G1 H1.
      apply HT_ret. intros F. unwrap. fin_all. destruct H1 as (Er & Hh & C1 & _).
      exists (ERes t (RReg r)), [mk r]. split; [reflexivity|]. split; [exact C1|]. rewrite Hh.
      apply (ES_emit_pend _ (hr s) r [] _ _ _ (mk r) [ERes t (RReg r)] [r] (ES_nil _));
        [apply Hx | apply Hu | rewrite Ho; constructor | lia | |];
        (constructor; [lia | constructor]).
    Qed.

    Lemma X_expr_value v s : HT Cf s (expr_value G E v) (XP s (val_exts v)).
    Proof.
      destruct v as [x|p|f args|x a|e|t tag]; cbn [expr_value].
      - apply HT_lookup_bind. destruct (lookup_frames _ _) as [val|].
        + apply X_alloc_res; intro; reflexivity.
        + destruct (alookup _ _) as [c|].
          * apply X_alloc_res; intro; reflexivity.
          * eapply HT_bind; [apply HT_bump|]. intros. apply HT_error_ret.
      - apply HT_ret. intros _. exists (ERes (SPrim (pv_ty p)) (RPrim p)), [].
        split; [reflexivity|]. split; [rewrite app_nil_r; reflexivity|].
        apply (ES_pend _ _ _ _ _ [] [] [ERes (SPrim (pv_ty p)) (RPrim p)] [] (ES_nil _));
          [lia | constructor | constructor].
      - rewrite call_exts_flat.
        eapply HT_bind; [apply X_function_call|]. intros t s1 W1 G1 H1.
        destruct t as [ty|].
        2: { apply HT_ret. intros F. unwrap. fin_all. destruct H1 as [[ty Hty] _]. discriminate. }
        eapply HT_bind; [apply HT_bump|]. intros r s2 W2 G2 H2.
        apply HT_ret. intros F. unwrap. fin_all. destruct H1 as [_ (c & C0 & ES0)].
        destruct H2 as (Er & Hh & C1 & _).
        exists (ERes ty (RReg r)), c. split; [reflexivity|]. split; [rewrite C1; exact C0|].
        rewrite Hh.
        apply (ES_pend _ (hr s1) r _ _ [] [] [ERes ty (RReg r)] [r] ES0); [lia | |];
          (constructor; [lia | constructor]).
      - apply HT_lookup_bind. destruct (lookup_frames _ _) as [val|]; [|apply HT_error_ret].
        destruct (v_ty val) as [pt|sn attrs|at_ an] eqn:Ety; try apply HT_error_ret.
        eapply HT_bind; [apply HT_check_type_exists|]. intros ok s1 W1 G1 H1.
        destruct ok; cbn [negb].
        2: { apply HT_ret. intros F. unwrap. fin_all. destruct H1 as [H1 _]. discriminate. }
        destruct (alookup _ _) as [declared|] eqn:Eal.
        2: { apply HT_ret. intros F. unwrap. fin_all. destruct H1 as (_ & _ & [H1|H1]);
             [discriminate|]. unfold amem in H1. rewrite Eal in H1. discriminate. }
        destruct (negb _); [apply HT_error_ret|].
        destruct (attr_lookup _ _) as [[idx aty]|]; [|apply HT_error_ret].
        eapply HT_bind; [apply HT_alloc; intro; reflexivity|]. intros r s2 W2 G2 H2.
        eapply HT_bind; [apply HT_bump|]. intros r' s3 W3 G3 H3.
        apply HT_ret. intros F. unwrap. fin_all.
        destruct H1 as (_ & -> & _). destruct H2 as (Er & Hh2 & C2 & _).
        destruct H3 as (Er' & Hh3 & C3 & _).
        exists (ERes aty (RReg r')), [IExprStruct val idx r]. split; [reflexivity|].
        split; [rewrite C3; exact C2|]. rewrite Hh3.
        apply (ES_pend _ r r' _ _ [] [] [ERes aty (RReg r')] [r']).
        + apply (ES_emit_pend _ (hr s) r [] _ _ _ (IExprStruct val idx r) [] [] (ES_nil _));
            [reflexivity | reflexivity | constructor | lia | constructor | constructor].
        + lia.
        + constructor; [lia | constructor].
        + constructor; [lia | constructor].
      - apply HE.
      - eapply HT_bind; [apply HT_alloc; intro; reflexivity|]. intros r s1 W1 G1 H1.
        apply HT_ret. intros F. unwrap. fin_all. destruct H1 as (Er & Hh & C1 & _).
        exists (ERes (sem_of_ty t) (RReg r)), [IExt tag r]. split; [reflexivity|].
        split; [exact C1|]. rewrite Hh, Er. apply ES_ext.
    Qed.

    Lemma X_expr_chain : forall rest left s,
      HT Cf s (expr_chain G E left rest)
         (fun r s' => forall h0 c0 L0, ExtSpec h0 (hr s) c0 L0 [left] (eres_reg left) ->
            exists er c, r = Some er /\ Ctx s' = Ctx s ++ c /\
              ExtSpec h0 (hr s') (c0 ++ c) (L0 ++ links_exts rest) [er] (eres_reg er)).
    Proof.
      induction rest as [|[op v] rest IH]; intros left s; cbn [expr_chain].
      - apply HT_ret. intros _ h0 c0 L0 H. exists left, []. rewrite !app_nil_r.
        split; [reflexivity|]. split; [reflexivity | exact H].
      - eapply HT_bind; [apply X_expr_value|]. intros rv s1 W1 G1 H1.
        destruct rv as [rgt|].
        2: { apply HT_ret. intros F. unwrap. fin_all. destruct H1 as (er & c & Hr & _). discriminate. }
        destruct (negb _); [apply HT_error_ret|].
        eapply HT_bind; [apply HT_alloc; intro; reflexivity|]. intros r s2 W2 G2 H2.
        eapply HT_conseq; [apply IH|]. intros er s' W' G' F' HQ. unwrap. fin_all.
        destruct H1 as (er0 & c1 & Hr & C1 & ES1). inversion Hr; subst er0.
        destruct H2 as (Er & Hh & C2 & _).
        intros h0 c0 L0 ES0.
        destruct (HQ h0 ((c0 ++ c1) ++ [IExprOp op left rgt r]) (L0 ++ val_exts v))
          as (er' & c3 & Her & C3 & ES3).
        { rewrite Hh. pose proof (ES_app _ _ _ _ _ _ _ _ _ _ _ ES0 ES1) as ES01.
          apply (ES_emit_pend _ (hr s1) r _ _ _ _ (IExprOp op left rgt r)
                              [ERes (r_ty rgt) (RReg r)] [r] ES01).
          - reflexivity.
          - reflexivity.
          - constructor; [left; reflexivity | constructor; [right; left; reflexivity | constructor]].
          - lia.
          - constructor; [lia | constructor].
          - constructor; [lia | constructor]. }
        exists er', (c1 ++ [IExprOp op left rgt r] ++ c3). split; [exact Her|].
        split; [rewrite C3, C2, C1, <- !app_assoc; reflexivity|].
        cbn [links_exts flat_map snd]. fold (links_exts rest).
        rewrite <- ?app_assoc in ES3. rewrite <- ?app_assoc. exact ES3.
    Qed.

    Lemma X_expression_body e s : HT Cf s (expression_body G E e) (XP s (expr_exts e)).
    Proof.
      unfold expression_body. rewrite <- (expr_exts_fold e).
      destruct (fold_priority e) as [v rest]. rewrite expr_exts_flat.
      eapply HT_bind; [apply X_expr_value|]. intros rv s1 W1 G1 H1.
      destruct rv as [first|].
      2: { apply HT_ret. intros F. unwrap. fin_all. destruct H1 as (er & c & Hr & _). discriminate. }
      eapply HT_conseq; [apply X_expr_chain|]. intros er s' W' G' F' HQ. unwrap. fin_all.
      destruct H1 as (er0 & c1 & Hr & C1 & ES1). inversion Hr; subst er0.
      destruct (HQ (hr s) c1 (val_exts v) ES1) as (er' & c2 & Her & C2 & ES2).
      exists er', (c1 ++ c2). split; [exact Her|].
      split; [rewrite C2, C1, app_assoc; reflexivity | exact ES2].
    Qed.
  End Expr.

  Lemma X_expression fuel : forall e s, HT Cf s (expression G fuel e) (XP s (expr_exts e)).
  Proof.
    induction fuel as [|f IH]; intros e s; cbn [expression]; [apply HT_oof|].
    apply X_expression_body. exact IH.
  Qed.

  Ltac x_dead H := apply HT_ret; intros ?F; unwrap; fin_all; destruct H as (? & ? & ?Hr & _); discriminate.

  (** ** Statements *)
  Section Stmts.
    Variable fuel : nat.
    Variable RT : sem_ty.

    Lemma S_let_binding x m t e s : ST (expr_exts e) s (let_binding G fuel x m t e).
    Proof.
      unfold let_binding. cbv zeta.
      eapply HT_bind; [apply X_expression|]. intros r s1 W1 G1 H1.
      destruct r as [er|]; [|x_dead H1].
      destruct (match t with Some _ => _ | None => _ end); [apply HT_error|].
      apply HT_lookup_bind. apply HT_gets_bind.
      eapply HT_bind; [apply HT_next_inner_name|]. intros inner s2 W2 G2 H2.
      eapply HT_bind; [apply HT_insert_value|]. intros u3 s3 W3 G3 H3.
      eapply HT_bind; [apply HT_set_inner_name|]. intros u4 s4 W4 G4 H4.
      eapply HT_conseq; [apply HT_emit; reflexivity|]. intros u5 s5 W5 G5 F5 H5. unwrap. fin_all.
      destruct H1 as (er0 & c & Hr & C1 & ES1). inversion Hr; subst er0.
      destruct H2 as [-> _]. destruct H3 as (h3 & c3 & _). destruct H4 as (h4 & c4 & _).
      destruct H5 as (h5 & c5 & _).
      eexists. split; [rewrite c5, c4, c3, C1, <- app_assoc; reflexivity|].
      rewrite h5, h4, h3. eapply ES_emit; [exact ES1 | reflexivity | reflexivity|].
      constructor; [left; reflexivity | constructor].
    Qed.

    Lemma S_binding x e s : ST (expr_exts e) s (binding G fuel x e).
    Proof.
      unfold binding. cbv zeta.
      eapply HT_bind; [apply X_expression|]. intros r s1 W1 G1 H1.
      destruct r as [er|]; [|x_dead H1].
      apply HT_lookup_bind. destruct (lookup_frames _ _) as [val|]; [|apply HT_error].
      destruct (negb (v_mut val)); [apply HT_error|].
      destruct (negb _); [apply HT_error|].
      eapply HT_conseq; [apply HT_emit; reflexivity|]. intros u2 s2 W2 G2 F2 H2. unwrap. fin_all.
      destruct H1 as (er0 & c & Hr & C1 & ES1). inversion Hr; subst er0.
      destruct H2 as (h2 & c2 & _).
      eexists. split; [rewrite c2, C1, <- app_assoc; reflexivity|].
      rewrite h2. eapply ES_emit; [exact ES1 | reflexivity | reflexivity|].
      constructor; [left; reflexivity | constructor].
    Qed.

    Lemma S_call_stmt f args s : ST (args_exts args) s (call_stmt G fuel f args).
    Proof.
      unfold call_stmt. cbv zeta.
      eapply HT_bind; [apply X_function_call; apply X_expression|]. intros r s1 W1 G1 H1.
      apply HT_ret. intros F. unwrap. fin_all. apply H1.
    Qed.

    (** the result register of a condition is pending *)
    Definition CP (s : bst) (L : list (N * ast_ty)) (n : N) (s' : bst) : Prop :=
      exists c, Ctx s' = Ctx s ++ c /\ ExtSpec (hr s) (hr s') c L [] [n].

    Lemma S_condition_expression c :
      forall s, HT Cf s (condition_expression G fuel c) (CP s (lcond_exts c)).
    Proof.
      induction c as [l cmp r | l cmp r op c' IH] using lcond_ind'; intro s;
        cbn [condition_expression lcond_exts]; cbv zeta;
        (eapply HT_bind; [apply X_expression|]; intros lres s1 W1 G1 H1;
         eapply HT_bind; [apply X_expression|]; intros rres s2 W2 G2 H2;
         destruct lres as [lr|]; [|apply HT_error_get_reg];
         destruct rres as [rr|]; [|apply HT_error_get_reg];
         destruct (negb (sem_ty_eqb _ _)); [apply HT_error_get_reg|];
         destruct (negb (is_prim _)); [apply HT_error_get_reg|];
         eapply HT_bind; [apply HT_alloc; intro; reflexivity|]; intros r3 s3 W3 G3 H3).
      - (* a single comparison *)
        eapply HT_bind; [apply HT_ret with (Q := fun _ s' => s' = s3); reflexivity|].
        intros u4 s4 W4 G4 H4. apply HT_get_reg. intros F. unwrap. fin_all. subst s4.
        destruct H1 as (er1 & c1 & Hr1 & C1 & ES1). inversion Hr1; subst er1.
        destruct H2 as (er2 & c2 & Hr2 & C2 & ES2). inversion Hr2; subst er2.
        destruct H3 as (Er & Hh & C3 & _).
        exists (c1 ++ c2 ++ [ICondExpr lr rr cmp r3]).
        split; [rewrite C3, C2, C1, <- !app_assoc; reflexivity|].
        rewrite app_nil_r, Hh. rewrite (app_assoc c1).
        pose proof (ES_app _ _ _ _ _ _ _ _ _ _ _ ES1 ES2) as ES12.
        apply (ES_emit_pend _ (hr s2) r3 _ _ _ _ (ICondExpr lr rr cmp r3) [] [r3] ES12).
        + reflexivity.
        + reflexivity.
        + constructor; [left; reflexivity | constructor; [right; left; reflexivity | constructor]].
        + lia.
        + constructor; [lia | constructor].
        + constructor.
      - (* a connective: the comparison's register and the result of the rest feed it *)
        eapply HT_bind with
          (Q1 := fun _ s6 => exists c, Ctx s6 = Ctx s3 ++ c /\
                   forall h0 c0 L0, ExtSpec h0 (hr s3) c0 L0 [] [hr s3] ->
                     ExtSpec h0 (hr s6) (c0 ++ c) (L0 ++ lcond_exts c') [] [hr s6]).
        + apply HT_get_reg_bind.
          eapply HT_bind; [apply IH|]. intros rreg s4 W4 G4 H4.
          eapply HT_bind; [apply HT_alloc; intro; reflexivity|]. intros r5 s5 W5 G5 H5.
          apply HT_ret. intros F. unwrap. fin_all.
          destruct H4 as (c4 & C4 & ES4). destruct H5 as (Er5 & Hh5 & C5 & _).
          exists (c4 ++ [ILogic op (hr s3) rreg r5]).
          split; [rewrite C5, C4, <- app_assoc; reflexivity|].
          intros h0 c0 L0 ES0. rewrite Hh5, app_assoc.
          pose proof (ES_app _ _ _ _ _ _ _ _ _ _ _ ES0 ES4) as ES04.
          apply (ES_emit_pend _ (hr s4) r5 _ _ _ _ (ILogic op (hr s3) rreg r5) [] [r5] ES04).
          * reflexivity.
          * reflexivity.
          * constructor.
          * lia.
          * constructor; [lia | constructor].
          * constructor.
        + intros u6 s6 W6 G6 H6. apply HT_get_reg. intros F. unwrap. fin_all.
          destruct H1 as (er1 & c1 & Hr1 & C1 & ES1). inversion Hr1; subst er1.
          destruct H2 as (er2 & c2 & Hr2 & C2 & ES2). inversion Hr2; subst er2.
          destruct H3 as (Er & Hh & C3 & _). destruct H6 as (c6 & C6 & ES6).
          exists (((c1 ++ c2) ++ [ICondExpr lr rr cmp r3]) ++ c6).
          split; [rewrite C6, C3, C2, C1, <- !app_assoc; reflexivity|].
          rewrite (app_assoc (expr_exts l)). apply ES6. rewrite Hh.
          pose proof (ES_app _ _ _ _ _ _ _ _ _ _ _ ES1 ES2) as ES12.
          apply (ES_emit_pend _ (hr s2) r3 _ _ _ _ (ICondExpr lr rr cmp r3) [] [r3] ES12).
          * reflexivity.
          * reflexivity.
          * constructor; [left; reflexivity | constructor; [right; left; reflexivity | constructor]].
          * lia.
          * constructor; [lia | constructor].
          * constructor.
    Qed.

    Lemma S_if_condition_calculation c lb le lend ie s :
      ST (cond_exts c) s (if_condition_calculation G fuel c lb le lend ie).
    Proof.
      unfold if_condition_calculation. cbv zeta. destruct c as [e|lc]; cbn [cond_exts].
      - eapply HT_bind; [apply X_expression|]. intros r s1 W1 G1 H1.
        destruct r as [er|]; [|x_dead H1].
        eapply HT_conseq; [apply HT_emit; reflexivity|]. intros u2 s2 W2 G2 F2 H2. unwrap. fin_all.
        destruct H1 as (er0 & c & Hr & C1 & ES1). inversion Hr; subst er0.
        destruct H2 as (h2 & c2 & _).
        eexists. split; [rewrite c2, C1, <- app_assoc; reflexivity|].
        rewrite h2. eapply ES_emit; [exact ES1 | reflexivity | reflexivity|].
        constructor; [left; reflexivity | constructor].
      - eapply HT_bind; [apply S_condition_expression|]. intros reg s1 W1 G1 H1.
        eapply HT_conseq; [apply HT_emit; reflexivity|]. intros u2 s2 W2 G2 F2 H2. unwrap. fin_all.
        destruct H1 as (c & C1 & ES1). destruct H2 as (h2 & c2 & _).
        eexists. split; [rewrite c2, C1, <- app_assoc; reflexivity|].
        rewrite h2. eapply ES_emit; [exact ES1 | reflexivity | reflexivity | constructor].
    Qed.

    Lemma S_code_after_errors k fl s : ST [] s (code_after_errors k fl).
    Proof. unfold code_after_errors. destruct k; (eapply ST_conv; [st_go | reflexivity]). Qed.

    (** ** The control level *)
    Section Control.
      Variable IFC : ifstmt -> option string -> option (string * string) -> M unit.
      Variable LOOP : list stmt -> M unit.
      Hypothesis HIFC : forall i le ll s, ST (if_exts i) s (IFC i le ll).
      Hypothesis HLOOP : forall body s, ST (stmts_exts body) s (LOOP body).

      Lemma S_nested_ret k e fl s :
        ST (expr_exts e) s (nested_stmt G fuel RT IFC LOOP k "" None fl (SRet e)).
      Proof.
        cbn [nested_stmt].
        eapply HT_bind; [apply X_expression|]. intros r s1 W1 G1 H1.
        destruct r as [er|]; [|x_dead H1].
        eapply HT_bind; [apply HT_when_error|]. intros u2 s2 W2 G2 H2.
        eapply HT_bind; [apply HT_emit; reflexivity|]. intros u3 s3 W3 G3 H3.
        eapply HT_bind; [apply HT_set_return|]. intros u4 s4 W4 G4 H4.
        apply HT_ret. intros F. unwrap. fin_all.
        destruct H1 as (er0 & c & Hr & C1 & ES1). inversion Hr; subst er0.
        destruct H2 as [_ ->]. destruct H3 as (h3 & c3 & _). destruct H4 as (h4 & c4 & _).
        eexists. split; [rewrite c4, c3, C1, <- app_assoc; reflexivity|].
        rewrite h4, h3. eapply ES_emit; [exact ES1 | reflexivity | reflexivity|].
        constructor; [left; reflexivity | constructor].
      Qed.

      Lemma S_nested_stmt k lend lloop fl st s :
        ST (stmt_exts st) s (nested_stmt G fuel RT IFC LOOP k lend lloop fl st).
      Proof.
        pose proof S_let_binding. pose proof S_binding. pose proof S_call_stmt.
        destruct st as [x m t e|x e|f args|i|body|e|e| |].
        - eapply ST_conv; [cbn [nested_stmt]; st_go | cbn [stmt_exts]; st_norm].
        - eapply ST_conv; [cbn [nested_stmt]; st_go | cbn [stmt_exts]; st_norm].
        - eapply ST_conv; [cbn [nested_stmt]; st_go | cbn [stmt_exts]; st_norm].
        - destruct k; (eapply ST_conv; [cbn [nested_stmt]; st_go | cbn [stmt_exts]; st_norm]).
        - rewrite loop_exts_flat. eapply ST_conv; [cbn [nested_stmt]; st_go | st_norm].
        - exact (S_nested_ret k e fl s).
        - apply HT_panic.
        - destruct k, lloop as [[lb le]|]; cbn [nested_stmt]; try apply HT_panic;
            (eapply ST_conv; [st_go | reflexivity]).
        - destruct k, lloop as [[lb le]|]; cbn [nested_stmt]; try apply HT_panic;
            (eapply ST_conv; [st_go | reflexivity]).
      Qed.

      Lemma S_run_body k lend lloop : forall ss fl s,
        ST (stmts_exts ss) s (run_body G fuel RT IFC LOOP k lend lloop fl ss).
      Proof.
        pose proof S_nested_stmt. pose proof S_code_after_errors.
        induction ss as [|st ss IH]; intros fl s; cbn [run_body].
        - apply ST_ret.
        - eapply ST_conv; [st_go | cbn [stmts_exts flat_map]; st_norm].
      Qed.

      Lemma S_if_body b lend lloop s :
        ST (ifbody_exts b) s (if_body G fuel RT IFC LOOP b lend lloop).
      Proof.
        pose proof S_run_body. rewrite ifbody_exts_flat.
        destruct b as [ss|ss]; cbn [if_body]; [|destruct lloop as [ll|]; [|apply HT_panic]];
          (eapply ST_conv; [st_go | st_norm]).
      Qed.

      Lemma S_if_condition_step i le ll s :
        ST (if_exts i) s (if_condition_step G fuel RT IFC LOOP i le ll).
      Proof.
        pose proof S_if_body. pose proof S_if_condition_calculation.
        destruct i as [c body els elif]. cbn [if_condition_step].
        destruct els as [eb|], elif as [ei|], le as [le|];
          cbn [is_some orb andb negb]; cbv iota;
          (eapply ST_conv; [st_go | cbn [if_exts]; st_norm]).
      Qed.

      Lemma S_loop_tail (c : bool) lb le s :
        ST [] s (if c then ctx <- gets head_ctx ;;
                           when (existsb (is_jump_to le) ctx) (emit (ISetLabel le))
                 else emit (IJumpTo lb) ;;; emit (ISetLabel le)).
      Proof. destruct c; (eapply ST_conv; [st_go | reflexivity]). Qed.

      Lemma S_loop_step body s : ST (stmts_exts body) s (loop_step G fuel RT IFC LOOP body).
      Proof.
        pose proof S_run_body. pose proof S_loop_tail. unfold loop_step.
        eapply ST_conv; [st_go | st_norm].
      Qed.
    End Control.

    Lemma S_control n :
      (forall i le ll s, ST (if_exts i) s (if_condition G fuel RT n i le ll)) /\
      (forall body s, ST (stmts_exts body) s (loop_statement G fuel RT n body)).
    Proof.
      induction n as [|n [IH1 IH2]]; split; intros; cbn [if_condition loop_statement];
        try apply HT_oof.
      - apply S_if_condition_step; assumption.
      - apply S_loop_step; assumption.
    Qed.

    Lemma S_fn_ret returned e s : ST (expr_exts e) s (fn_stmt G fuel RT returned (SRet e)).
    Proof.
      cbn [fn_stmt].
      eapply HT_bind; [apply X_expression|]. intros r s1 W1 G1 H1.
      eapply HT_bind; [apply HT_when_error|]. intros u2 s2 W2 G2 H2.
      destruct r as [er|]; [|x_dead H1].
      eapply HT_bind; [apply HT_check_type_exists|]. intros ok s3 W3 G3 H3.
      eapply HT_bind; [apply HT_when_error|]. intros u4 s4 W4 G4 H4.
      apply HT_gets_bind.
      eapply HT_bind with (Q1 := fun _ s5 => exists i, operands_of i = [er] /\ ext_of i = [] /\
                                       use_regs i = eres_reg er /\ EmitP i s4 s5).
      { destruct (head_mret (frames s4));
          (eapply HT_conseq; [apply HT_emit; reflexivity|]; intros u5 s5 _ _ _ H5;
           eexists; split; [|split; [|split; [|exact H5]]]; reflexivity). }
      intros u5 s5 W5 G5 H5. apply HT_ret. intros F. unwrap. fin_all.
      destruct H1 as (er0 & c & Hr & C1 & ES1). inversion Hr; subst er0.
      destruct H2 as [_ ->]. destruct H3 as (_ & -> & _). destruct H4 as [_ ->].
      destruct H5 as (i & Hop & Hx & Hu & h5 & c5 & _).
      eexists. split; [rewrite c5, C1, <- app_assoc; reflexivity|].
      rewrite h5. eapply ES_emit; [exact ES1 | exact Hx | exact Hu|].
      rewrite Hop. constructor; [left; reflexivity | constructor].
    Qed.

    Lemma S_fn_stmt returned st s : ST (stmt_exts st) s (fn_stmt G fuel RT returned st).
    Proof.
      pose proof S_let_binding. pose proof S_binding. pose proof S_call_stmt.
      destruct (S_control fuel) as [HI HL].
      destruct st as [x m t e|x e|f args|i|body|e|e| |].
      - eapply ST_conv; [cbn [fn_stmt]; st_go | cbn [stmt_exts]; st_norm].
      - eapply ST_conv; [cbn [fn_stmt]; st_go | cbn [stmt_exts]; st_norm].
      - eapply ST_conv; [cbn [fn_stmt]; st_go | cbn [stmt_exts]; st_norm].
      - eapply ST_conv; [cbn [fn_stmt]; st_go | cbn [stmt_exts]; st_norm].
      - rewrite loop_exts_flat. eapply ST_conv; [cbn [fn_stmt]; st_go | st_norm].
      - apply S_fn_ret.
      - exact (S_fn_ret returned e s).
      - apply HT_panic.
      - apply HT_panic.
    Qed.

    Lemma S_fn_stmts : forall ss returned s,
      ST (stmts_exts ss) s (fn_stmts G fuel RT returned ss).
    Proof.
      pose proof S_fn_stmt.
      induction ss as [|st ss IH]; intros returned s; cbn [fn_stmts].
      - apply ST_ret.
      - eapply ST_conv; [st_go | cbn [stmts_exts flat_map]; st_norm].
    Qed.

    Lemma S_init_func_params : forall ps s, ST [] s (init_func_params ps).
    Proof.
      induction ps as [|[x t] ps IH]; intro s; cbn [init_func_params]; [apply ST_ret|].
      apply HT_lookup_bind. destruct (lookup_frames _ _); [apply HT_error|]. cbv zeta.
      eapply ST_conv; [|reflexivity].
      eapply (ST_bind [] []).
      - eapply HT_conseq; [apply HT_insert_value|]. intros a s' _ _ _ (Hh & Hc & _).
        apply SP_same; assumption.
      - intros u1 s1. eapply (ST_bind [] []); [apply ST_same, HT_set_inner_name|].
        intros u2 s2. eapply (ST_bind [] []); [apply ST_emit; repeat split|].
        intros u3 s3. apply IH.
    Qed.
  End Stmts.

  Lemma S_function_body_m f s : ST (fn_exts f) s (function_body_m G f).
  Proof.
    pose proof S_init_func_params. pose proof S_fn_stmts.
    unfold function_body_m. cbv zeta.
    eapply ST_conv; [st_go | unfold fn_exts; fold (stmts_exts (fn_body f)); st_norm].
  Qed.
End Walk.

(** ** One function body *)
Lemma WF_init e : WF (BSt [empty_block] e).
Proof. split; [discriminate | apply Inv_reg_init]. Qed.

Lemma function_body_exts G f a s :
  function_body G [] f = Ok a s -> errs s = [] ->
  ExtSpec 0 (hr s) (Ctx s) (fn_exts f) [] [].
Proof.
  intros H He. unfold function_body in H.
  destruct (S_function_body_m (Ctx s) G f (BSt [empty_block] []) (WF_init []) a s H)
    as (_ & _ & HQ).
  destruct HQ as (c & C & ES).
  - split; [exact He|]. exists []. rewrite app_nil_r. reflexivity.
  - change (Ctx (BSt [empty_block] [])) with (@nil instr) in C. cbn [app] in C. rewrite C.
    exact ES.
Qed.

Lemma function_body_grow G errs0 f a s :
  function_body G errs0 f = Ok a s -> exists e, errs s = errs0 ++ e.
Proof.
  intro H. unfold function_body in H.
  destruct (S_function_body_m [] G f (BSt [empty_block] errs0) (WF_init errs0) a s H)
    as (_ & (c & e & _ & E & _) & _).
  exists e. exact E.
Qed.

Lemma chk_fn_of_spec f root h :
  ExtSpec 0 h (b_ctx root) (fn_exts f) [] [] ->
  chk_order_fn f root = true /\ chk_types_fn f root = true.
Proof.
  intros [le tg xi ui pi ei on ty]. split.
  - unfold chk_order_fn. rewrite tg. apply list_N_eqb_refl.
  - unfold chk_types_fn. apply Bool.andb_true_iff. split.
    + destruct (ty (fn_exts f) [] 0 (at_off_self _)) as [S _]; [intros r j []|]. exact S.
    + unfold used_once. apply forallb_forall. intros tr Hin. specialize (on tr Hin).
      rewrite app_nil_r in on. unfold uses in on. rewrite on. reflexivity.
Qed.

(** ** The driver *)
Lemma all_fns_snoc chk : forall fs roots f r,
  all_fns chk fs roots = true -> chk f r = true -> all_fns chk (fs ++ [f]) (roots ++ [r]) = true.
Proof.
  induction fs as [|f0 fs IH]; intros [|r0 roots] f r H Hc; cbn in *; try discriminate.
  - rewrite Hc. reflexivity.
  - apply Bool.andb_true_iff in H as [H1 H2]. rewrite H1. cbn. apply IH; assumption.
Qed.

Lemma bodies_C19 G : forall fs fs0 errs0 roots errs1 roots1,
  bodies G errs0 roots fs = inr (errs1, roots1) -> errs1 = [] ->
  all_fns chk_order_fn fs0 roots = true -> all_fns chk_types_fn fs0 roots = true ->
  errs0 = [] /\
  all_fns chk_order_fn (fs0 ++ fs) roots1 = true /\ all_fns chk_types_fn (fs0 ++ fs) roots1 = true.
Proof.
  induction fs as [|f fs IH]; intros fs0 errs0 roots errs1 roots1 H He Ho Ht; cbn [bodies] in H.
  - inversion H; subst. rewrite app_nil_r. repeat split; assumption.
  - destruct (function_body G errs0 f) as [a s| |] eqn:E; try discriminate.
    destruct (frames s) as [|root [|]] eqn:Ef; try discriminate.
    destruct (function_body_grow _ _ _ _ _ E) as [e1 E1].
    assert (Hroot : errs s = [] -> errs0 = [] ->
                    chk_order_fn f root = true /\ chk_types_fn f root = true).
    { intros Hs H0. subst errs0. pose proof (function_body_exts _ _ _ _ E Hs) as ES.
      unfold Ctx in ES. rewrite Ef in ES. cbn in ES. eapply chk_fn_of_spec. exact ES. }
    assert (Hd : errs s = [] \/ errs s <> []) by (destruct (errs s); [left; reflexivity | right; discriminate]).
    destruct Hd as [Hs|Hs].
    + assert (H0 : errs0 = []) by (rewrite E1 in Hs; apply app_eq_nil in Hs; apply Hs).
      destruct (Hroot Hs H0) as [Co Ct].
      destruct (IH (fs0 ++ [f]) (errs s) (roots ++ [root]) errs1 roots1 H He) as (_ & Ao & At).
      * apply all_fns_snoc; assumption.
      * apply all_fns_snoc; assumption.
      * split; [exact H0|]. rewrite <- !app_assoc in Ao, At. split; assumption.
    + exfalso. (* errors only grow *)
      clear -H He Hs. revert H. generalize (roots ++ [root]). revert Hs. generalize (errs s).
      induction fs as [|f' fs IH']; intros e0 Hs r0 H; cbn [bodies] in H.
      * inversion H; subst. contradiction.
      * destruct (function_body G e0 f') as [a' s'| |] eqn:E'; try discriminate.
        destruct (frames s') as [|root' [|]]; try discriminate.
        destruct (function_body_grow _ _ _ _ _ E') as [e2 E2].
        eapply (IH' (errs s')); [|exact H]. rewrite E2. intro Hn. apply app_eq_nil in Hn.
        apply Hs, Hn.
Qed.

(** ** Blocks: from the subsequence property of C18 *)
Lemma ext_eqb_eq a b : ext_eqb a b = true <-> a = b.
Proof.
  destruct a as [a1 a2], b as [b1 b2]. unfold ext_eqb. cbn.
  rewrite Bool.andb_true_iff, !N.eqb_eq. split; [intros [-> ->]; reflexivity|].
  intro H; inversion H; split; reflexivity.
Qed.

Lemma remove_one_in x : forall b, In x b ->
  exists b', remove_one x b = Some b' /\ Permutation b (x :: b').
Proof.
  induction b as [|y b IH]; intro Hin; [destruct Hin|]. cbn [remove_one].
  destruct (ext_eqb x y) eqn:E.
  - apply ext_eqb_eq in E. subst y. exists b. split; [reflexivity | apply Permutation_refl].
  - destruct Hin as [->|Hin].
    + assert (ext_eqb x x = true) by (apply ext_eqb_eq; reflexivity). congruence.
    + destruct (IH Hin) as (r & Hr & Hp). rewrite Hr. exists (y :: r). split; [reflexivity|].
      eapply Permutation_trans; [apply perm_skip, Hp | apply perm_swap].
Qed.

Lemma sub_multiset_perm : forall a b rest, Permutation (a ++ rest) b -> sub_multiset a b = true.
Proof.
  induction a as [|x a IH]; intros b rest Hp; [reflexivity|]. cbn [sub_multiset].
  assert (Hin : In x b) by (eapply Permutation_in; [exact Hp | left; reflexivity]).
  destruct (remove_one_in x b Hin) as (b' & Hr & Hb). rewrite Hr.
  apply (IH b' rest). apply (Permutation_cons_inv (a := x)).
  eapply Permutation_trans; [exact Hp | exact Hb].
Qed.

Lemma subseq_perm {A} (a b : list A) : subseq a b -> exists rest, Permutation (a ++ rest) b.
Proof.
  induction 1 as [|y a b _ [rest IH]|x a b _ [rest IH]].
  - exists []. constructor.
  - exists (y :: rest). eapply Permutation_trans; [apply Permutation_sym, Permutation_middle|].
    apply perm_skip, IH.
  - exists rest. cbn. apply perm_skip, IH.
Qed.

Lemma subseq_exts a b : subseq a b -> subseq (stack_exts a) (stack_exts b).
Proof.
  induction 1 as [|y a b _ IH|x a b _ IH]; [constructor| |].
  - change (stack_exts (y :: b)) with (ext_of y ++ stack_exts b).
    destruct (ext_of y) as [|e l] eqn:E; [exact IH|].
    destruct y; cbn in E; try discriminate. inversion E; subst. cbn [app]. constructor. exact IH.
  - change (stack_exts (x :: b)) with (ext_of x ++ stack_exts b).
    change (stack_exts (x :: a)) with (ext_of x ++ stack_exts a).
    destruct x; cbn [ext_of app]; try exact IH. apply ss_take. exact IH.
Qed.

Lemma chk_blocks_of_tree_sub : forall b, tree_sub b -> chk_blocks_tree b = true.
Proof.
  induction b as [b IH] using block_ind'. intro Ht. apply tree_sub_unfold in Ht.
  destruct b as [v i l r m ctx kids]. cbn [chk_blocks_tree b_kids b_ctx] in *.
  induction kids as [|k ks IHk]; [reflexivity|].
  inversion IH as [|? ? Hk Hks]; subst. inversion Ht as [|? ? [Hs Htk] Htks]; subst.
  rewrite (IHk Hks Htks), (Hk Htk), Bool.andb_true_r, Bool.andb_true_r.
  destruct (subseq_perm _ _ (subseq_exts _ _ Hs)) as [rest Hp].
  eapply sub_multiset_perm. exact Hp.
Qed.

(** ** The theorem *)
Theorem run_ext_once_in_place : forall p out,
  run p = ROk out -> o_errors out = [] -> chk_C19 p out = true.
Proof.
  intros p out H Hacc. pose proof (run_tree_subsequence p out H) as Htree.
  unfold run in H.
  destruct (bodies (gs_globals (declarations p)) (gs_errs (declarations p)) [] (functions_of p))
    as [r|[errors roots]] eqn:E; [exfalso; eapply bodies_not_ok; subst r; exact E|].
  inversion H; subst; clear H. cbn [o_errors o_fns] in *. subst errors.
  destruct (bodies_C19 _ _ [] _ _ _ _ E eq_refl eq_refl eq_refl) as (_ & Ho & Ht).
  cbn [app] in Ho, Ht.
  unfold chk_C19, chk_C19_order, chk_C19_types, chk_C19_blocks, accepted_only.
  cbn [o_errors o_fns]. rewrite Ho, Ht. cbn [andb].
  apply forallb_forall. intros b Hb. apply chk_blocks_of_tree_sub.
  rewrite Forall_forall in Htree. apply Htree, Hb.
Qed.

Print Assumptions run_ext_once_in_place.
