(** C03: what the monitor of [Mon/C03.v] says, as a proposition.

    [stack_reads D lets c es]: the instruction stack [c], read after the internal names [D] have
    been declared (in this order; [lets]: a [LetBinding] was among them), yields the events [es]:
    - a declaring instruction ([FunctionArg], [LetBinding]) must declare an internal name that
      is not declared yet, and appends it to [D]; a [FunctionArg] may not follow a [LetBinding];
      a [LetBinding] is the event [EDecl (length D)], the index of this declaring instruction;
    - a read / field read / assignment of a value [v] is the event [EUse d] / [EUseField d a] /
      [EAssign d] where [d] is the index in [D] of the internal name of [v], that is the index of
      the instruction that declared it;
    - constants, calls, extension leaves and the three return forms are events on their own;
    - operators, labels, jumps and conditions are no events.

    [chk_C03_fn f root = true] iff the resolver succeeds on the source of [f] with some events
    [es], the root stack reads as the same [es] from nothing declared, and it has as many
    [FunctionArg] as [f] has parameters. *)
From Coq Require Import Lia.
From SA Require Import Model.
From SA.Mon Require Import C03.
From SA.Proofs Require Import Trace InvNames ResolutionBase.
Local Open Scope list_scope.

Definition is_ret (i : instr) : bool :=
  match i with IFnRet _ | IFnRetLabel _ | IJumpFnRet _ => true | _ => false end.
Definition is_arg (i : instr) : bool := match i with IFnArg _ _ _ => true | _ => false end.
Definition nargs (c : list instr) : nat := length (filter is_arg c).

Inductive stack_reads : list string -> bool -> list instr -> list ev -> Prop :=
| rd_nil D l : stack_reads D l [] []
| rd_arg D v p t c es :
    ~ In (v_inner v) D -> stack_reads (D ++ [v_inner v]) false c es ->
    stack_reads D false (IFnArg v p t :: c) es
| rd_let D l v e c es :
    ~ In (v_inner v) D -> stack_reads (D ++ [v_inner v]) true c es ->
    stack_reads D l (ILet v e :: c) (EDecl (length D) :: es)
| rd_use D l v r c es d :
    nth_error D d = Some (v_inner v) -> stack_reads D l c es ->
    stack_reads D l (IExprValue v r :: c) (EUse d :: es)
| rd_const D l k r c es :
    stack_reads D l c es -> stack_reads D l (IExprConst k r :: c) (EUseConst (c_name k) :: es)
| rd_field D l v idx r c es d a :
    nth_error D d = Some (v_inner v) -> field_name (v_ty v) idx = Some a ->
    stack_reads D l c es -> stack_reads D l (IExprStruct v idx r :: c) (EUseField d a :: es)
| rd_bind D l v e c es d :
    nth_error D d = Some (v_inner v) -> stack_reads D l c es ->
    stack_reads D l (IBind v e :: c) (EAssign d :: es)
| rd_call D l f args r c es :
    stack_reads D l c es -> stack_reads D l (ICall f args r :: c) (ECall (f_name f) :: es)
| rd_ext D l tag r c es :
    stack_reads D l c es -> stack_reads D l (IExt tag r :: c) (EExt tag :: es)
| rd_ret D l i c es :
    is_ret i = true -> stack_reads D l c es -> stack_reads D l (i :: c) (ERet :: es)
| rd_silent D l i c es :
    silent i -> stack_reads D l c es -> stack_reads D l (i :: c) es.

(** the scanner's translation table against the list of declared names *)
Record MD (m : nmap) (k : nat) (D : list string) : Prop := {
  md_len : k = length D;
  md_nodup : NoDup D;
  md_some : forall x d, nmap_find x m = Some d -> nth_error D d = Some x;
  md_none : forall x, nmap_find x m = None -> ~ In x D }.

Lemma MD_nil : MD [] O [].
Proof. constructor; [reflexivity | constructor | discriminate | intros x _ []]. Qed.

Lemma MD_find m k D x d : MD m k D -> nth_error D d = Some x -> nmap_find x m = Some d.
Proof.
  intros H Hn. destruct (nmap_find x m) as [d'|] eqn:E.
  - f_equal. pose proof (md_some _ _ _ H _ _ E) as Hn'.
    apply (proj1 (NoDup_nth_error D) (md_nodup _ _ _ H)); [|congruence].
    apply nth_error_Some. congruence.
  - exfalso. apply (md_none _ _ _ H _ E). eapply nth_error_In, Hn.
Qed.

Lemma MD_fresh m k D x : MD m k D -> ~ In x D -> nmap_find x m = None.
Proof.
  intros H Hn. destruct (nmap_find x m) as [d|] eqn:E; [|reflexivity].
  exfalso. apply Hn. eapply nth_error_In, (md_some _ _ _ H), E.
Qed.

Lemma MD_snoc m k D x : MD m k D -> nmap_find x m = None -> MD ((x, k) :: m) (S k) (D ++ [x]).
Proof.
  intros H Hx. pose proof (md_none _ _ _ H _ Hx) as Hni. constructor.
  - rewrite app_length, (md_len _ _ _ H). cbn. lia.
  - apply NoDup_app_snoc; [exact (md_nodup _ _ _ H) | exact Hni].
  - intros y d. cbn [nmap_find]. destruct (String.eqb y x) eqn:E.
    + apply String.eqb_eq in E. subst y. intro Hd. inversion Hd; subst d.
      rewrite (md_len _ _ _ H), nth_error_app2, Nat.sub_diag by lia. reflexivity.
    + intro Hd. pose proof (md_some _ _ _ H _ _ Hd) as Hn.
      rewrite nth_error_app1; [exact Hn|]. apply nth_error_Some. congruence.
  - intros y. cbn [nmap_find]. destruct (String.eqb y x) eqn:E; [discriminate|].
    intros Hy Hin. apply in_app_or in Hin as [Hin|[Hin|[]]].
    + exact (md_none _ _ _ H _ Hy Hin).
    + subst y. rewrite String.eqb_refl in E. discriminate.
Qed.

Definition st_na (st : sst) : nat := snd (fst st).

Lemma sscan_reads : forall c m k na lets D st' es,
  MD m k D -> sscan c (m, k, na, lets) = Some (st', es) ->
  stack_reads D lets c es /\ st_na st' = (na + nargs c)%nat.
Proof.
  induction c as [|i c IH]; intros m k na lets D st' es HM H.
  - inversion H; subst. split; [constructor | unfold st_na, nargs; cbn; lia].
  - cbn [sscan] in H.
    destruct (step_st i (m, k, na, lets)) as [[st1 e]|] eqn:Es; [|discriminate].
    destruct (sscan c st1) as [[st2 es2]|] eqn:Ec; [|discriminate].
    inversion H; subst st' es; clear H.
    assert (Hsame : forall e0, st1 = (m, k, na, lets) -> e = e0 -> is_arg i = false ->
                      stack_reads D lets c es2 /\ st_na st2 = (na + nargs (i :: c))%nat).
    { intros e0 -> _ Ha. destruct (IH _ _ _ _ _ _ _ HM Ec) as [HR HN]. split; [exact HR|].
      unfold nargs in *. cbn [filter]. rewrite Ha. exact HN. }
    destruct i; cbn [step_st] in Es.
    + destruct (nmap_find (v_inner v) m) as [d|] eqn:Ef; [|discriminate]. inversion Es; subst.
      destruct (Hsame _ eq_refl eq_refl eq_refl) as [HR HN]. split; [|exact HN].
      cbn [app]. apply rd_use; [exact (md_some _ _ _ HM _ _ Ef) | exact HR].
    + inversion Es; subst. destruct (Hsame _ eq_refl eq_refl eq_refl) as [HR HN].
      split; [|exact HN]. cbn [app]. apply rd_const, HR.
    + destruct (nmap_find (v_inner v) m) as [d|] eqn:Ef; [|discriminate].
      destruct (field_name (v_ty v) idx) as [a|] eqn:Ea; [|discriminate]. inversion Es; subst.
      destruct (Hsame _ eq_refl eq_refl eq_refl) as [HR HN]. split; [|exact HN].
      cbn [app]. apply rd_field; [exact (md_some _ _ _ HM _ _ Ef) | exact Ea | exact HR].
    + inversion Es; subst. destruct (Hsame _ eq_refl eq_refl eq_refl) as [HR HN].
      split; [|exact HN]. cbn [app]. apply rd_silent; [exact I | exact HR].
    + inversion Es; subst. destruct (Hsame _ eq_refl eq_refl eq_refl) as [HR HN].
      split; [|exact HN]. cbn [app]. apply rd_call, HR.
    + destruct (nmap_find (v_inner v) m) eqn:Ef; [discriminate|]. inversion Es; subst.
      destruct (IH _ _ _ _ _ _ _ (MD_snoc _ _ _ _ HM Ef) Ec) as [HR HN]. split.
      * cbn [app]. rewrite (md_len _ _ _ HM). apply rd_let; [exact (md_none _ _ _ HM _ Ef) | exact HR].
      * unfold nargs in *. cbn [filter is_arg]. exact HN.
    + destruct (nmap_find (v_inner v) m) as [d|] eqn:Ef; [|discriminate]. inversion Es; subst.
      destruct (Hsame _ eq_refl eq_refl eq_refl) as [HR HN]. split; [|exact HN].
      cbn [app]. apply rd_bind; [exact (md_some _ _ _ HM _ _ Ef) | exact HR].
    + inversion Es; subst. destruct (Hsame _ eq_refl eq_refl eq_refl) as [HR HN].
      split; [|exact HN]. cbn [app]. apply rd_ret; [reflexivity | exact HR].
    + inversion Es; subst. destruct (Hsame _ eq_refl eq_refl eq_refl) as [HR HN].
      split; [|exact HN]. cbn [app]. apply rd_ret; [reflexivity | exact HR].
    + inversion Es; subst. destruct (Hsame _ eq_refl eq_refl eq_refl) as [HR HN].
      split; [|exact HN]. cbn [app]. apply rd_silent; [exact I | exact HR].
    + inversion Es; subst. destruct (Hsame _ eq_refl eq_refl eq_refl) as [HR HN].
      split; [|exact HN]. cbn [app]. apply rd_silent; [exact I | exact HR].
    + inversion Es; subst. destruct (Hsame _ eq_refl eq_refl eq_refl) as [HR HN].
      split; [|exact HN]. cbn [app]. apply rd_silent; [exact I | exact HR].
    + inversion Es; subst. destruct (Hsame _ eq_refl eq_refl eq_refl) as [HR HN].
      split; [|exact HN]. cbn [app]. apply rd_silent; [exact I | exact HR].
    + inversion Es; subst. destruct (Hsame _ eq_refl eq_refl eq_refl) as [HR HN].
      split; [|exact HN]. cbn [app]. apply rd_ret; [reflexivity | exact HR].
    + inversion Es; subst. destruct (Hsame _ eq_refl eq_refl eq_refl) as [HR HN].
      split; [|exact HN]. cbn [app]. apply rd_silent; [exact I | exact HR].
    + inversion Es; subst. destruct (Hsame _ eq_refl eq_refl eq_refl) as [HR HN].
      split; [|exact HN]. cbn [app]. apply rd_silent; [exact I | exact HR].
    + destruct lets; [discriminate|].
      destruct (nmap_find (v_inner v) m) eqn:Ef; [discriminate|]. inversion Es; subst.
      destruct (IH _ _ _ _ _ _ _ (MD_snoc _ _ _ _ HM Ef) Ec) as [HR HN]. split.
      * cbn [app]. apply rd_arg; [exact (md_none _ _ _ HM _ Ef) | exact HR].
      * unfold nargs in *. cbn [filter is_arg length]. rewrite HN. lia.
    + inversion Es; subst. destruct (Hsame _ eq_refl eq_refl eq_refl) as [HR HN].
      split; [|exact HN]. cbn [app]. apply rd_ext, HR.
Qed.

Lemma reads_sscan D lets c es :
  stack_reads D lets c es ->
  forall m k na, MD m k D ->
    exists st', sscan c (m, k, na, lets) = Some (st', es) /\ st_na st' = (na + nargs c)%nat.
Proof.
  induction 1 as [D l | D v p t c es Hni _ IH | D l v e c es Hni _ IH | D l v r c es d Hd _ IH
                 | D l k0 r c es _ IH | D l v idx r c es d a Hd Ha _ IH | D l v e c es d Hd _ IH
                 | D l f args r c es _ IH | D l tag r c es _ IH | D l i c es Hr _ IH
                 | D l i c es Hs _ IH];
    intros m k na HM; cbn [sscan step_st].
  - eexists. split; [reflexivity|]. unfold st_na, nargs. cbn. lia.
  - pose proof (MD_fresh _ _ _ _ HM Hni) as Hf. rewrite Hf.
    destruct (IH _ _ (S na) (MD_snoc _ _ _ _ HM Hf)) as (st' & E & HN). unfold nmap in *.
    rewrite E.
    eexists. split; [reflexivity|]. unfold nargs in *. cbn [filter is_arg length]. rewrite HN. lia.
  - pose proof (MD_fresh _ _ _ _ HM Hni) as Hf. rewrite Hf.
    destruct (IH _ _ na (MD_snoc _ _ _ _ HM Hf)) as (st' & E & HN). unfold nmap in *.
    rewrite E.
    eexists. split; [rewrite (md_len _ _ _ HM); reflexivity|].
    unfold nargs in *. cbn [filter is_arg]. exact HN.
  - rewrite (MD_find _ _ _ _ _ HM Hd). destruct (IH _ _ na HM) as (st' & E & HN). rewrite E.
    eexists. split; [reflexivity | exact HN].
  - destruct (IH _ _ na HM) as (st' & E & HN). rewrite E.
    eexists. split; [reflexivity | exact HN].
  - rewrite (MD_find _ _ _ _ _ HM Hd), Ha. destruct (IH _ _ na HM) as (st' & E & HN). rewrite E.
    eexists. split; [reflexivity | exact HN].
  - rewrite (MD_find _ _ _ _ _ HM Hd). destruct (IH _ _ na HM) as (st' & E & HN). rewrite E.
    eexists. split; [reflexivity | exact HN].
  - destruct (IH _ _ na HM) as (st' & E & HN). rewrite E.
    eexists. split; [reflexivity | exact HN].
  - destruct (IH _ _ na HM) as (st' & E & HN). rewrite E.
    eexists. split; [reflexivity | exact HN].
  - destruct (IH _ _ na HM) as (st' & E & HN).
    destruct i; try discriminate Hr; cbn [sscan step_st]; rewrite E;
      (eexists; split; [reflexivity | exact HN]).
  - destruct (IH _ _ na HM) as (st' & E & HN).
    destruct i; try contradiction Hs; cbn [sscan step_st]; rewrite E;
      (eexists; split; [reflexivity | exact HN]).
Qed.

(** ** The boolean comparisons of the monitor are equalities *)
Lemma ev_eqb_eq a b : ev_eqb a b = true -> a = b.
Proof.
  destruct a, b; cbn; try discriminate; intro H;
    repeat match goal with
           | H : _ && _ = true |- _ => apply Bool.andb_true_iff in H as [? ?]
           | H : Nat.eqb _ _ = true |- _ => apply Nat.eqb_eq in H
           | H : String.eqb _ _ = true |- _ => apply String.eqb_eq in H
           | H : N.eqb _ _ = true |- _ => apply N.eqb_eq in H
           end; subst; reflexivity.
Qed.

Lemma evs_eqb_eq : forall l l', evs_eqb l l' = true -> l = l'.
Proof.
  induction l as [|a l IH]; intros [|b l']; cbn; try discriminate; [reflexivity|].
  intro H. apply Bool.andb_true_iff in H as [H1 H2]. apply ev_eqb_eq in H1. apply IH in H2.
  subst. reflexivity.
Qed.

Lemma ev_eqb_refl' e : ev_eqb e e = true.
Proof.
  destruct e; cbn; rewrite ?Nat.eqb_refl, ?String.eqb_refl, ?N.eqb_refl; reflexivity.
Qed.
Lemma evs_eqb_refl' l : evs_eqb l l = true.
Proof. induction l as [|e l IH]; cbn; [reflexivity|]. rewrite ev_eqb_refl', IH. reflexivity. Qed.

(** ** The reading of the monitor *)
Theorem chk_C03_fn_reading : forall f root,
  chk_C03_fn f root = true <->
  exists es, src_events f = Some es /\
             stack_reads [] false (b_ctx root) es /\
             nargs (b_ctx root) = length (fn_params f).
Proof.
  intros f root. unfold chk_C03_fn. rewrite stack_events_eq. split.
  - destruct (src_events f) as [es|]; [|discriminate].
    destruct (sscan (b_ctx root) st0) as [[[[[m k] na] lets] et]|] eqn:E; [|discriminate].
    intro H. apply Bool.andb_true_iff in H as [H1 H2].
    apply Nat.eqb_eq in H1. apply evs_eqb_eq in H2. subst et.
    destruct (sscan_reads _ _ _ _ _ _ _ _ MD_nil E) as [HR HN]. unfold st_na in HN. cbn in HN.
    exists es. split; [reflexivity|]. split; [exact HR | congruence].
  - intros (es & E1 & HR & HN). rewrite E1.
    destruct (reads_sscan _ _ _ _ HR [] O O MD_nil) as ([[[m k] na] lets] & E & HN').
    unfold st0, nmap in *. rewrite E. unfold st_na in HN'. cbn in HN'. rewrite HN', HN, Nat.eqb_refl.
    apply evs_eqb_refl'.
Qed.

Print Assumptions chk_C03_fn_reading.
