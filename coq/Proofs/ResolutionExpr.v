(** C03, the expression level: the instructions pushed by the analysis of an expression read,
    under the stack side's numbering, as the events the resolver emits for the expression in the
    related scopes; the scopes and the numbering are left as they were. *)
From Coq Require Import Lia.
From SA Require Import Model.
From SA.Spec Require Import Stack Tables.
From SA.Mon Require Import C03.
From SA.Proofs Require Import Trace InvNames DefUse ResolutionBase ResolutionLogic.
Local Open Scope list_scope.

Section Body.
  Variable GL : globals.
  Hypothesis HW : GWF GL.
  Variable na : nat.

  (** the resolver succeeds with events [es]; the stack has grown by instructions read as [es] *)
  Definition QE (e : expr) (s : bst) (r : option eres) (s' : bst) : Prop :=
    forall S n Ev, Inv na s S n Ev ->
      exists es, ev_expr S e = Some es /\ Inv na s' S n (Ev ++ es) /\ r <> None.
  Definition QV (v : expr_val) (s : bst) (r : option eres) (s' : bst) : Prop :=
    forall S n Ev, Inv na s S n Ev ->
      exists es, ev_val S v = Some es /\ Inv na s' S n (Ev ++ es) /\ r <> None.
  Definition QL (l : links) (s : bst) (r : option eres) (s' : bst) : Prop :=
    forall S n Ev, Inv na s S n Ev ->
      exists es, ev_links S l = Some es /\ Inv na s' S n (Ev ++ es) /\ r <> None.
  Definition QA (l : list expr) (s : bst) (r : option (list eres)) (s' : bst) : Prop :=
    forall S n Ev, Inv na s S n Ev ->
      exists es, ev_exprs S l = Some es /\ Inv na s' S n (Ev ++ es) /\ r <> None.
  Definition QF (f : ident) (l : list expr) (s : bst) (r : option sem_ty) (s' : bst) : Prop :=
    forall S n Ev, Inv na s S n Ev ->
      exists es, ev_exprs S l = Some es /\ Inv na s' S n (Ev ++ es ++ [ECall (iname f)]) /\
                 r <> None.

  Lemma J_check_type_exists s t v l :
    J s (check_type_exists GL t v l)
      (fun ok s' => ok = true /\ s' = s /\
                    (is_prim t = true \/ amem (type_name t) (g_types GL) = true)).
  Proof.
    unfold check_type_exists. destruct (is_prim t) eqn:E1.
    - apply J_ret. repeat split. left. reflexivity.
    - destruct (amem _ _) eqn:E2.
      + apply J_ret. repeat split. right. reflexivity.
      + apply J_dead_ret.
  Qed.

  Section Expr.
    Variable E : expr -> M (option eres).
    Hypothesis HE : forall e s, J s (E e) (QE e s).

    Lemma J_call_args callee params : forall args i acc s,
      J s (call_args E callee params i args acc) (QA args s).
    Proof.
      induction args as [|a args IH]; intros i acc s; cbn [call_args].
      - apply J_ret. intros S n Ev HI. exists []. rewrite app_nil_r.
        split; [reflexivity|]. split; [exact HI | discriminate].
      - eapply J_bind; [apply HE|]. intros r s1 N1. destruct r as [er|].
        + assert (Hdead : forall e0,
                    J s1 (add_error e0 ;;; call_args E callee params (S i) args acc)
                      (fun b s' => QE a s (Some er) s1 -> QA (a :: args) s b s')).
          { intro e0. apply J_dead. intro s2. eapply J_conseq; [apply IH|]. trivial. }
          destruct (nth_error params i) as [pt|]; [|apply Hdead].
          destruct (sem_ty_eqb pt (r_ty er)); [|apply Hdead].
          eapply J_conseq; [apply IH|]. intros r s' HQ2 HQ1 S n Ev HI.
          destruct (HQ1 _ _ _ HI) as (es1 & E1 & I1 & _).
          destruct (HQ2 _ _ _ I1) as (es2 & E2 & I2 & Nn).
          exists (es1 ++ es2). cbn [ev_exprs]. rewrite E1, E2. split; [reflexivity|].
          rewrite app_assoc. split; assumption.
        + apply J_ret. intros HQ S n Ev HI. destruct (HQ _ _ _ HI) as (es & _ & _ & C). congruence.
    Qed.

    Lemma J_function_call f args s : J s (function_call GL E f args) (QF f args s).
    Proof.
      unfold function_call. destruct (alookup (iname f) (g_funcs GL)) as [fd|] eqn:EF;
        [|apply J_dead_ret].
      eapply J_bind; [apply J_call_args|]. intros ps s1 N1. destruct ps as [params|].
      - eapply J_bind; [apply J_alloc|]. intros r s2 N2. apply J_ret.
        intros [N2' V2] HQ1 S n Ev HI. destruct (HQ1 _ _ _ HI) as (es & E1 & I1 & _).
        exists es. split; [exact E1|]. split; [|discriminate]. rewrite app_assoc.
        eapply Inv_step; [exact N2' | exact V2 | exact I1 |]. intros m lets _. cbn [step_st].
        rewrite (gwf_funcs _ HW _ _ (alookup_in _ _ _ EF)). reflexivity.
      - apply J_ret. intros HQ S n Ev HI. destruct (HQ _ _ _ HI) as (es & _ & _ & C). congruence.
    Qed.

    Lemma J_expr_value v s : J s (expr_value GL E v) (QV v s).
    Proof.
      destruct v as [x | p | f args | x a | e | t tag]; cbn [expr_value].
      - (* a name: the innermost live table that has it, on both sides *)
        apply J_gets_bind. destruct (lookup_frames (iname x) (frames s)) as [val|] eqn:EL.
        + eapply J_bind; [apply J_alloc|]. intros r s1 N1. apply J_ret.
          intros [N1' V1] S n Ev HI.
          pose proof (Inv_lookup _ _ _ _ _ (iname x) HI) as HL. rewrite EL in HL.
          destruct HL as (d & Hr & Hm). exists [EUse d]. cbn [ev_val]. rewrite Hr.
          split; [reflexivity|]. split; [|discriminate].
          eapply Inv_step; [exact N1' | exact V1 | exact HI |]. intros m lets HC. cbn [step_st].
          rewrite (Hm _ _ HC). reflexivity.
        + destruct (alookup (iname x) (g_consts GL)) as [c|] eqn:EC.
          * eapply J_bind; [apply J_alloc|]. intros r s1 N1. apply J_ret.
            intros [N1' V1] S n Ev HI.
            pose proof (Inv_lookup _ _ _ _ _ (iname x) HI) as HL. rewrite EL in HL.
            exists [EUseConst (iname x)]. cbn [ev_val]. rewrite HL.
            split; [reflexivity|]. split; [|discriminate].
            eapply Inv_step; [exact N1' | exact V1 | exact HI |]. intros m lets HC. cbn [step_st].
            rewrite (gwf_consts _ HW _ _ (alookup_in _ _ _ EC)). reflexivity.
          * eapply J_bind; [apply J_bump|]. intros r s1 N1. apply J_dead_ret.
      - apply J_ret. intros S n Ev HI. exists []. rewrite app_nil_r.
        split; [reflexivity|]. split; [exact HI | discriminate].
      - eapply J_bind; [apply J_function_call|]. intros t s1 N1. destruct t as [ty|].
        + eapply J_bind; [apply J_bump|]. intros r s2 N2. apply J_ret.
          intros [N2' V2] HQ1 S n Ev HI. destruct (HQ1 _ _ _ HI) as (es & E1 & I1 & _).
          exists (es ++ [ECall (iname f)]). rewrite ev_val_call, E1.
          split; [reflexivity|]. split; [|discriminate]. apply (Keeps_V _ _ N2' V2). exact I1.
        + apply J_ret. intros HQ S n Ev HI. destruct (HQ _ _ _ HI) as (es & _ & _ & C). congruence.
      - (* a field read *)
        apply J_gets_bind. destruct (lookup_frames (iname x) (frames s)) as [val|] eqn:EL;
          [|apply J_dead_ret].
        destruct (v_ty val) as [pt | name attrs | at_ an] eqn:ET; try apply J_dead_ret.
        eapply J_bind; [apply J_check_type_exists|]. intros ok s1 N1.
        destruct ok; cbn [negb]; [|apply J_ret; intros [C _]; discriminate].
        destruct (alookup (type_name (SStruct name attrs)) (g_types GL)) as [declared|] eqn:ED.
        2:{ apply J_ret. intros (_ & _ & [C|C]); [discriminate|]. unfold amem in C.
            rewrite ED in C. discriminate. }
        destruct (sem_ty_eqb (SStruct name attrs) declared) eqn:EQ; cbn [negb];
          [|apply J_dead_ret].
        destruct (attr_lookup (iname a) attrs) as [[idx aty]|] eqn:EA; [|apply J_dead_ret].
        eapply J_bind; [apply J_alloc|]. intros r s2 N2.
        eapply J_bind; [apply J_bump|]. intros r' s3 N3. apply J_ret.
        intros [N3' V3] [N2' V2] (_ & -> & _) S n Ev HI.
        pose proof (Inv_lookup _ _ _ _ _ (iname x) HI) as HL. rewrite EL in HL.
        destruct HL as (d & Hr & Hm). exists [EUseField d (iname a)]. cbn [ev_val]. rewrite Hr.
        split; [reflexivity|]. split; [|discriminate]. apply (Keeps_V _ _ N3' V3).
        eapply Inv_step; [exact N2' | exact V2 | exact HI |]. intros m lets HC. cbn [step_st].
        rewrite (Hm _ _ HC), ET. cbn [field_name].
        assert (Hnd : NoDup (map idx_of attrs)).
        { apply sem_ty_eqb_eq in EQ. subst declared.
          exact (gwf_types _ HW _ _ (alookup_in _ _ _ ED)). }
        rewrite (attr_name_at_lookup _ _ _ _ Hnd EA). reflexivity.
      - eapply J_conseq; [apply HE|]. intros r s' HQ S n Ev HI. rewrite ev_val_sub. apply HQ, HI.
      - eapply J_bind; [apply J_alloc|]. intros r s1 N1. apply J_ret.
        intros [N1' V1] S n Ev HI. exists [EExt tag]. split; [reflexivity|]. split; [|discriminate].
        eapply Inv_step; [exact N1' | exact V1 | exact HI |]. intros m lets HC. reflexivity.
    Qed.

    Lemma J_expr_chain : forall rest left s, J s (expr_chain GL E left rest) (QL rest s).
    Proof.
      induction rest as [|[op v] rest IH]; intros left s; cbn [expr_chain].
      - apply J_ret. intros S n Ev HI. exists []. rewrite app_nil_r.
        split; [reflexivity|]. split; [exact HI | discriminate].
      - eapply J_bind; [apply J_expr_value|]. intros rv s1 N1. destruct rv as [rgt|].
        + destruct (negb _); [apply J_dead_ret|].
          eapply J_bind; [apply K_alloc; intro; exact I|]. intros r s2 N2.
          eapply J_conseq; [apply IH|]. intros r' s' HQ3 HK HQ1 S n Ev HI.
          destruct (HQ1 _ _ _ HI) as (es1 & E1 & I1 & _). apply HK in I1.
          destruct (HQ3 _ _ _ I1) as (es2 & E2 & I2 & Nn).
          exists (es1 ++ es2). cbn [ev_links]. rewrite E1, E2. split; [reflexivity|].
          rewrite app_assoc. split; assumption.
        + apply J_ret. intros HQ S n Ev HI. destruct (HQ _ _ _ HI) as (es & _ & _ & C). congruence.
    Qed.

    Lemma J_expression_body e s : J s (expression_body GL E e) (QE e s).
    Proof.
      unfold expression_body. destruct (fold_priority e) as [v rest] eqn:EF.
      eapply J_bind; [apply J_expr_value|]. intros rv s1 N1. destruct rv as [first|].
      - eapply J_conseq; [apply J_expr_chain|]. intros r s' HQ2 HQ1 S n Ev HI.
        destruct (HQ1 _ _ _ HI) as (es1 & E1 & I1 & _).
        destruct (HQ2 _ _ _ I1) as (es2 & E2 & I2 & Nn).
        exists (es1 ++ es2). rewrite <- ev_fold_priority, EF, ev_expr_eq, E1, E2.
        split; [reflexivity|]. rewrite app_assoc. split; assumption.
      - apply J_ret. intros HQ S n Ev HI. destruct (HQ _ _ _ HI) as (es & _ & _ & C). congruence.
    Qed.
  End Expr.

  Lemma J_expression fuel : forall e s, J s (expression GL fuel e) (QE e s).
  Proof.
    induction fuel as [|f IH]; intros e s; cbn [expression]; [apply J_oof|].
    apply J_expression_body. exact IH.
  Qed.
End Body.
