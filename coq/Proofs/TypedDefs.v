(** C04 (the emitted stack is well typed), part 0: the two facts about the source program and
    about the global tables that the proof of [Proofs/Typed.v] consumes, as definitions.

    - [ar_*]: "every call passes exactly as many arguments as its callee declares", as a
      predicate on the source with the recursion of the model (re-bracketing, the same fuels).
      It follows from [wf_b] (intended rule R10); the analyzer itself does not check it
      (finding F2).  Proven in [Proofs/TypedWf.v].
    - [GWf]: the global tables of a run are keyed by the names of their entries, and the
      attribute indices of a declared struct type are distinct (so that looking an attribute
      up by index finds the one found by name).  Proven in [Proofs/TypedWf.v]. *)
From SA Require Import Model.
From SA.Mon Require Import C04.
Local Open Scope list_scope.

Section Arity.
  Variable F : list (string * func_sem).     (* [g_funcs] of the run *)

  Section OneLevel.
    Variable AE : expr -> bool.
    Definition ar_call (f : ident) (args : list expr) : bool :=
      match alookup (iname f) F with
      | Some fd => Nat.eqb (length args) (length (f_params fd)) && forallb AE args
      | None => true
      end.
    Definition ar_val (v : expr_val) : bool :=
      match v with
      | EVCall f args => ar_call f args
      | EVSub e => AE e
      | _ => true
      end.
    Definition ar_body (e : expr) : bool :=
      match fold_priority e with
      | Expr v rest => ar_val v && forallb (fun l => ar_val (snd l)) rest
      end.
  End OneLevel.

  Fixpoint ar_expr (fuel : nat) (e : expr) : bool :=
    match fuel with
    | O => true
    | S f => ar_body (ar_expr f) e
    end.

  Section Stmts.
    Variable fuel : nat.

    Fixpoint ar_lcond (c : lcond) : bool :=
      match c with
      | LC l _ r next =>
          ar_expr fuel l && ar_expr fuel r &&
          match next with Some (_, c') => ar_lcond c' | None => true end
      end.
    Definition ar_cond (c : cond) : bool :=
      match c with CSingle e => ar_expr fuel e | CLogic l => ar_lcond l end.

    Section Control.
      Variable AIF : ifstmt -> bool.
      Variable ALOOP : list stmt -> bool.
      Definition ar_nested (st : stmt) : bool :=
        match st with
        | SLet _ _ _ e | SBind _ e | SRet e => ar_expr fuel e
        | SCall f args => ar_call (ar_expr fuel) f args
        | SIf i => AIF i
        | SLoop b => ALOOP b
        | SExprStmt _ | SBreak | SContinue => true
        end.
      Definition ar_ifbody (b : ifbody) : bool :=
        match b with IBIf ss | IBLoop ss => forallb ar_nested ss end.
      Definition ar_if_step (i : ifstmt) : bool :=
        match i with
        | IfS c body els elif =>
            ar_cond c && ar_ifbody body &&
            match els with
            | Some eb => ar_ifbody eb
            | None => match elif with Some ei => AIF ei | None => true end
            end
        end.
      Definition ar_loop_step (body : list stmt) : bool := forallb ar_nested body.
    End Control.

    Fixpoint ar_if (n : nat) (i : ifstmt) : bool :=
      match n with
      | O => true
      | S n' => ar_if_step (ar_if n') (ar_loop n') i
      end
    with ar_loop (n : nat) (body : list stmt) : bool :=
      match n with
      | O => true
      | S n' => ar_loop_step (ar_if n') (ar_loop n') body
      end.

    Definition ar_fn_stmt (st : stmt) : bool :=
      match st with
      | SLet _ _ _ e | SBind _ e | SRet e | SExprStmt e => ar_expr fuel e
      | SCall f args => ar_call (ar_expr fuel) f args
      | SIf i => ar_if fuel i
      | SLoop b => ar_loop fuel b
      | SBreak | SContinue => true
      end.
  End Stmts.

  Definition ar_fn (f : fn_decl) : bool := forallb (ar_fn_stmt (fuel_of f)) (fn_body f).
End Arity.

Record GWf (G : globals) : Prop := {
  gw_funcs : forall k fd, alookup k (g_funcs G) = Some fd -> f_name fd = k;
  gw_consts : forall k c, alookup k (g_consts G) = Some c -> c_name c = k;
  gw_types : forall k n attrs a idx aty,
      alookup k (g_types G) = Some (SStruct n attrs) ->
      attr_lookup a attrs = Some (idx, aty) -> attr_ty_at idx attrs = Some aty }.
