(** The monitors of C19 decide exactly the readings of [Spec/Readings19.v].

    - the source side: [leaves_fn] is the monitor's [fn_exts]; the stack side: [ext_tags] is
      the tag projection of [stack_exts];
    - (1) [chk_order_fn_reading];
    - (2) [scan_types_reading] (the monitor's table [seen] and counter [j] describe the prefix
      already read: [seen_ok]), [used_once_reading], [chk_types_fn_reading];
    - (3) [sub_multiset_reading], [chk_blocks_tree_reading];
    - programs: [chk_C19_order_reading], [chk_C19_types_reading], [chk_C19_blocks_reading],
      [chk_C19_strict_reading]. *)
From Coq Require Import Lia.
From SA Require Import Model.
From SA.Spec Require Import Stack Tables Readings19.
From SA.Mon Require Import C19.
From SA.Proofs Require Import CodecRT InvTree.
Local Open Scope list_scope.

(** ** The source side *)
Lemma leaves_expr_val :
  (forall e, leaves_expr e = expr_exts e) /\ (forall v, leaves_val v = val_exts v).
Proof.
  apply expr_val_ind'.
  - intros v rest Hv Hrest. cbn [leaves_expr expr_exts]. rewrite Hv. f_equal.
    induction Hrest as [|[o v'] l Hx _ IH]; [reflexivity|].
    cbn [flat_map snd] in *. rewrite Hx, IH. reflexivity.
  - reflexivity.
  - reflexivity.
  - intros f args Hargs. cbn [leaves_val val_exts].
    induction Hargs as [|a l Ha _ IH]; [reflexivity|]. cbn [flat_map]. rewrite Ha, IH. reflexivity.
  - reflexivity.
  - intros e He. exact He.
  - reflexivity.
Qed.

Lemma leaves_expr_eq e : leaves_expr e = expr_exts e.
Proof. apply leaves_expr_val. Qed.

Lemma flat_map_ext' {A B} (f g : A -> list B) l : (forall a, f a = g a) -> flat_map f l = flat_map g l.
Proof. intro H. induction l as [|a l IH]; [reflexivity|]. cbn. rewrite H, IH. reflexivity. Qed.

Lemma leaves_lcond_eq : forall c, leaves_lcond c = lcond_exts c.
Proof.
  apply lcond_ind'. intros l c r next Hn. cbn [leaves_lcond lcond_exts].
  rewrite !leaves_expr_eq. destruct next as [[o c']|]; [|reflexivity]. cbn in Hn. rewrite Hn. reflexivity.
Qed.

Lemma leaves_cond_eq c : leaves_cond c = cond_exts c.
Proof. destruct c; cbn; [apply leaves_expr_eq | apply leaves_lcond_eq]. Qed.

Lemma leaves_stmt_all :
  (forall s, leaves_stmt s = stmt_exts s) /\ (forall i, leaves_if i = if_exts i) /\
  (forall b, leaves_ifbody b = ifbody_exts b).
Proof.
  assert (Hgo : forall ss, Forall (fun s => leaves_stmt s = stmt_exts s) ss ->
                flat_map leaves_stmt ss =
                (fix go (l : list stmt) : list (N * ast_ty) :=
                   match l with [] => [] | x :: l' => stmt_exts x ++ go l' end) ss).
  { induction 1 as [|s l Hs _ IH]; [reflexivity|]. cbn [flat_map]. rewrite Hs, IH. reflexivity. }
  apply stmt_all_ind'.
  - intros; apply leaves_expr_eq.
  - intros; apply leaves_expr_eq.
  - intros f args. cbn [leaves_stmt stmt_exts]. apply flat_map_ext', leaves_expr_eq.
  - intros i Hi. exact Hi.
  - intros body Hb. cbn [leaves_stmt stmt_exts]. apply Hgo, Hb.
  - intros; apply leaves_expr_eq.
  - intros; apply leaves_expr_eq.
  - reflexivity.
  - reflexivity.
  - intros c body els elif Hb He Hi. cbn [leaves_if if_exts]. rewrite leaves_cond_eq, Hb.
    destruct els as [eb|]; [cbn in He; rewrite He; reflexivity|].
    destruct elif as [ei|]; [cbn in Hi; rewrite Hi; reflexivity | reflexivity].
  - intros ss Hs. cbn [leaves_ifbody ifbody_exts]. apply Hgo, Hs.
  - intros ss Hs. cbn [leaves_ifbody ifbody_exts]. apply Hgo, Hs.
Qed.

Lemma leaves_fn_eq f : leaves_fn f = fn_exts f.
Proof. unfold leaves_fn, fn_exts. apply flat_map_ext', leaves_stmt_all. Qed.

(** ** The stack side *)
Lemma ext_tags_eq c : ext_tags c = map fst (stack_exts c).
Proof.
  unfold ext_tags, stack_exts. induction c as [|i c IH]; [reflexivity|].
  cbn [flat_map]. rewrite map_app, IH. destruct i; reflexivity.
Qed.

Lemma ext_count_eq c : ext_count c = length (stack_exts c).
Proof. unfold ext_count. rewrite ext_tags_eq. apply map_length. Qed.

(** ** (1) once, in place *)
Lemma list_N_eqb_eq : forall a b, list_N_eqb a b = true <-> a = b.
Proof.
  induction a as [|x a IH]; intros [|y b]; cbn; try (split; [discriminate | discriminate]).
  - split; reflexivity.
  - rewrite Bool.andb_true_iff, N.eqb_eq, IH. split.
    + intros [-> ->]; reflexivity.
    + intro H; inversion H; split; reflexivity.
Qed.

Lemma chk_order_fn_reading f root : chk_order_fn f root = true <-> order_reading f root.
Proof.
  unfold chk_order_fn, order_reading. rewrite list_N_eqb_eq, ext_tags_eq, leaves_fn_eq. reflexivity.
Qed.

Lemma all_fns_Forall2 (chk : fn_decl -> block -> bool) (R : fn_decl -> block -> Prop) :
  (forall f r, chk f r = true <-> R f r) ->
  forall fs roots, all_fns chk fs roots = true <-> Forall2 R fs roots.
Proof.
  intro H. induction fs as [|f fs IH]; intros [|r roots]; cbn [all_fns].
  - split; [constructor | reflexivity].
  - split; [discriminate | intro H0; inversion H0].
  - split; [discriminate | intro H0; inversion H0].
  - rewrite Bool.andb_true_iff, H, IH. split.
    + intros [H1 H2]. constructor; assumption.
    + intro H0. inversion H0; subst. split; assumption.
Qed.

(** ** (2) the result is used verbatim *)
Lemma typed_operands_eq i : typed_operands i = operands_of i.
Proof. destruct i; reflexivity. Qed.

Lemma nthN_nth_error {A} : forall (l : list A) n, nthN l n = nth_error l (N.to_nat n).
Proof.
  induction l as [|x l IH]; intro n; cbn [nthN].
  - destruct (N.to_nat n); reflexivity.
  - destruct (N.eqb_spec n 0) as [->|Hn]; [reflexivity|].
    rewrite IH. replace (N.to_nat n) with (S (N.to_nat (n - 1))) by lia. reflexivity.
Qed.

Lemma ext_count_app a b : ext_count (a ++ b) = (ext_count a + ext_count b)%nat.
Proof. unfold ext_count, ext_tags. rewrite flat_map_app, app_length. reflexivity. Qed.

Lemma snoc_split {A} (pre : list A) i a x b :
  pre ++ [i] = a ++ x :: b ->
  (b = [] /\ a = pre /\ x = i) \/ (exists b', b = b' ++ [i] /\ pre = a ++ x :: b').
Proof.
  intro H. destruct (@exists_last _ (x :: b)) as (l' & y & E); [discriminate|].
  rewrite E, app_assoc in H. apply app_inj_tail in H as [H1 H2]. subst y pre.
  destruct b as [|b0 b] using rev_ind.
  - left. destruct l' as [|z l']; [|destruct l'; discriminate E].
    cbn in E. inversion E; subst. rewrite app_nil_r. repeat split.
  - right. clear IHb. exists b. rewrite app_comm_cons in E. apply app_inj_tail in E as [E1 E2].
    subst. split; reflexivity.
Qed.

Lemma ext_register_nil n j : ~ ext_register [] n j.
Proof. intros (pre1 & tag & pre2 & H & _). destruct pre1; discriminate H. Qed.

Lemma ext_register_snoc pre i n j :
  ext_register (pre ++ [i]) n j <->
  ((exists tag, i = IExt tag n) /\ j = ext_count pre) \/
  ((forall tag, i <> IExt tag n) /\ ext_register pre n j).
Proof.
  split.
  - intros (pre1 & tag & pre2 & H & Hno & Hj). apply snoc_split in H as [(-> & -> & <-)|(b' & -> & ->)].
    + left. split; [exists tag; reflexivity | exact Hj].
    + right. split.
      * intros tag' Hi. apply (Hno tag'). apply in_or_app. right. left. exact Hi.
      * exists pre1, tag, b'. split; [reflexivity|]. split; [|exact Hj].
        intros tag' Hin. apply (Hno tag'). apply in_or_app. left. exact Hin.
  - intros [[[tag ->] ->]|[Hi (pre1 & tag & pre2 & -> & Hno & ->)]].
    + exists pre, tag, []. split; [reflexivity|]. split; [intros ? []| reflexivity].
    + exists pre1, tag, (pre2 ++ [i]). split; [rewrite <- app_assoc; reflexivity|].
      split; [|reflexivity]. intros tag' Hin. apply in_app_or in Hin as [Hin|[Hin|[]]].
      * exact (Hno tag' Hin).
      * exact (Hi tag' Hin).
Qed.

(** the monitor's table and counter describe the prefix [pre] already read *)
Definition seen_ok (pre : list instr) (seen : list (N * N)) (j : N) : Prop :=
  j = N.of_nat (ext_count pre) /\
  forall n k, ext_register pre n k <-> ext_pos n seen = Some (N.of_nat k).

Lemma seen_ok_nil : seen_ok [] [] 0.
Proof.
  split; [reflexivity|]. intros n k. split; [intro H; destruct (ext_register_nil _ _ H) | discriminate].
Qed.

Lemma seen_ok_step pre seen j i :
  seen_ok pre seen j ->
  match i with
  | IExt _ r => seen_ok (pre ++ [i]) ((r, j) :: seen) (j + 1)
  | _ => seen_ok (pre ++ [i]) seen j
  end.
Proof.
  intros [Hj Hs].
  assert (Hother : (forall tag n, i <> IExt tag n) -> seen_ok (pre ++ [i]) seen j).
  { intro Hi. split.
    - rewrite ext_count_app. replace (ext_count [i]) with 0%nat; [rewrite Nat.add_0_r; exact Hj|].
      destruct i; try reflexivity. exfalso. eapply Hi. reflexivity.
    - intros n k. rewrite ext_register_snoc, <- Hs. split.
      + intros [[[tag ->] _]|[_ H]]; [exfalso; eapply Hi; reflexivity | exact H].
      + intro H. right. split; [intro tag; apply Hi | exact H]. }
  destruct i; try (apply Hother; intros; discriminate).
  split.
  - rewrite ext_count_app. cbn. lia.
  - intros n k. rewrite ext_register_snoc. cbn [ext_pos]. destruct (N.eqb_spec n reg) as [->|Hn].
    + split.
      * intros [[_ ->]|[Hi _]]; [rewrite Hj; reflexivity | exfalso; eapply Hi; reflexivity].
      * intro H. left. split; [exists tag; reflexivity|]. inversion H as [H1]. rewrite Hj in H1.
        apply Nat2N.inj in H1. symmetry. exact H1.
    + rewrite <- Hs. split.
      * intros [[[tag' H] _]|[_ H]]; [inversion H; subst; contradiction | exact H].
      * intro H. right. split; [intros tag' H'; inversion H'; subst; contradiction | exact H].
Qed.

Lemma operand_ty_ok_reading src pre seen j e :
  seen_ok pre seen j ->
  (operand_ty_ok src seen e = true <->
   forall n k, r_val e = RReg n -> ext_register pre n k ->
               exists tag t, nth_error src k = Some (tag, t) /\ r_ty e = sem_of_ty t).
Proof.
  intros [_ Hs]. unfold operand_ty_ok. destruct (r_val e) as [n|p].
  - destruct (ext_pos n seen) as [j0|] eqn:Ep.
    + assert (Hr : ext_register pre n (N.to_nat j0)) by (apply Hs; rewrite N2Nat.id; exact Ep).
      rewrite nthN_nth_error. split.
      * intros H n' k Hn Hk. inversion Hn; subst n'. apply Hs in Hk. rewrite Ep in Hk.
        inversion Hk; subst j0. rewrite Nat2N.id in H.
        destruct (nth_error src k) as [[tag t]|]; [|discriminate H].
        exists tag, t. split; [reflexivity | apply sem_ty_eqb_eq, H].
      * intro H. destruct (H n _ eq_refl Hr) as (tag & t & -> & Ht). apply sem_ty_eqb_eq, Ht.
    + split; [|reflexivity]. intros _ n' k Hn Hk. inversion Hn; subst n'. apply Hs in Hk. congruence.
  - split; [|reflexivity]. intros _ n k Hn. discriminate Hn.
Qed.

Lemma scan_types_reading src : forall c pre seen j,
  seen_ok pre seen j ->
  (scan_types src seen j c = true <->
   forall c1 i c2 e n k,
     c = c1 ++ i :: c2 -> In e (typed_operands i) -> r_val e = RReg n ->
     ext_register (pre ++ c1) n k ->
     exists tag t, nth_error src k = Some (tag, t) /\ r_ty e = sem_of_ty t).
Proof.
  induction c as [|i c IH]; intros pre seen j Hok.
  - split; [|reflexivity]. intros _ c1 i c2 e n k H. destruct c1; discriminate H.
  - cbn [scan_types]. rewrite Bool.andb_true_iff, forallb_forall.
    assert (Hnext : (match i with
                     | IExt _ r => scan_types src ((r, j) :: seen) (j + 1) c
                     | _ => scan_types src seen j c
                     end = true) <->
                    forall c1 i' c2 e n k,
                      c = c1 ++ i' :: c2 -> In e (typed_operands i') -> r_val e = RReg n ->
                      ext_register ((pre ++ [i]) ++ c1) n k ->
                      exists tag t, nth_error src k = Some (tag, t) /\ r_ty e = sem_of_ty t).
    { pose proof (seen_ok_step pre seen j i Hok) as Hstep. destruct i; apply IH; exact Hstep. }
    rewrite Hnext. split.
    + intros [H1 H2] c1 i' c2 e n k Hc He Hn Hk. destruct c1 as [|i0 c1].
      * inversion Hc; subst i' c2. rewrite app_nil_r in Hk. rewrite typed_operands_eq in He.
        apply (proj1 (operand_ty_ok_reading src pre seen j e Hok) (H1 e He) n k Hn Hk).
      * inversion Hc; subst i0 c. apply (H2 c1 i' c2 e n k eq_refl He Hn).
        rewrite <- app_assoc. exact Hk.
    + intro H. split.
      * intros e He. apply (operand_ty_ok_reading src pre seen j e Hok). intros n k Hn Hk.
        apply (H [] i c e n k eq_refl); [rewrite typed_operands_eq; exact He | exact Hn|].
        rewrite app_nil_r. exact Hk.
      * intros c1 i' c2 e n k Hc He Hn Hk. apply (H (i :: c1) i' c2 e n k); [rewrite Hc; reflexivity | exact He | exact Hn|].
        rewrite <- app_assoc in Hk. exact Hk.
Qed.

Lemma scan_types_verbatim src c : scan_types src [] 0 c = true <-> verbatim_types src c.
Proof. rewrite (scan_types_reading src c [] [] 0 seen_ok_nil). unfold verbatim_types. reflexivity. Qed.

(** read exactly once *)
Lemma count_N_occ n : forall l, count_N n l = N.of_nat (count_occ N.eq_dec l n).
Proof.
  induction l as [|m l IH]; [reflexivity|]. cbn [count_N count_occ]. rewrite IH.
  destruct (N.eqb_spec n m) as [->|Hn].
  - destruct (N.eq_dec m m) as [_|H]; [lia | contradiction].
  - destruct (N.eq_dec m n) as [H|_]; [subst; contradiction | lia].
Qed.

Lemma in_stack_exts tag r c : In (tag, r) (stack_exts c) <-> In (IExt tag r) c.
Proof.
  unfold stack_exts. rewrite in_flat_map. split.
  - intros (i & Hi & Hin). destruct i; try contradiction. destruct Hin as [H|[]]. inversion H; subst. exact Hi.
  - intro H. exists (IExt tag r). split; [exact H | left; reflexivity].
Qed.

Lemma used_once_reading c : used_once c = true <-> read_once c.
Proof.
  unfold used_once, read_once. rewrite forallb_forall. split.
  - intros H tag r Hin. apply in_stack_exts in Hin. apply H in Hin. cbn [snd] in Hin.
    apply N.eqb_eq in Hin. rewrite count_N_occ in Hin. lia.
  - intros H [tag r] Hin. apply in_stack_exts in Hin. cbn [snd]. apply N.eqb_eq.
    rewrite count_N_occ, (H tag r Hin). reflexivity.
Qed.

Lemma chk_types_fn_reading f root : chk_types_fn f root = true <-> types_reading f root.
Proof.
  unfold chk_types_fn, types_reading.
  rewrite Bool.andb_true_iff, scan_types_verbatim, used_once_reading, leaves_fn_eq. reflexivity.
Qed.

(** ** (3) through the block interface *)
Definition cnt (x : N * N) (l : list (N * N)) : nat := length (filter (ext_eqb x) l).

Lemma ext_eqb_eq a b : ext_eqb a b = true <-> a = b.
Proof.
  destruct a as [a1 a2], b as [b1 b2]. unfold ext_eqb. cbn.
  rewrite Bool.andb_true_iff, !N.eqb_eq. split; [intros [-> ->]; reflexivity | intro H; inversion H; split; reflexivity].
Qed.

Lemma ext_eqb_sym a b : ext_eqb a b = ext_eqb b a.
Proof.
  destruct (ext_eqb a b) eqn:E1, (ext_eqb b a) eqn:E2; try reflexivity.
  - apply ext_eqb_eq in E1. subst. assert (H : ext_eqb b b = true) by (apply ext_eqb_eq; reflexivity). congruence.
  - apply ext_eqb_eq in E2. subst. assert (H : ext_eqb a a = true) by (apply ext_eqb_eq; reflexivity). congruence.
Qed.

Lemma copies_cnt tag r c : copies tag r c = cnt (tag, r) (stack_exts c).
Proof.
  unfold copies, cnt, stack_exts. induction c as [|i c IH]; [reflexivity|].
  cbn [filter flat_map]. destruct i; cbn [is_ext ext_of app]; try exact IH.
  cbn [filter]. unfold ext_eqb at 1. cbn [fst snd].
  destruct (N.eqb tag tag0 && N.eqb r reg)%bool; cbn [length]; rewrite IH; reflexivity.
Qed.

Lemma cnt_cons y x l : cnt y (x :: l) = ((if ext_eqb y x then 1 else 0) + cnt y l)%nat.
Proof. unfold cnt. cbn [filter]. destruct (ext_eqb y x); reflexivity. Qed.

Lemma remove_one_some x : forall b b',
  remove_one x b = Some b' -> forall y, cnt y b = ((if ext_eqb y x then 1 else 0) + cnt y b')%nat.
Proof.
  induction b as [|z b IH]; intros b' H y; [discriminate H|]. cbn [remove_one] in H.
  destruct (ext_eqb x z) eqn:E.
  - inversion H; subst b'. apply ext_eqb_eq in E. subst z. apply cnt_cons.
  - destruct (remove_one x b) as [r|]; [|discriminate H]. inversion H; subst b'.
    rewrite !cnt_cons, (IH r eq_refl y). lia.
Qed.

Lemma remove_one_none x : forall b, remove_one x b = None -> cnt x b = 0%nat.
Proof.
  induction b as [|z b IH]; intro H; [reflexivity|]. cbn [remove_one] in H.
  destruct (ext_eqb x z) eqn:E; [discriminate H|].
  destruct (remove_one x b) as [r|]; [discriminate H|]. rewrite cnt_cons, E, IH; reflexivity.
Qed.

Lemma sub_multiset_cnt : forall a b, sub_multiset a b = true <-> forall y, (cnt y a <= cnt y b)%nat.
Proof.
  induction a as [|x a IH]; intro b; cbn [sub_multiset].
  - split; [intros _ y; cbn; lia | reflexivity].
  - destruct (remove_one x b) as [b'|] eqn:E.
    + rewrite IH. pose proof (remove_one_some x b b' E) as Hb. split.
      * intros H y. rewrite cnt_cons, Hb. specialize (H y). lia.
      * intros H y. specialize (H y). rewrite cnt_cons, Hb in H. lia.
    + split; [discriminate|]. intro H. specialize (H x). rewrite cnt_cons, (remove_one_none x b E) in H.
      assert (Hx : ext_eqb x x = true) by (apply ext_eqb_eq; reflexivity). rewrite Hx in H. lia.
Qed.

Lemma sub_multiset_reading k b :
  sub_multiset (stack_exts k) (stack_exts b) = true <-> ext_included k b.
Proof.
  rewrite sub_multiset_cnt. unfold ext_included. split.
  - intros H tag r. rewrite !copies_cnt. apply H.
  - intros H [tag r]. rewrite <- !copies_cnt. apply H.
Qed.

Lemma chk_blocks_tree_unfold b :
  chk_blocks_tree b =
  forallb (fun k => sub_multiset (stack_exts (b_ctx k)) (stack_exts (b_ctx b)) && chk_blocks_tree k)
          (b_kids b).
Proof.
  destruct b as [v i l r m ctx kids]. cbn [chk_blocks_tree b_ctx b_kids].
  induction kids as [|k ks IH]; [reflexivity|]. cbn [forallb]. rewrite IH. reflexivity.
Qed.

Lemma chk_blocks_tree_reading : forall b, chk_blocks_tree b = true <-> blocks_reading b.
Proof.
  apply block_ind'. intros b IH. rewrite chk_blocks_tree_unfold, forallb_forall.
  rewrite Forall_forall in IH. split.
  - intro H. constructor. intros k Hk. specialize (H k Hk). apply Bool.andb_true_iff in H as [H1 H2].
    split; [apply sub_multiset_reading, H1 | apply (IH k Hk), H2].
  - intros H k Hk. inversion H as [b0 Hb]; subst. destruct (Hb k Hk) as [H1 H2].
    apply Bool.andb_true_iff. split; [apply sub_multiset_reading, H1 | apply (IH k Hk), H2].
Qed.

(** "and in every ancestor's stack": inclusion composes along the paths of the tree *)
Lemma ext_included_refl c : ext_included c c.
Proof. intros tag r. lia. Qed.

Lemma ext_included_trans a b c : ext_included a b -> ext_included b c -> ext_included a c.
Proof. intros H1 H2 tag r. specialize (H1 tag r). specialize (H2 tag r). lia. Qed.

Lemma blocks_reading_descendant b d :
  descendant b d -> blocks_reading b -> ext_included (b_ctx d) (b_ctx b) /\ blocks_reading d.
Proof.
  induction 1 as [b | b k d Hk _ IH]; intro Hb; [split; [apply ext_included_refl | exact Hb]|].
  inversion Hb as [b0 Hkids]; subst. destruct (Hkids k Hk) as [H1 H2].
  destruct (IH H2) as [H3 H4]. split; [eapply ext_included_trans; eassumption | exact H4].
Qed.

(** an instruction of a block is an instruction of every block above it *)
Lemma ext_included_In child parent tag r :
  ext_included child parent -> In (IExt tag r) child -> In (IExt tag r) parent.
Proof.
  intros H Hin. specialize (H tag r). unfold copies in H.
  assert (Hc : In (IExt tag r) (filter (is_ext tag r) child)).
  { apply filter_In. split; [exact Hin|]. cbn. rewrite !N.eqb_refl. reflexivity. }
  destruct (filter (is_ext tag r) parent) as [|x l] eqn:E.
  - destruct (filter (is_ext tag r) child); [contradiction | cbn in H; lia].
  - assert (Hx : In x (filter (is_ext tag r) parent)) by (rewrite E; left; reflexivity).
    apply filter_In in Hx as [Hx1 Hx2]. destruct x; try discriminate Hx2. cbn in Hx2.
    apply Bool.andb_true_iff in Hx2 as [H1 H2]. apply N.eqb_eq in H1, H2. subst. exact Hx1.
Qed.

(** ** Programs *)
Lemma accepted_only_iff o b (P : Prop) :
  (b = true <-> P) -> (accepted_only o b = true <-> (o_errors o = [] -> P)).
Proof.
  intro H. unfold accepted_only. destruct (o_errors o) as [|e es].
  - rewrite H. split; [intros HP _; exact HP | intro HP; apply HP; reflexivity].
  - split; [intros _ H0; discriminate H0 | reflexivity].
Qed.

Theorem chk_C19_order_reading p o : chk_C19_order p o = true <-> C19_order_reading p o.
Proof. apply accepted_only_iff, all_fns_Forall2, chk_order_fn_reading. Qed.

Theorem chk_C19_types_reading p o : chk_C19_types p o = true <-> C19_types_reading p o.
Proof. apply accepted_only_iff, all_fns_Forall2, chk_types_fn_reading. Qed.

Lemma forallb_blocks roots : forallb chk_blocks_tree roots = true <-> Forall blocks_reading roots.
Proof.
  rewrite forallb_forall, Forall_forall. split; intros H b Hb; apply chk_blocks_tree_reading, H, Hb.
Qed.

Theorem chk_C19_blocks_reading p o : chk_C19_blocks p o = true <-> C19_blocks_reading o.
Proof. apply accepted_only_iff, forallb_blocks. Qed.

Theorem chk_C19_strict_reading p o : chk_C19_strict p o = true <-> C19_strict_reading p o.
Proof.
  unfold chk_C19_strict, C19_strict_reading.
  rewrite !Bool.andb_true_iff, (all_fns_Forall2 _ _ chk_order_fn_reading),
    (all_fns_Forall2 _ _ chk_types_fn_reading), forallb_blocks. tauto.
Qed.

Theorem chk_C19_reading p o :
  chk_C19 p o = true <-> C19_order_reading p o /\ C19_types_reading p o /\ C19_blocks_reading o.
Proof.
  unfold chk_C19. rewrite !Bool.andb_true_iff, chk_C19_order_reading, chk_C19_types_reading,
    chk_C19_blocks_reading. tauto.
Qed.
