(** Facts about the two rule sets of [Spec/FirstViolation.v] that need no simulation:
    - the enforced rule set is weaker than the intended one ([wf_implies_accepted_spec]);
    - they do differ: witnesses for F2 and for the two shapes of F8, which the model accepts. *)
From SA Require Import Model.
From SA.Spec Require Import FirstViolation.
Local Open Scope list_scope.

(** ** "Weaker": whatever passes on the left passes on the right, with the same result *)
Definition weaker {A} (intended enforced : outcome A) : Prop :=
  forall a, intended = Pass a -> enforced = Pass a.

Lemma weaker_refl {A} (m : outcome A) : weaker m m.
Proof. intros a H. exact H. Qed.

Lemma weaker_fail {A} v (m : outcome A) : weaker (Fail v) m.
Proof. intros a H. discriminate H. Qed.

Lemma weaker_stuck {A} (m : outcome A) : weaker Stuck m.
Proof. intros a H. discriminate H. Qed.

Lemma weaker_andthen {A B} (m1 m2 : outcome A) (k1 k2 : A -> outcome B) :
  weaker m1 m2 -> (forall a, weaker (k1 a) (k2 a)) ->
  weaker (andthen m1 k1) (andthen m2 k2).
Proof.
  intros Hm Hk b H. destruct m1 as [a| |]; cbn in H; try discriminate H.
  rewrite (Hm a eq_refl). cbn. apply Hk, H.
Qed.

(** ** Expressions *)
Section ExprMono.
  Variable T : tables.
  Variable G : scopes.
  Variables E1 E2 : expr -> outcome sem_ty.
  Hypothesis HE : forall e, weaker (E1 e) (E2 e).

  (** the one place in the body phase where the rule sets differ: F2 *)
  Lemma check_args_mono callee : forall args params,
    weaker (check_args false E1 callee params args) (check_args true E2 callee params args).
  Proof.
    induction args as [|a args IH]; intros [|pt params]; cbn.
    - apply weaker_refl.
    - apply weaker_fail.            (* intended: arity violation; enforced: passes *)
    - apply weaker_andthen; [apply HE | intro; apply weaker_fail].
    - apply weaker_andthen; [apply HE | intro t].
      apply weaker_andthen; [apply weaker_refl | intros _; apply IH].
  Qed.

  Lemma check_call_mono f args :
    weaker (check_call false T E1 f args) (check_call true T E2 f args).
  Proof.
    unfold check_call. destruct (alookup (iname f) (tb_funcs T)) as [[ps r]|].
    - apply weaker_andthen; [apply check_args_mono | intro; apply weaker_refl].
    - apply weaker_fail.
  Qed.

  Lemma check_operand_mono v :
    weaker (check_operand false T G E1 v) (check_operand true T G E2 v).
  Proof.
    destruct v; cbn; try apply weaker_refl.
    - apply check_call_mono.
    - apply HE.
  Qed.

  Lemma check_links_mono : forall rest left,
    weaker (check_links false T G E1 left rest) (check_links true T G E2 left rest).
  Proof.
    induction rest as [|[op v] rest IH]; intro left; cbn.
    - apply weaker_refl.
    - apply weaker_andthen; [apply check_operand_mono | intro t].
      apply weaker_andthen; [apply weaker_refl | intros _; apply IH].
  Qed.

  Lemma check_expr_step_mono e :
    weaker (check_expr_step false T G E1 e) (check_expr_step true T G E2 e).
  Proof.
    unfold check_expr_step. destruct (Model.fold_priority e) as [v rest].
    apply weaker_andthen; [apply check_operand_mono | intro; apply check_links_mono].
  Qed.
End ExprMono.

Lemma check_expr_mono T G : forall fuel e,
  weaker (check_expr false T G fuel e) (check_expr true T G fuel e).
Proof.
  induction fuel as [|fuel IH]; intro e; cbn.
  - apply weaker_stuck.
  - apply check_expr_step_mono. exact IH.
Qed.

(** ** Statements *)
Section StmtMono.
  Variable T : tables.
  Variable fuel : nat.
  Variable RT : sem_ty.

  Lemma ex_mono G e : weaker (ex false T fuel G e) (ex true T fuel G e).
  Proof. apply check_expr_mono. Qed.

  Lemma check_lcond_mono G : forall c,
    weaker (check_lcond false T fuel G c) (check_lcond true T fuel G c).
  Proof.
    fix IH 1. intros [l cmp r next]. cbn.
    apply weaker_andthen; [apply ex_mono | intro tl].
    apply weaker_andthen; [apply ex_mono | intro tr].
    apply weaker_andthen; [apply weaker_refl | intros _].
    apply weaker_andthen; [apply weaker_refl | intros _].
    destruct next as [[op c']|]; [apply IH | apply weaker_refl].
  Qed.

  Lemma check_cond_mono G c :
    weaker (check_cond false T fuel G c) (check_cond true T fuel G c).
  Proof.
    destruct c; cbn.
    - apply weaker_andthen; [apply ex_mono | intro; apply weaker_refl].
    - apply check_lcond_mono.
  Qed.

  Lemma check_let_mono G x m ty e :
    weaker (check_let false T fuel G x m ty e) (check_let true T fuel G x m ty e).
  Proof.
    unfold check_let. apply weaker_andthen; [apply ex_mono | intro; apply weaker_refl].
  Qed.

  Lemma check_assign_mono G x e :
    weaker (check_assign false T fuel G x e) (check_assign true T fuel G x e).
  Proof.
    unfold check_assign. apply weaker_andthen; [apply ex_mono | intro; apply weaker_refl].
  Qed.

  Lemma check_call_stmt_mono G f args :
    weaker (check_call_stmt false T fuel G f args) (check_call_stmt true T fuel G f args).
  Proof.
    unfold check_call_stmt.
    apply weaker_andthen; [apply check_call_mono; intro; apply ex_mono | intro; apply weaker_refl].
  Qed.

  Section ControlMono.
    Variables IFC1 IFC2 : scopes -> bool -> ifstmt -> outcome unit.
    Variables LOOP1 LOOP2 : scopes -> list stmt -> outcome unit.
    Hypothesis HIFC : forall G il i, weaker (IFC1 G il i) (IFC2 G il i).
    Hypothesis HLOOP : forall G b, weaker (LOOP1 G b) (LOOP2 G b).

    Lemma check_nested_stmt_mono loopy il G st :
      weaker (check_nested_stmt false T fuel RT IFC1 LOOP1 loopy il G st)
             (check_nested_stmt true T fuel RT IFC2 LOOP2 loopy il G st).
    Proof.
      destruct st; cbn.
      - apply weaker_andthen; [apply check_let_mono | intro; apply weaker_refl].
      - apply weaker_andthen; [apply check_assign_mono | intro; apply weaker_refl].
      - apply weaker_andthen; [apply check_call_stmt_mono | intro; apply weaker_refl].
      - apply weaker_andthen; [apply HIFC | intro; apply weaker_refl].
      - apply weaker_andthen; [apply HLOOP | intro; apply weaker_refl].
      - apply weaker_andthen; [apply ex_mono | intro; apply weaker_refl].
      - apply weaker_stuck.
      - apply weaker_refl.
      - apply weaker_refl.
    Qed.

    Lemma check_block_mono loopy il : forall ss G ended,
      weaker (check_block false T fuel RT IFC1 LOOP1 loopy il G ended ss)
             (check_block true T fuel RT IFC2 LOOP2 loopy il G ended ss).
    Proof.
      induction ss as [|st ss IH]; intros G ended; cbn.
      - apply weaker_refl.
      - apply weaker_andthen; [apply weaker_refl | intros _].
        apply weaker_andthen; [apply check_nested_stmt_mono | intro r; apply IH].
    Qed.

    Lemma check_ifbody_mono G il b :
      weaker (check_ifbody false T fuel RT IFC1 LOOP1 G il b)
             (check_ifbody true T fuel RT IFC2 LOOP2 G il b).
    Proof.
      destruct b; cbn.
      - apply check_block_mono.
      - destruct il; [apply check_block_mono | apply weaker_stuck].
    Qed.

    Lemma check_if_step_mono G il i :
      weaker (check_if_step false T fuel RT IFC1 LOOP1 G il i)
             (check_if_step true T fuel RT IFC2 LOOP2 G il i).
    Proof.
      destruct i as [c body els elif]. cbn.
      apply weaker_andthen; [apply weaker_refl | intros _].
      apply weaker_andthen; [apply check_cond_mono | intros _].
      apply weaker_andthen; [apply check_ifbody_mono | intros _].
      destruct els as [eb|]; [apply check_ifbody_mono|].
      destruct elif as [ei|]; [apply HIFC | apply weaker_refl].
    Qed.

    Lemma check_loop_step_mono G body :
      weaker (check_loop_step false T fuel RT IFC1 LOOP1 G body)
             (check_loop_step true T fuel RT IFC2 LOOP2 G body).
    Proof. apply check_block_mono. Qed.
  End ControlMono.

  Lemma check_if_loop_mono : forall n,
    (forall G il i, weaker (check_if false T fuel RT n G il i) (check_if true T fuel RT n G il i)) /\
    (forall G b, weaker (check_loop false T fuel RT n G b) (check_loop true T fuel RT n G b)).
  Proof.
    induction n as [|n [IHi IHl]]; split; intros; cbn.
    - apply weaker_stuck.
    - apply weaker_stuck.
    - apply check_if_step_mono; assumption.
    - apply check_loop_step_mono; assumption.
  Qed.

  Lemma check_fn_stmt_mono G returned st :
    weaker (check_fn_stmt false T fuel RT G returned st)
           (check_fn_stmt true T fuel RT G returned st).
  Proof.
    destruct st; cbn.
    - apply weaker_andthen; [apply check_let_mono | intro; apply weaker_refl].
    - apply weaker_andthen; [apply check_assign_mono | intro; apply weaker_refl].
    - apply weaker_andthen; [apply check_call_stmt_mono | intro; apply weaker_refl].
    - apply weaker_andthen; [apply check_if_loop_mono | intro; apply weaker_refl].
    - apply weaker_andthen; [apply check_if_loop_mono | intro; apply weaker_refl].
    - apply weaker_andthen; [apply ex_mono | intro; apply weaker_refl].
    - apply weaker_andthen; [apply ex_mono | intro; apply weaker_refl].
    - apply weaker_refl.
    - apply weaker_refl.
  Qed.

  Lemma check_fn_stmts_mono : forall ss G returned,
    weaker (check_fn_stmts false T fuel RT G returned ss)
           (check_fn_stmts true T fuel RT G returned ss).
  Proof.
    induction ss as [|st ss IH]; intros G returned; cbn.
    - apply weaker_refl.
    - apply weaker_andthen; [apply weaker_refl | intros _].
      apply weaker_andthen; [apply check_fn_stmt_mono | intro r; apply IH].
  Qed.
End StmtMono.

Lemma check_fn_body_mono T f :
  weaker (check_fn_body false T f) (check_fn_body true T f).
Proof.
  unfold check_fn_body. apply weaker_andthen; [apply weaker_refl | intro params].
  apply weaker_andthen; [apply check_fn_stmts_mono | intro; apply weaker_refl].
Qed.

Lemma check_bodies_mono T : forall fs,
  weaker (check_bodies false T fs) (check_bodies true T fs).
Proof.
  induction fs as [|f fs IH]; cbn.
  - apply weaker_refl.
  - apply weaker_andthen; [apply check_fn_body_mono | intros _; exact IH].
Qed.

(** ** The declaration phase: F8 *)
Lemma all_declared_pass consts : forall l,
  all_declared consts l = Pass tt <-> (forall c, In c l -> amem (iname c) consts = true).
Proof.
  induction l as [|c l IH]; cbn.
  - split; [intros _ c [] | reflexivity].
  - unfold require. destruct (amem (iname c) consts) eqn:Hc; cbn.
    + rewrite IH. split.
      * intros H c' [<-|Hin]; [exact Hc | apply H, Hin].
      * intros H c' Hin. apply H. right. exact Hin.
    + split; [discriminate|]. intro H. specialize (H c (or_introl eq_refl)).
      rewrite Hc in H. discriminate H.
Qed.

Lemma before_literal_mentioned : forall l c,
  In c (consts_before_literal l) -> In c (consts_mentioned l).
Proof.
  induction l as [|[c'|v] l IH]; cbn; intros c H.
  - exact H.
  - destruct H as [<-|H]; [left; reflexivity | right; apply IH, H].
  - destruct H.
Qed.

(** the constants the analyzer checks are among those the intended rule R5 checks *)
Lemma r5_checked_incl v c : In c (r5_checked true v) -> In c (r5_checked false v).
Proof.
  unfold r5_checked. intro H. apply before_literal_mentioned in H.
  cbn. destruct (ce_head v); [right|]; exact H.
Qed.

Lemma all_declared_mono consts v :
  weaker (all_declared consts (r5_checked false v)) (all_declared consts (r5_checked true v)).
Proof.
  intros [] H. apply all_declared_pass. intros c Hc.
  apply (proj1 (all_declared_pass consts _) H). apply r5_checked_incl, Hc.
Qed.

Lemma check_const_decl_mono T name ty v :
  weaker (check_const_decl false T name ty v) (check_const_decl true T name ty v).
Proof.
  unfold check_const_decl.
  apply weaker_andthen; [apply weaker_refl | intros _].
  apply weaker_andthen; [apply all_declared_mono | intros _; apply weaker_refl].
Qed.

Lemma check_decls_mono : forall p T,
  weaker (check_decls false T p) (check_decls true T p).
Proof.
  induction p as [|t p IH]; intro T; cbn.
  - apply weaker_refl.
  - destruct t; try apply IH.
    + apply weaker_andthen; [apply check_const_decl_mono | intro; apply IH].
    + apply weaker_andthen; [apply weaker_refl | intro; apply IH].
Qed.

Lemma check_program_mono p : weaker (check_program false p) (check_program true p).
Proof.
  unfold check_program.
  apply weaker_andthen; [apply weaker_refl | intro types].
  apply weaker_andthen; [apply check_decls_mono | intro T; apply check_bodies_mono].
Qed.

(** ** The enforced rule set is weaker than the intended one *)
Theorem first_violation_intended_none p :
  first_violation false p = None -> first_violation true p = None.
Proof.
  unfold first_violation. intro H.
  destruct (check_program false p) as [[]| |] eqn:Hp; try discriminate H.
  rewrite (check_program_mono p tt Hp). reflexivity.
Qed.

Theorem wf_implies_accepted_spec p : wf_b p = true -> accepted_spec_b p = true.
Proof.
  unfold wf_b, accepted_spec_b. intro H.
  destruct (first_violation false p) eqn:Hf; [discriminate H|].
  rewrite (first_violation_intended_none p Hf). reflexivity.
Qed.

(** so the two verdicts differ only on the known class, and there "accepted but ill-formed" *)
Corollary verdicts_differ_only_in_K p :
  accepted_spec_b p <> wf_b p -> in_K_F2_or_F8 p = true.
Proof.
  unfold in_K_F2_or_F8. intro H. pose proof (wf_implies_accepted_spec p) as W.
  destruct (wf_b p), (accepted_spec_b p); cbn; try reflexivity.
  - exfalso. apply H. reflexivity.
  - discriminate (W eq_refl).
  - exfalso. apply H. reflexivity.
Qed.

(** ** They do differ: witnesses, accepted by the model *)

(** F2: [g] takes one argument and is called with none. *)
Definition K_F2_program : program :=
  [ TFn (Fn (Id "g" 1 3) [(Id "a" 1 5, TPrim PI32)] (TPrim PI32)
            [SRet (Expr (EVName (Id "a" 2 8)) [])]);
    TFn (Fn (Id "f" 4 3) [] (TPrim PI32)
            [SRet (Expr (EVCall (Id "g" 5 8) []) [])]) ].

(** F8, head: [const A: i32 = B] with no [B]. *)
Definition K_F8_head_program : program :=
  [ TConst (Id "A" 1 7) (TPrim PI32) (CExpr (CConst (Id "B" 1 16)) []) ].

(** F8, after a literal: [const A: i32 = 1 + 2 + B] with no [B]. *)
Definition K_F8_after_literal_program : program :=
  [ TConst (Id "A" 1 7) (TPrim PI32)
           (CExpr (CVal (PV PI32 1)) [(OPlus, CVal (PV PI32 2)); (OPlus, CConst (Id "B" 1 24))]) ].

Definition model_accepts (p : program) : Prop :=
  exists out, run p = ROk out /\ o_errors out = [].

Example K_F2_witness :
  first_violation true K_F2_program = None /\
  first_violation false K_F2_program
    = Some (Viol EFunctionParameterTypeWrong None (5, 8)) /\
  in_K_F2_or_F8 K_F2_program = true.
Proof. vm_compute. repeat split. Qed.

Example K_F8_head_witness :
  first_violation true K_F8_head_program = None /\
  first_violation false K_F8_head_program
    = Some (Viol EConstantNotFound (Some "B"%string) (1, 16)) /\
  in_K_F2_or_F8 K_F8_head_program = true.
Proof. vm_compute. repeat split. Qed.

Example K_F8_after_literal_witness :
  first_violation true K_F8_after_literal_program = None /\
  first_violation false K_F8_after_literal_program
    = Some (Viol EConstantNotFound (Some "B"%string) (1, 24)) /\
  in_K_F2_or_F8 K_F8_after_literal_program = true.
Proof. vm_compute. repeat split. Qed.

Example K_F2_model_accepts : model_accepts K_F2_program.
Proof. eexists. vm_compute. split; reflexivity. Qed.

Example K_F8_head_model_accepts : model_accepts K_F8_head_program.
Proof. eexists. vm_compute. split; reflexivity. Qed.

Example K_F8_after_literal_model_accepts : model_accepts K_F8_after_literal_program.
Proof. eexists. vm_compute. split; reflexivity. Qed.

(** the converse of [wf_implies_accepted_spec] is false *)
Corollary accepted_spec_not_wf : exists p, accepted_spec_b p = true /\ wf_b p = false.
Proof. exists K_F2_program. vm_compute. split; reflexivity. Qed.

Print Assumptions wf_implies_accepted_spec.
Print Assumptions verdicts_differ_only_in_K.
Print Assumptions K_F2_witness.
Print Assumptions K_F8_head_witness.
Print Assumptions K_F8_after_literal_witness.
Print Assumptions K_F2_model_accepts.
Print Assumptions K_F8_head_model_accepts.
Print Assumptions K_F8_after_literal_model_accepts.
