(** Family T2 (C06), part 3: the expression level.

    After [expression G fuel e] succeeded on an accepted run, from a state whose value tables
    hold what the source scope [sc] selects:
    - the tree that the result operand denotes in the final environment of the monitor has the
      tokens of [e] (brackets flattened, F7 operands read through the call / field read before);
    - the use sites appended ([UCall] for every call inside) are the calls of [e], in the order
      in which their instructions are pushed;
    - no declaration was pushed, the value tables are unchanged, the result register is old. *)
From Coq Require Import Lia.
From SA Require Import Model.
From SA.Spec Require Import Stack Bracket.
From SA.Mon Require Import C06.
From SA.Proofs Require Import Reach InvReg Trace InvNames DefUse Fold DenoteLogic DenoteEnv DenoteSrc.
Local Open Scope list_scope.

Ltac unwrap := repeat match goal with |- Grow _ _ -> _ => intros _ end.

Section Walk.
  Variable Cf : list instr.
  Variable G : globals.
  Variable NM : list string.
  Notation D := (stack_decls Cf).
  Hypothesis HD : NoDup (map fst D).
  Hypothesis HGc : forall x c, alookup x (g_consts G) = Some c -> c_name c = x.
  Hypothesis HGf : forall x fd, alookup x (g_funcs G) = Some fd -> f_name fd = x.

  Notation tkD := (tk D NM).
  Notation okD := (site_ok D NM).

  (** what an expression-like computation owes *)
  Definition DP (s : bst) (toks : list tok) (calls : list esite) (r : option eres) (s' : bst) : Prop :=
    exists er c, r = Some er /\ Ctx s' = Ctx s ++ c /\ vals s' = vals s /\ stack_decls c = [] /\
      RegLe (hr s') er /\ Forall2 okD (scan (Env s) c) calls /\
      tkD (operand (Env s') er) = toks /\ nobad toks.

  Lemma lookup_V s x : lookup_frames x (frames s) = lookupV x (vals s).
  Proof. apply lookup_frames_V. Qed.

  Lemma decl_index_of k inner t : nthN D k = Some (inner, t) -> decl_index inner D 0 = Some k.
  Proof. intro H. apply (nth_decl_index D 0 inner t k HD H). Qed.

  (** a leaf instruction: its register is the result, its tree is [t] *)
  Lemma D_leaf s mk ty t :
    (forall n, def_reg (mk n) = Some n) ->
    (forall env n, env_upd env (mk n) = (n, t, false) :: env) ->
    (forall env n, site_of env (mk n) = []) -> (forall n, decl_of (mk n) = []) ->
    HT Cf s (r <- alloc_emit mk ;; ret (Some (ERes ty (RReg r))))
       (fun r s' => forall toks, tkD t = toks -> nobad toks -> DP s toks [] r s').
  Proof.
    intros Hd Hu Hs Hdc. eapply HT_bind; [apply HT_alloc, Hd|]. intros r s1 W1 G1 H1.
    apply HT_ret. intros F. unwrap. fin_all. destruct H1 as (Er & Hh & C1 & V1).
    intros toks Ht Hb. exists (ERes ty (RReg r)), [mk r].
    split; [reflexivity|]. split; [exact C1|]. split; [exact V1|].
    split; [cbn; rewrite Hdc; reflexivity|].
    split; [apply RegLe_reg; lia|].
    split; [rewrite scan_one, Hs; constructor|].
    split; [|exact Hb].
    rewrite (Env_app s s1 _ C1). cbn [env_from fold_left]. rewrite Hu.
    unfold operand. cbn [r_val env_find]. rewrite N.eqb_refl. exact Ht.
  Qed.

  (** finding F7: after a call / a field read wrote register [hr s] with tree [t], the operand
      that names the register after it denotes [t] *)
  Lemma operand_f7 s s' t ty :
    WF s -> Ctx s' = Ctx s -> env_find (hr s) (Env s) = Some (t, true) ->
    operand (Env s') (ERes ty (RReg (hr s + 1))) = t.
  Proof.
    intros W C Hf. rewrite (Env_same _ _ C). unfold operand. cbn [r_val].
    rewrite (Env_above s (hr s + 1) W) by lia.
    destruct (N.eqb_spec (hr s + 1) 0) as [E|E]; [lia|]. rewrite N.add_sub, Hf. reflexivity.
  Qed.

  Section Expr.
    Variable E : expr -> M (option eres).
    Hypothesis HE : forall e s,
      HT Cf s (E e) (fun r s' => forall sc, ScopeOk D NM sc (vals s) ->
                                 DP s (etk D sc e) (call_sites D sc e) r s').

    Lemma D_call_args callee params : forall args i acc s,
      HT Cf s (call_args E callee params i args acc)
         (fun r s' => forall sc, ScopeOk D NM sc (vals s) -> Forall (RegLe (hr s)) acc ->
            exists ps c, r = Some ps /\ Ctx s' = Ctx s ++ c /\ vals s' = vals s /\
              stack_decls c = [] /\ Forall (RegLe (hr s')) ps /\
              Forall2 okD (scan (Env s) c) (flat_map (call_sites D sc) args) /\
              map (fun a => tkD (operand (Env s') a)) ps =
                map (fun a => tkD (operand (Env s) a)) acc ++ map (etk D sc) args /\
              Forall nobad (map (etk D sc) args)).
    Proof.
      induction args as [|a args IH]; intros i acc s; cbn [call_args].
      - apply HT_ret. intros _ sc Hsc Hacc. exists acc, []. rewrite !app_nil_r.
        repeat split; try reflexivity; try assumption; constructor.
      - eapply HT_bind; [apply HE|]. intros r s1 W1 G1 H1.
        destruct r as [er|].
        2: { apply HT_ret. intros F. unwrap. fin_all. intros sc Hsc _.
             destruct (H1 sc Hsc) as (er & c & Hr & _). discriminate. }
        assert (Herr : forall e0 Q,
                   HT Cf s1 (add_error e0 ;;; call_args E callee params (S i) args acc) Q).
        { intros. apply HT_error_then. intro s2. eapply HT_weaken, IH. }
        destruct (nth_error params i) as [pt|]; [|apply Herr].
        destruct (sem_ty_eqb pt (r_ty er)); [|apply Herr].
        eapply HT_conseq; [apply IH|]. intros ps s' W' G' F' HQ. unwrap. fin_all.
        intros sc Hsc Hacc.
        destruct (H1 sc Hsc) as (er0 & c1 & Hr & C1 & V1 & D1 & R1 & S1 & T1 & B1).
        inversion Hr; subst er0.
        pose proof (Grow_defs _ _ _ G1 C1) as Hd1. pose proof (Grow_hr _ _ G1) as Hle1.
        destruct (HQ sc) as (ps' & c2 & Hps & C2 & V2 & D2 & R2 & S2 & T2 & B2).
        { rewrite V1. exact Hsc. }
        { apply Forall_app. split; [|constructor; [exact R1 | constructor]].
          eapply Forall_impl; [|exact Hacc]. intros e0. apply RegLe_mono. exact Hle1. }
        exists ps', (c1 ++ c2). split; [exact Hps|].
        split; [rewrite C2, C1, app_assoc; reflexivity|]. split; [congruence|].
        split; [rewrite stack_decls_app, D1, D2; reflexivity|]. split; [exact R2|].
        split; [|split].
        + cbn [flat_map]. rewrite dscan_app. apply Forall2_app; [exact S1|].
          rewrite <- (Env_app s s1 c1 C1). exact S2.
        + rewrite T2, map_app. cbn [map]. rewrite T1, <- app_assoc. cbn [app]. f_equal.
          apply map_ext_in. intros e0 He0. f_equal. rewrite (Env_app s s1 c1 C1).
          apply (operand_stable (hr s) (hr s1)); [exact Hd1|].
          rewrite Forall_forall in Hacc. apply Hacc, He0.
        + cbn [map]. constructor; [exact B1 | exact B2].
    Qed.

    (** a call: its site, and the register it wrote is F7-ready *)
    Definition FP (s : bst) (sc : scope) (f : ident) (args : list expr) (r : option sem_ty)
               (s' : bst) : Prop :=
      exists ty c, r = Some ty /\ Ctx s' = Ctx s ++ c /\ vals s' = vals s /\ stack_decls c = [] /\
        Forall2 okD (scan (Env s) c) (flat_map (call_sites D sc) args ++ [call_site D sc (f, args)]) /\
        exists t, env_find (hr s') (Env s') = Some (t, true) /\
                  tkD t = vtk D sc (EVCall f args) /\ nobad (vtk D sc (EVCall f args)).

    Lemma D_function_call f args s :
      HT Cf s (function_call G E f args)
         (fun r s' => forall sc, ScopeOk D NM sc (vals s) -> FP s sc f args r s').
    Proof.
      unfold function_call. destruct (alookup (iname f) (g_funcs G)) as [fd|] eqn:Efd;
        [|apply HT_error_ret].
      eapply HT_bind; [apply D_call_args|]. intros ps s1 W1 G1 H1.
      destruct ps as [params|].
      2: { apply HT_ret. intros F. unwrap. fin_all. intros sc Hsc.
           destruct (H1 sc Hsc (Forall_nil _)) as (ps & c & Hr & _). discriminate. }
      eapply HT_bind; [apply HT_alloc; intro; reflexivity|]. intros r s2 W2 G2 H2.
      apply HT_ret. intros F. unwrap. fin_all. intros sc Hsc.
      destruct (H1 sc Hsc (Forall_nil _)) as (ps & c & Hr & C1 & V1 & D1 & R1 & S1 & T1 & B1).
      inversion Hr; subst ps. cbn [map app] in T1.
      destruct H2 as (Er & Hh & C2 & V2).
      pose proof (HGf _ _ Efd) as Hname.
      exists (f_ty fd), (c ++ [ICall fd params r]). split; [reflexivity|].
      split; [rewrite C2, C1, app_assoc; reflexivity|]. split; [congruence|].
      split; [rewrite stack_decls_app, D1; reflexivity|].
      assert (Hargs : map tkD (map (operand (Env s1)) params) = map (etk D sc) args)
        by (rewrite map_map; exact T1).
      split.
      - rewrite dscan_app. apply Forall2_app; [exact S1|].
        rewrite <- (Env_app s s1 c C1), scan_one. cbn [site_of]. constructor; [|constructor].
        cbn [site_ok call_site fst snd]. split; [exact Hname|]. split; [exact Hargs | exact B1].
      - exists (DCall (f_name fd) (map (operand (Env s1)) params)). split; [|split].
        + rewrite (Env_app s1 s2 _ C2). cbn [env_from fold_left env_upd]. rewrite Hh.
          cbn [env_find]. rewrite N.eqb_refl. reflexivity.
        + rewrite tk_call, vtk_call, Hargs, Hname. reflexivity.
        + rewrite vtk_call. apply nobad_call. exact B1.
    Qed.

    Lemma D_expr_value v s :
      HT Cf s (expr_value G E v)
         (fun r s' => forall sc, ScopeOk D NM sc (vals s) ->
                      DP s (vtk D sc v) (csites D sc (val_calls v)) r s').
    Proof.
      destruct v as [x|p|f args|x a|e|t tag]; cbn [expr_value].
      - (* a name: a value in scope, else a constant *)
        apply HT_lookup_bind. destruct (lookup_frames _ _) as [val|] eqn:El.
        + eapply HT_conseq; [apply (D_leaf s _ _ (DRead (v_inner val))); intros; reflexivity|].
          intros r s' W' G' F' HQ sc Hsc. apply HQ.
          * rewrite lookup_V in El. specialize (Hsc (iname x)). rewrite El in Hsc.
            destruct Hsc as (k & Hf & Hd & Hn).
            unfold tk, vtk. cbn [dt_toks val_toks]. unfold var_tok, name_tok.
            rewrite (decl_index_of _ _ _ Hd), Hn, Hf. reflexivity.
          * rewrite lookup_V in El. specialize (Hsc (iname x)). rewrite El in Hsc.
            destruct Hsc as (k & Hf & Hd & Hn). unfold vtk. cbn [val_toks]. unfold name_tok.
            rewrite Hf. constructor; [discriminate | constructor].
        + destruct (alookup _ _) as [c|] eqn:Ec.
          * eapply HT_conseq; [apply (D_leaf s _ _ (DConst (c_name c))); intros; reflexivity|].
            intros r s' W' G' F' HQ sc Hsc.
            rewrite lookup_V in El. specialize (Hsc (iname x)). rewrite El in Hsc.
            assert (Htok : vtk D sc (EVName x) = [KConst (iname x)]).
            { unfold vtk. cbn [val_toks]. unfold name_tok. rewrite Hsc. reflexivity. }
            rewrite Htok. apply HQ.
            -- unfold tk. cbn [dt_toks]. rewrite (HGc _ _ Ec). reflexivity.
            -- constructor; [discriminate | constructor].
          * eapply HT_bind; [apply HT_bump|]. intros. apply HT_error_ret.
      - (* a literal *)
        apply HT_ret. intros _ sc Hsc. exists (ERes (SPrim (pv_ty p)) (RPrim p)), [].
        rewrite app_nil_r. repeat split; try reflexivity; try constructor; try discriminate.
        constructor.
      - (* a call: the operand names the register after the one written *)
        eapply HT_bind; [apply D_function_call|]. intros t s1 W1 G1 H1.
        destruct t as [ty|].
        2: { apply HT_ret. intros F. unwrap. fin_all. intros sc Hsc.
             destruct (H1 sc Hsc) as (ty & c & Hr & _). discriminate. }
        eapply HT_bind; [apply HT_bump|]. intros r s2 W2 G2 H2.
        apply HT_ret. intros F. unwrap. fin_all. intros sc Hsc.
        destruct (H1 sc Hsc) as (ty0 & c & _ & C1 & V1 & D1 & S1 & t & Hf & Ht & Hb).
        destruct H2 as (Er & Hh & C2 & V2).
        exists (ERes ty (RReg r)), c. split; [reflexivity|].
        split; [rewrite C2; exact C1|]. split; [congruence|]. split; [exact D1|].
        split; [apply RegLe_reg; lia|]. split; [|split; [|exact Hb]].
        + rewrite val_calls_call. unfold csites. rewrite map_app. cbn [map].
          fold (csites D sc (args_calls args)). rewrite csites_args. exact S1.
        + rewrite Er, (operand_f7 s1 s2 t ty W1 C2 Hf). exact Ht.
      - (* a field read: the same shape *)
        apply HT_lookup_bind. destruct (lookup_frames _ _) as [val|] eqn:El; [|apply HT_error_ret].
        destruct (v_ty val) as [pt|sn attrs|at_ an] eqn:Ety; try apply HT_error_ret.
        eapply HT_bind; [apply HT_check_type_exists|]. intros ok s1 W1 G1 H1.
        destruct ok; cbn [negb].
        2: { apply HT_ret. intros F. unwrap. fin_all. destruct H1 as [H1 _]. discriminate. }
        destruct (alookup _ _) as [declared|] eqn:Eal.
        2: { apply HT_ret. intros F. unwrap. fin_all. destruct H1 as (_ & _ & [H1|H1]);
             [discriminate|]. unfold amem in H1. rewrite Eal in H1. discriminate. }
        destruct (negb _); [apply HT_error_ret|].
        destruct (attr_lookup _ _) as [[idx aty]|] eqn:Eat; [|apply HT_error_ret].
        eapply HT_bind; [apply HT_alloc; intro; reflexivity|]. intros r s2 W2 G2 H2.
        eapply HT_bind; [apply HT_bump|]. intros r' s3 W3 G3 H3.
        apply HT_ret. intros F. unwrap. fin_all. intros sc Hsc.
        destruct H1 as (_ & -> & _). destruct H2 as (Er & Hh2 & C2 & V2).
        destruct H3 as (Er' & Hh3 & C3 & V3).
        rewrite lookup_V in El. specialize (Hsc (iname x)). rewrite El in Hsc.
        destruct Hsc as (k & Hf & Hd & Hn).
        assert (Htok : vtk D sc (EVField x a) = [KField k (iname x) idx]).
        { unfold vtk. cbn [val_toks]. unfold field_tok. rewrite Hf, Hd, Ety, Eat. reflexivity. }
        exists (ERes aty (RReg r')), [IExprStruct val idx r]. split; [reflexivity|].
        split; [rewrite C3; exact C2|]. split; [congruence|]. split; [reflexivity|].
        split; [apply RegLe_reg; lia|]. split; [rewrite scan_one; constructor|].
        rewrite Htok. split; [|constructor; [discriminate | constructor]].
        assert (Hf2 : env_find (hr s2) (Env s2) = Some (DField (v_inner val) idx, true)).
        { rewrite (Env_app s s2 _ C2). cbn [env_from fold_left env_upd]. rewrite Hh2.
          cbn [env_find]. rewrite N.eqb_refl. reflexivity. }
        rewrite Er', (operand_f7 s2 s3 _ aty W2 C3 Hf2).
        unfold tk. cbn [dt_toks]. unfold dfield_tok.
        rewrite (decl_index_of _ _ _ Hd), Hn. reflexivity.
      - (* brackets *) apply HE.
      - (* an extension leaf *)
        eapply HT_conseq; [apply (D_leaf s _ _ (DExt tag)); intros; reflexivity|].
        intros r s' W' G' F' HQ sc Hsc. apply HQ; [reflexivity|].
        constructor; [discriminate | constructor].
    Qed.

    Lemma D_expr_chain : forall rest left s,
      HT Cf s (expr_chain G E left rest)
         (fun r s' => forall sc, ScopeOk D NM sc (vals s) -> RegLe (hr s) left ->
            exists er c, r = Some er /\ Ctx s' = Ctx s ++ c /\ vals s' = vals s /\
              stack_decls c = [] /\ RegLe (hr s') er /\
              Forall2 okD (scan (Env s) c) (csites D sc (links_calls rest)) /\
              tkD (operand (Env s') er) = tkD (operand (Env s) left) ++ links_toks D sc rest /\
              nobad (links_toks D sc rest)).
    Proof.
      induction rest as [|[op v] rest IH]; intros left s; cbn [expr_chain].
      - apply HT_ret. intros _ sc Hsc Hl. exists left, []. rewrite !app_nil_r.
        repeat split; try reflexivity; try assumption; constructor.
      - eapply HT_bind; [apply D_expr_value|]. intros rv s1 W1 G1 H1.
        destruct rv as [rgt|].
        2: { apply HT_ret. intros F. unwrap. fin_all. intros sc Hsc _.
             destruct (H1 sc Hsc) as (er & c & Hr & _). discriminate. }
        destruct (negb _); [apply HT_error_ret|].
        eapply HT_bind; [apply HT_alloc; intro; reflexivity|]. intros r s2 W2 G2 H2.
        eapply HT_conseq; [apply IH|]. intros er s' W' G' F' HQ. unwrap. fin_all.
        intros sc Hsc Hl.
        destruct (H1 sc Hsc) as (er0 & c1 & Hr & C1 & V1 & D1 & R1 & S1 & T1 & B1).
        inversion Hr; subst er0. destruct H2 as (Er & Hh & C2 & V2).
        pose proof (Grow_defs _ _ _ G1 C1) as Hd1.
        destruct (HQ sc) as (er' & c3 & Her & C3 & V3 & D3 & R3 & S3 & T3 & B3).
        { rewrite V2, V1. exact Hsc. }
        { apply RegLe_reg. lia. }
        exists er', (c1 ++ [IExprOp op left rgt r] ++ c3). split; [exact Her|].
        split; [rewrite C3, C2, C1, <- !app_assoc; reflexivity|]. split; [congruence|].
        split; [rewrite !stack_decls_app, D1, D3; reflexivity|]. split; [exact R3|].
        split; [|split].
        + cbn [links_calls flat_map snd]. fold (links_calls rest). unfold csites. rewrite map_app.
          rewrite dscan_app. apply Forall2_app; [exact S1|].
          rewrite <- (Env_app s s1 c1 C1). rewrite dscan_app, scan_one. cbn [site_of app].
          rewrite <- (Env_app s1 s2 _ C2). exact S3.
        + rewrite T3. cbn [links_toks flat_map fst snd]. fold (links_toks D sc rest).
          rewrite (Env_app s1 s2 _ C2). cbn [env_from fold_left env_upd].
          unfold operand at 1. cbn [r_val env_find]. rewrite N.eqb_refl.
          rewrite tk_op, T1. rewrite (Env_app s s1 c1 C1).
          rewrite (operand_stable (hr s) (hr s1) c1 (Env s) left Hd1 Hl).
          rewrite <- app_assoc. reflexivity.
        + cbn [links_toks flat_map fst snd]. fold (links_toks D sc rest).
          apply nobad_cons. split; [discriminate|]. apply nobad_app. split; assumption.
    Qed.

    Lemma D_expression_body e s :
      HT Cf s (expression_body G E e)
         (fun r s' => forall sc, ScopeOk D NM sc (vals s) ->
                      DP s (etk D sc e) (call_sites D sc e) r s').
    Proof.
      unfold expression_body.
      eapply HT_conseq with
        (Q := fun r s' => forall sc, ScopeOk D NM sc (vals s) ->
                DP s (etk D sc (fold_priority e)) (call_sites D sc (fold_priority e)) r s').
      2: { intros r s' _ _ _ HQ sc Hsc. rewrite <- (etk_fold D sc e), <- (call_sites_fold D sc e).
           apply HQ, Hsc. }
      destruct (fold_priority e) as [v rest].
      eapply HT_bind; [apply D_expr_value|]. intros rv s1 W1 G1 H1.
      destruct rv as [first|].
      2: { apply HT_ret. intros F. unwrap. fin_all. intros sc Hsc.
           destruct (H1 sc Hsc) as (er & c & Hr & _). discriminate. }
      eapply HT_conseq; [apply D_expr_chain|]. intros er s' W' G' F' HQ. unwrap. fin_all.
      intros sc Hsc.
      destruct (H1 sc Hsc) as (er0 & c1 & Hr & C1 & V1 & D1 & R1 & S1 & T1 & B1).
      inversion Hr; subst er0.
      destruct (HQ sc) as (er' & c2 & Her & C2 & V2 & D2 & R2 & S2 & T2 & B2);
        [rewrite V1; exact Hsc | exact R1|].
      exists er', (c1 ++ c2). split; [exact Her|].
      split; [rewrite C2, C1, app_assoc; reflexivity|]. split; [congruence|].
      split; [rewrite stack_decls_app, D1, D2; reflexivity|]. split; [exact R2|].
      rewrite etk_flat, call_sites_flat. split; [|split].
      - rewrite dscan_app. apply Forall2_app; [exact S1|].
        rewrite <- (Env_app s s1 c1 C1). exact S2.
      - rewrite T2, T1. reflexivity.
      - apply nobad_app. split; assumption.
    Qed.
  End Expr.

  Lemma D_expression fuel : forall e s,
    HT Cf s (expression G fuel e)
       (fun r s' => forall sc, ScopeOk D NM sc (vals s) ->
                    DP s (etk D sc e) (call_sites D sc e) r s').
  Proof.
    induction fuel as [|f IH]; intros e s; cbn [expression]; [apply HT_oof|].
    apply D_expression_body. exact IH.
  Qed.
End Walk.
