(** C18, the value-table clause: in an accepted program, the value table of every block of every
    function's tree holds exactly the names declared directly in that block (the parameters in
    the root), each bound to the value record of its latest declaration there
    ([run_value_tables]: the monitor [chk_C18_values] of [Mon/C18b.v] accepts the model's output).

    The invariant, per live frame [b] (the head of [frames] is the block being analysed):

      [build_table N (dvals excl b) [] = Some (b_values b)]

    - [N] (ghost): the source names of the parameters / [let]s analysed so far directly in [b];
    - [dvals excl b]: the value records of the declaring instructions of [b]'s own stack whose
      internal name is declared neither in a finished child of [b] nor in [excl], the declared
      names of the stack of the live child of [b] ([excl = []] for the head): these are the
      declarations made directly in [b], in order;
    - the finished children of [b] are, in order, the blocks of the source bodies [B] (ghost)
      opened so far directly in [b], and each satisfies the property hereditarily ([VT]).

    What separates a block's own declarations from its children's is the freshness of internal
    names: every live frame holds the same registry [I] of internal names, every declared name
    of every live stack and of every finished child is in [I], and a declaration uses a name
    that was just probed not to be in [I].

    Acceptance is needed in one place only: a [let] (a parameter) of an accepted program does
    execute its [insert_value] + declaring instruction ([TrV_let_binding],
    [init_func_params_St]).  Every statement is analysed, whatever the diagnostics. *)
From Coq Require Import Lia.
From SA Require Import Model.
From SA.Spec Require Import Stack Tables Exec.
From SA.Mon Require Import C12 C18 C18b.
From SA.Proofs Require Import Trace InvNames MonC12 InvLabels Resolve ExecBasic.
From SA.Proofs Require Import FlowBasic FlowSem FlowExpr FlowSim Fuel.
Local Open Scope list_scope.

(** ** Lists, sets, tables *)
Lemma smem_app n a b : smem n (a ++ b) = smem n a || smem n b.
Proof.
  induction a as [|x a IH]; cbn [app smem orb]; [reflexivity|].
  destruct (String.eqb n x); [reflexivity | exact IH].
Qed.

Lemma smem_false_notin n l : smem n l = false -> ~ In n l.
Proof. intros H Hin. apply smem_in in Hin. congruence. Qed.

Lemma In_sadd n m l : smem m l = true -> smem m (sadd n l) = true.
Proof. apply smem_sadd_mono. Qed.

Lemma build_table_snoc : forall names vals acc t x v,
  build_table names vals acc = Some t ->
  build_table (names ++ [x]) (vals ++ [v]) acc = Some (ainsert x v t).
Proof.
  induction names as [|y names IH]; intros [|w vals] acc t x v H; cbn [build_table app] in *;
    try discriminate.
  - inversion H; subst. reflexivity.
  - apply IH, H.
Qed.

Lemma ainsert_keys {V} x (v : V) l :
  map fst (ainsert x v l) = if amem x l then map fst l else map fst l ++ [x].
Proof.
  unfold amem. induction l as [|[k w] l IH]; cbn [ainsert alookup map fst app]; [reflexivity|].
  destruct (String.eqb x k) eqn:E; cbn [map fst].
  - apply String.eqb_eq in E. subst. reflexivity.
  - rewrite IH. destruct (alookup x l); reflexivity.
Qed.

Lemma alookup_None_notin {V} x (l : list (string * V)) : alookup x l = None -> ~ In x (map fst l).
Proof.
  induction l as [|[k w] l IH]; cbn [alookup map fst In]; [tauto|].
  destruct (String.eqb x k) eqn:E; [discriminate|]. apply String.eqb_neq in E.
  intros H [Hk|Hin]; [congruence | exact (IH H Hin)].
Qed.

Lemma ainsert_NoDup {V} x (v : V) l : NoDup (map fst l) -> NoDup (map fst (ainsert x v l)).
Proof.
  intro H. rewrite ainsert_keys. unfold amem. destruct (alookup x l) eqn:E; [exact H|].
  apply NoDup_app_snoc; [exact H | apply alookup_None_notin, E].
Qed.

Lemma build_table_NoDup : forall names vals acc t,
  NoDup (map fst acc) -> build_table names vals acc = Some t -> NoDup (map fst t).
Proof.
  induction names as [|y names IH]; intros [|w vals] acc t Hnd H; cbn [build_table] in H;
    try discriminate.
  - inversion H; subst. exact Hnd.
  - eapply IH; [|exact H]. apply ainsert_NoDup, Hnd.
Qed.

Lemma alookup_NoDup_in {V} k (v : V) l : NoDup (map fst l) -> In (k, v) l -> alookup k l = Some v.
Proof.
  induction l as [|[k' w] l IH]; intros Hnd Hin; [contradiction|].
  cbn [map fst] in Hnd. inversion Hnd as [|? ? Hk Hl]; subst. cbn [alookup].
  destruct Hin as [E|Hin].
  - inversion E; subst. rewrite String.eqb_refl. reflexivity.
  - destruct (String.eqb k k') eqn:E; [|apply IH; assumption].
    apply String.eqb_eq in E. subst. exfalso. apply Hk.
    apply in_map_iff. exists (k', v). split; [reflexivity | exact Hin].
Qed.

Lemma table_eqb_refl t : NoDup (map fst t) -> table_eqb t t = true.
Proof.
  intro Hnd. unfold table_eqb. rewrite Nat.eqb_refl. cbn [andb]. apply forallb_forall.
  intros [k v] Hin. cbn [fst snd]. rewrite (alookup_NoDup_in k v t Hnd Hin).
  apply value_eqb_eq. reflexivity.
Qed.

(** ** Direct declarations *)
Definition kid_names (b : block) : list string :=
  flat_map (fun k => decl_names (b_ctx k)) (b_kids b).

Definition keep (excl : list string) (v : value) : bool := negb (smem (v_inner v) excl).

Definition dvals (excl : list string) (b : block) : list value :=
  filter (keep (excl ++ kid_names b)) (decl_values (b_ctx b)).

Lemma direct_decls_dvals b : direct_decls b = dvals [] b.
Proof. reflexivity. Qed.

Lemma filter_keep_ext A B l :
  (forall n, smem n A = smem n B) -> filter (keep A) l = filter (keep B) l.
Proof. intro H. apply filter_ext. intro v. unfold keep. rewrite H. reflexivity. Qed.

(** an extra excluded name that no element carries changes nothing *)
Lemma filter_keep_extra A n l :
  (forall v, In v l -> v_inner v <> n) -> filter (keep (A ++ [n])) l = filter (keep A) l.
Proof.
  intro H. apply filter_ext_in. intros v Hv. unfold keep. rewrite smem_app. cbn [smem].
  destruct (String.eqb (v_inner v) n) eqn:E; [|rewrite Bool.orb_false_r; reflexivity].
  apply String.eqb_eq in E. exfalso. exact (H v Hv E).
Qed.

Lemma decl_names_app a b : decl_names (a ++ b) = decl_names a ++ decl_names b.
Proof. unfold decl_names. rewrite decl_values_app, map_app. reflexivity. Qed.

Lemma decl_names_in c n : In n (decl_names c) <-> exists v, In v (decl_values c) /\ v_inner v = n.
Proof.
  unfold decl_names. rewrite in_map_iff. split; intros (v & H1 & H2); exists v; tauto.
Qed.

(** ** The property of a finished block *)
Inductive VT : list string -> list stmt -> block -> Prop :=
| VT_intro own ss b :
    build_table (own ++ direct_lets ss) (direct_decls b) [] = Some (b_values b) ->
    Forall2 (VT []) (kid_bodies ss) (b_kids b) ->
    VT own ss b.

(** a push of a non-declaring instruction through a finished block keeps it *)
Lemma VT_push_ctx i own ss b : decl_value i = None -> VT own ss b -> VT own ss (push_ctx i b).
Proof.
  intros Hi H. inversion H as [? ? ? Ht Hk]; subst. constructor; [|exact Hk].
  rewrite direct_decls_dvals in *. unfold dvals, kid_names in *.
  cbn [push_ctx b_ctx b_kids b_values]. rewrite decl_values_snoc_plain by exact Hi. exact Ht.
Qed.

(** ** The invariant *)
Definition gframe := (list string * list (list stmt))%type.

Definition frame_ok (I excl : list string) (g : gframe) (b : block) : Prop :=
  b_inner b = I /\
  (forall n, In n (decl_names (b_ctx b)) -> smem n I = true) /\
  (forall n, In n (kid_names b) -> smem n I = true) /\
  build_table (fst g) (dvals excl b) [] = Some (b_values b) /\
  Forall2 (VT []) (snd g) (b_kids b).

Fixpoint chain (I excl : list string) (F : list gframe) (fs : list block) : Prop :=
  match F, fs with
  | [], [] => True
  | g :: F', b :: fs' => frame_ok I excl g b /\ chain I (decl_names (b_ctx b)) F' fs'
  | _, _ => False
  end.

Definition St (F : list gframe) (s : bst) : Prop :=
  F <> [] /\ exists I, chain I [] F (frames s).

Lemma St_frames_ne F s : St F s -> frames s <> [].
Proof.
  intros [Hne (I & Hc)]. destruct F as [|g F]; [congruence|].
  destruct (frames s); [contradiction | discriminate].
Qed.
Lemma St_ctxs_ne F s : St F s -> ctxs s <> [].
Proof. intro H. apply St_frames_ne in H. unfold ctxs. destruct (frames s); [congruence | discriminate]. Qed.

(** the invariant looks at four fields, and at the stack only through its declarations *)
Definition same_core (b b' : block) : Prop :=
  b_values b' = b_values b /\ b_inner b' = b_inner b /\
  decl_values (b_ctx b') = decl_values (b_ctx b) /\ b_kids b' = b_kids b.

Lemma frame_ok_core I excl g b b' : same_core b b' -> frame_ok I excl g b -> frame_ok I excl g b'.
Proof.
  intros (Hv & Hi & Hd & Hk) (H1 & H2 & H3 & H4 & H5).
  unfold frame_ok, dvals, kid_names, decl_names in *. rewrite Hv, Hi, Hd, Hk. repeat split; assumption.
Qed.

Lemma chain_map g : (forall b, same_core b (g b)) ->
  forall F fs I excl, chain I excl F fs -> chain I excl F (map g fs).
Proof.
  intros Hg. induction F as [|gf F IH]; intros [|b fs] I excl H; cbn [chain map] in *; try assumption.
  destruct H as [Hb Hr]. split; [eapply frame_ok_core; [apply Hg | exact Hb]|].
  destruct (Hg b) as (_ & _ & Hd & _). unfold decl_names. rewrite Hd. apply IH, Hr.
Qed.

Lemma St_map g s e F : (forall b, same_core b (g b)) -> St F s -> St F (BSt (map g (frames s)) e).
Proof.
  intros Hg [Hne (I & Hc)]. split; [exact Hne|]. exists I. cbn [frames]. apply chain_map; assumption.
Qed.

Lemma same_core_push_ctx i b : decl_value i = None -> same_core b (push_ctx i b).
Proof.
  intro Hi. unfold same_core. cbn [push_ctx b_values b_inner b_ctx b_kids].
  rewrite decl_values_snoc_plain by exact Hi. repeat split.
Qed.

Lemma St_errs F s e : St F s -> St F (BSt (frames s) e).
Proof. intros [Hne H]. split; assumption. Qed.

(** *** a declaration: [insert_value] + [set_inner_name] + the declaring instruction *)
Lemma chain_declare_tail i val : decl_value i = Some val ->
  forall F fs I excl,
    smem (v_inner val) I = false ->
    chain I excl F fs ->
    chain (sadd (v_inner val) I) (excl ++ [v_inner val]) F
          (map (push_ctx i) (map (add_inner (v_inner val)) fs)).
Proof.
  intros Hi. induction F as [|g F IH]; intros [|b fs] I excl Hfresh H; cbn [chain map] in *;
    try assumption.
  destruct H as [(H1 & H2 & H3 & H4 & H5) Hr].
  assert (Hd : decl_values (b_ctx (push_ctx i (add_inner (v_inner val) b))) = decl_values (b_ctx b) ++ [val]).
  { cbn [push_ctx add_inner b_ctx]. rewrite decl_values_app. cbn. rewrite Hi. reflexivity. }
  split.
  - unfold frame_ok. split; [cbn [push_ctx add_inner b_inner]; rewrite H1; reflexivity|].
    split; [|split; [|split]].
    + intros n Hn. unfold decl_names in Hn. rewrite Hd, map_app in Hn. apply in_app_or in Hn as [Hn|[<-|[]]].
      * apply smem_sadd_mono, H2, Hn.
      * apply smem_sadd.
    + intros n Hn. apply smem_sadd_mono, H3, Hn.
    + unfold dvals. rewrite Hd. change (kid_names (push_ctx i (add_inner (v_inner val) b))) with (kid_names b).
      rewrite filter_app. cbn [filter]. unfold keep at 2. rewrite !smem_app. cbn [smem].
      rewrite String.eqb_refl. cbn [orb negb]. rewrite Bool.orb_true_r. cbn [negb]. rewrite app_nil_r.
      cbn [push_ctx add_inner b_values].
      rewrite (filter_keep_ext ((excl ++ [v_inner val]) ++ kid_names b) ((excl ++ kid_names b) ++ [v_inner val])).
      * rewrite filter_keep_extra; [exact H4|].
        intros v Hv E. assert (smem (v_inner v) I = true) as Hs.
        { apply H2. apply decl_names_in. exists v. split; [exact Hv | reflexivity]. }
        rewrite E in Hs. congruence.
      * intro n. rewrite !smem_app. cbn [smem]. destruct (smem n excl), (smem n (kid_names b)), (String.eqb n (v_inner val)); reflexivity.
    + exact H5.
  - unfold decl_names at 1. rewrite Hd, map_app. cbn [map]. apply IH; assumption.
Qed.

Lemma St_declare i x val N B F s :
  decl_value i = Some val ->
  inner_exists (v_inner val) (frames s) = false ->
  St ((N, B) :: F) s ->
  St ((N ++ [x], B) :: F) (st_emit i (st_inner (v_inner val) (st_value x val s))).
Proof.
  intros Hi Hfresh [_ (I & Hc)]. split; [discriminate|].
  unfold st_emit, st_inner, st_value. cbn [frames].
  destruct (frames s) as [|b fs] eqn:Ef; [contradiction|]. cbn [chain] in Hc.
  destruct Hc as [(H1 & H2 & H3 & H4 & H5) Hr].
  assert (HI : smem (v_inner val) I = false).
  { cbn [inner_exists existsb] in Hfresh. apply Bool.orb_false_iff in Hfresh as [Hf _].
    rewrite H1 in Hf. exact Hf. }
  exists (sadd (v_inner val) I). cbn [map chain].
  set (b' := push_ctx i (add_inner (v_inner val) (set_value x val b))).
  assert (Hd : decl_values (b_ctx b') = decl_values (b_ctx b) ++ [val]).
  { unfold b'. cbn [push_ctx add_inner set_value b_ctx]. rewrite decl_values_app. cbn. rewrite Hi. reflexivity. }
  split.
  - unfold frame_ok. split; [unfold b'; cbn [push_ctx add_inner set_value b_inner]; rewrite H1; reflexivity|].
    split; [|split; [|split]].
    + intros n Hn. unfold decl_names in Hn. rewrite Hd, map_app in Hn. apply in_app_or in Hn as [Hn|[<-|[]]].
      * apply smem_sadd_mono, H2, Hn.
      * apply smem_sadd.
    + intros n Hn. apply smem_sadd_mono, H3, Hn.
    + unfold dvals. rewrite Hd. change (kid_names b') with (kid_names b).
      rewrite filter_app. cbn [filter]. unfold keep at 2. cbn [app].
      assert (Hk : smem (v_inner val) (kid_names b) = false).
      { destruct (smem (v_inner val) (kid_names b)) eqn:E; [|reflexivity].
        apply smem_in in E. apply H3 in E. congruence. }
      rewrite Hk. cbn [negb fst]. unfold b'. cbn [push_ctx add_inner set_value b_values].
      apply build_table_snoc. exact H4.
    + exact H5.
  - unfold decl_names at 1. rewrite Hd, map_app. cbn [map app].
    unfold b'. cbn [push_ctx add_inner set_value b_ctx].
    change (decl_names (b_ctx b)) with ([] ++ decl_names (b_ctx b)) in Hr.
    pose proof (chain_declare_tail i val Hi F fs I (decl_names (b_ctx b)) HI) as Ht.
    cbn [app] in Hr. apply Ht, Hr.
Qed.

(** *** opening and closing a block *)
Lemma St_push F s : St F s -> St (([], []) :: F) (st_push s).
Proof.
  intros [Hne (I & Hc)]. split; [discriminate|]. exists I. unfold st_push. cbn [frames].
  destruct F as [|g F]; [congruence|]. destruct (frames s) as [|p r]; [contradiction|].
  cbn [chain] in *. destruct Hc as [Hp Hr]. split; [|split; [exact Hp | exact Hr]].
  destruct Hp as (H1 & _). unfold frame_ok. cbn [new_child b_inner b_ctx b_kids b_values fst snd].
  split; [exact H1|]. split; [intros n []|]. split; [intros n []|]. split; [reflexivity | constructor].
Qed.

Lemma St_pop body N B F c p r e :
  St ((direct_lets body, kid_bodies body) :: (N, B) :: F) (BSt (c :: p :: r) e) ->
  St ((N, B ++ [body]) :: F) (BSt (add_kid c p :: r) e).
Proof.
  intros [_ (I & Hc)]. split; [discriminate|]. exists I. cbn [frames chain] in *.
  destruct Hc as [(C1 & C2 & C3 & C4 & C5) [(P1 & P2 & P3 & P4 & P5) Hr]].
  split; [|exact Hr].
  assert (Hkn : kid_names (add_kid c p) = kid_names p ++ decl_names (b_ctx c)).
  { unfold kid_names. cbn [add_kid b_kids]. rewrite flat_map_app. cbn [flat_map]. rewrite app_nil_r. reflexivity. }
  unfold frame_ok. cbn [fst snd]. split; [exact P1|]. split; [exact P2|]. split; [|split].
  - intros n Hn. rewrite Hkn in Hn. apply in_app_or in Hn as [Hn|Hn]; [apply P3, Hn | apply C2, Hn].
  - unfold dvals in *. rewrite Hkn. cbn [add_kid b_ctx b_values]. cbn [fst] in P4.
    rewrite (filter_keep_ext ([] ++ kid_names p ++ decl_names (b_ctx c)) (decl_names (b_ctx c) ++ kid_names p)).
    + exact P4.
    + intro n. cbn [app]. rewrite !smem_app. apply Bool.orb_comm.
  - cbn [add_kid b_kids]. apply Forall2_app; [exact P5|]. constructor; [|constructor].
    constructor; [exact C4 | exact C5].
Qed.

(** *** a push through a finished child of the head *)
Lemma Forall2_update_nth {A B} (R : A -> B -> Prop) f : forall k la lb,
  (forall a b, R a b -> R a (f b)) -> Forall2 R la lb -> Forall2 R la (update_nth k f lb).
Proof.
  intros k la lb Hf H. revert k. induction H as [|a b la lb Hab Hl IH]; intros [|k]; cbn [update_nth];
    constructor; auto.
Qed.

Lemma kid_names_update_nth i : forall k ks,
  decl_value i = None ->
  flat_map (fun k0 => decl_names (b_ctx k0)) (update_nth k (push_ctx i) ks)
  = flat_map (fun k0 => decl_names (b_ctx k0)) ks.
Proof.
  intros k ks Hi. revert k. induction ks as [|x ks IH]; intros [|k]; cbn [update_nth flat_map]; try reflexivity.
  - unfold decl_names. cbn [push_ctx b_ctx]. rewrite decl_values_snoc_plain by exact Hi. reflexivity.
  - rewrite IH. reflexivity.
Qed.

Lemma St_kid k i F s : decl_value i = None -> St F s -> St F (st_kid k i s).
Proof.
  intros Hi [Hne (I & Hc)]. split; [exact Hne|]. exists I. unfold st_kid. cbn [frames].
  destruct F as [|g F]; [congruence|]. destruct (frames s) as [|p r]; [contradiction|].
  cbn [chain] in *. destruct Hc as [(P1 & P2 & P3 & P4 & P5) Hr]. split; [|exact Hr].
  assert (Hkn : kid_names (set_kids (update_nth k (push_ctx i) (b_kids p)) p) = kid_names p).
  { unfold kid_names. cbn [set_kids b_kids]. apply kid_names_update_nth, Hi. }
  unfold frame_ok, dvals. rewrite Hkn. cbn [set_kids b_inner b_ctx b_values b_kids].
  split; [exact P1|]. split; [exact P2|]. split; [exact P3|]. split; [exact P4|].
  apply Forall2_update_nth; [|exact P5]. intros a b. apply VT_push_ctx, Hi.
Qed.

(** ** Computations that keep the invariant (no declaration, no block opened or closed) *)
Definition KeepsV {A} (m : M A) : Prop := forall F s a s', St F s -> m s = Ok a s' -> St F s'.

Lemma KV_ret {A} (a : A) : KeepsV (ret a).
Proof. intros F s a' s' HS H; inversion H; subst; exact HS. Qed.
Lemma KV_bind {A B} (m : M A) (f : A -> M B) :
  KeepsV m -> (forall a, KeepsV (f a)) -> KeepsV (bind m f).
Proof.
  intros Hm Hf F s b s' HS H. apply bind_ok in H as (a & s1 & E & H).
  eapply Hf; [eapply Hm; eassumption | exact H].
Qed.
Lemma KV_gets {A} (g : list block -> A) : KeepsV (gets g).
Proof. intros F s a s' HS H; inversion H; subst; exact HS. Qed.
Lemma KV_panic {A} k : KeepsV (@panic A k).
Proof. intros F s a s' HS H; discriminate. Qed.
Lemma KV_oof {A} : KeepsV (@out_of_fuel A).
Proof. intros F s a s' HS H; discriminate. Qed.
Lemma KV_when b m : KeepsV m -> KeepsV (when b m).
Proof. intro H; destruct b; [exact H | apply KV_ret]. Qed.

Lemma same_core_refl_like b b' :
  b_values b' = b_values b -> b_inner b' = b_inner b -> b_ctx b' = b_ctx b -> b_kids b' = b_kids b ->
  same_core b b'.
Proof. intros H1 H2 H3 H4. unfold same_core. rewrite H1, H2, H3, H4. repeat split. Qed.

Lemma KV_emit i : decl_value i = None -> KeepsV (emit i).
Proof.
  intros Hi F s a s' HS H. apply emit_eq in H as ->. unfold st_emit.
  apply St_map; [|exact HS]. intro b. apply same_core_push_ctx, Hi.
Qed.
Lemma KV_inc : forall F s, St F s -> St F (st_inc s).
Proof.
  intros F s HS. unfold st_inc. apply St_map; [|exact HS].
  intro b. apply same_core_refl_like; reflexivity.
Qed.
Lemma KV_bump : KeepsV bump.
Proof. intros F s a s' HS H. apply bump_eq in H as [-> _]. apply KV_inc, HS. Qed.
Lemma KV_alloc_emit mk : (forall r, decl_value (mk r) = None) -> KeepsV (alloc_emit mk).
Proof.
  intros Hmk F s a s' HS H. apply alloc_emit_eq in H as [-> _]. unfold st_alloc, st_emit.
  apply St_map; [intro b; apply same_core_push_ctx, Hmk | apply KV_inc, HS].
Qed.
Lemma KV_set_label n : KeepsV (set_label_name n).
Proof.
  intros F s a s' HS H. apply set_label_name_eq in H as ->. unfold st_label.
  apply St_map; [|exact HS]. intro b. apply same_core_refl_like; reflexivity.
Qed.
Lemma KV_set_return : KeepsV set_return.
Proof.
  intros F s a s' HS H. apply set_return_eq in H as ->. unfold st_return.
  apply St_map; [|exact HS]. intro b. apply same_core_refl_like; reflexivity.
Qed.
Lemma KV_add_error e : KeepsV (add_error e).
Proof. intros F s a s' HS H. apply add_error_eq in H as ->. unfold st_error. apply St_errs, HS. Qed.
Lemma KV_next_inner_name fuel n : KeepsV (next_inner_name fuel n).
Proof. intros F s a s' HS H. apply next_inner_name_spec in H as [-> _]. exact HS. Qed.
Lemma KV_emit_kid k i : decl_value i = None -> KeepsV (emit_kid k i).
Proof.
  intros Hi F s a s' HS H. apply emit_kid_eq in H as ->. unfold st_emit.
  apply St_map; [intro b; apply same_core_push_ctx, Hi | apply St_kid; assumption].
Qed.
Lemma KV_label_probe fuel : forall n, KeepsV (label_probe fuel n).
Proof.
  induction fuel as [|f IH]; intros n F s a s' HS H; cbn in H; [discriminate|].
  destruct (set_attr_counter n) as [n'|]; [|discriminate].
  destruct (label_exists n' (frames s)); [eapply IH; eassumption|].
  revert H. apply (KV_bind (set_label_name n') (fun _ => ret n')); [apply KV_set_label | intro; apply KV_ret | exact HS].
Qed.

Ltac kv_prim :=
  first
    [ apply KV_ret | apply KV_gets | apply KV_panic | apply KV_oof | apply KV_bump
    | apply KV_alloc_emit; intro; reflexivity | apply KV_emit; reflexivity
    | apply KV_emit_kid; reflexivity | apply KV_set_label | apply KV_set_return
    | apply KV_add_error | apply KV_next_inner_name | apply KV_label_probe ].

Ltac kv_go :=
  repeat first
    [ kv_prim
    | match goal with H : _ |- KeepsV _ => solve [apply H] end
    | apply KV_when
    | apply KV_bind; [| intros ?]
    | match goal with |- KeepsV (match ?x with _ => _ end) => destruct x end
    | match goal with |- KeepsV (if ?b then _ else _) => destruct b end
    | progress cbv zeta ].

Lemma KV_gen_label base : KeepsV (gen_label base).
Proof. unfold gen_label. kv_go. Qed.

Section KeepsBody.
  Variable G : globals.

  Lemma KV_check_type_exists t v l : KeepsV (check_type_exists G t v l).
  Proof. unfold check_type_exists. kv_go. Qed.

  Section Expr.
    Variable E : expr -> M (option eres).
    Hypothesis HE : forall e, KeepsV (E e).

    Lemma KV_call_args callee params : forall args i acc, KeepsV (call_args E callee params i args acc).
    Proof. induction args as [|a args IH]; intros i acc; cbn [call_args]; kv_go. Qed.

    Lemma KV_function_call f args : KeepsV (function_call G E f args).
    Proof. unfold function_call. pose proof KV_call_args. kv_go. Qed.

    Lemma KV_expr_value v : KeepsV (expr_value G E v).
    Proof.
      pose proof KV_function_call. pose proof KV_check_type_exists.
      destruct v; cbn [expr_value]; unfold lookup_value; kv_go.
    Qed.

    Lemma KV_expr_chain : forall rest left, KeepsV (expr_chain G E left rest).
    Proof.
      pose proof KV_expr_value.
      induction rest as [|[op v] rest IH]; intros left; cbn [expr_chain]; kv_go.
    Qed.

    Lemma KV_expression_body e : KeepsV (expression_body G E e).
    Proof. pose proof KV_expr_value. pose proof KV_expr_chain. unfold expression_body. kv_go. Qed.
  End Expr.

  Lemma KV_expression fuel : forall e, KeepsV (expression G fuel e).
  Proof.
    induction fuel as [|f IH]; intros e; cbn [expression]; [apply KV_oof|].
    apply KV_expression_body; exact IH.
  Qed.

  Section Stmts.
    Variable fuel : nat.
    Variable RT : sem_ty.

    Lemma KV_binding x e : KeepsV (binding G fuel x e).
    Proof. pose proof (KV_expression fuel). unfold binding, lookup_value. kv_go. Qed.

    Lemma KV_call_stmt f args : KeepsV (call_stmt G fuel f args).
    Proof.
      unfold call_stmt. apply KV_bind; [|intro; apply KV_ret].
      apply KV_function_call. apply KV_expression.
    Qed.

    Lemma KV_condition_expression c : KeepsV (condition_expression G fuel c).
    Proof.
      pose proof (KV_expression fuel).
      induction c as [l c r | l c r op n IH] using lcond_ind'; cbn [condition_expression];
        unfold get_reg; kv_go.
    Qed.

    Lemma KV_if_condition_calculation c lb le lend ie :
      KeepsV (if_condition_calculation G fuel c lb le lend ie).
    Proof.
      pose proof (KV_expression fuel). pose proof KV_condition_expression.
      unfold if_condition_calculation. kv_go.
    Qed.

    Lemma KV_check_return_type er : KeepsV (check_return_type RT er).
    Proof. unfold check_return_type. kv_go. Qed.

    Lemma KV_code_after_errors k fl : KeepsV (code_after_errors k fl).
    Proof. unfold code_after_errors. kv_go. Qed.
  End Stmts.
End KeepsBody.

(** ** Triples under acceptance *)
Definition SpV {A} (m : M A) (F F' : list gframe) : Prop :=
  forall s a s', St F s -> m s = Ok a s' -> errs s' = [] -> St F' s'.

(** [m] declares [names] directly in the block being analysed and opens, directly in it, the
    blocks of [bodies]; the blocks below are untouched *)
Definition TrV {A} (names : list string) (bodies : list (list stmt)) (m : M A) : Prop :=
  forall N B F, SpV m ((N, B) :: F) ((N ++ names, B ++ bodies) :: F).

Lemma SpV_bind {A B} (m : M A) (f : A -> M B) F F1 F2 :
  SpV m F F1 -> (forall a, Mono (f a)) -> (forall a, SpV (f a) F1 F2) -> SpV (bind m f) F F2.
Proof.
  intros Hm Hmono Hf s b s' HS H Hacc. apply bind_ok in H as (a & s1 & E & H).
  pose proof (errs_le_nil _ _ (Hmono a _ _ _ H) Hacc) as Hacc1.
  eapply Hf; [eapply Hm; eassumption | exact H | exact Hacc].
Qed.
Lemma SpV_keeps {A} (m : M A) F : KeepsV m -> SpV m F F.
Proof. intros Hk s a s' HS H _. eapply Hk; eassumption. Qed.
Lemma SpV_conseq {A} (m : M A) F F1 F2 : SpV m F F1 -> F1 = F2 -> SpV m F F2.
Proof. intros H <-. exact H. Qed.
Lemma SpV_push F : SpV push_child F (([], []) :: F).
Proof. intros s a s' HS H _. apply push_child_eq in H as ->. apply St_push, HS. Qed.
Lemma SpV_pop body N B F :
  SpV pop_child ((direct_lets body, kid_bodies body) :: (N, B) :: F) ((N, B ++ [body]) :: F).
Proof.
  intros s k s' HS H _. apply pop_child_eq in H as (c & p & r & Hf & -> & _).
  destruct s as [fs e]. cbn [frames errs] in *. subst fs. apply St_pop, HS.
Qed.

Lemma SpV_of_TrV {A} names bodies (m : M A) N B F :
  TrV names bodies m -> SpV m ((N, B) :: F) ((N ++ names, B ++ bodies) :: F).
Proof. intro H. apply H. Qed.

Lemma TrV_keeps {A} (m : M A) : KeepsV m -> TrV [] [] m.
Proof. intros Hk N B F. rewrite !app_nil_r. apply SpV_keeps, Hk. Qed.
Lemma TrV_bind {A B} n1 b1 n2 b2 (m : M A) (f : A -> M B) :
  TrV n1 b1 m -> (forall a, Mono (f a)) -> (forall a, TrV n2 b2 (f a)) ->
  TrV (n1 ++ n2) (b1 ++ b2) (bind m f).
Proof.
  intros Hm Hmono Hf N B0 F. rewrite !app_assoc.
  eapply SpV_bind; [apply Hm | exact Hmono | intro a; apply Hf].
Qed.
Lemma TrV_bind_keeps_l {A B} n b (m : M A) (f : A -> M B) :
  KeepsV m -> (forall a, Mono (f a)) -> (forall a, TrV n b (f a)) -> TrV n b (bind m f).
Proof. intros Hm Hmono Hf. apply (TrV_bind [] [] n b); [apply TrV_keeps, Hm | exact Hmono | exact Hf]. Qed.
Lemma TrV_bind_keeps_r {A B} n b (m : M A) (f : A -> M B) :
  TrV n b m -> (forall a, Mono (f a)) -> (forall a, KeepsV (f a)) -> TrV n b (bind m f).
Proof.
  intros Hm Hmono Hf. rewrite <- (app_nil_r n), <- (app_nil_r b).
  apply TrV_bind; [exact Hm | exact Hmono | intro a; apply TrV_keeps, Hf].
Qed.
Lemma TrV_oof {A} n b : TrV n b (@out_of_fuel A).
Proof. intros N B F s a s' _ H; discriminate. Qed.
Lemma TrV_panic {A} n b k : TrV n b (@panic A k).
Proof. intros N B F s a s' _ H; discriminate. Qed.

(** ** The source side *)
Definition let_names (st : stmt) : list string :=
  match st with SLet x _ _ _ => [iname x] | _ => [] end.

Lemma direct_lets_cons st ss : direct_lets (st :: ss) = let_names st ++ direct_lets ss.
Proof. reflexivity. Qed.
Lemma kid_bodies_cons st ss : kid_bodies (st :: ss) = bodies_stmt st ++ kid_bodies ss.
Proof. reflexivity. Qed.

Lemma bodies_if_eq c body els elif :
  bodies_if (IfS c body els elif) =
  ifbody_stmts body ::
  match els with
  | Some eb => [ifbody_stmts eb]
  | None => match elif with Some i' => bodies_if i' | None => [] end
  end.
Proof. destruct body, els as [[?|?]|]; reflexivity. Qed.

Section TrBody.
  Variable G : globals.
  Hypothesis HG : fnames_ok G.
  Variable fuel : nat.
  Variable RT : sem_ty.

  (** the one place where acceptance matters: the declaration is executed *)
  Lemma TrV_let_binding x m t e : TrV [iname x] [] (let_binding G fuel x m t e).
  Proof.
    intros N B F s a s' HS H Hacc. unfold let_binding in H.
    apply bind_ok in H as (r & s1 & E & H). cbv beta in H.
    assert (Hacc1 : errs s1 = []).
    { match type of H with ?k s1 = _ => refine (acc_back k s1 a s' _ H Hacc) end.
      unfold lookup_value. mono_go. }
    pose proof (KV_expression G fuel e _ _ _ _ HS E) as HS1.
    destruct (SL_expression G HG fuel e s r s1 (St_ctxs_ne _ _ HS) E Hacc1) as (d0 & _ & _ & Hr & _).
    destruct r as [er|]; [|congruence]. cbv zeta in H.
    match type of H with (if ?b then _ else _) _ = _ => destruct b end.
    - exfalso. eapply add_error_not_nil; eassumption.
    - unfold lookup_value in H. rewrite !bind_gets_eq in H.
      apply bind_ok in H as (inner & s2 & E2 & H). apply next_inner_name_spec in E2 as [-> Hfresh].
      apply bind_ok in H as (u1 & s3 & E3 & H). apply insert_value_eq in E3 as ->.
      apply bind_ok in H as (u2 & s4 & E4 & H). apply set_inner_name_eq in E4 as ->.
      apply emit_eq in H as ->. rewrite app_nil_r.
      exact (St_declare (ILet (Value inner (r_ty er) m) er) (iname x) (Value inner (r_ty er) m)
                        N B F s1 eq_refl Hfresh HS1).
  Qed.

  Section Control.
    Variable IFC : ifstmt -> option string -> option (string * string) -> M unit.
    Variable LOOP : list stmt -> M unit.
    Hypothesis HIFC : forall i le ll, TrV [] (bodies_if i) (IFC i le ll).
    Hypothesis HLOOP : forall b, TrV [] [b] (LOOP b).
    Hypothesis HIFCr : forall i oe ll, R2 (IFC i oe ll).
    Hypothesis HLOOPr : forall body, R2 (LOOP body).

    Lemma V_IFCm i oe ll : Mono (IFC i oe ll).
    Proof. apply Mono_R2, HIFCr. Qed.
    Lemma V_LOOPm body : Mono (LOOP body).
    Proof. apply Mono_R2, HLOOPr. Qed.
    Lemma V_Mono_nested_stmt k lend lloop fl st :
      Mono (nested_stmt G fuel RT IFC LOOP k lend lloop fl st).
    Proof. apply Mono_R2, R2_nested_stmt; assumption. Qed.
    Lemma V_Mono_run_body k lend lloop fl ss : Mono (run_body G fuel RT IFC LOOP k lend lloop fl ss).
    Proof. apply Mono_R2, R2_run_body; assumption. Qed.
    Lemma V_Mono_if_body b lend lloop : Mono (if_body G fuel RT IFC LOOP b lend lloop).
    Proof. apply Mono_R2, R2_if_body; assumption. Qed.

    Lemma TrV_nested_stmt k lend lloop fl st :
      TrV (let_names st) (bodies_stmt st) (nested_stmt G fuel RT IFC LOOP k lend lloop fl st).
    Proof.
      pose proof (KV_expression G fuel). pose proof (KV_binding G fuel).
      pose proof (KV_call_stmt G fuel). pose proof (KV_check_return_type RT).
      destruct st; cbn [nested_stmt let_names bodies_stmt]; try solve [apply TrV_keeps; kv_go].
      - apply TrV_bind_keeps_r; [apply TrV_let_binding | intros; mono_go | intro; apply KV_ret].
      - apply TrV_bind_keeps_r; [destruct k; apply HIFC | intros; mono_go | intro; apply KV_ret].
      - apply TrV_bind_keeps_r; [apply HLOOP | intros; mono_go | intro; apply KV_ret].
    Qed.

    Lemma TrV_run_body k lend lloop : forall ss fl,
      TrV (direct_lets ss) (kid_bodies ss) (run_body G fuel RT IFC LOOP k lend lloop fl ss).
    Proof.
      pose proof V_Mono_nested_stmt as HM1. pose proof V_Mono_run_body as HM2.
      induction ss as [|st ss IH]; intros fl; cbn [run_body].
      - apply TrV_keeps, KV_ret.
      - rewrite direct_lets_cons, kid_bodies_cons.
        apply TrV_bind_keeps_l; [apply KV_code_after_errors | intros; mono_go | intros _].
        apply TrV_bind; [apply TrV_nested_stmt | intros; mono_go | intro fl'; apply IH].
    Qed.

    Lemma TrV_if_body b lend lloop :
      TrV (direct_lets (ifbody_stmts b)) (kid_bodies (ifbody_stmts b))
          (if_body G fuel RT IFC LOOP b lend lloop).
    Proof.
      destruct b as [ss|ss]; cbn [if_body ifbody_stmts].
      - apply TrV_bind_keeps_r; [apply TrV_run_body | intros; mono_go | intro; apply KV_ret].
      - destruct lloop; [|apply TrV_panic].
        apply TrV_bind_keeps_r; [apply TrV_run_body | intros; mono_go | intro; apply KV_ret].
    Qed.

    Ltac spv_k :=
      eapply SpV_bind; [apply SpV_keeps; kv_go | intros; mono_go | intros ?].
    Ltac spv_end := eapply SpV_conseq; [apply SpV_keeps; kv_go |].

    Lemma TrV_if_condition_step i le ll :
      TrV [] (bodies_if i) (if_condition_step G fuel RT IFC LOOP i le ll).
    Proof.
      pose proof KV_gen_label. pose proof (KV_if_condition_calculation G fuel).
      pose proof V_Mono_if_body as HM1. pose proof (Mono_if_condition_calculation G fuel) as HM2.
      pose proof V_IFCm as HM3.
      destruct i as [c body els elif]. intros N B F. rewrite bodies_if_eq.
      destruct els as [eb|]; [|destruct elif as [ei|]];
        cbn [if_condition_step is_some orb].
      - (* then and else: two blocks *)
        spv_k. eapply SpV_bind; [apply SpV_push | intros; mono_go | intros _].
        spv_k. spv_k. spv_k. cbv zeta. spv_k. spv_k.
        eapply SpV_bind; [apply SpV_of_TrV, TrV_if_body | intros; mono_go | intros returned].
        spv_k. spv_k.
        eapply SpV_bind; [apply (SpV_pop (ifbody_stmts body)) | intros; mono_go | intros slot].
        eapply SpV_bind; [| intros; mono_go | intros _; spv_end; reflexivity].
        eapply SpV_bind; [apply SpV_push | intros; mono_go | intros _].
        eapply SpV_bind; [apply SpV_of_TrV, TrV_if_body | intros; mono_go | intros returned'].
        eapply SpV_bind; [apply (SpV_pop (ifbody_stmts eb)) | intros; mono_go | intros _].
        spv_end. rewrite app_nil_r, <- app_assoc. reflexivity.
      - (* then and else-if: the blocks of the else-if are siblings *)
        spv_k. eapply SpV_bind; [apply SpV_push | intros; mono_go | intros _].
        spv_k. spv_k. spv_k. cbv zeta. spv_k. spv_k.
        eapply SpV_bind; [apply SpV_of_TrV, TrV_if_body | intros; mono_go | intros returned].
        spv_k. spv_k.
        eapply SpV_bind; [apply (SpV_pop (ifbody_stmts body)) | intros; mono_go | intros slot].
        eapply SpV_bind; [| intros; mono_go | intros _; spv_end; reflexivity].
        eapply SpV_conseq; [apply SpV_of_TrV, HIFC|].
        rewrite <- app_assoc. reflexivity.
      - (* then only *)
        spv_k. eapply SpV_bind; [apply SpV_push | intros; mono_go | intros _].
        spv_k. spv_k. spv_k. cbv zeta. spv_k. spv_k.
        eapply SpV_bind; [apply SpV_of_TrV, TrV_if_body | intros; mono_go | intros returned].
        spv_k. spv_k.
        eapply SpV_bind; [apply (SpV_pop (ifbody_stmts body)) | intros; mono_go | intros _].
        spv_end. rewrite app_nil_r. reflexivity.
    Qed.

    Lemma TrV_loop_step body : TrV [] [body] (loop_step G fuel RT IFC LOOP body).
    Proof.
      pose proof KV_gen_label. pose proof V_Mono_run_body as HM1.
      intros N B F. unfold loop_step.
      eapply SpV_bind; [apply SpV_push | intros; mono_go | intros _].
      spv_k. spv_k. spv_k. spv_k.
      eapply SpV_bind; [apply SpV_of_TrV, TrV_run_body | intros; mono_go | intros fl].
      spv_k.
      eapply SpV_bind; [apply (SpV_pop body) | intros; mono_go | intros _].
      spv_end. rewrite app_nil_r. reflexivity.
    Qed.
  End Control.

  Lemma TrV_control n :
    (forall i le ll, TrV [] (bodies_if i) (if_condition G fuel RT n i le ll)) /\
    (forall b, TrV [] [b] (loop_statement G fuel RT n b)).
  Proof.
    induction n as [|n [IH1 IH2]]; split; intros; cbn [if_condition loop_statement];
      try apply TrV_oof; destruct (R2_control G fuel RT n) as [R1 R2'].
    - apply TrV_if_condition_step; assumption.
    - apply TrV_loop_step; assumption.
  Qed.

  Lemma TrV_fn_stmt returned st :
    TrV (let_names st) (bodies_stmt st) (fn_stmt G fuel RT returned st).
  Proof.
    pose proof (KV_expression G fuel). pose proof (KV_binding G fuel).
    pose proof (KV_call_stmt G fuel). pose proof (KV_check_type_exists G).
    destruct (TrV_control fuel) as [HI HL].
    destruct st; cbn [fn_stmt let_names bodies_stmt]; try solve [apply TrV_keeps; kv_go].
    - apply TrV_bind_keeps_r; [apply TrV_let_binding | intros; mono_go | intro; apply KV_ret].
    - apply TrV_bind_keeps_r; [apply HI | intros; mono_go | intro; apply KV_ret].
    - apply TrV_bind_keeps_r; [apply HL | intros; mono_go | intro; apply KV_ret].
  Qed.

  Lemma TrV_fn_stmts : forall ss returned,
    TrV (direct_lets ss) (kid_bodies ss) (fn_stmts G fuel RT returned ss).
  Proof.
    pose proof (Mono_fn_stmt G fuel RT) as HM1. pose proof (Mono_fn_stmts G fuel RT) as HM2.
    induction ss as [|st ss IH]; intros returned; cbn [fn_stmts].
    - apply TrV_keeps, KV_ret.
    - rewrite direct_lets_cons, kid_bodies_cons.
      apply TrV_bind_keeps_l; [kv_go | intros; mono_go | intros _].
      apply TrV_bind; [apply TrV_fn_stmt | intros; mono_go | intro r'; apply IH].
  Qed.
End TrBody.

(** ** The parameter phase *)
Lemma init_func_params_St : forall ps N s a s',
  St [(N, [])] s -> param_phase s -> init_func_params ps s = Ok a s' -> errs s' = [] ->
  St [(N ++ map (fun p => iname (fst p)) ps, [])] s'.
Proof.
  induction ps as [|[x t] ps IH]; intros N s a s' HS Hph H Hacc; cbn [init_func_params] in H.
  - inversion H; subst. cbn [map]. rewrite app_nil_r. exact HS.
  - destruct Hph as (b & Hfs & Hkeys).
    unfold lookup_value in H. rewrite bind_gets_eq in H. rewrite Hfs in H. cbn [lookup_frames] in H.
    destruct (alookup (iname x) (b_values b)) as [v|] eqn:El.
    + exfalso. eapply add_error_not_nil; eassumption.
    + set (val := Value (iname x) (sem_of_ty t) false) in *.
      apply bind_ok in H as (u1 & s1 & E1 & H). apply insert_value_eq in E1 as ->.
      apply bind_ok in H as (u2 & s2 & E2 & H). apply set_inner_name_eq in E2 as ->.
      apply bind_ok in H as (u3 & s3 & E3 & H). apply emit_eq in E3 as ->.
      assert (Hfresh : inner_exists (v_inner val) (frames s) = false).
      { rewrite Hfs. cbn. rewrite Bool.orb_false_r. destruct (smem (iname x) (b_inner b)) eqn:Es; [|reflexivity].
        apply Hkeys in Es. unfold amem in Es. rewrite El in Es. discriminate. }
      cbn [map fst]. change (iname x :: map (fun p => iname (fst p)) ps)
        with ([iname x] ++ map (fun p => iname (fst p)) ps). rewrite app_assoc.
      eapply IH; [| |exact H | exact Hacc].
      * exact (St_declare (IFnArg val (iname x) (sem_of_ty t)) (iname x) val N [] [] s eq_refl Hfresh HS).
      * unfold st_emit, st_inner, st_value. rewrite Hfs. cbn [frames map].
        eexists. split; [reflexivity|]. cbn [push_ctx add_inner set_value b_inner b_values].
        intros n Hn. rewrite amem_ainsert. apply smem_sadd_inv in Hn as [->|Hn].
        -- cbn [v_inner val]. rewrite String.eqb_refl. reflexivity.
        -- rewrite (Hkeys n Hn). apply Bool.orb_true_r.
Qed.

Lemma St_init e : St [([], [])] (BSt [empty_block] e).
Proof.
  split; [discriminate|]. exists []. cbn [frames chain]. split; [|exact I].
  unfold frame_ok. cbn. split; [reflexivity|]. split; [intros n []|]. split; [intros n []|].
  split; [reflexivity | constructor].
Qed.

(** ** One function *)
Definition param_names (f : fn_decl) : list string := map (fun p => iname (fst p)) (fn_params f).

Lemma function_body_VT G f a s root :
  fnames_ok G -> function_body G [] f = Ok a s -> errs s = [] -> frames s = [root] ->
  VT (param_names f) (fn_body f) root.
Proof.
  intros HG H Hacc Hf. unfold function_body, function_body_m in H.
  pose proof Mono_init_func_params as HM0.
  pose proof (Mono_fn_stmts G (fuel_of f) (sem_of_ty (fn_result f))) as HM1.
  dstep H Hacc as u0 E0 Hacc0.
  destruct (Inv_names_init []) as [_ Hph].
  pose proof (init_func_params_St _ [] _ _ _ (St_init []) Hph E0 Hacc0) as HS0. cbn [app] in HS0.
  dstep H Hacc as returned E1 Hacc1.
  pose proof (TrV_fn_stmts G HG _ _ (fn_body f) false _ _ _ _ _ _ HS0 E1 Hacc1) as HS1.
  assert (HS : St [(param_names f ++ direct_lets (fn_body f), [] ++ kid_bodies (fn_body f))] s).
  { destruct (negb returned); cbn [when] in H.
    - apply add_error_eq in H as ->. apply St_errs, HS1.
    - inversion H; subst. exact HS1. }
  destruct HS as [_ (I & Hc)]. rewrite Hf in Hc. cbn [chain app] in Hc.
  destruct Hc as [(_ & _ & _ & H4 & H5) _]. cbn [fst snd] in *.
  constructor; [rewrite direct_decls_dvals; exact H4 | exact H5].
Qed.

(** ** From the property to the monitor *)
Lemma bodies_if_size : forall i body, In body (bodies_if i) -> (size_stmts body < size_if i)%nat.
Proof.
  fix IH 1. intros [c b els elif] body. rewrite bodies_if_eq. cbn [size_if].
  intros [<-|Hin].
  - destruct b; [rewrite size_ibif | rewrite size_ibloop]; cbn [ifbody_stmts]; lia.
  - destruct els as [eb|].
    + destruct Hin as [<-|[]]. destruct eb; [rewrite size_ibif | rewrite size_ibloop]; cbn [ifbody_stmts]; lia.
    + destruct elif as [ei|]; [|contradiction]. specialize (IH ei body Hin). lia.
Qed.

Lemma kid_bodies_size : forall ss body, In body (kid_bodies ss) -> (size_stmts body < size_stmts ss)%nat.
Proof.
  induction ss as [|st ss IH]; intros body Hin; [contradiction|].
  rewrite kid_bodies_cons in Hin. rewrite size_stmts_cons. apply in_app_or in Hin as [Hin|Hin].
  - assert (size_stmts body < size_stmt st)%nat; [|lia].
    destruct st; cbn [bodies_stmt] in Hin; try contradiction.
    + apply bodies_if_size in Hin. cbn [size_stmt]. lia.
    + destruct Hin as [<-|[]]. rewrite size_loop. lia.
  - specialize (IH body Hin). lia.
Qed.

Lemma chk_vals_of_VT : forall fuel own ss b,
  (size_stmts ss < fuel)%nat -> VT own ss b -> chk_vals fuel own ss b = true.
Proof.
  induction fuel as [|fuel IH]; intros own ss b Hsz H; [lia|].
  inversion H as [? ? ? Ht Hk]; subst. cbn [chk_vals]. rewrite Ht.
  rewrite table_eqb_refl by (eapply build_table_NoDup; [|exact Ht]; constructor). cbn [andb].
  assert (Hsz' : forall body, In body (kid_bodies ss) -> (size_stmts body < fuel)%nat).
  { intros body Hin. apply kid_bodies_size in Hin. lia. }
  clear Ht H. induction Hk as [|body k bodies ks Hbk _ IHk]; [reflexivity|].
  rewrite (IH [] body k (Hsz' body (or_introl eq_refl)) Hbk). cbn [andb].
  apply IHk. intros body' Hin. apply Hsz'. right. exact Hin.
Qed.

Lemma chk_C18_values_fn_of_VT f root :
  VT (param_names f) (fn_body f) root -> chk_C18_values_fn f root = true.
Proof.
  intro H. unfold chk_C18_values_fn. apply chk_vals_of_VT; [|exact H]. unfold size_fn. lia.
Qed.

(** C18, value tables: in an accepted program every block's value table holds exactly the names
    declared directly in that block (parameters in the root), bound to their latest
    declaration. *)
Theorem run_value_tables_VT : forall p out,
  run p = ROk out -> o_errors out = [] ->
  Forall2 (fun f root => VT (param_names f) (fn_body f) root) (functions_of p) (o_fns out).
Proof.
  intros p out H Hacc.
  eapply Forall2_impl; [|exact (run_accepted_each p out H Hacc)]. cbv beta.
  intros f root (a & s & Hb & He & Hfr).
  exact (function_body_VT _ f a s root (fnames_of_run p out H) Hb He Hfr).
Qed.

Theorem run_value_tables : forall p out,
  run p = ROk out -> o_errors out = [] -> chk_C18_values p out = true.
Proof.
  intros p out H Hacc. unfold chk_C18_values. rewrite Hacc.
  pose proof (run_value_tables_VT p out H Hacc) as HF.
  induction HF as [|f root fs roots Hfr _ IH]; [reflexivity|].
  cbn [chk_C18_values_fns]. rewrite (chk_C18_values_fn_of_VT f root Hfr), IH. reflexivity.
Qed.

(** ** The readable content of [VT]

    [table_of names vals]: the table obtained by inserting [names] bound to [vals], in order
    (a later binding of a name replaces the earlier one). *)
Fixpoint table_of (names : list string) (vals : list value) : list (string * value) :=
  match names, vals with
  | x :: names', v :: vals' => (x, v) :: table_of names' vals'
  | _, _ => []
  end.

Lemma build_table_lookup : forall names vals acc t x,
  build_table names vals acc = Some t ->
  length names = length vals /\
  alookup x t = match alookup x (rev (table_of names vals)) with
                | Some v => Some v
                | None => alookup x acc
                end.
Proof.
  induction names as [|y names IH]; intros [|w vals] acc t x H; cbn [build_table] in H; try discriminate.
  - inversion H; subst. split; reflexivity.
  - destruct (IH vals (ainsert y w acc) t x H) as [Hl Ha]. split; [cbn; lia|].
    rewrite Ha. cbn [table_of rev]. rewrite alookup_snoc, alookup_ainsert.
    destruct (alookup x (rev (table_of names vals))); [reflexivity|].
    destruct (String.eqb x y); reflexivity.
Qed.

(** Every block [b] of the tree of a function of an accepted program, paired with the source
    statement list [ss] that opened it ([own]: the parameter names for the root, none
    otherwise): its direct declaring instructions are as many as the names declared directly in
    it, and its table maps a name to the value record of the LAST direct declaration of that
    name, and nothing else. *)
Theorem VT_reading own ss b :
  VT own ss b ->
  length (own ++ direct_lets ss) = length (direct_decls b) /\
  (forall x, alookup x (b_values b) =
             alookup x (rev (table_of (own ++ direct_lets ss) (direct_decls b)))) /\
  Forall2 (VT []) (kid_bodies ss) (b_kids b).
Proof.
  intro H. inversion H as [? ? ? Ht Hk]; subst.
  split; [exact (proj1 (build_table_lookup _ _ _ _ EmptyString Ht))|]. split; [|exact Hk].
  intro x. rewrite (proj2 (build_table_lookup _ _ _ _ x Ht)).
  destruct (alookup x (rev _)); reflexivity.
Qed.

Print Assumptions run_value_tables.
Print Assumptions run_value_tables_VT.
Print Assumptions VT_reading.
