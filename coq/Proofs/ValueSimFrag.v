(** C05 with values, the semantic core of the simulation: compiled fragments with exits, WITH
    DATA.  The counterpart of [FlowFrag.v]: everything here is about one fixed program [c] of the
    register machine in which no label is set twice and every label that is named is set; no
    analyzer is involved.

    A fragment is a segment [d] of [c], placed ([Pos]: what is known about the registers defined
    before, inside and after it).  [VFrag] / [VFragL] say: from every machine state whose store
    agrees, through the value tables [ts], with the source environment ([MS]), executing [d] from
    its first instruction does what the structured run [R n env] does - the same events with the
    same values - and leaves [d] through the exit that corresponds to the completion of the
    structured run, in a machine state that again agrees with the environment of the source:

    - [VNormal]: falls through to the instruction after [d] ([VFrag]; tables [ts']), or is at the
      end label of the enclosing if chain ([VFragL]);
    - [VJumpOuterEnd]: is at the end label of the enclosing if chain;
    - [VBrk] / [VCont]: is at the end / begin label of the enclosing loop;
      (for these three the environment is the one of the source with the frames of the blocks
      that are left removed: [skipn k]);
    - [VStop VReturned]: has halted with that status, after the same events;
    - [VStop VOutOfFuel]: the structured run was cut off; whatever its fuel, the events of the
      machine are comparable with the events so far ([VPre]);
    - no other completion (stuck, fell off) is possible. *)
From Coq Require Import Lia.
From SA Require Import Model.
From SA.Spec Require Import Stack Exec ValueExec.
From SA.Proofs Require Import ExecBasic FlowBasic FlowSem DenoteLogic ValueSimBase ValueSimExpr.
Local Open Scope list_scope.

Ltac vlen := repeat (progress (repeat rewrite app_length; cbn [length])); lia.
Ltac vsplit_eq := repeat (progress (repeat rewrite <- app_assoc; cbn [app])); reflexivity.

Lemma skipn_S_tl {A} k (l : list A) : skipn (S k) l = skipn k (tl l).
Proof. destruct l; [destruct k|]; reflexivity. Qed.

Lemma DefsIn_refl_nondef h i : def_reg i = None -> DefsIn h h [i].
Proof. apply DefsIn_nondef. Qed.

(** ** Unfolding equations of the source semantics *)
Section Unfold.
  Variable V : Type.
  Variable I : interp V.
  Variable q : bool.

  Lemma vexec_stmts_nil n b env : vexec_stmts V I q n b [] env = ([], VNormal, env).
  Proof. destruct n; reflexivity. Qed.
  Lemma vexec_stmts_S n b s ss env :
    vexec_stmts V I q (S n) b (s :: ss) env =
    vseq V (vexec_stmt V I q n b s env) (vexec_stmts V I q n b ss).
  Proof. reflexivity. Qed.
  Lemma vexec_loop_S n body env :
    vexec_loop V I q (S n) body env =
    vloop_exit V (close_block V (vexec_stmts V I q n false body ([] :: env))) (vexec_loop V I q n body).
  Proof. reflexivity. Qed.
End Unfold.

Section Frag.
  Variable V : Type.
  Variable I : interp V.
  Variable c : list instr.
  Hypothesis Hnd : NoDup (set_labels c).
  Hypothesis Hres : resolved c.

  Notation tab := (list (string * value)).
  Notation mst := (mstate V).
  Notation evs := (list (vevent V)).

  (** the machine state agrees with the environment of the source *)
  Definition MS (ts : list tab) (st : mst) (env : venv V) : Prop :=
    DomOK c (m_regs st) /\ Rel ts (m_store st) env.

  Lemma MS_skipn k ts st env : MS ts st env -> MS (skipn k ts) st (skipn k env).
  Proof. intros [H1 H2]. split; [exact H1 | apply Rel_skipn, H2]. Qed.
  Lemma MS_tl ts st env : MS ts st env -> MS (tl ts) st (tl env).
  Proof.
    intro H. apply (MS_skipn 1) in H. destruct ts, env; exact H.
  Qed.
  Lemma MS_push ts st env : MS ts st env -> MS ([] :: ts) st ([] :: env).
  Proof. intros [H1 H2]. split; [exact H1 | apply Rel_push, H2]. Qed.

  (** ** Exits *)
  Inductive vxt := VXPos (pc : nat) (st : mst) | VXHalt (s : vstatus) | VXPre.

  Definition vdoes (p0 : nat) (st : mst) (e : evs) (x : vxt) : Prop :=
    match x with
    | VXPos pc st' => vsteps I c p0 st e pc st'
    | VXHalt s => vhalts I c p0 st e s
    | VXPre => VPre I c p0 st e
    end.

  Lemma vdoes_prepend p st e0 p0 st0 e x :
    vsteps I c p st e0 p0 st0 -> vdoes p0 st0 e x -> vdoes p st (e0 ++ e) x.
  Proof.
    intros Hs. destruct x; cbn [vdoes]; intro H.
    - eapply vsteps_trans; eassumption.
    - eapply vsteps_halts; eassumption.
    - eapply vsteps_VPre; eassumption.
  Qed.

  Definition VSem (T : vcompletion -> vxt -> venv V -> Prop) (p0 : nat) (st : mst) (r : vsres V)
    : Prop :=
    let '(e, cpl, env') := r in exists x, vdoes p0 st e x /\ T cpl x env'.

  Lemma VSem_prepend (T : vcompletion -> vxt -> venv V -> Prop) p st e0 p0 st0 r :
    vsteps I c p st e0 p0 st0 -> VSem T p0 st0 r -> VSem T p st (vprepend V e0 r).
  Proof.
    destruct r as [[e cpl] env']. intros Hs (x & Hd & HT). exists x.
    split; [eapply vdoes_prepend; eassumption | exact HT].
  Qed.

  Lemma VSem_prepend_nil (T : vcompletion -> vxt -> venv V -> Prop) p st p0 st0 r :
    vsteps I c p st [] p0 st0 -> VSem T p0 st0 r -> VSem T p st r.
  Proof.
    intros Hs H. pose proof (VSem_prepend T p st [] p0 st0 r Hs H) as H'.
    destruct r as [[e cpl] env']. exact H'.
  Qed.

  Lemma VSem_mono (T T' : vcompletion -> vxt -> venv V -> Prop) p st r :
    (forall cpl x env, T cpl x env -> T' cpl x env) -> VSem T p st r -> VSem T' p st r.
  Proof.
    destruct r as [[e cpl] env']. intros HT (x & Hd & H). exists x. split; [exact Hd | apply HT, H].
  Qed.

  Lemma VSem_eq_pos (T : vcompletion -> vxt -> venv V -> Prop) p p' st r :
    VSem T p st r -> p = p' -> VSem T p' st r.
  Proof. intros H <-. exact H. Qed.

  Lemma VSem_oof (T : vcompletion -> vxt -> venv V -> Prop) p st env :
    (forall env', T (VStop VOutOfFuel) VXPre env') -> VSem T p st (vout_of_fuel V env).
  Proof. intro HT. exists VXPre. split; [apply VPre_nil | apply HT]. Qed.

  (** a cut-off prefix of what the machine does next *)
  Lemma VSem_cut (T : vcompletion -> vxt -> venv V -> Prop) p st e pc' st' pfx env :
    vsteps I c p st e pc' st' -> pref pfx e ->
    (forall env', T (VStop VOutOfFuel) VXPre env') -> VSem T p st (pfx, VStop VOutOfFuel, env).
  Proof.
    intros Hs Hp HT. exists VXPre. split; [|apply HT]. eapply vsteps_VPre_pref; eassumption.
  Qed.

  (** ** The contexts and the tables *)

  (** the enclosing loop: begin label, end label, how many blocks are open since its statement,
      the value tables at its statement; the enclosing if chain: end label, ... *)
  Definition lctx := option (string * string * nat * list tab).
  Definition ectx := option (string * nat * list tab).

  Definition shiftL (ll : lctx) : lctx :=
    match ll with Some (lb, le, k, tq) => Some (lb, le, S k, tq) | None => None end.
  Definition shiftE (oe : ectx) : ectx :=
    match oe with Some (le, k, te) => Some (le, S k, te) | None => None end.

  Definition TC (ll : lctx) (d : list instr) (cpl : vcompletion) (x : vxt) (env : venv V) : Prop :=
    match cpl with
    | VBrk => exists lb le k tq pc st, ll = Some (lb, le, k, tq) /\ In (IJumpTo le) d /\
                                       find_label le c = Some pc /\ x = VXPos pc st /\
                                       MS tq st (skipn k env)
    | VCont => exists lb le k tq pc st, ll = Some (lb, le, k, tq) /\
                                        find_label lb c = Some pc /\ x = VXPos pc st /\
                                        MS tq st (skipn k env)
    | VStop VReturned => x = VXHalt VReturned
    | VStop VOutOfFuel => x = VXPre
    | _ => False
    end.

  Definition TF (oe : ectx) (ll : lctx) (nn : bool) (d : list instr) (pend : nat) (ts' : list tab)
             (cpl : vcompletion) (x : vxt) (env : venv V) : Prop :=
    match cpl with
    | VNormal => nn = false /\ exists st, x = VXPos pend st /\ MS ts' st env
    | VJumpOuterEnd => exists le k te pc st, oe = Some (le, k, te) /\ find_label le c = Some pc /\
                                             x = VXPos pc st /\ MS te st (skipn k env)
    | _ => TC ll d cpl x env
    end.

  Definition TL (lend : string) (k : nat) (te : list tab) (ll : lctx) (d : list instr)
             (cpl : vcompletion) (x : vxt) (env : venv V) : Prop :=
    match cpl with
    | VNormal | VJumpOuterEnd =>
        exists pc st, find_label lend c = Some pc /\ x = VXPos pc st /\ MS te st (skipn k env)
    | _ => TC ll d cpl x env
    end.

  Lemma TC_incl ll d d' cpl x env : incl d d' -> TC ll d cpl x env -> TC ll d' cpl x env.
  Proof.
    intros Hi. destruct cpl; cbn [TC]; try exact (fun H => H).
    intros (lb & le & k & tq & pc & st & H1 & H2 & H3). exists lb, le, k, tq, pc, st.
    split; [exact H1|]. split; [apply Hi, H2 | exact H3].
  Qed.

  Lemma TL_incl lend k te ll d d' cpl x env :
    incl d d' -> TL lend k te ll d cpl x env -> TL lend k te ll d' cpl x env.
  Proof.
    intros Hi. destruct cpl; cbn [TL]; try exact (fun H => H); apply TC_incl, Hi.
  Qed.

  Lemma TC_oof ll d env : TC ll d (VStop VOutOfFuel) VXPre env.
  Proof. reflexivity. Qed.
  Lemma TF_oof oe ll nn d pend ts' env : TF oe ll nn d pend ts' (VStop VOutOfFuel) VXPre env.
  Proof. reflexivity. Qed.
  Lemma TL_oof lend k te ll d env : TL lend k te ll d (VStop VOutOfFuel) VXPre env.
  Proof. reflexivity. Qed.

  (** leaving a block: one frame less on both sides *)
  Lemma TC_shift ll d cpl x env : TC (shiftL ll) d cpl x env -> TC ll d cpl x (tl env).
  Proof.
    destruct cpl; cbn [TC]; try exact (fun H => H).
    - intros (lb & le & k & tl' & pc & st & H1 & H2 & H3 & H4 & H5).
      destruct ll as [[[[lb0 le0] k0] tl0]|]; [|discriminate]. cbn [shiftL] in H1.
      inversion H1; subst lb le k tl'. rewrite skipn_S_tl in H5.
      exists lb0, le0, k0, tl0, pc, st. split; [reflexivity|]. split; [exact H2|]. split; [exact H3|]. split; [exact H4 | exact H5].
    - intros (lb & le & k & tl' & pc & st & H1 & H3 & H4 & H5).
      destruct ll as [[[[lb0 le0] k0] tl0]|]; [|discriminate]. cbn [shiftL] in H1.
      inversion H1; subst lb le k tl'. rewrite skipn_S_tl in H5.
      exists lb0, le0, k0, tl0, pc, st. split; [reflexivity|]. split; [exact H3|]. split; [exact H4 | exact H5].
  Qed.

  (** ** Fragments *)
  Definition VFrag (oe : ectx) (ll : lctx) (R : nat -> venv V -> vsres V) (nn : bool)
             (d : list instr) (ts ts' : list tab) (h h' : N) : Prop :=
    forall pre post, Pos c pre d post h h' ->
    forall n st env, MS ts st env ->
      VSem (TF oe ll nn d (length pre + length d) ts') (length pre) st (R n env).

  Definition VFragL (lend : string) (k : nat) (te : list tab) (ll : lctx)
             (R : nat -> venv V -> vsres V) (d : list instr) (ts : list tab) (h h' : N) : Prop :=
    forall pre post, Pos c pre d post h h' ->
    forall n st env, MS ts st env -> VSem (TL lend k te ll d) (length pre) st (R n env).

  Lemma VFrag_ext oe ll R R' nn d ts ts' h h' :
    (forall n env, R n env = R' n env) -> VFrag oe ll R nn d ts ts' h h' -> VFrag oe ll R' nn d ts ts' h h'.
  Proof. intros HR H pre post Hp n st env HM. rewrite <- HR. apply (H _ _ Hp), HM. Qed.
  Lemma VFragL_ext lend k te ll R R' d ts h h' :
    (forall n env, R n env = R' n env) -> VFragL lend k te ll R d ts h h' -> VFragL lend k te ll R' d ts h h'.
  Proof. intros HR H pre post Hp n st env HM. rewrite <- HR. apply (H _ _ Hp), HM. Qed.

  (** ** Placing the parts of a delta *)
  Lemma Pos_mid pre a m b post h h1 h2 h' :
    Pos c pre (a ++ m ++ b) post h h' ->
    DefsIn h h1 a -> DefsIn h1 h2 m -> DefsIn h2 h' b -> h <= h1 -> h1 <= h2 -> h2 <= h' ->
    Pos c (pre ++ a) m (b ++ post) h1 h2.
  Proof.
    intros Hp Da Dm Db L1 L2 L3.
    assert (Dmb : DefsIn h1 h' (m ++ b)).
    { apply DefsIn_app. split; (eapply DefsIn_widen; [| |eassumption]; lia). }
    destruct (Pos_split c _ _ _ _ _ _ _ Hp Da Dmb L1 ltac:(lia)) as [_ Hp2].
    destruct (Pos_split c _ _ _ _ _ _ _ Hp2 Dm Db L2 L3) as [Hp3 _]. exact Hp3.
  Qed.

  Lemma Pos_c pre d post h h' : Pos c pre d post h h' -> c = pre ++ d ++ post.
  Proof. intros [E _ _ _ _]. exact E. Qed.

  (** ** Single instructions *)
  Lemma vstep_set pre l post st :
    c = pre ++ ISetLabel l :: post -> vsteps I c (length pre) st [] (S (length pre)) st.
  Proof. intro Hc. apply vsteps_one. rewrite (vstep_at V I c pre _ post st Hc). reflexivity. Qed.

  Lemma label_pos pre l post : c = pre ++ ISetLabel l :: post -> find_label l c = Some (length pre).
  Proof. intro Hc. rewrite Hc. apply find_label_at. rewrite <- Hc. exact Hnd. Qed.

  Lemma in_mid {A} (pre : list A) x post : In x (pre ++ x :: post).
  Proof. apply in_or_app. right. left. reflexivity. Qed.

  Lemma vgoto_to l pc st : find_label l c = Some pc -> vgoto V c l st = VNext [] pc st.
  Proof. intro E. unfold vgoto. rewrite vfind_label_eq, E. reflexivity. Qed.

  Lemma vstep_jump pre l post st :
    c = pre ++ IJumpTo l :: post ->
    exists pc, find_label l c = Some pc /\ vsteps I c (length pre) st [] pc st.
  Proof.
    intro Hc. destruct (find_label_in l c) as [pc E].
    { apply (Hres (IJumpTo l)); [rewrite Hc; apply in_mid | left; reflexivity]. }
    exists pc. split; [exact E|]. apply vsteps_one. rewrite (vstep_at V I c pre _ post st Hc).
    cbn [vinstr_step]. apply vgoto_to, E.
  Qed.

  (** the conditional instruction reads the boolean [b] *)
  Definition CondReads (ci : instr) (lt lf : string) (rf : regfile V) (b : bool) : Prop :=
    (exists er x, ci = IIfCondExpr er lt lf /\ operand V I rf er = Rd x /\ i_truth I x = b) \/
    (exists reg, ci = IIfCondLogic lt lf reg /\ bool_reg V rf reg = Rd b).

  Lemma cond_targets ci lt lf rf b : CondReads ci lt lf rf b -> target_labels ci = [lt; lf].
  Proof. intros [(er & x & -> & _)|(reg & -> & _)]; reflexivity. Qed.

  Lemma cond_step ci lt lf st b pc :
    CondReads ci lt lf (m_regs st) b ->
    vinstr_step V I c ci pc st = vgoto V c (if b then lt else lf) st.
  Proof.
    intros [(er & x & -> & Ho & <-)|(reg & -> & Ho)]; cbn [vinstr_step]; rewrite Ho; reflexivity.
  Qed.

  (** ** Straight-line statements *)

  (** what a straight-line statement does: the machine runs through its delta, with the events
      and into a state that the structured run - unless its fuel cuts it off - has as well *)
  Definition LineSpec (ts ts' : list tab) (h h' : N) (d : list instr)
             (R : nat -> venv V -> vsres V) : Prop :=
    forall pre post, Pos c pre d post h h' ->
    forall st env, MS ts st env ->
    exists e st' env',
      vsteps I c (length pre) st e (length pre + length d) st' /\ MS ts' st' env' /\
      forall n, R n env = (e, VNormal, env') \/
                exists p envx, pref p e /\ R n env = (p, VStop VOutOfFuel, envx).

  Lemma VFrag_line oe ll R d ts ts' h h' : LineSpec ts ts' h h' d R -> VFrag oe ll R false d ts ts' h h'.
  Proof.
    intros HL pre post Hp n st env HM.
    destruct (HL pre post Hp st env HM) as (e & st' & env' & Hs & HM' & HR).
    destruct (HR n) as [-> | (p & envx & Hpf & ->)].
    - exists (VXPos (length pre + length d) st'). split; [exact Hs|].
      split; [reflexivity|]. exists st'. split; [reflexivity | exact HM'].
    - eapply VSem_cut; [exact Hs | exact Hpf | intro; reflexivity].
  Qed.

  (** ** Return *)
  Definition RetSpec (ts : list tab) (h h' : N) (d : list instr) (R : nat -> venv V -> vsres V)
    : Prop :=
    forall pre post, Pos c pre d post h h' ->
    forall st env, MS ts st env ->
    exists e,
      vhalts I c (length pre) st e VReturned /\
      forall n, (exists envx, R n env = (e, VStop VReturned, envx)) \/
                exists p envx, pref p e /\ R n env = (p, VStop VOutOfFuel, envx).

  Lemma vhalts_VPre_pref pc st e s p : vhalts I c pc st e s -> pref p e -> VPre I c pc st p.
  Proof.
    intros Hh Hp m. destruct (vhalts_run V I c _ _ _ _ Hh m) as [E|(q & Hq & E)]; rewrite E; cbn [fst].
    - right. exact Hp.
    - eapply pref_comp; eassumption.
  Qed.

  Lemma VFrag_ret oe ll R d ts ts' h h' : RetSpec ts h h' d R -> VFrag oe ll R true d ts ts' h h'.
  Proof.
    intros HL pre post Hp n st env HM.
    destruct (HL pre post Hp st env HM) as (e & Hh & HR).
    destruct (HR n) as [(envx & ->) | (p & envx & Hpf & ->)].
    - exists (VXHalt VReturned). split; [exact Hh | reflexivity].
    - exists VXPre. split; [|reflexivity]. eapply vhalts_VPre_pref; eassumption.
  Qed.

  (** ** Break and continue *)
  Lemma VFrag_break oe lb le k tq R ts ts' h :
    skipn k ts = tq ->
    (forall n env, R n env = ([], VBrk, env) \/ R n env = vout_of_fuel V env) ->
    VFrag oe (Some (lb, le, k, tq)) R false [IJumpTo le] ts ts' h h.
  Proof.
    intros Hk HR pre post Hp n st env HM.
    destruct (HR n env) as [-> | ->]; [|apply VSem_oof; intro; reflexivity].
    destruct (vstep_jump pre le post st (Pos_c _ _ _ _ _ Hp)) as (pc & E & Hs).
    exists (VXPos pc st). split; [exact Hs|]. cbn [TF TC]. exists lb, le, k, tq, pc, st.
    split; [reflexivity|]. split; [left; reflexivity|]. split; [exact E|]. split; [reflexivity|].
    rewrite <- Hk. apply MS_skipn, HM.
  Qed.

  Lemma VFrag_continue oe lb le k tq R ts ts' h :
    skipn k ts = tq ->
    (forall n env, R n env = ([], VCont, env) \/ R n env = vout_of_fuel V env) ->
    VFrag oe (Some (lb, le, k, tq)) R false [IJumpTo lb] ts ts' h h.
  Proof.
    intros Hk HR pre post Hp n st env HM.
    destruct (HR n env) as [-> | ->]; [|apply VSem_oof; intro; reflexivity].
    destruct (vstep_jump pre lb post st (Pos_c _ _ _ _ _ Hp)) as (pc & E & Hs).
    exists (VXPos pc st). split; [exact Hs|]. cbn [TF TC]. exists lb, le, k, tq, pc, st.
    split; [reflexivity|]. split; [exact E|]. split; [reflexivity|].
    rewrite <- Hk. apply MS_skipn, HM.
  Qed.

  (** ** Sequences *)
  Lemma TF_incl_l oe ll nn d1 d2 pend ts' cpl x env :
    cpl <> VNormal -> TF oe ll nn d1 pend ts' cpl x env ->
    forall nn' pend' ts'', TF oe ll nn' (d1 ++ d2) pend' ts'' cpl x env.
  Proof.
    intros Hn H nn' pend' ts''. destruct cpl; cbn [TF] in *; try exact H; try congruence;
      eapply TC_incl; [|exact H]; apply incl_appl, incl_refl.
  Qed.
  Lemma TF_incl_r oe ll nn d1 d2 pend ts' cpl x env :
    TF oe ll nn d2 pend ts' cpl x env -> TF oe ll nn (d1 ++ d2) pend ts' cpl x env.
  Proof.
    intro H. destruct cpl; cbn [TF] in *; try exact H;
      eapply TC_incl; [|exact H]; apply incl_appr, incl_refl.
  Qed.

  Lemma VFrag_seq oe ll R1 R2 nn1 nn2 d1 d2 ts tm ts' h hm h' :
    VFrag oe ll R1 nn1 d1 ts tm h hm -> VFrag oe ll R2 nn2 d2 tm ts' hm h' ->
    DefsIn h hm d1 -> DefsIn hm h' d2 -> h <= hm -> hm <= h' ->
    VFrag oe ll (fun n env => match n with
                              | O => vout_of_fuel V env
                              | S n' => vseq V (R1 n' env) (R2 n')
                              end) (nn1 || nn2) (d1 ++ d2) ts ts' h h'.
  Proof.
    intros H1 H2 D1 D2 L1 L2 pre post Hp [|n] st env HM; [apply VSem_oof; intro; reflexivity|].
    destruct (Pos_split c _ _ _ _ _ _ _ Hp D1 D2 L1 L2) as [Hp1 Hp2].
    specialize (H1 pre _ Hp1 n st env HM). destruct (R1 n env) as [[e1 cpl1] env1] eqn:E1.
    destruct H1 as (x1 & Hd1 & HT1).
    assert (Hother : cpl1 <> VNormal ->
              VSem (TF oe ll (nn1 || nn2) (d1 ++ d2) (length pre + length (d1 ++ d2)) ts')
                   (length pre) st (e1, cpl1, env1)).
    { intro Hn. exists x1. split; [exact Hd1|]. eapply TF_incl_l; eassumption. }
    destruct cpl1; cbn [vseq]; try (apply Hother; discriminate).
    destruct HT1 as [-> (st1 & -> & HM1)]. cbn [vdoes] in Hd1. cbn [orb].
    specialize (H2 _ _ Hp2 n st1 env1 HM1). rewrite app_length in H2.
    apply (VSem_prepend _ _ _ _ _ _ _ Hd1).
    eapply VSem_mono; [|exact H2]. intros cpl x env' HT. apply TF_incl_r.
    replace (length pre + length (d1 ++ d2))%nat with (length pre + length d1 + length d2)%nat by vlen.
    exact HT.
  Qed.

  Lemma VFrag_nil oe ll R ts h :
    (forall n env, R n env = ([], VNormal, env)) -> VFrag oe ll R false [] ts ts h h.
  Proof.
    intros HR pre post Hp n st env HM. rewrite HR. exists (VXPos (length pre + 0) st).
    split; [cbn [vdoes]; rewrite Nat.add_0_r; apply vsteps_refl|].
    split; [reflexivity|]. exists st. split; [reflexivity | exact HM].
  Qed.

  (** a statement is one level of fuel below its evaluation *)
  Lemma VFrag_shift oe ll R nn d ts ts' h h' :
    VFrag oe ll R nn d ts ts' h h' ->
    VFrag oe ll (fun n env => match n with O => vout_of_fuel V env | S n' => R n' env end) nn d ts ts' h h'.
  Proof.
    intros H pre post Hp [|n] st env HM; [apply VSem_oof; intro; reflexivity | apply (H _ _ Hp), HM].
  Qed.

  (** ** A block: its statements, the jump to the end label, the frame closed *)
  Lemma VFragL_block lend k te ll R nn d j ts tb h h' :
    VFrag (Some (lend, S k, te)) (shiftL ll) R nn d ([] :: ts) tb h h' ->
    (nn = false -> j = [IJumpTo lend]) -> (nn = true -> j = []) ->
    skipn k ts = te -> tl tb = ts ->
    VFragL lend k te ll (fun n env => close_block V (R n ([] :: env))) (d ++ j) ts h h'.
  Proof.
    intros H Hj0 Hj1 Hk Htb pre post Hp n st env HM.
    assert (Dj : DefsIn h' h' j).
    { destruct nn; [rewrite (Hj1 eq_refl); constructor | rewrite (Hj0 eq_refl); apply DefsIn_nondef; reflexivity]. }
    assert (Hle : h <= h') by (destruct Hp; assumption).
    assert (Dd : DefsIn h h' d).
    { destruct Hp as [_ _ D _ _]. apply DefsIn_app in D. apply D. }
    destruct (Pos_split c _ _ _ _ _ _ _ Hp Dd Dj Hle ltac:(lia)) as [Hp1 Hp2].
    specialize (H pre _ Hp1 n st ([] :: env) (MS_push _ _ _ HM)).
    destruct (R n ([] :: env)) as [[e cpl] env']. cbn [close_block].
    destruct H as (x & Hd & HT).
    destruct cpl; cbn [TF] in HT.
    - destruct HT as [Hnn (st' & -> & HM')]. rewrite (Hj0 Hnn) in Hp2.
      destruct (vstep_jump _ _ _ st' (Pos_c _ _ _ _ _ Hp2)) as (pc & E & Hs). rewrite app_length in Hs.
      exists (VXPos pc st'). split.
      + cbn [vdoes] in *. rewrite <- (app_nil_r e). eapply vsteps_trans; eassumption.
      + exists pc, st'. split; [exact E|]. split; [reflexivity|].
        rewrite <- Hk, <- Htb, <- !skipn_S_tl. apply MS_skipn, HM'.
    - exists x. split; [exact Hd|]. cbn [TL]. apply TC_shift. eapply TC_incl; [|exact HT]. apply incl_appl, incl_refl.
    - exists x. split; [exact Hd|]. cbn [TL]. apply TC_shift. eapply TC_incl; [|exact HT]. apply incl_appl, incl_refl.
    - destruct HT as (le & k' & te' & pc & st' & Hle' & E & -> & HM'). inversion Hle'; subst le k' te'.
      exists (VXPos pc st'). split; [exact Hd|]. exists pc, st'. split; [exact E|]. split; [reflexivity|].
      rewrite <- skipn_S_tl. exact HM'.
    - exists x. split; [exact Hd|]. cbn [TL]. apply TC_shift. eapply TC_incl; [|exact HT]. apply incl_appl, incl_refl.
  Qed.
  (** ** The if statement *)

  (** the condition: straight-line code, after which the conditional instruction reads the
      boolean that the source gives to the condition *)
  Definition CondSpec (ts : list tab) (h h1 : N) (dcond : list instr) (ci : instr)
             (lt lf : string) (cnd : cond) : Prop :=
    forall pre post, Pos c pre dcond post h h1 ->
    forall st env, MS ts st env ->
    exists e st' b,
      vsteps I c (length pre) st e (length pre + length dcond) st' /\ MS ts st' env /\
      SCond I env cnd e b /\ CondReads ci lt lf (m_regs st') b.

  Definition vblock_run (ss : list stmt) (n : nat) (env : venv V) : vsres V :=
    close_block V (vexec_stmts V I true n true ss ([] :: env)).

  (** the else part of [vexec_if] *)
  Definition velse_run (els : option ifbody) (elif : option ifstmt) (n : nat) (env : venv V)
    : vsres V :=
    match els with
    | Some eb => vblock_run (vifbody_stmts eb) n env
    | None =>
        match elif with
        | Some ei => vexec_if V I true n ei env
        | None => ([], VNormal, env)
        end
    end.

  Lemma vexec_if_S n cnd body els elif env :
    vexec_if V I true (S n) (IfS cnd body els elif) env =
    after V (eval_cond V I env n cnd) env
          (fun b => if b then vblock_run (vifbody_stmts body) n env else velse_run els elif n env).
  Proof. reflexivity. Qed.

  Lemma VFragL_if lend k te ll cnd body els elif dcond ci lbegin target dthen delse ts h h1 h2 h' :
    CondSpec ts h h1 dcond ci lbegin target cnd -> def_reg ci = None ->
    VFragL lend k te ll (vblock_run (vifbody_stmts body)) dthen ts h1 h2 ->
    ((exists lelse de, target = lelse /\ delse = ISetLabel lelse :: de /\
                       VFragL lend k te ll (velse_run els elif) de ts h2 h') \/
     (els = None /\ elif = None /\ target = lend /\ delse = [] /\ skipn k ts = te)) ->
    DefsIn h h1 dcond -> DefsIn h1 h2 dthen -> DefsIn h2 h' delse ->
    h <= h1 -> h1 <= h2 -> h2 <= h' ->
    VFragL lend k te ll (fun n env => vexec_if V I true n (IfS cnd body els elif) env)
           (dcond ++ ci :: ISetLabel lbegin :: dthen ++ delse) ts h h'.
  Proof.
    intros Hcond Hcin Hthen Helse Dc Dt De L1 L2 L3 pre post Hp [|n] st env HM;
      [apply VSem_oof; intro; reflexivity|].
    rewrite vexec_if_S.
    set (d := dcond ++ ci :: ISetLabel lbegin :: dthen ++ delse) in *.
    pose proof (Pos_c _ _ _ _ _ Hp) as Hc.
    (* the condition *)
    assert (Hp0 : Pos c pre dcond ((ci :: ISetLabel lbegin :: dthen ++ delse) ++ post) h h1).
    { assert (D2 : DefsIn h1 h' (ci :: ISetLabel lbegin :: dthen ++ delse)).
      { change (ci :: ISetLabel lbegin :: dthen ++ delse) with ([ci] ++ [ISetLabel lbegin] ++ dthen ++ delse).
        apply DefsIn_app. split; [apply DefsIn_nondef, Hcin|].
        apply DefsIn_app. split; [apply DefsIn_nondef; reflexivity|].
        apply DefsIn_app. split; (eapply DefsIn_widen; [| |eassumption]; lia). }
      assert (L13 : h1 <= h') by lia.
      exact (proj1 (Pos_split c _ _ _ _ _ _ _ Hp Dc D2 L1 L13)). }
    destruct (Hcond _ _ Hp0 st env HM) as (e & st1 & b & Hs0 & HM1 & Hsc & Hrd).
    destruct (eval_cond_below V I env cnd e b Hsc n) as [-> | (pfx & Hpf & ->)]; cbn [after].
    2:{ eapply VSem_cut; [exact Hs0 | exact Hpf | intro; reflexivity]. }
    apply (VSem_prepend _ _ _ _ _ _ _ Hs0).
    assert (Hc1 : c = (pre ++ dcond) ++ ci :: (ISetLabel lbegin :: dthen ++ delse ++ post))
      by (rewrite Hc; unfold d; vsplit_eq).
    assert (Hci_in : In ci c) by (rewrite Hc1; apply in_mid).
    pose proof (vstep_at V I c _ _ _ st1 Hc1) as Hs. rewrite app_length in Hs.
    rewrite (cond_step _ _ _ _ _ _ Hrd) in Hs.
    destruct b.
    - (* then *)
      assert (Hc2 : c = (pre ++ dcond ++ [ci]) ++ ISetLabel lbegin :: (dthen ++ delse ++ post))
        by (rewrite Hc; unfold d; vsplit_eq).
      rewrite (vgoto_to _ _ _ (label_pos _ _ _ Hc2)) in Hs.
      assert (Hp3 : Pos c (pre ++ dcond ++ [ci; ISetLabel lbegin]) dthen (delse ++ post) h1 h2).
      { assert (Hp' : Pos c pre ((dcond ++ [ci; ISetLabel lbegin]) ++ dthen ++ delse) post h h').
        { replace ((dcond ++ [ci; ISetLabel lbegin]) ++ dthen ++ delse) with d by (unfold d; vsplit_eq).
          exact Hp. }
        apply (Pos_mid pre (dcond ++ [ci; ISetLabel lbegin]) dthen delse post h h1 h2 h' Hp');
          [ | exact Dt | exact De | lia | lia | lia].
        apply DefsIn_app. split; [eapply DefsIn_widen; [| |exact Dc]; lia|].
        apply DefsIn_app with (c1 := [ci]) (c2 := [ISetLabel lbegin]).
        split; apply DefsIn_nondef; [exact Hcin | reflexivity]. }
      specialize (Hthen _ _ Hp3 n st1 env HM1).
      eapply VSem_prepend_nil; [apply vsteps_one, Hs|].
      eapply VSem_prepend_nil; [eapply vstep_set, Hc2|].
      eapply VSem_mono; [|eapply VSem_eq_pos; [exact Hthen | vlen]].
      intros cpl x env'. apply TL_incl. unfold d. intros y Hy.
      apply in_or_app. right. right. right. apply in_or_app. left. exact Hy.
    - (* else *)
      destruct Helse as [(lelse & de & -> & -> & Hde)|(-> & -> & -> & -> & Hk)].
      + assert (Hc2 : c = (pre ++ dcond ++ [ci; ISetLabel lbegin] ++ dthen) ++ ISetLabel lelse :: (de ++ post))
          by (rewrite Hc; unfold d; vsplit_eq).
        rewrite (vgoto_to _ _ _ (label_pos _ _ _ Hc2)) in Hs.
        assert (Hp3 : Pos c (pre ++ dcond ++ [ci; ISetLabel lbegin] ++ dthen ++ [ISetLabel lelse]) de post h2 h').
        { assert (Hp' : Pos c pre ((dcond ++ [ci; ISetLabel lbegin] ++ dthen ++ [ISetLabel lelse]) ++ de ++ []) post h h').
          { replace ((dcond ++ [ci; ISetLabel lbegin] ++ dthen ++ [ISetLabel lelse]) ++ de ++ [])
              with d by (unfold d; rewrite app_nil_r; vsplit_eq). exact Hp. }
          assert (Dde : DefsIn h2 h' de).
          { change (ISetLabel lelse :: de) with ([ISetLabel lelse] ++ de) in De.
            apply DefsIn_app in De. apply De. }
          pose proof (Pos_mid _ _ _ _ _ _ h2 h' _ Hp') as HPm. rewrite app_nil_l in HPm.
          apply HPm; [| exact Dde | constructor | lia | lia | lia].
          apply DefsIn_app. split; [eapply DefsIn_widen; [| |exact Dc]; lia|].
          apply DefsIn_app with (c1 := [ci; ISetLabel lbegin]). split.
          - apply DefsIn_app with (c1 := [ci]) (c2 := [ISetLabel lbegin]).
            split; apply DefsIn_nondef; [exact Hcin | reflexivity].
          - apply DefsIn_app. split; [eapply DefsIn_widen; [| |exact Dt]; lia|].
            apply DefsIn_nondef. reflexivity. }
        specialize (Hde _ _ Hp3 n st1 env HM1).
        eapply VSem_prepend_nil; [apply vsteps_one, Hs|].
        eapply VSem_prepend_nil; [eapply vstep_set, Hc2|].
        eapply VSem_mono; [|eapply VSem_eq_pos; [exact Hde | vlen]].
        intros cpl x env'. apply TL_incl. unfold d. intros y Hy.
        apply in_or_app. right. right. right. apply in_or_app. right. right. exact Hy.
      + destruct (find_label_in lend c) as [pc E].
        { apply (Hres ci); [exact Hci_in|]. rewrite (cond_targets _ _ _ _ _ Hrd). right. left. reflexivity. }
        rewrite (vgoto_to _ _ _ E) in Hs. cbn [velse_run].
        exists (VXPos pc st1). split; [apply vsteps_one, Hs|]. exists pc, st1.
        split; [exact E|]. split; [reflexivity|]. rewrite <- Hk. apply MS_skipn, HM1.
  Qed.

  (** ** An if statement as a statement of a block *)
  Lemma vexec_stmt_if n b i env :
    vexec_stmt V I true (S n) b (SIf i) env = vif_exit V true b (vexec_if V I true n i env).
  Proof. reflexivity. Qed.

  (** in an if / else / else-if body: the end label is the enclosing chain's (finding F5) *)
  Lemma VFrag_if_inner le k te ll i d ts ts' h h' :
    VFragL le k te ll (fun n env => vexec_if V I true n i env) d ts h h' ->
    VFrag (Some (le, k, te)) ll (fun n env => vexec_stmt V I true n true (SIf i) env) false d ts ts' h h'.
  Proof.
    intros H pre post Hp [|n] st env HM; [apply VSem_oof; intro; reflexivity|].
    rewrite vexec_stmt_if. specialize (H _ _ Hp n st env HM).
    destruct (vexec_if V I true n i env) as [[e cpl] env']. destruct H as (x & Hd & HT).
    cbn [vif_exit andb]. exists x. split; [exact Hd|].
    destruct cpl; cbn [TL TF] in *; try exact HT;
      destruct HT as (pc & st' & E & -> & HM'); exists le, k, te, pc, st';
      (split; [reflexivity|]; split; [exact E|]; split; [reflexivity | exact HM']).
  Qed.

  (** in a function body or a loop body: the statement owns the end label and sets it last *)
  Lemma VFrag_if_outer oe lend ll i d ts h h' :
    VFragL lend 0 ts ll (fun n env => vexec_if V I true n i env) d ts h h' ->
    VFrag oe ll (fun n env => vexec_stmt V I true n false (SIf i) env) false (d ++ [ISetLabel lend]) ts ts h h'.
  Proof.
    intros H pre post Hp [|n] st env HM; [apply VSem_oof; intro; reflexivity|].
    rewrite vexec_stmt_if.
    assert (Hle : h <= h') by (destruct Hp; assumption).
    assert (Dd : DefsIn h h' d).
    { destruct Hp as [_ _ D _ _]. apply DefsIn_app in D. apply D. }
    destruct (Pos_split c _ _ _ _ _ _ _ Hp Dd (DefsIn_nondef h' h' (ISetLabel lend) eq_refl) Hle (N.le_refl h'))
      as [Hp1 Hp2].
    pose proof (Pos_c _ _ _ _ _ Hp2) as Hc2. cbn [app] in Hc2.
    specialize (H _ _ Hp1 n st env HM).
    destruct (vexec_if V I true n i env) as [[e cpl] env']. destruct H as (x & Hd & HT).
    cbn [vif_exit andb].
    assert (Hnormal : (exists pc st', find_label lend c = Some pc /\ x = VXPos pc st' /\ MS ts st' (skipn 0 env')) ->
              VSem (TF oe ll false (d ++ [ISetLabel lend]) (length pre + length (d ++ [ISetLabel lend])) ts)
                   (length pre) st (e, VNormal, env')).
    { intros (pc & st' & E & -> & HM'). rewrite (label_pos _ _ _ Hc2) in E. inversion E; subst pc.
      exists (VXPos (length pre + length (d ++ [ISetLabel lend])) st').
      split; [|split; [reflexivity|]; exists st'; split; [reflexivity | exact HM']].
      cbn [vdoes] in *. rewrite <- (app_nil_r e). eapply vsteps_trans; [exact Hd|].
      eapply vsteps_eq; [eapply vstep_set, Hc2 | reflexivity | vlen | reflexivity]. }
    destruct cpl; cbn [TL] in HT; try (apply Hnormal; exact HT);
      (exists x; split; [exact Hd|]; cbn [TF]; eapply TC_incl; [|exact HT]; apply incl_appl, incl_refl).
  Qed.

  (** ** The loop *)
  Lemma VFrag_loop oe ll lb le body nn db tail ts tb h h' :
    VFrag None (Some (lb, le, 1%nat, ts)) (fun n env => vexec_stmts V I true n false body env) nn db
          ([] :: ts) tb h h' ->
    tl tb = ts ->
    ((nn = false /\ tail = [IJumpTo lb; ISetLabel le]) \/
     (nn = true /\ (tail = [ISetLabel le] \/ (~ In (IJumpTo le) db /\ tail = [])))) ->
    VFrag oe ll (fun n env => vexec_loop V I true n body env) false
          (IJumpTo lb :: ISetLabel lb :: db ++ tail) ts ts h h'.
  Proof.
    intros Hbody Htb Htail pre post Hp.
    set (d := IJumpTo lb :: ISetLabel lb :: db ++ tail) in *.
    set (Pend := (length pre + length d)%nat).
    pose proof (Pos_c _ _ _ _ _ Hp) as Hc.
    assert (Hle : h <= h') by (destruct Hp; assumption).
    assert (Dtail : DefsIn h' h' tail).
    { destruct Htail as [[_ ->]|[_ [->|[_ ->]]]]; constructor. }
    assert (Ddb : DefsIn h h' db).
    { destruct Hp as [_ _ D _ _]. unfold d in D.
      change (IJumpTo lb :: ISetLabel lb :: db ++ tail) with ([IJumpTo lb; ISetLabel lb] ++ db ++ tail) in D.
      apply DefsIn_app in D. destruct D as [_ D]. apply DefsIn_app in D. apply D. }
    assert (Hp2 : Pos c (pre ++ [IJumpTo lb; ISetLabel lb]) db (tail ++ post) h h').
    { eapply (Pos_mid pre [IJumpTo lb; ISetLabel lb] db tail post h h h' h'); try lia; try assumption.
      apply DefsIn_app with (c1 := [IJumpTo lb]) (c2 := [ISetLabel lb]). split; apply DefsIn_nondef; reflexivity. }
    assert (Hc0 : c = pre ++ IJumpTo lb :: (ISetLabel lb :: db ++ tail ++ post))
      by (rewrite Hc; unfold d; vsplit_eq).
    assert (Hc1 : c = (pre ++ [IJumpTo lb]) ++ ISetLabel lb :: (db ++ tail ++ post))
      by (rewrite Hc; unfold d; vsplit_eq).
    pose proof (label_pos _ _ _ Hc1) as Hlb.
    assert (Hset : forall st, vsteps I c (length (pre ++ [IJumpTo lb])) st []
                                     (length (pre ++ [IJumpTo lb; ISetLabel lb])) st).
    { intro st. eapply vsteps_eq; [eapply vstep_set, Hc1 | reflexivity | vlen | reflexivity]. }
    assert (HLE : In (IJumpTo le) db \/ nn = false ->
                  exists ple pole, c = ple ++ ISetLabel le :: pole /\ S (length ple) = Pend).
    { intro Hin. destruct Htail as [[_ ->]|[Hnn [->|[Hno ->]]]].
      - exists (pre ++ [IJumpTo lb; ISetLabel lb] ++ db ++ [IJumpTo lb]), post.
        split; [rewrite Hc; unfold d; vsplit_eq | unfold Pend, d; vlen].
      - exists (pre ++ [IJumpTo lb; ISetLabel lb] ++ db), post.
        split; [rewrite Hc; unfold d; vsplit_eq | unfold Pend, d; vlen].
      - exfalso. destruct Hin as [Hin|Hin]; [exact (Hno Hin) | congruence]. }
    (* the iterations *)
    assert (Hiter : forall n st env, MS ts st env ->
              VSem (TF oe ll false d Pend ts) (length (pre ++ [IJumpTo lb; ISetLabel lb])) st
                   (vexec_loop V I true n body env)).
    { induction n as [|n IH]; intros st env HM; [apply VSem_oof; intro; reflexivity|].
      rewrite vexec_loop_S.
      pose proof (Hbody _ _ Hp2 n st ([] :: env) (MS_push _ _ _ HM)) as Hb.
      destruct (vexec_stmts V I true n false body ([] :: env)) as [[e cpl] env1].
      destruct Hb as (x & Hd & HT). cbn [close_block].
      destruct cpl; cbn [vloop_exit TF] in *.
      - (* the body fell through: jump back *)
        destruct HT as [Hnn (st1 & -> & HM1)]. cbn [vdoes] in Hd.
        destruct Htail as [[_ Ht]|[Hnn' _]]; [|congruence]. subst tail.
        apply (VSem_prepend _ _ _ _ _ _ _ Hd).
        assert (Hc3 : c = (pre ++ [IJumpTo lb; ISetLabel lb] ++ db) ++ IJumpTo lb :: (ISetLabel le :: post))
          by (rewrite Hc; unfold d; vsplit_eq).
        destruct (vstep_jump _ _ _ st1 Hc3) as (pc & E & Hs). rewrite Hlb in E. inversion E; subst pc.
        eapply VSem_prepend_nil; [eapply vsteps_eq; [exact Hs | vlen | reflexivity | reflexivity]|].
        eapply VSem_prepend_nil; [apply Hset|]. apply IH.
        rewrite <- Htb. apply MS_tl, HM1.
      - (* break *)
        destruct HT as (lb' & le' & k' & tq & pc & st1 & Hll & Hin & E & -> & HM1).
        inversion Hll; subst lb' le' k' tq.
        destruct (HLE (or_introl Hin)) as (ple & pole & Hcle & Hpe).
        rewrite (label_pos _ _ _ Hcle) in E. inversion E; subst pc.
        exists (VXPos Pend st1). split; [|split; [reflexivity|]; exists st1; split; [reflexivity|]].
        + cbn [vdoes] in *. rewrite <- (app_nil_r e). eapply vsteps_trans; [exact Hd|].
          eapply vsteps_eq; [eapply vstep_set, Hcle | reflexivity | exact Hpe | reflexivity].
        + destruct env1; exact HM1.
      - (* continue *)
        destruct HT as (lb' & le' & k' & tq & pc & st1 & Hll & E & -> & HM1).
        inversion Hll; subst lb' le' k' tq.
        rewrite Hlb in E. inversion E; subst pc. cbn [vdoes] in Hd.
        apply (VSem_prepend _ _ _ _ _ _ _ Hd).
        eapply VSem_prepend_nil; [apply Hset|]. apply IH. destruct env1; exact HM1.
      - destruct HT as (le' & k' & te' & pc & st1 & Hx & _). discriminate.
      - exists x. split; [exact Hd|]. destruct s; exact HT. }
    (* the entry *)
    intros n st env HM.
    destruct (vstep_jump _ _ _ st Hc0) as (pc & E & Hs). rewrite Hlb in E. inversion E; subst pc.
    eapply VSem_prepend_nil; [exact Hs|].
    eapply VSem_prepend_nil; [apply Hset|]. apply Hiter, HM.
  Qed.
End Frag.
