(** Family T2 (C06, C19): an end-anchored Hoare logic over the body monad.

    [HT s m Q]: a successful run of [m] from a well-formed state [s]
    - ends in a well-formed state [s'] ([WF]: live frames, the register invariant of C09),
    - only GROWS the root view ([Grow]: the root stack and the error list get suffixes, the
      counter does not decrease, every register the suffix defines is new),
    - and owes [Q a s'] only when [s'] can still be a state of an ACCEPTED analysis whose complete
      root stack is [Cf] ([Fin]: no error so far, the root stack is a prefix of [Cf]).
    [Fin] is closed backwards along [Grow], so facts of earlier states are recovered from the
    last one, an error path owes nothing, and the declaration list of the final stack can be a
    fixed parameter of all invariants. *)
From Coq Require Import Lia.
From SA Require Import Model.
From SA.Spec Require Import Stack.
From SA.Proofs Require Import Reach InvReg Trace InvNames DefUse.
Local Open Scope list_scope.

Definition hr (s : bst) : N := head_reg (frames s).
Definition vals (s : bst) : list (list (string * value)) := map b_values (frames s).

Definition WF (s : bst) : Prop := frames s <> [] /\ Inv_reg s.

Definition DefsIn (lo hi : N) (c : list instr) : Prop := Forall (fun r => lo < r <= hi) (defs c).

Lemma DefsIn_nil lo hi : DefsIn lo hi [].
Proof. constructor. Qed.

Lemma DefsIn_app lo hi c1 c2 : DefsIn lo hi (c1 ++ c2) <-> DefsIn lo hi c1 /\ DefsIn lo hi c2.
Proof. unfold DefsIn. rewrite defs_app. apply Forall_app. Qed.

Lemma DefsIn_widen lo hi lo' hi' c : lo' <= lo -> hi <= hi' -> DefsIn lo hi c -> DefsIn lo' hi' c.
Proof. intros H1 H2 H. eapply Forall_impl; [|exact H]. cbn. intros r Hr. lia. Qed.

Lemma DefsIn_nondef lo hi i : def_reg i = None -> DefsIn lo hi [i].
Proof. intro H. unfold DefsIn, defs. cbn. rewrite H. constructor. Qed.

Lemma DefsIn_def lo hi i r : def_reg i = Some r -> lo < r <= hi -> DefsIn lo hi [i].
Proof. intros H Hr. unfold DefsIn, defs. cbn. rewrite H. constructor; [exact Hr | constructor]. Qed.

Definition Grow (s s' : bst) : Prop :=
  exists c e, Ctx s' = Ctx s ++ c /\ errs s' = errs s ++ e /\ hr s <= hr s' /\
              DefsIn (hr s) (hr s') c.

Lemma Grow_refl s : Grow s s.
Proof.
  exists [], []. rewrite !app_nil_r. split; [reflexivity|]. split; [reflexivity|].
  split; [lia | constructor].
Qed.

Lemma Grow_trans s s1 s2 : Grow s s1 -> Grow s1 s2 -> Grow s s2.
Proof.
  intros (c1 & e1 & C1 & E1 & L1 & D1) (c2 & e2 & C2 & E2 & L2 & D2).
  exists (c1 ++ c2), (e1 ++ e2). rewrite C2, C1, E2, E1, !app_assoc.
  split; [reflexivity|]. split; [reflexivity|]. split; [lia|].
  apply DefsIn_app. split.
  - apply (DefsIn_widen (hr s) (hr s1)); [lia | lia | exact D1].
  - apply (DefsIn_widen (hr s1) (hr s2)); [lia | lia | exact D2].
Qed.

Lemma Grow_hr s s' : Grow s s' -> hr s <= hr s'.
Proof. intros (c & e & _ & _ & L & _). exact L. Qed.

Lemma Grow_defs s s' c : Grow s s' -> Ctx s' = Ctx s ++ c -> DefsIn (hr s) (hr s') c.
Proof.
  intros (c' & e & C & _ & _ & D) C'. rewrite C in C'. apply app_inv_head in C'. subst c'. exact D.
Qed.

Lemma Grow_step s s' c :
  Ctx s' = Ctx s ++ c -> errs s' = errs s -> hr s <= hr s' -> DefsIn (hr s) (hr s') c -> Grow s s'.
Proof.
  intros C E L D. exists c, []. rewrite app_nil_r. split; [exact C|]. split; [exact E|].
  split; assumption.
Qed.

Lemma Grow_same s s' : Ctx s' = Ctx s -> errs s' = errs s -> hr s' = hr s -> Grow s s'.
Proof.
  intros C E L. apply (Grow_step s s' []); [rewrite app_nil_r; exact C | exact E | lia | constructor].
Qed.

(** ** The end anchor *)
Section Anchor.
  Variable Cf : list instr.

  Definition Fin (s : bst) : Prop := errs s = [] /\ exists c, Cf = Ctx s ++ c.

  Lemma Fin_back s s' : Grow s s' -> Fin s' -> Fin s.
  Proof.
    intros (c & e & C & E & _) [F1 (c' & F2)]. split.
    - rewrite E in F1. apply app_eq_nil in F1. apply F1.
    - exists (c ++ c'). rewrite F2, C, app_assoc. reflexivity.
  Qed.

  Definition HT {A} (s : bst) (m : M A) (Q : A -> bst -> Prop) : Prop :=
    WF s -> forall a s', m s = Ok a s' -> WF s' /\ Grow s s' /\ (Fin s' -> Q a s').

  Notation GT s m := (HT s m (fun _ _ => True)).

  Lemma HT_ret {A} s (a : A) (Q : A -> bst -> Prop) : (Fin s -> Q a s) -> HT s (ret a) Q.
  Proof.
    intros HQ W a' s' H. inversion H; subst. split; [exact W|]. split; [apply Grow_refl | exact HQ].
  Qed.
  Lemma HT_panic {A} s k Q : HT s (@panic A k) Q.
  Proof. intros _ a s' H. discriminate. Qed.
  Lemma HT_oof {A} s Q : HT s (@out_of_fuel A) Q.
  Proof. intros _ a s' H. discriminate. Qed.

  Lemma HT_bind {A B} s (m : M A) (f : A -> M B) (Q1 : A -> bst -> Prop) (Q : B -> bst -> Prop) :
    HT s m Q1 ->
    (forall a s1, WF s1 -> Grow s s1 -> (Fin s1 -> Q1 a s1) ->
                  HT s1 (f a) (fun b s' => Grow s1 s' -> Q b s')) ->
    HT s (bind m f) Q.
  Proof.
    intros Hm Hf W x s' H. apply bind_ok in H as (a & s1 & E & H).
    destruct (Hm W a s1 E) as (W1 & G1 & HQ1).
    destruct (Hf a s1 W1 G1 HQ1 W1 x s' H) as (W2 & G2 & HQ).
    split; [exact W2|]. split; [eapply Grow_trans; eassumption|]. intro F. apply HQ; assumption.
  Qed.

  Lemma HT_conseq {A} s (m : M A) (Q Q' : A -> bst -> Prop) :
    HT s m Q -> (forall a s', WF s' -> Grow s s' -> Fin s' -> Q a s' -> Q' a s') -> HT s m Q'.
  Proof.
    intros Hm HQ W a s' H. destruct (Hm W a s' H) as (W1 & G1 & H1).
    split; [exact W1|]. split; [exact G1|]. intro F. apply HQ; auto.
  Qed.

  Lemma HT_weaken {A} s (m : M A) Q : HT s m Q -> GT s m.
  Proof. intro H. eapply HT_conseq; [exact H | trivial]. Qed.

  (** what is owed may assume that the run grew the state *)
  Lemma HT_grow {A} s (m : M A) (Q : A -> bst -> Prop) :
    HT s m (fun a s' => Grow s s' -> Q a s') -> HT s m Q.
  Proof.
    intros Hm W a s' H. destruct (Hm W a s' H) as (W1 & G1 & H1).
    split; [exact W1|]. split; [exact G1|]. intro F. apply H1; assumption.
  Qed.

  Lemma HT_gets_bind {A B} s (g : list block -> A) (f : A -> M B) Q :
    HT s (f (g (frames s))) Q -> HT s (bind (gets g) f) Q.
  Proof. intros H W x s' Hb. unfold bind, gets in Hb. exact (H W x s' Hb). Qed.
  Lemma HT_lookup_bind {B} s x (f : option value -> M B) Q :
    HT s (f (lookup_frames x (frames s))) Q -> HT s (bind (lookup_value x) f) Q.
  Proof. apply HT_gets_bind. Qed.
  Lemma HT_get_reg_bind {B} s (f : N -> M B) Q :
    HT s (f (hr s)) Q -> HT s (bind get_reg f) Q.
  Proof. apply HT_gets_bind. Qed.
  Lemma HT_gets {A} s (g : list block -> A) (Q : A -> bst -> Prop) :
    (Fin s -> Q (g (frames s)) s) -> HT s (gets g) Q.
  Proof.
    intros HQ W a s' H. inversion H; subst. split; [exact W|]. split; [apply Grow_refl | exact HQ].
  Qed.
  Lemma HT_get_reg s (Q : N -> bst -> Prop) : (Fin s -> Q (hr s) s) -> HT s get_reg Q.
  Proof. apply HT_gets. Qed.

  (** ** Primitives *)
  Lemma vals_map g fs e :
    (forall b, b_values (g b) = b_values b) -> vals (BSt (map g fs) e) = map b_values fs.
  Proof.
    intro Hg. unfold vals. cbn [frames]. rewrite map_map. apply map_ext. exact Hg.
  Qed.

  (** nothing but the counter / registries changed *)
  Definition Same (s s' : bst) : Prop := hr s' = hr s /\ Ctx s' = Ctx s /\ vals s' = vals s.

  Lemma Same_refl s : Same s s.
  Proof. repeat split. Qed.
  Lemma Same_trans s s1 s2 : Same s s1 -> Same s1 s2 -> Same s s2.
  Proof.
    intros (A1 & B1 & C1) (A2 & B2 & C2). split; [congruence|]. split; congruence.
  Qed.

  Definition AllocP (mk : N -> instr) (s : bst) (r : N) (s' : bst) : Prop :=
    r = hr s + 1 /\ hr s' = r /\ Ctx s' = Ctx s ++ [mk r] /\ vals s' = vals s.

  Lemma HT_alloc s mk :
    (forall n, def_reg (mk n) = Some n) -> HT s (alloc_emit mk) (AllocP mk s).
  Proof.
    intros Hd [Hne Hinv] r s' H.
    pose proof (step_Inv_reg _ _ (s_alloc mk s r s' Hd H) Hinv) as Hinv'.
    apply alloc_emit_eq in H as [-> ->].
    destruct (st_inc_view s Hne) as (N1 & C1 & E1 & H1).
    destruct (st_emit_view (mk (head_reg (frames (st_inc s)))) (st_inc s) N1) as (N2 & C2 & E2 & H2).
    unfold st_alloc in *. rewrite H1 in *. rewrite C1 in C2.
    assert (Hh : hr (st_emit (mk (head_reg (frames s) + 1)) (st_inc s)) = hr s + 1)
      by (unfold hr; rewrite H2; reflexivity).
    split; [split; assumption|]. split.
    - apply (Grow_step _ _ [mk (hr s + 1)]); [exact C2 | rewrite E2; exact E1 | lia|].
      eapply DefsIn_def; [apply Hd | lia].
    - intros _. split; [reflexivity|]. split; [exact Hh|]. split; [exact C2|].
      unfold st_emit, st_inc. cbn [frames errs]. rewrite vals_map by reflexivity.
      rewrite map_map. reflexivity.
  Qed.

  Lemma HT_bump s :
    HT s bump (fun r s' => r = hr s + 1 /\ hr s' = r /\ Ctx s' = Ctx s /\ vals s' = vals s).
  Proof.
    intros [Hne Hinv] r s' H.
    pose proof (step_Inv_reg _ _ (s_bump s r s' H) Hinv) as Hinv'.
    apply bump_eq in H as [-> ->].
    destruct (st_inc_view s Hne) as (N1 & C1 & E1 & H1).
    split; [split; assumption|]. split.
    - apply (Grow_step _ _ []); [rewrite app_nil_r; exact C1 | exact E1 | unfold hr; lia | constructor].
    - intros _. split; [exact H1|]. split; [reflexivity|]. split; [exact C1|].
      unfold st_inc. apply vals_map. reflexivity.
  Qed.

  Definition EmitP (i : instr) (s : bst) (s' : bst) : Prop :=
    hr s' = hr s /\ Ctx s' = Ctx s ++ [i] /\ vals s' = vals s.

  Lemma HT_emit s i : def_reg i = None -> HT s (emit i) (fun _ s' => EmitP i s s').
  Proof.
    intros Hd [Hne Hinv] [] s' H.
    pose proof (step_Inv_reg _ _ (s_emit i s s' Hd H) Hinv) as Hinv'.
    apply emit_eq in H as ->.
    destruct (st_emit_view i s Hne) as (N1 & C1 & E1 & H1).
    split; [split; assumption|]. split.
    - apply (Grow_step _ _ [i]); [exact C1 | exact E1 | unfold hr; lia | apply DefsIn_nondef, Hd].
    - intros _. split; [exact H1|]. split; [exact C1|]. unfold st_emit. apply vals_map. reflexivity.
  Qed.

  Lemma st_kid_more k i s :
    frames s <> [] -> hr (st_kid k i s) = hr s /\ vals (st_kid k i s) = vals s.
  Proof.
    destruct s as [fs e]. cbn [frames]. destruct fs as [|p r]; [congruence|]. intros _.
    split; reflexivity.
  Qed.

  Lemma HT_emit_kid s k i : def_reg i = None -> HT s (emit_kid k i) (fun _ s' => EmitP i s s').
  Proof.
    intros Hd [Hne Hinv] [] s' H.
    pose proof (step_Inv_reg _ _ (s_emit_kid k i s s' Hd H) Hinv) as Hinv'.
    apply emit_kid_eq in H as ->.
    destruct (st_kid_view k i s Hne) as (N0 & C0 & E0).
    destruct (st_kid_more k i s Hne) as (H0 & V0).
    destruct (st_emit_view i (st_kid k i s) N0) as (N1 & C1 & E1 & H1).
    assert (Hh : hr (st_emit i (st_kid k i s)) = hr s) by (unfold hr in *; rewrite H1; exact H0).
    split; [split; assumption|]. split.
    - apply (Grow_step _ _ [i]); [rewrite C1, C0; reflexivity | rewrite E1; exact E0 | lia |
                                   apply DefsIn_nondef, Hd].
    - intros _. split; [exact Hh|]. split; [rewrite C1, C0; reflexivity|].
      unfold st_emit. rewrite vals_map by reflexivity. exact V0.
  Qed.

  Lemma HT_add_error s e : HT s (add_error e) (fun _ _ => False).
  Proof.
    intros [Hne Hinv] [] s' H.
    pose proof (step_Inv_reg _ _ (s_error e s s' H) Hinv) as Hinv'.
    apply add_error_eq in H as ->.
    split; [split; [exact Hne | exact Hinv']|]. split.
    - exists [], [e]. rewrite app_nil_r. split; [reflexivity|]. split; [reflexivity|].
      split; [unfold hr; cbn; lia | constructor].
    - intros [F _]. cbn in F. destruct (errs s); discriminate.
  Qed.

  Lemma HT_neutral s (m : M unit) g :
    (forall a s', m s = Ok a s' -> s' = BSt (map g (frames s)) (errs s)) ->
    (forall a s', m s = Ok a s' -> step s s') ->
    (forall b, b_values (g b) = b_values b) -> (forall b, b_ctx (g b) = b_ctx b) ->
    (forall b, b_reg (g b) = b_reg b) ->
    HT s m (fun _ s' => Same s s').
  Proof.
    intros Heq Hstep Hv Hc Hr [Hne Hinv] a s' H.
    pose proof (step_Inv_reg _ _ (Hstep a s' H) Hinv) as Hinv'.
    apply Heq in H. subst s'.
    assert (C : Ctx (BSt (map g (frames s)) (errs s)) = Ctx s) by (apply Ctx_map0; assumption).
    assert (Hh : hr (BSt (map g (frames s)) (errs s)) = hr s).
    { unfold hr. cbn [frames]. apply head_reg_map. exact Hr. }
    split; [split; [apply map_ne, Hne | exact Hinv']|]. split.
    - apply Grow_same; [exact C | reflexivity | exact Hh].
    - intros _. split; [exact Hh|]. split; [exact C|]. apply vals_map. exact Hv.
  Qed.

  Lemma HT_set_inner_name s n : HT s (set_inner_name n) (fun _ s' => Same s s').
  Proof.
    apply (HT_neutral s _ (add_inner n)); try reflexivity.
    - intros a s' H. apply set_inner_name_eq in H. exact H.
    - intros [] s' H. eapply s_inner; exact H.
  Qed.
  Lemma HT_set_label_name s n : HT s (set_label_name n) (fun _ s' => Same s s').
  Proof.
    apply (HT_neutral s _ (add_label n)); try reflexivity.
    - intros a s' H. apply set_label_name_eq in H. exact H.
    - intros [] s' H. eapply s_label; exact H.
  Qed.
  Lemma HT_set_return s : HT s set_return (fun _ s' => Same s s').
  Proof.
    apply (HT_neutral s _ set_mret); try reflexivity.
    - intros a s' H. apply set_return_eq in H. exact H.
    - intros [] s' H. eapply s_return; exact H.
  Qed.

  Lemma HT_insert_value s x v :
    HT s (insert_value x v)
       (fun _ s' => hr s' = hr s /\ Ctx s' = Ctx s /\
                    vals s' = match vals s with h :: t => ainsert x v h :: t | [] => [] end).
  Proof.
    intros [Hne Hinv] [] s' H.
    pose proof (step_Inv_reg _ _ (s_value x v s s' H) Hinv) as Hinv'.
    apply insert_value_eq in H as ->.
    destruct s as [fs e]. cbn [frames] in Hne. destruct fs as [|h r]; [congruence|].
    unfold st_value in *. cbn [frames errs] in *.
    assert (C : Ctx (BSt (set_value x v h :: r) e) = Ctx (BSt (h :: r) e))
      by (apply Ctx_head; reflexivity).
    split; [split; [discriminate | exact Hinv']|]. split.
    - apply Grow_same; [exact C | reflexivity | reflexivity].
    - intros _. split; [reflexivity|]. split; [exact C | reflexivity].
  Qed.

  Lemma HT_push_child s :
    HT s push_child (fun _ s' => hr s' = hr s /\ Ctx s' = Ctx s /\ vals s' = [] :: vals s).
  Proof.
    intros [Hne Hinv] [] s' H.
    pose proof (step_Inv_reg _ _ (s_push s s' H) Hinv) as Hinv'.
    apply push_child_eq in H as ->. unfold st_push in *.
    assert (C : Ctx (BSt (new_child (frames s) :: frames s) (errs s)) = Ctx s).
    { unfold Ctx. cbn [frames]. rewrite (root_of_cons _ _ Hne). reflexivity. }
    assert (Hh : hr (BSt (new_child (frames s) :: frames s) (errs s)) = hr s).
    { unfold hr. cbn [frames]. destruct (frames s); [congruence | reflexivity]. }
    split; [split; [discriminate | exact Hinv']|]. split.
    - apply Grow_same; [exact C | reflexivity | exact Hh].
    - intros _. split; [exact Hh|]. split; [exact C|].
      unfold vals. cbn [frames map]. destruct (frames s); [congruence | reflexivity].
  Qed.

  Lemma HT_pop_child s :
    HT s pop_child (fun _ s' => hr s' = hr s /\ Ctx s' = Ctx s /\ vals s' = tl (vals s)).
  Proof.
    intros [Hne Hinv] k s' H.
    pose proof (step_Inv_reg _ _ (s_pop s k s' H) Hinv) as Hinv'.
    apply pop_child_eq in H as (c & p & r & Hf & -> & _).
    assert (C : Ctx (BSt (add_kid c p :: r) (errs s)) = Ctx s).
    { unfold Ctx at 2. rewrite Hf. rewrite (root_of_cons c (p :: r)) by discriminate.
      apply (Ctx_head p (add_kid c p) r (errs s) (errs s)). reflexivity. }
    assert (Hh : hr (BSt (add_kid c p :: r) (errs s)) = hr s).
    { unfold hr. cbn [frames]. rewrite Hf. cbn [head_reg].
      unfold Inv_reg in Hinv. rewrite Hf in Hinv. cbn [head_reg] in Hinv.
      inversion Hinv as [|? ? _ Hrest]; subst. inversion Hrest as [|? ? [Hp _] _]; subst.
      exact Hp. }
    split; [split; [discriminate | exact Hinv']|]. split.
    - apply Grow_same; [exact C | reflexivity | exact Hh].
    - intros _. split; [exact Hh|]. split; [exact C|]. unfold vals. cbn [frames]. rewrite Hf.
      reflexivity.
  Qed.

  Lemma HT_next_inner_name s fuel n :
    HT s (next_inner_name fuel n) (fun a s' => s' = s /\ inner_exists a (frames s) = false).
  Proof.
    intros W a s' H. apply next_inner_name_spec in H as [-> Hf].
    split; [exact W|]. split; [apply Grow_refl|]. intros _. split; [reflexivity | exact Hf].
  Qed.

  Lemma HT_label_probe fuel : forall n s, HT s (label_probe fuel n) (fun _ s' => Same s s').
  Proof.
    induction fuel as [|f IH]; intros n s W a s' H; cbn [label_probe] in H; [discriminate|].
    destruct (set_attr_counter n) as [n'|]; [|discriminate].
    destruct (label_exists n' (frames s)); [eapply IH; eassumption|].
    revert a s' H. refine (HT_bind s (set_label_name n') (fun _ => ret n') _ _ _ _ W).
    - apply HT_set_label_name.
    - intros u1 s1 W1 G1 H1. apply HT_ret. intros F _. apply H1, F.
  Qed.

  Lemma HT_gen_label s base : HT s (gen_label base) (fun _ s' => Same s s').
  Proof.
    unfold gen_label. apply HT_gets_bind. destruct (label_exists base (frames s)).
    - apply HT_gets_bind. apply HT_label_probe.
    - eapply HT_bind; [apply HT_set_label_name|]. intros u1 s1 W1 G1 H1.
      apply HT_ret. intros F _. apply H1, F.
  Qed.

  (** a guarded error: on an accepted run the guard was false *)
  Lemma HT_when_error s c e : HT s (when c (add_error e)) (fun _ s' => c = false /\ s' = s).
  Proof.
    destruct c; cbn [when].
    - eapply HT_conseq; [apply HT_add_error|]. intros; contradiction.
    - apply HT_ret. intros _. split; reflexivity.
  Qed.

  (** an error, then anything that grows: nothing is owed *)
  Lemma HT_error_then {B} s e (k : M B) Q :
    (forall s1, GT s1 k) -> HT s (add_error e ;;; k) Q.
  Proof.
    intro Hk. eapply HT_bind; [apply HT_add_error|]. intros u1 s1 W1 G1 H1.
    eapply HT_conseq; [apply Hk|]. intros b s' _ G' F _ _. exfalso. apply H1.
    eapply Fin_back; eassumption.
  Qed.

  Lemma HT_error_ret {B} s e (b : B) Q : HT s (add_error e ;;; ret b) Q.
  Proof. apply HT_error_then. intro s1. apply HT_ret. trivial. Qed.

  Lemma HT_error_get_reg s e Q : HT s (add_error e ;;; get_reg) Q.
  Proof. apply HT_error_then. intro s1. apply HT_get_reg. trivial. Qed.

  Lemma HT_error s e Q : HT s (add_error e) Q.
  Proof. eapply HT_conseq; [apply HT_add_error|]. intros; contradiction. Qed.

  Section WithG.
    Variable G : globals.
    Lemma HT_check_type_exists s t v l :
      HT s (check_type_exists G t v l)
         (fun ok s' => ok = true /\ s' = s /\
                       (is_prim t = true \/ amem (type_name t) (g_types G) = true)).
    Proof.
      unfold check_type_exists. destruct (is_prim t) eqn:E1.
      - apply HT_ret. intros _. repeat split. left. reflexivity.
      - destruct (amem _ _) eqn:E2.
        + apply HT_ret. intros _. repeat split. right. reflexivity.
        + apply HT_error_ret.
    Qed.
  End WithG.
End Anchor.

(** forward all guarded facts from the anchor of the last state *)
Ltac fin_all :=
  repeat match goal with
         | G : Grow ?a ?b, F : Fin ?Cf ?b |- _ =>
             lazymatch goal with
             | _ : Fin Cf a |- _ => fail
             | _ => pose proof (Fin_back Cf a b G F)
             end
         end;
  repeat match goal with
         | H : Fin ?Cf ?s -> _, F : Fin ?Cf ?s |- _ => specialize (H F); cbv beta in H
         end;
  cbv beta in *.

(** ** Lookups only see the value tables *)
Lemma lookup_frames_vals x : forall fs fs',
  map b_values fs = map b_values fs' -> lookup_frames x fs = lookup_frames x fs'.
Proof.
  induction fs as [|b fs IH]; intros [|b' fs'] H; cbn in H; try discriminate; [reflexivity|].
  inversion H as [[H1 H2]]. cbn. rewrite H1. rewrite (IH fs' H2). reflexivity.
Qed.

Lemma lookup_vals s s' x : vals s' = vals s -> lookup_frames x (frames s') = lookup_frames x (frames s).
Proof. intro H. apply lookup_frames_vals. exact H. Qed.
