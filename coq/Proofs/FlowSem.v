(** C05, vocabulary of the simulation.

    - straight-line instructions ([is_line]), their events ([levs]);
    - a big-step reading of the jump program [c]: [steps] (some steps from a program point to a
      program point), [halts] (some steps, then a halting instruction), [Pre] (whatever the fuel,
      the events of the run are comparable with a given list: the counterpart of a structured
      run that was cut off by its fuel);
    - how these determine [flat_run] for every fuel;
    - [Mono] (only appends errors), syntax-directed ([mono_go]);
    - [DS m Q]: in a run of [m] that ends without errors, [m] appends one common delta [d] to the
      stack of every live frame, and [Q a d]; [SL m P]: moreover [d] is straight-line and
      [P a (levs d)]; a small Hoare logic for [SL]. *)
From Coq Require Import Lia.
From SA Require Import Model.
From SA.Spec Require Import Stack Exec.
From SA.Proofs Require Import Trace InvNames InvLabels Resolve ExecBasic FlowBasic.
Local Open Scope list_scope.

(** ** Straight-line instructions *)
Definition ev_of (i : instr) : list event :=
  match i with
  | ILet _ _ => [EvLet]
  | IBind _ _ => [EvAssign]
  | ICall f _ _ => [EvCall (f_name f)]
  | _ => []
  end.

Definition is_line (i : instr) : bool :=
  match i with
  | IFnRet _ | IFnRetLabel _ | IJumpFnRet _ | IIfCondExpr _ _ _ | IIfCondLogic _ _ _ | IJumpTo _ =>
      false
  | _ => true
  end.

Definition Line (d : list instr) : Prop := forallb is_line d = true.
Definition levs (d : list instr) : list event := flat_map ev_of d.

Lemma Line_nil : Line [].
Proof. reflexivity. Qed.
Lemma Line_app d1 d2 : Line (d1 ++ d2) <-> Line d1 /\ Line d2.
Proof. unfold Line. rewrite forallb_app, Bool.andb_true_iff. reflexivity. Qed.
Lemma Line_one i : is_line i = true -> Line [i].
Proof. intro H. unfold Line. cbn. rewrite H. reflexivity. Qed.
Lemma Line_cons i d : Line (i :: d) <-> is_line i = true /\ Line d.
Proof. unfold Line. cbn [forallb]. rewrite Bool.andb_true_iff. reflexivity. Qed.
Lemma levs_app d1 d2 : levs (d1 ++ d2) = levs d1 ++ levs d2.
Proof. unfold levs. apply flat_map_app. Qed.
Lemma levs_nil : levs [] = [].
Proof. reflexivity. Qed.

Lemma instr_step_line c i pc w : is_line i = true -> instr_step c i pc w = Next (ev_of i) (S pc) w.
Proof. destruct i; cbn; try discriminate; reflexivity. Qed.

(** ** Positions *)
Lemma nth_at {A} (pre : list A) x post : nth_error (pre ++ x :: post) (length pre) = Some x.
Proof. rewrite nth_error_app2 by lia. rewrite Nat.sub_diag. reflexivity. Qed.

Ltac len := repeat rewrite app_length; cbn [length]; lia.

(** ** Big steps of the jump program *)
Section Flat.
  Variable c : list instr.

  Inductive steps : nat -> list bool -> list event -> nat -> list bool -> Prop :=
  | steps_refl pc w : steps pc w [] pc w
  | steps_cons pc w ev pc1 w1 ev2 pc2 w2 :
      flat_step c pc w = Next ev pc1 w1 -> steps pc1 w1 ev2 pc2 w2 ->
      steps pc w (ev ++ ev2) pc2 w2.

  Definition halts (pc : nat) (w : list bool) (ev : list event) (st : status) : Prop :=
    exists ev1 pc1 w1 ev2,
      steps pc w ev1 pc1 w1 /\ flat_step c pc1 w1 = Halt ev2 st /\ ev = ev1 ++ ev2.

  Definition comparable (a b : list event) : Prop :=
    (exists r, a ++ r = b) \/ (exists r, b ++ r = a).

  Definition Pre (pc : nat) (w : list bool) (ev : list event) : Prop :=
    forall m, comparable (fst (flat_run c m pc w)) ev.

  Lemma steps_one pc w ev pc' w' : flat_step c pc w = Next ev pc' w' -> steps pc w ev pc' w'.
  Proof.
    intro H. rewrite <- (app_nil_r ev). eapply steps_cons; [exact H | apply steps_refl].
  Qed.

  Lemma steps_trans pc w ev1 pc1 w1 ev2 pc2 w2 :
    steps pc w ev1 pc1 w1 -> steps pc1 w1 ev2 pc2 w2 -> steps pc w (ev1 ++ ev2) pc2 w2.
  Proof.
    induction 1 as [|pc w ev pc1 w1 ev1' pc1' w1' Hs _ IH]; intro H2; [exact H2|].
    rewrite <- app_assoc. eapply steps_cons; [exact Hs | apply IH, H2].
  Qed.

  Lemma steps_eq pc w ev pc1 w1 pc' pc1' ev' :
    steps pc w ev pc1 w1 -> pc = pc' -> pc1 = pc1' -> ev = ev' -> steps pc' w ev' pc1' w1.
  Proof. intros H -> -> ->. exact H. Qed.

  Lemma steps_halts pc w ev1 pc1 w1 ev2 st :
    steps pc w ev1 pc1 w1 -> halts pc1 w1 ev2 st -> halts pc w (ev1 ++ ev2) st.
  Proof.
    intros H1 (e1 & p & w' & e2 & H2 & Hh & ->).
    exists (ev1 ++ e1), p, w', e2. split; [eapply steps_trans; eassumption|].
    split; [exact Hh | rewrite app_assoc; reflexivity].
  Qed.

  Lemma halts_now pc w ev st : flat_step c pc w = Halt ev st -> halts pc w ev st.
  Proof. intro H. exists [], pc, w, ev. split; [apply steps_refl|]. split; [exact H | reflexivity]. Qed.

  Lemma comparable_nil_l b : comparable [] b.
  Proof. left. exists b. reflexivity. Qed.
  Lemma comparable_nil_r a : comparable a [].
  Proof. right. exists a. reflexivity. Qed.
  Lemma comparable_app e a b : comparable a b -> comparable (e ++ a) (e ++ b).
  Proof.
    intros [[r <-]|[r <-]]; [left | right]; exists r; rewrite app_assoc; reflexivity.
  Qed.

  Lemma Pre_nil pc w : Pre pc w [].
  Proof. intro m. apply comparable_nil_r. Qed.

  Lemma steps_Pre pc w ev1 pc1 w1 ev2 :
    steps pc w ev1 pc1 w1 -> Pre pc1 w1 ev2 -> Pre pc w (ev1 ++ ev2).
  Proof.
    induction 1 as [|pc w ev pc1 w1 ev1' pc1' w1' Hs _ IH]; intro HP; [exact HP|].
    intros [|m]; cbn [flat_run]; [apply comparable_nil_l|].
    rewrite Hs. cbn [prepend_trace fst]. rewrite <- app_assoc. apply comparable_app.
    apply IH, HP.
  Qed.

  (** straight-line code *)
  Lemma steps_line : forall d pre post w,
    c = pre ++ d ++ post -> Line d -> steps (length pre) w (levs d) (length pre + length d) w.
  Proof.
    induction d as [|i d IH]; intros pre post w Hc HL.
    - cbn. rewrite Nat.add_0_r. apply steps_refl.
    - apply Line_cons in HL as [Hi HL]. change (levs (i :: d)) with (ev_of i ++ levs d).
      eapply steps_cons.
      + unfold flat_step. rewrite Hc. cbn [app]. rewrite nth_at. apply instr_step_line, Hi.
      + specialize (IH (pre ++ [i]) post w).
        eapply steps_eq; [apply IH| | |reflexivity].
        * rewrite Hc, <- app_assoc. reflexivity.
        * exact HL.
        * len.
        * len.
  Qed.

  (** the instruction at a position *)
  Lemma step_at pre i post w : c = pre ++ i :: post -> flat_step c (length pre) w = instr_step c i (length pre) w.
  Proof. intros ->. unfold flat_step. rewrite nth_at. reflexivity. Qed.

  (** what the big steps say about [flat_run] *)
  Lemma steps_run pc w ev pc1 w1 :
    steps pc w ev pc1 w1 ->
    forall m, (exists m', flat_run c m pc w = prepend_trace ev (flat_run c m' pc1 w1)) \/
              (exists p r, p ++ r = ev /\ flat_run c m pc w = (p, OutOfFuel)).
  Proof.
    induction 1 as [|pc w ev pc1 w1 ev2 pc2 w2 Hs _ IH]; intro m.
    - left. exists m. unfold prepend_trace. cbn. destruct (flat_run c m pc w); reflexivity.
    - destruct m as [|m]; cbn [flat_run].
      + right. exists [], (ev ++ ev2). split; reflexivity.
      + rewrite Hs. destruct (IH m) as [[m' E]|(p & r & Hpr & E)]; rewrite E.
        * left. exists m'. unfold prepend_trace. cbn. rewrite app_assoc. reflexivity.
        * right. exists (ev ++ p), r. split; [rewrite <- app_assoc, Hpr; reflexivity | reflexivity].
  Qed.

  Lemma halts_run pc w ev st :
    halts pc w ev st ->
    forall m, flat_run c m pc w = (ev, st) \/
              (exists p r, p ++ r = ev /\ flat_run c m pc w = (p, OutOfFuel)).
  Proof.
    intros (e1 & p1 & w1 & e2 & Hs & Hh & ->) m.
    destruct (steps_run _ _ _ _ _ Hs m) as [[m' E]|(p & r & Hpr & E)].
    - destruct m' as [|m']; cbn [flat_run] in E.
      + right. exists e1, e2. split; [reflexivity|]. rewrite E. unfold prepend_trace. cbn.
        rewrite app_nil_r. reflexivity.
      + left. rewrite Hh in E. exact E.
    - right. exists p, (r ++ e2). split; [rewrite app_assoc, Hpr; reflexivity | exact E].
  Qed.
End Flat.

(** ** [prefixb] / [events_eqb] *)
Lemma event_eqb_refl e : event_eqb e e = true.
Proof. destruct e; cbn; try reflexivity. apply String.eqb_refl. Qed.
Lemma events_eqb_refl l : events_eqb l l = true.
Proof. induction l as [|e l IH]; cbn; [reflexivity|]. rewrite event_eqb_refl, IH. reflexivity. Qed.
Lemma prefixb_app a r : prefixb a (a ++ r) = true.
Proof. induction a as [|e a IH]; cbn; [reflexivity|]. rewrite event_eqb_refl, IH. reflexivity. Qed.
Lemma comparable_prefixb a b : comparable a b -> prefixb a b || prefixb b a = true.
Proof.
  intros [[r <-]|[r <-]]; rewrite prefixb_app; [reflexivity | apply Bool.orb_true_r].
Qed.

(** ** [Mono]: syntax-directed *)
Lemma Mono_ret {A} (a : A) : Mono (ret a).
Proof. intros s a' s' H. inversion H. apply errs_le_refl. Qed.
Lemma Mono_bind {A B} (m : M A) (f : A -> M B) : Mono m -> (forall a, Mono (f a)) -> Mono (bind m f).
Proof.
  intros Hm Hf s b s' H. apply bind_ok in H as (a & s1 & E & H).
  eapply errs_le_trans; [eapply Hm, E | eapply Hf, H].
Qed.
Lemma Mono_gets {A} (g : list block -> A) : Mono (gets g).
Proof. intros s a s' H. inversion H. apply errs_le_refl. Qed.
Lemma Mono_panic {A} k : Mono (@panic A k).
Proof. intros s a s' H. discriminate. Qed.
Lemma Mono_oof {A} : Mono (@out_of_fuel A).
Proof. intros s a s' H. discriminate. Qed.
Lemma Mono_when b m : Mono m -> Mono (when b m).
Proof. intro H. destruct b; [exact H | apply Mono_ret]. Qed.
Lemma Mono_upd g : Mono (upd_frames g).
Proof. intros s a s' H. inversion H. exists []. cbn. rewrite app_nil_r. reflexivity. Qed.
Lemma Mono_add_error e : Mono (add_error e).
Proof. intros s a s' H. inversion H. eexists; reflexivity. Qed.
Lemma Mono_emit i : Mono (emit i).
Proof. apply Mono_upd. Qed.
Lemma Mono_pop_child : Mono pop_child.
Proof. apply Mono_R2. intro s. apply Rat_pop_child. Qed.
Lemma Mono_push_child : Mono push_child.
Proof. apply Mono_upd. Qed.
Lemma Mono_emit_kid k i : Mono (emit_kid k i).
Proof. unfold emit_kid. apply Mono_bind; [apply Mono_upd | intros; apply Mono_emit]. Qed.
Lemma Mono_gen_label base : Mono (gen_label base).
Proof. apply Mono_R2, R2_gen_label. Qed.
Lemma Mono_alloc_emit mk : Mono (alloc_emit mk).
Proof.
  unfold alloc_emit, inc_register, get_reg.
  repeat first [apply Mono_bind; [|intros ?] | apply Mono_upd | apply Mono_gets | apply Mono_ret].
Qed.
Lemma Mono_bump : Mono bump.
Proof. apply Mono_R2. intro s. apply Rat_bump. Qed.
Lemma Mono_next_inner_name fuel n : Mono (next_inner_name fuel n).
Proof. intros s a s' H. apply next_inner_name_spec in H as [-> _]. apply errs_le_refl. Qed.
Lemma Mono_lookup_value x : Mono (lookup_value x).
Proof. apply Mono_gets. Qed.
Lemma Mono_get_reg : Mono get_reg.
Proof. apply Mono_gets. Qed.

Ltac mono_prim :=
  first
    [ apply Mono_ret | apply Mono_gets | apply Mono_panic | apply Mono_oof | apply Mono_add_error
    | apply Mono_emit | apply Mono_emit_kid | apply Mono_pop_child | apply Mono_push_child
    | apply Mono_gen_label | apply Mono_alloc_emit | apply Mono_bump | apply Mono_next_inner_name
    | apply Mono_lookup_value | apply Mono_get_reg | apply Mono_upd ].

Ltac mono_go :=
  repeat first
    [ mono_prim
    | match goal with H : _ |- Mono _ => solve [apply H] end
    | apply Mono_when
    | apply Mono_bind; [| intros ?]
    | match goal with |- Mono (match ?x with _ => _ end) => destruct x end
    | match goal with |- Mono (if ?b then _ else _) => destruct b end
    | progress cbv zeta ].

(** whole functions of the model, from [Trace.v] *)
Lemma Mono_expression G fuel e : Mono (expression G fuel e).
Proof. apply Mono_R2, R2_expression. Qed.
Lemma Mono_let_binding G fuel x m t e : Mono (let_binding G fuel x m t e).
Proof. apply Mono_R2, R2_let_binding. Qed.
Lemma Mono_binding G fuel x e : Mono (binding G fuel x e).
Proof. apply Mono_R2, R2_binding. Qed.
Lemma Mono_call_stmt G fuel f args : Mono (call_stmt G fuel f args).
Proof. apply Mono_R2, R2_call_stmt. Qed.
Lemma Mono_condition_expression G fuel c : Mono (condition_expression G fuel c).
Proof. apply Mono_R2, R2_condition_expression. Qed.
Lemma Mono_if_condition_calculation G fuel c lb le lend ie :
  Mono (if_condition_calculation G fuel c lb le lend ie).
Proof. apply Mono_R2, R2_if_condition_calculation. Qed.
Lemma Mono_check_type_exists G t v l : Mono (check_type_exists G t v l).
Proof. apply Mono_R2, R2_check_type_exists. Qed.
Lemma Mono_check_return_type RT er : Mono (check_return_type RT er).
Proof. apply Mono_R2, R2_check_return_type. Qed.
Lemma Mono_code_after_errors k fl : Mono (code_after_errors k fl).
Proof. apply Mono_R2, R2_code_after_errors. Qed.

(** ** [DS] and [SL] *)
Definition DS {A} (m : M A) (Q : A -> list instr -> Prop) : Prop :=
  forall s a s', ctxs s <> [] -> m s = Ok a s' -> errs s' = [] ->
                 exists d, ctxs s' = adds d (ctxs s) /\ Q a d.

Definition SL {A} (m : M A) (P : A -> list event -> Prop) : Prop :=
  DS m (fun a d => Line d /\ P a (levs d)).

Lemma DS_conseq {A} (m : M A) (Q Q' : A -> list instr -> Prop) :
  DS m Q -> (forall a d, Q a d -> Q' a d) -> DS m Q'.
Proof.
  intros H HQ s a s' Hne E Hacc. destruct (H s a s' Hne E Hacc) as (d & HC & Hd).
  exists d. split; [exact HC | apply HQ, Hd].
Qed.

Lemma SL_conseq {A} (m : M A) (P P' : A -> list event -> Prop) :
  SL m P -> (forall a ev, P a ev -> P' a ev) -> SL m P'.
Proof. intros H HP. eapply DS_conseq; [exact H|]. intros a d [HL Hd]. split; [exact HL | apply HP, Hd]. Qed.

Lemma SL_ret {A} (a : A) (P : A -> list event -> Prop) : P a [] -> SL (ret a) P.
Proof.
  intros HP s a' s' _ H _. inversion H; subst. exists []. rewrite adds_nil.
  split; [reflexivity|]. split; [apply Line_nil | exact HP].
Qed.

Lemma SL_panic {A} k (P : A -> list event -> Prop) : SL (panic k) P.
Proof. intros s a s' _ H. discriminate. Qed.
Lemma SL_oof {A} (P : A -> list event -> Prop) : SL out_of_fuel P.
Proof. intros s a s' _ H. discriminate. Qed.

Lemma SL_bind {A B} (m : M A) (f : A -> M B) (P1 : A -> list event -> Prop)
      (P : B -> list event -> Prop) :
  SL m P1 -> (forall a, Mono (f a)) ->
  (forall a ev1, P1 a ev1 -> SL (f a) (fun b ev2 => P b (ev1 ++ ev2))) ->
  SL (bind m f) P.
Proof.
  intros Hm Hmono Hf s b s' Hne H Hacc. apply bind_ok in H as (a & s1 & E & H).
  pose proof (errs_le_nil _ _ (Hmono a _ _ _ H) Hacc) as Hacc1.
  destruct (Hm s a s1 Hne E Hacc1) as (d1 & HC1 & HL1 & HP1).
  assert (Hne1 : ctxs s1 <> []) by (rewrite HC1; apply adds_ne, Hne).
  destruct (Hf a _ HP1 s1 b s' Hne1 H Hacc) as (d2 & HC2 & HL2 & HP2).
  exists (d1 ++ d2). split; [rewrite HC2, HC1, adds_adds; reflexivity|].
  split; [apply Line_app; split; assumption | rewrite levs_app; exact HP2].
Qed.

(** reads: the continuation is analysed with the value that was read *)
Lemma SL_gets_bind {A B} (g : list block -> A) (f : A -> M B) (P : B -> list event -> Prop) :
  (forall x, SL (f x) P) -> SL (bind (gets g) f) P.
Proof. intros H s b s' Hne Hb Hacc. unfold bind, gets in Hb. exact (H _ s b s' Hne Hb Hacc). Qed.

Lemma SL_gets {A} (g : list block -> A) (P : A -> list event -> Prop) :
  (forall x, P x []) -> SL (gets g) P.
Proof.
  intros HP s a s' _ H _. inversion H; subst. exists []. rewrite adds_nil.
  split; [reflexivity|]. split; [apply Line_nil | apply HP].
Qed.

(** an error on the path: nothing to prove *)
Lemma SL_add_error {A} e (P : A -> list event -> Prop) (k : M A) :
  Mono k -> SL (add_error e ;;; k) P.
Proof.
  intros Hk s a s' _ H Hacc. apply bind_ok in H as (u & s1 & E & H).
  exfalso. eapply add_error_not_nil; [exact E|]. eapply errs_le_nil; [eapply Hk, H | exact Hacc].
Qed.
Lemma SL_add_error_last e (P : unit -> list event -> Prop) : SL (add_error e) P.
Proof. intros s a s' _ H Hacc. exfalso. eapply add_error_not_nil; eassumption. Qed.

(** computations that push nothing *)
Lemma SL_neutral {A} (m : M A) (P : A -> list event -> Prop) :
  (forall s a s', m s = Ok a s' -> ctxs s' = ctxs s) -> (forall a, P a []) -> SL m P.
Proof.
  intros Hm HP s a s' _ H _. exists []. rewrite adds_nil.
  split; [eapply Hm, H|]. split; [apply Line_nil | apply HP].
Qed.

Lemma SL_emit i (P : unit -> list event -> Prop) :
  is_line i = true -> P tt (ev_of i) -> SL (emit i) P.
Proof.
  intros Hi HP s a s' _ H _. exists [i]. split; [eapply emit_ctxs, H|].
  split; [apply Line_one, Hi|]. destruct a. cbn. rewrite app_nil_r. exact HP.
Qed.

Lemma SL_alloc_emit mk (P : N -> list event -> Prop) :
  (forall r, is_line (mk r) = true /\ P r (ev_of (mk r))) -> SL (alloc_emit mk) P.
Proof.
  intros Hmk s r s' _ H _. exists [mk r]. split; [eapply alloc_emit_ctxs, H|].
  destruct (Hmk r) as [Hi HP]. split; [apply Line_one, Hi|]. cbn. rewrite app_nil_r. exact HP.
Qed.

Lemma SL_bump (P : N -> list event -> Prop) : (forall r, P r []) -> SL bump P.
Proof. apply SL_neutral. apply bump_ctxs. Qed.
Lemma SL_set_inner_name n (P : unit -> list event -> Prop) : P tt [] -> SL (set_inner_name n) P.
Proof. intro H. apply SL_neutral; [apply set_inner_name_ctxs | intros []; exact H]. Qed.
Lemma SL_insert_value x v (P : unit -> list event -> Prop) : P tt [] -> SL (insert_value x v) P.
Proof. intro H. apply SL_neutral; [apply insert_value_ctxs | intros []; exact H]. Qed.
Lemma SL_next_inner_name fuel n (P : string -> list event -> Prop) :
  (forall x, P x []) -> SL (next_inner_name fuel n) P.
Proof.
  apply SL_neutral. intros s a s' H. apply next_inner_name_spec in H as [-> _]. reflexivity.
Qed.

Lemma SL_when b m (P : unit -> list event -> Prop) :
  (b = true -> SL m P) -> (b = false -> P tt []) -> SL (when b m) P.
Proof. intros H1 H2. destruct b; [apply H1; reflexivity | apply SL_ret, H2; reflexivity]. Qed.

(** [SL] into [DS] *)
Lemma SL_DS {A} (m : M A) P : SL m P -> DS m (fun a d => Line d /\ P a (levs d)).
Proof. exact (fun H => H). Qed.
