(** C05, expressions: in a run that ends without errors, the instructions an expression (a
    declaration, an assignment, a call statement, a logic condition) appends are straight-line,
    and their events are the events of the source ([expr_events], ...).

    - [declarations_fnames_ok]: the functions table maps a name to a function of that name;
    - priority folding keeps the order of the leaves of a chain ([fold_priority_events]);
    - [SL_expression], [SL_let_binding], [SL_binding], [SL_call_stmt],
      [SL_condition_expression]. *)
From Coq Require Import Lia.
From SA Require Import Model.
From SA.Spec Require Import Stack Exec.
From SA.Proofs Require Import Trace InvNames InvLabels Resolve ExecBasic FlowBasic FlowSem.
Local Open Scope list_scope.

Definition fnames_ok (G : globals) : Prop :=
  forall n fd, alookup n (g_funcs G) = Some fd -> f_name fd = n.

(** ** The declaration passes keep [fnames_ok] *)
Lemma alookup_snoc {V} k (l : list (string * V)) k' v :
  alookup k (l ++ [(k', v)]) =
  match alookup k l with
  | Some x => Some x
  | None => if String.eqb k k' then Some v else None
  end.
Proof.
  induction l as [|[k0 v0] l IH]; cbn [alookup app]; [reflexivity|].
  destruct (String.eqb k k0); [reflexivity | exact IH].
Qed.

Lemma g_check_type_exists_globals st t v l :
  gs_globals (fst (g_check_type_exists st t v l)) = gs_globals st.
Proof.
  unfold g_check_type_exists. destruct (is_prim t); [reflexivity|].
  destruct (amem _ _); reflexivity.
Qed.

Lemma decl_fn_params_globals floc : forall ps st quit,
  gs_globals (fst (decl_fn_params st quit floc ps)) = gs_globals st.
Proof.
  induction ps as [|[x t] ps IH]; intros st quit; cbn [decl_fn_params]; [reflexivity|].
  destruct quit; [apply IH|].
  destruct (g_check_type_exists st (sem_of_ty t) (iname x) floc) as [st' ok] eqn:E.
  rewrite IH. change st' with (fst (st', ok)). rewrite <- E. apply g_check_type_exists_globals.
Qed.

Lemma decl_type_fnames st n a : fnames_ok (gs_globals st) -> fnames_ok (gs_globals (decl_type st n a)).
Proof.
  intro H. unfold decl_type. destruct (amem _ _); [exact H|]. exact H.
Qed.

Lemma decl_const_fnames st n ty v :
  fnames_ok (gs_globals st) -> fnames_ok (gs_globals (decl_const st n ty v)).
Proof.
  intro H. unfold decl_const. destruct (amem _ _); [exact H|].
  destruct (check_const_links _ _); [exact H|].
  destruct (g_check_type_exists _ _ _ _) as [st' ok] eqn:E.
  assert (HG : gs_globals st' = gs_globals st).
  { change st' with (fst (st', ok)). rewrite <- E. apply g_check_type_exists_globals. }
  destruct ok.
  - intros k fd. cbn. rewrite HG. apply H.
  - rewrite HG. exact H.
Qed.

Lemma decl_fn_fnames st f : fnames_ok (gs_globals st) -> fnames_ok (gs_globals (decl_fn st f)).
Proof.
  intro H. unfold decl_fn. destruct (amem _ _); [exact H|].
  destruct (g_check_type_exists _ _ _ _) as [st1 ok] eqn:E1.
  destruct (decl_fn_params _ _ _ _) as [st2 quit] eqn:E2.
  assert (HG : gs_globals st2 = gs_globals st).
  { change st2 with (fst (st2, quit)). rewrite <- E2, decl_fn_params_globals.
    change st1 with (fst (st1, ok)). rewrite <- E1. apply g_check_type_exists_globals. }
  destruct quit.
  - rewrite HG. exact H.
  - intros k fd. cbn. rewrite HG, alookup_snoc.
    destruct (alookup k (g_funcs (gs_globals st))) as [fd0|] eqn:E.
    + intro H0. inversion H0; subst. apply H, E.
    + destruct (String.eqb k (iname (fn_name f))) eqn:Ek; [|discriminate].
      intro H0. inversion H0; subst. cbn. apply String.eqb_eq in Ek. symmetry. exact Ek.
Qed.

Lemma declarations_fnames_ok p : fnames_ok (gs_globals (declarations p)).
Proof.
  unfold declarations.
  assert (H1 : forall q st, fnames_ok (gs_globals st) ->
                            fnames_ok (gs_globals (fold_left pass_types q st))).
  { induction q as [|t q IH]; intros st H; cbn [fold_left]; [exact H|].
    apply IH. destruct t; cbn [pass_types]; try exact H. apply decl_type_fnames, H. }
  assert (H2 : forall q st, fnames_ok (gs_globals st) ->
                            fnames_ok (gs_globals (fold_left pass_decls q st))).
  { induction q as [|t q IH]; intros st H; cbn [fold_left]; [exact H|].
    apply IH. destruct t; cbn [pass_decls]; try exact H.
    - apply decl_const_fnames, H.
    - apply decl_fn_fnames, H. }
  apply H2, H1. intros n fd H. discriminate.
Qed.

(** ** Events of the source: unfolding equations *)
Fixpoint links_events (l : list (binop * expr_val)) : list event :=
  match l with
  | [] => []
  | (_, v') :: l' => val_events v' ++ links_events l'
  end.

Lemma expr_events_eq v rest : expr_events (Expr v rest) = val_events v ++ links_events rest.
Proof.
  cbn [expr_events]. reflexivity.
Qed.

Lemma val_events_call f args : val_events (EVCall f args) = exprs_events args ++ [EvCall (iname f)].
Proof.
  cbn [val_events]. reflexivity.
Qed.

Lemma val_events_sub e : val_events (EVSub e) = expr_events e.
Proof. reflexivity. Qed.

(** ** Priority folding keeps the order of the leaves *)
Lemma fetch_events p : forall rest v v' r',
  fetch p v rest = (v', r') ->
  val_events v' ++ links_events r' = val_events v ++ links_events rest.
Proof.
  induction rest as [|[op v2] rest IH]; intros v v' r' H; cbn [fetch] in H.
  - inversion H; subst. reflexivity.
  - destruct (N.eqb (prio op) p).
    + apply IH in H. rewrite H, val_events_sub, expr_events_eq. cbn [links_events].
      rewrite app_nil_r, <- app_assoc. reflexivity.
    + destruct (fetch p v2 rest) as [v'' r''] eqn:E. inversion H; subst.
      cbn [links_events]. rewrite (IH _ _ _ E). reflexivity.
Qed.

Lemma fetch_levels_events : forall ls acc,
  let res := fold_left (fun acc p => fetch p (fst acc) (snd acc)) ls acc in
  val_events (fst res) ++ links_events (snd res) = val_events (fst acc) ++ links_events (snd acc).
Proof.
  induction ls as [|p ls IH]; intros acc; cbn [fold_left]; [reflexivity|].
  cbv zeta in IH |- *. rewrite IH.
  destruct (fetch p (fst acc) (snd acc)) as [v' r'] eqn:E. cbn [fst snd].
  eapply fetch_events, E.
Qed.

Lemma fold_priority_events e : expr_events (fold_priority e) = expr_events e.
Proof.
  destruct e as [v rest]. cbn [fold_priority].
  destruct rest as [|l1 [|l2 rest]]; try reflexivity.
  pose proof (fetch_levels_events levels (v, l1 :: l2 :: rest)) as H. cbv zeta in H.
  destruct (fold_left _ levels _) as [v' r']. cbn [fst snd] in H.
  rewrite !expr_events_eq. exact H.
Qed.

(** ** The walk *)
Ltac sl_bind P1 := eapply (SL_bind _ _ P1).

Section FlowExpr.
  Variable G : globals.
  Hypothesis HG : fnames_ok G.

  Section Expr.
    Variable E : expr -> M (option eres).
    Hypothesis HE : forall e, SL (E e) (fun r ev => r <> None /\ ev = expr_events e).
    Hypothesis HEr : forall e, R2 (E e).

    Lemma Mono_E e : Mono (E e).
    Proof. apply Mono_R2, HEr. Qed.

    Lemma Mono_call_args callee params args i acc : Mono (call_args E callee params i args acc).
    Proof. apply Mono_R2, R2_call_args, HEr. Qed.
    Lemma Mono_function_call f args : Mono (function_call G E f args).
    Proof. apply Mono_R2, R2_function_call, HEr. Qed.
    Lemma Mono_expr_value v : Mono (expr_value G E v).
    Proof. apply Mono_R2, R2_expr_value, HEr. Qed.
    Lemma Mono_expr_chain left rest : Mono (expr_chain G E left rest).
    Proof. apply Mono_R2, R2_expr_chain, HEr. Qed.

    Lemma SL_call_args callee params : forall args i acc,
      SL (call_args E callee params i args acc) (fun r ev => r <> None /\ ev = exprs_events args).
    Proof.
      pose proof Mono_E. pose proof Mono_call_args.
      induction args as [|a args IH]; intros i acc; cbn [call_args].
      - apply SL_ret. split; [discriminate | reflexivity].
      - eapply SL_bind; [apply HE | intros; mono_go |]. intros r ev1 [Hr ->]. cbv beta.
        destruct r as [er|]; [|congruence].
        destruct (nth_error params i) as [pt|].
        + destruct (sem_ty_eqb pt (r_ty er)).
          * eapply SL_conseq; [apply IH|]. intros r ev [Hr' ->]. split; [exact Hr' | reflexivity].
          * apply SL_add_error. apply Mono_call_args.
        + apply SL_add_error. apply Mono_call_args.
    Qed.

    Lemma SL_function_call f args :
      SL (function_call G E f args)
         (fun r ev => r <> None /\ ev = exprs_events args ++ [EvCall (iname f)]).
    Proof.
      pose proof Mono_E. pose proof Mono_call_args.
      unfold function_call. destruct (alookup (iname f) (g_funcs G)) as [fd|] eqn:Ef.
      - eapply SL_bind; [apply SL_call_args | intros; mono_go |]. intros ps ev1 [Hp ->]. cbv beta.
        destruct ps as [params|]; [|congruence].
        sl_bind (fun (_ : N) (ev : list event) => ev = [EvCall (f_name fd)]).
        + apply SL_alloc_emit. intro r. split; reflexivity.
        + intros; mono_go.
        + intros _ ev2 ->. apply SL_ret. split; [discriminate|].
          rewrite (HG _ _ Ef), app_nil_r. reflexivity.
      - apply SL_add_error. apply Mono_ret.
    Qed.

    Ltac sl_alloc0 :=
      sl_bind (fun (_ : N) (ev : list event) => ev = []);
      [ apply SL_alloc_emit; intro; split; reflexivity
      | intros; mono_go
      | intros ? ? ->; cbv beta ].

    Ltac sl_bump0 :=
      sl_bind (fun (_ : N) (ev : list event) => ev = []);
      [ apply SL_bump; intro; reflexivity
      | intros; mono_go
      | intros ? ? ->; cbv beta ].

    Lemma SL_expr_value v :
      SL (expr_value G E v) (fun r ev => r <> None /\ ev = val_events v).
    Proof.
      pose proof Mono_E. pose proof Mono_function_call.
      destruct v as [x|p|f args|x a|e|t tag]; cbn [expr_value].
      - (* name *)
        unfold lookup_value. apply SL_gets_bind. intros [val|].
        + sl_alloc0. apply SL_ret. split; [discriminate | reflexivity].
        + destruct (alookup (iname x) (g_consts G)) as [c|].
          * sl_alloc0. apply SL_ret. split; [discriminate | reflexivity].
          * sl_bump0. apply SL_add_error. apply Mono_ret.
      - apply SL_ret. split; [discriminate | reflexivity].
      - (* call *)
        eapply SL_bind; [apply SL_function_call | intros; mono_go |].
        intros t ev1 [Ht ->]. cbv beta. destruct t as [ty|]; [|congruence].
        sl_bump0. apply SL_ret. split; [discriminate|].
        rewrite val_events_call, app_nil_r. reflexivity.
      - (* field *)
        unfold lookup_value. apply SL_gets_bind. intros [val|]; [|apply SL_add_error, Mono_ret].
        destruct (v_ty val) as [pt|name attrs|et n] eqn:Ety;
          try (apply SL_add_error, Mono_ret).
        unfold check_type_exists. cbn [is_prim].
        destruct (amem (type_name (SStruct name attrs)) (g_types G)) eqn:Ham.
        + sl_bind (fun (b : bool) (ev : list event) => b = true /\ ev = []).
          * apply SL_ret. split; reflexivity.
          * intros; mono_go.
          * intros ok ev1 [-> ->]. cbv beta. cbn [negb].
            unfold amem in Ham.
            destruct (alookup (type_name (SStruct name attrs)) (g_types G)) as [declared|];
              [|discriminate].
            destruct (negb (sem_ty_eqb (SStruct name attrs) declared));
              [apply SL_add_error, Mono_ret|].
            destruct (attr_lookup (iname a) attrs) as [[idx aty]|];
              [|apply SL_add_error, Mono_ret].
            sl_alloc0. sl_bump0. apply SL_ret. split; [discriminate | reflexivity].
        + sl_bind (fun (_ : bool) (_ : list event) => False).
          * apply SL_add_error, Mono_ret.
          * intros; mono_go.
          * intros ok ev1 [].
      - (* sub-expression *)
        exact (HE e).
      - sl_alloc0. apply SL_ret. split; [discriminate | reflexivity].
    Qed.

    Lemma SL_expr_chain : forall rest left,
      SL (expr_chain G E left rest) (fun r ev => r <> None /\ ev = links_events rest).
    Proof.
      pose proof Mono_E. pose proof Mono_expr_value. pose proof Mono_expr_chain.
      induction rest as [|[op v] rest IH]; intros left; cbn [expr_chain].
      - apply SL_ret. split; [discriminate | reflexivity].
      - eapply SL_bind; [apply SL_expr_value | intros; mono_go |].
        intros rv ev1 [Hr ->]. cbv beta. destruct rv as [rgt|]; [|congruence].
        destruct (negb (sem_ty_eqb (r_ty left) (r_ty rgt))); [apply SL_add_error, Mono_ret|].
        sl_alloc0. eapply SL_conseq; [apply IH|]. intros r ev [Hr' ->].
        split; [exact Hr' | reflexivity].
    Qed.

    Lemma SL_expression_body e :
      SL (expression_body G E e) (fun r ev => r <> None /\ ev = expr_events e).
    Proof.
      pose proof Mono_E. pose proof Mono_expr_value. pose proof Mono_expr_chain.
      unfold expression_body. rewrite <- (fold_priority_events e).
      destruct (fold_priority e) as [v rest]. rewrite expr_events_eq.
      eapply SL_bind; [apply SL_expr_value | intros; mono_go |].
      intros rv ev1 [Hr ->]. cbv beta. destruct rv as [first|]; [|congruence].
      eapply SL_conseq; [apply SL_expr_chain|]. intros r ev [Hr' ->].
      split; [exact Hr' | reflexivity].
    Qed.
  End Expr.

  Lemma SL_expression fuel e :
    SL (expression G fuel e) (fun r ev => r <> None /\ ev = expr_events e).
  Proof.
    revert e. induction fuel as [|f IH]; intro e; cbn [expression]; [apply SL_oof|].
    apply SL_expression_body; [exact IH | apply R2_expression].
  Qed.

  Ltac sl_unit0 tac :=
    sl_bind (fun (_ : unit) (ev : list event) => ev = []);
    [ tac
    | intros; mono_go
    | intros ? ? ->; cbv beta ].

  Lemma SL_let_binding fuel x m t e :
    SL (let_binding G fuel x m t e) (fun _ ev => ev = expr_events e ++ [EvLet]).
  Proof.
    pose proof (Mono_expression G fuel).
    unfold let_binding.
    eapply SL_bind; [apply SL_expression | intros; mono_go |].
    intros r ev1 [Hr ->]. cbv beta. destruct r as [er|]; [|congruence].
    cbv zeta.
    match goal with |- SL (if ?b then _ else _) _ => destruct b end;
      [apply SL_add_error_last|].
    unfold lookup_value. apply SL_gets_bind. intro vs. apply SL_gets_bind. intro pf.
    sl_bind (fun (_ : string) (ev : list event) => ev = []);
      [apply SL_next_inner_name; intro; reflexivity | intros; mono_go | intros inner ? ->; cbv beta].
    sl_unit0 ltac:(apply SL_insert_value; reflexivity).
    sl_unit0 ltac:(apply SL_set_inner_name; reflexivity).
    apply SL_emit; [reflexivity|]. cbn [ev_of app]. rewrite ?app_nil_r. reflexivity.
  Qed.

  Lemma SL_binding fuel x e :
    SL (binding G fuel x e) (fun _ ev => ev = expr_events e ++ [EvAssign]).
  Proof.
    pose proof (Mono_expression G fuel).
    unfold binding.
    eapply SL_bind; [apply SL_expression | intros; mono_go |].
    intros r ev1 [Hr ->]. cbv beta. destruct r as [er|]; [|congruence].
    unfold lookup_value. apply SL_gets_bind. intros [val|]; [|apply SL_add_error_last].
    destruct (negb (v_mut val)); [apply SL_add_error_last|].
    destruct (negb (sem_ty_eqb (v_ty val) (r_ty er))); [apply SL_add_error_last|].
    apply SL_emit; reflexivity.
  Qed.

  Lemma SL_call_stmt fuel f args :
    SL (call_stmt G fuel f args) (fun _ ev => ev = exprs_events args ++ [EvCall (iname f)]).
  Proof.
    unfold call_stmt.
    eapply SL_bind;
      [apply SL_function_call; [apply SL_expression | apply R2_expression] | intros; mono_go |].
    intros r ev1 [Hr ->]. cbv beta. apply SL_ret. rewrite app_nil_r. reflexivity.
  Qed.

  Lemma SL_condition_expression fuel c :
    SL (condition_expression G fuel c) (fun _ ev => ev = lcond_events c).
  Proof.
    pose proof (Mono_expression G fuel). pose proof (Mono_condition_expression G fuel).
    induction c as [l c r | l c r op n IH] using lcond_ind'; cbn [condition_expression].
    - eapply SL_bind; [apply SL_expression | intros; mono_go |].
      intros lres ev1 [Hl ->]. cbv beta.
      eapply SL_bind; [apply SL_expression | intros; mono_go |].
      intros rres ev2 [Hr ->]. cbv beta.
      destruct lres as [lr|]; [|congruence]. destruct rres as [rr|]; [|congruence].
      destruct (negb (sem_ty_eqb (r_ty lr) (r_ty rr))); [apply SL_add_error, Mono_get_reg|].
      destruct (negb (is_prim (r_ty lr))); [apply SL_add_error, Mono_get_reg|].
      sl_bind (fun (_ : N) (ev : list event) => ev = []);
        [apply SL_alloc_emit; intro; split; reflexivity | intros; mono_go | intros ? ? ->; cbv beta].
      sl_unit0 ltac:(apply SL_ret; reflexivity).
      unfold get_reg. apply SL_gets. intros _. cbn [lcond_events].
      rewrite ?app_nil_r. reflexivity.
    - eapply SL_bind; [apply SL_expression | intros; mono_go |].
      intros lres ev1 [Hl ->]. cbv beta.
      eapply SL_bind; [apply SL_expression | intros; mono_go |].
      intros rres ev2 [Hr ->]. cbv beta.
      destruct lres as [lr|]; [|congruence]. destruct rres as [rr|]; [|congruence].
      destruct (negb (sem_ty_eqb (r_ty lr) (r_ty rr))); [apply SL_add_error, Mono_get_reg|].
      destruct (negb (is_prim (r_ty lr))); [apply SL_add_error, Mono_get_reg|].
      sl_bind (fun (_ : N) (ev : list event) => ev = []);
        [apply SL_alloc_emit; intro; split; reflexivity | intros; mono_go | intros ? ? ->; cbv beta].
      sl_bind (fun (_ : unit) (ev : list event) => ev = lcond_events n).
      + unfold get_reg at 1. apply SL_gets_bind. intro lreg.
        eapply SL_bind; [apply IH | intros; mono_go |].
        intros rreg ev3 ->. cbv beta.
        sl_bind (fun (_ : N) (ev : list event) => ev = []);
          [apply SL_alloc_emit; intro; split; reflexivity | intros; mono_go
          | intros ? ? ->; cbv beta].
        apply SL_ret. rewrite ?app_nil_r. reflexivity.
      + intros; mono_go.
      + intros _ ev3 ->. cbv beta. unfold get_reg. apply SL_gets. intros _.
        cbn [lcond_events app]. rewrite ?app_nil_r, <- ?app_assoc. reflexivity.
  Qed.
End FlowExpr.

Print Assumptions declarations_fnames_ok.
Print Assumptions SL_expression.
Print Assumptions SL_let_binding.
Print Assumptions SL_binding.
Print Assumptions SL_call_stmt.
Print Assumptions SL_condition_expression.
