(** The machine always ends well, and the strict monitor [Mon/C05s.chk_C05_gen_strict] never fires
    on the output of the model for an accepted program (every family of interpretations with a
    reflexive equality test, argument lists of the right lengths, all salts, both fuels). *)
From Coq Require Import Lia.
From SA Require Import Model.
From SA.Spec Require Import Stack Exec ValueExec.
From SA.Mon Require Import Control C05w C05h C05s.
From SA.Proofs Require Import ExecBasic FlowBasic FlowSim ValueSimBase ValueSim ValueSimSafe.
From SA.Proofs Require Import ValueSimMon ValueSimHash ValueSimProgress.
Local Open Scope list_scope.

(** the register machine returned or ran out of fuel: nothing else *)
Theorem vflat_always_ok : forall (V : Type) (I : interp V) p out,
  run p = ROk out -> o_errors out = [] ->
  Forall2 (fun f root =>
             forall args n, length args = length (fn_params f) ->
               vok (snd (vflat_exec V I (b_ctx root) args n)) = true)
          (functions_of p) (o_fns out).
Proof.
  intros V I p out H Hacc.
  assert (HIn : Forall (fun root => In root (o_fns out)) (o_fns out))
    by (apply Forall_forall; trivial).
  pose proof (Forall2_Forall_r _ _ _ _ (vflat_never_stuck V I p out H Hacc) HIn) as HF.
  eapply Forall2_impl; [|exact HF]. cbv beta.
  intros f root [Hs Hin] args n Hlen.
  pose proof (Hs args n) as H0.
  pose proof (vflat_never_bad_label V I p out H root Hin args n) as H1.
  pose proof (vflat_never_falls_off V I p out H Hacc root Hin args n) as H2.
  destruct (snd (vflat_exec V I (b_ctx root) args n)); try reflexivity.
  - congruence.
  - exfalso. eapply H1. reflexivity.
  - exfalso. eapply H0; [exact Hlen | reflexivity].
Qed.

Theorem chk_C05_gen_strict_on_model :
  forall (V : Type) (mk : N -> interp V) (args : nat -> list V),
    (forall salt v, i_eqb (mk salt) v v = true) -> (forall n, length (args n) = n) ->
    forall salts nflat nsrc p out,
      run p = ROk out -> o_errors out = [] ->
      chk_C05_gen_strict V mk args salts nflat nsrc p out = true.
Proof.
  intros V mk args Heq Hlen salts nflat nsrc p out H Hacc. unfold chk_C05_gen_strict. rewrite Hacc.
  apply (proj2 (forallb2_Forall2 _ (fun f root => chk_C05_gen_strict_fn V mk args salts nflat nsrc f root = true) _ _
                  (fun a b => iff_refl _))).
  pose proof (Forall2_all _ 0%N _ _
                (fun salt => value_simulation V (mk salt) p out (Heq salt) H Hacc)) as HA.
  pose proof (Forall2_all _ 0%N _ _
                (fun salt => vflat_always_ok V (mk salt) p out H Hacc)) as HO.
  eapply Forall2_impl; [|exact (Forall2_and _ _ _ _ HA HO)]. cbv beta.
  intros f root [Hag Hok]. unfold chk_C05_gen_strict_fn. apply forallb_forall. intros salt _.
  unfold chk_C05_gen_strict_salt. cbv zeta.
  set (a := args (length (fn_params f))).
  assert (Ha : length a = length (fn_params f)) by apply Hlen.
  destruct (Hag salt a nflat nsrc Ha) as [Hv Ho]. rewrite Hv, Ho, (Hok salt a nflat Ha). reflexivity.
Qed.

Theorem chk_C05hs_on_model : forall salts nflat nsrc p out,
  run p = ROk out -> o_errors out = [] -> chk_C05hs salts nflat nsrc p out = true.
Proof.
  intros. apply chk_C05_gen_strict_on_model; try assumption.
  - intros salt v. apply N.eqb_refl.
  - apply hash_args_length.
Qed.

Theorem chk_C05_free_strict_on_model : forall salts nflat nsrc p out,
  run p = ROk out -> o_errors out = [] -> chk_C05_free_strict salts nflat nsrc p out = true.
Proof.
  intros. apply chk_C05_gen_strict_on_model; try assumption.
  - intros salt v. apply term_eqb_refl.
  - apply free_args_length.
Qed.

Print Assumptions vflat_always_ok.
Print Assumptions chk_C05_gen_strict_on_model.
Print Assumptions chk_C05hs_on_model.
