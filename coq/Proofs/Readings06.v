(** The token comparison of the monitor of C06 decides exactly the reading of
    [Spec/Readings06.v], at the level of one use site.

    - both token lists are the concatenation of the tokens of the items of the flat sequences
      ([tk_items], [etk_items]);
    - token classes ([cls]): equal tokens have the same class; a leaf starts with a token of
      the leaf-start classes, an operator is of its own class, and what follows an expression
      in a token list (nothing, a call separator, a closing bracket, a comparison or logic
      operator) is of the class [stop]: this makes the parse of a token list unique;
    - [items_match]: two item sequences followed by [stop] tokens have equal token lists iff
      they are related item by item (and the continuations are equal);
    - [leaf_match], by induction on the denotation tree: the same for one leaf against one
      value, with arbitrary continuations (leaves delimit themselves);
    - [toks_eqb_Denotes]: the main equivalence; [toks_eqb_DenotesCond], [site_eqb_reading]. *)
From Coq Require Import Lia.
From SA Require Import Model.
From SA.Spec Require Import Stack Tables Readings06.
From SA.Mon Require Import C06.
From SA.Proofs Require Import DenoteEnv.
From SA.Proofs Require CodecRT.
Local Open Scope list_scope.

(** ** Equalities on leaves and operators *)
Lemma pv_eqb_eq a b : pv_eqb a b = true <-> a = b.
Proof. exact (prim_val_eqb_eq a b). Qed.

Lemma bop_eqb_eq a b : bop_eqb a b = true <-> a = b.
Proof. destruct a, b; vm_compute; split; intro H; try reflexivity; discriminate H. Qed.

Lemma cop_eqb_eq a b : cop_eqb a b = true <-> a = b.
Proof. destruct a, b; vm_compute; split; intro H; try reflexivity; discriminate H. Qed.

Lemma lop_eqb_eq a b : lop_eqb a b = true <-> a = b.
Proof. destruct a, b; vm_compute; split; intro H; try reflexivity; discriminate H. Qed.

(** ** Token classes *)
Inductive tclass := CStart | COp | CStop | CCallClose | COpen | CBad.

Definition cls (t : tok) : tclass :=
  match t with
  | KLit _ | KVar _ _ | KConst _ | KField _ _ _ | KCallOpen _ | KExt _ => CStart
  | KOp _ => COp
  | KCallSep | KClose | KCmp _ | KLogic _ => CStop
  | KCallClose => CCallClose
  | KOpen => COpen
  | KBad => CBad
  end.

Lemma tok_eqb_cls sm t u : tok_eqb sm t u = true -> cls t = cls u /\ cls t <> CBad.
Proof. destruct t, u; cbn; intro H; try discriminate H; split; try reflexivity; discriminate. Qed.

(** what may follow an expression in a token list *)
Definition stop (l : list tok) : Prop :=
  match l with [] => True | t :: _ => cls t = CStop end.

(** a token list that starts with a token of class [c] *)
Definition starts (P : tclass -> Prop) (l : list tok) : Prop :=
  match l with [] => False | t :: _ => P (cls t) end.

Lemma toks_eqb_cons sm x a y b : toks_eqb sm (x :: a) (y :: b) = (tok_eqb sm x y && toks_eqb sm a b)%bool.
Proof. reflexivity. Qed.

(** lists whose first tokens are of different classes are different *)
Lemma toks_eqb_heads sm (P Q : tclass -> Prop) a b :
  starts P a -> (match b with [] => True | u :: _ => Q (cls u) end) ->
  (forall c, P c -> Q c -> c = CBad) -> toks_eqb sm a b = false.
Proof.
  intros Ha Hb HPQ. destruct a as [|t a]; [contradiction|]. destruct b as [|u b]; [reflexivity|].
  cbn [starts] in Ha. rewrite toks_eqb_cons. destruct (tok_eqb sm t u) eqn:E; [|reflexivity].
  apply tok_eqb_cls in E as [E1 E2]. exfalso. apply E2. apply HPQ; [exact Ha | rewrite E1; exact Hb].
Qed.

Lemma toks_eqb_heads' sm (P Q : tclass -> Prop) a b :
  (match a with [] => True | u :: _ => P (cls u) end) -> starts Q b ->
  (forall c, P c -> Q c -> c = CBad) -> toks_eqb sm a b = false.
Proof.
  intros Ha Hb HPQ. destruct b as [|u b]; [contradiction|]. destruct a as [|t a]; [reflexivity|].
  cbn [starts] in Hb. rewrite toks_eqb_cons. destruct (tok_eqb sm t u) eqn:E; [|reflexivity].
  apply tok_eqb_cls in E as [E1 E2]. exfalso. apply E2. apply HPQ; [exact Ha | rewrite E1; exact Hb].
Qed.

Lemma starts_app P a b : starts P a -> starts P (a ++ b).
Proof. destruct a; [contradiction | exact (fun H => H)]. Qed.

Definition vstart (c : tclass) : Prop := c = CStart \/ c = CBad.
Definition dstart (c : tclass) : Prop := c = CStart \/ c = COpen \/ c = CBad.
Definition is_stop (c : tclass) : Prop := c = CStop.
Definition is_op (c : tclass) : Prop := c = COp.
Definition is_close (c : tclass) : Prop := c = CCallClose.

Lemma stop_as l : stop l -> match l with [] => True | u :: _ => is_stop (cls u) end.
Proof. destruct l; exact (fun H => H). Qed.

Definition atomic (d : dt) : Prop := match d with DOp _ _ _ => False | _ => True end.
Definition nonsub (v : expr_val) : Prop := match v with EVSub _ => False | _ => True end.
Definition datomic (it : ditem) : Prop := match it with DLeaf d => atomic d | DOper _ => True end.
Definition enonsub (it : eitem) : Prop := match it with ELeaf v => nonsub v | EOper _ => True end.

Lemma dflat_atomic : forall d, Forall datomic (dflat d).
Proof.
  induction d; cbn [dflat]; try (constructor; [exact I | constructor]).
  apply Forall_app. split; [assumption | constructor; [exact I | assumption]].
Qed.

Lemma eflat_nonsub :
  (forall e, Forall enonsub (eflat e)) /\ (forall v, Forall enonsub (vflat v)).
Proof.
  apply expr_val_ind3; try (intros; cbn [vflat]; constructor; [exact I | constructor]).
  - intros v rest Hv Hrest. cbn [eflat]. apply Forall_app. split; [exact Hv|].
    induction Hrest as [|[o v'] rest Hv' _ IH]; [constructor|]. cbn [flat_map fst snd] in *.
    constructor; [exact I|]. apply Forall_app. split; assumption.
  - intros e He. exact He.
Qed.

Section Match.
  Variable sm : bool.
  Variable D : list (string * sem_ty).
  Variable NM : list string.
  Variable sc : scope.

  Notation tk := (tk D NM).
  Notation vtk := (vtk D sc).
  Notation etk := (etk D sc).
  Notation Denotes := (Denotes sm D NM sc).
  Notation DenItem := (DenItem sm D NM sc).
  Notation DenLeaf := (DenLeaf sm D NM sc).

  (** ** Token lists as concatenations over the flat sequences *)
  Definition ditem_tk (it : ditem) : list tok :=
    match it with DLeaf d => tk d | DOper o => [KOp o] end.
  Definition tk_items (L : list ditem) : list tok := flat_map ditem_tk L.
  Definition eitem_tk (it : eitem) : list tok :=
    match it with ELeaf v => vtk v | EOper o => [KOp o] end.
  Definition etk_items (L : list eitem) : list tok := flat_map eitem_tk L.

  Lemma tk_dflat : forall d, tk d = tk_items (dflat d).
  Proof.
    induction d; cbn [dflat]; try (unfold tk_items; cbn [flat_map ditem_tk]; rewrite app_nil_r; reflexivity).
    rewrite tk_op. unfold tk_items. rewrite flat_map_app. cbn [flat_map ditem_tk app].
    fold (tk_items (dflat d1)). fold (tk_items (dflat d2)). rewrite <- IHd1, <- IHd2. reflexivity.
  Qed.

  Lemma etk_eflat :
    (forall e, etk e = etk_items (eflat e)) /\ (forall v, vtk v = etk_items (vflat v)).
  Proof.
    apply expr_val_ind3;
      try (intros; unfold etk_items; cbn [vflat flat_map eitem_tk]; rewrite app_nil_r; reflexivity).
    - intros v rest Hv Hrest. rewrite etk_flat. cbn [eflat]. unfold etk_items. rewrite flat_map_app.
      fold (etk_items (vflat v)). rewrite <- Hv. f_equal.
      induction Hrest as [|[o v'] rest Hv' _ IH]; [reflexivity|]. cbn [snd] in Hv'.
      cbn [links_toks flat_map fst snd app eitem_tk]. f_equal. rewrite flat_map_app.
      fold (etk_items (vflat v')). rewrite <- Hv'. f_equal. exact IH.
    - intros e He. rewrite vtk_sub. exact He.
  Qed.

  (** ** First tokens *)
  Lemma name_tok_cls x : cls (name_tok sc x) = CStart.
  Proof. unfold name_tok. destruct (sc_find (iname x) sc); reflexivity. Qed.

  Lemma field_tok_cls x a : vstart (cls (field_tok D sc x a)).
  Proof.
    unfold field_tok, vstart. destruct (sc_find (iname x) sc) as [k|]; [|right; reflexivity].
    destruct (nthN D k) as [[n [p|sn attrs|t' m]]|]; try (right; reflexivity).
    destruct (attr_lookup (iname a) attrs) as [[idx t]|]; [left | right]; reflexivity.
  Qed.

  Lemma var_tok_cls inner : vstart (cls (var_tok D NM inner)).
  Proof.
    unfold var_tok, vstart. destruct (decl_index inner D 0) as [k|]; [|right; reflexivity].
    destruct (nthN NM k); [left | right]; reflexivity.
  Qed.

  Lemma dfield_tok_cls inner idx : vstart (cls (dfield_tok D NM inner idx)).
  Proof.
    unfold dfield_tok, vstart. destruct (decl_index inner D 0) as [k|]; [|right; reflexivity].
    destruct (nthN NM k); [left | right]; reflexivity.
  Qed.

  Lemma vtk_starts v : nonsub v -> starts vstart (vtk v).
  Proof.
    destruct v; intro H; try contradiction; try (left; reflexivity).
    - cbn. left. apply name_tok_cls.
    - cbn. apply field_tok_cls.
  Qed.

  Lemma etk_starts : (forall e, starts vstart (etk e)) /\ (forall v, starts vstart (vtk v)).
  Proof.
    apply expr_val_ind3; try (intros; apply vtk_starts; exact I).
    - intros v rest Hv _. rewrite etk_flat. apply starts_app, Hv.
    - intros e He. rewrite vtk_sub. exact He.
  Qed.

  Lemma vstart_dstart c : vstart c -> dstart c.
  Proof. intros [H|H]; [left | right; right]; exact H. Qed.

  Lemma tk_starts : forall d, starts dstart (tk d).
  Proof.
    induction d.
    - left; reflexivity.
    - cbn. apply vstart_dstart, var_tok_cls.
    - left; reflexivity.
    - cbn. apply vstart_dstart, dfield_tok_cls.
    - rewrite tk_call. left; reflexivity.
    - left; reflexivity.
    - rewrite tk_op. apply starts_app, IHd1.
    - rewrite tk_cmp. right; left; reflexivity.
    - rewrite tk_logic. right; left; reflexivity.
    - right; right; reflexivity.
  Qed.

  (** ** Sequences of items *)
  Definition LeafP (d : dt) : Prop :=
    forall v A B, nonsub v ->
      (toks_eqb sm (tk d ++ A) (vtk v ++ B) = true <-> DenLeaf d v /\ toks_eqb sm A B = true).
  Definition ItemP (it : ditem) : Prop := match it with DLeaf d => LeafP d | DOper _ => True end.

  Definition estart (c : tclass) : Prop := vstart c \/ c = COp.
  Definition dstart' (c : tclass) : Prop := dstart c \/ c = COp.

  Lemma eitem_starts it X : enonsub it -> starts estart (eitem_tk it ++ X).
  Proof.
    destruct it as [v|o]; intro H; cbn [eitem_tk].
    - apply starts_app. pose proof (vtk_starts v H) as Hs. destruct (vtk v); [contradiction|]. left. exact Hs.
    - right. reflexivity.
  Qed.

  Lemma ditem_starts it X : starts dstart' (ditem_tk it ++ X).
  Proof.
    destruct it as [d|o]; cbn [ditem_tk].
    - apply starts_app. pose proof (tk_starts d) as Hs. destruct (tk d); [contradiction|]. left. exact Hs.
    - right. reflexivity.
  Qed.

  Lemma Denotes_iff d e : Denotes d e <-> Forall2 DenItem (dflat d) (eflat e).
  Proof. split; [intro H; inversion H; assumption | apply Den_sequence]. Qed.

  Lemma items_match : forall L1, Forall datomic L1 -> Forall ItemP L1 ->
    forall L2 A B, Forall enonsub L2 -> stop A -> stop B ->
      (toks_eqb sm (tk_items L1 ++ A) (etk_items L2 ++ B) = true <->
       Forall2 DenItem L1 L2 /\ toks_eqb sm A B = true).
  Proof.
    induction L1 as [|it1 L1 IH]; intros Hat HP L2 A B Hns HA HB.
    - cbn [tk_items flat_map app]. destruct L2 as [|it2 L2].
      + cbn [etk_items flat_map app]. split; [intro H; split; [constructor | exact H] | intros [_ H]; exact H].
      + split; [|intros [H _]; inversion H]. intro H. exfalso.
        inversion Hns as [|? ? Hn2 _]; subst.
        unfold etk_items in H. cbn [flat_map] in H. rewrite <- app_assoc in H.
        rewrite (toks_eqb_heads' sm is_stop estart) in H;
          [discriminate H | apply stop_as, HA | apply eitem_starts, Hn2|].
        unfold is_stop, estart, vstart. intros c -> [[H1|H1]|H1]; discriminate H1.
    - inversion Hat as [|? ? Hat1 Hat']; subst. inversion HP as [|? ? HP1 HP']; subst.
      unfold tk_items. cbn [flat_map]. rewrite <- app_assoc. fold (tk_items L1).
      destruct L2 as [|it2 L2].
      + split; [|intros [H _]; inversion H]. intro H. exfalso. cbn [etk_items flat_map app] in H.
        rewrite (toks_eqb_heads sm dstart' is_stop) in H;
          [discriminate H | apply ditem_starts | apply stop_as, HB|].
        unfold is_stop, dstart', dstart. intros c [[H1|[H1|H1]]|H1] H2; congruence.
      + inversion Hns as [|? ? Hn2 Hns']; subst.
        unfold etk_items. cbn [flat_map]. rewrite <- app_assoc. fold (etk_items L2).
        destruct it1 as [d|o], it2 as [v|o'].
        * (* leaf, leaf *)
          cbn [ditem_tk eitem_tk]. rewrite (HP1 v _ _ Hn2), (IH Hat' HP' L2 A B Hns' HA HB). split.
          -- intros [H1 [H2 H3]]. split; [constructor; [apply DI_leaf, H1 | exact H2] | exact H3].
          -- intros [H1 H2]. inversion H1 as [|? ? ? ? Hi Hr]; subst. inversion Hi; subst.
             repeat split; assumption.
        * (* leaf, operator *)
          split; [|intros [H _]; inversion H as [|? ? ? ? Hi _]; inversion Hi]. intro H. exfalso.
          cbn [ditem_tk eitem_tk app] in H.
          rewrite (toks_eqb_heads sm dstart is_op) in H; [discriminate H | | reflexivity |].
          -- apply starts_app, tk_starts.
          -- unfold is_op, dstart. intros c [H1|[H1|H1]] H2; congruence.
        * (* operator, leaf *)
          split; [|intros [H _]; inversion H as [|? ? ? ? Hi _]; inversion Hi]. intro H. exfalso.
          cbn [ditem_tk eitem_tk app] in H.
          rewrite (toks_eqb_heads' sm is_op vstart) in H; [discriminate H | reflexivity | |].
          -- apply starts_app, vtk_starts, Hn2.
          -- unfold is_op, vstart. intros c H1 [H2|H2]; congruence.
        * (* operator, operator *)
          cbn [ditem_tk eitem_tk app]. rewrite toks_eqb_cons. cbn [tok_eqb].
          rewrite Bool.andb_true_iff, bop_eqb_eq, (IH Hat' HP' L2 A B Hns' HA HB). split.
          -- intros [-> [H2 H3]]. split; [constructor; [apply DI_operator | exact H2] | exact H3].
          -- intros [H1 H2]. inversion H1 as [|? ? ? ? Hi Hr]; subst. inversion Hi; subst.
             repeat split; assumption.
  Qed.

  (** a whole tree against a whole expression, followed by [stop] tokens *)
  Definition TreeP (d : dt) : Prop := Forall ItemP (dflat d).

  Lemma tree_match d e A B :
    TreeP d -> stop A -> stop B ->
    (toks_eqb sm (tk d ++ A) (etk e ++ B) = true <-> Denotes d e /\ toks_eqb sm A B = true).
  Proof.
    intros HP HA HB. rewrite tk_dflat, (proj1 etk_eflat), Denotes_iff.
    apply items_match; [apply dflat_atomic | exact HP | apply eflat_nonsub | exact HA | exact HB].
  Qed.

  (** the arguments of a call *)
  Definition sep (l : list tok) : list tok := l ++ [KCallSep].

  Lemma args_match : forall args, Forall TreeP args ->
    forall es A B,
      toks_eqb sm (flat_map sep (map tk args) ++ KCallClose :: A)
                  (flat_map sep (map etk es) ++ KCallClose :: B) = true <->
      Forall2 Denotes args es /\ toks_eqb sm A B = true.
  Proof.
    induction 1 as [|a args Ha _ IH]; intros es A B.
    - cbn [map flat_map app]. destruct es as [|e es].
      + cbn [map flat_map app]. rewrite toks_eqb_cons. cbn [tok_eqb andb].
        split; [intro H; split; [constructor | exact H] | intros [_ H]; exact H].
      + split; [|intros [H _]; inversion H]. intro H. exfalso. cbn [map flat_map] in H.
        unfold sep at 1 in H. rewrite <- !app_assoc in H.
        rewrite (toks_eqb_heads' sm is_close vstart) in H; [discriminate H | reflexivity | |].
        * apply starts_app, etk_starts.
        * unfold is_close, vstart. intros c H1 [H2|H2]; congruence.
    - cbn [map flat_map]. unfold sep at 1. rewrite <- !app_assoc. cbn [app].
      destruct es as [|e es].
      + split; [|intros [H _]; inversion H]. intro H. exfalso. cbn [map flat_map app] in H.
        rewrite (toks_eqb_heads sm dstart is_close) in H; [discriminate H | | reflexivity |].
        * apply starts_app, tk_starts.
        * unfold is_close, dstart. intros c [H1|[H1|H1]] H2; congruence.
      + cbn [map flat_map]. unfold sep at 2. rewrite <- !app_assoc. cbn [app].
        rewrite (tree_match a e _ _ Ha); [|reflexivity|reflexivity].
        rewrite toks_eqb_cons. cbn [tok_eqb andb]. rewrite IH. split.
        * intros [H1 [H2 H3]]. split; [constructor; assumption | exact H3].
        * intros [H1 H2]. inversion H1; subst. split; [assumption | split; assumption].
  Qed.

  (** ** One leaf against one value *)

  (** single tokens: the comparison of the lists is the comparison of the tokens *)
  Lemma single_match t u d v A B :
    (tok_eqb sm t u = true <-> DenLeaf d v) ->
    (toks_eqb sm ([t] ++ A) ([u] ++ B) = true <-> DenLeaf d v /\ toks_eqb sm A B = true).
  Proof. intro H. cbn [app]. rewrite toks_eqb_cons, Bool.andb_true_iff, H. reflexivity. Qed.

  Lemma name_tok_shape x :
    (exists k, name_tok sc x = KVar k (iname x)) \/ name_tok sc x = KConst (iname x).
  Proof. unfold name_tok. destruct (sc_find (iname x) sc) as [k|]; [left; exists k|right]; reflexivity. Qed.

  Lemma field_tok_shape x a :
    field_tok D sc x a = KBad \/ exists k idx, field_tok D sc x a = KField k (iname x) idx.
  Proof.
    unfold field_tok. destruct (sc_find (iname x) sc) as [k|]; [|left; reflexivity].
    destruct (nthN D k) as [[n [p|sn attrs|t' m]]|]; try (left; reflexivity).
    destruct (attr_lookup (iname a) attrs) as [[idx t]|]; [right; exists k, idx | left]; reflexivity.
  Qed.

  Lemma var_tok_shape inner :
    var_tok D NM inner = KBad \/ exists k x, var_tok D NM inner = KVar k x.
  Proof.
    unfold var_tok. destruct (decl_index inner D 0) as [k|]; [|left; reflexivity].
    destruct (nthN NM k) as [x|]; [right; exists k, x | left]; reflexivity.
  Qed.

  Lemma dfield_tok_shape inner idx :
    dfield_tok D NM inner idx = KBad \/ exists k x, dfield_tok D NM inner idx = KField k x idx.
  Proof.
    unfold dfield_tok. destruct (decl_index inner D 0) as [k|]; [|left; reflexivity].
    destruct (nthN NM k) as [x|]; [right; exists k, x | left]; reflexivity.
  Qed.

  Ltac shapes :=
    repeat match goal with
           | |- context [name_tok sc ?x] =>
               let H := fresh in destruct (name_tok_shape x) as [[? H]|H]; rewrite H; clear H
           | |- context [field_tok D sc ?x ?a] =>
               let H := fresh in destruct (field_tok_shape x a) as [H|[? [? H]]]; rewrite H; clear H
           | |- context [var_tok D NM ?i] =>
               let H := fresh in destruct (var_tok_shape i) as [H|[? [? H]]]; rewrite H; clear H
           | |- context [dfield_tok D NM ?i ?j] =>
               let H := fresh in destruct (dfield_tok_shape i j) as [H|[? [? H]]]; rewrite H; clear H
           end.

  (** tokens of different kinds: never equal, and no rule relates the leaves *)
  Ltac mismatch :=
    let H := fresh "H" in
    split; [shapes; cbn [tok_eqb]; intro H; discriminate H | intro H; inversion H].

  (** the positive pairs *)
  Lemma lit_prim p q : tok_eqb sm (KLit p) (KLit q) = true <-> DenLeaf (DLit p) (EVPrim q).
  Proof.
    cbn [tok_eqb]. rewrite pv_eqb_eq. split; [intros ->; constructor | intro H; inversion H; reflexivity].
  Qed.

  Lemma ext_ext tag t tag' : tok_eqb sm (KExt tag) (KExt tag') = true <-> DenLeaf (DExt tag) (EVExt t tag').
  Proof.
    cbn [tok_eqb]. rewrite N.eqb_eq. split; [intros ->; constructor | intro H; inversion H; reflexivity].
  Qed.

  Lemma read_name inner x :
    tok_eqb sm (var_tok D NM inner) (name_tok sc x) = true <-> DenLeaf (DRead inner) (EVName x).
  Proof.
    unfold var_tok, name_tok.
    destruct (decl_index inner D 0) as [k|] eqn:Ek.
    2:{ split; [discriminate|]. intro H. inversion H as [| ? k0 ? [H1 _] _ | | | |]; subst. congruence. }
    destruct (nthN NM k) as [x'|] eqn:En.
    2:{ split; [discriminate|]. intro H. inversion H as [| ? k0 ? [H1 H2] _ | | | |]; subst.
        rewrite Ek in H1. inversion H1; subst k0. congruence. }
    destruct (sc_find (iname x) sc) as [k'|] eqn:Es; cbn [tok_eqb].
    - rewrite Bool.andb_true_iff, String.eqb_eq. split.
      + intros [Hx Hk]. subst x'. apply (DL_read sm D NM sc inner k x); [split; assumption|].
        intros ->. cbn in Hk. apply N.eqb_eq in Hk. subst k'. exact Es.
      + intro H. inversion H as [| ? k0 ? [H1 H2] H3 | | | |]; subst.
        rewrite Ek in H1. inversion H1; subst k0. rewrite En in H2. inversion H2; subst x'.
        split; [reflexivity|]. destruct sm; [|reflexivity]. specialize (H3 eq_refl).
        rewrite Es in H3. inversion H3; subst. cbn. apply N.eqb_refl.
    - rewrite Bool.andb_true_iff, String.eqb_eq, Bool.negb_true_iff. split.
      + intros [Hsm Hx]. subst x'. apply (DL_read sm D NM sc inner k x); [split; assumption|].
        intro Hs. congruence.
      + intro H. inversion H as [| ? k0 ? [H1 H2] H3 | | | |]; subst.
        rewrite Ek in H1. inversion H1; subst k0. rewrite En in H2. inversion H2; subst x'.
        split; [|reflexivity]. destruct sm; [|reflexivity]. specialize (H3 eq_refl). rewrite Es in H3. discriminate H3.
  Qed.

  Lemma const_name c x :
    tok_eqb sm (KConst c) (name_tok sc x) = true <-> DenLeaf (DConst c) (EVName x).
  Proof.
    unfold name_tok. destruct (sc_find (iname x) sc) as [k'|] eqn:Es; cbn [tok_eqb].
    - rewrite Bool.andb_true_iff, String.eqb_eq, Bool.negb_true_iff. split.
      + intros [Hsm ->]. apply DL_constant. intro Hs. congruence.
      + intro H. inversion H as [| | ? H3 | | |]; subst. split; [|reflexivity].
        destruct sm; [|reflexivity]. specialize (H3 eq_refl). rewrite Es in H3. discriminate H3.
    - rewrite String.eqb_eq. split.
      + intros ->. apply DL_constant. intros _. exact Es.
      + intro H. inversion H; subst. reflexivity.
  Qed.

  Lemma field_field inner idx x a :
    tok_eqb sm (dfield_tok D NM inner idx) (field_tok D sc x a) = true <->
    DenLeaf (DField inner idx) (EVField x a).
  Proof.
    unfold dfield_tok, field_tok. split.
    - destruct (decl_index inner D 0) as [k|] eqn:Ek; [|discriminate].
      destruct (nthN NM k) as [x'|] eqn:En; [|discriminate].
      destruct (sc_find (iname x) sc) as [k'|] eqn:Es; [|discriminate].
      destruct (nthN D k') as [[dn [p|sn attrs|t' m]]|] eqn:Ed; try discriminate.
      destruct (attr_lookup (iname a) attrs) as [[idx' t]|] eqn:Ea; [|discriminate].
      cbn [tok_eqb]. intro H. apply Bool.andb_true_iff in H as [H Hk].
      apply Bool.andb_true_iff in H as [Hx Hi]. apply String.eqb_eq in Hx. apply N.eqb_eq in Hi.
      subst x' idx'. eapply (DL_field sm D NM sc inner idx k x a k'); try eassumption.
      + split; assumption.
      + intros ->. cbn in Hk. apply N.eqb_eq in Hk. exact Hk.
    - intro H. inversion H as [| | | ? ? k ? ? k' dn sn attrs t [H1 H2] H3 H4 H5 H6 | |]; subst.
      rewrite H1, H2, H3, H4, H5. cbn [tok_eqb]. rewrite String.eqb_refl, N.eqb_refl. cbn [andb].
      destruct sm; [|reflexivity]. rewrite (H6 eq_refl). cbn. apply N.eqb_refl.
  Qed.

  Lemma LeafP_lit p : LeafP (DLit p).
  Proof.
    intros v A B Hv. change (tk (DLit p)) with [KLit p].
    destruct v; try contradiction; try (apply single_match).
    - mismatch.
    - apply lit_prim.
    - rewrite vtk_call. unfold call_toks. cbn [app]. rewrite toks_eqb_cons. cbn [tok_eqb andb].
      split; [discriminate | intros [H _]; inversion H].
    - mismatch.
    - mismatch.
  Qed.

  (** a single token against the tokens of a call *)
  Ltac vs_call :=
    rewrite vtk_call; unfold call_toks; cbn [app]; rewrite toks_eqb_cons;
    let H := fresh "H" in
    split; [shapes; cbn [tok_eqb andb]; intro H; discriminate H | intros [H _]; inversion H].

  Lemma LeafP_read inner : LeafP (DRead inner).
  Proof.
    intros v A B Hv. change (tk (DRead inner)) with [var_tok D NM inner].
    destruct v; try contradiction; try (apply single_match).
    - apply read_name.
    - mismatch.
    - vs_call.
    - mismatch.
    - mismatch.
  Qed.

  Lemma LeafP_const c : LeafP (DConst c).
  Proof.
    intros v A B Hv. change (tk (DConst c)) with [KConst c].
    destruct v; try contradiction; try (apply single_match).
    - apply const_name.
    - mismatch.
    - vs_call.
    - mismatch.
    - mismatch.
  Qed.

  Lemma LeafP_field inner idx : LeafP (DField inner idx).
  Proof.
    intros v A B Hv. change (tk (DField inner idx)) with [dfield_tok D NM inner idx].
    destruct v; try contradiction; try (apply single_match).
    - mismatch.
    - mismatch.
    - vs_call.
    - apply field_field.
    - mismatch.
  Qed.

  Lemma LeafP_ext tag : LeafP (DExt tag).
  Proof.
    intros v A B Hv. change (tk (DExt tag)) with [KExt tag].
    destruct v; try contradiction; try (apply single_match).
    - mismatch.
    - mismatch.
    - vs_call.
    - mismatch.
    - apply ext_ext.
  Qed.

  (** trees that are not values: their first token is a bracket or [KBad] *)
  Lemma LeafP_never d :
    starts (fun c => c = COpen \/ c = CBad) (tk d) -> (forall v, ~ DenLeaf d v) -> LeafP d.
  Proof.
    intros Hs Hno v A B Hv. split; [|intros [H _]; destruct (Hno v H)]. intro H. exfalso.
    rewrite (toks_eqb_heads sm (fun c => c = COpen \/ c = CBad) vstart) in H; [discriminate H | | |].
    - apply starts_app, Hs.
    - pose proof (vtk_starts v Hv) as Hv'. destruct (vtk v); [contradiction | exact Hv'].
    - unfold vstart. intros c [H1|H1] [H2|H2]; congruence.
  Qed.

  Lemma LeafP_call f args : Forall TreeP args -> LeafP (DCall f args).
  Proof.
    intros Hargs v A B Hv. rewrite tk_call. unfold call_toks. cbn [app]. rewrite <- app_assoc. cbn [app].
    destruct v; try contradiction.
    - change (vtk (EVName x)) with [name_tok sc x]. cbn [app]. rewrite toks_eqb_cons.
      split; [shapes; cbn [tok_eqb andb]; intro H; discriminate H | intros [H _]; inversion H].
    - change (vtk (EVPrim p)) with [KLit p]. cbn [app]. rewrite toks_eqb_cons.
      split; [cbn [tok_eqb andb]; intro H; discriminate H | intros [H _]; inversion H].
    - rewrite vtk_call. unfold call_toks. cbn [app]. rewrite <- app_assoc. cbn [app].
      rewrite toks_eqb_cons. cbn [tok_eqb]. rewrite Bool.andb_true_iff, String.eqb_eq.
      fold sep. rewrite (args_match args Hargs). split.
      + intros [-> [H1 H2]]. split; [apply DL_call, H1 | exact H2].
      + intros [H1 H2]. inversion H1; subst. repeat split; assumption.
    - change (vtk (EVField x a)) with [field_tok D sc x a]. cbn [app]. rewrite toks_eqb_cons.
      split; [shapes; cbn [tok_eqb andb]; intro H; discriminate H | intros [H _]; inversion H].
    - change (vtk (EVExt t tag)) with [KExt tag]. cbn [app]. rewrite toks_eqb_cons.
      split; [cbn [tok_eqb andb]; intro H; discriminate H | intros [H _]; inversion H].
  Qed.

  Lemma TreeP_all : forall d, TreeP d.
  Proof.
    unfold TreeP.
    induction d as [p|n|n|n i|f args IH|tg|o l r IHl IHr|c l r _ _|o l r _ _|n] using dt_ind';
      cbn [dflat]; try (constructor; [|constructor]); cbn [ItemP].
    - apply LeafP_lit.
    - apply LeafP_read.
    - apply LeafP_const.
    - apply LeafP_field.
    - apply LeafP_call, IH.
    - apply LeafP_ext.
    - apply Forall_app. split; [exact IHl | constructor; [exact I | exact IHr]].
    - apply LeafP_never; [rewrite tk_cmp; left; reflexivity | intros v H; inversion H].
    - apply LeafP_never; [rewrite tk_logic; left; reflexivity | intros v H; inversion H].
    - apply LeafP_never; [right; reflexivity | intros v H; inversion H].
  Qed.

  (** ** One use site: the token comparison decides [Denotes] *)
  Theorem toks_eqb_Denotes d e : toks_eqb sm (tk d) (etoks D sc e) = true <-> Denotes d e.
  Proof.
    change (etoks D sc e) with (etk e).
    pose proof (tree_match d e [] [] (TreeP_all d) I I) as H. rewrite !app_nil_r in H.
    rewrite H. cbn [toks_eqb]. tauto.
  Qed.

  (** ... in any context that continues with a token no expression continues with *)
  Theorem toks_eqb_Denotes_in d e A B :
    stop A -> stop B ->
    (toks_eqb sm (tk d ++ A) (etk e ++ B) = true <-> Denotes d e /\ toks_eqb sm A B = true).
  Proof. apply tree_match, TreeP_all. Qed.

  (** ** Conditions *)
  Notation DenotesCond := (DenotesCond sm D NM sc).
  Definition lct (c : lcond) : list tok := lcond_toks D sc c [].

  Lemma lct_last l cmp r : lct (LC l cmp r None) = KOpen :: etk l ++ KCmp cmp :: etk r ++ [KClose].
  Proof. unfold lct. cbn [lcond_toks]. rewrite !(proj1 (toks_acc D sc)). reflexivity. Qed.

  Lemma lct_link l cmp r o c :
    lct (LC l cmp r (Some (o, c))) = KOpen :: lct (LC l cmp r None) ++ KLogic o :: lct c ++ [KClose].
  Proof.
    rewrite lct_last. unfold lct. cbn [lcond_toks]. rewrite !(proj1 (toks_acc D sc)), lcond_toks_acc.
    cbn [app]. rewrite <- !app_assoc. cbn [app]. rewrite <- !app_assoc. reflexivity.
  Qed.

  Lemma dflat_head : forall d,
    exists d0 rest, dflat d = DLeaf d0 :: rest /\ atomic d0 /\
                    (atomic d -> rest = [] /\ d0 = d) /\ (~ atomic d -> rest <> []).
  Proof.
    induction d; try (eexists; exists []; cbn [dflat atomic];
                      split; [reflexivity | split; [exact I | split; [split; reflexivity | intro H; destruct (H I)]]]).
    destruct IHd1 as (d0 & rest & E & Ha & _). exists d0, (rest ++ DOper o :: dflat d2).
    cbn [dflat]. rewrite E. split; [reflexivity|]. split; [exact Ha|]. split; [intros []|].
    intros _ H. destruct rest; discriminate H.
  Qed.

  (** a token list [T] that only a tree of a certain atomic kind can produce *)
  Lemma via_atomic (Q : dt -> Prop) (T : list tok) :
    (forall d0 A B, atomic d0 ->
       (toks_eqb sm (tk d0 ++ A) (T ++ B) = true <-> Q d0 /\ toks_eqb sm A B = true)) ->
    (forall d, Q d -> atomic d) ->
    forall d A B, stop A -> stop B ->
      (toks_eqb sm (tk d ++ A) (T ++ B) = true <-> Q d /\ toks_eqb sm A B = true).
  Proof.
    intros Hat HQ d A B HA HB.
    destruct (dflat_head d) as (d0 & rest & E & Ha0 & H1 & H2).
    destruct d; try (apply Hat; exact I).
    split; [|intros [H _]; destruct (HQ _ H)]. intro H. exfalso.
    specialize (H2 (fun x => x)). rewrite tk_dflat, E in H. unfold tk_items in H.
    cbn [flat_map ditem_tk] in H. rewrite <- app_assoc in H.
    apply (Hat d0 _ B Ha0) in H as [_ H]. destruct rest as [|it rest]; [contradiction|].
    cbn [flat_map] in H. rewrite <- !app_assoc in H.
    rewrite (toks_eqb_heads sm dstart' is_stop) in H; [discriminate H | apply ditem_starts | apply stop_as, HB|].
    unfold is_stop, dstart', dstart. intros c [[H3|[H3|H3]]|H3] H4; congruence.
  Qed.

  (** trees that are values start with a value token *)
  Definition valuelike (d : dt) : Prop :=
    match d with DOp _ _ _ | DCmp _ _ _ | DLogic _ _ _ => False | _ => True end.

  Lemma tk_starts_value d : valuelike d -> starts vstart (tk d).
  Proof.
    destruct d; intro H; try contradiction.
    - left; reflexivity.
    - cbn. apply var_tok_cls.
    - left; reflexivity.
    - cbn. apply dfield_tok_cls.
    - rewrite tk_call. left; reflexivity.
    - left; reflexivity.
    - right; reflexivity.
  Qed.

  Lemma value_vs_open d A T :
    valuelike d -> toks_eqb sm (tk d ++ A) (KOpen :: T) = false.
  Proof.
    intro H. apply (toks_eqb_heads sm vstart (fun c => c = COpen)).
    - apply starts_app, tk_starts_value, H.
    - reflexivity.
    - unfold vstart. intros c [H1|H1] H2; congruence.
  Qed.

  (** (1) a single comparison *)
  Definition IsCmp (l : expr) (cmp : cmpop) (r : expr) (d : dt) : Prop :=
    exists dl dr, d = DCmp cmp dl dr /\ Denotes dl l /\ Denotes dr r.

  Lemma cmp_match l cmp r : forall d A B, stop A -> stop B ->
    (toks_eqb sm (tk d ++ A) (lct (LC l cmp r None) ++ B) = true <->
     IsCmp l cmp r d /\ toks_eqb sm A B = true).
  Proof.
    apply via_atomic; [|intros d (dl & dr & -> & _); exact I].
    intros d0 A B Hat. rewrite lct_last. cbn [app].
    destruct d0 as [p|n|n|n i|f args|tg|o a b|c0 dl dr|o a b|n];
      try (split; [rewrite value_vs_open by exact I; discriminate | intros [(dl0 & dr0 & H & _) _]; discriminate H]).
    - destruct Hat.
    - (* DCmp *)
      rewrite tk_cmp. cbn [app]. rewrite toks_eqb_cons. cbn [tok_eqb andb].
      rewrite <- !app_assoc. cbn [app].
      rewrite (toks_eqb_Denotes_in dl l); [|reflexivity|reflexivity].
      rewrite toks_eqb_cons. cbn [tok_eqb]. rewrite Bool.andb_true_iff, cop_eqb_eq.
      rewrite <- !app_assoc. cbn [app].
      rewrite (toks_eqb_Denotes_in dr r); [|reflexivity|reflexivity].
      rewrite toks_eqb_cons. cbn [tok_eqb andb]. split.
      + intros (H1 & -> & H2 & H3).
        split; [exists dl, dr; split; [reflexivity | split; assumption] | exact H3].
      + intros [(dl0 & dr0 & H & H1 & H2) H3]. inversion H; subst.
        split; [assumption | split; [reflexivity | split; assumption]].
    - (* DLogic *)
      split; [|intros [(dl0 & dr0 & H & _) _]; discriminate H]. intro H. exfalso.
      rewrite tk_logic in H. cbn [app] in H. rewrite toks_eqb_cons in H. cbn [tok_eqb andb] in H.
      rewrite <- !app_assoc in H. cbn [app] in H.
      apply (toks_eqb_Denotes_in a l) in H as [_ H]; [|reflexivity|reflexivity].
      rewrite toks_eqb_cons in H. cbn [tok_eqb andb] in H. discriminate H.
  Qed.

  Lemma lcond_ind2 (P : lcond -> Prop) :
    (forall l c r, P (LC l c r None)) ->
    (forall l c r op n, P n -> P (LC l c r (Some (op, n)))) ->
    forall c, P c.
  Proof. intros H1 H2. fix IH 1. intros [l c r [[op n]|]]; [apply H2, IH | apply H1]. Qed.

  Lemma DenotesCond_last d l cmp r : DenotesCond d (LC l cmp r None) <-> IsCmp l cmp r d.
  Proof.
    split.
    - intro H. inversion H; subst. eexists; eexists. split; [reflexivity | split; eassumption].
    - intros (dl & dr & -> & H1 & H2). apply DC_last; assumption.
  Qed.

  (** (2) chains of comparisons *)
  Lemma cond_match : forall c d A B, stop A -> stop B ->
    (toks_eqb sm (tk d ++ A) (lct c ++ B) = true <-> DenotesCond d c /\ toks_eqb sm A B = true).
  Proof.
    induction c as [l cmp r | l cmp r op n IH] using lcond_ind2.
    - intros d A B HA HB. rewrite DenotesCond_last. apply cmp_match; assumption.
    - apply via_atomic; [|intros d H; inversion H; exact I].
      intros d0 A B Hat. rewrite lct_link. cbn [app].
      destruct d0 as [p|n0|n0|n0 i|f args|tg|o a b|c0 dl dr|o a b|n0];
        try (split; [rewrite value_vs_open by exact I; discriminate | intros [H _]; inversion H]).
      + destruct Hat.
      + (* DCmp: its left side would have to be the whole first comparison *)
        split; [|intros [H _]; inversion H]. intro H. exfalso.
        rewrite tk_cmp in H. cbn [app] in H. rewrite toks_eqb_cons in H. cbn [tok_eqb andb] in H.
        rewrite <- !app_assoc in H. cbn [app] in H.
        apply (cmp_match l cmp r dl) in H as [_ H]; [|reflexivity|reflexivity].
        rewrite toks_eqb_cons in H. cbn [tok_eqb andb] in H. discriminate H.
      + (* DLogic *)
        rewrite tk_logic. cbn [app]. rewrite toks_eqb_cons. cbn [tok_eqb andb].
        rewrite <- !app_assoc. cbn [app].
        rewrite (cmp_match l cmp r a); [|reflexivity|reflexivity].
        rewrite toks_eqb_cons. cbn [tok_eqb]. rewrite Bool.andb_true_iff, lop_eqb_eq.
        rewrite <- !app_assoc. cbn [app].
        rewrite (IH b); [|reflexivity|reflexivity].
        rewrite toks_eqb_cons. cbn [tok_eqb andb]. split.
        * intros ((dl & dr & -> & H1 & H2) & -> & H3 & H4). split; [apply DC_link; assumption | exact H4].
        * intros [H H4]. inversion H; subst.
          split; [exists dl, dr; split; [reflexivity | split; assumption]|].
          split; [reflexivity | split; assumption].
  Qed.

  Theorem toks_eqb_DenotesCond d c :
    toks_eqb sm (tk d) (lcond_toks D sc c []) = true <-> DenotesCond d c.
  Proof.
    pose proof (cond_match c d [] [] I I) as H. rewrite !app_nil_r in H. unfold lct in H.
    rewrite H. cbn [toks_eqb]. tauto.
  Qed.
End Match.

(** ** Use sites *)

(** the tokens the monitor computes for a use site of the source *)
Definition tokenise (D : list (string * sem_ty)) (s : ssite) : esite :=
  match s with
  | SLetSite x k sc e => ELet x k (etoks D sc e)
  | SAssignSite x sc e => EAssign x (sc_find x sc) (etoks D sc e)
  | SRetSite sc e => ERet (etoks D sc e)
  | SCondSite sc e => ECondSingle (etoks D sc e)
  | SLogicSite sc c => ECondLogic (lcond_toks D sc c [])
  | SCallSite f sc args => ECall f (map (etoks D sc) args)
  end.

Section SiteMatch.
  Variable sm : bool.
  Variable D : list (string * sem_ty).
  Variable NM : list string.

  Lemma tokss_eqb_Denotes sc : forall ds es,
    tokss_eqb sm (map (fun a => dt_toks D NM a []) ds) (map (etoks D sc) es) = true <->
    Forall2 (Denotes sm D NM sc) ds es.
  Proof.
    induction ds as [|d ds IH]; intros [|e es]; cbn [map tokss_eqb].
    - split; [constructor | reflexivity].
    - split; [discriminate | intro H; inversion H].
    - split; [discriminate | intro H; inversion H].
    - rewrite Bool.andb_true_iff, IH. fold (tk D NM d). rewrite toks_eqb_Denotes. split.
      + intros [H1 H2]. constructor; assumption.
      + intro H. inversion H; subst. split; assumption.
  Qed.

  Lemma opt_str_eqb_eq o x : opt_str_eqb o x = true <-> o = Some x.
  Proof.
    destruct o as [y|]; cbn; [rewrite String.eqb_eq|]; split; intro H; try discriminate H.
    - subst; reflexivity.
    - inversion H; reflexivity.
  Qed.

  Lemma opt_N_eqb_eq o x : opt_N_eqb o x = true <-> o = Some x.
  Proof.
    destruct o as [y|]; cbn; [rewrite N.eqb_eq|]; split; intro H; try discriminate H.
    - subst; reflexivity.
    - inversion H; reflexivity.
  Qed.

  Lemma scoped_iff (b : bool) (P : Prop) : (b = true <-> P) -> ((negb sm || b)%bool = true <-> (sm = true -> P)).
  Proof.
    intro H. destruct sm; cbn.
    - rewrite H. split; [intros HP _; exact HP | intro HP; apply HP; reflexivity].
    - split; [intros _ H0; discriminate H0 | reflexivity].
  Qed.

  Theorem site_eqb_reading u s :
    site_eqb sm D NM u (tokenise D s) = true <-> SiteDenotes sm D NM u s.
  Proof.
    destruct u as [inner d|inner d|d|d|d|f ds], s as [x k sc e|x sc e|sc e|sc e|sc c|g sc es];
      cbn [tokenise site_eqb]; try (split; [discriminate | intro H; inversion H]).
    - (* let *)
      unfold tree_is. fold (tk D NM d). rewrite Bool.andb_true_iff, toks_eqb_Denotes.
      destruct (decl_index inner D 0) as [k'|] eqn:Ek.
      + rewrite Bool.andb_true_iff, opt_str_eqb_eq, (scoped_iff _ _ (N.eqb_eq k k')). split.
        * intros [[H1 H2] H3]. apply (SD_let sm D NM inner d x k sc e k'); [split; assumption | exact H2 | exact H3].
        * intro H. inversion H as [? ? ? ? ? ? k0 [H1 H2] H3 H4| | | | |]; subst.
          rewrite Ek in H1. inversion H1; subst k0. split; [split; assumption | assumption].
      + split; [intros [H _]; discriminate H|].
        intro H. inversion H as [? ? ? ? ? ? k0 [H1 H2] H3 H4| | | | |]; subst. congruence.
    - (* assignment *)
      unfold tree_is. fold (tk D NM d). rewrite Bool.andb_true_iff, toks_eqb_Denotes.
      destruct (decl_index inner D 0) as [k'|] eqn:Ek.
      + rewrite Bool.andb_true_iff, opt_str_eqb_eq, (scoped_iff _ _ (opt_N_eqb_eq (sc_find x sc) k')). split.
        * intros [[H1 H2] H3]. apply (SD_assign sm D NM inner d x sc e k'); [split; assumption | exact H2 | exact H3].
        * intro H. inversion H as [|? ? ? ? ? k0 [H1 H2] H3 H4| | | |]; subst.
          rewrite Ek in H1. inversion H1; subst k0. split; [split; assumption | assumption].
      + split; [intros [H _]; discriminate H|].
        intro H. inversion H as [|? ? ? ? ? k0 [H1 H2] H3 H4| | | |]; subst. congruence.
    - unfold tree_is. fold (tk D NM d). rewrite toks_eqb_Denotes.
      split; [apply SD_return | intro H; inversion H; assumption].
    - unfold tree_is. fold (tk D NM d). rewrite toks_eqb_Denotes.
      split; [apply SD_condition | intro H; inversion H; assumption].
    - unfold tree_is. fold (tk D NM d). rewrite toks_eqb_DenotesCond.
      split; [apply SD_logic | intro H; inversion H; assumption].
    - rewrite Bool.andb_true_iff, String.eqb_eq, tokss_eqb_Denotes. split.
      + intros [-> H]. apply SD_call, H.
      + intro H. inversion H; subst. split; [reflexivity | assumption].
  Qed.

  Lemma sites_eqb_reading : forall us ss,
    sites_eqb sm D NM us (map (tokenise D) ss) = true <-> Forall2 (SiteDenotes sm D NM) us ss.
  Proof.
    induction us as [|u us IH]; intros [|s ss]; cbn [map sites_eqb].
    - split; [constructor | reflexivity].
    - split; [discriminate | intro H; inversion H].
    - split; [discriminate | intro H; inversion H].
    - rewrite Bool.andb_true_iff, site_eqb_reading, IH. split.
      + intros [H1 H2]. constructor; assumption.
      + intro H. inversion H; subst. split; assumption.
  Qed.
End SiteMatch.

(** ** The source side: the monitor's expected sites are the tokens of [fn_ssites] *)
Lemma calls_expr_val :
  (forall e, calls_expr e = expr_calls e) /\ (forall v, calls_val v = val_calls v).
Proof.
  apply expr_val_ind3.
  - intros v rest Hv Hrest. cbn [calls_expr expr_calls]. rewrite Hv. f_equal.
    induction Hrest as [|[o v'] l Hx _ IH]; [reflexivity|].
    cbn [flat_map snd] in *. rewrite Hx, IH. reflexivity.
  - reflexivity.
  - reflexivity.
  - intros f args Hargs. cbn [calls_val val_calls]. f_equal.
    induction Hargs as [|a l Ha _ IH]; [reflexivity|]. cbn [flat_map]. rewrite Ha, IH. reflexivity.
  - reflexivity.
  - intros e He. exact He.
  - reflexivity.
Qed.

Section SourceSites.
  Variable D : list (string * sem_ty).
  Notation tz := (tokenise D).

  Lemma call_ssites_eq sc e : map tz (call_ssites sc e) = call_sites D sc e.
  Proof.
    unfold call_ssites, call_sites. rewrite (proj1 calls_expr_val), map_map. reflexivity.
  Qed.

  Lemma flat_call_ssites_eq sc args :
    map tz (flat_map (call_ssites sc) args) = flat_map (call_sites D sc) args.
  Proof.
    induction args as [|a args IH]; [reflexivity|]. cbn [flat_map].
    rewrite map_app, call_ssites_eq, IH. reflexivity.
  Qed.

  Lemma lcond_call_ssites_eq sc : forall c, map tz (lcond_call_ssites sc c) = lcond_calls D sc c.
  Proof.
    fix IH 1. intros [l cmp r [[o c']|]]; cbn [lcond_call_ssites lcond_calls];
      rewrite !map_app, !call_ssites_eq; [rewrite IH|]; reflexivity.
  Qed.

  Lemma cond_ssites_eq sc c : map tz (cond_ssites sc c) = cond_sites D sc c.
  Proof.
    destruct c as [e|lc]; cbn [cond_ssites cond_sites]; rewrite map_app;
      [rewrite call_ssites_eq | rewrite lcond_call_ssites_eq]; reflexivity.
  Qed.

  Definition conv3 (r : list ssite * scope * N) : list esite * scope * N :=
    (map tz (fst (fst r)), snd (fst r), snd r).
  Definition conv2 (r : list ssite * N) : list esite * N := (map tz (fst r), snd r).

  Definition goM : list stmt -> scope -> N -> list esite * N :=
    fix go (ss : list stmt) (sc0 : scope) (k0 : N) : list esite * N :=
      match ss with
      | [] => ([], k0)
      | s' :: ss' =>
          let '(a, sc1, k1) := stmt_sites D s' sc0 k0 in
          let '(b, k2) := go ss' sc1 k1 in (a ++ b, k2)
      end.
  Definition goS : list stmt -> scope -> N -> list ssite * N :=
    fix go (ss : list stmt) (sc0 : scope) (k0 : N) : list ssite * N :=
      match ss with
      | [] => ([], k0)
      | s' :: ss' =>
          let '(a, sc1, k1) := stmt_ssites s' sc0 k0 in
          let '(b, k2) := go ss' sc1 k1 in (a ++ b, k2)
      end.

  Lemma go_eq ss :
    Forall (fun s => forall sc k, stmt_sites D s sc k = conv3 (stmt_ssites s sc k)) ss ->
    forall sc k, goM ss sc k = conv2 (goS ss sc k).
  Proof.
    induction 1 as [|s ss Hs _ IH]; intros sc k; [reflexivity|].
    cbn [goM goS]. rewrite Hs. destruct (stmt_ssites s sc k) as [[a sc1] k1]. unfold conv3; cbn [fst snd].
    fold goM. fold goS. rewrite IH. destruct (goS ss sc1 k1) as [b k2]. unfold conv2; cbn [fst snd].
    unfold conv2. cbn [fst snd]. rewrite map_app. reflexivity.
  Qed.

  Lemma stmt_ssites_all :
    (forall s sc k, stmt_sites D s sc k = conv3 (stmt_ssites s sc k)) /\
    (forall i sc k, if_sites D i sc k = conv2 (if_ssites i sc k)) /\
    (forall b sc k, ifbody_sites D b sc k = conv2 (ifbody_ssites b sc k)).
  Proof.
    apply CodecRT.stmt_all_ind'.
    - intros x m ty e sc k. cbn [stmt_sites stmt_ssites]; unfold conv3; cbn [fst snd].
      rewrite map_app, call_ssites_eq. reflexivity.
    - intros x e sc k. cbn [stmt_sites stmt_ssites]; unfold conv3; cbn [fst snd].
      rewrite map_app, call_ssites_eq. reflexivity.
    - intros f args sc k. cbn [stmt_sites stmt_ssites]; unfold conv3; cbn [fst snd].
      rewrite map_app, flat_call_ssites_eq. reflexivity.
    - intros i Hi sc k. cbn [stmt_sites stmt_ssites]. rewrite Hi.
      destruct (if_ssites i sc k) as [l k']. reflexivity.
    - intros body Hb sc k. cbn [stmt_sites stmt_ssites].
      fold goM. fold goS. rewrite (go_eq body Hb). destruct (goS body sc k) as [l k']. reflexivity.
    - intros e sc k. cbn [stmt_sites stmt_ssites]; unfold conv3; cbn [fst snd].
      rewrite map_app, call_ssites_eq. reflexivity.
    - intros e sc k. cbn [stmt_sites stmt_ssites]; unfold conv3; cbn [fst snd].
      rewrite map_app, call_ssites_eq. reflexivity.
    - reflexivity.
    - reflexivity.
    - intros c body els elif Hb He Hi sc k. cbn [if_sites if_ssites]. rewrite Hb.
      destruct (ifbody_ssites body sc k) as [b k1]. unfold conv2; cbn [fst snd].
      destruct els as [eb|].
      + cbn in He. rewrite He. destruct (ifbody_ssites eb sc k1) as [e k2]. unfold conv2; cbn [fst snd].
        rewrite !map_app, cond_ssites_eq. reflexivity.
      + destruct elif as [ei|].
        * cbn in Hi. rewrite Hi. destruct (if_ssites ei sc k1) as [e k2]. unfold conv2; cbn [fst snd].
          rewrite !map_app, cond_ssites_eq. reflexivity.
        * unfold conv2; cbn [fst snd]. rewrite !map_app, cond_ssites_eq. reflexivity.
    - intros ss Hs sc k. cbn [ifbody_sites ifbody_ssites]. fold goM. fold goS. apply go_eq, Hs.
    - intros ss Hs sc k. cbn [ifbody_sites ifbody_ssites]. fold goM. fold goS. apply go_eq, Hs.
  Qed.

  Lemma stmts_ssites_eq : forall ss sc k, map tz (stmts_ssites ss sc k) = stmts_sites D ss sc k.
  Proof.
    induction ss as [|s ss IH]; intros sc k; [reflexivity|].
    cbn [stmts_ssites stmts_sites]. rewrite (proj1 stmt_ssites_all).
    destruct (stmt_ssites s sc k) as [[a sc1] k1]. unfold conv3; cbn [fst snd]. rewrite map_app, IH. reflexivity.
  Qed.

  Lemma fn_ssites_eq f : map tz (fn_ssites f) = fn_sites D f.
  Proof.
    unfold fn_ssites, fn_sites. destruct (param_scope (fn_params f) [] 0) as [sc k]. apply stmts_ssites_eq.
  Qed.

  Lemma let_names_eq : forall l, flat_map let_name (map tz l) = flat_map slet_name l.
  Proof.
    induction l as [|s l IH]; [reflexivity|]. cbn [map flat_map]. rewrite IH. destruct s; reflexivity.
  Qed.

  Lemma decl_names_eq f : decl_names f (fn_sites D f) = source_decl_names f.
  Proof. unfold decl_names, source_decl_names. rewrite <- fn_ssites_eq, let_names_eq. reflexivity. Qed.
End SourceSites.

(** ** Functions and programs *)
Lemma same_len_iff {A B} : forall (a : list A) (b : list B), same_len a b = true <-> length a = length b.
Proof.
  induction a as [|x a IH]; intros [|y b]; cbn; try (split; [discriminate | discriminate]).
  - split; reflexivity.
  - rewrite IH. split; [intro H; f_equal; exact H | intro H; inversion H; reflexivity].
Qed.

Theorem chk_C06_fn_reading sm f root : chk_C06_fn sm f root = true <-> fn_reading sm f root.
Proof.
  unfold chk_C06_fn, fn_reading. cbv zeta.
  rewrite Bool.andb_true_iff, decl_names_eq, same_len_iff.
  rewrite <- (fn_ssites_eq (stack_decls (b_ctx root)) f), sites_eqb_reading. reflexivity.
Qed.

Lemma chk_C06_fns_reading sm : forall fs roots,
  chk_C06_fns sm fs roots = true <-> Forall2 (fn_reading sm) fs roots.
Proof.
  induction fs as [|f fs IH]; intros [|r roots]; cbn [chk_C06_fns].
  - split; [constructor | reflexivity].
  - split; [discriminate | intro H; inversion H].
  - split; [discriminate | intro H; inversion H].
  - rewrite Bool.andb_true_iff, chk_C06_fn_reading, IH. split.
    + intros [H1 H2]. constructor; assumption.
    + intro H. inversion H; subst. split; assumption.
Qed.

Theorem chk_C06_gen_reading sm p o : chk_C06_gen sm p o = true <-> C06_reading sm p o.
Proof.
  unfold chk_C06_gen, C06_reading. destruct (o_errors o) as [|e es].
  - rewrite chk_C06_fns_reading. split; [intros H _; exact H | intro H; apply H; reflexivity].
  - split; [intros _ H; discriminate H | reflexivity].
Qed.

Theorem chk_C06_reading p o : chk_C06 p o = true <-> C06_reading false p o.
Proof. apply chk_C06_gen_reading. Qed.

Theorem chk_C06_scoped_reading p o : chk_C06_scoped p o = true <-> C06_reading true p o.
Proof. apply chk_C06_gen_reading. Qed.

(** ** The reading does not see bracketing *)
Section Bracketing.
  Variable sm : bool.
  Variable D : list (string * sem_ty).
  Variable NM : list string.
  Variable sc : scope.
  Notation Denotes := (Denotes sm D NM sc).

  (** explicit brackets of the source are transparent, wherever they stand *)
  Lemma Denotes_brackets d e : Denotes d (Expr (EVSub e) []) <-> Denotes d e.
  Proof.
    rewrite !Denotes_iff. cbn [eflat vflat flat_map]. rewrite app_nil_r. reflexivity.
  Qed.

  Lemma Denotes_brackets_link d v rest o v' rest' :
    Denotes d (Expr v (rest ++ [(o, EVSub (Expr v' rest'))])) <->
    Denotes d (Expr v (rest ++ (o, v') :: rest')).
  Proof.
    rewrite !Denotes_iff. cbn [eflat]. rewrite !flat_map_app.
    cbn [flat_map fst snd vflat eflat]. rewrite ?app_nil_r, <- ?app_assoc. reflexivity.
  Qed.

  (** the nesting of the operation tree is invisible *)
  Lemma Denotes_reassociate o1 o2 a b c e :
    Denotes (DOp o1 (DOp o2 a b) c) e <-> Denotes (DOp o2 a (DOp o1 b c)) e.
  Proof. rewrite !Denotes_iff. cbn [dflat]. rewrite <- app_assoc. reflexivity. Qed.

  (** an operation denotes a chain that splits into what its sides denote *)
  Lemma Denotes_operation o l r v1 rest1 v2 rest2 :
    Denotes l (Expr v1 rest1) -> Denotes r (Expr v2 rest2) ->
    Denotes (DOp o l r) (Expr v1 (rest1 ++ (o, v2) :: rest2)).
  Proof.
    rewrite !Denotes_iff. cbn [dflat eflat]. intros H1 H2. rewrite flat_map_app.
    cbn [flat_map fst snd]. rewrite app_assoc. apply Forall2_app; [exact H1|].
    constructor; [constructor | exact H2].
  Qed.
End Bracketing.
