(** Family T1: the choice of the return form (C11, the part that holds for every program).

    In the function's complete stack (the root block's) a return with label
    ([ExpressionFunctionReturnWithLabel]) occurs only after some jump-to-return
    ([JumpFunctionReturn]) and a plain return ([ExpressionFunctionReturn]) occurs only when no
    jump-to-return precedes it; the root's "manual return" flag says exactly whether its stack
    holds a jump-to-return. *)
From Coq Require Import Lia.
From SA Require Import Model.
From SA.Proofs Require Import Trace InvNames.
Local Open Scope list_scope.

(** ** The property of a stack *)
Definition is_jump_fn_ret (i : instr) : bool :=
  match i with IJumpFnRet _ => true | _ => false end.
Definition has_jump (c : list instr) : bool := existsb is_jump_fn_ret c.

(** [seen]: a jump-to-return occurred before *)
Fixpoint form_ok (seen : bool) (c : list instr) : bool :=
  match c with
  | [] => true
  | IJumpFnRet _ :: c' => form_ok true c'
  | IFnRetLabel _ :: c' => seen && form_ok seen c'
  | IFnRet _ :: c' => negb seen && form_ok seen c'
  | _ :: c' => form_ok seen c'
  end.

(** what one instruction requires of "a jump-to-return occurred before" *)
Definition step_ok (seen : bool) (i : instr) : bool :=
  match i with
  | IFnRetLabel _ => seen
  | IFnRet _ => negb seen
  | _ => true
  end.

Lemma has_jump_app a b : has_jump (a ++ b) = has_jump a || has_jump b.
Proof. apply existsb_app. Qed.

Lemma form_ok_cons seen i c :
  form_ok seen (i :: c) = step_ok seen i && form_ok (seen || is_jump_fn_ret i) c.
Proof.
  destruct i; cbn [form_ok step_ok is_jump_fn_ret]; rewrite ?Bool.orb_false_r, ?Bool.orb_true_r;
    reflexivity.
Qed.

Lemma form_ok_app : forall a seen b,
  form_ok seen (a ++ b) = form_ok seen a && form_ok (seen || has_jump a) b.
Proof.
  induction a as [|i a IH]; intros seen b.
  - cbn. rewrite Bool.orb_false_r. reflexivity.
  - change ((i :: a) ++ b) with (i :: (a ++ b)). rewrite !form_ok_cons, IH.
    cbn [has_jump existsb]. fold (has_jump a).
    rewrite Bool.orb_assoc, Bool.andb_assoc. reflexivity.
Qed.

Lemma form_ok_snoc seen c i :
  form_ok seen (c ++ [i]) = form_ok seen c && step_ok (seen || has_jump c) i.
Proof. rewrite form_ok_app, form_ok_cons. cbn [form_ok]. rewrite Bool.andb_true_r. reflexivity. Qed.

(** the readable form: what precedes every return instruction *)
Lemma form_ok_split seen pre i post :
  form_ok seen (pre ++ i :: post) = true -> step_ok (seen || has_jump pre) i = true.
Proof.
  rewrite form_ok_app, form_ok_cons. intro H.
  apply Bool.andb_true_iff in H as [_ H]. apply Bool.andb_true_iff in H as [H _]. exact H.
Qed.

Definition return_form (c : list instr) : Prop :=
  (forall pre er post, c = pre ++ IFnRetLabel er :: post ->
                       exists pre1 er' pre2, pre = pre1 ++ IJumpFnRet er' :: pre2) /\
  (forall pre er post, c = pre ++ IFnRet er :: post ->
                       forall er', ~ In (IJumpFnRet er') pre).

Lemma has_jump_true c : has_jump c = true -> exists pre1 er pre2, c = pre1 ++ IJumpFnRet er :: pre2.
Proof.
  unfold has_jump. intro H. apply existsb_exists in H as (i & Hin & Hi).
  destruct i; try discriminate. apply in_split in Hin as (l1 & l2 & ->). eauto.
Qed.

Lemma has_jump_false c er : has_jump c = false -> ~ In (IJumpFnRet er) c.
Proof.
  unfold has_jump. intros H Hin.
  assert (Ht : existsb is_jump_fn_ret c = true)
    by (apply existsb_exists; exists (IJumpFnRet er); split; [exact Hin | reflexivity]).
  congruence.
Qed.

Lemma form_ok_readable c : form_ok false c = true -> return_form c.
Proof.
  intro H. split; intros pre er post ->; apply form_ok_split in H; cbn in H.
  - apply has_jump_true, H.
  - intro er'. apply has_jump_false. apply Bool.negb_true_iff, H.
Qed.

(** the converse, so that [form_ok] is exactly the readable statement *)
Lemma readable_form_ok c : return_form c -> form_ok false c = true.
Proof.
  intros [HL HR].
  assert (G : forall pre post, c = pre ++ post -> form_ok (has_jump pre) post = true).
  { intros pre post; revert pre. induction post as [|i post IH]; intros pre E; [reflexivity|].
    rewrite form_ok_cons. apply Bool.andb_true_iff. split.
    - destruct i; try reflexivity; cbn [step_ok].
      + apply Bool.negb_true_iff. destruct (has_jump pre) eqn:Ej; [|reflexivity].
        apply has_jump_true in Ej as (p1 & er & p2 & ->).
        exfalso. eapply (HR _ _ _ E er). apply in_or_app. right. left. reflexivity.
      + destruct (HL _ _ _ E) as (p1 & er & p2 & ->).
        rewrite has_jump_app. cbn. apply Bool.orb_true_r.
    - specialize (IH (pre ++ [i])). rewrite has_jump_app in IH. cbn [has_jump existsb] in IH.
      rewrite Bool.orb_false_r in IH. apply IH. rewrite <- app_assoc. exact E. }
  apply (G [] c). reflexivity.
Qed.

(** ** The invariant: it only looks at the flag and the stack of every live block *)
Definition view (fs : list block) : list (bool * list instr) :=
  map (fun b => (b_mret b, b_ctx b)) fs.

Definition vroot (v : list (bool * list instr)) : bool * list instr := last v (false, []).
Definition vhead (v : list (bool * list instr)) : bool :=
  match v with x :: _ => fst x | [] => false end.

Record vInv (v : list (bool * list instr)) : Prop := {
  vi_nonempty : v <> [];
  vi_same : forall x, In x v -> fst x = vhead v;
  vi_flag : fst (vroot v) = has_jump (snd (vroot v));
  vi_form : form_ok false (snd (vroot v)) = true }.

Definition Inv_ret (s : bst) : Prop := vInv (view (frames s)).

Lemma head_mret_view fs : head_mret fs = vhead (view fs).
Proof. destruct fs; reflexivity. Qed.

Lemma vroot_map g v : v <> [] -> vroot (map g v) = g (vroot v) .
Proof.
  unfold vroot. induction v as [|a v IH]; [congruence|]. intros _.
  destruct v as [|b v]; [reflexivity|].
  change (last (map g (a :: b :: v)) (false, [])) with (last (map g (b :: v)) (false, [])).
  change (last (a :: b :: v) (false, [])) with (last (b :: v) (false, [])).
  apply IH. discriminate.
Qed.

Lemma vroot_cons a v : v <> [] -> vroot (a :: v) = vroot v.
Proof. unfold vroot. destruct v; [congruence | reflexivity]. Qed.

Lemma vroot_in v : v <> [] -> In (vroot v) v.
Proof.
  unfold vroot. induction v as [|a v IH]; [congruence|]. intros _.
  destruct v as [|b v]; [left; reflexivity|]. right. apply IH. discriminate.
Qed.

(** every live block receives one more instruction [i]; the flags become [f flag] *)
Lemma vInv_push (f : bool -> bool) i v :
  vInv v ->
  (forall b, f b = b || is_jump_fn_ret i) ->
  step_ok (fst (vroot v)) i = true ->
  vInv (map (fun x => (f (fst x), snd x ++ [i])) v).
Proof.
  intros [Hne Hsame Hflag Hform] Hf Hstep.
  set (g := fun x : bool * list instr => (f (fst x), snd x ++ [i])).
  assert (Hroot : vroot (map g v) = g (vroot v)) by (apply vroot_map; exact Hne).
  constructor; rewrite ?Hroot; unfold g; cbn [fst snd].
  - destruct v; [congruence | discriminate].
  - intros x Hx. apply in_map_iff in Hx as (y & <- & Hy). cbn [fst].
    rewrite (Hsame y Hy). destruct v; [contradiction | reflexivity].
  - rewrite Hf, has_jump_app, Hflag. cbn. rewrite Bool.orb_false_r. reflexivity.
  - rewrite form_ok_snoc, Hform. cbn [orb andb]. rewrite <- Hflag. exact Hstep.
Qed.

(** an instruction that is not one of the three return forms *)
Definition no_ret (i : instr) : Prop :=
  match i with IJumpFnRet _ | IFnRet _ | IFnRetLabel _ => False | _ => True end.

Lemma no_ret_step i seen : no_ret i -> step_ok seen i = true.
Proof. destruct i; cbn; intro H; try contradiction; reflexivity. Qed.
Lemma no_ret_jump i : no_ret i -> is_jump_fn_ret i = false.
Proof. destruct i; cbn; intro H; try contradiction; reflexivity. Qed.
Lemma plain_no_ret i : plain i -> no_ret i.
Proof. destruct i; cbn; intro H; try contradiction; exact I. Qed.

Lemma view_push_ctx i fs :
  view (map (push_ctx i) fs) = map (fun x => (id (fst x), snd x ++ [i])) (view fs).
Proof. unfold view. rewrite !map_map. reflexivity. Qed.

Lemma Inv_ret_push i s e :
  no_ret i -> Inv_ret s -> Inv_ret (BSt (map (push_ctx i) (frames s)) e).
Proof.
  intros Hn Hinv. unfold Inv_ret. cbn [frames]. rewrite view_push_ctx.
  apply vInv_push; [exact Hinv | | apply no_ret_step, Hn].
  intro b. rewrite (no_ret_jump i Hn), Bool.orb_false_r. reflexivity.
Qed.

Lemma view_map_neutral g fs :
  (forall b, b_ctx (g b) = b_ctx b) -> (forall b, b_mret (g b) = b_mret b) ->
  view (map g fs) = view fs.
Proof.
  intros Hc Hm. unfold view. rewrite map_map. apply map_ext. intro b. rewrite Hc, Hm. reflexivity.
Qed.

Lemma Inv_ret_neutral g s e :
  (forall b, b_ctx (g b) = b_ctx b) -> (forall b, b_mret (g b) = b_mret b) ->
  Inv_ret s -> Inv_ret (BSt (map g (frames s)) e).
Proof. intros Hc Hm Hinv. unfold Inv_ret. cbn [frames]. rewrite view_map_neutral; assumption. Qed.

(** the head block changes neither its flag nor its stack *)
Lemma Inv_ret_head (g : block -> block) s e :
  (forall b, b_ctx (g b) = b_ctx b) -> (forall b, b_mret (g b) = b_mret b) ->
  Inv_ret s ->
  Inv_ret (BSt (match frames s with b :: r => g b :: r | [] => [] end) e).
Proof.
  intros Hc Hm Hinv. unfold Inv_ret in *. cbn [frames].
  destruct (frames s) as [|b r]; [exact Hinv|]. cbn [view map] in *. rewrite Hc, Hm. exact Hinv.
Qed.

Lemma Inv_ret_errs s e : Inv_ret s -> Inv_ret (BSt (frames s) e).
Proof. exact (fun H => H). Qed.

Lemma step2_Inv_ret s s' : step2 s s' -> Inv_ret s -> Inv_ret s'.
Proof.
  intros Hstep Hinv.
  destruct Hstep as [mk s Hd Hp Hr | s | i s Hd Hp Hr | er s | x val er s Hfresh | er s | n s | e s
                    | s | c p r e | k i s Hd Hp Hr].
  - (* alloc *)
    unfold st_alloc, st_emit. apply Inv_ret_push; [apply plain_no_ret, Hp|].
    unfold st_inc. apply Inv_ret_neutral; try reflexivity. exact Hinv.
  - unfold st_inc. apply Inv_ret_neutral; try reflexivity. exact Hinv.
  - unfold st_emit. apply Inv_ret_push; [apply plain_no_ret, Hp | exact Hinv].
  - (* jump-to-return: the instruction everywhere and the flag everywhere *)
    unfold st_return, st_emit, Inv_ret. cbn [frames].
    assert (E : view (map set_mret (map (push_ctx (IJumpFnRet er)) (frames s)))
                = map (fun x => ((fun _ => true) (fst x), snd x ++ [IJumpFnRet er])) (view (frames s))).
    { unfold view. rewrite !map_map. reflexivity. }
    rewrite E. apply (vInv_push (fun _ => true) (IJumpFnRet er)); [exact Hinv | | reflexivity].
    intro b. cbn. rewrite Bool.orb_true_r. reflexivity.
  - (* let declaration *)
    unfold st_emit. apply Inv_ret_push; [exact I|].
    unfold st_inner. apply Inv_ret_neutral; try reflexivity.
    unfold st_value. apply (Inv_ret_head (set_value x val)); try reflexivity. exact Hinv.
  - (* function return: the form is chosen from the head's flag, which is the root's *)
    unfold st_emit, Inv_ret. cbn [frames]. rewrite view_push_ctx.
    pose proof Hinv as [Hne Hsame Hflag Hform].
    assert (Hhd : head_mret (frames s) = fst (vroot (view (frames s)))).
    { rewrite head_mret_view. symmetry. apply Hsame, vroot_in, Hne. }
    apply vInv_push; [exact Hinv | |].
    + intro b. destruct (head_mret (frames s)); cbn; rewrite Bool.orb_false_r; reflexivity.
    + rewrite Hhd. destruct (fst (vroot (view (frames s)))); reflexivity.
  - unfold st_label. apply Inv_ret_neutral; try reflexivity. exact Hinv.
  - exact Hinv.
  - (* push: the child copies its parent's flag *)
    destruct Hinv as [Hne Hsame Hflag Hform]. unfold Inv_ret, st_push. cbn [frames].
    destruct (frames s) as [|p r] eqn:Ef; [cbn in Hne; congruence|].
    cbn [new_child view map b_mret b_ctx] in *.
    assert (Hroot : vroot ((b_mret p, []) :: (b_mret p, b_ctx p) :: view r)
                    = vroot ((b_mret p, b_ctx p) :: view r)) by (apply vroot_cons; discriminate).
    constructor; rewrite ?Hroot; try assumption; [discriminate|].
    intros x [<-|Hx]; [reflexivity|]. apply (Hsame x Hx).
  - (* pop *)
    destruct Hinv as [Hne Hsame Hflag Hform]. unfold Inv_ret in *. cbn [frames view map] in *.
    fold (view r) in *. cbn [add_kid b_mret b_ctx].
    assert (Hroot : vroot ((b_mret c, b_ctx c) :: (b_mret p, b_ctx p) :: view r)
                    = vroot ((b_mret p, b_ctx p) :: view r)) by (apply vroot_cons; discriminate).
    rewrite Hroot in *.
    assert (Hp : b_mret p = b_mret c) by (apply (Hsame (b_mret p, b_ctx p)); right; left; reflexivity).
    constructor; try assumption; [discriminate|].
    intros x Hx. cbn [vhead fst]. rewrite Hp. apply (Hsame x). right. exact Hx.
  - (* push through a finished child *)
    unfold st_emit. apply Inv_ret_push; [apply plain_no_ret, Hp|].
    unfold st_kid. apply (Inv_ret_head (fun p => set_kids (update_nth k (push_ctx i) (b_kids p)) p));
      try reflexivity. exact Hinv.
Qed.

Lemma reach2_Inv_ret s s' : reach2 s s' -> Inv_ret s -> Inv_ret s'.
Proof. intros H; induction H; intro Hi; [exact Hi | eapply step2_Inv_ret; eauto]. Qed.

(** ** The parameter phase: declarations and diagnostics only *)
Lemma init_func_params_ret : forall ps s a s',
  Inv_ret s -> init_func_params ps s = Ok a s' -> Inv_ret s'.
Proof.
  induction ps as [|[x t] ps IH]; intros s a s' Hinv H; cbn [init_func_params] in H.
  - inversion H; subst. exact Hinv.
  - unfold bind, lookup_value, gets in H.
    destruct (lookup_frames (iname x) (frames s)) as [v|].
    + apply add_error_eq in H as ->. exact Hinv.
    + set (val := Value (iname x) (sem_of_ty t) false) in *.
      destruct (insert_value (iname x) val s) as [a1 s1| |] eqn:E1; try discriminate.
      apply insert_value_eq in E1 as ->.
      destruct (set_inner_name (iname x) (st_value (iname x) val s)) as [a2 s2| |] eqn:E2; try discriminate.
      apply set_inner_name_eq in E2 as ->.
      destruct (emit (IFnArg val (iname x) (sem_of_ty t)) _) as [a3 s3| |] eqn:E3; try discriminate.
      apply emit_eq in E3 as ->.
      eapply IH; [|exact H].
      unfold st_emit. apply Inv_ret_push; [exact I|].
      unfold st_inner. apply Inv_ret_neutral; try reflexivity.
      unfold st_value. apply (Inv_ret_head (set_value (iname x) val)); try reflexivity. exact Hinv.
Qed.

Lemma Inv_ret_init e : Inv_ret (BSt [empty_block] e).
Proof.
  constructor; cbn; try discriminate; try reflexivity.
  intros x [<-|[]]. reflexivity.
Qed.

Lemma function_body_Inv_ret G errs0 f a s :
  function_body G errs0 f = Ok a s -> Inv_ret s.
Proof.
  unfold function_body, function_body_m. intro H. unfold bind in H.
  destruct (init_func_params (fn_params f) _) as [a1 s1| |] eqn:E1; try discriminate.
  destruct (fn_stmts G (fuel_of f) (sem_of_ty (fn_result f)) false (fn_body f) s1) as [ret s2| |] eqn:E2;
    try discriminate.
  pose proof (init_func_params_ret _ _ _ _ (Inv_ret_init errs0) E1) as H1.
  pose proof (reach2_Inv_ret _ _ (R2_fn_stmts G _ _ _ _ s1 _ _ E2) H1) as H2.
  destruct (negb ret); [apply add_error_eq in H as ->|inversion H; subst]; exact H2.
Qed.

(** ** The theorem *)
Definition C11_root (root : block) : Prop :=
  form_ok false (b_ctx root) = true /\ b_mret root = has_jump (b_ctx root).

Lemma bodies_ret G : forall fs errs0 roots errs1 roots1,
  Forall C11_root roots ->
  bodies G errs0 roots fs = inr (errs1, roots1) ->
  Forall C11_root roots1.
Proof.
  induction fs as [|f fs IH]; intros errs0 roots errs1 roots1 Hroots H; cbn in H.
  - inversion H; subst. exact Hroots.
  - destruct (function_body G errs0 f) as [a s| |] eqn:E; try discriminate.
    destruct (frames s) as [|root [|]] eqn:Ef; try discriminate.
    eapply IH; [|exact H]. apply Forall_app; split; [exact Hroots|].
    constructor; [|constructor].
    pose proof (function_body_Inv_ret _ _ _ _ _ E) as [Hne Hsame Hflag Hform].
    rewrite Ef in *. cbn in Hflag, Hform. split; assumption.
Qed.

Lemma bodies_not_ok G : forall fs errs0 roots out, bodies G errs0 roots fs <> inl (ROk out).
Proof.
  induction fs as [|f fs IH]; intros e0 r0 out E; cbn in E; [discriminate|].
  destruct (function_body _ e0 f) as [a s| |]; try (inversion E; subst; discriminate).
  destruct (frames s) as [|root [|]]; try (inversion E; subst; discriminate).
  eapply IH; exact E.
Qed.

Lemma run_bodies p out :
  run p = ROk out ->
  exists errors,
    bodies (gs_globals (declarations p)) (gs_errs (declarations p)) [] (functions_of p)
    = inr (errors, o_fns out).
Proof.
  unfold run. intro H.
  destruct (bodies (gs_globals (declarations p)) (gs_errs (declarations p)) [] (functions_of p))
    as [r|[errors roots]] eqn:E.
  - subst r. exfalso. eapply bodies_not_ok, E.
  - inversion H; subst; clear H. exists errors. reflexivity.
Qed.

Theorem run_return_form p out :
  run p = ROk out ->
  Forall (fun root => form_ok false (b_ctx root) = true /\ b_mret root = has_jump (b_ctx root))
         (o_fns out).
Proof.
  intro H. apply run_bodies in H as (errors & E). eapply (bodies_ret _ _ _ _ _ _ (Forall_nil _) E).
Qed.

(** the readable corollary: in every function's complete stack, a return with label is preceded
    by some jump-to-return and a plain return is preceded by none *)
Theorem run_return_form_readable p out :
  run p = ROk out ->
  Forall (fun root =>
            (forall pre er post, b_ctx root = pre ++ IFnRetLabel er :: post ->
                                 exists pre1 er' pre2, pre = pre1 ++ IJumpFnRet er' :: pre2) /\
            (forall pre er post, b_ctx root = pre ++ IFnRet er :: post ->
                                 forall er', ~ In (IJumpFnRet er') pre))
         (o_fns out).
Proof.
  intro H. eapply Forall_impl; [|apply (run_return_form p out H)].
  intros root [Hf _]. exact (form_ok_readable _ Hf).
Qed.


(** * Jump-to-return instructions come from nested bodies only

    The code of the function's own statement list, apart from its calls of [if_condition] and
    [loop_statement], never pushes a jump-to-return and never sets the flag: a function whose
    body holds no [if] and no [loop] has no jump-to-return in its stack, hence (by the theorem
    above) only plain returns. *)
Definition jview (s : bst) : list (bool * bool) :=
  map (fun b => (b_mret b, has_jump (b_ctx b))) (frames s).
Definition NoJ {A} (m : M A) : Prop := forall s a s', m s = Ok a s' -> jview s' = jview s.

Lemma NoJ_ret {A} (a : A) : NoJ (ret a).
Proof. intros s a' s' H; inversion H; reflexivity. Qed.
Lemma NoJ_bind {A B} (m : M A) (f : A -> M B) : NoJ m -> (forall a, NoJ (f a)) -> NoJ (bind m f).
Proof.
  intros Hm Hf s b s' H. unfold bind in H.
  destruct (m s) as [a s1| |] eqn:E; try discriminate.
  rewrite (Hf a _ _ _ H). exact (Hm _ _ _ E).
Qed.
Lemma NoJ_gets {A} (g : list block -> A) : NoJ (gets g).
Proof. intros s a s' H; inversion H; reflexivity. Qed.
Lemma NoJ_panic {A} k : NoJ (@panic A k).
Proof. intros s a s' H; discriminate. Qed.
Lemma NoJ_oof {A} : NoJ (@out_of_fuel A).
Proof. intros s a s' H; discriminate. Qed.
Lemma NoJ_when b m : NoJ m -> NoJ (when b m).
Proof. intro H; destruct b; [exact H | apply NoJ_ret]. Qed.
Lemma jview_map g fs e e' :
  (forall b, b_mret (g b) = b_mret b) -> (forall b, has_jump (b_ctx (g b)) = has_jump (b_ctx b)) ->
  jview (BSt (map g fs) e) = jview (BSt fs e').
Proof.
  intros Hm Hc. unfold jview. cbn [frames]. rewrite map_map. apply map_ext. intro b.
  rewrite Hm, Hc. reflexivity.
Qed.
Lemma NoJ_upd_map g :
  (forall b, b_mret (g b) = b_mret b) -> (forall b, has_jump (b_ctx (g b)) = has_jump (b_ctx b)) ->
  NoJ (upd_frames (map g)).
Proof. intros Hm Hc s a s' H. inversion H. destruct s. apply jview_map; assumption. Qed.
Lemma NoJ_inc_register : NoJ inc_register.
Proof. intros s a s' H. inversion H. destruct s. apply jview_map; reflexivity. Qed.
Lemma NoJ_emit i : is_jump_fn_ret i = false -> NoJ (emit i).
Proof.
  intro Hi. apply NoJ_upd_map; [reflexivity|]. intro b. cbn [push_ctx b_ctx].
  rewrite has_jump_app. cbn. rewrite Hi. rewrite !Bool.orb_false_r. reflexivity.
Qed.
Lemma NoJ_set_inner n : NoJ (set_inner_name n).
Proof. apply NoJ_upd_map; reflexivity. Qed.
Lemma NoJ_set_label n : NoJ (set_label_name n).
Proof. apply NoJ_upd_map; reflexivity. Qed.
Lemma NoJ_bump : NoJ bump.
Proof. unfold bump. apply NoJ_bind; [apply NoJ_inc_register | intro; apply NoJ_gets]. Qed.
Lemma NoJ_alloc_emit mk : (forall n, is_jump_fn_ret (mk n) = false) -> NoJ (alloc_emit mk).
Proof.
  intro Hmk. unfold alloc_emit. apply NoJ_bind; [apply NoJ_inc_register | intros _].
  apply NoJ_bind; [apply NoJ_gets | intro r].
  apply NoJ_bind; [apply (NoJ_emit (mk r)), Hmk | intros _; apply NoJ_ret].
Qed.
Lemma NoJ_insert_value x v : NoJ (insert_value x v).
Proof.
  intros s a s' H. inversion H. unfold jview. cbn [frames]. destruct (frames s); reflexivity.
Qed.
Lemma NoJ_add_error e : NoJ (add_error e).
Proof. intros s a s' H. inversion H. reflexivity. Qed.
Lemma NoJ_next_inner_name fuel n : NoJ (next_inner_name fuel n).
Proof. intros s a s' H. apply next_inner_name_spec in H as [-> _]. reflexivity. Qed.

Ltac nj_prim :=
  first
    [ apply NoJ_ret | apply NoJ_gets | apply NoJ_panic | apply NoJ_oof | apply NoJ_bump
    | apply NoJ_alloc_emit; intro; reflexivity | apply NoJ_emit; reflexivity | apply NoJ_set_label
    | apply NoJ_set_inner | apply NoJ_insert_value | apply NoJ_add_error
    | apply NoJ_next_inner_name ].

Ltac nj_go :=
  repeat first
    [ nj_prim
    | match goal with H : _ |- NoJ _ => solve [apply H] end
    | apply NoJ_when
    | apply NoJ_bind; [| intros ?]
    | match goal with |- NoJ (match ?x with _ => _ end) => destruct x end
    | match goal with |- NoJ (if ?b then _ else _) => destruct b end
    | progress cbv zeta ].

(** a statement that opens no block *)
Definition flat_stmt (st : stmt) : bool :=
  match st with SIf _ | SLoop _ => false | _ => true end.

Section FlatBody.
  Variable G : globals.

  Lemma NoJ_check_type_exists t v l : NoJ (check_type_exists G t v l).
  Proof. unfold check_type_exists. nj_go. Qed.

  Section Expr.
    Variable E : expr -> M (option eres).
    Hypothesis HE : forall e, NoJ (E e).

    Lemma NoJ_call_args callee params : forall args i acc, NoJ (call_args E callee params i args acc).
    Proof. induction args as [|a args IH]; intros i acc; cbn [call_args]; nj_go. Qed.

    Lemma NoJ_function_call f args : NoJ (function_call G E f args).
    Proof. unfold function_call. pose proof NoJ_call_args. nj_go. Qed.

    Lemma NoJ_expr_value v : NoJ (expr_value G E v).
    Proof.
      pose proof NoJ_function_call. pose proof NoJ_check_type_exists.
      destruct v; cbn [expr_value]; nj_go.
    Qed.

    Lemma NoJ_expr_chain : forall rest left, NoJ (expr_chain G E left rest).
    Proof.
      pose proof NoJ_expr_value.
      induction rest as [|[op v] rest IH]; intros left; cbn [expr_chain]; nj_go.
    Qed.

    Lemma NoJ_expression_body e : NoJ (expression_body G E e).
    Proof. pose proof NoJ_expr_value. pose proof NoJ_expr_chain. unfold expression_body. nj_go. Qed.
  End Expr.

  Lemma NoJ_expression fuel : forall e, NoJ (expression G fuel e).
  Proof.
    induction fuel as [|f IH]; intros e; cbn [expression]; [apply NoJ_oof|].
    apply NoJ_expression_body; exact IH.
  Qed.

  Section Stmts.
    Variable fuel : nat.
    Variable RT : sem_ty.

    Lemma NoJ_let_binding x m t e : NoJ (let_binding G fuel x m t e).
    Proof. pose proof (NoJ_expression fuel). unfold let_binding. nj_go. Qed.

    Lemma NoJ_binding x e : NoJ (binding G fuel x e).
    Proof. pose proof (NoJ_expression fuel). unfold binding. nj_go. Qed.

    Lemma NoJ_call_stmt f args : NoJ (call_stmt G fuel f args).
    Proof.
      unfold call_stmt. apply NoJ_bind; [|intro; apply NoJ_ret].
      apply NoJ_function_call. apply NoJ_expression.
    Qed.

    (** every statement of the function's own list, except the two that open blocks *)
    Lemma NoJ_fn_stmt returned st : flat_stmt st = true -> NoJ (fn_stmt G fuel RT returned st).
    Proof.
      pose proof (NoJ_expression fuel). pose proof NoJ_let_binding. pose proof NoJ_binding.
      pose proof NoJ_call_stmt. pose proof NoJ_check_type_exists.
      intro Hf. destruct st; try discriminate; cbn [fn_stmt]; nj_go.
    Qed.

    Lemma NoJ_fn_stmts : forall ss returned,
      forallb flat_stmt ss = true -> NoJ (fn_stmts G fuel RT returned ss).
    Proof.
      induction ss as [|st ss IH]; intros returned Hf; cbn [fn_stmts]; [apply NoJ_ret|].
      cbn in Hf. apply Bool.andb_true_iff in Hf as [H1 H2].
      apply NoJ_bind; [nj_go | intros _].
      apply NoJ_bind; [apply NoJ_fn_stmt, H1 | intro r; apply IH, H2].
    Qed.

    Lemma NoJ_init_func_params : forall ps, NoJ (init_func_params ps).
    Proof. induction ps as [|[x t] ps IH]; cbn [init_func_params]; nj_go. Qed.
  End Stmts.

  Lemma function_body_flat errs0 f a s root :
    forallb flat_stmt (fn_body f) = true ->
    function_body G errs0 f = Ok a s -> frames s = [root] ->
    has_jump (b_ctx root) = false /\ b_mret root = false.
  Proof.
    unfold function_body, function_body_m. intros Hflat H Hroot.
    assert (HN : NoJ (init_func_params (fn_params f) ;;;
                      returned <- fn_stmts G (fuel_of f) (sem_of_ty (fn_result f)) false (fn_body f) ;;
                      when (negb returned)
                           (add_error (Err EReturnNotFound (Some "") (iloc (fn_name f)))))).
    { apply NoJ_bind; [apply NoJ_init_func_params | intros _].
      apply NoJ_bind; [apply NoJ_fn_stmts, Hflat | intro; nj_go]. }
    specialize (HN _ _ _ H). unfold jview in HN. rewrite Hroot in HN. cbn in HN.
    inversion HN. split; reflexivity.
  Qed.
End FlatBody.

(** a stack without jump-to-return that has the right return forms has plain returns only *)
Lemma no_jump_plain_returns c :
  has_jump c = false -> form_ok false c = true ->
  forall i, In i c -> is_jump_fn_ret i = false /\ (forall er, i <> IFnRetLabel er).
Proof.
  intros Hj Hf i Hi. split.
  - destruct (is_jump_fn_ret i) eqn:E; [|reflexivity].
    assert (Ht : has_jump c = true) by (apply existsb_exists; exists i; split; assumption).
    congruence.
  - intros er ->. apply in_split in Hi as (pre & post & ->).
    apply form_ok_split in Hf. cbn in Hf. rewrite has_jump_app in Hj.
    apply Bool.orb_false_iff in Hj as [Hj _]. congruence.
Qed.

Definition flat_root (f : fn_decl) (root : block) : Prop :=
  forallb flat_stmt (fn_body f) = true ->
  forall i, In i (b_ctx root) -> is_jump_fn_ret i = false /\ (forall er, i <> IFnRetLabel er).

Lemma bodies_flat G : forall fs errs0 roots errs1 roots1 fs0,
  Forall2 flat_root fs0 roots ->
  bodies G errs0 roots fs = inr (errs1, roots1) ->
  Forall2 flat_root (fs0 ++ fs) roots1.
Proof.
  induction fs as [|f fs IH]; intros errs0 roots errs1 roots1 fs0 Hroots H; cbn in H.
  - inversion H; subst. rewrite app_nil_r. exact Hroots.
  - destruct (function_body G errs0 f) as [a s| |] eqn:E; try discriminate.
    destruct (frames s) as [|root [|]] eqn:Ef; try discriminate.
    replace (fs0 ++ f :: fs) with ((fs0 ++ [f]) ++ fs) by (rewrite <- app_assoc; reflexivity).
    eapply IH; [|exact H]. apply Forall2_app; [exact Hroots|].
    constructor; [|constructor]. intros Hflat.
    destruct (function_body_flat _ _ _ _ _ _ Hflat E Ef) as [Hj _].
    pose proof (function_body_Inv_ret _ _ _ _ _ E) as [_ _ _ Hform].
    rewrite Ef in Hform. cbn in Hform. apply no_jump_plain_returns; assumption.
Qed.

(** In a function whose own statement list holds no [if] and no [loop], the complete stack holds
    no jump-to-return and no return with label: every return is a plain return. *)
Theorem run_flat_functions_plain_returns p out :
  run p = ROk out ->
  Forall2 (fun f root =>
             forallb flat_stmt (fn_body f) = true ->
             forall i, In i (b_ctx root) ->
                       is_jump_fn_ret i = false /\ (forall er, i <> IFnRetLabel er))
          (functions_of p) (o_fns out).
Proof.
  intro H. apply run_bodies in H as (errors & E).
  exact (bodies_flat _ _ _ _ _ _ [] (Forall2_nil _) E).
Qed.

Print Assumptions run_return_form.
Print Assumptions run_return_form_readable.
Print Assumptions run_flat_functions_plain_returns.
