(** Soundness (and completeness where it holds) of the monitors of [Monitors.v]. *)
From Coq Require Import Sorted Lia.
From SA Require Import Model.
From SA.Mon Require Import C09.
From SA.Proofs Require Import Reach InvReg.
Local Open Scope list_scope.

Definition C09_root (root : block) : Prop :=
  StronglySorted N.lt (defs (b_ctx root)) /\
  Forall (fun r => 0 < r <= b_reg root) (defs (b_ctx root)).

Lemma increasing_from_spec l : forall prev,
  increasing_from prev l = true <-> StronglySorted N.lt l /\ Forall (fun r => prev < r) l.
Proof.
  induction l as [|r l IH]; intro prev; cbn.
  - split; [intros _; split; constructor | reflexivity].
  - rewrite Bool.andb_true_iff, IH, N.ltb_lt. split.
    + intros [Hp [Hs Hf]]. split.
      * constructor; assumption.
      * constructor; [assumption|]. eapply Forall_impl; [|exact Hf]. cbn; intros; lia.
    + intros [Hs Hf]. inversion Hs as [|? ? Hs' Hr]; subst. inversion Hf as [|? ? Hp Hf']; subst.
      split; [assumption | split; assumption].
Qed.

Lemma chk_C09_root_spec b : chk_C09_root b = true <-> C09_root b.
Proof.
  unfold chk_C09_root, C09_root. rewrite Bool.andb_true_iff, increasing_from_spec, forallb_forall.
  rewrite !Forall_forall. split.
  - intros [[Hs Hp] Hle]. split; [assumption|]. intros r Hr. split; [apply Hp, Hr|].
    apply N.leb_le, Hle, Hr.
  - intros [Hs Hb]. split; [split; [assumption|]|]; intros r Hr; [apply Hb, Hr|].
    apply N.leb_le, Hb, Hr.
Qed.

Lemma chk_C09_spec o : chk_C09 o = true <-> Forall C09_root (o_fns o).
Proof.
  unfold chk_C09. rewrite forallb_forall, Forall_forall.
  split; intros H b Hb; apply chk_C09_root_spec, H, Hb.
Qed.
