(** Family T1: the block tree (C18).

    1. Subsequences: in the tree of finished blocks of every function, the instruction stack of
       every block is an order-preserving subsequence of its parent's ([run_tree_subsequence]).
    2. The monitor [chk_C18_sub] decides exactly that ([chk_C18_sub_spec]).
    3. Shape: the tree mirrors the nesting of the source ([run_tree_shape]), for every program on
       which the analysis terminates, accepted or not. *)
From Coq Require Import Lia.
From SA Require Import Model.
From SA.Spec Require Import Tables.
From SA.Mon Require Import C12 C18.
From SA.Proofs Require Import Trace InvNames MonC12.
Local Open Scope list_scope.

(** ** Order-preserving subsequences *)
Inductive subseq {A : Type} : list A -> list A -> Prop :=
| ss_nil : subseq [] []
| ss_skip a l1 l2 : subseq l1 l2 -> subseq l1 (a :: l2)
| ss_take a l1 l2 : subseq l1 l2 -> subseq (a :: l1) (a :: l2).

Lemma subseq_nil {A} (l : list A) : subseq [] l.
Proof. induction l; constructor; assumption. Qed.

Lemma subseq_refl {A} (l : list A) : subseq l l.
Proof. induction l; constructor; assumption. Qed.

Lemma subseq_app_both {A} (a b c : list A) : subseq a b -> subseq (a ++ c) (b ++ c).
Proof. intro H; induction H; cbn; [apply subseq_refl | constructor; assumption ..]. Qed.

Lemma subseq_app_r {A} (a b c : list A) : subseq a b -> subseq a (b ++ c).
Proof.
  intro H; induction H; cbn; [apply subseq_nil | constructor; assumption ..].
Qed.

Lemma subseq_cons_l {A} (x : A) a b : subseq (x :: a) b -> subseq a b.
Proof.
  intro H. remember (x :: a) as xa eqn:E. revert x a E.
  induction H as [|y l1 l2 H IH|y l1 l2 H IH]; intros x a E; [discriminate | |].
  - constructor. eapply IH; exact E.
  - inversion E; subst. constructor. exact H.
Qed.

Lemma subseq_trans {A} (a b c : list A) : subseq a b -> subseq b c -> subseq a c.
Proof.
  intros Hab Hbc. revert a Hab.
  induction Hbc as [|y l1 l2 H IH|y l1 l2 H IH]; intros a Hab.
  - exact Hab.
  - constructor. apply IH, Hab.
  - inversion Hab; subst; constructor; apply IH; assumption.
Qed.

Lemma subseq_length {A} (a b : list A) : subseq a b -> (length a <= length b)%nat.
Proof. intro H; induction H; cbn; lia. Qed.

Lemma subseq_In {A} (a b : list A) x : subseq a b -> In x a -> In x b.
Proof.
  intro H; induction H; cbn; [tauto | intro; right; auto |].
  intros [->|Hx]; [left; reflexivity | right; auto].
Qed.

(** ** The tree property *)
Fixpoint tree_sub (b : block) : Prop :=
  match b with
  | Block _ _ _ _ _ ctx kids =>
      (fix go (ks : list block) : Prop :=
         match ks with
         | [] => True
         | k :: ks' => (subseq (b_ctx k) ctx /\ tree_sub k) /\ go ks'
         end) kids
  end.

Lemma tree_sub_unfold b :
  tree_sub b <-> Forall (fun k => subseq (b_ctx k) (b_ctx b) /\ tree_sub k) (b_kids b).
Proof.
  destruct b as [v i l r m ctx kids]. cbn [tree_sub b_ctx b_kids].
  induction kids as [|k ks IH]; [split; constructor|].
  split.
  - intros [Hk Hks]. constructor; [exact Hk | apply IH, Hks].
  - intro H. inversion H; subst. split; [assumption | apply IH; assumption].
Qed.

(** induction over blocks with the hypothesis for every finished child *)
Section BlockInd.
  Variable P : block -> Prop.
  Hypothesis HB : forall b, Forall P (b_kids b) -> P b.
  Fixpoint block_ind' (b : block) : P b :=
    match b with
    | Block v i l r m c ks =>
        HB (Block v i l r m c ks)
           ((fix go (ks : list block) : Forall P ks :=
               match ks with
               | [] => Forall_nil _
               | k :: ks' => Forall_cons k (block_ind' k) (go ks')
               end) ks)
    end.
End BlockInd.

(** the property only looks at a block's stack and children; a longer stack keeps it *)
Lemma tree_sub_ext b b' :
  b_kids b' = b_kids b -> subseq (b_ctx b) (b_ctx b') -> tree_sub b -> tree_sub b'.
Proof.
  intros Hk Hc H. apply tree_sub_unfold. apply tree_sub_unfold in H. rewrite Hk.
  eapply Forall_impl; [|exact H]. intros k [H1 H2]. split; [eapply subseq_trans; eassumption | exact H2].
Qed.

Lemma Forall_update_nth {A} (Q Q' : A -> Prop) f : forall k l,
  (forall x, Q x -> Q' x) -> (forall x, Q x -> Q' (f x)) ->
  Forall Q l -> Forall Q' (update_nth k f l).
Proof.
  intros k l H1 H2 H. revert k. induction H as [|x l Hx Hl IH]; intros k; [destruct k; constructor|].
  destruct k; cbn [update_nth]; constructor; auto.
  eapply Forall_impl; [|exact Hl]. exact H1.
Qed.

(** ** The invariant *)
Fixpoint chain_ok (cs : list (list instr)) : Prop :=
  match cs with
  | c :: ((p :: _) as r) => subseq c p /\ chain_ok r
  | _ => True
  end.

Record Inv_tree (s : bst) : Prop := {
  it_chain : chain_ok (map b_ctx (frames s));
  it_trees : Forall tree_sub (frames s) }.

Lemma chain_ok_snoc_all l : forall cs, chain_ok cs -> chain_ok (map (fun c => c ++ l) cs).
Proof.
  induction cs as [|c cs IH]; [trivial|]. destruct cs as [|p r]; [trivial|].
  intros [H1 H2]. split; [apply subseq_app_both, H1 | apply IH, H2].
Qed.

(** every live block is changed by [g], which appends [l] to its stack and keeps its children *)
Lemma Inv_tree_map g l s e :
  (forall b, b_ctx (g b) = b_ctx b ++ l) -> (forall b, b_kids (g b) = b_kids b) ->
  Inv_tree s -> Inv_tree (BSt (map g (frames s)) e).
Proof.
  intros Hc Hk [Hch Htr]. constructor; cbn [frames].
  - rewrite map_map. rewrite (map_ext _ (fun b => b_ctx b ++ l) Hc).
    rewrite <- (map_map b_ctx (fun c => c ++ l)). apply chain_ok_snoc_all, Hch.
  - apply Forall_forall. intros b' Hb'. apply in_map_iff in Hb' as (b & <- & Hb).
    rewrite Forall_forall in Htr. apply (tree_sub_ext b); [apply Hk | | apply Htr, Hb].
    rewrite Hc. apply subseq_app_r, subseq_refl.
Qed.

Lemma Inv_tree_neutral g s e :
  (forall b, b_ctx (g b) = b_ctx b) -> (forall b, b_kids (g b) = b_kids b) ->
  Inv_tree s -> Inv_tree (BSt (map g (frames s)) e).
Proof.
  intros Hc Hk. apply (Inv_tree_map g []); [|exact Hk]. intro b. rewrite Hc, app_nil_r. reflexivity.
Qed.

Lemma Inv_tree_push i s e : Inv_tree s -> Inv_tree (BSt (map (push_ctx i) (frames s)) e).
Proof. apply (Inv_tree_map (push_ctx i) [i]); reflexivity. Qed.

(** the head block keeps its stack and its children *)
Lemma Inv_tree_head (g : block -> block) s e :
  (forall b, b_ctx (g b) = b_ctx b) -> (forall b, b_kids (g b) = b_kids b) ->
  Inv_tree s ->
  Inv_tree (BSt (match frames s with b :: r => g b :: r | [] => [] end) e).
Proof.
  intros Hc Hk [Hch Htr]. destruct (frames s) as [|b r]; constructor; cbn [frames map] in *;
    try assumption.
  - rewrite Hc. exact Hch.
  - inversion Htr; subst. constructor; [|assumption].
    apply (tree_sub_ext b); [apply Hk | rewrite Hc; apply subseq_refl | assumption].
Qed.

Lemma step2_Inv_tree s s' : step2 s s' -> Inv_tree s -> Inv_tree s'.
Proof.
  intros Hstep Hinv.
  destruct Hstep as [mk s Hd Hp Hr | s | i s Hd Hp Hr | er s | x val er s Hfresh | er s | n s | e s
                    | s | c p r e | k i s Hd Hp Hr].
  - unfold st_alloc, st_emit. apply Inv_tree_push.
    unfold st_inc. apply Inv_tree_neutral; try reflexivity. exact Hinv.
  - unfold st_inc. apply Inv_tree_neutral; try reflexivity. exact Hinv.
  - unfold st_emit. apply Inv_tree_push, Hinv.
  - unfold st_return. apply Inv_tree_neutral; try reflexivity. unfold st_emit. apply Inv_tree_push, Hinv.
  - unfold st_emit. apply Inv_tree_push.
    unfold st_inner. apply Inv_tree_neutral; try reflexivity.
    unfold st_value. apply (Inv_tree_head (set_value x val)); try reflexivity. exact Hinv.
  - unfold st_emit. apply Inv_tree_push, Hinv.
  - unfold st_label. apply Inv_tree_neutral; try reflexivity. exact Hinv.
  - destruct Hinv as [Hch Htr]. constructor; assumption.
  - (* push: an empty block *)
    destruct Hinv as [Hch Htr]. unfold st_push. constructor; cbn [frames map].
    + destruct (frames s) as [|p r]; [exact I|]. cbn [new_child b_ctx map].
      split; [apply subseq_nil | exact Hch].
    + constructor; [|exact Htr]. destruct (frames s); exact I.
  - (* pop: the finished block becomes the last child of its parent *)
    destruct Hinv as [Hch Htr]. cbn [frames map] in *. destruct Hch as [Hcp Hch].
    inversion Htr as [|? ? Hc Htr']; subst. inversion Htr' as [|? ? Hp Hr]; subst.
    constructor; cbn [frames map add_kid b_ctx].
    + exact Hch.
    + constructor; [|exact Hr]. apply tree_sub_unfold. cbn [add_kid b_kids b_ctx].
      apply Forall_app. split; [apply tree_sub_unfold, Hp|].
      constructor; [split; assumption | constructor].
  - (* push through the k-th finished child of the head and through every live block *)
    destruct Hinv as [Hch Htr]. unfold st_emit, st_kid. cbn [frames].
    destruct (frames s) as [|p r] eqn:Ef.
    + constructor; cbn; [exact I | constructor].
    + constructor; cbn [frames].
      * change (map b_ctx (map (push_ctx i) (set_kids (update_nth k (push_ctx i) (b_kids p)) p :: r)))
          with (map b_ctx (map (push_ctx i) (p :: r))).
        rewrite map_map. cbn [push_ctx b_ctx].
        rewrite <- (map_map b_ctx (fun c => c ++ [i])). apply chain_ok_snoc_all, Hch.
      * inversion Htr as [|? ? Hp' Hr']; subst. cbn [map]. constructor.
        -- apply tree_sub_unfold. cbn [push_ctx set_kids b_kids b_ctx].
           apply tree_sub_unfold in Hp'.
           eapply Forall_update_nth; [| |exact Hp'].
           ++ intros x [H1 H2]. split; [apply subseq_app_r, H1 | exact H2].
           ++ intros x [H1 H2]. split; [cbn [push_ctx b_ctx]; apply subseq_app_both, H1|].
              apply (tree_sub_ext x); [reflexivity | apply subseq_app_r, subseq_refl | exact H2].
        -- apply Forall_forall. intros b' Hb'. apply in_map_iff in Hb' as (b & <- & Hb).
           rewrite Forall_forall in Hr'.
           apply (tree_sub_ext b); [reflexivity | apply subseq_app_r, subseq_refl | apply Hr', Hb].
Qed.

Lemma reach2_Inv_tree s s' : reach2 s s' -> Inv_tree s -> Inv_tree s'.
Proof. intros H; induction H; intro Hi; [exact Hi | eapply step2_Inv_tree; eauto]. Qed.

(** ** The parameter phase *)
Lemma init_func_params_tree : forall ps s a s',
  Inv_tree s -> init_func_params ps s = Ok a s' -> Inv_tree s'.
Proof.
  induction ps as [|[x t] ps IH]; intros s a s' Hinv H; cbn [init_func_params] in H.
  - inversion H; subst. exact Hinv.
  - unfold bind, lookup_value, gets in H.
    destruct (lookup_frames (iname x) (frames s)) as [v|].
    + apply add_error_eq in H as ->. destruct Hinv; constructor; assumption.
    + set (val := Value (iname x) (sem_of_ty t) false) in *.
      destruct (insert_value (iname x) val s) as [a1 s1| |] eqn:E1; try discriminate.
      apply insert_value_eq in E1 as ->.
      destruct (set_inner_name (iname x) (st_value (iname x) val s)) as [a2 s2| |] eqn:E2; try discriminate.
      apply set_inner_name_eq in E2 as ->.
      destruct (emit (IFnArg val (iname x) (sem_of_ty t)) _) as [a3 s3| |] eqn:E3; try discriminate.
      apply emit_eq in E3 as ->.
      eapply IH; [|exact H].
      unfold st_emit. apply Inv_tree_push.
      unfold st_inner. apply Inv_tree_neutral; try reflexivity.
      unfold st_value. apply (Inv_tree_head (set_value (iname x) val)); try reflexivity. exact Hinv.
Qed.

Lemma Inv_tree_init e : Inv_tree (BSt [empty_block] e).
Proof. constructor; cbn; [exact I | constructor; [exact I | constructor]]. Qed.

Lemma function_body_Inv_tree G errs0 f a s :
  function_body G errs0 f = Ok a s -> Inv_tree s.
Proof.
  unfold function_body, function_body_m. intro H. unfold bind in H.
  destruct (init_func_params (fn_params f) _) as [a1 s1| |] eqn:E1; try discriminate.
  destruct (fn_stmts G (fuel_of f) (sem_of_ty (fn_result f)) false (fn_body f) s1) as [ret s2| |] eqn:E2;
    try discriminate.
  pose proof (init_func_params_tree _ _ _ _ (Inv_tree_init errs0) E1) as H1.
  pose proof (reach2_Inv_tree _ _ (R2_fn_stmts G _ _ _ _ s1 _ _ E2) H1) as H2.
  destruct (negb ret); [apply add_error_eq in H as ->|inversion H; subst; exact H2].
  destruct H2; constructor; assumption.
Qed.

Lemma bodies_tree G : forall fs errs0 roots errs1 roots1,
  Forall tree_sub roots ->
  bodies G errs0 roots fs = inr (errs1, roots1) ->
  Forall tree_sub roots1.
Proof.
  induction fs as [|f fs IH]; intros errs0 roots errs1 roots1 Hroots H; cbn in H.
  - inversion H; subst. exact Hroots.
  - destruct (function_body G errs0 f) as [a s| |] eqn:E; try discriminate.
    destruct (frames s) as [|root [|]] eqn:Ef; try discriminate.
    eapply IH; [|exact H]. apply Forall_app; split; [exact Hroots|].
    pose proof (function_body_Inv_tree _ _ _ _ _ E) as [_ Htr].
    rewrite Ef in Htr. exact Htr.
Qed.

Lemma bodies_not_ok G : forall fs errs0 roots out, bodies G errs0 roots fs <> inl (ROk out).
Proof.
  induction fs as [|f fs IH]; intros e0 r0 out E; cbn in E; [discriminate|].
  destruct (function_body _ e0 f) as [a s| |]; try (inversion E; subst; discriminate).
  destruct (frames s) as [|root [|]]; try (inversion E; subst; discriminate).
  eapply IH; exact E.
Qed.

Lemma run_bodies p out :
  run p = ROk out ->
  exists errors,
    bodies (gs_globals (declarations p)) (gs_errs (declarations p)) [] (functions_of p)
    = inr (errors, o_fns out).
Proof.
  unfold run. intro H.
  destruct (bodies (gs_globals (declarations p)) (gs_errs (declarations p)) [] (functions_of p))
    as [r|[errors roots]] eqn:E.
  - subst r. exfalso. eapply bodies_not_ok, E.
  - inversion H; subst; clear H. exists errors. reflexivity.
Qed.

Theorem run_tree_subsequence p out : run p = ROk out -> Forall tree_sub (o_fns out).
Proof.
  intro H. apply run_bodies in H as (errors & E). eapply (bodies_tree _ _ _ _ _ _ (Forall_nil _) E).
Qed.

(** the direct reading: along every path of the tree, stacks shrink towards the leaves, so every
    block's stack is a subsequence of the function's complete stack *)
Inductive descendant : block -> block -> Prop :=
| desc_self b : descendant b b
| desc_kid b k d : In k (b_kids b) -> descendant k d -> descendant b d.

Lemma tree_sub_descendant b d : descendant b d -> tree_sub b -> subseq (b_ctx d) (b_ctx b) /\ tree_sub d.
Proof.
  intro H; induction H as [b | b k d Hk Hd IH]; intro Hb; [split; [apply subseq_refl | exact Hb]|].
  apply tree_sub_unfold in Hb. rewrite Forall_forall in Hb. destruct (Hb k Hk) as [H1 H2].
  destruct (IH H2) as [H3 H4]. split; [eapply subseq_trans; eassumption | exact H4].
Qed.

Theorem run_tree_descendants p out :
  run p = ROk out ->
  forall root d, In root (o_fns out) -> descendant root d -> subseq (b_ctx d) (b_ctx root).
Proof.
  intros H root d Hroot Hd. pose proof (run_tree_subsequence p out H) as Hf.
  rewrite Forall_forall in Hf. apply (tree_sub_descendant root d Hd (Hf root Hroot)).
Qed.

(** the statement without the recursive definition: every block anywhere in a function's tree
    holds a subsequence of the stack of the block that contains it *)
Theorem run_tree_parent_child p out :
  run p = ROk out ->
  forall root b k, In root (o_fns out) -> descendant root b -> In k (b_kids b) ->
                   subseq (b_ctx k) (b_ctx b).
Proof.
  intros H root b k Hroot Hd Hk. pose proof (run_tree_subsequence p out H) as Hf.
  rewrite Forall_forall in Hf. destruct (tree_sub_descendant root b Hd (Hf root Hroot)) as [_ Hb].
  apply tree_sub_unfold in Hb. rewrite Forall_forall in Hb. apply (Hb k Hk).
Qed.

(** conversely, the parent-child statement for every block below [b] is [tree_sub b] *)
Lemma tree_sub_of_parent_child : forall b,
  (forall d k, descendant b d -> In k (b_kids d) -> subseq (b_ctx k) (b_ctx d)) -> tree_sub b.
Proof.
  induction b as [b IH] using block_ind'. intro H. apply tree_sub_unfold.
  rewrite Forall_forall in *. intros k Hk. split; [apply (H b k (desc_self b) Hk)|].
  apply (IH k Hk). intros d k' Hd Hk'. apply (H d k'); [eapply desc_kid; eassumption | exact Hk'].
Qed.

(** ** The monitor [chk_C18_sub] decides the tree property *)
Lemma cmpop_eqb_eq a b : cmpop_eqb a b = true <-> a = b.
Proof. destruct a, b; cbn; split; intro H; try reflexivity; discriminate H. Qed.
Lemma logicop_eqb_eq a b : logicop_eqb a b = true <-> a = b.
Proof. destruct a, b; cbn; split; intro H; try reflexivity; discriminate H. Qed.

Lemma eres_val_eqb_eq a b : eres_val_eqb a b = true <-> a = b.
Proof.
  destruct a as [n|p], b as [m|q]; cbn; try (split; intro H; discriminate H).
  - rewrite N.eqb_eq. split; intro H; [subst | inversion H]; reflexivity.
  - rewrite prim_val_eqb_eq. split; intro H; [subst | inversion H]; reflexivity.
Qed.

Lemma eres_eqb_eq a b : eres_eqb a b = true <-> a = b.
Proof.
  destruct a as [t v], b as [t' v']. unfold eres_eqb. cbn.
  rewrite Bool.andb_true_iff, sem_ty_eqb_eq, eres_val_eqb_eq. split.
  - intros [H1 H2]; subst; reflexivity.
  - intro H; inversion H; split; reflexivity.
Qed.

Lemma instr_eqb_eq a b : instr_eqb a b = true <-> a = b.
Proof.
  destruct a, b; cbn [instr_eqb]; try (split; intro H; discriminate H);
    rewrite ?Bool.andb_true_iff, ?value_eqb_eq, ?N.eqb_eq, ?const_sem_eqb_eq, ?binop_eqb_eq,
      ?eres_eqb_eq, ?func_sem_eqb_eq, ?(list_eqb_eq _ eres_eqb_eq), ?String.eqb_eq,
      ?cmpop_eqb_eq, ?logicop_eqb_eq, ?sem_ty_eqb_eq;
    (split; [intro H; decompose [and] H; subst; reflexivity
            | intro H; inversion H; subst; repeat split; reflexivity]).
Qed.

Lemma subseqb_spec {A} (eqb : A -> A -> bool) :
  (forall x y, eqb x y = true <-> x = y) ->
  forall b a, subseqb eqb a b = true <-> subseq a b.
Proof.
  intro Heq. induction b as [|y b IH]; intros [|x a]; cbn [subseqb].
  - split; [constructor | reflexivity].
  - split; [discriminate | intro H; inversion H].
  - split; [intros _; apply subseq_nil | reflexivity].
  - destruct (eqb x y) eqn:E.
    + apply Heq in E. subst y. rewrite IH. split; [apply ss_take|].
      intro H. inversion H; subst; [eapply subseq_cons_l; eassumption | assumption].
    + assert (Hne : x <> y) by (intro Hxy; apply Heq in Hxy; congruence).
      rewrite IH. split; [apply ss_skip|].
      intro H. inversion H; subst; [assumption | congruence].
Qed.

Lemma chk_tree_sub_spec : forall b, chk_tree_sub b = true <-> tree_sub b.
Proof.
  induction b as [b IH] using block_ind'. destruct b as [v i l r m ctx kids].
  cbn [b_kids] in IH. cbn [chk_tree_sub tree_sub].
  induction IH as [|k ks Hk _ IHks]; [split; [constructor | reflexivity]|].
  rewrite !Bool.andb_true_iff, (subseqb_spec instr_eqb instr_eqb_eq), Hk, IHks. tauto.
Qed.

Theorem chk_C18_sub_spec o : chk_C18_sub o = true <-> Forall tree_sub (o_fns o).
Proof.
  unfold chk_C18_sub. rewrite forallb_forall, Forall_forall.
  split; intros H b Hb; apply chk_tree_sub_spec, H, Hb.
Qed.

(** * The shape of the tree *)

(** ** Unfoldings of the source shape *)
Lemma shapes_fix ss :
  (fix go (l : list stmt) : list shape :=
     match l with [] => [] | s' :: l' => shapes_stmt s' ++ go l' end) ss = shape_of_stmts ss.
Proof. induction ss as [|st ss IH]; [reflexivity|]. rewrite IH. reflexivity. Qed.

Lemma shapes_stmt_loop body : shapes_stmt (SLoop body) = [Sh (shape_of_stmts body)].
Proof. cbn [shapes_stmt]. rewrite shapes_fix. reflexivity. Qed.
Lemma shapes_body_if ss : shapes_body (IBIf ss) = shape_of_stmts ss.
Proof. cbn [shapes_body]. apply shapes_fix. Qed.
Lemma shapes_body_loop ss : shapes_body (IBLoop ss) = shape_of_stmts ss.
Proof. cbn [shapes_body]. apply shapes_fix. Qed.
Lemma shape_of_stmts_cons st ss : shape_of_stmts (st :: ss) = shapes_stmt st ++ shape_of_stmts ss.
Proof. reflexivity. Qed.

Lemma shape_of_block_unfold b : shape_of_block b = Sh (map shape_of_block (b_kids b)).
Proof. destruct b; reflexivity. Qed.

(** ** What the analysis does to the shapes of the children of the live blocks *)
Definition kshf (fs : list block) : list (list shape) :=
  map (fun b => map shape_of_block (b_kids b)) fs.
Definition ksh (s : bst) : list (list shape) := kshf (frames s).

(** computations that open and close no block *)
Definition Keeps {A} (m : M A) : Prop := forall s a s', m s = Ok a s' -> ksh s' = ksh s.

Lemma kshf_map g fs : (forall b, b_kids (g b) = b_kids b) -> kshf (map g fs) = kshf fs.
Proof. intro Hk. unfold kshf. rewrite map_map. apply map_ext. intro b. rewrite Hk. reflexivity. Qed.

Lemma Keeps_ret {A} (a : A) : Keeps (ret a).
Proof. intros s a' s' H; inversion H; reflexivity. Qed.
Lemma Keeps_bind {A B} (m : M A) (f : A -> M B) :
  Keeps m -> (forall a, Keeps (f a)) -> Keeps (bind m f).
Proof.
  intros Hm Hf s b s' H. unfold bind in H.
  destruct (m s) as [a s1| |] eqn:E; try discriminate.
  rewrite (Hf a _ _ _ H). exact (Hm _ _ _ E).
Qed.
Lemma Keeps_gets {A} (g : list block -> A) : Keeps (gets g).
Proof. intros s a s' H; inversion H; reflexivity. Qed.
Lemma Keeps_panic {A} k : Keeps (@panic A k).
Proof. intros s a s' H; discriminate. Qed.
Lemma Keeps_oof {A} : Keeps (@out_of_fuel A).
Proof. intros s a s' H; discriminate. Qed.
Lemma Keeps_when b m : Keeps m -> Keeps (when b m).
Proof. intro H; destruct b; [exact H | apply Keeps_ret]. Qed.
Lemma Keeps_upd_map g : (forall b, b_kids (g b) = b_kids b) -> Keeps (upd_frames (map g)).
Proof. intros Hk s a s' H. inversion H. unfold ksh. cbn [frames]. apply kshf_map, Hk. Qed.
Lemma Keeps_inc_register : Keeps inc_register.
Proof. intros s a s' H. inversion H. unfold ksh. cbn [frames]. apply kshf_map. reflexivity. Qed.
Lemma Keeps_emit i : Keeps (emit i).
Proof. apply Keeps_upd_map. reflexivity. Qed.
Lemma Keeps_set_inner n : Keeps (set_inner_name n).
Proof. apply Keeps_upd_map. reflexivity. Qed.
Lemma Keeps_set_label n : Keeps (set_label_name n).
Proof. apply Keeps_upd_map. reflexivity. Qed.
Lemma Keeps_set_return : Keeps set_return.
Proof. apply Keeps_upd_map. reflexivity. Qed.
Lemma Keeps_bump : Keeps bump.
Proof. unfold bump. apply Keeps_bind; [apply Keeps_inc_register | intro; apply Keeps_gets]. Qed.
Lemma Keeps_alloc_emit mk : Keeps (alloc_emit mk).
Proof.
  unfold alloc_emit. apply Keeps_bind; [apply Keeps_inc_register | intros _].
  apply Keeps_bind; [apply Keeps_gets | intro r].
  apply Keeps_bind; [apply (Keeps_emit (mk r)) | intros _; apply Keeps_ret].
Qed.
Lemma Keeps_insert_value x v : Keeps (insert_value x v).
Proof.
  intros s a s' H. inversion H. unfold ksh. cbn [frames]. destruct (frames s); reflexivity.
Qed.
Lemma Keeps_add_error e : Keeps (add_error e).
Proof. intros s a s' H. inversion H. reflexivity. Qed.
Lemma Keeps_next_inner_name fuel n : Keeps (next_inner_name fuel n).
Proof. intros s a s' H. apply next_inner_name_spec in H as [-> _]. reflexivity. Qed.
Lemma Keeps_label_probe fuel : forall n, Keeps (label_probe fuel n).
Proof.
  induction fuel as [|f IH]; intros n s a s' H; cbn in H; [discriminate|].
  destruct (set_attr_counter n) as [n'|]; [|discriminate].
  destruct (label_exists n' (frames s)); [eapply IH; exact H|].
  revert H. apply (Keeps_bind (set_label_name n') (fun _ => ret n')); [apply Keeps_set_label|].
  intro; apply Keeps_ret.
Qed.

Lemma shape_of_block_push_ctx i b : shape_of_block (push_ctx i b) = shape_of_block b.
Proof. destruct b; reflexivity. Qed.
Lemma map_shape_update_nth i : forall k l,
  map shape_of_block (update_nth k (push_ctx i) l) = map shape_of_block l.
Proof.
  intros k l; revert k. induction l as [|x l IH]; intros [|k]; cbn [update_nth map]; try reflexivity.
  - rewrite shape_of_block_push_ctx. reflexivity.
  - rewrite IH. reflexivity.
Qed.
(** a push through a finished child changes its stack, not the tree *)
Lemma Keeps_emit_kid k i : Keeps (emit_kid k i).
Proof.
  intros s a s' H. apply emit_kid_eq in H as ->. unfold ksh, st_emit, st_kid. cbn [frames].
  rewrite kshf_map by reflexivity. destruct (frames s) as [|p r]; [reflexivity|].
  cbn [kshf map set_kids b_kids]. rewrite map_shape_update_nth. reflexivity.
Qed.

Ltac k_prim :=
  first
    [ apply Keeps_ret | apply Keeps_gets | apply Keeps_panic | apply Keeps_oof | apply Keeps_bump
    | apply Keeps_alloc_emit | apply Keeps_emit | apply Keeps_emit_kid | apply Keeps_set_label
    | apply Keeps_set_inner | apply Keeps_set_return | apply Keeps_insert_value
    | apply Keeps_add_error | apply Keeps_next_inner_name | apply Keeps_label_probe ].

Ltac k_go :=
  repeat first
    [ k_prim
    | match goal with H : _ |- Keeps _ => solve [apply H] end
    | apply Keeps_when
    | apply Keeps_bind; [| intros ?]
    | match goal with |- Keeps (match ?x with _ => _ end) => destruct x end
    | match goal with |- Keeps (if ?b then _ else _) => destruct b end
    | progress cbv zeta ].

Lemma Keeps_gen_label base : Keeps (gen_label base).
Proof. unfold gen_label. k_go. Qed.

(** computations that add the children [sh] to the block being analysed and leave the children of
    the blocks below untouched, and their composition with block opening and closing *)
Definition Tr {A} (sh : list shape) (m : M A) : Prop :=
  forall s a s' h r, m s = Ok a s' -> ksh s = h :: r -> ksh s' = (h ++ sh) :: r.
Definition Sp {A} (m : M A) (L L' : list (list shape)) : Prop :=
  forall s a s', m s = Ok a s' -> ksh s = L -> ksh s' = L'.

Lemma Tr_of_Sp {A} sh (m : M A) : (forall h r, Sp m (h :: r) ((h ++ sh) :: r)) -> Tr sh m.
Proof. intros H s a s' h r Hm Hs. exact (H h r s a s' Hm Hs). Qed.
Lemma Sp_of_Tr {A} sh (m : M A) h r : Tr sh m -> Sp m (h :: r) ((h ++ sh) :: r).
Proof. intros H s a s' Hm Hs. exact (H s a s' h r Hm Hs). Qed.
Lemma Sp_bind {A B} (m : M A) (f : A -> M B) L L1 L2 :
  Sp m L L1 -> (forall a, Sp (f a) L1 L2) -> Sp (bind m f) L L2.
Proof.
  intros Hm Hf s b s' H Hs. unfold bind in H.
  destruct (m s) as [a s1| |] eqn:E; try discriminate.
  exact (Hf a s1 b s' H (Hm s a s1 E Hs)).
Qed.
Lemma Sp_keeps {A} (m : M A) L : Keeps m -> Sp m L L.
Proof. intros Hk s a s' H Hs. rewrite (Hk s a s' H). exact Hs. Qed.
Lemma Sp_conseq {A} (m : M A) L L1 L2 : Sp m L L1 -> L1 = L2 -> Sp m L L2.
Proof. intros H <-. exact H. Qed.
Lemma Sp_push L : Sp push_child L ([] :: L).
Proof.
  intros s a s' H Hs. apply push_child_eq in H as ->. unfold ksh, st_push. cbn [frames kshf map].
  fold (kshf (frames s)). fold (ksh s). rewrite Hs. destruct (frames s); reflexivity.
Qed.
Lemma Sp_pop c p r : Sp pop_child (c :: p :: r) ((p ++ [Sh c]) :: r).
Proof.
  intros s k s' H Hs. apply pop_child_eq in H as (cb & pb & rb & Hf & -> & _).
  unfold ksh in *. rewrite Hf in Hs. cbn [frames kshf map] in *. inversion Hs; subst.
  cbn [add_kid b_kids]. rewrite map_app. cbn [map]. rewrite shape_of_block_unfold. reflexivity.
Qed.

Lemma Tr_keeps {A} (m : M A) : Keeps m -> Tr [] m.
Proof. intros Hk s a s' h r H Hs. rewrite (Hk s a s' H), app_nil_r. exact Hs. Qed.
Lemma Tr_bind {A B} sh1 sh2 (m : M A) (f : A -> M B) :
  Tr sh1 m -> (forall a, Tr sh2 (f a)) -> Tr (sh1 ++ sh2) (bind m f).
Proof.
  intros Hm Hf. apply Tr_of_Sp. intros h r. rewrite app_assoc.
  eapply Sp_bind; [apply Sp_of_Tr, Hm | intro a; apply Sp_of_Tr, Hf].
Qed.
Lemma Tr_bind_keeps_l {A B} sh (m : M A) (f : A -> M B) :
  Keeps m -> (forall a, Tr sh (f a)) -> Tr sh (bind m f).
Proof. intros Hm Hf. apply (Tr_bind [] sh); [apply Tr_keeps, Hm | exact Hf]. Qed.
Lemma Tr_bind_keeps_r {A B} sh (m : M A) (f : A -> M B) :
  Tr sh m -> (forall a, Keeps (f a)) -> Tr sh (bind m f).
Proof.
  intros Hm Hf. rewrite <- (app_nil_r sh). apply Tr_bind; [exact Hm | intro a; apply Tr_keeps, Hf].
Qed.
Lemma Tr_oof {A} sh : Tr sh (@out_of_fuel A).
Proof. intros s a s' h r H; discriminate. Qed.
Lemma Tr_panic {A} sh k : Tr sh (@panic A k).
Proof. intros s a s' h r H; discriminate. Qed.

(** ** The syntax-directed pass: expressions and simple statements open no block *)
Section ShapeBody.
  Variable G : globals.

  Lemma Keeps_check_type_exists t v l : Keeps (check_type_exists G t v l).
  Proof. unfold check_type_exists. k_go. Qed.

  Section Expr.
    Variable E : expr -> M (option eres).
    Hypothesis HE : forall e, Keeps (E e).

    Lemma Keeps_call_args callee params : forall args i acc, Keeps (call_args E callee params i args acc).
    Proof. induction args as [|a args IH]; intros i acc; cbn [call_args]; k_go. Qed.

    Lemma Keeps_function_call f args : Keeps (function_call G E f args).
    Proof. unfold function_call. pose proof Keeps_call_args. k_go. Qed.

    Lemma Keeps_expr_value v : Keeps (expr_value G E v).
    Proof.
      pose proof Keeps_function_call. pose proof Keeps_check_type_exists.
      destruct v; cbn [expr_value]; k_go.
    Qed.

    Lemma Keeps_expr_chain : forall rest left, Keeps (expr_chain G E left rest).
    Proof.
      pose proof Keeps_expr_value.
      induction rest as [|[op v] rest IH]; intros left; cbn [expr_chain]; k_go.
    Qed.

    Lemma Keeps_expression_body e : Keeps (expression_body G E e).
    Proof. pose proof Keeps_expr_value. pose proof Keeps_expr_chain. unfold expression_body. k_go. Qed.
  End Expr.

  Lemma Keeps_expression fuel : forall e, Keeps (expression G fuel e).
  Proof.
    induction fuel as [|f IH]; intros e; cbn [expression]; [apply Keeps_oof|].
    apply Keeps_expression_body; exact IH.
  Qed.

  Section Stmts.
    Variable fuel : nat.
    Variable RT : sem_ty.

    Lemma Keeps_let_binding x m t e : Keeps (let_binding G fuel x m t e).
    Proof. pose proof (Keeps_expression fuel). unfold let_binding. k_go. Qed.

    Lemma Keeps_binding x e : Keeps (binding G fuel x e).
    Proof. pose proof (Keeps_expression fuel). unfold binding. k_go. Qed.

    Lemma Keeps_call_stmt f args : Keeps (call_stmt G fuel f args).
    Proof.
      unfold call_stmt. apply Keeps_bind; [|intro; apply Keeps_ret].
      apply Keeps_function_call. apply Keeps_expression.
    Qed.

    Lemma Keeps_condition_expression c : Keeps (condition_expression G fuel c).
    Proof.
      pose proof (Keeps_expression fuel).
      induction c as [l c r | l c r op n IH] using lcond_ind'; cbn [condition_expression]; k_go.
    Qed.

    Lemma Keeps_if_condition_calculation c lb le lend ie :
      Keeps (if_condition_calculation G fuel c lb le lend ie).
    Proof.
      pose proof (Keeps_expression fuel). pose proof Keeps_condition_expression.
      unfold if_condition_calculation. k_go.
    Qed.

    Lemma Keeps_check_return_type er : Keeps (check_return_type RT er).
    Proof. unfold check_return_type. k_go. Qed.

    Lemma Keeps_code_after_errors k fl : Keeps (code_after_errors k fl).
    Proof. unfold code_after_errors. k_go. Qed.

    (** ** The control functions: a Hoare-style pass *)
    Section Control.
      Variable IFC : ifstmt -> option string -> option (string * string) -> M unit.
      Variable LOOP : list stmt -> M unit.
      Hypothesis HIFC : forall i le ll, Tr (shapes_if i) (IFC i le ll).
      Hypothesis HLOOP : forall b, Tr [Sh (shape_of_stmts b)] (LOOP b).

      Lemma Tr_nested_stmt k lend lloop fl st :
        Tr (shapes_stmt st) (nested_stmt G fuel RT IFC LOOP k lend lloop fl st).
      Proof.
        pose proof (Keeps_expression fuel). pose proof Keeps_let_binding. pose proof Keeps_binding.
        pose proof Keeps_call_stmt. pose proof Keeps_check_return_type.
        destruct st; cbn [nested_stmt]; try rewrite shapes_stmt_loop; cbn [shapes_stmt];
          try solve [apply Tr_keeps; k_go].
        - apply Tr_bind_keeps_r; [destruct k; apply HIFC | intro; apply Keeps_ret].
        - apply Tr_bind_keeps_r; [apply HLOOP | intro; apply Keeps_ret].
      Qed.

      Lemma Tr_run_body k lend lloop : forall ss fl,
        Tr (shape_of_stmts ss) (run_body G fuel RT IFC LOOP k lend lloop fl ss).
      Proof.
        induction ss as [|st ss IH]; intros fl; cbn [run_body].
        - apply Tr_keeps, Keeps_ret.
        - rewrite shape_of_stmts_cons.
          apply Tr_bind_keeps_l; [apply Keeps_code_after_errors | intros _].
          apply Tr_bind; [apply Tr_nested_stmt | intro fl'; apply IH].
      Qed.

      Lemma Tr_if_body b lend lloop :
        Tr (shapes_body b) (if_body G fuel RT IFC LOOP b lend lloop).
      Proof.
        destruct b as [ss|ss]; cbn [if_body].
        - rewrite shapes_body_if.
          apply Tr_bind_keeps_r; [apply Tr_run_body | intro; apply Keeps_ret].
        - rewrite shapes_body_loop. destruct lloop; [|apply Tr_panic].
          apply Tr_bind_keeps_r; [apply Tr_run_body | intro; apply Keeps_ret].
      Qed.

      Ltac sp_k := eapply Sp_bind; [apply Sp_keeps; k_go | intros ?].
      Ltac sp_end := eapply Sp_conseq; [apply Sp_keeps; k_go |].

      Lemma Tr_if_condition_step i le ll :
        Tr (shapes_if i) (if_condition_step G fuel RT IFC LOOP i le ll).
      Proof.
        pose proof Keeps_gen_label. pose proof Keeps_if_condition_calculation.
        destruct i as [c body els elif]. apply Tr_of_Sp. intros h r.
        destruct els as [eb|]; [|destruct elif as [ei|]];
          cbn [if_condition_step is_some orb andb shapes_if].
        - (* then and else: two blocks *)
          sp_k. eapply Sp_bind; [apply Sp_push | intros _].
          sp_k. sp_k. sp_k. cbv zeta. sp_k. sp_k.
          eapply Sp_bind; [apply Sp_of_Tr, Tr_if_body | intros returned].
          sp_k. sp_k.
          eapply Sp_bind; [apply Sp_pop | intros slot].
          eapply Sp_bind; [| intros _; sp_end; reflexivity].
          eapply Sp_bind; [apply Sp_push | intros _].
          eapply Sp_bind; [apply Sp_of_Tr, Tr_if_body | intros returned'].
          eapply Sp_bind; [apply Sp_pop | intros _].
          sp_end. cbn [app]. rewrite <- app_assoc. reflexivity.
        - (* then and else-if: the blocks of the else-if are siblings *)
          sp_k. eapply Sp_bind; [apply Sp_push | intros _].
          sp_k. sp_k. sp_k. cbv zeta. sp_k. sp_k.
          eapply Sp_bind; [apply Sp_of_Tr, Tr_if_body | intros returned].
          sp_k. sp_k.
          eapply Sp_bind; [apply Sp_pop | intros slot].
          eapply Sp_bind; [| intros _; sp_end; reflexivity].
          eapply Sp_conseq; [apply Sp_of_Tr, HIFC|].
          cbn [app]. rewrite <- app_assoc. reflexivity.
        - (* then only *)
          sp_k. eapply Sp_bind; [apply Sp_push | intros _].
          sp_k. sp_k. sp_k. cbv zeta. sp_k. sp_k.
          eapply Sp_bind; [apply Sp_of_Tr, Tr_if_body | intros returned].
          sp_k. sp_k.
          eapply Sp_bind; [apply Sp_pop | intros _].
          sp_end. reflexivity.
      Qed.

      Lemma Tr_loop_step body :
        Tr [Sh (shape_of_stmts body)] (loop_step G fuel RT IFC LOOP body).
      Proof.
        pose proof Keeps_gen_label. apply Tr_of_Sp. intros h r. unfold loop_step.
        eapply Sp_bind; [apply Sp_push | intros _].
        sp_k. sp_k. sp_k. sp_k.
        eapply Sp_bind; [apply Sp_of_Tr, Tr_run_body | intros fl].
        sp_k.
        eapply Sp_bind; [apply Sp_pop | intros _].
        sp_end. reflexivity.
      Qed.
    End Control.

    Lemma Tr_control n :
      (forall i le ll, Tr (shapes_if i) (if_condition G fuel RT n i le ll)) /\
      (forall b, Tr [Sh (shape_of_stmts b)] (loop_statement G fuel RT n b)).
    Proof.
      induction n as [|n [IH1 IH2]]; split; intros; cbn [if_condition loop_statement];
        try apply Tr_oof.
      - apply Tr_if_condition_step; assumption.
      - apply Tr_loop_step; assumption.
    Qed.

    Lemma Tr_fn_stmt returned st : Tr (shapes_stmt st) (fn_stmt G fuel RT returned st).
    Proof.
      pose proof (Keeps_expression fuel). pose proof Keeps_let_binding. pose proof Keeps_binding.
      pose proof Keeps_call_stmt. pose proof Keeps_check_type_exists.
      destruct (Tr_control fuel) as [HI HL].
      destruct st; cbn [fn_stmt]; try rewrite shapes_stmt_loop; cbn [shapes_stmt];
        try solve [apply Tr_keeps; k_go].
      - apply Tr_bind_keeps_r; [apply HI | intro; apply Keeps_ret].
      - apply Tr_bind_keeps_r; [apply HL | intro; apply Keeps_ret].
    Qed.

    Lemma Tr_fn_stmts : forall ss returned, Tr (shape_of_stmts ss) (fn_stmts G fuel RT returned ss).
    Proof.
      induction ss as [|st ss IH]; intros returned; cbn [fn_stmts].
      - apply Tr_keeps, Keeps_ret.
      - rewrite shape_of_stmts_cons.
        apply Tr_bind_keeps_l; [k_go | intros _].
        apply Tr_bind; [apply Tr_fn_stmt | intro r'; apply IH].
    Qed.

    Lemma Keeps_init_func_params : forall ps, Keeps (init_func_params ps).
    Proof. induction ps as [|[x t] ps IH]; cbn [init_func_params]; k_go. Qed.
  End Stmts.

  Lemma function_body_shape errs0 f a s root :
    function_body G errs0 f = Ok a s -> frames s = [root] ->
    shape_of_block root = Sh (shape_of_stmts (fn_body f)).
  Proof.
    unfold function_body, function_body_m. intros H Hroot.
    assert (HT : Tr (shape_of_stmts (fn_body f))
                    (init_func_params (fn_params f) ;;;
                     returned <- fn_stmts G (fuel_of f) (sem_of_ty (fn_result f)) false (fn_body f) ;;
                     when (negb returned)
                          (add_error (Err EReturnNotFound (Some "") (iloc (fn_name f)))))).
    { apply Tr_bind_keeps_l; [apply Keeps_init_func_params | intros _].
      apply Tr_bind_keeps_r; [apply Tr_fn_stmts | intro; k_go]. }
    specialize (HT _ _ _ [] [] H eq_refl). unfold ksh in HT. rewrite Hroot in HT.
    cbn [kshf map app] in HT. inversion HT as [Hk]. rewrite shape_of_block_unfold, Hk. reflexivity.
  Qed.

  Lemma bodies_shape : forall fs errs0 roots errs1 roots1,
    bodies G errs0 roots fs = inr (errs1, roots1) ->
    map shape_of_block roots1
    = map shape_of_block roots ++ map (fun f => Sh (shape_of_stmts (fn_body f))) fs.
  Proof.
    induction fs as [|f fs IH]; intros errs0 roots errs1 roots1 H; cbn in H.
    - inversion H; subst. cbn. rewrite app_nil_r. reflexivity.
    - destruct (function_body G errs0 f) as [a s| |] eqn:E; try discriminate.
      destruct (frames s) as [|root [|]] eqn:Ef; try discriminate.
      rewrite (IH _ _ _ _ H), map_app. cbn [map].
      rewrite (function_body_shape _ _ _ _ _ E Ef), <- app_assoc. reflexivity.
  Qed.
End ShapeBody.

(** The tree of every function mirrors the nesting of its source: for every program on which the
    analysis terminates, accepted or rejected (no hypothesis on the diagnostics is needed: the
    analysis never stops early after a diagnostic). *)
Theorem run_tree_shape p out :
  run p = ROk out ->
  map shape_of_block (o_fns out)
  = map (fun f => Sh (shape_of_stmts (fn_body f))) (functions_of p).
Proof. intro H. apply run_bodies in H as (errors & E). exact (bodies_shape _ _ _ _ _ _ E). Qed.

(** the statement as it was asked, with the superfluous hypothesis *)
Corollary run_tree_shape_accepted p out :
  run p = ROk out -> o_errors out = [] ->
  map shape_of_block (o_fns out)
  = map (fun f => Sh (shape_of_stmts (fn_body f))) (functions_of p).
Proof. intros H _. exact (run_tree_shape p out H). Qed.

(** ** The monitor [chk_C18_shape] decides the shape equation *)
Section ShapeInd.
  Variable P : shape -> Prop.
  Hypothesis HS : forall ks, Forall P ks -> P (Sh ks).
  Fixpoint shape_ind' (x : shape) : P x :=
    match x with
    | Sh ks =>
        HS ks ((fix go (ks : list shape) : Forall P ks :=
                  match ks with
                  | [] => Forall_nil _
                  | k :: ks' => Forall_cons k (shape_ind' k) (go ks')
                  end) ks)
    end.
End ShapeInd.

Lemma shape_eqb_eq : forall a b, shape_eqb a b = true <-> a = b.
Proof.
  induction a as [ka IH] using shape_ind'. intros [kb]. cbn [shape_eqb].
  match goal with |- ?g ka kb = true <-> _ => assert (Hgo : g ka kb = true <-> ka = kb) end.
  { revert kb. induction IH as [|x l Hx _ IHl]; intros [|y l'];
      try (split; intro H; discriminate H); [split; reflexivity|].
    rewrite Bool.andb_true_iff, Hx, IHl. split.
    - intros [H1 H2]; subst; reflexivity.
    - intro H; inversion H; split; reflexivity. }
  rewrite Hgo. split; intro H; [subst | inversion H]; reflexivity.
Qed.

Theorem chk_C18_shape_spec p o :
  chk_C18_shape p o = true <->
  map shape_of_block (o_fns o) = map (fun f => Sh (shape_of_stmts (fn_body f))) (functions_of p).
Proof. unfold chk_C18_shape. apply (list_eqb_eq _ shape_eqb_eq). Qed.

(** the monitors accept the output of every terminating analysis *)
Theorem run_chk_C18 p out : run p = ROk out -> chk_C18 p out = true.
Proof.
  intro H. unfold chk_C18. apply Bool.andb_true_iff. split.
  - apply chk_C18_sub_spec, (run_tree_subsequence p out H).
  - apply chk_C18_shape_spec, (run_tree_shape p out H).
Qed.

Print Assumptions run_tree_subsequence.
Print Assumptions run_tree_descendants.
Print Assumptions run_tree_parent_child.
Print Assumptions chk_C18_sub_spec.
Print Assumptions run_tree_shape.
Print Assumptions chk_C18_shape_spec.
Print Assumptions run_chk_C18.
