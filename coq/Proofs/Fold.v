(** C07, proof side: [Model.fold_priority] builds the unique well-bracketed tree of a chain.

    The level passes of the model work on [expr_val] operands, where a bracket made by the
    fold is [EVSub (Expr l [(op, r)])].  We lift them to chains whose operands are [tree]s
    ([tfetch]), show that [embed] commutes with the passes ([fetch_embed], [fold_embed]), and
    prove the invariant of the pass sequence on trees:

      before the pass of level [p], every operand is a well-bracketed tree all of whose
      operators have priority > p, and every operator left on the chain has priority <= p;
      the pass of level [p] folds each maximal run of level-[p] operators to the left.

    The priority table enters through [prio_le_max] only, which is re-checked by computation
    whenever [Gen/Priority.v] is regenerated. *)
From Coq Require Import Lia.
From SA Require Import Model.
From SA.Spec Require Import Bracket.
Local Open Scope list_scope.

(** ** The side condition on the published table *)
Lemma prio_le_max : forall o, prio o <= max_prio.
Proof. destruct o; vm_compute; discriminate. Qed.

(** ** Trees as operands of the model *)
Fixpoint embed (t : tree) : expr_val :=
  match t with
  | Leaf v => v
  | Node l o r => EVSub (Expr (embed l) [(o, embed r)])
  end.

(** chains with tree operands *)
Definition tchain := list (binop * tree).

Definition emap (rest : tchain) : links :=
  map (fun ot => (fst ot, embed (snd ot))) rest.

Definition leaf_chain (rest : links) : tchain :=
  map (fun ov => (fst ov, Leaf (snd ov))) rest.

Lemma emap_leaf_chain rest : emap (leaf_chain rest) = rest.
Proof.
  induction rest as [|[o v] rest IH]; [reflexivity|].
  cbn [leaf_chain emap map fst snd embed]. fold (leaf_chain rest). fold (emap (leaf_chain rest)).
  rewrite IH. reflexivity.
Qed.

(** ** The level pass on trees, and its agreement with [Model.fetch] *)
Fixpoint tfetch (p : N) (h : tree) (rest : tchain) : tree * tchain :=
  match rest with
  | [] => (h, [])
  | (o, v) :: r =>
      if N.eqb (prio o) p then tfetch p (Node h o v) r
      else let '(h', r') := tfetch p v r in (h, (o, h') :: r')
  end.

Lemma fetch_embed p : forall rest h,
  fetch p (embed h) (emap rest) =
  (embed (fst (tfetch p h rest)), emap (snd (tfetch p h rest))).
Proof.
  induction rest as [|[o v] r IH]; intros h.
  - reflexivity.
  - cbn [emap map fst snd fetch tfetch]. fold (emap r).
    destruct (N.eqb (prio o) p).
    + exact (IH (Node h o v)).
    + rewrite (IH v). destruct (tfetch p v r) as [h' r']. reflexivity.
Qed.

Definition tfold (ls : list N) (h : tree) (rest : tchain) : tree * tchain :=
  fold_left (fun acc p => tfetch p (fst acc) (snd acc)) ls (h, rest).

Lemma fold_embed : forall ls h rest,
  fold_left (fun acc p => fetch p (fst acc) (snd acc)) ls (embed h, emap rest) =
  (embed (fst (tfold ls h rest)), emap (snd (tfold ls h rest))).
Proof.
  unfold tfold.
  induction ls as [|p ls IH]; intros h rest; cbn [fold_left fst snd].
  - reflexivity.
  - rewrite fetch_embed. destruct (tfetch p h rest) as [h1 r1]. cbn [fst snd]. apply IH.
Qed.

(** ** The flat chain a tree chain denotes *)
Fixpoint clinks (rest : tchain) : links :=
  match rest with
  | [] => []
  | (o, t) :: r => (o, thead t) :: tlinks t ++ clinks r
  end.

Lemma clinks_leaf_chain rest : clinks (leaf_chain rest) = rest.
Proof.
  induction rest as [|[o v] rest IH]; [reflexivity|].
  cbn [leaf_chain map fst snd clinks thead tlinks app]. fold (leaf_chain rest).
  rewrite IH. reflexivity.
Qed.

(** ** The invariant *)
Definition operand_ok (p : N) (t : tree) : Prop :=
  well_bracketed t /\ all_ops (fun n => p < n) t.
Definition head_ok (p : N) (t : tree) : Prop :=
  well_bracketed t /\ all_ops (fun n => p <= n) t.
Fixpoint spine_ok (p : N) (rest : tchain) : Prop :=
  match rest with
  | [] => True
  | (o, v) :: r => prio o <= p /\ operand_ok p v /\ spine_ok p r
  end.

Lemma operand_head p t : operand_ok p t -> head_ok p t.
Proof.
  intros (Hw & Ha). split; [exact Hw|].
  apply (all_ops_impl (fun n => p < n)); [intros n Hn; lia|exact Ha].
Qed.

Lemma head_node p h o v :
  head_ok p h -> operand_ok p v -> prio o = p -> head_ok p (Node h o v).
Proof.
  intros (Hw & Ha) (Hvw & Hva) E. split.
  - cbn [well_bracketed]. split; [exact Hw|]. split; [exact Hvw|]. split.
    + intros q Hq. pose proof (all_ops_root _ _ Ha q Hq) as Hge. cbn beta in Hge. lia.
    + intros q Hq. pose proof (all_ops_root _ _ Hva q Hq) as Hgt. cbn beta in Hgt. lia.
  - cbn [all_ops]. split; [exact Ha|]. split; [lia|].
    apply (all_ops_impl (fun n => p < n)); [intros n Hn; lia|exact Hva].
Qed.

(** One pass at level [p].  The head may already carry level-[p] operators at its root: it
    is the run folded so far. *)
Lemma tfetch_spec p : forall rest h,
  head_ok p h -> spine_ok p rest ->
  forall h' r', tfetch p h rest = (h', r') ->
  thead h' = thead h /\
  tlinks h' ++ clinks r' = tlinks h ++ clinks rest /\
  head_ok p h' /\
  (forall o v, In (o, v) r' -> prio o < p /\ head_ok p v).
Proof.
  induction rest as [|[o v] r IH]; intros h Hh Hs h' r' E; cbn [tfetch] in E.
  - injection E as E1 E2. subst h' r'.
    split; [reflexivity|]. split; [reflexivity|]. split; [exact Hh|].
    intros o v Hin. destruct Hin.
  - cbn [spine_ok] in Hs. destruct Hs as (Ho & Hv & Hr).
    destruct (N.eqb_spec (prio o) p) as [Ep|NEp].
    + (* fold into the head *)
      destruct (IH (Node h o v) (head_node p h o v Hh Hv Ep) Hr h' r' E)
        as (Eh & El & Hh' & Hr').
      split; [exact Eh|]. split; [|split; [exact Hh'|exact Hr']].
      rewrite El. cbn [tlinks clinks]. rewrite <- app_assoc. reflexivity.
    + destruct (tfetch p v r) as [h1 r1] eqn:E1.
      injection E as E2 E3. subst h' r'.
      destruct (IH v (operand_head p v Hv) Hr h1 r1 E1) as (Eh & El & Hh1 & Hr1).
      split; [reflexivity|]. split; [|split; [exact Hh|]].
      * cbn [clinks]. rewrite Eh, El. reflexivity.
      * intros o' v' [Hin|Hin].
        -- injection Hin as Eo Ev. subst o' v'. split; [lia|exact Hh1].
        -- exact (Hr1 o' v' Hin).
Qed.

Lemma head_ok_pred p t : head_ok (p + 1) t -> operand_ok p t.
Proof.
  intros (Hw & Ha). split; [exact Hw|].
  apply (all_ops_impl (fun n => p + 1 <= n)); [intros n Hn; lia|exact Ha].
Qed.

Lemma spine_from_list p r :
  (forall o v, In (o, v) r -> prio o < p + 1 /\ head_ok (p + 1) v) -> spine_ok p r.
Proof.
  induction r as [|[o v] r IH]; cbn [spine_ok]; intros H; [exact I|].
  destruct (H o v (or_introl eq_refl)) as (Ho & Hv).
  split; [lia|]. split; [exact (head_ok_pred p v Hv)|].
  apply IH. intros o' v' Hin. apply H. right. exact Hin.
Qed.

(** the levels n, n-1, ..., 0 *)
Definition down (n : nat) : list N := map N.of_nat (rev (seq 0 (S n))).

Lemma down_S n : down (S n) = N.of_nat (S n) :: down n.
Proof.
  unfold down. rewrite (seq_S (S n) 0), rev_unit. cbn [map Nat.add]. reflexivity.
Qed.

Lemma down_0 : down 0 = [0].
Proof. reflexivity. Qed.

Lemma levels_down : levels = down (N.to_nat max_prio).
Proof. reflexivity. Qed.

Lemma tfold_spec : forall n rest h,
  head_ok (N.of_nat n) h -> spine_ok (N.of_nat n) rest ->
  forall h' r', tfold (down n) h rest = (h', r') ->
  thead h' = thead h /\
  tlinks h' ++ clinks r' = tlinks h ++ clinks rest /\
  well_bracketed h' /\ r' = [].
Proof.
  induction n as [|m IH]; intros rest h Hh Hs h' r' E.
  - rewrite down_0 in E. unfold tfold in E. cbn [fold_left fst snd] in E.
    change (N.of_nat 0) with 0 in Hh, Hs.
    destruct (tfetch_spec 0 rest h Hh Hs h' r' E) as (Eh & El & Hh' & Hr').
    split; [exact Eh|]. split; [exact El|]. split; [exact (proj1 Hh')|].
    destruct r' as [|[o v] r']; [reflexivity|].
    exfalso. destruct (Hr' o v (or_introl eq_refl)) as (Hlt & _). lia.
  - rewrite down_S in E. unfold tfold in E. cbn [fold_left fst snd] in E.
    destruct (tfetch (N.of_nat (S m)) h rest) as [h1 r1] eqn:E1.
    destruct (tfetch_spec _ rest h Hh Hs h1 r1 E1) as (Eh & El & Hh1 & Hr1).
    assert (EN : N.of_nat (S m) = N.of_nat m + 1) by lia.
    rewrite EN in Hh1, Hr1.
    assert (Hh1' : head_ok (N.of_nat m) h1) by (apply operand_head, head_ok_pred; exact Hh1).
    destruct (IH r1 h1 Hh1' (spine_from_list _ _ Hr1) h' r' E) as (Eh' & El' & Hw & Er).
    split; [congruence|]. split; [congruence|]. split; [exact Hw|exact Er].
Qed.

Lemma spine_leaf_chain p rest :
  (forall o, prio o <= p) -> spine_ok p (leaf_chain rest).
Proof.
  intros Hp. induction rest as [|[o v] rest IH]; [exact I|].
  cbn [leaf_chain map fst snd spine_ok]. fold (leaf_chain rest).
  split; [apply Hp|]. split; [|exact IH].
  split; exact I.
Qed.

(** All levels on a chain of leaves, for any length. *)
Lemma fold_levels_correct v rest :
  exists t, well_bracketed t /\ inorder t = (v, rest) /\
    fold_left (fun acc p => fetch p (fst acc) (snd acc)) levels (v, rest) = (embed t, []).
Proof.
  pose proof (fold_embed levels (Leaf v) (leaf_chain rest)) as FE.
  cbn [embed] in FE. rewrite emap_leaf_chain in FE.
  destruct (tfold levels (Leaf v) (leaf_chain rest)) as [t r] eqn:E.
  cbn [fst snd] in FE. rewrite levels_down in E.
  assert (Hh : head_ok (N.of_nat (N.to_nat max_prio)) (Leaf v)) by (split; exact I).
  assert (Hs : spine_ok (N.of_nat (N.to_nat max_prio)) (leaf_chain rest)).
  { apply spine_leaf_chain. intros o. rewrite N2Nat.id. apply prio_le_max. }
  destruct (tfold_spec _ _ _ Hh Hs t r E) as (Eh & El & Hw & Er).
  subst r. cbn [thead tlinks clinks app emap map] in Eh, El, FE.
  rewrite app_nil_r, clinks_leaf_chain in El.
  exists t. split; [exact Hw|]. split; [|exact FE].
  unfold inorder. rewrite Eh, El. reflexivity.
Qed.

(** ** The theorems *)
Theorem fold_priority_correct : forall v rest,
  (2 <= length rest)%nat ->
  exists t, well_bracketed t /\ inorder t = (v, rest) /\
            fold_priority (Expr v rest) = Expr (embed t) [].
Proof.
  intros v rest Hlen.
  destruct (fold_levels_correct v rest) as (t & Hw & Hi & Hf).
  exists t. split; [exact Hw|]. split; [exact Hi|].
  destruct rest as [|a [|b rest]]; cbn [length] in Hlen; [lia|lia|].
  cbn [fold_priority].
  (* the model's step function is convertible, not syntactically equal, to the one above *)
  set (X := fold_left _ levels _).
  assert (EX : X = (embed t, [])) by exact Hf.
  rewrite EX. reflexivity.
Qed.

Theorem fold_priority_short : forall v rest,
  (length rest < 2)%nat -> fold_priority (Expr v rest) = Expr v rest.
Proof.
  intros v rest Hlen.
  destruct rest as [|a [|b rest]]; cbn [length] in Hlen; [reflexivity|reflexivity|lia].
Qed.

Corollary fold_priority_is_bracket : forall v rest,
  (2 <= length rest)%nat ->
  fold_priority (Expr v rest) = Expr (embed (bracket v rest)) [].
Proof.
  intros v rest Hlen.
  destruct (fold_priority_correct v rest Hlen) as (t & Hw & Hi & Hf).
  rewrite Hf.
  rewrite (well_bracketed_unique t (bracket v rest) Hw (bracket_wb v rest)); [reflexivity|].
  rewrite Hi. symmetry. apply bracket_inorder.
Qed.

Print Assumptions fold_priority_correct.
Print Assumptions fold_priority_short.
Print Assumptions fold_priority_is_bracket.
