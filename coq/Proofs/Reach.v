(** Family T1, part 1: the analysis of a function body is a composition of primitive steps.

    [step] lists the state changes the body phase can make, each defined by the primitive of
    [Model.v] that performs it.  [R m] says that a computation only performs such steps; it is
    closed under [bind], so one syntax-directed pass over the model proves [R] for every analysis
    function.  History invariants are then short inductions over [reach] (see [Invariants.v]). *)
From SA Require Import Model.
From SA.Spec Require Export Stack.

Inductive step : bst -> bst -> Prop :=
| s_alloc mk s r s' : (forall n, def_reg (mk n) = Some n) -> alloc_emit mk s = Ok r s' -> step s s'
| s_bump s r s' : bump s = Ok r s' -> step s s'
| s_emit i s s' : def_reg i = None -> emit i s = Ok tt s' -> step s s'
| s_inner n s s' : set_inner_name n s = Ok tt s' -> step s s'
| s_label n s s' : set_label_name n s = Ok tt s' -> step s s'
| s_return s s' : set_return s = Ok tt s' -> step s s'
| s_value x v s s' : insert_value x v s = Ok tt s' -> step s s'
| s_error e s s' : add_error e s = Ok tt s' -> step s s'
| s_push s s' : push_child s = Ok tt s' -> step s s'
| s_pop s k s' : pop_child s = Ok k s' -> step s s'
| s_emit_kid k i s s' : def_reg i = None -> emit_kid k i s = Ok tt s' -> step s s'.

Inductive reach : bst -> bst -> Prop :=
| reach_refl s : reach s s
| reach_step s1 s2 s3 : reach s1 s2 -> step s2 s3 -> reach s1 s3.

Lemma reach_trans s1 s2 s3 : reach s1 s2 -> reach s2 s3 -> reach s1 s3.
Proof. intros H12 H23; induction H23; eauto using reach. Qed.

Lemma reach_one s s' : step s s' -> reach s s'.
Proof. intro H; eapply reach_step; [apply reach_refl | exact H]. Qed.

(** [R m]: every successful run of [m] is a composition of steps. *)
Definition R {A} (m : M A) : Prop := forall s a s', m s = Ok a s' -> reach s s'.

Lemma R_ret {A} (a : A) : R (ret a).
Proof. intros s a' s' H; inversion H; apply reach_refl. Qed.

Lemma R_bind {A B} (m : M A) (f : A -> M B) : R m -> (forall a, R (f a)) -> R (bind m f).
Proof.
  intros Hm Hf s b s' H. unfold bind in H.
  destruct (m s) as [a s1| |] eqn:E; try discriminate.
  eapply reach_trans; [eapply Hm; exact E | eapply Hf; exact H].
Qed.

Lemma R_gets {A} (f : list block -> A) : R (gets f).
Proof. intros s a s' H; inversion H; apply reach_refl. Qed.
Lemma R_panic {A} k : R (@panic A k).
Proof. intros s a s' H; discriminate. Qed.
Lemma R_oof {A} : R (@out_of_fuel A).
Proof. intros s a s' H; discriminate. Qed.

Lemma R_alloc_emit mk : (forall n, def_reg (mk n) = Some n) -> R (alloc_emit mk).
Proof. intros Hd s a s' H; eapply reach_one, s_alloc; eauto. Qed.
Lemma R_bump : R bump.
Proof. intros s a s' H; eapply reach_one, s_bump; eauto. Qed.
Lemma R_emit i : def_reg i = None -> R (emit i).
Proof. intros Hd s [] s' H; eapply reach_one, s_emit; eauto. Qed.
Lemma R_set_inner n : R (set_inner_name n).
Proof. intros s [] s' H; eapply reach_one, s_inner; eauto. Qed.
Lemma R_set_label n : R (set_label_name n).
Proof. intros s [] s' H; eapply reach_one, s_label; eauto. Qed.
Lemma R_set_return : R set_return.
Proof. intros s [] s' H; eapply reach_one, s_return; eauto. Qed.
Lemma R_insert_value x v : R (insert_value x v).
Proof. intros s [] s' H; eapply reach_one, s_value; eauto. Qed.
Lemma R_add_error e : R (add_error e).
Proof. intros s [] s' H; eapply reach_one, s_error; eauto. Qed.
Lemma R_push_child : R push_child.
Proof. intros s [] s' H; eapply reach_one, s_push; eauto. Qed.
Lemma R_pop_child : R pop_child.
Proof. intros s k s' H; eapply reach_one, s_pop; eauto. Qed.
Lemma R_emit_kid k i : def_reg i = None -> R (emit_kid k i).
Proof. intros Hd s [] s' H; eapply reach_one, s_emit_kid; eauto. Qed.
Lemma R_when b m : R m -> R (when b m).
Proof. intro H; destruct b; [exact H | apply R_ret]. Qed.
Lemma R_lookup_value x : R (lookup_value x).
Proof. apply R_gets. Qed.
Lemma R_get_reg : R get_reg.
Proof. apply R_gets. Qed.

Lemma next_inner_name_pure fuel : forall n s a s', next_inner_name fuel n s = Ok a s' -> s' = s.
Proof.
  induction fuel as [|f IH]; intros n s a s' H; cbn in H; [discriminate|].
  destruct (set_attr_counter n) as [n'|]; [|discriminate].
  destruct (inner_exists n' (frames s)); [eapply IH; exact H | inversion H; reflexivity].
Qed.
Lemma R_next_inner_name fuel n : R (next_inner_name fuel n).
Proof. intros s a s' H; apply next_inner_name_pure in H; subst; apply reach_refl. Qed.

Lemma R_label_probe fuel : forall n, R (label_probe fuel n).
Proof.
  induction fuel as [|f IH]; intros n s a s' H; cbn in H; [discriminate|].
  destruct (set_attr_counter n) as [n'|]; [|discriminate].
  destruct (label_exists n' (frames s)); [eapply IH; exact H|].
  revert H. apply (R_bind (set_label_name n') (fun _ => ret n') (R_set_label n')). intros _; apply R_ret.
Qed.

Ltac r_prim :=
  first
    [ apply R_ret | apply R_gets | apply R_panic | apply R_oof | apply R_bump
    | apply R_alloc_emit; intro; reflexivity
    | apply R_emit; reflexivity | apply R_emit_kid; reflexivity
    | apply R_set_inner | apply R_set_label | apply R_set_return | apply R_insert_value
    | apply R_add_error | apply R_push_child | apply R_pop_child
    | apply R_lookup_value | apply R_get_reg | apply R_next_inner_name | apply R_label_probe ].

Ltac r_go :=
  repeat first
    [ r_prim
    | match goal with H : _ |- R _ => solve [apply H; auto] end
    | apply R_when
    | apply R_bind; [| intro]
    | match goal with |- R (match ?x with _ => _ end) => destruct x end
    | match goal with |- R (if ?b then _ else _) => destruct b end
    | progress cbv zeta ].

Lemma R_gen_label base : R (gen_label base).
Proof. unfold gen_label. r_go. Qed.

Section Body.
  Variable G : globals.

  Lemma R_check_type_exists t v l : R (check_type_exists G t v l).
  Proof. unfold check_type_exists. r_go. Qed.

  Section Expr.
    Variable E : expr -> M (option eres).
    Hypothesis HE : forall e, R (E e).

    Lemma R_call_args callee params : forall args i acc, R (call_args E callee params i args acc).
    Proof.
      induction args as [|a args IH]; intros i acc; cbn [call_args]; r_go.
    Qed.

    Lemma R_function_call f args : R (function_call G E f args).
    Proof. unfold function_call. pose proof R_call_args. r_go. Qed.

    Lemma R_expr_value v : R (expr_value G E v).
    Proof.
      pose proof R_function_call. pose proof R_check_type_exists.
      destruct v; cbn [expr_value]; r_go.
    Qed.

    Lemma R_expr_chain : forall rest left, R (expr_chain G E left rest).
    Proof.
      pose proof R_expr_value.
      induction rest as [|[op v] rest IH]; intros left; cbn [expr_chain]; r_go.
    Qed.

    Lemma R_expression_body e : R (expression_body G E e).
    Proof.
      pose proof R_expr_value. pose proof R_expr_chain.
      unfold expression_body. r_go.
    Qed.
  End Expr.

  Lemma R_expression fuel : forall e, R (expression G fuel e).
  Proof.
    induction fuel as [|f IH]; intro e; cbn [expression]; [apply R_oof|].
    apply R_expression_body; exact IH.
  Qed.

  Section Stmts.
    Variable fuel : nat.
    Variable RT : sem_ty.

    Lemma R_let_binding x m t e : R (let_binding G fuel x m t e).
    Proof. pose proof (R_expression fuel). unfold let_binding. r_go. Qed.

    Lemma R_binding x e : R (binding G fuel x e).
    Proof. pose proof (R_expression fuel). unfold binding. r_go. Qed.

    Lemma R_call_stmt f args : R (call_stmt G fuel f args).
    Proof.
      unfold call_stmt. apply R_bind; [|intro; apply R_ret].
      apply R_function_call. apply R_expression.
    Qed.

    Lemma lcond_ind' (P : lcond -> Prop) :
      (forall l c r, P (LC l c r None)) ->
      (forall l c r op n, P n -> P (LC l c r (Some (op, n)))) ->
      forall c, P c.
    Proof.
      intros H1 H2. fix IH 1. intros [l c r [[op n]|]]; [apply H2, IH | apply H1].
    Qed.

    Lemma R_condition_expression c : R (condition_expression G fuel c).
    Proof.
      pose proof (R_expression fuel).
      induction c as [l c r | l c r op n IH] using lcond_ind'; cbn [condition_expression]; r_go.
    Qed.

    Lemma R_if_condition_calculation c lb le lend ie :
      R (if_condition_calculation G fuel c lb le lend ie).
    Proof.
      pose proof (R_expression fuel). pose proof R_condition_expression.
      unfold if_condition_calculation. r_go.
    Qed.

    Lemma R_check_return_type er : R (check_return_type RT er).
    Proof. unfold check_return_type. r_go. Qed.

    Lemma R_code_after_errors k fl : R (code_after_errors k fl).
    Proof. unfold code_after_errors. r_go. Qed.

    Section Control.
      Variable IFC : ifstmt -> option string -> option (string * string) -> M unit.
      Variable LOOP : list stmt -> M unit.
      Hypothesis HIFC : forall i le ll, R (IFC i le ll).
      Hypothesis HLOOP : forall b, R (LOOP b).

      Lemma R_nested_stmt k lend lloop fl st : R (nested_stmt G fuel RT IFC LOOP k lend lloop fl st).
      Proof.
        pose proof (R_expression fuel). pose proof R_let_binding. pose proof R_binding.
        pose proof R_call_stmt. pose proof R_check_return_type.
        destruct st; cbn [nested_stmt]; r_go.
      Qed.

      Lemma R_run_body k lend lloop : forall ss fl, R (run_body G fuel RT IFC LOOP k lend lloop fl ss).
      Proof.
        pose proof R_nested_stmt. pose proof R_code_after_errors.
        induction ss as [|st ss IH]; intro fl; cbn [run_body]; r_go.
      Qed.

      Lemma R_if_body b lend lloop : R (if_body G fuel RT IFC LOOP b lend lloop).
      Proof. pose proof R_run_body. unfold if_body. r_go. Qed.

      Lemma R_if_condition_step i le ll : R (if_condition_step G fuel RT IFC LOOP i le ll).
      Proof.
        pose proof R_if_body. pose proof R_if_condition_calculation. pose proof R_gen_label.
        destruct i as [c body els elif]. cbn [if_condition_step]. r_go.
      Qed.

      Lemma R_loop_step body : R (loop_step G fuel RT IFC LOOP body).
      Proof. pose proof R_run_body. pose proof R_gen_label. unfold loop_step. r_go. Qed.
    End Control.

    Lemma R_control n :
      (forall i le ll, R (if_condition G fuel RT n i le ll)) /\
      (forall b, R (loop_statement G fuel RT n b)).
    Proof.
      induction n as [|n [IH1 IH2]]; split; intros; cbn [if_condition loop_statement];
        try apply R_oof.
      - apply R_if_condition_step; assumption.
      - apply R_loop_step; assumption.
    Qed.

    Lemma R_init_func_params : forall ps, R (init_func_params ps).
    Proof. induction ps as [|[x t] ps IH]; cbn [init_func_params]; r_go. Qed.

    Lemma R_fn_stmt returned st : R (fn_stmt G fuel RT returned st).
    Proof.
      pose proof (R_expression fuel). pose proof R_let_binding. pose proof R_binding.
      pose proof R_call_stmt. pose proof R_check_type_exists.
      destruct (R_control fuel) as [HI HL].
      destruct st; cbn [fn_stmt]; r_go.
    Qed.

    Lemma R_fn_stmts : forall ss returned, R (fn_stmts G fuel RT returned ss).
    Proof.
      pose proof R_fn_stmt.
      induction ss as [|st ss IH]; intro returned; cbn [fn_stmts]; r_go.
    Qed.
  End Stmts.

  Lemma R_function_body_m f : R (function_body_m G f).
  Proof.
    pose proof R_init_func_params. pose proof R_fn_stmts.
    unfold function_body_m. r_go.
  Qed.

  (** Every state a function body analysis can end in is reachable from its initial state. *)
  Theorem function_body_reach errs0 f a s :
    function_body G errs0 f = Ok a s -> reach (BSt [empty_block] errs0) s.
  Proof. apply R_function_body_m. Qed.
End Body.
