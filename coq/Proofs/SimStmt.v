(** Family T2 (simulation), part 2: statements, conditions, control flow and function bodies.
    [Model.function_body_m] is simulated by [FirstViolation.check_fn_body true]. *)
From Coq Require Import Lia.
From SA Require Import Model.
From SA.Spec Require Import FirstViolation.
From SA.Proofs Require Import Reach Trace VerdictMon SimExpr.
Local Open Scope list_scope.

(** the simulation statement for a computation whose specification counterpart yields no
    result and leaves the scopes as they are *)
Definition usim {A} (scs : scopes) (m : M A) (c : outcome unit) : Prop :=
  forall s a s', m s = Ok a s' -> errs s = [] -> sc s = scs ->
    match c with
    | Pass _ => errs s' = [] /\ sc s' = scs
    | Fail v => fails v s'
    | Stuck => False
    end.

Lemma lcond_ind2 (P : lcond -> Prop) :
  (forall l c r, P (LC l c r None)) ->
  (forall l c r op n, P n -> P (LC l c r (Some (op, n)))) ->
  forall c, P c.
Proof.
  intros H1 H2. fix IH 1. intros [l c r [[op n]|]]; [apply H2, IH | apply H1].
Qed.

Section Stmts.
  Variable G : globals.
  Let T := tables_of G.
  Variable fuel : nat.
  Variable RT : sem_ty.

  (** ** let, assignment, call *)
  Lemma let_binding_sim scs x mut ty e : forall s u s',
    let_binding G fuel x mut ty e s = Ok u s' -> errs s = [] -> sc s = scs ->
    match check_let true T fuel scs x mut ty e with
    | Pass scs' => errs s' = [] /\ sc s' = scs' /\ tl scs' = tl scs
    | Fail v => fails v s'
    | Stuck => False
    end.
  Proof.
    pose proof (R_expression G fuel) as HRE.
    intros s u s' H Her Hsc. unfold let_binding in H. unfold check_let.
    msplit H r s1 Ee. pose proof (expression_sim G scs fuel e _ _ _ Ee Her Hsc) as HX.
    unfold ex. fold T in HX. destruct (check_expr true T scs fuel e) as [t|v|]; cbn [andthen];
      [| mono_fin H HX | contradiction].
    destruct HX as (Her1 & Hsc1 & er & -> & <-). cbv zeta in H.
    assert (HD : forall u s',
      (vs <- lookup_value (iname x) ;;
       (let base := match vs with Some val => v_inner val | None => iname x end in
        pf <- gets inner_probe_fuel ;;
        inner <- next_inner_name pf base ;;
        (let val := Value inner (r_ty er) mut in
         insert_value (iname x) val ;;; set_inner_name inner ;;; emit (ILet val er)))) s1
      = Ok u s' ->
      errs s' = [] /\ sc s' = declare (iname x) (r_ty er) mut scs /\
      tl (declare (iname x) (r_ty er) mut scs) = tl scs).
    { clear H. intros u0 s0 H. mread H. cbv zeta in H. mread H.
      msplit H inner s2 En. mneutral En Hsc1 Her1. cbv zeta in H.
      msplit H u1 s3 Ei. apply insert_value_A in Ei as [Hsc3 Her3].
      cbn [v_ty v_mut] in Hsc3. rewrite Hsc1 in Hsc3. rewrite Her1 in Her3.
      mneutral H Hsc3 Her3.
      split; [exact Her3 | split; [exact Hsc3 | apply tl_declare]]. }
    unfold require. revert H. destruct ty as [a|].
    - destruct (sem_ty_eqb (r_ty er) (sem_of_ty a)); cbn [negb andthen]; intro H.
      + exact (HD _ _ H).
      + exact (fails_add_error _ _ _ _ _ _ H Her1).
    - cbn [andthen]. intro H. exact (HD _ _ H).
  Qed.

  Lemma binding_sim scs x e :
    usim scs (binding G fuel x e) (check_assign true T fuel scs x e).
  Proof.
    pose proof (R_expression G fuel) as HRE.
    intros s u s' H Her Hsc. unfold binding in H. unfold check_assign.
    msplit H r s1 Ee. pose proof (expression_sim G scs fuel e _ _ _ Ee Her Hsc) as HX.
    unfold ex. fold T in HX. destruct (check_expr true T scs fuel e) as [t|v|]; cbn [andthen];
      [| mono_fin H HX | contradiction].
    destruct HX as (Her1 & Hsc1 & er & -> & <-).
    mread H. rewrite (lookup_scs scs (iname x) s1 Hsc1). revert H.
    destruct (lookup_frames (iname x) (frames s1)) as [val|]; cbn [option_map]; intro H.
    2:{ exact (fails_add_error _ _ _ _ _ _ H Her1). }
    unfold sc_of_value, require. revert H.
    destruct (v_mut val); cbn [negb andthen]; intro H.
    2:{ exact (fails_add_error _ _ _ _ _ _ H Her1). }
    revert H. destruct (sem_ty_eqb (v_ty val) (r_ty er)); cbn [negb]; intro H.
    2:{ exact (fails_add_error _ _ _ _ _ _ H Her1). }
    mneutral H Hsc1 Her1. split; assumption.
  Qed.

  Lemma call_stmt_sim scs f args :
    usim scs (call_stmt G fuel f args) (check_call_stmt true T fuel scs f args).
  Proof.
    pose proof (R_expression G fuel) as HRE.
    intros s u s' H Her Hsc. unfold call_stmt in H. unfold check_call_stmt.
    msplit H r s1 Ef.
    pose proof (function_call_sim G scs (expression G fuel) (ex true T fuel scs)
                  HRE (expression_sim G scs fuel) f args _ _ _ Ef Her Hsc) as HX.
    fold T in HX.
    destruct (check_call true T (ex true T fuel scs) f args) as [t|v|]; cbn [andthen];
      [| mono_fin H HX | contradiction].
    destruct HX as (Her1 & Hsc1 & _). mret H. split; assumption.
  Qed.

  (** ** conditions *)
  Lemma condition_expression_sim scs : forall c,
    usim scs (condition_expression G fuel c) (check_lcond true T fuel scs c).
  Proof.
    pose proof (R_expression G fuel) as HRE. pose proof (R_condition_expression G fuel) as HRC.
    induction c as [l cmp r | l cmp r op n IH] using lcond_ind2;
      intros s reg s' H Her Hsc; cbn [condition_expression] in H; cbn [check_lcond].
    - msplit H lres s1 El. pose proof (expression_sim G scs fuel l _ _ _ El Her Hsc) as HX.
      unfold ex at 1. fold T in HX.
      destruct (check_expr true T scs fuel l) as [tl|v|]; cbn [andthen];
        [| mono_fin H HX | contradiction].
      destruct HX as (Her1 & Hsc1 & lr & -> & <-).
      msplit H rres s2 Er. pose proof (expression_sim G scs fuel r _ _ _ Er Her1 Hsc1) as HX.
      unfold ex at 1. fold T in HX.
      destruct (check_expr true T scs fuel r) as [tr|v|]; cbn [andthen];
        [| mono_fin H HX | contradiction].
      destruct HX as (Her2 & Hsc2 & rr & -> & <-).
      unfold require. revert H.
      destruct (sem_ty_eqb (r_ty lr) (r_ty rr)); cbn [negb andthen]; intro H.
      2:{ msplit H u s3 Ee. pose proof (fails_add_error _ _ _ _ _ _ Ee Her2) as HF.
          mono_fin H HF. }
      revert H. destruct (is_prim (r_ty lr)); cbn [negb andthen]; intro H.
      2:{ msplit H u s3 Ee. pose proof (fails_add_error _ _ _ _ _ _ Ee Her2) as HF.
          mono_fin H HF. }
      mneutral H Hsc2 Her2. split; assumption.
    - msplit H lres s1 El. pose proof (expression_sim G scs fuel l _ _ _ El Her Hsc) as HX.
      unfold ex at 1. fold T in HX.
      destruct (check_expr true T scs fuel l) as [tl|v|]; cbn [andthen];
        [| mono_fin H HX | contradiction].
      destruct HX as (Her1 & Hsc1 & lr & -> & <-).
      msplit H rres s2 Er. pose proof (expression_sim G scs fuel r _ _ _ Er Her1 Hsc1) as HX.
      unfold ex at 1. fold T in HX.
      destruct (check_expr true T scs fuel r) as [tr|v|]; cbn [andthen];
        [| mono_fin H HX | contradiction].
      destruct HX as (Her2 & Hsc2 & rr & -> & <-).
      unfold require. revert H.
      destruct (sem_ty_eqb (r_ty lr) (r_ty rr)); cbn [negb andthen]; intro H.
      2:{ msplit H u s3 Ee. pose proof (fails_add_error _ _ _ _ _ _ Ee Her2) as HF.
          mono_fin H HF. }
      revert H. destruct (is_prim (r_ty lr)); cbn [negb andthen]; intro H.
      2:{ msplit H u s3 Ee. pose proof (fails_add_error _ _ _ _ _ _ Ee Her2) as HF.
          mono_fin H HF. }
      mskip H Hsc2 Her2. msplit H u s4 En. mread En. msplit En rreg s5 Ec.
      pose proof (IH _ _ _ Ec Her2 Hsc2) as HX.
      destruct (check_lcond true T fuel scs n) as [[]|v|]; [| | contradiction].
      + destruct HX as (Her5 & Hsc5). mneutral En Hsc5 Her5. mneutral H Hsc5 Her5.
        split; assumption.
      + assert (HF : fails v s4) by (mono_fin En HX). mono_fin H HF.
  Qed.

  Lemma if_condition_calculation_sim scs c lb le lend ie :
    usim scs (if_condition_calculation G fuel c lb le lend ie) (check_cond true T fuel scs c).
  Proof.
    pose proof (R_expression G fuel) as HRE.
    intros s u s' H Her Hsc. unfold if_condition_calculation in H. cbv zeta in H.
    destruct c as [e|lc]; cbn [check_cond].
    - msplit H r s1 Ee. pose proof (expression_sim G scs fuel e _ _ _ Ee Her Hsc) as HX.
      unfold ex. fold T in HX.
      destruct (check_expr true T scs fuel e) as [t|v|]; cbn [andthen];
        [| mono_fin H HX | contradiction].
      destruct HX as (Her1 & Hsc1 & er & -> & _). mneutral H Hsc1 Her1. split; assumption.
    - msplit H reg s1 Ec. pose proof (condition_expression_sim scs lc _ _ _ Ec Her Hsc) as HX.
      destruct (check_lcond true T fuel scs lc) as [[]|v|]; [| mono_fin H HX | contradiction].
      destruct HX as (Her1 & Hsc1). mneutral H Hsc1 Her1. split; assumption.
  Qed.

  (** ** blocks *)
  Definition loopy_of (k : bkind) : bool := match k with KIf => false | _ => true end.

  (** the model's sticky flags against the specification's "the block has ended" *)
  Definition flags_rel (k : bkind) (fl : flags) (ended : option err_kind) : Prop :=
    match ended with
    | None => fl = flags0
    | Some kd =>
        (kd = EForbiddenCodeAfterReturnDeprecated /\ fl_ret fl = true) \/
        (kd = EForbiddenCodeAfterBreakDeprecated /\ fl = Flags false true false /\
         loopy_of k = true) \/
        (kd = EForbiddenCodeAfterContinueDeprecated /\ fl = Flags false false true /\
         loopy_of k = true)
    end.

  Lemma code_after_errors_sim k fl ended : flags_rel k fl ended ->
    forall s u s', code_after_errors k fl s = Ok u s' -> errs s = [] ->
    match no_code_after ended with
    | Pass _ => errs s' = [] /\ sc s' = sc s /\ fl = flags0
    | Fail v => fails v s'
    | Stuck => False
    end.
  Proof.
    intros Hfl s u s' H Her. unfold code_after_errors in H.
    destruct ended as [kd|]; cbn [no_code_after flags_rel] in *.
    - destruct Hfl as [[-> Hr] | [[-> [-> Hl]] | [-> [-> Hl]]]].
      + rewrite Hr in H. cbn [when] in H. msplit H u0 s1 Ee.
        pose proof (fails_add_error _ _ _ _ _ _ Ee Her) as HF. mono_fin H HF.
      + cbn [fl_ret fl_brk fl_cont when] in H. msplit H u0 s1 E0. mret E0.
        destruct k; [discriminate Hl | |]; cbn [when] in H;
          msplit H u1 s1 Ee; pose proof (fails_add_error _ _ _ _ _ _ Ee Her) as HF;
          mono_fin H HF.
      + cbn [fl_ret fl_brk fl_cont when] in H. msplit H u0 s1 E0. mret E0.
        destruct k; [discriminate Hl | |]; cbn [when] in H;
          msplit H u1 s1 E1; mret E1; exact (fails_add_error _ _ _ _ _ _ H Her).
    - subst fl. remember (sc s) as scs0 eqn:Hsc. symmetry in Hsc. mneutral H Hsc Her.
      split; [exact Her | split; [exact Hsc | reflexivity]].
  Qed.

  Section Control.
    Variable IFC : ifstmt -> option string -> option (string * string) -> M unit.
    Variable LOOP : list stmt -> M unit.
    Variable CIFC : scopes -> bool -> ifstmt -> outcome unit.
    Variable CLOOP : scopes -> list stmt -> outcome unit.
    Hypothesis HIFC_R : forall i le ll, R (IFC i le ll).
    Hypothesis HLOOP_R : forall b, R (LOOP b).
    Hypothesis HIFC : forall scs i le ll, usim scs (IFC i le ll) (CIFC scs (is_some ll) i).
    Hypothesis HLOOP : forall scs b, usim scs (LOOP b) (CLOOP scs b).

    Lemma nested_stmt_sim scs k lend lloop st : forall s fl' s',
      nested_stmt G fuel RT IFC LOOP k lend lloop flags0 st s = Ok fl' s' ->
      errs s = [] -> sc s = scs ->
      match check_nested_stmt true T fuel RT CIFC CLOOP (loopy_of k) (is_some lloop) scs st with
      | Pass r => errs s' = [] /\ sc s' = fst r /\ tl (fst r) = tl scs /\ flags_rel k fl' (snd r)
      | Fail v => fails v s'
      | Stuck => False
      end.
    Proof.
      pose proof (R_expression G fuel) as HRE.
      intros s fl' s' H Her Hsc.
      destruct st as [x m t e | x e | f args | i | body | e | e | |];
        cbn [nested_stmt] in H; cbn [check_nested_stmt].
      - (* let *)
        msplit H u s1 El. pose proof (let_binding_sim scs x m t e _ _ _ El Her Hsc) as HX.
        destruct (check_let true T fuel scs x m t e) as [scs'|v|]; cbn [andthen];
          [| mono_fin H HX | contradiction].
        destruct HX as (Her1 & Hsc1 & Htl). mret H. cbn [fst snd flags_rel].
        split; [exact Her1 | split; [exact Hsc1 | split; [exact Htl | reflexivity]]].
      - (* assignment *)
        msplit H u s1 El. pose proof (binding_sim scs x e _ _ _ El Her Hsc) as HX.
        destruct (check_assign true T fuel scs x e) as [[]|v|]; cbn [andthen];
          [| mono_fin H HX | contradiction].
        destruct HX as (Her1 & Hsc1). mret H. cbn [fst snd flags_rel].
        split; [exact Her1 | split; [exact Hsc1 | split; reflexivity]].
      - (* call *)
        msplit H u s1 El. pose proof (call_stmt_sim scs f args _ _ _ El Her Hsc) as HX.
        destruct (check_call_stmt true T fuel scs f args) as [[]|v|]; cbn [andthen];
          [| mono_fin H HX | contradiction].
        destruct HX as (Her1 & Hsc1). mret H. cbn [fst snd flags_rel].
        split; [exact Her1 | split; [exact Hsc1 | split; reflexivity]].
      - (* if *)
        msplit H u s1 El.
        assert (HX : match CIFC scs (is_some lloop) i with
                     | Pass _ => errs s1 = [] /\ sc s1 = scs
                     | Fail v => fails v s1
                     | Stuck => False
                     end).
        { destruct k; exact (HIFC scs i _ lloop _ _ _ El Her Hsc). }
        destruct (CIFC scs (is_some lloop) i) as [[]|v|]; cbn [andthen];
          [| mono_fin H HX | contradiction].
        destruct HX as (Her1 & Hsc1). mret H. cbn [fst snd flags_rel].
        split; [exact Her1 | split; [exact Hsc1 | split; reflexivity]].
      - (* loop *)
        msplit H u s1 El. pose proof (HLOOP scs body _ _ _ El Her Hsc) as HX.
        destruct (CLOOP scs body) as [[]|v|]; cbn [andthen];
          [| mono_fin H HX | contradiction].
        destruct HX as (Her1 & Hsc1). mret H. cbn [fst snd flags_rel].
        split; [exact Her1 | split; [exact Hsc1 | split; reflexivity]].
      - (* return *)
        msplit H r s1 Ee. pose proof (expression_sim G scs fuel e _ _ _ Ee Her Hsc) as HX.
        unfold ex. fold T in HX.
        destruct (check_expr true T scs fuel e) as [t|v|]; cbn [andthen];
          [| mono_fin H HX | contradiction].
        destruct HX as (Her1 & Hsc1 & er & -> & <-).
        msplit H u s2 Ec. unfold check_return_type in Ec. unfold require. revert Ec.
        destruct (sem_ty_eqb RT (r_ty er)); cbn [negb when andthen]; intro Ec.
        + mret Ec. mskip H Hsc1 Her1. mskip H Hsc1 Her1. mret H. cbn [fst snd flags_rel].
          split; [exact Her1 | split; [exact Hsc1 | split; [reflexivity|]]].
          left. split; reflexivity.
        + pose proof (fails_add_error _ _ _ _ _ _ Ec Her1) as HF. mono_fin H HF.
      - (* expression statement: not in a nested block *)
        discriminate H.
      - (* break *)
        destruct k, lloop as [[lb le]|]; cbn [loopy_of is_some andb]; try discriminate H.
        + mskip H Hsc Her. mret H. cbn [fst snd flags_rel].
          split; [exact Her | split; [exact Hsc | split; [reflexivity|]]].
          right. left. split; [reflexivity | split; reflexivity].
        + mskip H Hsc Her. mret H. cbn [fst snd flags_rel].
          split; [exact Her | split; [exact Hsc | split; [reflexivity|]]].
          right. left. split; [reflexivity | split; reflexivity].
      - (* continue *)
        destruct k, lloop as [[lb le]|]; cbn [loopy_of is_some andb]; try discriminate H.
        + mskip H Hsc Her. mret H. cbn [fst snd flags_rel].
          split; [exact Her | split; [exact Hsc | split; [reflexivity|]]].
          right. right. split; [reflexivity | split; reflexivity].
        + mskip H Hsc Her. mret H. cbn [fst snd flags_rel].
          split; [exact Her | split; [exact Hsc | split; [reflexivity|]]].
          right. right. split; [reflexivity | split; reflexivity].
    Qed.

    Lemma run_body_sim k lend lloop : forall ss scs fl ended s fl' s',
      run_body G fuel RT IFC LOOP k lend lloop fl ss s = Ok fl' s' ->
      errs s = [] -> sc s = scs -> flags_rel k fl ended ->
      match check_block true T fuel RT CIFC CLOOP (loopy_of k) (is_some lloop) scs ended ss with
      | Pass _ => errs s' = [] /\ tl (sc s') = tl scs
      | Fail v => fails v s'
      | Stuck => False
      end.
    Proof.
      pose proof (R_nested_stmt G fuel RT IFC LOOP HIFC_R HLOOP_R) as HRN.
      pose proof (R_run_body G fuel RT IFC LOOP HIFC_R HLOOP_R) as HRB.
      induction ss as [|st ss IH]; intros scs fl ended s fl' s' H Her Hsc Hfl;
        cbn [run_body] in H; cbn [check_block].
      - mret H. split; [exact Her | rewrite Hsc; reflexivity].
      - msplit H u s1 Ec. pose proof (code_after_errors_sim k fl ended Hfl _ _ _ Ec Her) as HX.
        destruct (no_code_after ended) as [[]|v|]; cbn [andthen];
          [| mono_fin H HX | contradiction].
        destruct HX as (Her1 & Hsc1 & ->). rewrite Hsc in Hsc1.
        msplit H fl1 s2 En.
        pose proof (nested_stmt_sim scs k lend lloop st _ _ _ En Her1 Hsc1) as HX.
        destruct (check_nested_stmt true T fuel RT CIFC CLOOP (loopy_of k) (is_some lloop) scs st)
          as [[scs1 ended1]|v|]; cbn [andthen]; [| mono_fin H HX | contradiction].
        cbn [fst snd] in *. destruct HX as (Her2 & Hsc2 & Htl & Hfl2).
        pose proof (IH scs1 fl1 ended1 _ _ _ H Her2 Hsc2 Hfl2) as HY.
        destruct (check_block true T fuel RT CIFC CLOOP (loopy_of k) (is_some lloop) scs1 ended1 ss)
          as [[]|v|]; [| exact HY | contradiction].
        destruct HY as (Her3 & Htl3). split; [exact Her3 | congruence].
    Qed.

    Lemma if_body_sim scs b lend lloop : forall s rt s',
      if_body G fuel RT IFC LOOP b lend lloop s = Ok rt s' -> errs s = [] -> sc s = scs ->
      match check_ifbody true T fuel RT CIFC CLOOP scs (is_some lloop) b with
      | Pass _ => errs s' = [] /\ tl (sc s') = tl scs
      | Fail v => fails v s'
      | Stuck => False
      end.
    Proof.
      intros s rt s' H Her Hsc. destruct b as [ss|ss]; cbn [if_body] in H; cbn [check_ifbody].
      - msplit H fl s1 Er.
        pose proof (run_body_sim KIf lend lloop ss scs flags0 None _ _ _ Er Her Hsc eq_refl) as HX.
        cbn [loopy_of] in HX.
        destruct (check_block true T fuel RT CIFC CLOOP false (is_some lloop) scs None ss)
          as [[]|v|]; [| mono_fin H HX | contradiction].
        mret H. exact HX.
      - destruct lloop as [ll|]; cbn [is_some]; [| discriminate H].
        msplit H fl s1 Er.
        pose proof (run_body_sim KIfLoop lend (Some ll) ss scs flags0 None _ _ _ Er Her Hsc eq_refl)
          as HX.
        cbn [loopy_of is_some] in HX.
        destruct (check_block true T fuel RT CIFC CLOOP true true scs None ss)
          as [[]|v|]; [| mono_fin H HX | contradiction].
        mret H. exact HX.
    Qed.

    Lemma if_condition_step_sim scs i le ll :
      usim scs (if_condition_step G fuel RT IFC LOOP i le ll)
               (check_if_step true T fuel RT CIFC CLOOP scs (is_some ll) i).
    Proof.
      pose proof (R_if_body G fuel RT IFC LOOP HIFC_R HLOOP_R) as HRB.
      pose proof (R_if_condition_calculation G fuel) as HRC.
      pose proof R_gen_label as HRG. pose proof neutral_gen_label as HNG.
      intros s u s' H Her Hsc. destruct i as [c body els elif].
      cbn [if_condition_step] in H. cbn [check_if_step].
      msplit H u0 s1 Ew.
      assert (Hd : is_some els && is_some elif = Model.is_some els && Model.is_some elif)
        by reflexivity.
      rewrite Hd. clear Hd. unfold require. revert Ew.
      destruct (Model.is_some els && Model.is_some elif) eqn:Hdup;
        cbn [when negb andthen]; intro Ew.
      { pose proof (fails_add_error _ _ _ _ _ _ Ew Her) as HF. mono_fin H HF. }
      mret Ew.
      (* the then-block: a fresh scope *)
      msplit H u1 s1 Ep. apply push_child_A in Ep as [Hsc1 Her1].
      rewrite Hsc in Hsc1. rewrite Her in Her1.
      mskip H Hsc1 Her1. mskip H Hsc1 Her1. mskip H Hsc1 Her1. cbv zeta in H.
      msplit H u2 s5 Ec.
      pose proof (if_condition_calculation_sim ([] :: scs) c _ _ _ _ _ _ _ Ec Her1 Hsc1) as HX.
      destruct (check_cond true T fuel ([] :: scs) c) as [[]|v|]; cbn [andthen];
        [| mono_fin H HX | contradiction].
      clear Her1 Hsc1. destruct HX as (Her1 & Hsc1).
      mskip H Hsc1 Her1.
      msplit H returned s7 Eb.
      pose proof (if_body_sim ([] :: scs) body _ ll _ _ _ Eb Her1 Hsc1) as HX.
      destruct (check_ifbody true T fuel RT CIFC CLOOP ([] :: scs) (is_some ll) body)
        as [[]|v|]; cbn [andthen]; [| mono_fin H HX | contradiction].
      clear Her1 Hsc1. destruct HX as (Her1 & Htl). cbn [tl] in Htl.
      remember (sc s7) as scs7 eqn:Hsc1. symmetry in Hsc1.
      mskip H Hsc1 Her1.
      revert H. destruct els as [eb|]; [| destruct elif as [ei|]];
        cbn [Model.is_some orb]; intro H.
      - (* else *)
        mskip H Hsc1 Her1.
        msplit H slot s9 Epop. apply pop_child_A in Epop as [Hsc2 Her2].
        rewrite Hsc1, Htl in Hsc2. rewrite Her1 in Her2.
        msplit H u3 s10 Eelse.
        msplit Eelse u4 s11 Ep. apply push_child_A in Ep as [Hsc3 Her3].
        rewrite Hsc2 in Hsc3. rewrite Her2 in Her3.
        msplit Eelse returned' s12 Eb2.
        pose proof (if_body_sim ([] :: scs) eb _ ll _ _ _ Eb2 Her3 Hsc3) as HX.
        destruct (check_ifbody true T fuel RT CIFC CLOOP ([] :: scs) (is_some ll) eb)
          as [[]|v|].
        + destruct HX as (Her4 & Htl4). cbn [tl] in Htl4.
          msplit Eelse slot2 s13 Epop2. apply pop_child_A in Epop2 as [Hsc5 Her5].
          rewrite Htl4 in Hsc5. rewrite Her4 in Her5.
          mneutral Eelse Hsc5 Her5. mneutral H Hsc5 Her5. split; assumption.
        + assert (HF : fails v s10) by (mono_fin Eelse HX). mono_fin H HF.
        + contradiction.
      - (* else-if: a sibling, analysed on the parent chain *)
        mskip H Hsc1 Her1.
        msplit H slot s9 Epop. apply pop_child_A in Epop as [Hsc2 Her2].
        rewrite Hsc1, Htl in Hsc2. rewrite Her1 in Her2.
        msplit H u3 s10 Eelse.
        pose proof (HIFC scs ei _ ll _ _ _ Eelse Her2 Hsc2) as HX.
        destruct (CIFC scs (is_some ll) ei) as [[]|v|]; [| mono_fin H HX | contradiction].
        destruct HX as (Her3 & Hsc3). mneutral H Hsc3 Her3. split; assumption.
      - (* no else part *)
        mskip H Hsc1 Her1.
        msplit H slot s9 Epop. apply pop_child_A in Epop as [Hsc2 Her2].
        rewrite Hsc1, Htl in Hsc2. rewrite Her1 in Her2.
        mret H. split; assumption.
    Qed.

    Lemma loop_step_sim scs body :
      usim scs (loop_step G fuel RT IFC LOOP body)
               (check_loop_step true T fuel RT CIFC CLOOP scs body).
    Proof.
      pose proof (R_run_body G fuel RT IFC LOOP HIFC_R HLOOP_R) as HRB.
      pose proof R_gen_label as HRG. pose proof neutral_gen_label as HNG.
      intros s u s' H Her Hsc. unfold loop_step in H. unfold check_loop_step.
      msplit H u1 s1 Ep. apply push_child_A in Ep as [Hsc1 Her1].
      rewrite Hsc in Hsc1. rewrite Her in Her1.
      mskip H Hsc1 Her1. mskip H Hsc1 Her1. mskip H Hsc1 Her1. mskip H Hsc1 Her1.
      msplit H fl s6 Er.
      pose proof (run_body_sim KLoop "" (Some (a, a0)) body ([] :: scs) flags0 None _ _ _
                    Er Her1 Hsc1 eq_refl) as HX.
      cbn [loopy_of is_some] in HX.
      destruct (check_block true T fuel RT CIFC CLOOP true true ([] :: scs) None body)
        as [[]|v|]; [| mono_fin H HX | contradiction].
      clear Her1 Hsc1. destruct HX as (Her1 & Htl). cbn [tl] in Htl.
      remember (sc s6) as scs6 eqn:Hsc1. symmetry in Hsc1.
      mskip H Hsc1 Her1.
      msplit H slot s9 Epop. apply pop_child_A in Epop as [Hsc2 Her2].
      rewrite Hsc1, Htl in Hsc2. rewrite Her1 in Her2.
      mret H. split; assumption.
    Qed.
  End Control.

  (** ** the two recursive functions, on the shared fuel *)
  Lemma control_sim : forall n,
    (forall scs i le ll,
        usim scs (if_condition G fuel RT n i le ll) (check_if true T fuel RT n scs (is_some ll) i)) /\
    (forall scs b, usim scs (loop_statement G fuel RT n b) (check_loop true T fuel RT n scs b)).
  Proof.
    induction n as [|n [IHi IHl]]; split; intros; cbn [if_condition loop_statement check_if check_loop].
    - intros s a s' H. discriminate H.
    - intros s a s' H. discriminate H.
    - destruct (R_control G fuel RT n) as [HRi HRl].
      apply if_condition_step_sim; assumption.
    - destruct (R_control G fuel RT n) as [HRi HRl].
      apply loop_step_sim; assumption.
  Qed.

  (** ** function level *)
  Lemma fn_stmt_sim scs returned st : forall s rt s',
    fn_stmt G fuel RT returned st s = Ok rt s' -> errs s = [] -> sc s = scs ->
    match check_fn_stmt true T fuel RT scs returned st with
    | Pass r => errs s' = [] /\ sc s' = fst r /\ rt = snd r
    | Fail v => fails v s'
    | Stuck => False
    end.
  Proof.
    pose proof (R_expression G fuel) as HRE. pose proof (R_check_type_exists G) as HRT.
    destruct (control_sim fuel) as [HSi HSl].
    intros s rt s' H Her Hsc.
    assert (HRET : forall e,
      (r <- expression G fuel e ;;
       when returned (add_error (Err EReturnAlreadyCalled None loc10)) ;;;
       match r with
       | Some er =>
           check_type_exists G (r_ty er) None loc10 ;;;
           when (negb (sem_ty_eqb RT (r_ty er))) (add_error (Err EWrongReturnType None loc10)) ;;;
           mret <- gets head_mret ;;
           (if mret then emit (IFnRetLabel er) else emit (IFnRet er)) ;;;
           ret true
       | None => ret returned
       end) s = Ok rt s' ->
      match
        andthen (ex true T fuel scs e) (fun t =>
        andthen (require (negb returned) EReturnAlreadyCalled None at_1_0) (fun _ =>
        andthen (require (type_known T t) ETypeNotFound None at_1_0) (fun _ =>
        andthen (require (sem_ty_eqb RT t) EWrongReturnType None at_1_0) (fun _ =>
        Pass (scs, true)))))
      with
      | Pass r => errs s' = [] /\ sc s' = fst r /\ rt = snd r
      | Fail v => fails v s'
      | Stuck => False
      end).
    { clear H. intros e H.
      msplit H r s1 Ee. pose proof (expression_sim G scs fuel e _ _ _ Ee Her Hsc) as HX.
      unfold ex. fold T in HX.
      destruct (check_expr true T scs fuel e) as [t|v|]; cbn [andthen];
        [| mono_fin H HX | contradiction].
      destruct HX as (Her1 & Hsc1 & er & -> & <-).
      msplit H u s2 Ew. unfold require. revert Ew.
      destruct returned; cbn [when negb andthen]; intro Ew.
      { pose proof (fails_add_error _ _ _ _ _ _ Ew Her1) as HF. mono_fin H HF. }
      mret Ew.
      msplit H ok s3 Ec. unfold check_type_exists in Ec. unfold type_known.
      unfold T at 1, tables_of at 1. cbn [tb_types]. revert Ec.
      destruct (is_prim (r_ty er)); cbn [orb]; [| destruct (amem (type_name (r_ty er)) (g_types G))];
        cbn [andthen]; intro Ec.
      3:{ msplit Ec u1 s4 Ee1. pose proof (fails_add_error _ _ _ _ _ _ Ee1 Her1) as HF.
          assert (HF1 : fails (Viol ETypeNotFound None at_1_0) s3) by (mono_fin Ec HF).
          mono_fin H HF1. }
      - mret Ec. msplit H u1 s4 Ew. revert Ew.
        destruct (sem_ty_eqb RT (r_ty er)); cbn [when negb andthen]; intro Ew.
        + mret Ew. mread H. msplit H u2 s5 Em.
          mneutral Em Hsc1 Her1.
          mret H. cbn [fst snd]. split; [exact Her1 | split; [exact Hsc1 | reflexivity]].
        + pose proof (fails_add_error _ _ _ _ _ _ Ew Her1) as HF. mono_fin H HF.
      - mret Ec. msplit H u1 s4 Ew. revert Ew.
        destruct (sem_ty_eqb RT (r_ty er)); cbn [when negb andthen]; intro Ew.
        + mret Ew. mread H. msplit H u2 s5 Em.
          mneutral Em Hsc1 Her1.
          mret H. cbn [fst snd]. split; [exact Her1 | split; [exact Hsc1 | reflexivity]].
        + pose proof (fails_add_error _ _ _ _ _ _ Ew Her1) as HF. mono_fin H HF. }
    destruct st as [x m t e | x e | f args | i | body | e | e | |];
      cbn [fn_stmt] in H; cbn [check_fn_stmt].
    - msplit H u s1 El. pose proof (let_binding_sim scs x m t e _ _ _ El Her Hsc) as HX.
      destruct (check_let true T fuel scs x m t e) as [scs'|v|]; cbn [andthen];
        [| mono_fin H HX | contradiction].
      destruct HX as (Her1 & Hsc1 & _). mret H. cbn [fst snd].
      split; [exact Her1 | split; [exact Hsc1 | reflexivity]].
    - msplit H u s1 El. pose proof (binding_sim scs x e _ _ _ El Her Hsc) as HX.
      destruct (check_assign true T fuel scs x e) as [[]|v|]; cbn [andthen];
        [| mono_fin H HX | contradiction].
      destruct HX as (Her1 & Hsc1). mret H. cbn [fst snd].
      split; [exact Her1 | split; [exact Hsc1 | reflexivity]].
    - msplit H u s1 El. pose proof (call_stmt_sim scs f args _ _ _ El Her Hsc) as HX.
      destruct (check_call_stmt true T fuel scs f args) as [[]|v|]; cbn [andthen];
        [| mono_fin H HX | contradiction].
      destruct HX as (Her1 & Hsc1). mret H. cbn [fst snd].
      split; [exact Her1 | split; [exact Hsc1 | reflexivity]].
    - msplit H u s1 El. pose proof (HSi scs i None None _ _ _ El Her Hsc) as HX.
      cbn [is_some] in HX.
      destruct (check_if true T fuel RT fuel scs false i) as [[]|v|]; cbn [andthen];
        [| mono_fin H HX | contradiction].
      destruct HX as (Her1 & Hsc1). mret H. cbn [fst snd].
      split; [exact Her1 | split; [exact Hsc1 | reflexivity]].
    - msplit H u s1 El. pose proof (HSl scs body _ _ _ El Her Hsc) as HX.
      destruct (check_loop true T fuel RT fuel scs body) as [[]|v|]; cbn [andthen];
        [| mono_fin H HX | contradiction].
      destruct HX as (Her1 & Hsc1). mret H. cbn [fst snd].
      split; [exact Her1 | split; [exact Hsc1 | reflexivity]].
    - exact (HRET e H).
    - exact (HRET e H).
    - discriminate H.
    - discriminate H.
  Qed.

  Lemma fn_stmts_sim : forall ss scs returned s rt s',
    fn_stmts G fuel RT returned ss s = Ok rt s' -> errs s = [] -> sc s = scs ->
    match check_fn_stmts true T fuel RT scs returned ss with
    | Pass r => errs s' = [] /\ rt = r
    | Fail v => fails v s'
    | Stuck => False
    end.
  Proof.
    pose proof (R_fn_stmt G fuel RT) as HRS. pose proof (R_fn_stmts G fuel RT) as HRSS.
    induction ss as [|st ss IH]; intros scs returned s rt s' H Her Hsc;
      cbn [fn_stmts] in H; cbn [check_fn_stmts].
    - mret H. split; [exact Her | reflexivity].
    - msplit H u s1 Ew. unfold require. revert Ew.
      destruct returned; cbn [when negb andthen]; intro Ew.
      { pose proof (fails_add_error _ _ _ _ _ _ Ew Her) as HF. mono_fin H HF. }
      mret Ew. msplit H rt1 s2 Es.
      pose proof (fn_stmt_sim scs false st _ _ _ Es Her Hsc) as HX.
      destruct (check_fn_stmt true T fuel RT scs false st) as [[scs1 rt1']|v|]; cbn [andthen];
        [| mono_fin H HX | contradiction].
      cbn [fst snd] in *. destruct HX as (Her1 & Hsc1 & ->).
      exact (IH _ _ _ _ _ H Her1 Hsc1).
  Qed.
End Stmts.

(** ** parameters *)
Lemma init_func_params_sim : forall ps scope s u s',
  init_func_params ps s = Ok u s' -> errs s = [] -> sc s = [scope] ->
  match declare_params scope ps with
  | Pass scope' => errs s' = [] /\ sc s' = [scope']
  | Fail v => fails v s'
  | Stuck => False
  end.
Proof.
  induction ps as [|[x t] ps IH]; intros scope s u s' H Her Hsc;
    cbn [init_func_params] in H; cbn [declare_params].
  - mret H. split; assumption.
  - mread H.
    assert (HL : amem (iname x) scope =
                 match lookup_frames (iname x) (frames s) with Some _ => true | None => false end).
    { pose proof (lookup_scopes_of (iname x) (frames s)) as HL. fold (sc s) in HL.
      rewrite Hsc in HL. cbn [lookup_scopes] in HL. unfold amem.
      destruct (alookup (iname x) scope); destruct (lookup_frames (iname x) (frames s));
        cbn in HL; congruence. }
    rewrite HL. unfold require. revert H.
    destruct (lookup_frames (iname x) (frames s)) as [val|]; cbn [negb andthen]; intro H.
    + exact (fails_add_error _ _ _ _ _ _ H Her).
    + msplit H u1 s1 Ei. apply insert_value_A in Ei as [Hsc1 Her1].
      cbn [v_ty v_mut] in Hsc1. rewrite Hsc in Hsc1. rewrite Her in Her1. cbn [declare] in Hsc1.
      mskip H Hsc1 Her1. mskip H Hsc1 Her1.
      exact (IH _ _ _ _ H Her1 Hsc1).
Qed.

(** ** one function body *)
Theorem function_body_m_sim G f : forall s u s',
  function_body_m G f s = Ok u s' -> errs s = [] -> sc s = [[]] ->
  match check_fn_body true (tables_of G) f with
  | Pass _ => errs s' = []
  | Fail v => fails v s'
  | Stuck => False
  end.
Proof.
  pose proof (R_fn_stmts G (fuel_of f) (sem_of_ty (fn_result f))) as HRS.
  intros s u s' H Her Hsc. unfold function_body_m in H. cbv zeta in H. unfold check_fn_body.
  msplit H u1 s1 Ep. pose proof (init_func_params_sim _ _ _ _ _ Ep Her Hsc) as HX.
  destruct (declare_params [] (fn_params f)) as [params|v|]; cbn [andthen];
    [| mono_fin H HX | contradiction].
  destruct HX as (Her1 & Hsc1).
  msplit H returned s2 Es.
  pose proof (fn_stmts_sim G (fuel_of f) (sem_of_ty (fn_result f)) _ _ _ _ _ _ Es Her1 Hsc1) as HX.
  change (fuel_of_fn f) with (fuel_of f).
  destruct (check_fn_stmts true (tables_of G) (fuel_of f) (sem_of_ty (fn_result f)) [params] false
              (fn_body f)) as [rt|v|]; cbn [andthen]; [| mono_fin H HX | contradiction].
  destruct HX as (Her2 & ->). unfold require. revert H.
  destruct rt; cbn [negb when]; intro H.
  - mret H. exact Her2.
  - exact (fails_add_error _ _ _ _ _ _ H Her2).
Qed.

Corollary function_body_sim G f u s :
  function_body G [] f = Ok u s ->
  match check_fn_body true (tables_of G) f with
  | Pass _ => errs s = []
  | Fail v => fails v s
  | Stuck => False
  end.
Proof. intro H. exact (function_body_m_sim G f _ _ _ H eq_refl eq_refl). Qed.

Print Assumptions function_body_sim.
