(** C03, statements and control flow: every statement form of the model pushes instructions
    that read as the resolver's events for that statement; blocks are scopes; the else part is
    analysed in the enclosing scopes, after the then-block was closed. *)
From Coq Require Import Lia.
From SA Require Import Model.
From SA.Spec Require Import Stack Tables.
From SA.Mon Require Import C03.
From SA.Proofs Require Import Trace InvNames DefUse ResolutionBase ResolutionLogic ResolutionExpr.
Local Open Scope list_scope.

Lemma V_inv s a b c : V s = (a, b, c) -> Ctx s = a /\ Tabs s = b /\ RInner s = c.
Proof. unfold V. intro H. inversion H. auto. Qed.

(** the else part of an [if]: an else body in a fresh scope, or an else-if in the same scopes *)
Definition ev_else (S : rscopes) (n : nat) (els : option ifbody) (elif : option ifstmt)
  : option (nat * list ev) :=
  match els with
  | Some b => ev_ifbody ([] :: S) n b
  | None => match elif with Some i' => ev_if S n i' | None => Some (n, []) end
  end.

Lemma ev_if_else S n c body els elif :
  ev_if S n (IfS c body els elif) =
  match ev_cond ([] :: S) c with
  | None => None
  | Some ec =>
      match ev_ifbody ([] :: S) n body with
      | None => None
      | Some (n1, eb) =>
          match ev_else S n1 els elif with
          | Some (n2, ee) => Some (n2, ec ++ eb ++ ee)
          | None => None
          end
      end
  end.
Proof.
  rewrite ev_if_eq. destruct (ev_cond _ c) as [ec|]; [|reflexivity].
  destruct (ev_ifbody _ n body) as [[n1 eb]|]; [|reflexivity].
  destruct els as [b|]; [reflexivity|]. destruct elif as [i'|]; [reflexivity|].
  cbn [ev_else]. rewrite app_nil_r. reflexivity.
Qed.

Section Body.
  Variable GL : globals.
  Hypothesis HW : GWF GL.
  Variable na : nat.
  Variable fuel : nat.
  Variable RT : sem_ty.

  (** a statement: the resolver goes from [(S, n)] to [(S', n')] with events [es] *)
  Definition QS (st : stmt) (s s' : bst) : Prop :=
    forall S n Ev, Inv na s S n Ev ->
      exists S' n' es, ev_stmt S n st = Some (S', n', es) /\ Inv na s' S' n' (Ev ++ es).
  Definition QSS (ss : list stmt) (s s' : bst) : Prop :=
    forall S n Ev, Inv na s S n Ev ->
      exists S' n' es, ev_stmts S n ss = Some (n', es) /\ Inv na s' S' n' (Ev ++ es) /\
                       tl S' = tl S.
  Definition QLC (c : lcond) (s s' : bst) : Prop :=
    forall S n Ev, Inv na s S n Ev ->
      exists es, ev_lcond S c = Some es /\ Inv na s' S n (Ev ++ es).
  Definition QC (c : cond) (s s' : bst) : Prop :=
    forall S n Ev, Inv na s S n Ev ->
      exists es, ev_cond S c = Some es /\ Inv na s' S n (Ev ++ es).
  Definition QI (i : ifstmt) (s s' : bst) : Prop :=
    forall S n Ev, Inv na s S n Ev ->
      exists n' es, ev_if S n i = Some (n', es) /\ Inv na s' S n' (Ev ++ es).

  Ltac none_leaf :=
    apply J_ret;
    let HQ := fresh "HQ" in let S := fresh "S" in let n := fresh "n" in
    let Ev := fresh "Ev" in let HI := fresh "HI" in let C := fresh "C" in
    intros HQ S n Ev HI; destruct (HQ _ _ _ HI) as (? & _ & _ & C); congruence.

  (** ** let, assignment, call *)
  Lemma J_let_binding x m t e s :
    J s (let_binding GL fuel x m t e) (fun _ s' => QS (SLet x m t e) s s').
  Proof.
    unfold let_binding.
    eapply J_bind; [apply J_expression; exact HW|]. intros r s1 N1.
    destruct r as [er|]; [|none_leaf]. cbv zeta.
    destruct (match t with Some _ => _ | None => _ end); [apply J_err|].
    apply J_gets_bind. apply J_gets_bind.
    eapply J_bind; [apply J_next_inner|]. intros inner s2 N2.
    eapply J_bind; [apply J_insert_value|]. intros u3 s3 N3.
    eapply J_bind; [apply J_set_inner|]. intros u4 s4 N4.
    eapply J_conseq; [apply J_emit|].
    intros u5 s5 [N5 V5] [N4' V4] [N3' V3] [-> Hfresh] HQ1 S n Ev HI.
    destruct (HQ1 _ _ _ HI) as (es & E1 & I1 & _).
    exists (declare_in (iname x) n S), (Datatypes.S n), (es ++ [EDecl n]). cbn [ev_stmt].
    rewrite E1. split; [reflexivity|]. rewrite app_assoc.
    apply V_inv in V3 as (C3 & T3 & R3). apply V_inv in V4 as (C4 & T4 & R4).
    apply (Inv_let na s1 s5 S n (Ev ++ es) (iname x) (Value inner (r_ty er) m) er);
      [exact N5 | | exact Hfresh | exact I1].
    rewrite V5, C4, T4, R4, C3, T3, R3. reflexivity.
  Qed.

  Lemma J_binding x e s : J s (binding GL fuel x e) (fun _ s' => QS (SBind x e) s s').
  Proof.
    unfold binding.
    eapply J_bind; [apply J_expression; exact HW|]. intros r s1 N1.
    destruct r as [er|]; [|none_leaf].
    apply J_gets_bind. destruct (lookup_frames (iname x) (frames s1)) as [val|] eqn:EL;
      [|apply J_err].
    destruct (negb (v_mut val)); [apply J_err|]. destruct (negb _); [apply J_err|].
    eapply J_conseq; [apply J_emit|]. intros u s2 [N2 V2] HQ1 S n Ev HI.
    destruct (HQ1 _ _ _ HI) as (es & E1 & I1 & _).
    pose proof (Inv_lookup _ _ _ _ _ (iname x) I1) as HL. rewrite EL in HL.
    destruct HL as (d & Hr & Hm).
    exists S, n, (es ++ [EAssign d]). cbn [ev_stmt]. rewrite E1, Hr. split; [reflexivity|].
    rewrite app_assoc. eapply Inv_step; [exact N2 | exact V2 | exact I1 |].
    intros m lets HC. cbn [step_st]. rewrite (Hm _ _ HC). reflexivity.
  Qed.

  Lemma J_call_stmt f args s :
    J s (call_stmt GL fuel f args) (fun _ s' => QS (SCall f args) s s').
  Proof.
    unfold call_stmt.
    eapply J_bind; [apply J_function_call; [exact HW | apply J_expression; exact HW]|].
    intros r s1 N1. apply J_ret. intros HQ1 S n Ev HI.
    destruct (HQ1 _ _ _ HI) as (es & E1 & I1 & _).
    exists S, n, (es ++ [ECall (iname f)]). cbn [ev_stmt]. rewrite E1. split; [reflexivity|].
    exact I1.
  Qed.

  (** ** conditions *)
  Lemma J_get_reg_true s : J s get_reg (fun _ _ => True).
  Proof. apply J_gets. exact I. Qed.

  Lemma J_condition_expression c : forall s,
    J s (condition_expression GL fuel c) (fun _ s' => QLC c s s').
  Proof.
    induction c as [l cmp r | l cmp r op c' IH] using lcond_ind'; intro s;
      cbn [condition_expression];
      (eapply J_bind; [apply J_expression; exact HW|]; intros lres s1 N1;
       eapply J_bind; [apply J_expression; exact HW|]; intros rres s2 N2;
       destruct lres as [lr|]; [|apply J_dead; intro; apply J_get_reg_true];
       destruct rres as [rr|]; [|apply J_dead; intro; apply J_get_reg_true];
       destruct (negb (sem_ty_eqb _ _)); [apply J_dead; intro; apply J_get_reg_true|];
       destruct (negb (is_prim _)); [apply J_dead; intro; apply J_get_reg_true|];
       eapply J_bind; [apply K_alloc; intro; exact I|]; intros r3 s3 N3).
    - eapply J_bind; [apply K_ret|]. intros u4 s4 N4. apply J_gets.
      intros HK4 HK3 HQ2 HQ1 S n Ev HI.
      destruct (HQ1 _ _ _ HI) as (es1 & E1 & I1 & _).
      destruct (HQ2 _ _ _ I1) as (es2 & E2 & I2 & _).
      exists (es1 ++ es2). cbn [ev_lcond]. rewrite E1, E2. cbn [oapp].
      rewrite app_nil_r. split; [reflexivity|]. rewrite app_assoc. apply HK4, HK3, I2.
    - eapply (J_bind _ _ _ (fun _ s' => QLC c' s3 s')).
      { apply J_gets_bind. eapply J_bind; [apply IH|]. intros rreg s4 N4.
        eapply J_bind; [apply K_alloc; intro; exact I|]. intros r5 s5 N5. apply J_ret.
        intros HK HQ S n Ev HI. destruct (HQ _ _ _ HI) as (es & E1 & I1).
        exists es. split; [exact E1 | apply HK, I1]. }
      intros u6 s6 N6. apply J_gets. intros HQ3 HK3 HQ2 HQ1 S n Ev HI.
      destruct (HQ1 _ _ _ HI) as (es1 & E1 & I1 & _).
      destruct (HQ2 _ _ _ I1) as (es2 & E2 & I2 & _). apply HK3 in I2.
      destruct (HQ3 _ _ _ I2) as (es3 & E3 & I3).
      exists (es1 ++ es2 ++ es3). cbn [ev_lcond]. rewrite E1, E2, E3. split; [reflexivity|].
      rewrite !app_assoc. exact I3.
  Qed.

  Lemma J_if_condition_calculation c lb le lend ie s :
    J s (if_condition_calculation GL fuel c lb le lend ie) (fun _ s' => QC c s s').
  Proof.
    unfold if_condition_calculation. cbv zeta. destruct c as [e|lc].
    - eapply J_bind; [apply J_expression; exact HW|]. intros r s1 N1.
      destruct r as [er|]; [|none_leaf].
      eapply J_conseq; [apply K_emit; exact I|]. intros u s2 HK HQ1 S n Ev HI.
      destruct (HQ1 _ _ _ HI) as (es & E1 & I1 & _). exists es. split; [exact E1 | apply HK, I1].
    - eapply J_bind; [apply J_condition_expression|]. intros reg s1 N1.
      eapply J_conseq; [apply K_emit; exact I|]. intros u s2 HK HQ1 S n Ev HI.
      destruct (HQ1 _ _ _ HI) as (es & E1 & I1). exists es. split; [exact E1 | apply HK, I1].
  Qed.

  (** ** control flow *)
  Section Control.
    Variable IFC : ifstmt -> option string -> option (string * string) -> M unit.
    Variable LOOP : list stmt -> M unit.
    Hypothesis HIFC : forall i le ll s, J s (IFC i le ll) (fun _ s' => QI i s s').
    Hypothesis HLOOP : forall body s, J s (LOOP body) (fun _ s' => QS (SLoop body) s s').

    Lemma QI_QS i s s' : QI i s s' -> QS (SIf i) s s'.
    Proof.
      intros HQ S n Ev HI. destruct (HQ _ _ _ HI) as (n' & es & E1 & I1).
      exists S, n', es. cbn [ev_stmt]. rewrite E1. split; [reflexivity | exact I1].
    Qed.

    Lemma J_nested_stmt k lend lloop fl st s :
      J s (nested_stmt GL fuel RT IFC LOOP k lend lloop fl st) (fun _ s' => QS st s s').
    Proof.
      destruct st as [x m t e | x e | f args | i | body | e | e | | ]; cbn [nested_stmt].
      - eapply J_bind; [apply J_let_binding|]. intros u s1 N1. apply J_ret. trivial.
      - eapply J_bind; [apply J_binding|]. intros u s1 N1. apply J_ret. trivial.
      - eapply J_bind; [apply J_call_stmt|]. intros u s1 N1. apply J_ret. trivial.
      - destruct k; (eapply J_bind; [apply HIFC|]; intros u s1 N1; apply J_ret; apply QI_QS).
      - eapply J_bind; [apply HLOOP|]. intros u s1 N1. apply J_ret. trivial.
      - (* a nested return *)
        eapply J_bind; [apply J_expression; exact HW|]. intros r s1 N1.
        destruct r as [er|]; [|none_leaf].
        eapply J_bind; [apply K_check_return_type|]. intros u2 s2 N2.
        eapply J_bind; [apply J_emit|]. intros u3 s3 N3.
        eapply J_bind; [apply K_set_return|]. intros u4 s4 N4. apply J_ret.
        intros HK4 [N3' V3] HK2 HQ1 S n Ev HI.
        destruct (HQ1 _ _ _ HI) as (es & E1 & I1 & _). apply HK2 in I1.
        exists S, n, (es ++ [ERet]). cbn [ev_stmt]. rewrite E1. split; [reflexivity|].
        rewrite app_assoc. apply HK4.
        eapply Inv_step; [exact N3' | exact V3 | exact I1 |]. intros m lets HC. reflexivity.
      - apply J_panic.
      - destruct k, lloop as [[lb le]|]; try apply J_panic;
          (eapply J_bind; [apply K_emit; exact I|]; intros u s1 N1; apply J_ret;
           intros HK S n Ev HI; exists S, n, []; rewrite app_nil_r;
           split; [reflexivity | apply HK, HI]).
      - destruct k, lloop as [[lb le]|]; try apply J_panic;
          (eapply J_bind; [apply K_emit; exact I|]; intros u s1 N1; apply J_ret;
           intros HK S n Ev HI; exists S, n, []; rewrite app_nil_r;
           split; [reflexivity | apply HK, HI]).
    Qed.

    Lemma J_run_body k lend lloop : forall ss fl s,
      J s (run_body GL fuel RT IFC LOOP k lend lloop fl ss) (fun _ s' => QSS ss s s').
    Proof.
      induction ss as [|st ss IH]; intros fl s; cbn [run_body].
      - apply J_ret. intros S n Ev HI. exists S, n, []. rewrite app_nil_r.
        split; [reflexivity|]. split; [exact HI | reflexivity].
      - eapply J_bind; [apply K_code_after_errors|]. intros u1 s1 N1.
        eapply J_bind; [apply J_nested_stmt|]. intros fl' s2 N2.
        eapply J_conseq; [apply IH|]. intros fl'' s3 HQ3 HQ2 HK1 S n Ev HI. apply HK1 in HI.
        destruct (HQ2 _ _ _ HI) as (S1 & n1 & es1 & E1 & I1).
        destruct (HQ3 _ _ _ I1) as (S2 & n2 & es2 & E2 & I2 & T2).
        exists S2, n2, (es1 ++ es2). cbn [ev_stmts]. rewrite E1, E2. split; [reflexivity|].
        rewrite app_assoc. split; [exact I2|]. rewrite T2. eapply ev_stmt_tl, E1.
    Qed.

    Lemma J_if_body b lend lloop s :
      J s (if_body GL fuel RT IFC LOOP b lend lloop) (fun _ s' => QSS (ifbody_stmts b) s s').
    Proof.
      unfold if_body. destruct b as [ss|ss]; cbn [ifbody_stmts].
      - eapply J_bind; [apply J_run_body|]. intros fl s1 N1. apply J_ret. trivial.
      - destruct lloop; [|apply J_panic].
        eapply J_bind; [apply J_run_body|]. intros fl s1 N1. apply J_ret. trivial.
    Qed.

    (** a block that was analysed in its own scope and is closed again *)
    Lemma block_closed s0 s1 s2 ss S n Ev :
      Inv na s0 ([] :: S) n Ev -> QSS ss s0 s1 ->
      frames s2 <> [] -> V s2 = (Ctx s1, tl (Tabs s1), RInner s1) ->
      exists n' es, ev_stmts ([] :: S) n ss = Some (n', es) /\ Inv na s2 S n' (Ev ++ es).
    Proof.
      intros HI HQ N2 V2. destruct (HQ _ _ _ HI) as (S' & n' & es & E1 & I1 & T1).
      exists n', es. split; [exact E1|]. cbn [tl] in T1. rewrite <- T1.
      eapply Inv_pop; eassumption.
    Qed.

    Lemma J_if_condition_step i le ll s :
      J s (if_condition_step GL fuel RT IFC LOOP i le ll) (fun _ s' => QI i s s').
    Proof.
      destruct i as [c body els elif]. cbn [if_condition_step].
      eapply J_bind; [apply K_when, K_err|]. intros u0 s0 N0.
      eapply J_bind; [apply J_push|]. intros u1 s1 N1.
      eapply J_bind; [apply K_gen_label|]. intros lbegin s2 N2.
      eapply J_bind; [apply K_gen_label|]. intros lelse s3 N3.
      eapply (J_bind _ _ _ (fun _ s' => Keeps s3 s')).
      { destruct le; [apply K_ret | apply K_gen_label]. }
      intros lend s4 N4. cbv zeta.
      eapply J_bind; [apply J_if_condition_calculation|]. intros u5 s5 N5.
      eapply J_bind; [apply K_emit; exact I|]. intros u6 s6 N6.
      eapply J_bind; [apply J_if_body|]. intros returned s7 N7.
      eapply J_bind; [apply K_when, K_emit; exact I|]. intros u8 s8 N8.
      (* the common part: condition and then-body in the scope of the then-block *)
      assert (Hthen : forall s9 s10 S n Ev,
                 Keeps s8 s9 -> frames s10 <> [] -> V s10 = (Ctx s9, tl (Tabs s9), RInner s9) ->
                 Keeps s7 s8 -> QSS (ifbody_stmts body) s6 s7 -> Keeps s5 s6 -> QC c s4 s5 ->
                 Keeps s3 s4 -> Keeps s2 s3 -> Keeps s1 s2 ->
                 frames s1 <> [] /\ V s1 = (Ctx s0, [] :: Tabs s0, RInner s0) -> Keeps s s0 ->
                 Inv na s S n Ev ->
                 exists ec n1 eb, ev_cond ([] :: S) c = Some ec /\
                                  ev_ifbody ([] :: S) n body = Some (n1, eb) /\
                                  Inv na s10 S n1 ((Ev ++ ec) ++ eb)).
      { intros s9 s10 S n Ev HK9 N10 V10 HK8 HQ7 HK6 HQ5 HK4 HK3 HK2 [N1' V1] HK0 HI.
        apply HK0 in HI. apply (Inv_push _ _ _ _ _ _ N1' V1) in HI.
        apply HK2, HK3, HK4 in HI. destruct (HQ5 _ _ _ HI) as (ec & Ec & I5). apply HK6 in I5.
        destruct (HQ7 _ _ _ I5) as (S' & n1 & eb & Eb & I7 & T7).
        apply HK8, HK9 in I7. exists ec, n1, eb. split; [exact Ec|].
        rewrite ev_ifbody_eq. split; [exact Eb|]. cbn [tl] in T7. rewrite <- T7.
        eapply Inv_pop; eassumption. }
      destruct (is_some els || is_some elif) eqn:EE.
      - eapply J_bind; [apply K_emit; exact I|]. intros u9 s9 N9.
        eapply J_bind; [apply J_pop|]. intros slot s10 N10.
        eapply (J_bind _ _ _
                  (fun _ s' => forall S n Ev, Inv na s10 S n Ev ->
                     exists n' es, ev_else S n els elif = Some (n', es) /\
                                   Inv na s' S n' (Ev ++ es))).
        { destruct els as [eb|]; cbn [ev_else].
          - eapply J_bind; [apply J_push|]. intros a1 t1 M1.
            eapply J_bind; [apply J_if_body|]. intros a2 t2 M2.
            eapply J_bind; [apply J_pop|]. intros a3 t3 M3.
            eapply J_conseq; [apply K_when, K_emit_kid; exact I|].
            intros a4 t4 HK4 [M3' W3] HQ2 [M1' W1] S n Ev HI.
            apply (Inv_push _ _ _ _ _ _ M1' W1) in HI.
            destruct (block_closed _ _ _ _ _ _ _ HI HQ2 M3' W3) as (n' & es & E1 & I1).
            exists n', es. rewrite ev_ifbody_eq. split; [exact E1 | apply HK4, I1].
          - destruct elif as [ei|].
            + eapply J_conseq; [apply HIFC|]. trivial.
            + apply J_ret. intros S n Ev HI. exists n, []. rewrite app_nil_r.
              split; [reflexivity | exact HI]. }
        intros u11 s11 N11.
        eapply J_conseq; [apply K_when, K_emit_kid; exact I|].
        intros u12 s12 HK12 HQ11 [N10' V10] HK9 HK8 HQ7 HK6 HQ5 HK4 HK3 HK2 NV1 HK0 S n Ev HI.
        destruct (Hthen s9 s10 S n Ev HK9 N10' V10 HK8 HQ7 HK6 HQ5 HK4 HK3 HK2 NV1 HK0 HI)
          as (ec & n1 & eb & Ec & Eb & I10).
        destruct (HQ11 _ _ _ I10) as (n2 & ee & Ee & I11).
        exists n2, (ec ++ eb ++ ee). rewrite ev_if_else, Ec, Eb, Ee. split; [reflexivity|].
        apply HK12. rewrite !app_assoc. exact I11.
      - eapply J_bind; [apply K_when, K_emit; exact I|]. intros u9 s9 N9.
        eapply J_bind; [apply J_pop|]. intros slot s10 N10. apply J_ret.
        intros [N10' V10] HK9 HK8 HQ7 HK6 HQ5 HK4 HK3 HK2 NV1 HK0 S n Ev HI.
        destruct (Hthen s9 s10 S n Ev HK9 N10' V10 HK8 HQ7 HK6 HQ5 HK4 HK3 HK2 NV1 HK0 HI)
          as (ec & n1 & eb & Ec & Eb & I10).
        apply Bool.orb_false_iff in EE as [E1 E2].
        destruct els; [discriminate|]. destruct elif; [discriminate|].
        exists n1, (ec ++ eb). rewrite ev_if_else, Ec, Eb. cbn [ev_else].
        rewrite app_nil_r. split; [reflexivity|]. rewrite app_assoc. exact I10.
    Qed.

    Lemma J_loop_step body s :
      J s (loop_step GL fuel RT IFC LOOP body) (fun _ s' => QS (SLoop body) s s').
    Proof.
      unfold loop_step.
      eapply J_bind; [apply J_push|]. intros u1 s1 N1.
      eapply J_bind; [apply K_gen_label|]. intros lbegin s2 N2.
      eapply J_bind; [apply K_gen_label|]. intros lend s3 N3.
      eapply J_bind; [apply K_emit; exact I|]. intros u4 s4 N4.
      eapply J_bind; [apply K_emit; exact I|]. intros u5 s5 N5.
      eapply J_bind; [apply J_run_body|]. intros fl s6 N6.
      eapply (J_bind _ _ _ (fun _ s' => Keeps s6 s')).
      { destruct (fl_ret fl); k_go. }
      intros u7 s7 N7.
      eapply J_bind; [apply J_pop|]. intros slot s8 N8. apply J_ret.
      intros [N8' V8] HK7 HQ6 HK5 HK4 HK3 HK2 [N1' V1] S n Ev HI.
      apply (Inv_push _ _ _ _ _ _ N1' V1) in HI. apply HK2, HK3, HK4, HK5 in HI.
      destruct (HQ6 _ _ _ HI) as (S' & n' & es & E1 & I6 & T6). apply HK7 in I6.
      exists S, n', es. rewrite ev_stmt_loop, E1. split; [reflexivity|].
      cbn [tl] in T6. rewrite <- T6. eapply Inv_pop; eassumption.
    Qed.
  End Control.

  Lemma J_control k :
    (forall i le ll s, J s (if_condition GL fuel RT k i le ll) (fun _ s' => QI i s s')) /\
    (forall body s, J s (loop_statement GL fuel RT k body) (fun _ s' => QS (SLoop body) s s')).
  Proof.
    induction k as [|k [IH1 IH2]]; split; intros; cbn [if_condition loop_statement];
      try apply J_oof.
    - apply J_if_condition_step; assumption.
    - apply J_loop_step; assumption.
  Qed.

  (** ** the statements of a function body *)
  Lemma J_fn_stmt returned st s :
    J s (fn_stmt GL fuel RT returned st) (fun _ s' => QS st s s').
  Proof.
    destruct (J_control fuel) as [HI HL].
    assert (Hret : forall e,
      J s (r <- expression GL fuel e ;;
           when returned (add_error (Err EReturnAlreadyCalled None loc10)) ;;;
           match r with
           | Some er =>
               check_type_exists GL (r_ty er) None loc10 ;;;
               when (negb (sem_ty_eqb RT (r_ty er)))
                    (add_error (Err EWrongReturnType None loc10)) ;;;
               mret <- gets head_mret ;;
               (if mret then emit (IFnRetLabel er) else emit (IFnRet er)) ;;;
               ret true
           | None => ret returned
           end)
        (fun _ s' => forall S n Ev, Inv na s S n Ev ->
           exists es, ev_expr S e = Some es /\ Inv na s' S n (Ev ++ es ++ [ERet]))).
    { intro e. eapply J_bind; [apply J_expression; exact HW|]. intros r s1 N1.
      eapply J_bind; [apply K_when, K_err|]. intros u2 s2 N2.
      destruct r as [er|].
      - eapply J_bind; [apply K_check_type_exists|]. intros u3 s3 N3.
        eapply J_bind; [apply K_when, K_err|]. intros u4 s4 N4.
        apply J_gets_bind.
        eapply (J_bind _ _ _ (fun _ s' => forall S n Ev, Inv na s4 S n Ev ->
                                             Inv na s' S n (Ev ++ [ERet]))).
        { destruct (head_mret (frames s4));
            (eapply J_conseq; [apply J_emit|]; intros u s5 [N5 V5] S n Ev HI0;
             eapply Inv_step; [exact N5 | exact V5 | exact HI0 |]; intros m lets HC; reflexivity). }
        intros u5 s5 N5. apply J_ret. intros HQ5 HK4 HK3 HK2 HQ1 S n Ev HI0.
        destruct (HQ1 _ _ _ HI0) as (es & E1 & I1 & _). apply HK2, HK3, HK4 in I1.
        exists es. split; [exact E1|]. rewrite app_assoc. apply HQ5, I1.
      - apply J_ret. intros HK2 HQ1 S n Ev HI0. destruct (HQ1 _ _ _ HI0) as (es & _ & _ & C).
        congruence. }
    destruct st as [x m t e | x e | f args | i | body | e | e | | ]; cbn [fn_stmt].
    - eapply J_bind; [apply J_let_binding|]. intros u s1 N1. apply J_ret. trivial.
    - eapply J_bind; [apply J_binding|]. intros u s1 N1. apply J_ret. trivial.
    - eapply J_bind; [apply J_call_stmt|]. intros u s1 N1. apply J_ret. trivial.
    - eapply J_bind; [apply HI|]. intros u s1 N1. apply J_ret. apply QI_QS.
    - eapply J_bind; [apply HL|]. intros u s1 N1. apply J_ret. trivial.
    - eapply J_conseq; [apply Hret|]. intros b s' HQ S n Ev HI0.
      destruct (HQ _ _ _ HI0) as (es & E1 & I1). exists S, n, (es ++ [ERet]). cbn [ev_stmt].
      rewrite E1. split; [reflexivity | exact I1].
    - eapply J_conseq; [apply Hret|]. intros b s' HQ S n Ev HI0.
      destruct (HQ _ _ _ HI0) as (es & E1 & I1). exists S, n, (es ++ [ERet]). cbn [ev_stmt].
      rewrite E1. split; [reflexivity | exact I1].
    - apply J_panic.
    - apply J_panic.
  Qed.

  Lemma J_fn_stmts : forall ss returned s,
    J s (fn_stmts GL fuel RT returned ss) (fun _ s' => QSS ss s s').
  Proof.
    induction ss as [|st ss IH]; intros returned s; cbn [fn_stmts].
    - apply J_ret. intros S n Ev HI. exists S, n, []. rewrite app_nil_r.
      split; [reflexivity|]. split; [exact HI | reflexivity].
    - eapply J_bind; [apply K_when, K_err|]. intros u1 s1 N1.
      eapply J_bind; [apply J_fn_stmt|]. intros r' s2 N2.
      eapply J_conseq; [apply IH|]. intros r'' s3 HQ3 HQ2 HK1 S n Ev HI. apply HK1 in HI.
      destruct (HQ2 _ _ _ HI) as (S1 & n1 & es1 & E1 & I1).
      destruct (HQ3 _ _ _ I1) as (S2 & n2 & es2 & E2 & I2 & T2).
      exists S2, n2, (es1 ++ es2). cbn [ev_stmts]. rewrite E1, E2. split; [reflexivity|].
      rewrite app_assoc. split; [exact I2|]. rewrite T2. eapply ev_stmt_tl, E1.
  Qed.
End Body.
