(** The driver ([run]): declaration phase against [Spec/Tables.v] (C15), independence of the
    function bodies from each other and from the threaded error list (C17), and invariance under
    reordering of the top-level statements (C16). *)
From Coq Require Import Lia Permutation.
From SA Require Import Model.
From SA.Spec Require Import Tables.
From SA.Mon Require Import C15.
Local Open Scope list_scope.

(** * Association lists *)
Section Assoc.
  Context {V : Type}.
  Implicit Types l : list (string * V).

  Lemma alookup_app k l l' :
    alookup k (l ++ l') = match alookup k l with Some v => Some v | None => alookup k l' end.
  Proof.
    induction l as [|[k' v] l IH]; cbn; [reflexivity|].
    destruct (String.eqb k k'); [reflexivity | exact IH].
  Qed.

  Lemma amem_app k l l' : amem k (l ++ l') = amem k l || amem k l'.
  Proof. unfold amem. rewrite alookup_app. destruct (alookup k l); reflexivity. Qed.

  Lemma alookup_in k v l : alookup k l = Some v -> In (k, v) l.
  Proof.
    induction l as [|[k' v'] l IH]; cbn; [discriminate|].
    destruct (String.eqb k k') eqn:E.
    - apply String.eqb_eq in E. intro H; inversion H; subst. left; reflexivity.
    - intro H; right; apply IH, H.
  Qed.

  Lemma alookup_none k l : alookup k l = None <-> ~ In k (map fst l).
  Proof.
    induction l as [|[k' v'] l IH]; cbn.
    - split; [intros _ [] | reflexivity].
    - destruct (String.eqb k k') eqn:E.
      + apply String.eqb_eq in E. subst. split; [discriminate | intro H; exfalso; apply H; left; reflexivity].
      + apply String.eqb_neq in E. rewrite IH. split.
        * intros H [H1|H1]; [apply E; symmetry; exact H1 | apply H, H1].
        * intros H H1; apply H; right; exact H1.
  Qed.

  Lemma in_alookup k v l : NoDup (map fst l) -> In (k, v) l -> alookup k l = Some v.
  Proof.
    induction l as [|[k' v'] l IH]; cbn; intros Hnd Hin; [contradiction|].
    inversion Hnd as [|? ? Hni Hnd']; subst.
    destruct (String.eqb k k') eqn:E.
    - apply String.eqb_eq in E. subst. destruct Hin as [H|H]; [inversion H; reflexivity|].
      exfalso; apply Hni. apply (in_map fst) in H. exact H.
    - apply String.eqb_neq in E. destruct Hin as [H|H]; [inversion H; subst; congruence|].
      apply IH; assumption.
  Qed.

  Lemma amem_alookup k l l' : alookup k l = alookup k l' -> amem k l = amem k l'.
  Proof. unfold amem. intros ->. reflexivity. Qed.

  (** A name list that tracks the keys of a table *)
  Definition keys_agree (seen : list string) l : Prop := forall k, smem k seen = amem k l.

  Lemma keys_agree_nil : keys_agree [] [].
  Proof. intro k; reflexivity. Qed.

  Lemma keys_agree_snoc seen l k v : keys_agree seen l -> keys_agree (k :: seen) (l ++ [(k, v)]).
  Proof.
    intros H k'. rewrite amem_app. cbn [smem]. unfold amem at 2. cbn [alookup].
    rewrite (H k'). destruct (String.eqb k' k); [rewrite Bool.orb_true_r | rewrite Bool.orb_false_r];
      reflexivity.
  Qed.
End Assoc.

(** * C15: the declaration phase computes the tables of the specification *)

Definition add_entity (G : globals) (g : ginstr) : globals :=
  match g with
  | GTypes t => Globals (g_types G ++ [(type_name t, t)]) (g_consts G) (g_funcs G)
  | GConst c => Globals (g_types G) (g_consts G ++ [(c_name c, c)]) (g_funcs G)
  | GFnDecl n ps r => Globals (g_types G) (g_consts G) (g_funcs G ++ [(n, Func n r (map snd ps))])
  end.

Definition apply_outcome (st : gstate) (o : outcome) : gstate :=
  match o with
  | Registers g => GState (add_entity (gs_globals st) g) (gs_stack st ++ [g]) (gs_errs st)
  | Reports e => g_add_error e st
  end.

Definition apply_outcomes (st : gstate) (l : list outcome) : gstate :=
  let G := gs_globals st in
  GState (Globals (g_types G ++ types_of (registered l)) (g_consts G ++ consts_of (registered l))
                  (g_funcs G ++ funcs_of (registered l)))
         (gs_stack st ++ registered l) (gs_errs st ++ reported l).

Lemma apply_outcomes_nil st : apply_outcomes st [] = st.
Proof. destruct st as [[T C F] S E]. unfold apply_outcomes. cbn. rewrite !app_nil_r. reflexivity. Qed.

Lemma apply_outcomes_cons st o l : apply_outcomes (apply_outcome st o) l = apply_outcomes st (o :: l).
Proof.
  destruct st as [[T C F] S E]. destruct o as [[t|c|n ps r]|e]; unfold apply_outcomes; cbn;
    rewrite <- ?app_assoc; reflexivity.
Qed.

(** ** Pass 1 *)
Lemma pass_types_spec : forall p st seen,
  keys_agree seen (g_types (gs_globals st)) ->
  fold_left pass_types p st = apply_outcomes st (pass1 seen p).
Proof.
  induction p as [|t p IH]; intros st seen Hk; cbn [fold_left pass1].
  - symmetry; apply apply_outcomes_nil.
  - destruct t as [path | n a | n ty v | f]; cbn [pass_types]; try (apply IH; exact Hk).
    unfold decl_type. rewrite <- (Hk (iname n)).
    destruct (smem (iname n) seen) eqn:Hs; rewrite <- apply_outcomes_cons.
    + apply IH. exact Hk.
    + apply IH. cbn. apply keys_agree_snoc. exact Hk.
Qed.

(** ** Pass 2 *)
Lemma g_check_type_exists_eq st t val l :
  g_check_type_exists st t val l =
  if type_ok (g_types (gs_globals st)) t then (st, true)
  else (g_add_error (Err ETypeNotFound (Some val) l) st, false).
Proof.
  unfold g_check_type_exists, type_ok. destruct (is_prim t); cbn; [reflexivity|].
  destruct (amem (type_name t) (g_types (gs_globals st))); reflexivity.
Qed.

Lemma check_const_links_eq G cs : keys_agree cs (g_consts G) ->
  forall l, check_const_links G l = missing_const cs l.
Proof.
  intros Hk. induction l as [|[op [c|v]] l IH]; cbn; [reflexivity | | reflexivity].
  rewrite <- (Hk (iname c)). destruct (smem (iname c) cs); [exact IH | reflexivity].
Qed.

Lemma decl_fn_params_quit floc : forall ps st, decl_fn_params st true floc ps = (st, true).
Proof. induction ps as [|[x t] ps IH]; intro st; cbn; [reflexivity | apply IH]. Qed.

Lemma decl_fn_params_eq floc : forall ps st,
  decl_fn_params st false floc ps =
  match bad_param (type_ok (g_types (gs_globals st))) ps with
  | Some x => (g_add_error (Err ETypeNotFound (Some (iname x)) floc) st, true)
  | None => (st, false)
  end.
Proof.
  induction ps as [|[x t] ps IH]; intro st; cbn [decl_fn_params bad_param]; [reflexivity|].
  rewrite g_check_type_exists_eq.
  destruct (type_ok (g_types (gs_globals st)) (sem_of_ty t)); cbn [negb].
  - apply IH.
  - apply decl_fn_params_quit.
Qed.

Lemma decl_const_spec st cs n ty v :
  keys_agree cs (g_consts (gs_globals st)) ->
  decl_const st n ty v =
  apply_outcome st (const_outcome (type_ok (g_types (gs_globals st))) cs n ty v).
Proof.
  intro Hk. unfold decl_const, const_outcome. rewrite <- (Hk (iname n)).
  destruct (smem (iname n) cs); [reflexivity|].
  rewrite (check_const_links_eq _ cs Hk).
  destruct (missing_const cs (ce_rest v)); [reflexivity|].
  rewrite g_check_type_exists_eq. cbn [c_ty const_of].
  destruct (type_ok (g_types (gs_globals st)) (sem_of_ty ty)); reflexivity.
Qed.

Lemma decl_fn_spec st fs f :
  keys_agree fs (g_funcs (gs_globals st)) ->
  decl_fn st f = apply_outcome st (fn_outcome (type_ok (g_types (gs_globals st))) fs f).
Proof.
  intro Hk. unfold decl_fn, fn_outcome. cbv zeta. rewrite <- (Hk (iname (fn_name f))).
  destruct (smem (iname (fn_name f)) fs); [reflexivity|].
  rewrite g_check_type_exists_eq.
  destruct (type_ok (g_types (gs_globals st)) (sem_of_ty (fn_result f))); cbn [negb].
  - rewrite decl_fn_params_eq.
    destruct (bad_param (type_ok (g_types (gs_globals st))) (fn_params f)); [reflexivity|].
    unfold apply_outcome, spec_fn_instr, add_entity. rewrite map_map. reflexivity.
  - rewrite decl_fn_params_quit. reflexivity.
Qed.

Lemma const_outcome_cases tok cs n ty v :
  (exists e, const_outcome tok cs n ty v = Reports e) \/
  (const_outcome tok cs n ty v = Registers (GConst (spec_const n ty v)) /\ smem (iname n) cs = false).
Proof.
  unfold const_outcome. destruct (smem (iname n) cs); [left; eexists; reflexivity|].
  destruct (missing_const cs (ce_rest v)); [left; eexists; reflexivity|].
  destruct (tok (sem_of_ty ty)); [right; split; reflexivity | left; eexists; reflexivity].
Qed.

Lemma fn_outcome_cases tok fs f :
  (exists e, fn_outcome tok fs f = Reports e) \/
  (fn_outcome tok fs f = Registers (spec_fn_instr f) /\ smem (iname (fn_name f)) fs = false).
Proof.
  unfold fn_outcome. cbv zeta. destruct (smem (iname (fn_name f)) fs); [left; eexists; reflexivity|].
  destruct (tok (sem_of_ty (fn_result f))); [|left; eexists; reflexivity].
  destruct (bad_param tok (fn_params f)); [left; eexists; reflexivity | right; split; reflexivity].
Qed.

Lemma pass_decls_spec T : forall p st cs fs,
  g_types (gs_globals st) = T ->
  keys_agree cs (g_consts (gs_globals st)) ->
  keys_agree fs (g_funcs (gs_globals st)) ->
  fold_left pass_decls p st = apply_outcomes st (pass2 (type_ok T) cs fs p).
Proof.
  induction p as [|t p IH]; intros st cs fs HT Hc Hf; cbn [fold_left pass2].
  - symmetry; apply apply_outcomes_nil.
  - destruct t as [path | n a | n ty v | f]; cbn [pass_decls]; try (apply IH; assumption).
    + rewrite (decl_const_spec st cs) by exact Hc. rewrite HT. cbv zeta.
      rewrite <- apply_outcomes_cons.
      destruct (const_outcome_cases (type_ok T) cs n ty v) as [[e He]|[He Hs]]; rewrite He;
        cbn [is_reg]; apply IH; try assumption.
      cbn. apply keys_agree_snoc. exact Hc.
    + rewrite (decl_fn_spec st fs) by exact Hf. rewrite HT. cbv zeta.
      rewrite <- apply_outcomes_cons.
      destruct (fn_outcome_cases (type_ok T) fs f) as [[e He]|[He Hs]]; rewrite He;
        cbn [is_reg]; apply IH; try assumption.
      cbn. apply keys_agree_snoc. exact Hf.
Qed.

(** Pass 1 registers only types, pass 2 only constants and functions. *)
Lemma pass1_no_consts : forall p seen,
  consts_of (registered (pass1 seen p)) = [] /\ funcs_of (registered (pass1 seen p)) = [].
Proof.
  induction p as [|t p IH]; intro seen; cbn [pass1]; [split; reflexivity|].
  destruct t as [path | n a | n ty v | f]; try apply IH.
  destruct (smem (iname n) seen); cbn; apply IH.
Qed.

Lemma pass2_no_types tok : forall p cs fs, types_of (registered (pass2 tok cs fs p)) = [].
Proof.
  induction p as [|t p IH]; intros cs fs; cbn [pass2]; [reflexivity|].
  destruct t as [path | n a | n ty v | f]; try apply IH; cbv zeta.
  - destruct (const_outcome_cases tok cs n ty v) as [[e He]|[He Hs]]; rewrite He; cbn; apply IH.
  - destruct (fn_outcome_cases tok fs f) as [[e He]|[He Hs]]; rewrite He; cbn; apply IH.
Qed.

Theorem declarations_spec p :
  declarations p = GState (spec_globals p) (spec_gstack p) (spec_decl_errs p).
Proof.
  unfold declarations.
  rewrite (pass_types_spec p gstate0 []) by apply keys_agree_nil.
  rewrite (pass_decls_spec (spec_types p) p _ [] []);
    [| reflexivity
     | cbn; rewrite (proj1 (pass1_no_consts p [])); apply keys_agree_nil
     | cbn; rewrite (proj2 (pass1_no_consts p [])); apply keys_agree_nil ].
  unfold apply_outcomes, spec_globals, spec_gstack, spec_decl_errs, spec_consts, spec_funcs,
    spec_types, spec_pass2, spec_pass1, spec_types, spec_pass1. cbn.
  rewrite (proj1 (pass1_no_consts p [])), (proj2 (pass1_no_consts p [])), pass2_no_types.
  cbn. rewrite app_nil_r. reflexivity.
Qed.

(** ** The keys of every table are duplicate-free *)
Lemma pass1_keys : forall p seen,
  NoDup (map fst (types_of (registered (pass1 seen p)))) /\
  (forall k, In k (map fst (types_of (registered (pass1 seen p)))) -> smem k seen = false).
Proof.
  induction p as [|t p IH]; intro seen; cbn [pass1].
  - split; [constructor | intros k []].
  - destruct t as [path | n a | n ty v | f]; try apply IH.
    destruct (smem (iname n) seen) eqn:Hs; [apply IH|].
    destruct (IH (iname n :: seen)) as [Hnd Hin]. cbn. split.
    + constructor; [|exact Hnd]. intro H. apply Hin in H. cbn in H.
      rewrite String.eqb_refl in H. discriminate.
    + intros k [Hk|Hk]; [subst; exact Hs|]. apply Hin in Hk. cbn in Hk.
      destruct (String.eqb k (iname n)); [discriminate | exact Hk].
Qed.

Lemma pass2_keys tok : forall p cs fs,
  (NoDup (map fst (consts_of (registered (pass2 tok cs fs p)))) /\
   (forall k, In k (map fst (consts_of (registered (pass2 tok cs fs p)))) -> smem k cs = false)) /\
  (NoDup (map fst (funcs_of (registered (pass2 tok cs fs p)))) /\
   (forall k, In k (map fst (funcs_of (registered (pass2 tok cs fs p)))) -> smem k fs = false)).
Proof.
  induction p as [|t p IH]; intros cs fs; cbn [pass2].
  - split; (split; [constructor | intros k []]).
  - destruct t as [path | n a | n ty v | f]; try apply IH; cbv zeta.
    + destruct (const_outcome_cases tok cs n ty v) as [[e He]|[He Hs]]; rewrite He; cbn [is_reg];
        [apply IH|].
      destruct (IH (iname n :: cs) fs) as [[Hnd Hin] Hfun]. cbn. split; [|exact Hfun]. split.
      * constructor; [|exact Hnd]. intro H. apply Hin in H. cbn in H.
        rewrite String.eqb_refl in H. discriminate.
      * intros k [Hk|Hk]; [subst; exact Hs|]. apply Hin in Hk. cbn in Hk.
        destruct (String.eqb k (iname n)); [discriminate | exact Hk].
    + destruct (fn_outcome_cases tok fs f) as [[e He]|[He Hs]]; rewrite He; cbn [is_reg];
        [apply IH|].
      destruct (IH cs (iname (fn_name f) :: fs)) as [Hcon [Hnd Hin]]. cbn. split; [exact Hcon|]. split.
      * constructor; [|exact Hnd]. intro H. apply Hin in H. cbn in H.
        rewrite String.eqb_refl in H. discriminate.
      * intros k [Hk|Hk]; [subst; exact Hs|]. apply Hin in Hk. cbn in Hk.
        destruct (String.eqb k (iname (fn_name f))); [discriminate | exact Hk].
Qed.

Theorem spec_tables_nodup p :
  NoDup (map fst (spec_types p)) /\ NoDup (map fst (spec_consts p)) /\
  NoDup (map fst (spec_funcs p)).
Proof.
  split; [apply pass1_keys|]. split; apply pass2_keys.
Qed.

(** ** One stack entry per table entry *)

(** The table entry an instruction of the global stack declares is in its table. *)
Definition ginstr_in_tables (G : globals) (g : ginstr) : Prop :=
  match g with
  | GTypes t => alookup (type_name t) (g_types G) = Some t
  | GConst c => alookup (c_name c) (g_consts G) = Some c
  | GFnDecl n ps r => alookup n (g_funcs G) = Some (Func n r (map snd ps))
  end.

(** (kind, name) of a declaration instruction *)
Definition ginstr_key (g : ginstr) : N * string :=
  match g with
  | GTypes t => (0, type_name t)
  | GConst c => (1, c_name c)
  | GFnDecl n _ _ => (2, n)
  end.

Lemma tables_length (l : list ginstr) :
  length l = (length (types_of l) + length (consts_of l) + length (funcs_of l))%nat.
Proof.
  unfold types_of, consts_of, funcs_of.
  induction l as [|[t|c|n ps r] l IH]; cbn; [reflexivity | | |]; rewrite IH; lia.
Qed.

Lemma ginstr_key_nodup (l : list ginstr) :
  NoDup (map fst (types_of l)) -> NoDup (map fst (consts_of l)) -> NoDup (map fst (funcs_of l)) ->
  NoDup (map ginstr_key l).
Proof.
  induction l as [|g l IH]; intros Ht Hc Hf; [constructor|].
  assert (Hin : forall k g', In g' l -> ginstr_key g' = k ->
            match g' with
            | GTypes t => In (snd k) (map fst (types_of l))
            | GConst c => In (snd k) (map fst (consts_of l))
            | GFnDecl n _ _ => In (snd k) (map fst (funcs_of l))
            end).
  { intros k g' Hg' Hk. subst k.
    destruct g' as [t|c|n ps r]; cbn; apply in_map_iff;
      [exists (type_name t, t) | exists (c_name c, c) | exists (n, Func n r (map snd ps))];
      (split; [reflexivity|]); apply in_flat_map; eexists; (split; [exact Hg'|]); left; reflexivity. }
  cbn [map]. constructor.
  - intro H. apply in_map_iff in H. destruct H as [g' [Hk Hg']]. specialize (Hin _ _ Hg' Hk).
    destruct g as [t|c|n ps r], g' as [t'|c'|n' ps' r']; cbn in Hk; try discriminate;
      cbn in Hin, Ht, Hc, Hf.
    + inversion Ht; contradiction.
    + inversion Hc; contradiction.
    + inversion Hf; contradiction.
  - destruct g as [t|c|n ps r]; cbn in Ht, Hc, Hf; apply IH; try assumption.
    + inversion Ht; assumption.
    + inversion Hc; assumption.
    + inversion Hf; assumption.
Qed.

Lemma ginstr_in_tables_all (l : list ginstr) :
  NoDup (map fst (types_of l)) -> NoDup (map fst (consts_of l)) -> NoDup (map fst (funcs_of l)) ->
  Forall (ginstr_in_tables (Globals (types_of l) (consts_of l) (funcs_of l))) l.
Proof.
  intros Ht Hc Hf. apply Forall_forall. intros g Hg.
  destruct g as [t|c|n ps r]; cbn; apply in_alookup; try assumption;
    apply in_flat_map; eexists; (split; [exact Hg|]); left; reflexivity.
Qed.

Lemma types_of_app l l' : types_of (l ++ l') = types_of l ++ types_of l'.
Proof. apply flat_map_app. Qed.
Lemma consts_of_app l l' : consts_of (l ++ l') = consts_of l ++ consts_of l'.
Proof. apply flat_map_app. Qed.
Lemma funcs_of_app l l' : funcs_of (l ++ l') = funcs_of l ++ funcs_of l'.
Proof. apply flat_map_app. Qed.

(** The tables are the entries declared by the stack. *)
Lemma spec_tables_of_gstack p :
  spec_types p = types_of (spec_gstack p) /\ spec_consts p = consts_of (spec_gstack p) /\
  spec_funcs p = funcs_of (spec_gstack p).
Proof.
  unfold spec_gstack. rewrite types_of_app, consts_of_app, funcs_of_app.
  unfold spec_pass2 at 1. rewrite pass2_no_types.
  unfold spec_pass1 at 2 3. rewrite (proj1 (pass1_no_consts p [])), (proj2 (pass1_no_consts p [])).
  rewrite app_nil_r. repeat split; reflexivity.
Qed.

Theorem spec_gstack_tables p :
  length (spec_gstack p) =
    (length (spec_types p) + length (spec_consts p) + length (spec_funcs p))%nat /\
  NoDup (map ginstr_key (spec_gstack p)) /\
  Forall (ginstr_in_tables (spec_globals p)) (spec_gstack p).
Proof.
  destruct (spec_tables_of_gstack p) as [Ht [Hc Hf]].
  destruct (spec_tables_nodup p) as [Nt [Nc Nf]].
  unfold spec_globals. rewrite Ht, Hc, Hf in *.
  split; [apply tables_length|]. split; [apply ginstr_key_nodup | apply ginstr_in_tables_all];
    assumption.
Qed.

(** ** The driver *)
Lemma functions_of_spec p : functions_of p = spec_fns p.
Proof. reflexivity. Qed.

Lemma bodies_inl_not_ok G : forall fs errs0 roots r o,
  bodies G errs0 roots fs = inl r -> r <> ROk o.
Proof.
  induction fs as [|f fs IH]; intros errs0 roots r o H; cbn in H; [discriminate|].
  destruct (function_body G errs0 f) as [a s| |]; try (inversion H; discriminate).
  destruct (frames s) as [|root [|]]; try (inversion H; discriminate).
  eapply IH; exact H.
Qed.

Lemma run_ok_inv p out : run p = ROk out ->
  exists errors roots,
    bodies (gs_globals (declarations p)) (gs_errs (declarations p)) [] (functions_of p) =
      inr (errors, roots) /\
    out = Output errors (gs_globals (declarations p)) (gs_stack (declarations p)) roots.
Proof.
  unfold run. intro H.
  destruct (bodies (gs_globals (declarations p)) (gs_errs (declarations p)) [] (functions_of p))
    as [r|[errors roots]] eqn:E; [exfalso; eapply bodies_inl_not_ok; eauto|].
  inversion H; subst. exists errors, roots. split; reflexivity.
Qed.

Lemma bodies_length G : forall fs e roots e1 roots1,
  bodies G e roots fs = inr (e1, roots1) -> length roots1 = (length roots + length fs)%nat.
Proof.
  induction fs as [|f fs IH]; intros e roots e1 roots1 H; cbn in H.
  - inversion H; subst. cbn. lia.
  - destruct (function_body G e f) as [a s| |]; try discriminate.
    destruct (frames s) as [|root [|]]; try discriminate.
    apply IH in H. rewrite H, app_length. cbn. lia.
Qed.

Theorem run_globals_match_spec : forall p out,
  run p = ROk out ->
  o_globals out = spec_globals p /\
  o_gstack out = spec_gstack p /\
  length (o_fns out) = length (functions_of p).
Proof.
  intros p out H. apply run_ok_inv in H. destruct H as [errors [roots [Hb Hout]]].
  subst out. cbn [o_globals o_gstack o_fns]. rewrite declarations_spec in *. cbn in *.
  repeat split. apply bodies_length in Hb. exact Hb.
Qed.

(** The whole C15 statement about a model output, in one place. *)
Definition C15_statement (p : program) (out : output) : Prop :=
  (o_globals out = spec_globals p /\
   o_gstack out = spec_gstack p /\
   length (o_fns out) = length (functions_of p)) /\
  (NoDup (map fst (g_types (o_globals out))) /\
   NoDup (map fst (g_consts (o_globals out))) /\
   NoDup (map fst (g_funcs (o_globals out)))) /\
  (length (o_gstack out) =
     (length (g_types (o_globals out)) + length (g_consts (o_globals out)) +
      length (g_funcs (o_globals out)))%nat /\
   NoDup (map ginstr_key (o_gstack out)) /\
   Forall (ginstr_in_tables (o_globals out)) (o_gstack out)).

Theorem run_C15 : forall p out, run p = ROk out -> C15_statement p out.
Proof.
  intros p out H. destruct (run_globals_match_spec p out H) as [Hg [Hs Hl]].
  unfold C15_statement. rewrite Hg, Hs. cbn [spec_globals g_types g_consts g_funcs].
  split; [repeat split; exact Hl|]. split; [apply spec_tables_nodup | apply spec_gstack_tables].
Qed.

(** ** The monitor *)

(** What the monitor decides about an arbitrary output. *)
Definition table_matches {V : Type} (spec out : list (string * V)) : Prop :=
  length out = length spec /\ NoDup (map fst out) /\ forall k, alookup k out = alookup k spec.

Definition C15_monitored (p : program) (out : output) : Prop :=
  table_matches (spec_types p) (g_types (o_globals out)) /\
  table_matches (spec_consts p) (g_consts (o_globals out)) /\
  table_matches (spec_funcs p) (g_funcs (o_globals out)) /\
  o_gstack out = spec_gstack p /\
  length (o_fns out) = length (spec_fns p).

Section TableEqb.
  Context {V : Type} (veqb : V -> V -> bool).
  Hypothesis veqb_eq : forall a b, veqb a b = true <-> a = b.

  Lemma table_eqb_sound (spec out : list (string * V)) :
    NoDup (map fst spec) -> table_eqb veqb spec out = true -> table_matches spec out.
  Proof.
    intros Hnd H. unfold table_eqb in H. apply Bool.andb_true_iff in H. destruct H as [Hlen Hall].
    apply Nat.eqb_eq in Hlen. rewrite forallb_forall in Hall.
    assert (Hin : forall k v, In (k, v) spec -> alookup k out = Some v).
    { intros k v Hkv. specialize (Hall _ Hkv). cbn in Hall.
      destruct (alookup k out) as [v'|]; [|discriminate]. apply veqb_eq in Hall. subst; reflexivity. }
    assert (Hincl : incl (map fst spec) (map fst out)).
    { intros k Hk. apply in_map_iff in Hk. destruct Hk as [[k' v] [Hk Hkv]]. cbn in Hk; subst k'.
      apply Hin, alookup_in in Hkv. apply (in_map fst) in Hkv. exact Hkv. }
    assert (Hlen' : (length (map fst out) <= length (map fst spec))%nat)
      by (rewrite !map_length; lia).
    split; [exact Hlen|]. split.
    - eapply NoDup_incl_NoDup; eassumption.
    - intro k. destruct (alookup k spec) as [v|] eqn:Es.
      + apply Hin, alookup_in, Es.
      + apply alookup_none. apply alookup_none in Es. intro Hk. apply Es.
        eapply NoDup_length_incl; eassumption.
  Qed.

  Lemma table_eqb_refl (l : list (string * V)) : NoDup (map fst l) -> table_eqb veqb l l = true.
  Proof.
    intro Hnd. unfold table_eqb. rewrite Nat.eqb_refl. cbn. apply forallb_forall.
    intros [k v] Hkv. cbn. rewrite (in_alookup k v l Hnd Hkv). apply veqb_eq. reflexivity.
  Qed.
End TableEqb.

Theorem chk_C15_sound p out : chk_C15 p out = true -> C15_monitored p out.
Proof.
  unfold chk_C15. rewrite !Bool.andb_true_iff. intros [[[[Ht Hc] Hf] Hs] Hl].
  destruct (spec_tables_nodup p) as [Nt [Nc Nf]].
  unfold C15_monitored. repeat apply conj.
  - destruct (table_eqb_sound _ sem_ty_eqb_eq _ _ Nt Ht) as [H1 [H2 H3]]. exact H1.
  - destruct (table_eqb_sound _ sem_ty_eqb_eq _ _ Nt Ht) as [H1 [H2 H3]]. exact H2.
  - destruct (table_eqb_sound _ sem_ty_eqb_eq _ _ Nt Ht) as [H1 [H2 H3]]. exact H3.
  - destruct (table_eqb_sound _ const_sem_eqb_eq _ _ Nc Hc) as [H1 [H2 H3]]. exact H1.
  - destruct (table_eqb_sound _ const_sem_eqb_eq _ _ Nc Hc) as [H1 [H2 H3]]. exact H2.
  - destruct (table_eqb_sound _ const_sem_eqb_eq _ _ Nc Hc) as [H1 [H2 H3]]. exact H3.
  - destruct (table_eqb_sound _ func_sem_eqb_eq _ _ Nf Hf) as [H1 [H2 H3]]. exact H1.
  - destruct (table_eqb_sound _ func_sem_eqb_eq _ _ Nf Hf) as [H1 [H2 H3]]. exact H2.
  - destruct (table_eqb_sound _ func_sem_eqb_eq _ _ Nf Hf) as [H1 [H2 H3]]. exact H3.
  - symmetry. apply (list_eqb_eq _ ginstr_eqb_eq). exact Hs.
  - apply Nat.eqb_eq. exact Hl.
Qed.

Theorem chk_C15_complete p out : run p = ROk out -> chk_C15 p out = true.
Proof.
  intro H. destruct (run_globals_match_spec p out H) as [Hg [Hs Hl]].
  destruct (spec_tables_nodup p) as [Nt [Nc Nf]].
  unfold chk_C15. rewrite Hg, Hs, Hl. cbn [spec_globals g_types g_consts g_funcs].
  rewrite (table_eqb_refl _ sem_ty_eqb_eq _ Nt), (table_eqb_refl _ const_sem_eqb_eq _ Nc),
    (table_eqb_refl _ func_sem_eqb_eq _ Nf).
  rewrite (proj2 (list_eqb_eq _ ginstr_eqb_eq _ _) eq_refl).
  rewrite functions_of_spec, Nat.eqb_refl. reflexivity.
Qed.

Print Assumptions run_globals_match_spec.
Print Assumptions run_C15.
Print Assumptions chk_C15_sound.
Print Assumptions chk_C15_complete.

(** * The body phase: one relational pass over the model

    [Rel m m']: running [m'] on a state whose error list has an extra prefix [e0] behaves as
    running [m] on the state without the prefix, and the prefix is carried through unchanged.
    With [m] the analysis under globals [G] and [m'] the same analysis under globals [G'] whose
    tables have pointwise equal lookups, one syntax-directed pass proves both that the body phase
    never reads the error list (C17) and that it uses the globals only through lookups (C16). *)
Definition shift (e0 : list err) (s : bst) : bst := BSt (frames s) (e0 ++ errs s).
Definition shift_res {A} (e0 : list err) (r : res A) : res A :=
  match r with
  | Ok a s => Ok a (shift e0 s)
  | Panic k => Panic k
  | OutOfFuel => OutOfFuel
  end.

Definition Rel {A} (m m' : M A) : Prop := forall e0 s, m' (shift e0 s) = shift_res e0 (m s).

Lemma Rel_ret {A} (a : A) : Rel (ret a) (ret a).
Proof. intros e0 s; reflexivity. Qed.

Lemma Rel_bind {A B} (m m' : M A) (f f' : A -> M B) :
  Rel m m' -> (forall a, Rel (f a) (f' a)) -> Rel (bind m f) (bind m' f').
Proof.
  intros Hm Hf e0 s. unfold bind. rewrite Hm.
  destruct (m s) as [a s1| |]; cbn [shift_res]; [apply Hf | reflexivity | reflexivity].
Qed.

Lemma Rel_gets {A} (f : list block -> A) : Rel (gets f) (gets f).
Proof. intros e0 s; reflexivity. Qed.
Lemma Rel_upd_frames f : Rel (upd_frames f) (upd_frames f).
Proof. intros e0 s; reflexivity. Qed.
Lemma Rel_panic {A} k : Rel (@panic A k) (@panic A k).
Proof. intros e0 s; reflexivity. Qed.
Lemma Rel_oof {A} : Rel (@out_of_fuel A) (@out_of_fuel A).
Proof. intros e0 s; reflexivity. Qed.
Lemma Rel_add_error e : Rel (add_error e) (add_error e).
Proof. intros e0 s. unfold add_error, shift_res, shift. cbn [frames errs]. rewrite app_assoc. reflexivity. Qed.
Lemma Rel_pop_child : Rel pop_child pop_child.
Proof.
  intros e0 s. unfold pop_child. cbn [shift frames errs].
  destruct (frames s) as [|c [|p r]]; reflexivity.
Qed.
Lemma Rel_when b m m' : Rel m m' -> Rel (when b m) (when b m').
Proof. intro H; destruct b; [exact H | apply Rel_ret]. Qed.

Lemma Rel_inc_register : Rel inc_register inc_register.
Proof. apply Rel_upd_frames. Qed.
Lemma Rel_get_reg : Rel get_reg get_reg.
Proof. apply Rel_gets. Qed.
Lemma Rel_emit i : Rel (emit i) (emit i).
Proof. apply Rel_upd_frames. Qed.
Lemma Rel_set_inner n : Rel (set_inner_name n) (set_inner_name n).
Proof. apply Rel_upd_frames. Qed.
Lemma Rel_set_label n : Rel (set_label_name n) (set_label_name n).
Proof. apply Rel_upd_frames. Qed.
Lemma Rel_set_return : Rel set_return set_return.
Proof. apply Rel_upd_frames. Qed.
Lemma Rel_insert_value x v : Rel (insert_value x v) (insert_value x v).
Proof. apply Rel_upd_frames. Qed.
Lemma Rel_push_child : Rel push_child push_child.
Proof. apply Rel_upd_frames. Qed.
Lemma Rel_lookup_value x : Rel (lookup_value x) (lookup_value x).
Proof. apply Rel_gets. Qed.
Lemma Rel_alloc_emit mk : Rel (alloc_emit mk) (alloc_emit mk).
Proof.
  unfold alloc_emit. apply Rel_bind; [apply Rel_inc_register | intros _].
  apply Rel_bind; [apply Rel_get_reg | intro r].
  apply Rel_bind; [apply Rel_upd_frames | intros _; apply Rel_ret].
Qed.
Lemma Rel_bump : Rel bump bump.
Proof. unfold bump. apply Rel_bind; [apply Rel_inc_register | intros _; apply Rel_get_reg]. Qed.
Lemma Rel_emit_kid k i : Rel (emit_kid k i) (emit_kid k i).
Proof. unfold emit_kid. apply Rel_bind; [apply Rel_upd_frames | intros _; apply Rel_emit]. Qed.

Lemma Rel_next_inner_name fuel : forall n, Rel (next_inner_name fuel n) (next_inner_name fuel n).
Proof.
  induction fuel as [|f IH]; intros n e0 s; cbn [next_inner_name]; [reflexivity|].
  destruct (set_attr_counter n) as [n'|]; [|reflexivity].
  cbn [shift frames]. destruct (inner_exists n' (frames s)); [apply IH | reflexivity].
Qed.

Lemma Rel_label_probe fuel : forall n, Rel (label_probe fuel n) (label_probe fuel n).
Proof.
  induction fuel as [|f IH]; intros n e0 s; cbn [label_probe]; [reflexivity|].
  destruct (set_attr_counter n) as [n'|]; [|reflexivity].
  cbn [shift frames]. destruct (label_exists n' (frames s)); [apply IH|].
  apply (Rel_bind _ _ _ _ (Rel_set_label n') (fun _ => Rel_ret n')).
Qed.

(** Globals with pointwise equal lookups *)
Record geq (G G' : globals) : Prop := {
  geq_t : forall k, alookup k (g_types G) = alookup k (g_types G');
  geq_c : forall k, alookup k (g_consts G) = alookup k (g_consts G');
  geq_f : forall k, alookup k (g_funcs G) = alookup k (g_funcs G') }.

Lemma geq_refl G : geq G G.
Proof. split; reflexivity. Qed.
Lemma geq_sym G G' : geq G G' -> geq G' G.
Proof. intros [H1 H2 H3]; split; intro k; symmetry; auto. Qed.
Lemma geq_tm G G' : geq G G' -> forall k, amem k (g_types G) = amem k (g_types G').
Proof. intros H k. apply amem_alookup, H. Qed.

Ltac rel_prim :=
  first
    [ apply Rel_ret | apply Rel_gets | apply Rel_panic | apply Rel_oof | apply Rel_bump
    | apply Rel_alloc_emit | apply Rel_emit | apply Rel_emit_kid
    | apply Rel_set_inner | apply Rel_set_label | apply Rel_set_return | apply Rel_insert_value
    | apply Rel_add_error | apply Rel_push_child | apply Rel_pop_child
    | apply Rel_lookup_value | apply Rel_get_reg | apply Rel_next_inner_name
    | apply Rel_label_probe ].

Ltac rel_globals :=
  match goal with
  | H : geq ?G ?G' |- context [alookup ?k (g_funcs ?G)] => rewrite (geq_f G G' H k)
  | H : geq ?G ?G' |- context [alookup ?k (g_consts ?G)] => rewrite (geq_c G G' H k)
  | H : geq ?G ?G' |- context [alookup ?k (g_types ?G)] => rewrite (geq_t G G' H k)
  | H : geq ?G ?G' |- context [amem ?k (g_types ?G)] => rewrite (geq_tm G G' H k)
  end.

Ltac rel_go :=
  repeat first
    [ rel_prim
    | match goal with H : _ |- Rel _ _ => solve [apply H; auto] end
    | apply Rel_when
    | apply Rel_bind; [| intro]
    | rel_globals
    | match goal with
      | |- Rel (match ?x with _ => _ end) (match ?x with _ => _ end) => destruct x
      end
    | match goal with |- Rel (if ?b then _ else _) (if ?b then _ else _) => destruct b end
    | progress cbv zeta ].

Lemma Rel_gen_label base : Rel (gen_label base) (gen_label base).
Proof. unfold gen_label. rel_go. Qed.

Section BodyRel.
  Variables G G' : globals.
  Hypothesis HG : geq G G'.

  Lemma Rel_check_type_exists t v l : Rel (check_type_exists G t v l) (check_type_exists G' t v l).
  Proof. unfold check_type_exists. rel_go. Qed.

  Section Expr.
    Variables E E' : expr -> M (option eres).
    Hypothesis HE : forall e, Rel (E e) (E' e).

    Lemma Rel_call_args callee params : forall args i acc,
      Rel (call_args E callee params i args acc) (call_args E' callee params i args acc).
    Proof. induction args as [|a args IH]; intros i acc; cbn [call_args]; rel_go. Qed.

    Lemma Rel_function_call f args : Rel (function_call G E f args) (function_call G' E' f args).
    Proof. unfold function_call. pose proof Rel_call_args. rel_go. Qed.

    Lemma Rel_expr_value v : Rel (expr_value G E v) (expr_value G' E' v).
    Proof.
      pose proof Rel_function_call. pose proof Rel_check_type_exists.
      destruct v; cbn [expr_value]; rel_go.
    Qed.

    Lemma Rel_expr_chain : forall rest left,
      Rel (expr_chain G E left rest) (expr_chain G' E' left rest).
    Proof.
      pose proof Rel_expr_value.
      induction rest as [|[op v] rest IH]; intros left; cbn [expr_chain]; rel_go.
    Qed.

    Lemma Rel_expression_body e : Rel (expression_body G E e) (expression_body G' E' e).
    Proof.
      pose proof Rel_expr_value. pose proof Rel_expr_chain.
      unfold expression_body. rel_go.
    Qed.
  End Expr.

  Lemma Rel_expression fuel : forall e, Rel (expression G fuel e) (expression G' fuel e).
  Proof.
    induction fuel as [|f IH]; intro e; cbn [expression]; [apply Rel_oof|].
    apply Rel_expression_body; exact IH.
  Qed.

  Section Stmts.
    Variable fuel : nat.
    Variable RT : sem_ty.

    Lemma Rel_let_binding x m t e : Rel (let_binding G fuel x m t e) (let_binding G' fuel x m t e).
    Proof. pose proof (Rel_expression fuel). unfold let_binding. rel_go. Qed.

    Lemma Rel_binding x e : Rel (binding G fuel x e) (binding G' fuel x e).
    Proof. pose proof (Rel_expression fuel). unfold binding. rel_go. Qed.

    Lemma Rel_call_stmt f args : Rel (call_stmt G fuel f args) (call_stmt G' fuel f args).
    Proof.
      unfold call_stmt. apply Rel_bind; [|intro; apply Rel_ret].
      apply Rel_function_call. apply Rel_expression.
    Qed.

    Lemma lcond_ind' (P : lcond -> Prop) :
      (forall l c r, P (LC l c r None)) ->
      (forall l c r op n, P n -> P (LC l c r (Some (op, n)))) ->
      forall c, P c.
    Proof.
      intros H1 H2. fix IH 1. intros [l c r [[op n]|]]; [apply H2, IH | apply H1].
    Qed.

    Lemma Rel_condition_expression c :
      Rel (condition_expression G fuel c) (condition_expression G' fuel c).
    Proof.
      pose proof (Rel_expression fuel).
      induction c as [l c r | l c r op n IH] using lcond_ind'; cbn [condition_expression]; rel_go.
    Qed.

    Lemma Rel_if_condition_calculation c lb le lend ie :
      Rel (if_condition_calculation G fuel c lb le lend ie)
          (if_condition_calculation G' fuel c lb le lend ie).
    Proof.
      pose proof (Rel_expression fuel). pose proof Rel_condition_expression.
      unfold if_condition_calculation. rel_go.
    Qed.

    Lemma Rel_check_return_type er : Rel (check_return_type RT er) (check_return_type RT er).
    Proof. unfold check_return_type. rel_go. Qed.

    Lemma Rel_code_after_errors k fl : Rel (code_after_errors k fl) (code_after_errors k fl).
    Proof. unfold code_after_errors. rel_go. Qed.

    Section Control.
      Variables IFC IFC' : ifstmt -> option string -> option (string * string) -> M unit.
      Variables LOOP LOOP' : list stmt -> M unit.
      Hypothesis HIFC : forall i le ll, Rel (IFC i le ll) (IFC' i le ll).
      Hypothesis HLOOP : forall b, Rel (LOOP b) (LOOP' b).

      Lemma Rel_nested_stmt k lend lloop fl st :
        Rel (nested_stmt G fuel RT IFC LOOP k lend lloop fl st)
            (nested_stmt G' fuel RT IFC' LOOP' k lend lloop fl st).
      Proof.
        pose proof (Rel_expression fuel). pose proof Rel_let_binding. pose proof Rel_binding.
        pose proof Rel_call_stmt. pose proof Rel_check_return_type.
        destruct st; cbn [nested_stmt]; rel_go.
      Qed.

      Lemma Rel_run_body k lend lloop : forall ss fl,
        Rel (run_body G fuel RT IFC LOOP k lend lloop fl ss)
            (run_body G' fuel RT IFC' LOOP' k lend lloop fl ss).
      Proof.
        pose proof Rel_nested_stmt. pose proof Rel_code_after_errors.
        induction ss as [|st ss IH]; intro fl; cbn [run_body]; rel_go.
      Qed.

      Lemma Rel_if_body b lend lloop :
        Rel (if_body G fuel RT IFC LOOP b lend lloop) (if_body G' fuel RT IFC' LOOP' b lend lloop).
      Proof. pose proof Rel_run_body. unfold if_body. rel_go. Qed.

      Lemma Rel_if_condition_step i le ll :
        Rel (if_condition_step G fuel RT IFC LOOP i le ll)
            (if_condition_step G' fuel RT IFC' LOOP' i le ll).
      Proof.
        pose proof Rel_if_body. pose proof Rel_if_condition_calculation. pose proof Rel_gen_label.
        destruct i as [c body els elif]. cbn [if_condition_step]. rel_go.
      Qed.

      Lemma Rel_loop_step body :
        Rel (loop_step G fuel RT IFC LOOP body) (loop_step G' fuel RT IFC' LOOP' body).
      Proof. pose proof Rel_run_body. pose proof Rel_gen_label. unfold loop_step. rel_go. Qed.
    End Control.

    Lemma Rel_control n :
      (forall i le ll, Rel (if_condition G fuel RT n i le ll) (if_condition G' fuel RT n i le ll)) /\
      (forall b, Rel (loop_statement G fuel RT n b) (loop_statement G' fuel RT n b)).
    Proof.
      induction n as [|n [IH1 IH2]]; split; intros; cbn [if_condition loop_statement];
        try apply Rel_oof.
      - apply Rel_if_condition_step; assumption.
      - apply Rel_loop_step; assumption.
    Qed.

    Lemma Rel_init_func_params : forall ps, Rel (init_func_params ps) (init_func_params ps).
    Proof. induction ps as [|[x t] ps IH]; cbn [init_func_params]; rel_go. Qed.

    Lemma Rel_fn_stmt returned st :
      Rel (fn_stmt G fuel RT returned st) (fn_stmt G' fuel RT returned st).
    Proof.
      pose proof (Rel_expression fuel). pose proof Rel_let_binding. pose proof Rel_binding.
      pose proof Rel_call_stmt. pose proof Rel_check_type_exists.
      destruct (Rel_control fuel) as [HI HL].
      destruct st; cbn [fn_stmt]; rel_go.
    Qed.

    Lemma Rel_fn_stmts : forall ss returned,
      Rel (fn_stmts G fuel RT returned ss) (fn_stmts G' fuel RT returned ss).
    Proof.
      pose proof Rel_fn_stmt.
      induction ss as [|st ss IH]; intro returned; cbn [fn_stmts]; rel_go.
    Qed.
  End Stmts.

  Lemma Rel_function_body_m f : Rel (function_body_m G f) (function_body_m G' f).
  Proof.
    pose proof Rel_init_func_params. pose proof Rel_fn_stmts.
    unfold function_body_m. rel_go.
  Qed.
End BodyRel.

Lemma shift_nil s : shift [] s = s.
Proof. destruct s; reflexivity. Qed.
Lemma shift_res_nil {A} (r : res A) : shift_res [] r = r.
Proof. destruct r as [a s| |]; cbn; [rewrite shift_nil|..]; reflexivity. Qed.

(** A function body under globals [G'] on the threaded error list [e0] is the same body under
    lookup-equivalent globals [G] on the empty error list, with [e0] put in front. *)
Theorem function_body_rel G G' : geq G G' ->
  forall e0 f, function_body G' e0 f = shift_res e0 (function_body G [] f).
Proof.
  intros HG e0 f. unfold function_body.
  rewrite <- (Rel_function_body_m G G' HG f e0 (BSt [empty_block] [])).
  unfold shift. cbn [frames errs]. rewrite app_nil_r. reflexivity.
Qed.

(** * C17 *)

(** (a) The error list is only appended to and never read. *)
Theorem function_body_frame : forall G e0 f,
  match function_body G [] f, function_body G e0 f with
  | Ok _ s, Ok _ s' => frames s' = frames s /\ errs s' = e0 ++ errs s
  | Panic k, Panic k' => k = k'
  | OutOfFuel, OutOfFuel => True
  | _, _ => False
  end.
Proof.
  intros G e0 f. rewrite (function_body_rel G G (geq_refl G) e0 f).
  destruct (function_body G [] f) as [a s| |]; cbn; [split; reflexivity | reflexivity | exact I].
Qed.

(** The body phase uses the globals only through lookups. *)
Theorem function_body_geq G G' : geq G G' -> forall e f, function_body G e f = function_body G' e f.
Proof.
  intros HG e f. rewrite (function_body_rel G G' HG), (function_body_rel G G (geq_refl G)).
  reflexivity.
Qed.

(** What one function contributes to the output. *)
Definition body_errors (G : globals) (f : fn_decl) : list err :=
  match function_body G [] f with Ok _ s => errs s | _ => [] end.
Definition body_root (G : globals) (f : fn_decl) : block :=
  match function_body G [] f with
  | Ok _ s => match frames s with [root] => root | _ => empty_block end
  | _ => empty_block
  end.
(** The analysis of the body terminates normally (no model panic, fuel suffices). *)
Definition body_ok (G : globals) (f : fn_decl) : Prop :=
  match function_body G [] f with
  | Ok _ s => match frames s with [_] => True | _ => False end
  | _ => False
  end.

Lemma bodies_spec G : forall fs e roots e1 roots1,
  bodies G e roots fs = inr (e1, roots1) ->
  e1 = e ++ concat (map (body_errors G) fs) /\ roots1 = roots ++ map (body_root G) fs /\
  Forall (body_ok G) fs.
Proof.
  induction fs as [|f fs IH]; intros e roots e1 roots1 H; cbn [bodies] in H.
  - inversion H; subst. cbn. rewrite !app_nil_r. repeat split. constructor.
  - rewrite (function_body_rel G G (geq_refl G) e f) in H.
    cbn [map concat]. unfold body_errors at 1, body_root at 1.
    assert (Hok : body_ok G f -> Forall (body_ok G) fs -> Forall (body_ok G) (f :: fs))
      by (intros; constructor; assumption).
    unfold body_ok at 1 in Hok.
    destruct (function_body G [] f) as [a s| |]; cbn [shift_res] in H; try discriminate.
    cbn [shift frames errs] in H.
    destruct (frames s) as [|root [|]]; try discriminate.
    apply IH in H. destruct H as [H1 [H2 H3]]. subst.
    rewrite <- !app_assoc. repeat split. apply Hok; [exact I | exact H3].
Qed.

Lemma bodies_complete G : forall fs e roots,
  Forall (body_ok G) fs ->
  bodies G e roots fs =
  inr (e ++ concat (map (body_errors G) fs), roots ++ map (body_root G) fs).
Proof.
  induction fs as [|f fs IH]; intros e roots Hok; cbn [bodies map concat].
  - rewrite !app_nil_r. reflexivity.
  - inversion Hok as [|? ? Hf Hfs]; subst.
    rewrite (function_body_rel G G (geq_refl G) e f).
    unfold body_errors at 1, body_root at 1. unfold body_ok in Hf.
    destruct (function_body G [] f) as [a s| |]; try contradiction.
    cbn [shift_res shift frames errs].
    destruct (frames s) as [|root [|]]; try contradiction.
    rewrite (IH _ _ Hfs). rewrite <- !app_assoc. reflexivity.
Qed.

(** (b) The error list of the program: the declaration-phase errors followed by each function's
    own body errors in source order; the root blocks: each function's own, in source order. *)
Theorem run_errors_decomposition : forall p out,
  run p = ROk out ->
  o_errors out = gs_errs (declarations p) ++
                 concat (map (body_errors (gs_globals (declarations p))) (functions_of p)) /\
  o_fns out = map (body_root (gs_globals (declarations p))) (functions_of p).
Proof.
  intros p out H. apply run_ok_inv in H. destruct H as [errors [roots [Hb Hout]]]. subst out.
  apply bodies_spec in Hb. destruct Hb as [H1 [H2 _]]. cbn [o_errors o_fns]. split; assumption.
Qed.

Theorem run_ok_iff p :
  (exists out, run p = ROk out) <->
  Forall (body_ok (gs_globals (declarations p))) (functions_of p).
Proof.
  split.
  - intros [out H]. apply run_ok_inv in H. destruct H as [errors [roots [Hb _]]].
    apply bodies_spec in Hb. apply Hb.
  - intro Hok. unfold run. rewrite (bodies_complete _ _ _ _ Hok). eexists; reflexivity.
Qed.

(** (c) Independence: with the same declaration-phase result, the same function at the same
    position gets the same root block and the same body errors. *)
Theorem run_function_independent : forall p p' out out' i f,
  gs_globals (declarations p) = gs_globals (declarations p') ->
  nth_error (functions_of p) i = Some f ->
  nth_error (functions_of p') i = Some f ->
  run p = ROk out -> run p' = ROk out' ->
  nth_error (o_fns out) i = Some (body_root (gs_globals (declarations p)) f) /\
  nth_error (o_fns out') i = nth_error (o_fns out) i /\
  body_errors (gs_globals (declarations p')) f = body_errors (gs_globals (declarations p)) f.
Proof.
  intros p p' out out' i f HG Hi Hi' Hr Hr'.
  apply run_errors_decomposition in Hr. apply run_errors_decomposition in Hr'.
  destruct Hr as [_ Hr]. destruct Hr' as [_ Hr']. rewrite Hr, Hr', <- HG.
  rewrite (map_nth_error _ _ _ Hi), (map_nth_error _ _ _ Hi'). repeat split; reflexivity.
Qed.

(** Two top-level statements that differ at most in a function's body. *)
Definition same_header (t t' : top) : Prop :=
  match t, t' with
  | TFn f, TFn f' =>
      fn_name f = fn_name f' /\ fn_params f = fn_params f' /\ fn_result f = fn_result f'
  | _, _ => t = t'
  end.

Lemma decl_fn_header st f f' :
  fn_name f = fn_name f' -> fn_params f = fn_params f' -> fn_result f = fn_result f' ->
  decl_fn st f = decl_fn st f'.
Proof. intros H1 H2 H3. unfold decl_fn. rewrite H1, H2, H3. reflexivity. Qed.

Lemma fold_pass_types_header : forall p p' st,
  Forall2 same_header p p' -> fold_left pass_types p st = fold_left pass_types p' st.
Proof.
  intros p p' st H. revert st. induction H as [|t t' p p' Ht _ IH]; intro st; [reflexivity|].
  cbn [fold_left]. rewrite IH. f_equal.
  destruct t, t'; cbn in Ht; try discriminate Ht; try (inversion Ht; reflexivity); reflexivity.
Qed.

Lemma fold_pass_decls_header : forall p p' st,
  Forall2 same_header p p' -> fold_left pass_decls p st = fold_left pass_decls p' st.
Proof.
  intros p p' st H. revert st. induction H as [|t t' p p' Ht _ IH]; intro st; [reflexivity|].
  cbn [fold_left]. rewrite IH. f_equal.
  destruct t, t'; cbn in Ht; try discriminate Ht; try (inversion Ht; reflexivity).
  destruct Ht as [H1 [H2 H3]]. cbn. apply decl_fn_header; assumption.
Qed.

(** The declaration phase does not look at function bodies. *)
Theorem declarations_ignore_bodies : forall p p',
  Forall2 same_header p p' -> declarations p = declarations p'.
Proof.
  intros p p' H. unfold declarations.
  rewrite (fold_pass_types_header p p' _ H). apply fold_pass_decls_header, H.
Qed.

(** Replacing the bodies of the other functions by arbitrary bodies changes neither the
    declaration-phase errors, nor this function's root block, nor its body errors. *)
Theorem run_other_bodies_irrelevant : forall p p' out out' i f,
  Forall2 same_header p p' ->
  nth_error (functions_of p) i = Some f ->
  nth_error (functions_of p') i = Some f ->
  run p = ROk out -> run p' = ROk out' ->
  let G := gs_globals (declarations p) in
  let D := gs_errs (declarations p) in
  o_globals out' = o_globals out /\ o_gstack out' = o_gstack out /\
  nth_error (o_fns out') i = nth_error (o_fns out) i /\
  nth_error (o_fns out) i = Some (body_root G f) /\
  o_errors out = D ++ concat (map (body_errors G) (functions_of p)) /\
  o_errors out' = D ++ concat (map (body_errors G) (functions_of p')).
Proof.
  intros p p' out out' i f Hh Hi Hi' Hr Hr' G D. subst G D.
  pose proof (declarations_ignore_bodies p p' Hh) as Hd.
  assert (HG : gs_globals (declarations p) = gs_globals (declarations p')) by (rewrite Hd; reflexivity).
  destruct (run_function_independent p p' out out' i f HG Hi Hi' Hr Hr') as [H1 [H2 _]].
  pose proof (run_errors_decomposition p out Hr) as [He _].
  pose proof (run_errors_decomposition p' out' Hr') as [He' _].
  apply run_ok_inv in Hr. destruct Hr as [e [r [_ Ho]]].
  apply run_ok_inv in Hr'. destruct Hr' as [e' [r' [_ Ho']]].
  rewrite <- Hd in He'. rewrite <- Hd in Ho'.
  repeat split; try assumption; subst out out'; reflexivity.
Qed.

Print Assumptions function_body_frame.
Print Assumptions function_body_geq.
Print Assumptions run_errors_decomposition.
Print Assumptions run_function_independent.
Print Assumptions run_other_bodies_irrelevant.

(** * C16: reordering the top-level statements *)

Definition is_const (t : top) : bool := match t with TConst _ _ _ => true | _ => false end.
Definition struct_names (p : program) : list string :=
  flat_map (fun t => match t with TStructDecl n _ => [iname n] | _ => [] end) p.
Definition const_names (p : program) : list string :=
  flat_map (fun t => match t with TConst n _ _ => [iname n] | _ => [] end) p.
Definition fn_names (p : program) : list string :=
  flat_map (fun t => match t with TFn f => [iname (fn_name f)] | _ => [] end) p.
Definition struct_decls (p : program) : list (string * sem_ty) :=
  flat_map (fun t => match t with
                     | TStructDecl n a => [(iname n, struct_of_decl n a)]
                     | _ => []
                     end) p.

Lemma smem_cons_false k x seen :
  k <> x -> smem k seen = false -> smem k (x :: seen) = false.
Proof.
  intros Hne Hs. cbn. destruct (String.eqb k x) eqn:E; [|exact Hs].
  apply String.eqb_eq in E. contradiction.
Qed.

(** Lookups do not see the order of a duplicate-free table. *)
Lemma perm_alookup {V} (l l' : list (string * V)) :
  NoDup (map fst l) -> Permutation l l' -> forall k, alookup k l = alookup k l'.
Proof.
  intros Hnd Hp k.
  assert (Hnd' : NoDup (map fst l')) by (eapply Permutation_NoDup; [apply Permutation_map, Hp | exact Hnd]).
  destruct (alookup k l) as [v|] eqn:E.
  - symmetry. apply in_alookup; [exact Hnd'|]. eapply Permutation_in; [exact Hp|]. apply alookup_in, E.
  - symmetry. apply alookup_none. apply alookup_none in E. intro H. apply E.
    eapply Permutation_in; [apply Permutation_sym, Permutation_map, Hp | exact H].
Qed.

(** ** Pass 1 without duplicate struct names: every declaration is registered, none reported *)
Lemma pass1_nodup : forall p seen,
  NoDup (struct_names p) -> (forall k, In k (struct_names p) -> smem k seen = false) ->
  types_of (registered (pass1 seen p)) = struct_decls p /\ reported (pass1 seen p) = [].
Proof.
  induction p as [|t p IH]; intros seen Hnd Hseen; [split; reflexivity|].
  destruct t as [path | n a | n ty v | f]; cbn [pass1]; try (apply IH; assumption).
  cbn in Hnd, Hseen. inversion Hnd as [|? ? Hni Hnd']; subst.
  rewrite (Hseen (iname n)) by (left; reflexivity).
  destruct (IH (iname n :: seen) Hnd') as [H1 H2].
  { intros k Hk. apply smem_cons_false; [intro; subst; contradiction | apply Hseen; right; exact Hk]. }
  split; [|exact H2]. cbn. f_equal. exact H1.
Qed.

(** ** Pass 2 *)
Lemma bad_param_ext tok tok' : (forall t, tok t = tok' t) ->
  forall ps, bad_param tok ps = bad_param tok' ps.
Proof.
  intros H. induction ps as [|[x t] ps IH]; cbn; [reflexivity|]. rewrite <- H, IH. reflexivity.
Qed.

Lemma const_outcome_ext tok tok' : (forall t, tok t = tok' t) ->
  forall cs n ty v, const_outcome tok cs n ty v = const_outcome tok' cs n ty v.
Proof. intros H cs n ty v. unfold const_outcome. rewrite H. reflexivity. Qed.

Lemma fn_outcome_ext tok tok' : (forall t, tok t = tok' t) ->
  forall fs f, fn_outcome tok fs f = fn_outcome tok' fs f.
Proof.
  intros H fs f. unfold fn_outcome. rewrite H, (bad_param_ext tok tok' H). reflexivity.
Qed.

Lemma pass2_ext tok tok' : (forall t, tok t = tok' t) ->
  forall p cs fs, pass2 tok cs fs p = pass2 tok' cs fs p.
Proof.
  intros H. induction p as [|t p IH]; intros cs fs; cbn [pass2]; [reflexivity|].
  destruct t as [path | n a | n ty v | f]; try apply IH; cbv zeta.
  - rewrite (const_outcome_ext tok tok' H), IH. reflexivity.
  - rewrite (fn_outcome_ext tok tok' H), IH. reflexivity.
Qed.

Lemma fn_outcome_fresh tok fs f :
  smem (iname (fn_name f)) fs = false -> fn_outcome tok fs f = fn_outcome tok [] f.
Proof. intro H. unfold fn_outcome. cbv zeta. rewrite H. reflexivity. Qed.

(** The constants part of pass 2 depends only on the constant declarations, in their order. *)
Lemma pass2_consts tok : forall p cs fs,
  consts_of (registered (pass2 tok cs fs p)) =
  consts_of (registered (pass2 tok cs [] (filter is_const p))).
Proof.
  induction p as [|t p IH]; intros cs fs; [reflexivity|].
  destruct t as [path | n a | n ty v | f]; cbn [pass2 filter is_const]; try apply IH; cbv zeta.
  - destruct (const_outcome_cases tok cs n ty v) as [[e He]|[He Hs]]; rewrite He; cbn [is_reg].
    + cbn. apply IH.
    + cbn. f_equal. apply IH.
  - destruct (fn_outcome_cases tok fs f) as [[e He]|[He Hs]]; rewrite He; cbn; apply IH.
Qed.

(** Without duplicate function names every function declaration is judged on its own. *)
Lemma pass2_funcs tok : forall p cs fs,
  NoDup (fn_names p) -> (forall k, In k (fn_names p) -> smem k fs = false) ->
  funcs_of (registered (pass2 tok cs fs p)) =
  flat_map (fun f => funcs_of (registered [fn_outcome tok [] f])) (functions_of p).
Proof.
  induction p as [|t p IH]; intros cs fs Hnd Hfs; [reflexivity|].
  destruct t as [path | n a | n ty v | f]; cbn [pass2]; try (apply IH; assumption); cbv zeta.
  - destruct (const_outcome_cases tok cs n ty v) as [[e He]|[He Hs]]; rewrite He; cbn;
      apply IH; assumption.
  - cbn in Hnd, Hfs. inversion Hnd as [|? ? Hni Hnd']; subst.
    rewrite (fn_outcome_fresh tok fs f) by (apply Hfs; left; reflexivity).
    change (functions_of (TFn f :: p)) with (f :: functions_of p). cbn [flat_map].
    destruct (fn_outcome_cases tok [] f) as [[e He]|[He Hs]]; rewrite He; cbn [is_reg].
    + cbn. apply IH; [exact Hnd' | intros k Hk; apply Hfs; right; exact Hk].
    + cbn. f_equal. apply IH; [exact Hnd'|].
      intros k Hk. apply smem_cons_false; [intro; subst; contradiction | apply Hfs; right; exact Hk].
Qed.

Lemma pass2_errs tok : forall p cs fs,
  NoDup (fn_names p) -> (forall k, In k (fn_names p) -> smem k fs = false) ->
  Permutation (reported (pass2 tok cs fs p))
              (reported (pass2 tok cs [] (filter is_const p)) ++
               flat_map (fun f => reported [fn_outcome tok [] f]) (functions_of p)).
Proof.
  induction p as [|t p IH]; intros cs fs Hnd Hfs; [constructor|].
  destruct t as [path | n a | n ty v | f]; cbn [pass2 filter is_const];
    try (apply IH; assumption); cbv zeta.
  - destruct (const_outcome_cases tok cs n ty v) as [[e He]|[He Hs]]; rewrite He; cbn [is_reg].
    + cbn. constructor. apply IH; assumption.
    + cbn. apply IH; assumption.
  - cbn in Hnd, Hfs. inversion Hnd as [|? ? Hni Hnd']; subst.
    rewrite (fn_outcome_fresh tok fs f) by (apply Hfs; left; reflexivity).
    change (functions_of (TFn f :: p)) with (f :: functions_of p). cbn [flat_map].
    destruct (fn_outcome_cases tok [] f) as [[e He]|[He Hs]]; rewrite He; cbn [is_reg].
    + cbn. apply Permutation_cons_app. apply IH; [exact Hnd' | intros k Hk; apply Hfs; right; exact Hk].
    + cbn. apply IH; [exact Hnd'|].
      intros k Hk. apply smem_cons_false; [intro; subst; contradiction | apply Hfs; right; exact Hk].
Qed.

(** ** The declaration-phase half *)
Section Reorder.
  Variables p p' : program.
  Hypothesis Hstructs : NoDup (struct_names p).
  Hypothesis Hfns : NoDup (fn_names p).
  Hypothesis Hperm : Permutation p p'.
  Hypothesis Hconsts : filter is_const p = filter is_const p'.

  Lemma reorder_structs' : NoDup (struct_names p').
  Proof. eapply Permutation_NoDup; [apply Permutation_flat_map, Hperm | exact Hstructs]. Qed.
  Lemma reorder_fns' : NoDup (fn_names p').
  Proof. eapply Permutation_NoDup; [apply Permutation_flat_map, Hperm | exact Hfns]. Qed.
  Lemma reorder_functions : Permutation (functions_of p) (functions_of p').
  Proof. apply Permutation_flat_map, Hperm. Qed.

  Lemma reorder_types : Permutation (spec_types p) (spec_types p').
  Proof.
    unfold spec_types, spec_pass1.
    rewrite (proj1 (pass1_nodup p [] Hstructs (fun _ _ => eq_refl))).
    rewrite (proj1 (pass1_nodup p' [] reorder_structs' (fun _ _ => eq_refl))).
    apply Permutation_flat_map, Hperm.
  Qed.

  Lemma reorder_types_lookup k : alookup k (spec_types p) = alookup k (spec_types p').
  Proof. apply perm_alookup; [apply spec_tables_nodup | apply reorder_types]. Qed.

  Lemma reorder_type_ok t : type_ok (spec_types p) t = type_ok (spec_types p') t.
  Proof. unfold type_ok. rewrite (amem_alookup _ _ _ (reorder_types_lookup (type_name t))). reflexivity. Qed.

  Lemma reorder_consts : spec_consts p = spec_consts p'.
  Proof.
    unfold spec_consts, spec_pass2. rewrite (pass2_consts _ p), (pass2_consts _ p'), Hconsts.
    rewrite (pass2_ext _ _ reorder_type_ok). reflexivity.
  Qed.

  Lemma reorder_funcs : Permutation (spec_funcs p) (spec_funcs p').
  Proof.
    unfold spec_funcs, spec_pass2.
    rewrite (pass2_funcs _ p [] [] Hfns (fun _ _ => eq_refl)).
    rewrite (pass2_funcs _ p' [] [] reorder_fns' (fun _ _ => eq_refl)).
    rewrite (flat_map_ext _ _ (fun f => f_equal (fun o => funcs_of (registered [o]))
                                         (fn_outcome_ext _ _ reorder_type_ok [] f))).
    apply Permutation_flat_map, reorder_functions.
  Qed.

  Lemma reorder_decl_errs : Permutation (spec_decl_errs p) (spec_decl_errs p').
  Proof.
    unfold spec_decl_errs, spec_pass1.
    rewrite (proj2 (pass1_nodup p [] Hstructs (fun _ _ => eq_refl))).
    rewrite (proj2 (pass1_nodup p' [] reorder_structs' (fun _ _ => eq_refl))).
    cbn [app]. unfold spec_pass2.
    rewrite (pass2_errs _ p [] [] Hfns (fun _ _ => eq_refl)).
    rewrite (pass2_errs _ p' [] [] reorder_fns' (fun _ _ => eq_refl)).
    rewrite Hconsts, (pass2_ext _ _ reorder_type_ok).
    apply Permutation_app_head.
    rewrite (flat_map_ext _ _ (fun f => f_equal (fun o => reported [o])
                                         (fn_outcome_ext _ _ reorder_type_ok [] f))).
    apply Permutation_flat_map, reorder_functions.
  Qed.

  Lemma reorder_geq : geq (spec_globals p) (spec_globals p').
  Proof.
    split; cbn [spec_globals g_types g_consts g_funcs]; intro k.
    - apply reorder_types_lookup.
    - rewrite reorder_consts. reflexivity.
    - apply perm_alookup; [apply spec_tables_nodup | apply reorder_funcs].
  Qed.
End Reorder.

(** ** The body half *)
Lemma body_ok_geq G G' f : geq G G' -> body_ok G f -> body_ok G' f.
Proof. intros HG. unfold body_ok. rewrite (function_body_geq G G' HG). exact (fun H => H). Qed.
Lemma body_errors_geq G G' f : geq G G' -> body_errors G f = body_errors G' f.
Proof. intros HG. unfold body_errors. rewrite (function_body_geq G G' HG). reflexivity. Qed.
Lemma body_root_geq G G' f : geq G G' -> body_root G f = body_root G' f.
Proof. intros HG. unfold body_root. rewrite (function_body_geq G G' HG). reflexivity. Qed.

Lemma combine_map_self {A B} (g : A -> B) (l : list A) :
  combine l (map g l) = map (fun a => (a, g a)) l.
Proof. induction l as [|a l IH]; cbn; [reflexivity | rewrite IH; reflexivity]. Qed.

(** What reordering preserves, stated on the two outputs. *)
Definition C16_statement (p p' : program) (out out' : output) : Prop :=
  (* the global tables, as maps and as multisets of bindings *)
  geq (o_globals out) (o_globals out') /\
  Permutation (g_types (o_globals out)) (g_types (o_globals out')) /\
  g_consts (o_globals out) = g_consts (o_globals out') /\
  Permutation (g_funcs (o_globals out)) (g_funcs (o_globals out')) /\
  (* the multiset of errors, hence the verdict *)
  Permutation (o_errors out) (o_errors out') /\
  (o_errors out = [] <-> o_errors out' = []) /\
  (* every function with its root block (instruction stack and block tree) *)
  o_fns out = map (body_root (o_globals out)) (functions_of p) /\
  o_fns out' = map (body_root (o_globals out')) (functions_of p') /\
  (forall f, body_root (o_globals out) f = body_root (o_globals out') f) /\
  (forall f, body_errors (o_globals out) f = body_errors (o_globals out') f) /\
  Permutation (combine (functions_of p) (o_fns out)) (combine (functions_of p') (o_fns out')).

Theorem run_reorder : forall p p' out,
  NoDup (struct_names p) -> NoDup (fn_names p) ->
  Permutation p p' -> filter is_const p = filter is_const p' ->
  run p = ROk out ->
  exists out', run p' = ROk out' /\ C16_statement p p' out out'.
Proof.
  intros p p' out Hs Hf Hperm Hc Hrun.
  pose proof (reorder_geq p p' Hs Hf Hperm Hc) as HG.
  pose proof (reorder_functions p p' Hperm) as Hfs.
  assert (Hok' : Forall (body_ok (gs_globals (declarations p'))) (functions_of p')).
  { assert (Hok : Forall (body_ok (gs_globals (declarations p))) (functions_of p))
      by (apply run_ok_iff; eexists; exact Hrun).
    rewrite declarations_spec in *. cbn [gs_globals] in *.
    eapply Permutation_Forall; [exact Hfs|].
    eapply Forall_impl; [|exact Hok]. intros f. apply body_ok_geq, HG. }
  destruct (proj2 (run_ok_iff p') Hok') as [out' Hrun']. exists out'. split; [exact Hrun'|].
  destruct (run_errors_decomposition p out Hrun) as [He Hr].
  destruct (run_errors_decomposition p' out' Hrun') as [He' Hr'].
  destruct (run_globals_match_spec p out Hrun) as [Hg _].
  destruct (run_globals_match_spec p' out' Hrun') as [Hg' _].
  rewrite declarations_spec in He, Hr, He', Hr'. cbn [gs_globals gs_errs] in He, Hr, He', Hr'.
  unfold C16_statement. rewrite Hg, Hg'. cbn [spec_globals g_types g_consts g_funcs].
  assert (Hbe : forall f, body_errors (spec_globals p) f = body_errors (spec_globals p') f)
    by (intro f; apply body_errors_geq, HG).
  assert (Hbr : forall f, body_root (spec_globals p) f = body_root (spec_globals p') f)
    by (intro f; apply body_root_geq, HG).
  assert (Herrs : Permutation (o_errors out) (o_errors out')).
  { rewrite He, He'. apply Permutation_app; [apply reorder_decl_errs; assumption|].
    rewrite <- !flat_map_concat_map. rewrite (flat_map_ext _ _ Hbe).
    apply Permutation_flat_map, Hfs. }
  repeat apply conj; try assumption.
  - apply reorder_types; assumption.
  - apply reorder_consts; assumption.
  - apply reorder_funcs; assumption.
  - intro H. rewrite H in Herrs. apply Permutation_nil in Herrs. exact Herrs.
  - intro H. rewrite H in Herrs. apply Permutation_sym, Permutation_nil in Herrs. exact Herrs.
  - rewrite Hr, Hr', !combine_map_self.
    rewrite (map_ext _ _ (fun f => f_equal (pair f) (Hbr f))).
    apply Permutation_map, Hfs.
Qed.

(** The same function keeps its root block wherever it moves. *)
Corollary run_reorder_roots : forall p p' out out' i f,
  NoDup (struct_names p) -> NoDup (fn_names p) ->
  Permutation p p' -> filter is_const p = filter is_const p' ->
  run p = ROk out -> run p' = ROk out' ->
  nth_error (functions_of p) i = Some f ->
  exists j, nth_error (functions_of p') j = Some f /\
            nth_error (o_fns out') j = nth_error (o_fns out) i.
Proof.
  intros p p' out out' i f Hs Hf Hperm Hc Hrun Hrun' Hi.
  destruct (run_reorder p p' out Hs Hf Hperm Hc Hrun) as [out2 [Hrun2 Hst]].
  rewrite Hrun' in Hrun2. inversion Hrun2; subst out2. clear Hrun2.
  destruct Hst as [_ [_ [_ [_ [_ [_ [Hr [Hr' [Hbr _]]]]]]]]].
  assert (Hin : In f (functions_of p')).
  { eapply Permutation_in; [apply reorder_functions, Hperm | eapply nth_error_In, Hi]. }
  apply In_nth_error in Hin. destruct Hin as [j Hj]. exists j. split; [exact Hj|].
  rewrite Hr, Hr', (map_nth_error _ _ _ Hi), (map_nth_error _ _ _ Hj), Hbr. reflexivity.
Qed.

Print Assumptions run_reorder.
Print Assumptions run_reorder_roots.

(** * C15, continued: a second declaration of a name is reported and never replaces the first *)

(** A declaration whose name is already in its table only adds the "already exists" diagnostic:
    tables and stack are unchanged. *)
Theorem duplicate_reported_and_ignored : forall st,
  (forall n a, amem (iname n) (g_types (gs_globals st)) = true ->
     pass_types st (TStructDecl n a) =
     g_add_error (Err ETypeAlreadyExist (Some (iname n)) (iloc n)) st) /\
  (forall n ty v, amem (iname n) (g_consts (gs_globals st)) = true ->
     pass_decls st (TConst n ty v) =
     g_add_error (Err EConstantAlreadyExist (Some (iname n)) (iloc n)) st) /\
  (forall f, amem (iname (fn_name f)) (g_funcs (gs_globals st)) = true ->
     pass_decls st (TFn f) =
     g_add_error (Err EFunctionAlreadyExist (Some (iname (fn_name f))) (iloc (fn_name f))) st).
Proof.
  intro st. repeat split.
  - intros n a H. cbn [pass_types]. unfold decl_type. rewrite H. reflexivity.
  - intros n ty v H. cbn [pass_decls]. unfold decl_const. rewrite H. reflexivity.
  - intros f H. cbn [pass_decls]. unfold decl_fn. cbv zeta. rewrite H. reflexivity.
Qed.

(** [G'] extends [G]: every table of [G'] is the table of [G] with bindings appended. *)
Definition gext (G G' : globals) : Prop :=
  exists lt lc lf,
    G' = Globals (g_types G ++ lt) (g_consts G ++ lc) (g_funcs G ++ lf).

Lemma gext_refl G : gext G G.
Proof. exists [], [], []. destruct G; cbn. rewrite !app_nil_r. reflexivity. Qed.

Lemma gext_trans G1 G2 G3 : gext G1 G2 -> gext G2 G3 -> gext G1 G3.
Proof.
  intros [a [b [c H]]] [a' [b' [c' H']]]. subst. cbn in *.
  exists (a ++ a'), (b ++ b'), (c ++ c'). rewrite !app_assoc. reflexivity.
Qed.

Lemma gext_apply_outcome st o : gext (gs_globals st) (gs_globals (apply_outcome st o)).
Proof.
  destruct st as [[T C F] S E]. destruct o as [[t|c|n ps r]|e]; cbn.
  - exists [(type_name t, t)], [], []. rewrite !app_nil_r. reflexivity.
  - exists [], [(c_name c, c)], []. rewrite !app_nil_r. reflexivity.
  - exists [], [], [(n, Func n r (map snd ps))]. rewrite !app_nil_r. reflexivity.
  - apply gext_refl.
Qed.

Lemma smem_map_fst {V} (l : list (string * V)) : keys_agree (map fst l) l.
Proof.
  intro k. unfold amem. induction l as [|[k' v] l IH]; cbn; [reflexivity|].
  destruct (String.eqb k k'); [reflexivity | exact IH].
Qed.

Lemma pass_types_step_ext st t : gext (gs_globals st) (gs_globals (pass_types st t)).
Proof.
  destruct t as [path | n a | n ty v | f]; cbn [pass_types]; try apply gext_refl.
  pose proof (pass_types_spec [TStructDecl n a] st _ (smem_map_fst _)) as H. cbn [fold_left pass_types] in H.
  rewrite H. cbn [pass1]. destruct (smem (iname n) (map fst (g_types (gs_globals st))));
    rewrite <- apply_outcomes_cons, apply_outcomes_nil; apply gext_apply_outcome.
Qed.

Lemma pass_decls_step_ext st t : gext (gs_globals st) (gs_globals (pass_decls st t)).
Proof.
  destruct t as [path | n a | n ty v | f]; cbn [pass_decls]; try apply gext_refl.
  - rewrite (decl_const_spec st _ n ty v (smem_map_fst _)). apply gext_apply_outcome.
  - rewrite (decl_fn_spec st _ f (smem_map_fst _)). apply gext_apply_outcome.
Qed.

(** Every step of either pass only appends bindings, so a binding once made stays, under the
    same name and with the same entry, whatever is declared afterwards. *)
Theorem passes_only_extend : forall p st,
  gext (gs_globals st) (gs_globals (fold_left pass_types p st)) /\
  gext (gs_globals st) (gs_globals (fold_left pass_decls p st)).
Proof.
  induction p as [|t p IH]; intro st; cbn [fold_left]; [split; apply gext_refl|].
  split; (eapply gext_trans; [|apply IH]); [apply pass_types_step_ext | apply pass_decls_step_ext].
Qed.

Theorem gext_bindings_stay G G' : gext G G' ->
  (forall k v, alookup k (g_types G) = Some v -> alookup k (g_types G') = Some v) /\
  (forall k v, alookup k (g_consts G) = Some v -> alookup k (g_consts G') = Some v) /\
  (forall k v, alookup k (g_funcs G) = Some v -> alookup k (g_funcs G') = Some v).
Proof.
  intros [a [b [c H]]]. subst. cbn. repeat split; intros k v Hk; rewrite alookup_app, Hk; reflexivity.
Qed.

(** The declaration-phase diagnostics of the model are those of the specification, and they
    open the program's error list. *)
Theorem run_decl_errors : forall p out,
  run p = ROk out ->
  gs_errs (declarations p) = spec_decl_errs p /\
  exists body_errs, o_errors out = spec_decl_errs p ++ body_errs.
Proof.
  intros p out H. destruct (run_errors_decomposition p out H) as [He _].
  rewrite declarations_spec in *. cbn [gs_errs] in *. split; [reflexivity|].
  eexists; exact He.
Qed.

Print Assumptions duplicate_reported_and_ignored.
Print Assumptions passes_only_extend.
Print Assumptions run_decl_errors.

(** Whatever is declared later, a binding made by an earlier declaration is still there at the
    end of its pass, under the same name and with the same entry. *)
Theorem first_declaration_wins : forall p st,
  (forall k v, alookup k (g_types (gs_globals st)) = Some v ->
               alookup k (g_types (gs_globals (fold_left pass_types p st))) = Some v) /\
  (forall k v, alookup k (g_consts (gs_globals st)) = Some v ->
               alookup k (g_consts (gs_globals (fold_left pass_decls p st))) = Some v) /\
  (forall k v, alookup k (g_funcs (gs_globals st)) = Some v ->
               alookup k (g_funcs (gs_globals (fold_left pass_decls p st))) = Some v).
Proof.
  intros p st. destruct (passes_only_extend p st) as [H1 H2].
  apply gext_bindings_stay in H1. apply gext_bindings_stay in H2.
  split; [apply H1 | split; apply H2].
Qed.

Print Assumptions first_declaration_wins.

(** C16 with the hypotheses of its text (the constant names need not be duplicate-free). *)
Corollary run_reorder_no_duplicate_names : forall p p' out,
  NoDup (struct_names p) -> NoDup (const_names p) -> NoDup (fn_names p) ->
  Permutation p p' -> filter is_const p = filter is_const p' ->
  run p = ROk out ->
  exists out', run p' = ROk out' /\ C16_statement p p' out out'.
Proof. intros p p' out Hs _ Hf. apply run_reorder; assumption. Qed.

(** * The specification, read back: [spec_types] is the first struct declaration of each name,
    in source order. *)
Fixpoint first_occs {V : Type} (l : list (string * V)) : list (string * V) :=
  match l with
  | [] => []
  | (k, v) :: l' => (k, v) :: filter (fun kv => negb (String.eqb (fst kv) k)) (first_occs l')
  end.

Lemma filter_filter_and {A} (f g : A -> bool) (l : list A) :
  filter f (filter g l) = filter (fun x => f x && g x) l.
Proof.
  induction l as [|a l IH]; cbn; [reflexivity|].
  destruct (g a); cbn; [destruct (f a); cbn; rewrite IH; reflexivity|].
  rewrite Bool.andb_false_r. exact IH.
Qed.

Lemma pass1_first_occs : forall p seen,
  types_of (registered (pass1 seen p)) =
  filter (fun kv => negb (smem (fst kv) seen)) (first_occs (struct_decls p)).
Proof.
  induction p as [|t p IH]; intro seen; [reflexivity|].
  destruct t as [path | n a | n ty v | f]; cbn [pass1]; try apply IH.
  change (struct_decls (TStructDecl n a :: p))
    with ((iname n, struct_of_decl n a) :: struct_decls p).
  cbn [first_occs filter fst]. rewrite filter_filter_and.
  destruct (smem (iname n) seen) eqn:Hs; cbn [negb].
  - cbn. rewrite IH. apply filter_ext. intros [k v]. cbn [fst].
    destruct (String.eqb k (iname n)) eqn:E; cbn [negb]; [|rewrite Bool.andb_true_r; reflexivity].
    apply String.eqb_eq in E. subst k. rewrite Hs. reflexivity.
  - cbn. f_equal. rewrite IH. apply filter_ext. intros [k v]. cbn [fst smem].
    destruct (String.eqb k (iname n)); cbn [negb];
      [rewrite Bool.andb_false_r | rewrite Bool.andb_true_r]; reflexivity.
Qed.

Theorem spec_types_first_declarations p : spec_types p = first_occs (struct_decls p).
Proof.
  unfold spec_types, spec_pass1. rewrite pass1_first_occs. cbn [smem negb].
  induction (first_occs (struct_decls p)) as [|a l IH]; cbn; [reflexivity | rewrite IH; reflexivity].
Qed.

Print Assumptions run_reorder_no_duplicate_names.
Print Assumptions spec_types_first_declarations.
