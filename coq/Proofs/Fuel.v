(** C13, layer 4: the fuel of the model is enough.

    1. [expression]: one unit per call.  [fold_priority] re-brackets a chain with [n >= 2] links
       into nested two-element chains, on each of which [expression] is called again, so the
       depth of calls is not the depth of the source.  The measure [hE] charges one unit per
       chain, one per link of a chain that is folded, and the measures of the operands; a level
       pass keeps the potential [phi] of a chain ([fetch_phi]), so every operand of the folded
       chain costs less than the chain ([vals_fold_bound]); [hE e <= size_expr e] ([h_le_size]).
       Hence [size_expr e <= f -> fuel_ok f e] ([fuel_ok_size]).
    2. [if_condition] / [loop_statement]: one unit per call; the nesting depth of statements is
       at most their size.
    3. The probe loops read their fuel in the state they run in ([Proofs/Probe.v]).

    [run_never_out_of_fuel]: for every program, [run p <> ROutOfFuel]. *)
From Coq Require Import Lia.
From SA Require Import Model.
From SA.Proofs Require Import Probe Frames.
Local Open Scope list_scope.
Local Open Scope nat_scope.

(** ** Induction on expressions (as in [Proofs/CodecRT.v]) *)
Section ExprInd.
  Variable P : expr -> Prop.
  Variable Q : expr_val -> Prop.
  Hypothesis HExpr : forall v rest, Q v -> Forall (fun p => Q (snd p)) rest -> P (Expr v rest).
  Hypothesis HName : forall x, Q (EVName x).
  Hypothesis HPrim : forall p, Q (EVPrim p).
  Hypothesis HCall : forall f args, Forall P args -> Q (EVCall f args).
  Hypothesis HField : forall x a, Q (EVField x a).
  Hypothesis HSub : forall e, P e -> Q (EVSub e).
  Hypothesis HExt : forall t tag, Q (EVExt t tag).
  Fixpoint expr_ind2 (e : expr) : P e :=
    match e with
    | Expr v rest =>
        HExpr v rest (val_ind2 v)
          ((fix go (l : list (binop * expr_val)) : Forall (fun p => Q (snd p)) l :=
              match l with
              | [] => Forall_nil _
              | p :: l' =>
                  Forall_cons (P := fun p => Q (snd p)) p
                    (match p as p0 return Q (snd p0) with (op, v') => val_ind2 v' end) (go l')
              end) rest)
    end
  with val_ind2 (v : expr_val) : Q v :=
    match v with
    | EVName x => HName x
    | EVPrim p => HPrim p
    | EVCall f args =>
        HCall f args
          ((fix go (l : list expr) : Forall P l :=
              match l with
              | [] => Forall_nil _
              | e :: l' => Forall_cons e (expr_ind2 e) (go l')
              end) args)
    | EVField x a => HField x a
    | EVSub e => HSub e (expr_ind2 e)
    | EVExt t tag => HExt t tag
    end.
  Definition expr_val_ind2 : (forall e, P e) /\ (forall v, Q v) := conj expr_ind2 val_ind2.
End ExprInd.

(** ** The measure *)
(** what folding adds: one bracket per link, when there are at least two links *)
Definition lw (rest : links) : nat :=
  match rest with [] | [_] => 0 | _ => length rest end.

Fixpoint hE (e : expr) : nat :=
  match e with
  | Expr v rest =>
      S (hV v +
         (fix go (l : links) : nat :=
            match l with [] => O | (_, v') :: l' => hV v' + go l' end) rest +
         lw rest)
  end
with hV (v : expr_val) : nat :=
  match v with
  | EVSub e => hE e
  | EVCall _ args =>
      (fix go (l : list expr) : nat := match l with [] => O | e :: l' => hE e + go l' end) args
  | _ => O
  end.

Definition sumV (l : links) : nat := fold_right (fun p n => hV (snd p) + n) O l.
Definition sumE (l : list expr) : nat := fold_right (fun e n => hE e + n) O l.

Lemma hE_eq v rest : hE (Expr v rest) = S (hV v + sumV rest + lw rest).
Proof.
  cbn [hE]. do 3 f_equal.
  induction rest as [|[op v'] rest IH]; [reflexivity|]. cbn [sumV fold_right snd]. rewrite IH. reflexivity.
Qed.

Lemma hV_call f args : hV (EVCall f args) = sumE args.
Proof.
  cbn [hV]. induction args as [|a args IH]; [reflexivity|]. cbn [sumE fold_right]. rewrite IH. reflexivity.
Qed.

Lemma hV_sub e : hV (EVSub e) = hE e.
Proof. reflexivity. Qed.

Lemma hE_pos e : 1 <= hE e.
Proof. destruct e. rewrite hE_eq. lia. Qed.

Lemma sumE_In a l : In a l -> hE a <= sumE l.
Proof.
  induction l as [|b l IH]; [intros []|]. cbn [sumE fold_right]. fold (sumE l).
  intros [->|H]; [lia | specialize (IH H); lia].
Qed.

Lemma sumV_In x (l : links) : In x (map snd l) -> hV x <= sumV l.
Proof.
  induction l as [|[op v] l IH]; [intros []|]. cbn [sumV fold_right map snd]. fold (sumV l).
  intros [->|H]; [lia | specialize (IH H); lia].
Qed.

(** ** A level pass keeps the potential of a chain *)
Definition phi (v : expr_val) (rest : links) : nat := hV v + sumV rest + length rest.

Lemma fetch_phi p : forall rest v v' r', fetch p v rest = (v', r') -> phi v' r' <= phi v rest.
Proof.
  induction rest as [|[op v2] rest IH]; intros v v' r' E; cbn [fetch] in E.
  - inversion E; subst. lia.
  - destruct (N.eqb (prio op) p).
    + apply IH in E. unfold phi in *. cbn [sumV fold_right snd length]. fold (sumV rest).
      rewrite hV_sub, hE_eq in E. cbn [sumV fold_right snd lw] in E. lia.
    + destruct (fetch p v2 rest) as [v'' r''] eqn:E2. inversion E; subst. apply IH in E2.
      unfold phi in *. cbn [sumV fold_right snd length]. fold (sumV rest) (sumV r''). lia.
Qed.

Lemma fold_phi : forall ls v rest v' r',
  fold_left (fun acc p => fetch p (fst acc) (snd acc)) ls (v, rest) = (v', r') ->
  phi v' r' <= phi v rest.
Proof.
  induction ls as [|p ls IH]; intros v rest v' r' E; cbn [fold_left fst snd] in E.
  - inversion E; subst. lia.
  - destruct (fetch p v rest) as [v1 r1] eqn:E1. apply IH in E. apply fetch_phi in E1. lia.
Qed.

(** every operand of the chain that [expression] walks costs less than the chain *)
Lemma vals_fold_bound e x : In x (vals_of (fold_priority e)) -> S (hV x) <= hE e.
Proof.
  destruct e as [v rest]. rewrite hE_eq.
  destruct rest as [|l1 [|l2 rest']].
  - cbn. intros [->|[]]. lia.
  - destruct l1 as [op v2]. cbn. intros [->|[->|[]]]; lia.
  - cbn [fold_priority].
    match goal with
    | |- context [fold_left ?g levels ?x] => destruct (fold_left g levels x) as [v' r'] eqn:E
    end.
    apply fold_phi in E. cbn [vals_of]. intros [->|H].
    + unfold phi in E. cbn [lw]. lia.
    + apply sumV_In in H. unfold phi in E. cbn [lw]. lia.
Qed.

Theorem fuel_ok_h : forall f e, hE e <= f -> fuel_ok f e.
Proof.
  induction f as [|f IH]; intros e H.
  - pose proof (hE_pos e). lia.
  - cbn [fuel_ok]. apply Forall_forall. intros x Hx. apply vals_fold_bound in Hx.
    destruct x; cbn [val_ok]; try exact I.
    + apply Forall_forall. intros a Ha. apply IH.
      rewrite hV_call in Hx. pose proof (sumE_In a args Ha). lia.
    + apply IH. rewrite hV_sub in Hx. lia.
Qed.

(** ** The measure is at most the size *)
Definition sizeL (l : links) : nat := fold_right (fun p n => S (size_val (snd p) + n)) O l.

Lemma size_expr_eq v rest : size_expr (Expr v rest) = S (size_val v + sizeL rest).
Proof.
  cbn [size_expr]. do 2 f_equal.
  induction rest as [|[op v'] rest IH]; [reflexivity|]. cbn [sizeL fold_right snd]. rewrite IH. reflexivity.
Qed.

Lemma size_val_call f args : size_val (EVCall f args) = S (size_exprs args).
Proof.
  reflexivity.
Qed.

Lemma lw_le rest : lw rest <= length rest.
Proof. destruct rest as [|a [|b r]]; cbn; lia. Qed.

Lemma h_le_size : (forall e, hE e <= size_expr e) /\ (forall v, hV v <= size_val v).
Proof.
  apply expr_val_ind2.
  - intros v rest Hv Hrest. rewrite hE_eq, size_expr_eq.
    assert (H : sumV rest + length rest <= sizeL rest).
    { induction Hrest as [|[op x] l Hx _ IH]; [cbn; lia|].
      cbn [sumV sizeL fold_right snd length] in *. fold (sumV l) (sizeL l). lia. }
    pose proof (lw_le rest). lia.
  - intros; cbn; lia.
  - intros; cbn; lia.
  - intros f args Hargs. rewrite hV_call, size_val_call.
    assert (H : sumE args <= size_exprs args).
    { induction Hargs as [|a l Ha _ IH]; [cbn; lia|].
      cbn [sumE size_exprs fold_right] in *. fold (sumE l) (size_exprs l). lia. }
    lia.
  - intros; cbn; lia.
  - intros e He. rewrite hV_sub. cbn [size_val]. lia.
  - intros; cbn; lia.
Qed.

Theorem fuel_ok_size f e : size_expr e <= f -> fuel_ok f e.
Proof. intro H. apply fuel_ok_h. pose proof (proj1 h_le_size e). lia. Qed.

Print Assumptions fuel_ok_size.

(** ** Sizes of the parts of statements *)
Lemma size_loop body : size_stmt (SLoop body) = S (size_stmts body).
Proof. reflexivity. Qed.
Lemma size_ibif ss : size_ifbody (IBIf ss) = S (size_stmts ss).
Proof. reflexivity. Qed.
Lemma size_ibloop ss : size_ifbody (IBLoop ss) = S (size_stmts ss).
Proof. reflexivity. Qed.
Lemma size_stmts_cons st ss : size_stmts (st :: ss) = size_stmt st + size_stmts ss.
Proof. reflexivity. Qed.

Lemma size_exprs_In a l : In a l -> size_expr a <= size_exprs l.
Proof.
  induction l as [|b l IH]; [intros []|]. cbn [size_exprs fold_right]. fold (size_exprs l).
  intros [->|H]; [lia | specialize (IH H); lia].
Qed.

Lemma lcond_exprs_size : forall c e, In e (lcond_exprs c) -> size_expr e < size_lcond c.
Proof.
  fix IH 1. intros [l cmp r next] e. cbn [lcond_exprs size_lcond].
  intros [->|[->|H]]; [lia | lia |].
  destruct next as [[op c']|]; [|destruct H]. specialize (IH c' e H). lia.
Qed.

Lemma cond_exprs_size c e : In e (cond_exprs c) -> size_expr e < size_cond c.
Proof.
  destruct c as [e0|l]; cbn [cond_exprs size_cond].
  - intros [->|[]]. lia.
  - intro H. apply lcond_exprs_size in H. lia.
Qed.

(** ** Enough fuel for every expression of a statement *)
Lemma fok_size fuel e : size_expr e <= fuel -> fok False fuel e.
Proof. intro H. right. apply fuel_ok_size, H. Qed.

Lemma foks_size fuel args : size_exprs args <= fuel -> Forall (fok False fuel) args.
Proof.
  intro H. apply Forall_forall. intros a Ha. apply fok_size.
  pose proof (size_exprs_In a args Ha). lia.
Qed.

Lemma fok_cond fuel c : size_cond c <= fuel -> Forall (fok False fuel) (cond_exprs c).
Proof.
  intro H. apply Forall_forall. intros e He. apply fok_size.
  pose proof (cond_exprs_size c e He). lia.
Qed.

(** ** The pass: no computation runs out of fuel *)
Definition al_any (k : panic_kind) : Prop := True.

Section L4.
  Variable G : globals.
  Variable fuel : nat.
  Variable RT : sem_ty.
  Notation W m s := (wp al_any False m s (keepI TopI)).

  Let Hal : al_any PSuffixOverflow := I.

  Ltac l4_pose :=
    pose proof (g_expression al_any False TopI top_stable G fuel);
    pose proof (len_let_binding al_any False Hal TopI top_loose G fuel);
    pose proof (g_binding al_any False TopI top_stable G fuel);
    pose proof (g_call_stmt al_any False TopI top_stable G fuel);
    pose proof (g_check_return_type al_any False TopI RT);
    pose proof (g_code_after_errors al_any False TopI);
    pose proof (g_check_type_exists al_any False TopI G);
    pose proof (g_if_condition_calculation al_any False TopI top_stable G fuel).

  Section Control.
    Variable c : nat.
    Hypothesis Hc : c <= fuel.
    Variable IFC : ifstmt -> option string -> option (string * string) -> M unit.
    Variable LOOP : list stmt -> M unit.
    Hypothesis HIFC : forall i le ll s, size_if i < c -> TopI (frames s) -> W (IFC i le ll) s.
    Hypothesis HLOOP : forall b s, size_stmts b < c -> TopI (frames s) -> W (LOOP b) s.

    Lemma l4_nested_stmt k lend lloop fl st s :
      size_stmt st <= c -> TopI (frames s) ->
      W (nested_stmt G fuel RT IFC LOOP k lend lloop fl st) s.
    Proof.
      intros Hsz HI. l4_pose.
      destruct st; cbn [nested_stmt].
      - assert (fok False fuel e) by (apply fok_size; cbn [size_stmt] in Hsz; lia). t_go.
      - assert (fok False fuel e) by (apply fok_size; cbn [size_stmt] in Hsz; lia). t_go.
      - assert (Forall (fok False fuel) args) by (apply foks_size; cbn [size_stmt] in Hsz; lia). t_go.
      - assert (size_if i < c) by (cbn [size_stmt] in Hsz; lia). t_go.
      - assert (size_stmts body < c) by (rewrite size_loop in Hsz; lia). t_go.
      - assert (fok False fuel e) by (apply fok_size; cbn [size_stmt] in Hsz; lia). t_go.
      - t_go.
      - t_go.
      - t_go.
    Qed.

    Lemma l4_run_body k lend lloop : forall ss fl s,
      size_stmts ss <= c -> TopI (frames s) ->
      W (run_body G fuel RT IFC LOOP k lend lloop fl ss) s.
    Proof.
      l4_pose. pose proof l4_nested_stmt.
      induction ss as [|st ss IH]; intros fl s Hsz HI; cbn [run_body]; [t_go|].
      rewrite size_stmts_cons in Hsz.
      assert (size_stmt st <= c) by lia. assert (size_stmts ss <= c) by lia. t_go.
    Qed.

    Lemma l4_if_body b lend lloop s :
      size_ifbody b <= c -> TopI (frames s) -> W (if_body G fuel RT IFC LOOP b lend lloop) s.
    Proof.
      intros Hsz HI. l4_pose. pose proof l4_run_body.
      destruct b as [ss|ss]; cbn [if_body].
      - rewrite size_ibif in Hsz. assert (size_stmts ss <= c) by lia. t_go.
      - rewrite size_ibloop in Hsz. assert (size_stmts ss <= c) by lia. t_go.
    Qed.

    Lemma l4_if_condition_step i le ll s :
      size_if i <= c -> TopI (frames s) -> W (if_condition_step G fuel RT IFC LOOP i le ll) s.
    Proof.
      intros Hsz HI. l4_pose. pose proof l4_if_body.
      destruct i as [cnd body els elif].
      destruct els as [eb|]; destruct elif as [ei|]; cbn [size_if] in Hsz;
        assert (Forall (fok False fuel) (cond_exprs cnd)) by (apply fok_cond; lia);
        assert (size_ifbody body <= c) by lia;
        try assert (size_ifbody eb <= c) by lia;
        try assert (size_if ei < c) by lia;
        cbn [if_condition_step is_some orb andb]; t_go.
    Qed.

    Lemma l4_loop_step body s :
      size_stmts body <= c -> TopI (frames s) -> W (loop_step G fuel RT IFC LOOP body) s.
    Proof. intros Hsz HI. l4_pose. pose proof l4_run_body. unfold loop_step. t_go. Qed.
  End Control.

  Lemma l4_control : forall c, c <= fuel ->
    (forall i le ll s, size_if i < c -> TopI (frames s) -> W (if_condition G fuel RT c i le ll) s) /\
    (forall b s, size_stmts b < c -> TopI (frames s) -> W (loop_statement G fuel RT c b) s).
  Proof.
    induction c as [|c IH]; intro Hc; split; intros; try lia.
    - destruct IH as [IH1 IH2]; [lia|]. cbn [if_condition].
      apply (l4_if_condition_step c); [lia | assumption | assumption | lia | assumption].
    - destruct IH as [IH1 IH2]; [lia|]. cbn [loop_statement].
      apply (l4_loop_step c); [lia | assumption | assumption | lia | assumption].
  Qed.

  Lemma l4_fn_stmt returned st s :
    size_stmt st < fuel -> TopI (frames s) -> W (fn_stmt G fuel RT returned st) s.
  Proof.
    intros Hsz HI. l4_pose. destruct (l4_control fuel (le_n fuel)) as [HI4 HL4].
    destruct st; cbn [fn_stmt].
    - assert (fok False fuel e) by (apply fok_size; cbn [size_stmt] in Hsz; lia). t_go.
    - assert (fok False fuel e) by (apply fok_size; cbn [size_stmt] in Hsz; lia). t_go.
    - assert (Forall (fok False fuel) args) by (apply foks_size; cbn [size_stmt] in Hsz; lia). t_go.
    - assert (size_if i < fuel) by (cbn [size_stmt] in Hsz; lia). t_go.
    - assert (size_stmts body < fuel) by (rewrite size_loop in Hsz; lia). t_go.
    - assert (fok False fuel e) by (apply fok_size; cbn [size_stmt] in Hsz; lia). t_go.
    - assert (fok False fuel e) by (apply fok_size; cbn [size_stmt] in Hsz; lia). t_go.
    - t_go.
    - t_go.
  Qed.

  Lemma l4_fn_stmts : forall ss returned s,
    size_stmts ss < fuel -> TopI (frames s) -> W (fn_stmts G fuel RT returned ss) s.
  Proof.
    pose proof l4_fn_stmt.
    induction ss as [|st ss IH]; intros returned s Hsz HI; cbn [fn_stmts]; [t_go|].
    rewrite size_stmts_cons in Hsz.
    assert (size_stmt st < fuel) by lia. assert (size_stmts ss < fuel) by lia. t_go.
  Qed.
End L4.

Lemma l4_function_body_m G f s : wp al_any False (function_body_m G f) s (keepI TopI).
Proof.
  assert (HI : TopI (frames s)) by exact I.
  unfold function_body_m. cbv beta zeta.
  apply wp_bind_I; [apply len_init_func_params; first [inv_side | exact I]|]. intros ? s1 H1.
  apply wp_bind_I; [apply l4_fn_stmts; [unfold fuel_of, size_fn; lia | assumption]|].
  intros returned s2 H2. t_go.
Qed.

(** LAYER 4: for every program, the analysis never runs out of fuel *)
Theorem run_never_out_of_fuel : forall p, run p <> ROutOfFuel.
Proof.
  intro p. apply (run_cases p (fun r => r <> ROutOfFuel)).
  - intros; discriminate.
  - intros errs f _.
    pose proof (l4_function_body_m (gs_globals (declarations p)) f (BSt [empty_block] errs)) as H.
    unfold wp, function_body in *.
    destruct (function_body_m _ f _); [exact I | discriminate | destruct H].
Qed.

Print Assumptions run_never_out_of_fuel.
