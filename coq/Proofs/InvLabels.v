(** Family T1: labels (C10).

    Within one function's complete instruction stack (the root block's) no label is set twice
    ([run_labels_unique]), and every label named by a jump or a conditional is in the root's
    label registry ([run_targets_registered]).

    Labels come only from [gen_label], which returns a name that is absent from the registry of
    every live frame (the root is one of them) and registers it everywhere.  The control code sets
    only labels that the same invocation generated, each at most once.

    Organisation:
    - the "root view" of a state: registry, stack, labels set, labels named;
    - [Neu]: computations that leave the view unchanged (all the expression and statement level
      functions; one syntax-directed pass, used by both halves);
    - [Lab]: the uniqueness invariant [Inv] and its transition relation [Tr];
    - [Jat]: the registration invariant [Jnv] and its transition relation [Ur]. *)
From Coq Require Import Lia.
From SA Require Import Model.
From SA.Spec Require Import Stack.
From SA.Proofs Require Import Trace InvNames.
Local Open Scope list_scope.

(** ** The root view *)
Definition root (s : bst) : block := root_of (frames s).
Definition Reg (s : bst) : list string := b_labels (root s).
Definition Ctx (s : bst) : list instr := b_ctx (root s).
Definition SetL (s : bst) : list string := set_labels (Ctx s).
Definition targets (c : list instr) : list string := flat_map target_labels c.
Definition Tg (s : bst) : list string := targets (Ctx s).

Lemma targets_app a b : targets (a ++ b) = targets a ++ targets b.
Proof. unfold targets. apply flat_map_app. Qed.

Lemma bind_ok {A B} (m : M A) (f : A -> M B) s b s' :
  bind m f s = Ok b s' -> exists a s1, m s = Ok a s1 /\ f a s1 = Ok b s'.
Proof.
  unfold bind. intro H. destruct (m s) as [a s1| |]; try discriminate.
  exists a, s1. split; [reflexivity | exact H].
Qed.

Lemma NoDup_app_intro {A} (a b : list A) :
  NoDup a -> NoDup b -> (forall x, In x a -> In x b -> False) -> NoDup (a ++ b).
Proof.
  induction a as [|x a IH]; intros Ha Hb Hd; cbn; [exact Hb|].
  inversion Ha as [|? ? Hx Ha']; subst. constructor.
  - intro Hin. apply in_app_or in Hin as [Hin|Hin]; [exact (Hx Hin)|].
    apply (Hd x); [left; reflexivity | exact Hin].
  - apply IH; [exact Ha' | exact Hb|]. intros y Hy1 Hy2. apply (Hd y); [right; exact Hy1 | exact Hy2].
Qed.

(** ** What a primitive does to the view: push instructions, or register one label *)
Definition StepC (s s' : bst) (c : list instr) : Prop :=
  frames s' <> [] /\ Reg s' = Reg s /\ Ctx s' = Ctx s ++ c.
Definition StepR (s s' : bst) (n : string) : Prop :=
  frames s' <> [] /\ Reg s' = sadd n (Reg s) /\ Ctx s' = Ctx s.

Lemma StepC_trans s s1 s2 c1 c2 : StepC s s1 c1 -> StepC s1 s2 c2 -> StepC s s2 (c1 ++ c2).
Proof.
  intros (_ & R1 & C1) (N2 & R2 & C2). split; [exact N2|]. split.
  - rewrite R2, R1. reflexivity.
  - rewrite C2, C1, <- app_assoc. reflexivity.
Qed.

Lemma map_nonempty {A B} (g : A -> B) (l : list A) : l <> [] -> map g l <> [].
Proof. destruct l; [congruence | discriminate]. Qed.

Lemma StepC_map g c s e :
  (forall b, b_labels (g b) = b_labels b) -> (forall b, b_ctx (g b) = b_ctx b ++ c) ->
  frames s <> [] -> StepC s (BSt (map g (frames s)) e) c.
Proof.
  intros Hl Hc Hne. unfold StepC, Reg, Ctx, root. cbn [frames].
  rewrite (root_of_map g _ Hne).
  split; [apply map_nonempty, Hne | split; [apply Hl | apply Hc]].
Qed.

Lemma StepC_map0 g s e :
  (forall b, b_labels (g b) = b_labels b) -> (forall b, b_ctx (g b) = b_ctx b) ->
  frames s <> [] -> StepC s (BSt (map g (frames s)) e) [].
Proof.
  intros Hl Hc Hne. apply StepC_map; [exact Hl | | exact Hne].
  intro b. rewrite app_nil_r. apply Hc.
Qed.

Lemma root_head_view h h' r :
  b_labels h' = b_labels h -> b_ctx h' = b_ctx h ->
  b_labels (root_of (h' :: r)) = b_labels (root_of (h :: r)) /\
  b_ctx (root_of (h' :: r)) = b_ctx (root_of (h :: r)).
Proof.
  intros Hl Hc. destruct r as [|b r].
  - unfold root_of. cbn. split; assumption.
  - rewrite !root_of_cons by discriminate. split; reflexivity.
Qed.

Lemma StepC_head h h' r e e' :
  b_labels h' = b_labels h -> b_ctx h' = b_ctx h ->
  StepC (BSt (h :: r) e) (BSt (h' :: r) e') [].
Proof.
  intros Hl Hc. destruct (root_head_view h h' r Hl Hc) as [H1 H2].
  unfold StepC, Reg, Ctx, root. cbn [frames]. rewrite app_nil_r.
  split; [discriminate | split; assumption].
Qed.

Lemma StepC_refl s : frames s <> [] -> StepC s s [].
Proof. intro Hne. unfold StepC. rewrite app_nil_r. repeat split. exact Hne. Qed.

Lemma emit_StepC i s a s' : frames s <> [] -> emit i s = Ok a s' -> StepC s s' [i].
Proof.
  intros Hne H. apply emit_eq in H as ->. unfold st_emit.
  apply StepC_map; [reflexivity | reflexivity | exact Hne].
Qed.

Lemma inc_StepC s : frames s <> [] -> StepC s (st_inc s) [].
Proof. intro Hne. unfold st_inc. apply StepC_map0; [reflexivity | reflexivity | exact Hne]. Qed.

Lemma bump_StepC s r s' : frames s <> [] -> bump s = Ok r s' -> StepC s s' [].
Proof. intros Hne H. apply bump_eq in H as [-> _]. apply inc_StepC, Hne. Qed.

Lemma alloc_emit_StepC mk s r s' :
  frames s <> [] -> alloc_emit mk s = Ok r s' -> StepC s s' [mk r].
Proof.
  intros Hne H. apply alloc_emit_eq in H as [-> ->]. unfold st_alloc.
  pose proof (inc_StepC s Hne) as H1.
  apply (StepC_trans _ _ _ [] _ H1).
  unfold st_emit. apply StepC_map; [reflexivity | reflexivity | apply H1].
Qed.

Lemma set_inner_name_StepC n s a s' :
  frames s <> [] -> set_inner_name n s = Ok a s' -> StepC s s' [].
Proof.
  intros Hne H. apply set_inner_name_eq in H as ->. unfold st_inner.
  apply StepC_map0; [reflexivity | reflexivity | exact Hne].
Qed.

Lemma set_return_StepC s a s' : frames s <> [] -> set_return s = Ok a s' -> StepC s s' [].
Proof.
  intros Hne H. apply set_return_eq in H as ->. unfold st_return.
  apply StepC_map0; [reflexivity | reflexivity | exact Hne].
Qed.

Lemma insert_value_StepC x v s a s' :
  frames s <> [] -> insert_value x v s = Ok a s' -> StepC s s' [].
Proof.
  intros Hne H. apply insert_value_eq in H as ->. unfold st_value.
  destruct s as [fs e]. cbn [frames errs] in *. destruct fs as [|h r]; [congruence|].
  apply StepC_head; reflexivity.
Qed.

Lemma add_error_StepC e s a s' : frames s <> [] -> add_error e s = Ok a s' -> StepC s s' [].
Proof.
  intros Hne H. apply add_error_eq in H as ->. unfold st_error, StepC, Reg, Ctx, root.
  cbn [frames]. rewrite app_nil_r. repeat split. exact Hne.
Qed.

Lemma push_child_StepC s a s' : frames s <> [] -> push_child s = Ok a s' -> StepC s s' [].
Proof.
  intros Hne H. apply push_child_eq in H as ->. unfold st_push, StepC, Reg, Ctx, root.
  cbn [frames]. rewrite (root_of_cons _ _ Hne), app_nil_r.
  split; [discriminate | split; reflexivity].
Qed.

Lemma pop_child_StepC s k s' : pop_child s = Ok k s' -> StepC s s' [].
Proof.
  intro H. apply pop_child_eq in H as (c & p & r & Hf & -> & _).
  unfold StepC, Reg, Ctx, root. cbn [frames]. rewrite Hf.
  rewrite (root_of_cons c (p :: r)) by discriminate.
  destruct (root_head_view p (add_kid c p) r eq_refl eq_refl) as [H1 H2].
  rewrite app_nil_r. split; [discriminate | split; assumption].
Qed.

Lemma emit_kid_StepC k i s a s' : frames s <> [] -> emit_kid k i s = Ok a s' -> StepC s s' [i].
Proof.
  intros Hne H. apply emit_kid_eq in H as ->.
  assert (H1 : StepC s (st_kid k i s) []).
  { unfold st_kid. destruct s as [fs e]. cbn [frames errs] in *.
    destruct fs as [|p r]; [congruence|]. apply StepC_head; reflexivity. }
  apply (StepC_trans _ _ _ [] _ H1).
  unfold st_emit. apply StepC_map; [reflexivity | reflexivity | apply H1].
Qed.

Lemma set_label_name_StepR n s a s' :
  frames s <> [] -> set_label_name n s = Ok a s' -> StepR s s' n.
Proof.
  intros Hne H. apply set_label_name_eq in H as ->. unfold st_label, StepR, Reg, Ctx, root.
  cbn [frames]. rewrite (root_of_map _ _ Hne).
  split; [apply map_nonempty, Hne | split; reflexivity].
Qed.

(** ** [gen_label]: the name is new for the root, and registered *)
Definition GenSpec (s : bst) (l : string) (s' : bst) : Prop :=
  smem l (Reg s) = false /\ StepR s s' l.

Lemma label_exists_root n s :
  frames s <> [] -> label_exists n (frames s) = false -> smem n (Reg s) = false.
Proof.
  intros Hne Hex. destruct (smem n (Reg s)) eqn:E; [|reflexivity].
  assert (Ht : label_exists n (frames s) = true).
  { unfold label_exists. apply existsb_exists. exists (root s).
    split; [apply root_of_in, Hne | exact E]. }
  congruence.
Qed.

Lemma label_probe_spec fuel : forall n s l s',
  frames s <> [] -> label_probe fuel n s = Ok l s' -> GenSpec s l s'.
Proof.
  induction fuel as [|f IH]; intros n s l s' Hne H; cbn in H; [discriminate|].
  destruct (set_attr_counter n) as [n'|]; [|discriminate].
  destruct (label_exists n' (frames s)) eqn:E; [eapply IH; eassumption|].
  inversion H; subst.
  split; [apply label_exists_root; assumption|].
  apply (set_label_name_StepR l s tt); [exact Hne | reflexivity].
Qed.

Lemma gen_label_spec base s l s' :
  frames s <> [] -> gen_label base s = Ok l s' -> GenSpec s l s'.
Proof.
  intros Hne H. unfold gen_label in H. apply bind_ok in H as (ex & s1 & E & H).
  inversion E; subst; clear E.
  destruct (label_exists base (frames s1)) eqn:Eex.
  - apply bind_ok in H as (fuel & s2 & E & H). inversion E; subst; clear E.
    eapply label_probe_spec; eassumption.
  - apply bind_ok in H as (a & s2 & E1 & H). inversion H; subst.
    split; [apply label_exists_root; assumption | eapply set_label_name_StepR; eassumption].
Qed.

(** ** View-neutral computations *)
Definition Same (s s' : bst) : Prop :=
  frames s' <> [] /\ Reg s' = Reg s /\ SetL s' = SetL s /\ Tg s' = Tg s.

Lemma Same_refl s : frames s <> [] -> Same s s.
Proof. intro H. repeat split. exact H. Qed.
Lemma Same_trans s s1 s2 : Same s s1 -> Same s1 s2 -> Same s s2.
Proof.
  intros (_ & R1 & S1 & T1) (N2 & R2 & S2 & T2).
  split; [exact N2|]. repeat split; congruence.
Qed.
Lemma StepC_Same s s' c : StepC s s' c -> set_labels c = [] -> targets c = [] -> Same s s'.
Proof.
  intros (Hne & HR & HC) Hs Ht. split; [exact Hne|]. split; [exact HR|].
  unfold SetL, Tg. rewrite HC, set_labels_app, targets_app, Hs, Ht, !app_nil_r.
  split; reflexivity.
Qed.

Definition Neu {A} (m : M A) : Prop :=
  forall s a s', frames s <> [] -> m s = Ok a s' -> Same s s'.

Lemma Neu_ret {A} (a : A) : Neu (ret a).
Proof. intros s a' s' Hne H. inversion H; subst. apply Same_refl, Hne. Qed.
Lemma Neu_bind {A B} (m : M A) (f : A -> M B) : Neu m -> (forall a, Neu (f a)) -> Neu (bind m f).
Proof.
  intros Hm Hf s b s' Hne H. apply bind_ok in H as (a & s1 & E & H).
  pose proof (Hm s a s1 Hne E) as H1.
  eapply Same_trans; [exact H1 | eapply Hf; [apply H1 | exact H]].
Qed.
Lemma Neu_gets {A} (g : list block -> A) : Neu (gets g).
Proof. intros s a s' Hne H. inversion H; subst. apply Same_refl, Hne. Qed.
Lemma Neu_lookup_value x : Neu (lookup_value x).
Proof. apply Neu_gets. Qed.
Lemma Neu_get_reg : Neu get_reg.
Proof. apply Neu_gets. Qed.
Lemma Neu_panic {A} k : Neu (@panic A k).
Proof. intros s a s' _ H. discriminate. Qed.
Lemma Neu_oof {A} : Neu (@out_of_fuel A).
Proof. intros s a s' _ H. discriminate. Qed.
Lemma Neu_when b m : Neu m -> Neu (when b m).
Proof. intro H. destruct b; [exact H | apply Neu_ret]. Qed.

Lemma Neu_alloc_emit mk :
  (forall n, set_label_of (mk n) = []) -> (forall n, target_labels (mk n) = []) ->
  Neu (alloc_emit mk).
Proof.
  intros H1 H2 s r s' Hne H. apply (StepC_Same _ _ [mk r]).
  - eapply alloc_emit_StepC; eassumption.
  - cbn. rewrite H1. reflexivity.
  - cbn. rewrite H2. reflexivity.
Qed.
Lemma Neu_bump : Neu bump.
Proof. intros s r s' Hne H. eapply StepC_Same; [eapply bump_StepC; eassumption | |]; reflexivity. Qed.
Lemma Neu_emit i : set_label_of i = [] -> target_labels i = [] -> Neu (emit i).
Proof.
  intros H1 H2 s a s' Hne H. apply (StepC_Same _ _ [i]).
  - eapply emit_StepC; eassumption.
  - cbn. rewrite H1. reflexivity.
  - cbn. rewrite H2. reflexivity.
Qed.
Lemma Neu_set_inner_name n : Neu (set_inner_name n).
Proof.
  intros s r s' Hne H.
  eapply StepC_Same; [eapply set_inner_name_StepC; eassumption | |]; reflexivity.
Qed.
Lemma Neu_set_return : Neu set_return.
Proof.
  intros s r s' Hne H. eapply StepC_Same; [eapply set_return_StepC; eassumption | |]; reflexivity.
Qed.
Lemma Neu_insert_value x v : Neu (insert_value x v).
Proof.
  intros s r s' Hne H. eapply StepC_Same; [eapply insert_value_StepC; eassumption | |]; reflexivity.
Qed.
Lemma Neu_add_error e : Neu (add_error e).
Proof.
  intros s r s' Hne H. eapply StepC_Same; [eapply add_error_StepC; eassumption | |]; reflexivity.
Qed.
Lemma Neu_push_child : Neu push_child.
Proof.
  intros s r s' Hne H. eapply StepC_Same; [eapply push_child_StepC; eassumption | |]; reflexivity.
Qed.
Lemma Neu_pop_child : Neu pop_child.
Proof.
  intros s r s' Hne H. eapply StepC_Same; [eapply pop_child_StepC; eassumption | |]; reflexivity.
Qed.
Lemma Neu_next_inner_name fuel n : Neu (next_inner_name fuel n).
Proof.
  intros s a s' Hne H. apply next_inner_name_spec in H as [-> _]. apply Same_refl, Hne.
Qed.

Ltac n_prim :=
  first
    [ apply Neu_ret | apply Neu_lookup_value | apply Neu_get_reg | apply Neu_gets
    | apply Neu_panic | apply Neu_oof | apply Neu_bump
    | apply Neu_alloc_emit; intro; reflexivity
    | apply Neu_emit; reflexivity
    | apply Neu_set_inner_name | apply Neu_set_return | apply Neu_insert_value
    | apply Neu_add_error | apply Neu_push_child | apply Neu_pop_child
    | apply Neu_next_inner_name ].

Ltac n_go :=
  repeat first
    [ n_prim
    | match goal with H : _ |- Neu _ => solve [apply H; auto] end
    | apply Neu_when
    | apply Neu_bind; [| intros ?]
    | match goal with |- Neu (match ?x with _ => _ end) => destruct x end
    | progress cbv zeta ].

Section NeuBody.
  Variable G : globals.

  Lemma Neu_check_type_exists t v l : Neu (check_type_exists G t v l).
  Proof. unfold check_type_exists. n_go. Qed.

  Section Expr.
    Variable E : expr -> M (option eres).
    Hypothesis HE : forall e, Neu (E e).

    Lemma Neu_call_args callee params : forall args i acc, Neu (call_args E callee params i args acc).
    Proof. induction args as [|a args IH]; intros i acc; cbn [call_args]; n_go. Qed.

    Lemma Neu_function_call f args : Neu (function_call G E f args).
    Proof. pose proof Neu_call_args. unfold function_call. n_go. Qed.

    Lemma Neu_expr_value v : Neu (expr_value G E v).
    Proof.
      pose proof Neu_function_call. pose proof Neu_check_type_exists.
      destruct v; cbn [expr_value]; n_go.
    Qed.

    Lemma Neu_expr_chain : forall rest left, Neu (expr_chain G E left rest).
    Proof.
      pose proof Neu_expr_value.
      induction rest as [|[op v] rest IH]; intros left; cbn [expr_chain]; n_go.
    Qed.

    Lemma Neu_expression_body e : Neu (expression_body G E e).
    Proof. pose proof Neu_expr_value. pose proof Neu_expr_chain. unfold expression_body. n_go. Qed.
  End Expr.

  Lemma Neu_expression fuel : forall e, Neu (expression G fuel e).
  Proof.
    induction fuel as [|f IH]; intros e; cbn [expression]; [apply Neu_oof|].
    apply Neu_expression_body; exact IH.
  Qed.

  Section Stmts.
    Variable fuel : nat.
    Variable RT : sem_ty.

    Lemma Neu_let_binding x m t e : Neu (let_binding G fuel x m t e).
    Proof. pose proof (Neu_expression fuel). unfold let_binding. n_go. Qed.

    Lemma Neu_binding x e : Neu (binding G fuel x e).
    Proof. pose proof (Neu_expression fuel). unfold binding. n_go. Qed.

    Lemma Neu_call_stmt f args : Neu (call_stmt G fuel f args).
    Proof.
      unfold call_stmt. apply Neu_bind; [|intros; apply Neu_ret].
      apply Neu_function_call. apply Neu_expression.
    Qed.

    Lemma Neu_condition_expression c : Neu (condition_expression G fuel c).
    Proof.
      pose proof (Neu_expression fuel).
      induction c as [l c r | l c r op n IH] using lcond_ind'; cbn [condition_expression]; n_go.
    Qed.

    Lemma Neu_check_return_type er : Neu (check_return_type RT er).
    Proof. unfold check_return_type. n_go. Qed.

    Lemma Neu_code_after_errors k fl : Neu (code_after_errors k fl).
    Proof. unfold code_after_errors. n_go. Qed.

    Lemma Neu_init_func_params : forall ps, Neu (init_func_params ps).
    Proof. induction ps as [|[x t] ps IH]; cbn [init_func_params]; n_go. Qed.
  End Stmts.
End NeuBody.

(** ** Uniqueness: invariant and transition relation *)
Definition Inv (s : bst) : Prop :=
  frames s <> [] /\ NoDup (SetL s) /\ (forall l, In l (SetL s) -> smem l (Reg s) = true).

(** From [s] to [s']: the registry grew, and the labels set in between were all unregistered
    in [s] (they were generated in between). *)
Definition Tr (s s' : bst) : Prop :=
  frames s' <> [] /\
  (forall l, smem l (Reg s) = true -> smem l (Reg s') = true) /\
  exists fresh, SetL s' = SetL s ++ fresh /\ NoDup fresh /\
                (forall l, In l fresh -> smem l (Reg s) = false /\ smem l (Reg s') = true).

Lemma Tr_refl s : frames s <> [] -> Tr s s.
Proof.
  intro Hne. split; [exact Hne|]. split; [trivial|]. exists [].
  split; [rewrite app_nil_r; reflexivity|]. split; [constructor | intros l []].
Qed.

Lemma Tr_trans s s1 s2 : Tr s s1 -> Tr s1 s2 -> Tr s s2.
Proof.
  intros (Hne1 & Hm1 & f1 & Hs1 & Hn1 & Hf1) (Hne2 & Hm2 & f2 & Hs2 & Hn2 & Hf2).
  split; [exact Hne2|]. split; [intros l Hl; apply Hm2, Hm1, Hl|].
  exists (f1 ++ f2). split; [rewrite Hs2, Hs1, <- app_assoc; reflexivity|]. split.
  - apply NoDup_app_intro; [exact Hn1 | exact Hn2|]. intros x Hx1 Hx2.
    destruct (Hf1 x Hx1) as [_ Hr]. destruct (Hf2 x Hx2) as [Hu _]. congruence.
  - intros l Hl. apply in_app_or in Hl as [Hl|Hl].
    + destruct (Hf1 l Hl) as [Hu Hr]. split; [exact Hu | apply Hm2, Hr].
    + destruct (Hf2 l Hl) as [Hu Hr]. split; [|exact Hr].
      destruct (smem l (Reg s)) eqn:E; [|reflexivity]. apply Hm1 in E. congruence.
Qed.

Lemma Inv_Tr s s' : Inv s -> Tr s s' -> Inv s'.
Proof.
  intros (Hne & Hnd & Hreg) (Hne' & Hm & f & Hs & Hn & Hf).
  split; [exact Hne'|]. rewrite Hs. split.
  - apply NoDup_app_intro; [exact Hnd | exact Hn|]. intros x Hx1 Hx2.
    apply Hreg in Hx1. destruct (Hf x Hx2) as [Hu _]. congruence.
  - intros l Hl. apply in_app_or in Hl as [Hl|Hl]; [apply Hm, Hreg, Hl | apply (Hf l Hl)].
Qed.

Lemma Same_Tr s s' : Same s s' -> Tr s s'.
Proof.
  intros (Hne & HR & HS & _). split; [exact Hne|]. split; [rewrite HR; trivial|].
  exists []. split; [rewrite app_nil_r; exact HS|]. split; [constructor | intros l []].
Qed.

Lemma StepC_Tr s s' c : StepC s s' c -> set_labels c = [] -> Tr s s'.
Proof.
  intros (Hne & HR & HC) Hs. split; [exact Hne|]. split; [rewrite HR; trivial|].
  exists []. split; [|split; [constructor | intros l []]].
  unfold SetL. rewrite HC, set_labels_app, Hs. reflexivity.
Qed.

Lemma StepR_Tr s s' n : StepR s s' n -> Tr s s'.
Proof.
  intros (Hne & HR & HC). split; [exact Hne|]. split.
  - intros l Hl. rewrite HR. apply smem_sadd_mono, Hl.
  - exists []. split; [|split; [constructor | intros l []]].
    unfold SetL. rewrite HC, app_nil_r. reflexivity.
Qed.

Definition Lab {A} (m : M A) : Prop := forall s a s', Inv s -> m s = Ok a s' -> Tr s s'.

Lemma Lab_of_Neu {A} (m : M A) : Neu m -> Lab m.
Proof. intros H s a s' Hi E. apply Same_Tr. eapply H; [apply Hi | exact E]. Qed.
Lemma Lab_ret {A} (a : A) : Lab (ret a).
Proof. apply Lab_of_Neu, Neu_ret. Qed.
Lemma Lab_bind {A B} (m : M A) (f : A -> M B) : Lab m -> (forall a, Lab (f a)) -> Lab (bind m f).
Proof.
  intros Hm Hf s b s' Hi H. apply bind_ok in H as (a & s1 & E & H).
  pose proof (Hm s a s1 Hi E) as H1.
  eapply Tr_trans; [exact H1 | eapply Hf; [eapply Inv_Tr; eassumption | exact H]].
Qed.
Lemma Lab_panic {A} k : Lab (@panic A k).
Proof. apply Lab_of_Neu, Neu_panic. Qed.
Lemma Lab_oof {A} : Lab (@out_of_fuel A).
Proof. apply Lab_of_Neu, Neu_oof. Qed.
Lemma Lab_when b m : Lab m -> Lab (when b m).
Proof. intro H. destruct b; [exact H | apply Lab_ret]. Qed.
Lemma Lab_emit i : set_label_of i = [] -> Lab (emit i).
Proof.
  intros H1 s a s' Hi H. apply (StepC_Tr _ _ [i]).
  - eapply emit_StepC; [apply Hi | exact H].
  - cbn. rewrite H1. reflexivity.
Qed.
Lemma Lab_emit_kid k i : set_label_of i = [] -> Lab (emit_kid k i).
Proof.
  intros H1 s a s' Hi H. apply (StepC_Tr _ _ [i]).
  - eapply emit_kid_StepC; [apply Hi | exact H].
  - cbn. rewrite H1. reflexivity.
Qed.
Lemma Lab_gen_label base : Lab (gen_label base).
Proof.
  intros s l s' Hi H. apply gen_label_spec in H as [_ H]; [|apply Hi]. eapply StepR_Tr, H.
Qed.

Ltac l_go :=
  repeat first
    [ apply Lab_ret | apply Lab_panic | apply Lab_oof
    | match goal with H : _ |- Lab _ => solve [apply H; auto] end
    | apply Lab_of_Neu; solve [n_go]
    | apply Lab_emit; reflexivity
    | apply Lab_emit_kid; reflexivity
    | apply Lab_gen_label
    | apply Lab_when
    | apply Lab_bind; [| intros ?]
    | match goal with |- Lab (match ?x with _ => _ end) => destruct x end
    | progress cbv zeta ].

(** ** Labels generated since [s0], registered, and not yet set *)
Definition Pend (s0 s : bst) (l : string) : Prop :=
  smem l (Reg s0) = false /\ smem l (Reg s) = true /\ ~ In l (SetL s).

Lemma Pend_reg s0 s l : Pend s0 s l -> smem l (Reg s) = true.
Proof. intros (_ & H & _). exact H. Qed.

Lemma Pend_Tr s0 s s1 l : Tr s s1 -> Pend s0 s l -> Pend s0 s1 l.
Proof.
  intros (Hne & Hm & f & Hs & Hn & Hf) (Hu & Hr & Hni).
  split; [exact Hu|]. split; [apply Hm, Hr|]. rewrite Hs. intro Hin.
  apply in_app_or in Hin as [Hin|Hin]; [exact (Hni Hin)|].
  destruct (Hf l Hin) as [Hu' _]. congruence.
Qed.

Lemma gen_step s0 s l s1 :
  Inv s0 -> Tr s0 s -> GenSpec s l s1 ->
  Tr s s1 /\ Pend s0 s1 l /\ (forall l', smem l' (Reg s) = true -> l' <> l).
Proof.
  intros Hi0 Ht [Hu Hst]. pose proof (Inv_Tr _ _ Hi0 Ht) as (_ & _ & Hreg).
  split; [eapply StepR_Tr, Hst|]. split.
  - destruct Hst as (Hne & HR & HC). split.
    + destruct (smem l (Reg s0)) eqn:E; [|reflexivity]. apply Ht in E. congruence.
    + split; [rewrite HR; apply smem_sadd|]. unfold SetL. rewrite HC. intro Hin.
      apply Hreg in Hin. congruence.
  - intros l' Hl' ->. congruence.
Qed.

Definition SetStep (l : string) (s s1 : bst) : Prop := StepC s s1 [ISetLabel l].

Lemma SetStep_SetL l s s1 : SetStep l s s1 -> SetL s1 = SetL s ++ [l].
Proof. intros (_ & _ & HC). unfold SetL. rewrite HC, set_labels_app. reflexivity. Qed.

Lemma set_Tr s0 s s1 l : Tr s0 s -> Pend s0 s l -> SetStep l s s1 -> Tr s0 s1.
Proof.
  intros (Hne & Hm & f & Hs & Hn & Hf) (Hu & Hr & Hni) Hst.
  pose proof (SetStep_SetL _ _ _ Hst) as HS. destruct Hst as (Hne1 & HR & _).
  split; [exact Hne1|]. split; [rewrite HR; exact Hm|].
  exists (f ++ [l]). split; [rewrite HS, Hs, <- app_assoc; reflexivity|]. split.
  - apply NoDup_app_snoc; [exact Hn|]. intro Hin. apply Hni. rewrite Hs. apply in_or_app.
    right. exact Hin.
  - intros l' Hl'. rewrite HR. apply in_app_or in Hl' as [Hl'|[<-|[]]]; [apply Hf, Hl'|].
    split; assumption.
Qed.

Lemma set_Pend s0 s s1 l l' : SetStep l s s1 -> l' <> l -> Pend s0 s l' -> Pend s0 s1 l'.
Proof.
  intros Hst Hd (Hu & Hr & Hni). pose proof (SetStep_SetL _ _ _ Hst) as HS.
  destruct Hst as (_ & HR & _). split; [exact Hu|]. split; [rewrite HR; exact Hr|].
  rewrite HS. intro Hin. apply in_app_or in Hin as [Hin|[Heq|[]]]; [exact (Hni Hin)|].
  apply Hd. symmetry. exact Heq.
Qed.

(** Forward symbolic execution.  The context holds [HI0 : Inv s0], [HT : Tr s0 s] for the
    current state [s], and one [Pend s0 s l] for every generated label not set yet. *)
Ltac lcore HI0 HT E :=
  match type of E with
  | ?m ?s = Ok ?x ?s1 =>
      let Lm := fresh "Lm" in let HT1 := fresh "HT1" in
      assert (Lm : Lab m) by solve [l_go];
      pose proof (Lm s x s1 (Inv_Tr _ _ HI0 HT) E) as HT1; clear Lm;
      repeat match goal with HP : Pend _ s _ |- _ => apply (Pend_Tr _ _ _ _ HT1) in HP end;
      apply (Tr_trans _ _ _ HT) in HT1; clear HT E; rename HT1 into HT
  end.

Ltac gcore HI0 HT E :=
  match type of E with
  | gen_label _ ?s = Ok ?l ?s1 =>
      let HT1 := fresh "HT1" in let HP := fresh "HP" in let Hd := fresh "Hd" in
      destruct (gen_step _ _ _ _ HI0 HT
                  (gen_label_spec _ _ _ _ (proj1 (Inv_Tr _ _ HI0 HT)) E)) as (HT1 & HP & Hd);
      repeat match goal with HP' : Pend _ s ?l' |- _ =>
               pose proof (Hd l' (Pend_reg _ _ _ HP'));
               apply (Pend_Tr _ _ _ _ HT1) in HP'
             end;
      apply (Tr_trans _ _ _ HT) in HT1; clear HT E Hd; rename HT1 into HT
  end.

Ltac score HI0 HT E :=
  let Hst := fresh "Hst" in let HT1 := fresh "HT1" in
  match type of E with
  | emit (ISetLabel ?l) ?s = Ok _ ?s1 =>
      pose proof (emit_StepC _ _ _ _ (proj1 (Inv_Tr _ _ HI0 HT)) E : SetStep l s s1) as Hst;
      match goal with HPl : Pend _ s l |- _ =>
        pose proof (set_Tr _ _ _ _ HT HPl Hst) as HT1; clear HPl end;
      repeat match goal with HP' : Pend _ s ?l' |- _ =>
               first [ apply (set_Pend _ _ _ _ _ Hst) in HP';
                       [| first [assumption | apply not_eq_sym; assumption]]
                     | clear HP' ]
             end;
      clear HT E Hst; rename HT1 into HT
  | emit_kid _ (ISetLabel ?l) ?s = Ok _ ?s1 =>
      pose proof (emit_kid_StepC _ _ _ _ _ (proj1 (Inv_Tr _ _ HI0 HT)) E : SetStep l s s1) as Hst;
      match goal with HPl : Pend _ s l |- _ =>
        pose proof (set_Tr _ _ _ _ HT HPl Hst) as HT1; clear HPl end;
      repeat match goal with HP' : Pend _ s ?l' |- _ =>
               first [ apply (set_Pend _ _ _ _ _ Hst) in HP';
                       [| first [assumption | apply not_eq_sym; assumption]]
                     | clear HP' ]
             end;
      clear HT E Hst; rename HT1 into HT
  end.

Ltac lstep H :=
  let x := fresh "x" in let s1 := fresh "s" in let E := fresh "E" in
  apply bind_ok in H as (x & s1 & E & H); cbv beta in H;
  match goal with HI0 : Inv ?s0, HT : Tr ?s0 _ |- _ => lcore HI0 HT E end.
Ltac lstep_as H x s1 :=
  let E := fresh "E" in
  apply bind_ok in H as (x & s1 & E & H); cbv beta in H;
  match goal with HI0 : Inv ?s0, HT : Tr ?s0 _ |- _ => lcore HI0 HT E end.
Ltac gstep H l :=
  let s1 := fresh "s" in let E := fresh "E" in
  apply bind_ok in H as (l & s1 & E & H); cbv beta in H;
  match goal with HI0 : Inv ?s0, HT : Tr ?s0 _ |- _ => gcore HI0 HT E end.
Ltac sstep H :=
  let x := fresh "x" in let s1 := fresh "s" in let E := fresh "E" in
  apply bind_ok in H as (x & s1 & E & H); cbv beta in H;
  match goal with HI0 : Inv ?s0, HT : Tr ?s0 _ |- _ => score HI0 HT E end.
Ltac llast H := match goal with HI0 : Inv ?s0, HT : Tr ?s0 _ |- _ => lcore HI0 HT H end.
Ltac slast H := match goal with HI0 : Inv ?s0, HT : Tr ?s0 _ |- _ => score HI0 HT H end.
Ltac done_tr := match goal with HT : Tr _ _ |- _ => exact HT end.

Section LabBody.
  Variable G : globals.
  Variable fuel : nat.
  Variable RT : sem_ty.

  Lemma Lab_if_condition_calculation c lb le lend ie :
    Lab (if_condition_calculation G fuel c lb le lend ie).
  Proof.
    pose proof (Neu_expression G fuel). pose proof (Neu_condition_expression G fuel).
    unfold if_condition_calculation. l_go.
  Qed.

  Section Control.
    Variable IFC : ifstmt -> option string -> option (string * string) -> M unit.
    Variable LOOP : list stmt -> M unit.
    Hypothesis HIFC : forall i le ll, Lab (IFC i le ll).
    Hypothesis HLOOP : forall b, Lab (LOOP b).

    Lemma Lab_nested_stmt k lend lloop fl st :
      Lab (nested_stmt G fuel RT IFC LOOP k lend lloop fl st).
    Proof.
      pose proof (Neu_expression G fuel). pose proof (Neu_let_binding G fuel).
      pose proof (Neu_binding G fuel). pose proof (Neu_call_stmt G fuel).
      pose proof (Neu_check_return_type RT).
      destruct st; cbn [nested_stmt]; l_go.
    Qed.

    Lemma Lab_run_body k lend lloop :
      forall ss fl, Lab (run_body G fuel RT IFC LOOP k lend lloop fl ss).
    Proof.
      pose proof Lab_nested_stmt. pose proof Neu_code_after_errors.
      induction ss as [|st ss IH]; intros fl; cbn [run_body]; l_go.
    Qed.

    Lemma Lab_if_body b lend lloop : Lab (if_body G fuel RT IFC LOOP b lend lloop).
    Proof. pose proof Lab_run_body. unfold if_body. l_go. Qed.

    Lemma Lab_if_condition_step i le ll : Lab (if_condition_step G fuel RT IFC LOOP i le ll).
    Proof.
      pose proof Lab_if_body as Hbody. pose proof Lab_if_condition_calculation as Hcalc.
      destruct i as [c body els elif]. intros s0 a s_end HI0 H.
      pose proof (Tr_refl s0 (proj1 HI0)) as HT.
      cbn [if_condition_step] in H.
      lstep H. lstep H. gstep H lbegin. gstep H lelse.
      destruct le as [le|].
      - (* the end label belongs to the caller: never set here *)
        lstep H. lstep H. sstep H. lstep H. lstep H.
        destruct els as [eb|]; [|destruct elif as [ei|]]; cbn [is_some orb negb when] in H.
        + sstep H. lstep H. lstep H. llast H. done_tr.
        + sstep H. lstep H. lstep H. llast H. done_tr.
        + lstep H. llast H. done_tr.
      - gstep H lend. lstep H. sstep H. lstep H. lstep H.
        destruct els as [eb|]; [|destruct elif as [ei|]]; cbn [is_some orb negb when] in H.
        + sstep H. lstep H. lstep H. slast H. done_tr.
        + sstep H. lstep H. lstep H. slast H. done_tr.
        + sstep H. llast H. done_tr.
    Qed.

    Lemma Lab_loop_step body : Lab (loop_step G fuel RT IFC LOOP body).
    Proof.
      pose proof Lab_run_body as Hbody.
      intros s0 a s_end HI0 H. pose proof (Tr_refl s0 (proj1 HI0)) as HT.
      unfold loop_step in H.
      lstep H. gstep H lbegin. gstep H lend. lstep H. sstep H. lstep_as H fl s_body.
      apply bind_ok in H as (u & s_mid & Hmid & H). cbv beta in H.
      destruct (fl_ret fl).
      - (* a return in the body: the end label is set only if some break names it *)
        unfold bind at 1, gets in Hmid.
        destruct (existsb (is_jump_to lend) (head_ctx (frames s_body))); cbn [when] in Hmid.
        + slast Hmid. llast H. done_tr.
        + llast Hmid. llast H. done_tr.
      - lstep Hmid. slast Hmid. llast H. done_tr.
    Qed.
  End Control.

  Lemma Lab_control n :
    (forall i le ll, Lab (if_condition G fuel RT n i le ll)) /\
    (forall b, Lab (loop_statement G fuel RT n b)).
  Proof.
    induction n as [|n [IH1 IH2]]; split; intros; cbn [if_condition loop_statement];
      try apply Lab_oof.
    - apply Lab_if_condition_step; assumption.
    - apply Lab_loop_step; assumption.
  Qed.

  Lemma Lab_fn_stmt returned st : Lab (fn_stmt G fuel RT returned st).
  Proof.
    pose proof (Neu_expression G fuel). pose proof (Neu_let_binding G fuel).
    pose proof (Neu_binding G fuel). pose proof (Neu_call_stmt G fuel).
    pose proof (Neu_check_type_exists G).
    destruct (Lab_control fuel) as [HI HL].
    destruct st; cbn [fn_stmt]; l_go.
  Qed.

  Lemma Lab_fn_stmts : forall ss returned, Lab (fn_stmts G fuel RT returned ss).
  Proof.
    pose proof Lab_fn_stmt.
    induction ss as [|st ss IH]; intros returned; cbn [fn_stmts]; l_go.
  Qed.
End LabBody.

Lemma Lab_function_body_m G f : Lab (function_body_m G f).
Proof.
  pose proof (Neu_init_func_params (fn_params f)). pose proof (Lab_fn_stmts G).
  unfold function_body_m. l_go.
Qed.

Lemma Inv_init e : Inv (BSt [empty_block] e).
Proof.
  split; [discriminate|]. unfold SetL, Ctx, Reg, root, root_of. cbn.
  split; [constructor | intros l []].
Qed.

Lemma function_body_Inv G errs0 f a s : function_body G errs0 f = Ok a s -> Inv s.
Proof.
  intro H. eapply Inv_Tr; [apply (Inv_init errs0)|].
  eapply Lab_function_body_m; [apply Inv_init | exact H].
Qed.

Lemma bodies_labels_unique G : forall fs errs0 roots errs1 roots1,
  Forall (fun b => NoDup (set_labels (b_ctx b))) roots ->
  bodies G errs0 roots fs = inr (errs1, roots1) ->
  Forall (fun b => NoDup (set_labels (b_ctx b))) roots1.
Proof.
  induction fs as [|f fs IH]; intros errs0 roots errs1 roots1 Hroots H; cbn in H.
  - inversion H; subst. exact Hroots.
  - destruct (function_body G errs0 f) as [a s| |] eqn:E; try discriminate.
    destruct (frames s) as [|rt [|]] eqn:Ef; try discriminate.
    eapply IH; [|exact H]. apply Forall_app; split; [exact Hroots|].
    constructor; [|constructor].
    pose proof (function_body_Inv _ _ _ _ _ E) as (_ & Hnd & _).
    unfold SetL, Ctx, root, root_of in Hnd. rewrite Ef in Hnd. exact Hnd.
Qed.

Lemma bodies_inl_not_ok' G : forall fs errs0 roots r o,
  bodies G errs0 roots fs = inl r -> r <> ROk o.
Proof.
  induction fs as [|f fs IH]; intros errs0 roots r o H; cbn in H; [discriminate|].
  destruct (function_body G errs0 f) as [a s| |]; try (inversion H; discriminate).
  destruct (frames s) as [|rt [|]]; try (inversion H; discriminate).
  eapply IH; exact H.
Qed.

(** C10, uniqueness: for every program on which the analysis terminates, within one
    function's complete instruction stack no label is set twice. *)
Theorem run_labels_unique : forall p out,
  run p = ROk out -> Forall (fun root => NoDup (set_labels (b_ctx root))) (o_fns out).
Proof.
  intros p out H. unfold run in H.
  destruct (bodies (gs_globals (declarations p)) (gs_errs (declarations p)) [] (functions_of p))
    as [r|[errors roots]] eqn:E; [exfalso; eapply bodies_inl_not_ok'; eauto|].
  inversion H; subst; clear H. cbn [o_fns].
  eapply bodies_labels_unique; [|exact E]. constructor.
Qed.

Print Assumptions run_labels_unique.

(** ** Resolution, first half: every label that is named is registered

    Labels reach a jump or a conditional only from [gen_label] (directly, or handed down as the
    end label of the enclosing if chain or the labels of the enclosing loop). *)
Definition Rg (s : bst) (l : string) : Prop := smem l (Reg s) = true.
Definition RgO (s : bst) (o : option string) : Prop :=
  match o with Some l => Rg s l | None => True end.
Definition RgL (s : bst) (o : option (string * string)) : Prop :=
  match o with Some (a, b) => Rg s a /\ Rg s b | None => True end.
Definition RgK (s : bst) (k : bkind) (lend : string) : Prop :=
  match k with KLoop => True | _ => Rg s lend end.

Definition Jnv (s : bst) : Prop := frames s <> [] /\ (forall l, In l (Tg s) -> Rg s l).

Definition Ur (s s' : bst) : Prop :=
  frames s' <> [] /\ (forall l, Rg s l -> Rg s' l) /\ (forall l, In l (Tg s') -> In l (Tg s) \/ Rg s' l).

Lemma Ur_refl s : frames s <> [] -> Ur s s.
Proof. intro H. split; [exact H|]. split; [trivial | intros l Hl; left; exact Hl]. Qed.
Lemma Ur_trans s s1 s2 : Ur s s1 -> Ur s1 s2 -> Ur s s2.
Proof.
  intros (_ & M1 & T1) (N2 & M2 & T2). split; [exact N2|]. split; [intros l Hl; apply M2, M1, Hl|].
  intros l Hl. destruct (T2 l Hl) as [Hl1|Hr]; [|right; exact Hr].
  destruct (T1 l Hl1) as [Hl0|Hr]; [left; exact Hl0 | right; apply M2, Hr].
Qed.
Lemma Jnv_Ur s s' : Jnv s -> Ur s s' -> Jnv s'.
Proof.
  intros (_ & HJ) (Hne & Hm & Ht). split; [exact Hne|]. intros l Hl.
  destruct (Ht l Hl) as [Hl0|Hr]; [apply Hm, HJ, Hl0 | exact Hr].
Qed.
Lemma Same_Ur s s' : Same s s' -> Ur s s'.
Proof.
  intros (Hne & HR & _ & HT). split; [exact Hne|]. unfold Rg. rewrite HR, HT.
  split; [trivial | intros l Hl; left; exact Hl].
Qed.
Lemma StepC_Ur s s' c : StepC s s' c -> (forall l, In l (targets c) -> Rg s l) -> Ur s s'.
Proof.
  intros (Hne & HR & HC) Hc. split; [exact Hne|]. unfold Rg, Tg. rewrite HR, HC, targets_app.
  split; [trivial|]. intros l Hl. apply in_app_or in Hl as [Hl|Hl]; [left; exact Hl | right; apply Hc, Hl].
Qed.
Lemma StepR_Ur s s' n : StepR s s' n -> Ur s s' /\ Rg s' n.
Proof.
  intros (Hne & HR & HC). unfold Ur, Rg, Tg. rewrite HR, HC. split; [|apply smem_sadd].
  split; [exact Hne|]. split; [intros l Hl; apply smem_sadd_mono, Hl | intros l Hl; left; exact Hl].
Qed.

Lemma Rg_Ur s s1 l : Ur s s1 -> Rg s l -> Rg s1 l.
Proof. intros (_ & Hm & _). apply Hm. Qed.
Lemma RgO_Ur s s1 o : Ur s s1 -> RgO s o -> RgO s1 o.
Proof. intro HU. destruct o as [l|]; cbn; [apply (Rg_Ur _ _ _ HU) | trivial]. Qed.
Lemma RgL_Ur s s1 o : Ur s s1 -> RgL s o -> RgL s1 o.
Proof.
  intro HU. destruct o as [[a b]|]; cbn; [|trivial].
  intros [Ha Hb]. split; eapply Rg_Ur; eassumption.
Qed.
Lemma RgK_Ur s s1 k l : Ur s s1 -> RgK s k l -> RgK s1 k l.
Proof. intro HU. destruct k; cbn; trivial; apply (Rg_Ur _ _ _ HU). Qed.

Definition Jat {A} (s : bst) (m : M A) : Prop :=
  frames s <> [] -> forall a s', m s = Ok a s' -> Ur s s'.

Lemma Jat_of_Neu {A} s (m : M A) : Neu m -> Jat s m.
Proof. intros H Hne a s' E. apply Same_Ur. eapply H; eassumption. Qed.
Lemma Jat_ret {A} s (a : A) : Jat s (ret a).
Proof. apply Jat_of_Neu, Neu_ret. Qed.
Lemma Jat_panic {A} s k : Jat s (@panic A k).
Proof. apply Jat_of_Neu, Neu_panic. Qed.
Lemma Jat_oof {A} s : Jat s (@out_of_fuel A).
Proof. apply Jat_of_Neu, Neu_oof. Qed.
Lemma Jat_bind {A B} s (m : M A) (f : A -> M B) :
  Jat s m -> (forall a s1, Ur s s1 -> Jat s1 (f a)) -> Jat s (bind m f).
Proof.
  intros Hm Hf Hne b s' H. apply bind_ok in H as (a & s1 & E & H).
  pose proof (Hm Hne a s1 E) as U1.
  eapply Ur_trans; [exact U1 | eapply Hf; [exact U1 | apply U1 | exact H]].
Qed.
Lemma Jat_bind_ret {A B} s (a : A) (f : A -> M B) : Jat s (f a) -> Jat s (bind (ret a) f).
Proof. intros H Hne b s' E. exact (H Hne b s' E). Qed.
Lemma Jat_when s b m : Jat s m -> Jat s (when b m).
Proof. intro H. destruct b; [exact H | apply Jat_ret]. Qed.
Lemma Jat_emit s i : (forall l, In l (target_labels i) -> Rg s l) -> Jat s (emit i).
Proof.
  intros Hi Hne a s' H. apply (StepC_Ur _ _ [i]); [eapply emit_StepC; eassumption|].
  cbn. rewrite app_nil_r. exact Hi.
Qed.
Lemma Jat_emit_kid s k i : (forall l, In l (target_labels i) -> Rg s l) -> Jat s (emit_kid k i).
Proof.
  intros Hi Hne a s' H. apply (StepC_Ur _ _ [i]); [eapply emit_kid_StepC; eassumption|].
  cbn. rewrite app_nil_r. exact Hi.
Qed.
Lemma Jat_gen_label s base : Jat s (gen_label base).
Proof. intros Hne l s' H. apply gen_label_spec in H as [_ H]; [|exact Hne]. apply (StepR_Ur _ _ _ H). Qed.
Lemma Jat_gen_label_bind {B} s base (f : string -> M B) :
  (forall l s1, Ur s s1 -> Rg s1 l -> Jat s1 (f l)) -> Jat s (bind (gen_label base) f).
Proof.
  intros Hf Hne b s' H. apply bind_ok in H as (l & s1 & E & H).
  apply gen_label_spec in E as [_ E]; [|exact Hne]. destruct (StepR_Ur _ _ _ E) as [U1 HR].
  eapply Ur_trans; [exact U1 | eapply Hf; [exact U1 | exact HR | apply U1 | exact H]].
Qed.

Ltac j_transport s HU :=
  repeat match goal with
         | HR : Rg s _ |- _ => apply (Rg_Ur _ _ _ HU) in HR
         | HR : RgO s _ |- _ => apply (RgO_Ur _ _ _ HU) in HR
         | HR : RgL s _ |- _ => apply (RgL_Ur _ _ _ HU) in HR
         | HR : RgK s _ _ |- _ => apply (RgK_Ur _ _ _ _ HU) in HR
         end.

Ltac j_side :=
  let l := fresh "l" in let Hin := fresh "Hin" in
  intros l Hin; cbn in Hin; intuition (subst; assumption).

Ltac j_pre := first [assumption | exact I | split; assumption].

Ltac j_go :=
  repeat first
    [ apply Jat_ret | apply Jat_panic | apply Jat_oof
    | match goal with
      | HR : RgL _ (Some (_, _)) |- _ => cbn [RgL] in HR; destruct HR as [? ?]
      | HR : RgO _ (Some _) |- _ => cbn [RgO] in HR
      end
    | match goal with H : _ |- Jat _ _ => solve [apply H; cbn [RgO RgL RgK]; j_pre] end
    | match goal with
      | |- Jat _ (bind _ _) => fail 1
      | |- Jat _ (match _ with _ => _ end) => fail 1
      | |- Jat _ (when _ _) => fail 1
      | |- Jat _ _ => apply Jat_of_Neu; solve [n_go]
      end
    | apply Jat_emit; solve [j_side]
    | apply Jat_emit_kid; solve [j_side]
    | apply Jat_when
    | apply Jat_bind_ret; cbv beta
    | match goal with
      | |- Jat ?s (bind (gen_label _) _) =>
          let l := fresh "l" in let s1 := fresh "s" in
          let HU := fresh "HU" in let HR := fresh "HR" in
          apply Jat_gen_label_bind; intros l s1 HU HR; j_transport s HU; clear HU
      end
    | match goal with
      | |- Jat ?s (bind _ _) =>
          let a := fresh "a" in let s1 := fresh "s" in let HU := fresh "HU" in
          apply Jat_bind; [| intros a s1 HU; j_transport s HU; clear HU]
      end
    | match goal with |- Jat _ (match ?x with _ => _ end) => destruct x end
    | progress cbv zeta ].

Section JatBody.
  Variable G : globals.
  Variable fuel : nat.
  Variable RT : sem_ty.

  Lemma Jat_if_condition_calculation s c lb le lend ie :
    Rg s lb -> Rg s le -> Rg s lend -> Jat s (if_condition_calculation G fuel c lb le lend ie).
  Proof.
    pose proof (Neu_expression G fuel). pose proof (Neu_condition_expression G fuel).
    intros Hb He Hend. unfold if_condition_calculation. destruct ie; j_go.
  Qed.

  Section Control.
    Variable IFC : ifstmt -> option string -> option (string * string) -> M unit.
    Variable LOOP : list stmt -> M unit.
    Hypothesis HIFC : forall i le ll s, RgO s le -> RgL s ll -> Jat s (IFC i le ll).
    Hypothesis HLOOP : forall b s, Jat s (LOOP b).

    Lemma Jat_nested_stmt k lend lloop fl st s :
      RgK s k lend -> RgL s lloop -> Jat s (nested_stmt G fuel RT IFC LOOP k lend lloop fl st).
    Proof.
      pose proof (Neu_expression G fuel). pose proof (Neu_let_binding G fuel).
      pose proof (Neu_binding G fuel). pose proof (Neu_call_stmt G fuel).
      pose proof (Neu_check_return_type RT).
      intros HK HL. destruct k; cbn [RgK] in HK; destruct st; cbn [nested_stmt]; j_go.
    Qed.

    Lemma Jat_run_body k lend lloop : forall ss fl s,
      RgK s k lend -> RgL s lloop -> Jat s (run_body G fuel RT IFC LOOP k lend lloop fl ss).
    Proof.
      pose proof Jat_nested_stmt. pose proof Neu_code_after_errors.
      induction ss as [|st ss IH]; intros fl s HK HL; cbn [run_body]; j_go.
    Qed.

    Lemma Jat_if_body b lend lloop s :
      Rg s lend -> RgL s lloop -> Jat s (if_body G fuel RT IFC LOOP b lend lloop).
    Proof.
      pose proof Jat_run_body as Hbody. intros Hend HL. unfold if_body.
      destruct b as [ss|ss]; [|destruct lloop as [p|]]; j_go.
    Qed.

    Lemma Jat_if_condition_step i le ll s :
      RgO s le -> RgL s ll -> Jat s (if_condition_step G fuel RT IFC LOOP i le ll).
    Proof.
      pose proof Jat_if_body as Hbody. pose proof Jat_if_condition_calculation as Hcalc.
      intros HO HL. destruct i as [c body els elif]. destruct le as [le|];
        cbn [if_condition_step]; j_go.
    Qed.

    Lemma Jat_loop_step body s : Jat s (loop_step G fuel RT IFC LOOP body).
    Proof. pose proof Jat_run_body as Hbody. unfold loop_step. j_go. Qed.
  End Control.

  Lemma Jat_control n :
    (forall i le ll s, RgO s le -> RgL s ll -> Jat s (if_condition G fuel RT n i le ll)) /\
    (forall b s, Jat s (loop_statement G fuel RT n b)).
  Proof.
    induction n as [|n [IH1 IH2]]; split; intros; cbn [if_condition loop_statement];
      try apply Jat_oof.
    - apply Jat_if_condition_step; assumption.
    - apply Jat_loop_step; assumption.
  Qed.

  Lemma Jat_fn_stmt returned st s : Jat s (fn_stmt G fuel RT returned st).
  Proof.
    pose proof (Neu_expression G fuel). pose proof (Neu_let_binding G fuel).
    pose proof (Neu_binding G fuel). pose proof (Neu_call_stmt G fuel).
    pose proof (Neu_check_type_exists G).
    destruct (Jat_control fuel) as [HI HL].
    destruct st; cbn [fn_stmt]; j_go.
  Qed.

  Lemma Jat_fn_stmts : forall ss returned s, Jat s (fn_stmts G fuel RT returned ss).
  Proof.
    pose proof Jat_fn_stmt.
    induction ss as [|st ss IH]; intros returned s; cbn [fn_stmts]; j_go.
  Qed.
End JatBody.

Lemma Jat_function_body_m G f s : Jat s (function_body_m G f).
Proof.
  pose proof (Neu_init_func_params (fn_params f)). pose proof (Jat_fn_stmts G).
  unfold function_body_m. j_go.
Qed.

Lemma Jnv_init e : Jnv (BSt [empty_block] e).
Proof. split; [discriminate|]. unfold Tg, Ctx, root, root_of. cbn. intros l []. Qed.

Lemma function_body_Jnv G errs0 f a s : function_body G errs0 f = Ok a s -> Jnv s.
Proof.
  intro H. eapply Jnv_Ur; [apply (Jnv_init errs0)|].
  eapply Jat_function_body_m; [discriminate | exact H].
Qed.

Definition targets_registered (b : block) : Prop :=
  forall i l, In i (b_ctx b) -> In l (target_labels i) -> smem l (b_labels b) = true.

Lemma bodies_targets_registered G : forall fs errs0 roots errs1 roots1,
  Forall targets_registered roots ->
  bodies G errs0 roots fs = inr (errs1, roots1) ->
  Forall targets_registered roots1.
Proof.
  induction fs as [|f fs IH]; intros errs0 roots errs1 roots1 Hroots H; cbn in H.
  - inversion H; subst. exact Hroots.
  - destruct (function_body G errs0 f) as [a s| |] eqn:E; try discriminate.
    destruct (frames s) as [|rt [|]] eqn:Ef; try discriminate.
    eapply IH; [|exact H]. apply Forall_app; split; [exact Hroots|].
    constructor; [|constructor].
    pose proof (function_body_Jnv _ _ _ _ _ E) as (_ & HJ).
    unfold Rg, Tg, Reg, Ctx, root, root_of in HJ. rewrite Ef in HJ. cbn [last] in HJ.
    intros i l Hi Hl. apply HJ. unfold targets. apply in_flat_map. exists i. split; assumption.
Qed.

(** C10, resolution (registration half): every label named by a [IJumpTo], [IIfCondExpr] or
    [IIfCondLogic] of a function's complete stack is in the root block's label registry, that
    is, it was produced by [gen_label] during the analysis of this very function. *)
Theorem run_targets_registered : forall p out,
  run p = ROk out ->
  Forall (fun root => forall i l, In i (b_ctx root) -> In l (target_labels i) ->
                                  smem l (b_labels root) = true)
         (o_fns out).
Proof.
  intros p out H. unfold run in H.
  destruct (bodies (gs_globals (declarations p)) (gs_errs (declarations p)) [] (functions_of p))
    as [r|[errors roots]] eqn:E; [exfalso; eapply bodies_inl_not_ok'; eauto|].
  inversion H; subst; clear H. cbn [o_fns].
  eapply (bodies_targets_registered _ _ _ [] _ _ (Forall_nil _) E).
Qed.

Print Assumptions run_targets_registered.
