(** C13, layer 3: the probe loops [next_inner_name] and [label_probe].

    1. String and number facts about [set_attr_counter]: after one step every probed name is
       [a ++ "." ++ dec k] with [a] free of dots; a further step increments [k]
       ([set_attr_counter_step]); the numeric suffix [sfx] grows by at most one per step.
    2. Pigeonhole: the names probed after the first step are pairwise distinct and each one that
       does not stop the loop is in the registry, so the loop stops within
       [length registry + 2] steps ([probe_terminates], [next_inner_name_terminates],
       [label_probe_terminates]).
    3. No overflow: when every registered name and the base have a suffix below a bound
       [B < 2^64] the loop never reaches [i + 1 = 2^64], and the name it returns has a suffix
       [<= B] ([probe_no_overflow], [next_inner_name_no_overflow], [label_probe_no_overflow]). *)
From Coq Require Import Lia DecimalString Decimal DecimalN.
From SA Require Import Model.
From SA.Mon Require Export C13.
Local Open Scope list_scope.
Local Open Scope string_scope.
Local Open Scope N_scope.

(** ** Strings *)
Lemma sapp_nil_r : forall s : string, s ++ "" = s.
Proof. induction s as [|c s IH]; cbn; [reflexivity | rewrite IH; reflexivity]. Qed.

Lemma sapp_assoc : forall a b c : string, (a ++ b) ++ c = a ++ (b ++ c).
Proof. induction a as [|x a IH]; intros b c; cbn; [reflexivity | rewrite IH; reflexivity]. Qed.

Lemma sapp_inj_l : forall a x y : string, a ++ x = a ++ y -> x = y.
Proof.
  induction a as [|c a IH]; intros x y H; cbn in H; [exact H|].
  inversion H. apply IH. assumption.
Qed.

Fixpoint nodot (s : string) : Prop :=
  match s with
  | EmptyString => True
  | String c r => Ascii.eqb c "."%char = false /\ nodot r
  end.

Lemma nodot_app : forall a b, nodot a -> nodot b -> nodot (a ++ b).
Proof.
  induction a as [|c a IH]; intros b Ha Hb; cbn; [exact Hb|].
  destruct Ha as [Hc Ha]. split; [exact Hc | apply IH; assumption].
Qed.

Lemma split_dot_aux_nodot : forall s cur, nodot s -> split_dot_aux cur s = [cur ++ s].
Proof.
  induction s as [|c s IH]; intros cur H; cbn [split_dot_aux].
  - rewrite sapp_nil_r. reflexivity.
  - destruct H as [Hc Hs]. rewrite Hc. rewrite (IH _ Hs), sapp_assoc. reflexivity.
Qed.

Lemma split_dot_aux_app : forall a cur r,
  nodot a -> split_dot_aux cur (a ++ String "."%char r) = (cur ++ a) :: split_dot_aux "" r.
Proof.
  induction a as [|c a IH]; intros cur r H; cbn [append split_dot_aux].
  - rewrite sapp_nil_r. reflexivity.
  - destruct H as [Hc Ha]. rewrite Hc. rewrite (IH _ _ Ha), sapp_assoc. reflexivity.
Qed.

Lemma split_dot_two a d : nodot a -> nodot d -> split_dot (a ++ "." ++ d) = [a; d].
Proof.
  intros Ha Hd. unfold split_dot. change ("." ++ d) with (String "."%char d).
  rewrite (split_dot_aux_app a "" d Ha), (split_dot_aux_nodot d "" Hd). reflexivity.
Qed.

Lemma split_dot_aux_all_nodot : forall s cur, nodot cur -> Forall nodot (split_dot_aux cur s).
Proof.
  induction s as [|c s IH]; intros cur H; cbn [split_dot_aux].
  - constructor; [exact H | constructor].
  - destruct (Ascii.eqb c "."%char) eqn:E.
    + constructor; [exact H | apply IH; exact I].
    + apply IH. apply nodot_app; [exact H | cbn; split; [exact E | exact I]].
Qed.

Lemma split_dot_all_nodot s : Forall nodot (split_dot s).
Proof. apply split_dot_aux_all_nodot. exact I. Qed.

(** ** Decimal numerals *)
Lemma string_of_uint_nodot : forall u, nodot (NilEmpty.string_of_uint u).
Proof. induction u; cbn; try exact I; (split; [reflexivity | assumption]). Qed.

Lemma dec_nodot k : nodot (dec k).
Proof. apply string_of_uint_nodot. Qed.

Lemma dec_inj a b : dec a = dec b -> a = b.
Proof.
  unfold dec. intro H. apply (f_equal NilEmpty.uint_of_string) in H.
  rewrite !NilEmpty.usu in H. inversion H as [H'].
  apply (f_equal N.of_uint) in H'. rewrite !Unsigned.of_to in H'. exact H'.
Qed.

Lemma parse_string_of_uint u :
  parse_u64_or_0 (NilEmpty.string_of_uint u) =
  if N.of_uint u <? two64 then N.of_uint u else 0.
Proof.
  unfold parse_u64_or_0.
  assert (Hs : match NilEmpty.string_of_uint u with
               | String "+" r => r
               | _ => NilEmpty.string_of_uint u
               end = NilEmpty.string_of_uint u) by (destruct u; reflexivity).
  cbv zeta. rewrite Hs.
  destruct (NilEmpty.string_of_uint u) eqn:Es.
  - destruct u; try discriminate Es. reflexivity.
  - rewrite <- Es, NilEmpty.usu. reflexivity.
Qed.

Lemma parse_dec k : k < two64 -> parse_u64_or_0 (dec k) = k.
Proof.
  intro H. unfold dec. rewrite parse_string_of_uint, Unsigned.of_to.
  apply N.ltb_lt in H. rewrite H. reflexivity.
Qed.

(** ** One probe step *)
(** [sfx n] ([Mon/C13.v]): the number a step reads; [nxt n]: the number it writes *)
Definition nxt (n : string) : N :=
  match split_dot n with [_; b] => parse_u64_or_0 b + 1 | _ => 0 end.
Definition stem (n : string) : string :=
  match split_dot n with a :: _ => a | [] => "" end.

Lemma set_attr_counter_eq n :
  set_attr_counter n = if nxt n <? two64 then Some (stem n ++ "." ++ dec (nxt n)) else None.
Proof.
  unfold set_attr_counter, nxt, stem.
  destruct (split_dot n) as [|a [|b [|c l]]]; reflexivity.
Qed.

Lemma stem_nodot n : nodot (stem n).
Proof.
  unfold stem. pose proof (split_dot_all_nodot n) as H.
  destruct (split_dot n); [exact I | inversion H; assumption].
Qed.

Lemma nxt_le n : nxt n <= sfx n + 1.
Proof. unfold nxt, sfx. destruct (split_dot n) as [|a [|b [|c l]]]; lia. Qed.

Lemma sfx_form a k : nodot a -> k < two64 -> sfx (a ++ "." ++ dec k) = k.
Proof.
  intros Ha Hk. unfold sfx. rewrite (split_dot_two a (dec k) Ha (dec_nodot k)).
  apply parse_dec, Hk.
Qed.

Lemma stem_form a d : nodot a -> nodot d -> stem (a ++ "." ++ d) = a.
Proof. intros Ha Hd. unfold stem. rewrite (split_dot_two a d Ha Hd). reflexivity. Qed.

(** the increment on names that were produced by a step *)
Theorem set_attr_counter_step a k :
  nodot a -> k + 1 < two64 ->
  set_attr_counter (a ++ "." ++ dec k) = Some (a ++ "." ++ dec (k + 1)).
Proof.
  intros Ha Hk. rewrite set_attr_counter_eq.
  assert (Hn : nxt (a ++ "." ++ dec k) = k + 1).
  { unfold nxt. rewrite (split_dot_two a (dec k) Ha (dec_nodot k)), parse_dec by lia. reflexivity. }
  rewrite Hn, (stem_form a (dec k) Ha (dec_nodot k)).
  apply N.ltb_lt in Hk. rewrite Hk. reflexivity.
Qed.

(** every step produces a name of that form, with a suffix at most one more *)
Lemma set_attr_counter_some n n' :
  set_attr_counter n = Some n' ->
  exists a k, nodot a /\ k < two64 /\ k <= sfx n + 1 /\ n' = a ++ "." ++ dec k.
Proof.
  rewrite set_attr_counter_eq. destruct (nxt n <? two64) eqn:E; [|discriminate].
  intro H. inversion H; subst n'. apply N.ltb_lt in E.
  exists (stem n), (nxt n). repeat split; [apply stem_nodot | exact E | apply nxt_le].
Qed.

Lemma set_attr_counter_none n : set_attr_counter n = None -> two64 <= sfx n + 1.
Proof.
  rewrite set_attr_counter_eq. destruct (nxt n <? two64) eqn:E; [discriminate|].
  intros _. apply N.ltb_ge in E. pose proof (nxt_le n). lia.
Qed.

(** ** The loop, abstracted from the registry it reads *)
Inductive probe_result := PrFound (n : string) | PrOverflow | PrOutOfFuel.

Fixpoint probe (ex : string -> bool) (fuel : nat) (n : string) : probe_result :=
  match fuel with
  | O => PrOutOfFuel
  | S f =>
      match set_attr_counter n with
      | None => PrOverflow
      | Some n' => if ex n' then probe ex f n' else PrFound n'
      end
  end.

Lemma next_inner_name_probe : forall fuel n s,
  next_inner_name fuel n s =
  match probe (fun x => inner_exists x (frames s)) fuel n with
  | PrFound r => Ok r s
  | PrOverflow => Panic PSuffixOverflow
  | PrOutOfFuel => OutOfFuel
  end.
Proof.
  induction fuel as [|f IH]; intros n s; cbn [next_inner_name probe]; [reflexivity|].
  destruct (set_attr_counter n) as [n'|]; [|reflexivity].
  destruct (inner_exists n' (frames s)); [apply IH | reflexivity].
Qed.

Lemma label_probe_probe : forall fuel n s,
  label_probe fuel n s =
  match probe (fun x => label_exists x (frames s)) fuel n with
  | PrFound r => Ok r (BSt (map (add_label r) (frames s)) (errs s))
  | PrOverflow => Panic PSuffixOverflow
  | PrOutOfFuel => OutOfFuel
  end.
Proof.
  induction fuel as [|f IH]; intros n s; cbn [label_probe probe]; [reflexivity|].
  destruct (set_attr_counter n) as [n'|]; [|reflexivity].
  destruct (label_exists n' (frames s)); [apply IH | reflexivity].
Qed.

(** the result is free *)
Lemma probe_found ex : forall fuel n r, probe ex fuel n = PrFound r -> ex r = false.
Proof.
  induction fuel as [|f IH]; intros n r H; cbn [probe] in H; [discriminate|].
  destruct (set_attr_counter n) as [n'|]; [|discriminate].
  destruct (ex n') eqn:E; [eapply IH; exact H|]. inversion H; subst; exact E.
Qed.

(** ** Pigeonhole *)
Lemma probe_pigeon ex reg a :
  nodot a -> (forall x, ex x = true -> In x reg) ->
  forall fuel k seen,
    k < two64 ->
    NoDup seen -> incl seen reg ->
    (forall x, In x seen -> exists j, j <= k /\ x = a ++ "." ++ dec j) ->
    (length reg < fuel + length seen)%nat ->
    probe ex fuel (a ++ "." ++ dec k) <> PrOutOfFuel.
Proof.
  intros Ha Hex. induction fuel as [|f IH]; intros k seen Hk Hnd Hincl Hform Hlen.
  - exfalso. pose proof (NoDup_incl_length Hnd Hincl). lia.
  - cbn [probe]. destruct (N.ltb_spec (k + 1) two64) as [Hk1|Hk1].
    + rewrite (set_attr_counter_step a k Ha Hk1).
      destruct (ex (a ++ "." ++ dec (k + 1))) eqn:E; [|discriminate].
      apply (IH (k + 1) ((a ++ "." ++ dec (k + 1)) :: seen)); [exact Hk1 | | | |].
      * constructor; [|exact Hnd]. intro Hin. destruct (Hform _ Hin) as (j & Hj & Ej).
        apply sapp_inj_l in Ej. apply (sapp_inj_l ".") in Ej. apply dec_inj in Ej. lia.
      * intros x [<-|Hx]; [apply Hex, E | apply Hincl, Hx].
      * intros x [<-|Hx]; [exists (k + 1); split; [lia | reflexivity]|].
        destruct (Hform x Hx) as (j & Hj & Ej). exists j. split; [lia | exact Ej].
      * cbn [length]. lia.
    + assert (Hnone : set_attr_counter (a ++ "." ++ dec k) = None).
      { rewrite set_attr_counter_eq.
        assert (Hn : nxt (a ++ "." ++ dec k) = k + 1).
        { unfold nxt. rewrite (split_dot_two a (dec k) Ha (dec_nodot k)), parse_dec by lia.
          reflexivity. }
        rewrite Hn. apply N.ltb_ge in Hk1. rewrite Hk1. reflexivity. }
      rewrite Hnone. discriminate.
Qed.

Theorem probe_terminates ex reg fuel n :
  (forall x, ex x = true -> In x reg) ->
  (length reg + 2 <= fuel)%nat ->
  probe ex fuel n <> PrOutOfFuel.
Proof.
  intros Hex Hlen. destruct fuel as [|f]; [lia|]. cbn [probe].
  destruct (set_attr_counter n) as [n'|] eqn:E; [|discriminate].
  destruct (ex n') eqn:En; [|discriminate].
  apply set_attr_counter_some in E as (a & k & Ha & Hk & _ & ->).
  apply (probe_pigeon ex reg a Ha Hex f k [a ++ "." ++ dec k]); [exact Hk | | | |].
  - constructor; [intros [] | constructor].
  - intros x [<-|[]]. apply Hex, En.
  - intros x [<-|[]]. exists k. split; [lia | reflexivity].
  - cbn [length]. lia.
Qed.

Lemma smem_In k l : smem k l = true -> In k l.
Proof.
  induction l as [|x l IH]; cbn; [discriminate|].
  destruct (String.eqb k x) eqn:E; [apply String.eqb_eq in E; left; symmetry; exact E|].
  intro H; right; apply IH, H.
Qed.

Lemma inner_exists_In n fs : inner_exists n fs = true -> In n (concat (map b_inner fs)).
Proof.
  unfold inner_exists. induction fs as [|b fs IH]; cbn; [discriminate|].
  destruct (smem n (b_inner b)) eqn:E; cbn.
  - intros _. apply in_or_app. left. apply smem_In, E.
  - intro H. apply in_or_app. right. apply IH, H.
Qed.

Lemma label_exists_In n fs : label_exists n fs = true -> In n (concat (map b_labels fs)).
Proof.
  unfold label_exists. induction fs as [|b fs IH]; cbn; [discriminate|].
  destruct (smem n (b_labels b)) eqn:E; cbn.
  - intros _. apply in_or_app. left. apply smem_In, E.
  - intro H. apply in_or_app. right. apply IH, H.
Qed.

(** the fuel the model gives to its two probe loops is enough, from every base and in every state *)
Theorem next_inner_name_terminates n s :
  next_inner_name (inner_probe_fuel (frames s)) n s <> OutOfFuel.
Proof.
  rewrite next_inner_name_probe.
  pose proof (probe_terminates (fun x => inner_exists x (frames s)) (concat (map b_inner (frames s)))
                (inner_probe_fuel (frames s)) n (fun x => inner_exists_In x (frames s))) as H.
  destruct (probe _ _ n); try discriminate. exfalso. apply H; [|reflexivity].
  unfold inner_probe_fuel. lia.
Qed.

Theorem label_probe_terminates n s :
  label_probe (label_probe_fuel (frames s)) n s <> OutOfFuel.
Proof.
  rewrite label_probe_probe.
  pose proof (probe_terminates (fun x => label_exists x (frames s)) (concat (map b_labels (frames s)))
                (label_probe_fuel (frames s)) n (fun x => label_exists_In x (frames s))) as H.
  destruct (probe _ _ n); try discriminate. exfalso. apply H; [|reflexivity].
  unfold label_probe_fuel. lia.
Qed.

(** ** No overflow below a bound on the suffixes *)
Theorem probe_no_overflow ex B :
  B < two64 -> (forall x, ex x = true -> sfx x < B) ->
  forall fuel n, sfx n < B ->
    match probe ex fuel n with
    | PrFound r => sfx r <= B /\ ex r = false
    | PrOverflow => False
    | PrOutOfFuel => True
    end.
Proof.
  intros HB Hex. induction fuel as [|f IH]; intros n Hn; cbn [probe]; [exact I|].
  destruct (set_attr_counter n) as [n'|] eqn:E.
  - pose proof E as E'. apply set_attr_counter_some in E' as (a & k & Ha & Hk & Hle & ->).
    destruct (ex (a ++ "." ++ dec k)) eqn:Ex.
    + apply IH. apply Hex, Ex.
    + rewrite (sfx_form a k Ha Hk). split; [lia | first [exact Ex | reflexivity]].
  - apply set_attr_counter_none in E. lia.
Qed.

Theorem next_inner_name_no_overflow B fuel n s :
  B < two64 -> sfx n < B ->
  (forall x, inner_exists x (frames s) = true -> sfx x < B) ->
  match next_inner_name fuel n s with
  | Ok r s' => s' = s /\ sfx r <= B /\ inner_exists r (frames s) = false
  | Panic _ => False
  | OutOfFuel => True
  end.
Proof.
  intros HB Hn Hex. rewrite next_inner_name_probe.
  pose proof (probe_no_overflow _ B HB Hex fuel n Hn) as H.
  destruct (probe _ fuel n); [|exact H|exact I]. destruct H as [H1 H2]. repeat split; assumption.
Qed.

Theorem label_probe_no_overflow B fuel n s :
  B < two64 -> sfx n < B ->
  (forall x, label_exists x (frames s) = true -> sfx x < B) ->
  match label_probe fuel n s with
  | Ok r s' => s' = BSt (map (add_label r) (frames s)) (errs s) /\ sfx r <= B
  | Panic _ => False
  | OutOfFuel => True
  end.
Proof.
  intros HB Hn Hex. rewrite label_probe_probe.
  pose proof (probe_no_overflow _ B HB Hex fuel n Hn) as H.
  destruct (probe _ fuel n); [|exact H|exact I]. destruct H as [H1 H2]. split; [reflexivity | exact H1].
Qed.

Print Assumptions set_attr_counter_step.
Print Assumptions next_inner_name_terminates.
Print Assumptions label_probe_terminates.
Print Assumptions next_inner_name_no_overflow.
Print Assumptions label_probe_no_overflow.
