(** The C08 monitor decides exactly the C08 statement: a Prop-level reading of [Mon/C08.v].

    With [q = false]: every register read by an instruction is the result register of an
    earlier instruction of the same stack.  With [q = true] the recorded finding F7 is allowed:
    the register may instead be the one after the result register of an earlier [Call] or
    [ExpressionStructValue]. *)
From Coq Require Import Lia.
From SA Require Import Model.
From SA.Spec Require Import Stack.
From SA.Mon Require Import C08.
From SA.Proofs Require Import DefUse.
Local Open Scope list_scope.

Definition f7_witness (pre : list instr) (n : N) : Prop :=
  n <> 0 /\ exists j, In j pre /\ def_reg j = Some (n - 1) /\ is_call_or_field j = true.

Definition read_ok (q : bool) (pre : list instr) (n : N) : Prop :=
  In n (defs pre) \/ (q = true /\ f7_witness pre n).

Definition C08_stack (q : bool) (c : list instr) : Prop :=
  forall pre i post n, c = pre ++ i :: post -> In n (use_regs i) -> read_ok q pre n.

Lemma in_seen_from x : forall c sn,
  In x (seen_from sn c) <->
  In x sn \/ exists j, In j c /\ def_reg j = Some (fst x) /\ is_call_or_field j = snd x.
Proof.
  induction c as [|i c IH]; intro sn; cbn [seen_from fold_left].
  - split; [left; assumption | intros [H|(j & [] & _)]; exact H].
  - change (fold_left upd c (upd sn i)) with (seen_from (upd sn i) c). rewrite IH. split.
    + intros [H|(j & Hj & Hd)].
      * unfold upd in H. destruct (def_reg i) as [r|] eqn:Ed; [|left; exact H].
        destruct H as [<-|H]; [|left; exact H].
        right. exists i. split; [left; reflexivity | split; [exact Ed | reflexivity]].
      * right. exists j. split; [right; exact Hj | exact Hd].
    + intros [H|(j & [<-|Hj] & Hd & Hc)].
      * left. apply incl_upd, H.
      * left. unfold upd. rewrite Hd. left. destruct x; cbn in *. rewrite Hc. reflexivity.
      * right. exists j. split; [exact Hj | split; assumption].
Qed.

Lemma in_seen_of pre n b :
  In (n, b) (seen_of pre) <->
  exists j, In j pre /\ def_reg j = Some n /\ is_call_or_field j = b.
Proof.
  unfold seen_of. rewrite in_seen_from. cbn [fst snd]. split; [intros [[]|H]; exact H | right; assumption].
Qed.

Lemma in_defs pre n : In n (defs pre) <-> exists j, In j pre /\ def_reg j = Some n.
Proof.
  unfold defs. rewrite in_flat_map. split; intros (j & Hj & H); exists j; (split; [exact Hj|]).
  - destruct (def_reg j) as [r|]; [destruct H as [<-|[]]; reflexivity | destruct H].
  - rewrite H. left. reflexivity.
Qed.

Lemma written_spec pre n : written n (seen_of pre) = true <-> In n (defs pre).
Proof.
  rewrite written_in, in_defs. split.
  - intros (b & H). apply in_seen_of in H as (j & Hj & Hd & _). exists j. split; assumption.
  - intros (j & Hj & Hd). exists (is_call_or_field j). apply in_seen_of. exists j. repeat split; assumption.
Qed.

Lemma reg_ok_spec q pre n : reg_ok q (seen_of pre) n = true <-> read_ok q pre n.
Proof.
  unfold reg_ok, read_ok, f7_witness.
  rewrite Bool.orb_true_iff, !Bool.andb_true_iff, written_spec, written_by_f7_in, in_seen_of,
    Bool.negb_true_iff, N.eqb_neq.
  split; (intros [H|H]; [left; exact H | right]).
  - destruct H as [[Hq Hn] Hj]. split; [exact Hq | split; [exact Hn | exact Hj]].
  - destruct H as [Hq [Hn Hj]]. split; [split; [exact Hq | exact Hn] | exact Hj].
Qed.

Lemma scan_spec q : forall c sn,
  scan q sn c = true <->
  forall pre i post n, c = pre ++ i :: post -> In n (use_regs i) ->
                       reg_ok q (seen_from sn pre) n = true.
Proof.
  induction c as [|i0 c IH]; intro sn.
  - split; [|reflexivity]. intros _ pre i post n H. destruct pre; discriminate.
  - rewrite scan_cons, Bool.andb_true_iff, forallb_forall, IH. split.
    + intros [H0 Hc] pre i post n Heq Hn. destruct pre as [|j pre]; cbn [app] in Heq.
      * inversion Heq; subst. apply H0, Hn.
      * inversion Heq; subst. apply (Hc pre i post n eq_refl Hn).
    + intro H. split.
      * intros n Hn. apply (H [] i0 c n eq_refl Hn).
      * intros pre i post n Heq Hn. subst c. apply (H (i0 :: pre) i post n eq_refl Hn).
Qed.

Theorem chk_C08_root_spec q b : chk_C08_root q b = true <-> C08_stack q (b_ctx b).
Proof.
  unfold chk_C08_root, C08_stack. rewrite scan_spec.
  split; intros H pre i post n Heq Hn.
  - apply reg_ok_spec. exact (H pre i post n Heq Hn).
  - apply (reg_ok_spec q pre n). exact (H pre i post n Heq Hn).
Qed.

Theorem chk_C08_spec q o : chk_C08 q o = true <-> Forall (fun b => C08_stack q (b_ctx b)) (o_fns o).
Proof.
  unfold chk_C08. rewrite forallb_forall, Forall_forall.
  split; intros H b Hb; apply chk_C08_root_spec, H, Hb.
Qed.

(** the reading spelled out, as required by the statement file *)
Theorem chk_C08_root_reading q b :
  chk_C08_root q b = true <->
  forall pre i post n, b_ctx b = pre ++ i :: post -> In n (use_regs i) ->
    (In n (defs pre) \/
     (q = true /\ n <> 0 /\
      exists j, In j pre /\ def_reg j = Some (n - 1) /\ is_call_or_field j = true)).
Proof. exact (chk_C08_root_spec q b). Qed.

Print Assumptions chk_C08_root_reading.
