(** The C12 monitor decides exactly the C12 statement. *)
From SA Require Import Model.
From SA.Spec Require Import Stack Tables.
From SA.Mon Require Import C12.
From SA.Proofs Require Import Trace InvNames.
Local Open Scope list_scope.

Lemma value_eqb_eq a b : value_eqb a b = true <-> a = b.
Proof.
  destruct a as [n t m], b as [n' t' m']. unfold value_eqb. cbn.
  rewrite !Bool.andb_true_iff, String.eqb_eq, sem_ty_eqb_eq, Bool.eqb_true_iff. split.
  - intros [[H1 H2] H3]; subst; reflexivity.
  - intro H; inversion H; repeat split; reflexivity.
Qed.

Lemma smem_in n l : smem n l = true <-> In n l.
Proof.
  induction l as [|a l IH]; cbn; [split; [discriminate | contradiction]|].
  destruct (String.eqb n a) eqn:E.
  - apply String.eqb_eq in E. subst. split; [left; reflexivity | reflexivity].
  - rewrite IH. split; [right; assumption|]. intros [H|H]; [|exact H].
    subst. rewrite String.eqb_refl in E. discriminate.
Qed.

Lemma nodup_strings_spec l : nodup_strings l = true <-> NoDup l.
Proof.
  induction l as [|a l IH]; cbn; [split; [constructor | reflexivity]|].
  rewrite Bool.andb_true_iff, Bool.negb_true_iff, IH. split.
  - intros [Hn Hd]. constructor; [|exact Hd]. intro Hin. apply smem_in in Hin. congruence.
  - intro H. inversion H as [|? ? Hn Hd]; subst. split; [|exact Hd].
    destruct (smem a l) eqn:E; [apply smem_in in E; contradiction | reflexivity].
Qed.

Lemma chk_C12_root_spec b : chk_C12_root b = true <-> C12_root b.
Proof.
  unfold chk_C12_root, C12_root. rewrite Bool.andb_true_iff, nodup_strings_spec, forallb_forall.
  split; intros [Hn Hr]; (split; [exact Hn|]); intros v Hv.
  - specialize (Hr v Hv). apply existsb_exists in Hr as (w & Hw & He).
    apply value_eqb_eq in He. subst. exact Hw.
  - apply existsb_exists. exists v. split; [apply Hr, Hv | apply value_eqb_eq; reflexivity].
Qed.

Lemma chk_C12_spec o : chk_C12 o = true <-> Forall C12_root (o_fns o).
Proof.
  unfold chk_C12. rewrite forallb_forall, Forall_forall.
  split; intros H b Hb; apply chk_C12_root_spec, H, Hb.
Qed.
