(** Family T2 (simulation), part 1: the abstraction of a model state to the specification's
    scopes, what every primitive of the body-phase monad does to it, and the simulation of
    [Model.expression] by [FirstViolation.check_expr].

    Shape of every simulation lemma: a successful model run [m s = Ok a s'] that starts without
    errors ([errs s = []]) in a state whose scopes are [scs] ([sc s = scs]) is matched against
    the outcome [c] of the specification's counterpart on [scs]:
    - [c = Pass r]  : still no errors, the result is related to [r], the scopes are what the
                      specification says;
    - [c = Fail v]  : the error list now starts with an error that matches [v] ([fails v s']);
    - [c = Stuck]   : impossible (the model panics or runs out of fuel there).
    Because the model only appends to the error list ([fails_reach]), whatever it does after
    the first error is irrelevant. *)
From Coq Require Import Lia.
From SA Require Import Model.
From SA.Spec Require Import FirstViolation.
From SA.Proofs Require Import Reach Trace VerdictMon.
Local Open Scope list_scope.

(** ** The abstraction *)
Definition sc_of_value (v : value) : sem_ty * bool := (v_ty v, v_mut v).
Definition scope_of (b : block) : scope :=
  map (fun kv => (fst kv, sc_of_value (snd kv))) (b_values b).
Definition scopes_of (fs : list block) : scopes := map scope_of fs.
Definition sc (s : bst) : scopes := scopes_of (frames s).

(** the same, as the task statement spells it *)
Lemma scopes_of_unfold fs :
  scopes_of fs =
  map (fun b => map (fun kv => (fst kv, (v_ty (snd kv), v_mut (snd kv)))) (b_values b)) fs.
Proof. reflexivity. Qed.

Section AssocMap.
  Context {V W : Type}.
  Variable f : V -> W.
  Let mf (l : list (string * V)) := map (fun kv => (fst kv, f (snd kv))) l.

  Lemma alookup_map k l : alookup k (mf l) = option_map f (alookup k l).
  Proof.
    induction l as [|[k' v] l IH]; cbn; [reflexivity|].
    destruct (String.eqb k k'); [reflexivity | exact IH].
  Qed.

  Lemma amem_map k l : amem k (mf l) = amem k l.
  Proof. unfold amem. rewrite alookup_map. destruct (alookup k l); reflexivity. Qed.

  Lemma ainsert_map k v l : mf (ainsert k v l) = ainsert k (f v) (mf l).
  Proof.
    unfold mf. induction l as [|[k' v'] l IH]; cbn; [reflexivity|].
    destruct (String.eqb k k'); cbn; [reflexivity | f_equal; exact IH].
  Qed.
End AssocMap.

Lemma lookup_scopes_of x fs :
  lookup_scopes x (scopes_of fs) = option_map sc_of_value (lookup_frames x fs).
Proof.
  induction fs as [|b r IH]; cbn; [reflexivity|].
  unfold scope_of. rewrite alookup_map.
  destruct (alookup x (b_values b)); cbn; [reflexivity | exact IH].
Qed.

Lemma scopes_of_map g fs :
  (forall b, b_values (g b) = b_values b) -> scopes_of (map g fs) = scopes_of fs.
Proof.
  intro H. unfold scopes_of. rewrite map_map. apply map_ext. intro b.
  unfold scope_of. rewrite H. reflexivity.
Qed.

Lemma tl_declare x t m G : tl (declare x t m G) = tl G.
Proof. destruct G; reflexivity. Qed.

(** ** What the primitives do to (scopes, errors) *)
Definition neutral {A} (m : M A) : Prop :=
  forall s a s', m s = Ok a s' -> sc s' = sc s /\ errs s' = errs s.

Lemma bind_ok {A B} (m : M A) (f : A -> M B) s b s' :
  bind m f s = Ok b s' -> exists a s1, m s = Ok a s1 /\ f a s1 = Ok b s'.
Proof.
  unfold bind. intro H. destruct (m s) as [a s1| |]; try discriminate.
  exists a, s1. split; [reflexivity | exact H].
Qed.

Lemma ret_A {A} (a b : A) s s' : ret a s = Ok b s' -> b = a /\ s' = s.
Proof. unfold ret. intro H. inversion H. split; reflexivity. Qed.
Lemma gets_A {A} (f : list block -> A) a s s' : gets f s = Ok a s' -> a = f (frames s) /\ s' = s.
Proof. unfold gets. intro H. inversion H. split; reflexivity. Qed.
Lemma panic_A {A} k s (a : A) s' : panic k s = Ok a s' -> False.
Proof. discriminate. Qed.
Lemma oof_A {A} s (a : A) s' : out_of_fuel s = Ok a s' -> False.
Proof. discriminate. Qed.

Lemma neutral_ret {A} (a : A) : neutral (ret a).
Proof. intros s b s' H. apply ret_A in H as [_ ->]. split; reflexivity. Qed.
Lemma neutral_gets {A} (f : list block -> A) : neutral (gets f).
Proof. intros s b s' H. apply gets_A in H as [_ ->]. split; reflexivity. Qed.
Lemma neutral_panic {A} k : neutral (@panic A k).
Proof. intros s b s' H. discriminate H. Qed.
Lemma neutral_oof {A} : neutral (@out_of_fuel A).
Proof. intros s b s' H. discriminate H. Qed.
Lemma neutral_bind {A B} (m : M A) (f : A -> M B) :
  neutral m -> (forall a, neutral (f a)) -> neutral (bind m f).
Proof.
  intros Hm Hf s b s' H. apply bind_ok in H as (a & s1 & E & H).
  apply Hm in E as [E1 E2]. apply Hf in H as [H1 H2]. split; congruence.
Qed.
Lemma neutral_when b m : neutral m -> neutral (when b m).
Proof. intro H. destruct b; [exact H | apply neutral_ret]. Qed.

Lemma neutral_alloc_emit mk : neutral (alloc_emit mk).
Proof.
  intros s a s' H. apply alloc_emit_eq in H as [-> _]. split; [|reflexivity].
  unfold sc, st_alloc, st_emit, st_inc. cbn [frames].
  rewrite !scopes_of_map by reflexivity. reflexivity.
Qed.
Lemma neutral_bump : neutral bump.
Proof.
  intros s a s' H. apply bump_eq in H as [-> _]. split; [|reflexivity].
  unfold sc, st_inc. cbn [frames]. rewrite scopes_of_map by reflexivity. reflexivity.
Qed.
Lemma neutral_emit i : neutral (emit i).
Proof.
  intros s a s' H. apply emit_eq in H as ->. split; [|reflexivity].
  unfold sc, st_emit. cbn [frames]. rewrite scopes_of_map by reflexivity. reflexivity.
Qed.
Lemma neutral_set_inner_name n : neutral (set_inner_name n).
Proof.
  intros s a s' H. apply set_inner_name_eq in H as ->. split; [|reflexivity].
  unfold sc, st_inner. cbn [frames]. rewrite scopes_of_map by reflexivity. reflexivity.
Qed.
Lemma neutral_set_label_name n : neutral (set_label_name n).
Proof.
  intros s a s' H. apply set_label_name_eq in H as ->. split; [|reflexivity].
  unfold sc, st_label. cbn [frames]. rewrite scopes_of_map by reflexivity. reflexivity.
Qed.
Lemma neutral_set_return : neutral set_return.
Proof.
  intros s a s' H. apply set_return_eq in H as ->. split; [|reflexivity].
  unfold sc, st_return. cbn [frames]. rewrite scopes_of_map by reflexivity. reflexivity.
Qed.
Lemma neutral_emit_kid k i : neutral (emit_kid k i).
Proof.
  intros s a s' H. apply emit_kid_eq in H as ->. split; [|reflexivity].
  unfold sc, st_emit, st_kid. cbn [frames]. rewrite scopes_of_map by reflexivity.
  destruct (frames s) as [|p r]; reflexivity.
Qed.
Lemma neutral_next_inner_name fuel n : neutral (next_inner_name fuel n).
Proof. intros s a s' H. apply next_inner_name_pure in H as ->. split; reflexivity. Qed.
Lemma neutral_label_probe fuel : forall n, neutral (label_probe fuel n).
Proof.
  induction fuel as [|f IH]; intros n s a s' H; cbn in H; [discriminate|].
  destruct (set_attr_counter n) as [n'|]; [|discriminate].
  destruct (label_exists n' (frames s)); [eapply IH; exact H|].
  revert H. apply (neutral_bind (set_label_name n') (fun _ => ret n')).
  - apply neutral_set_label_name.
  - intros _. apply neutral_ret.
Qed.

Ltac neutral_go :=
  repeat first
    [ apply neutral_ret | apply neutral_gets | apply neutral_panic | apply neutral_oof
    | apply neutral_alloc_emit | apply neutral_bump | apply neutral_emit
    | apply neutral_set_inner_name | apply neutral_set_label_name | apply neutral_set_return
    | apply neutral_emit_kid | apply neutral_next_inner_name | apply neutral_label_probe
    | match goal with H : _ |- neutral _ => solve [apply H] end
    | apply neutral_when
    | apply neutral_bind; [| intro]
    | match goal with |- neutral (match ?x with _ => _ end) => destruct x end
    | match goal with |- neutral (if ?b then _ else _) => destruct b end
    | progress cbv zeta ].

Lemma neutral_gen_label base : neutral (gen_label base).
Proof. unfold gen_label. neutral_go. Qed.

Lemma add_error_A e s a s' : add_error e s = Ok a s' -> sc s' = sc s /\ errs s' = errs s ++ [e].
Proof. intro H. apply add_error_eq in H as ->. split; reflexivity. Qed.

Lemma scope_of_new_child fs : scope_of (new_child fs) = [].
Proof. destruct fs; reflexivity. Qed.

Lemma push_child_A s a s' : push_child s = Ok a s' -> sc s' = [] :: sc s /\ errs s' = errs s.
Proof.
  intro H. apply push_child_eq in H as ->. split; [|reflexivity].
  unfold sc, st_push. cbn [frames scopes_of map]. rewrite scope_of_new_child. reflexivity.
Qed.

Lemma pop_child_A s k s' : pop_child s = Ok k s' -> sc s' = tl (sc s) /\ errs s' = errs s.
Proof.
  intro H. apply pop_child_eq in H as (c & p & r & Hf & -> & _). split; [|reflexivity].
  unfold sc. rewrite Hf. reflexivity.
Qed.

Lemma insert_value_A x v s a s' :
  insert_value x v s = Ok a s' ->
  sc s' = declare x (v_ty v) (v_mut v) (sc s) /\ errs s' = errs s.
Proof.
  intro H. apply insert_value_eq in H as ->. split; [|reflexivity].
  unfold sc, st_value. cbn [frames]. destruct (frames s) as [|b r]; [reflexivity|].
  cbn [scopes_of map declare]. f_equal. unfold scope_of, set_value. cbn [b_values].
  apply (ainsert_map sc_of_value).
Qed.

(** ** The error list is only appended to *)
Lemma step_errs s s' : step s s' -> exists more, errs s' = errs s ++ more.
Proof.
  assert (HN : forall s s' A (m : M A) a, neutral m -> m s = Ok a s' ->
                 exists more, errs s' = errs s ++ more).
  { intros s0 s0' A m a Hn Hm. apply Hn in Hm as [_ ->]. exists []. rewrite app_nil_r.
    reflexivity. }
  intro H. destruct H.
  - eapply HN; [apply neutral_alloc_emit | eassumption].
  - eapply HN; [apply neutral_bump | eassumption].
  - eapply HN; [apply neutral_emit | eassumption].
  - eapply HN; [apply neutral_set_inner_name | eassumption].
  - eapply HN; [apply neutral_set_label_name | eassumption].
  - eapply HN; [apply neutral_set_return | eassumption].
  - match goal with H : insert_value _ _ _ = _ |- _ => apply insert_value_A in H as [_ ->] end.
    exists []. rewrite app_nil_r. reflexivity.
  - match goal with H : add_error _ _ = _ |- _ => apply add_error_A in H as [_ ->] end.
    eexists. reflexivity.
  - match goal with H : push_child _ = _ |- _ => apply push_child_A in H as [_ ->] end.
    exists []. rewrite app_nil_r. reflexivity.
  - match goal with H : pop_child _ = _ |- _ => apply pop_child_A in H as [_ ->] end.
    exists []. rewrite app_nil_r. reflexivity.
  - eapply HN; [apply neutral_emit_kid | eassumption].
Qed.

Lemma reach_errs s s' : reach s s' -> exists more, errs s' = errs s ++ more.
Proof.
  induction 1 as [s | s1 s2 s3 _ [m1 IH] Hs].
  - exists []. rewrite app_nil_r. reflexivity.
  - apply step_errs in Hs as [m2 Hs]. exists (m1 ++ m2). rewrite Hs, IH, app_assoc. reflexivity.
Qed.

(** ** The first error matches the violation *)
Definition fails (v : viol) (s : bst) : Prop :=
  exists e rest, errs s = e :: rest /\ viol_matches v e.

Lemma fails_reach v s s' : reach s s' -> fails v s -> fails v s'.
Proof.
  intros Hr (e & rest & He & Hv). apply reach_errs in Hr as [more Hm].
  exists e, (rest ++ more). split; [|exact Hv]. rewrite Hm, He. reflexivity.
Qed.

Lemma fails_intro v e rest s : errs s = e :: rest -> viol_matches v e -> fails v s.
Proof. intros H1 H2. exists e, rest. split; assumption. Qed.

Lemma vm_same k v l : viol_matches (Viol k v l) (Err k v l).
Proof. split; [reflexivity | split; [reflexivity | intros s H; exact H]]. Qed.
Lemma vm_none k v l : viol_matches (Viol k None l) (Err k v l).
Proof. split; [reflexivity | split; [reflexivity | intros s H; discriminate H]]. Qed.

(** a freshly added error in an error-free state *)
Lemma fails_add_error k v l s a s' :
  add_error (Err k v l) s = Ok a s' -> errs s = [] -> fails (Viol k v l) s'.
Proof.
  intros H He. apply add_error_A in H as [_ H]. rewrite He in H.
  eapply fails_intro; [exact H | apply vm_same].
Qed.

(** ** Tables *)
Definition sig_of_func (fd : func_sem) : list sem_ty * sem_ty := (f_params fd, f_ty fd).
Definition tables_of (G : globals) : tables :=
  Tables (g_types G)
         (map (fun kv => (fst kv, c_ty (snd kv))) (g_consts G))
         (map (fun kv => (fst kv, sig_of_func (snd kv))) (g_funcs G)).

(** ** Tactics for forward symbolic execution of the model *)

(** the conclusion [fails v s'] from a failure in an earlier state and a remaining run *)
Ltac mono_fin H HX :=
  first
    [ exact HX
    | eapply fails_reach; [|exact HX];
      match type of H with
      | ?m ?s = Ok _ _ =>
          let HR := fresh "HR" in
          assert (HR : R m) by r_go; exact (HR _ _ _ H)
      end ].

(** split [H : bind m f s = Ok b s'] *)
Ltac msplit H a s1 E :=
  apply bind_ok in H; destruct H as (a & s1 & E & H); cbv beta in H.

(** [E : m s = Ok a s1] with [m] neutral, [Hsc : sc s = _], [Her : errs s = _]:
    moves the two facts to [s1] *)
Ltac mneutral E Hsc Her :=
  match type of E with
  | ?m ?s = Ok _ ?s1 =>
      let N := fresh "N" in
      assert (N : neutral m) by neutral_go;
      apply N in E; clear N;
      let E1 := fresh "E" in let E2 := fresh "E" in
      destruct E as [E1 E2]; rewrite Hsc in E1; rewrite Her in E2; clear Hsc Her;
      rename E1 into Hsc; rename E2 into Her
  end.

(** one bind whose first computation is neutral and whose value is irrelevant *)
Ltac mskip H Hsc Her :=
  let a := fresh "a" in let s1 := fresh "s" in let E := fresh "E" in
  msplit H a s1 E; mneutral E Hsc Her.

(** one bind whose first computation is a read *)
Ltac mread H :=
  let a := fresh "a" in let s1 := fresh "s" in let E := fresh "E" in
  msplit H a s1 E; unfold lookup_value, get_reg in E; apply gets_A in E; destruct E as [-> ->].

Ltac mret H := apply ret_A in H; destruct H as [-> ->].

(** ** Expressions *)
Section Expr.
  Variable G : globals.
  Let T := tables_of G.
  Variable scs : scopes.

  (** the simulation statement for an expression-valued computation in scopes [scs] *)
  Definition esim (m : M (option eres)) (c : outcome sem_ty) : Prop :=
    forall s r s', m s = Ok r s' -> errs s = [] -> sc s = scs ->
      match c with
      | Pass t => errs s' = [] /\ sc s' = scs /\ exists er, r = Some er /\ r_ty er = t
      | Fail v => fails v s'
      | Stuck => False
      end.

  Section OneLevel.
    Variable E : expr -> M (option eres).
    Variable CE : expr -> outcome sem_ty.
    Hypothesis HER : forall e, R (E e).
    Hypothesis HE : forall e, esim (E e) (CE e).

    (** arguments: the model indexes the parameter list, the specification consumes it *)
    Lemma call_args_sim callee params : forall args i acc s r s',
      call_args E callee params i args acc s = Ok r s' -> errs s = [] -> sc s = scs ->
      match check_args true CE callee (skipn i params) args with
      | Pass _ => errs s' = [] /\ sc s' = scs /\ exists l, r = Some l
      | Fail v => fails v s'
      | Stuck => False
      end.
    Proof.
      pose proof (R_call_args E HER callee params) as HRC.
      induction args as [|a args IH]; intros i acc s r s' H Her Hsc; cbn [call_args] in H.
      - mret H. cbn [check_args].
        destruct (skipn i params); (split; [exact Her | split; [exact Hsc | eexists; reflexivity]]).
      - msplit H ra s1 Ea.
        pose proof (HE a _ _ _ Ea Her Hsc) as HX.
        assert (Hsk : skipn i params =
                      match nth_error params i with
                      | Some pt => pt :: skipn (S i) params
                      | None => []
                      end).
        { clear. revert i. induction params as [|p ps IHp]; intros [|i]; cbn; try reflexivity.
          apply IHp. }
        rewrite Hsk. clear Hsk.
        destruct (nth_error params i) as [pt|] eqn:Hn; cbn [check_args andthen];
          destruct (CE a) as [t|v|]; cbn [andthen]; try contradiction; try (mono_fin H HX).
        + destruct HX as (Her1 & Hsc1 & er & -> & Ht). subst t.
          unfold require. destruct (sem_ty_eqb pt (r_ty er)); cbn [andthen].
          * apply (IH _ _ _ _ _ H Her1 Hsc1).
          * msplit H u s2 Ee. pose proof (fails_add_error _ _ _ _ _ _ Ee Her1) as HF.
            mono_fin H HF.
        + destruct HX as (Her1 & Hsc1 & er & -> & Ht). subst t.
          msplit H u s2 Ee. pose proof (fails_add_error _ _ _ _ _ _ Ee Her1) as HF.
          mono_fin H HF.
    Qed.

    Ltac pass_fin Her Hsc :=
      split; [exact Her | split; [exact Hsc | eexists; split; reflexivity]].

    Lemma function_call_sim f args : forall s r s',
      function_call G E f args s = Ok r s' -> errs s = [] -> sc s = scs ->
      match check_call true T CE f args with
      | Pass t => errs s' = [] /\ sc s' = scs /\ r = Some t
      | Fail v => fails v s'
      | Stuck => False
      end.
    Proof.
      pose proof (R_call_args E HER) as HRC.
      intros s r s' H Her Hsc. unfold function_call in H. unfold check_call.
      unfold T, tables_of. cbn [tb_funcs]. rewrite alookup_map. revert H.
      destruct (alookup (iname f) (g_funcs G)) as [fd|]; cbn [option_map]; intro H.
      - msplit H ps s1 Ec.
        pose proof (call_args_sim f (f_params fd) args O [] _ _ _ Ec Her Hsc) as HX.
        cbn [skipn] in HX. unfold sig_of_func.
        destruct (check_args true CE f (f_params fd) args) as [[]|v|]; cbn [andthen].
        + destruct HX as (Her1 & Hsc1 & l & ->). mskip H Hsc1 Her1. mret H.
          split; [exact Her1 | split; [exact Hsc1 | reflexivity]].
        + mono_fin H HX.
        + contradiction.
      - msplit H u s1 Ee. pose proof (fails_add_error _ _ _ _ _ _ Ee Her) as HF.
        mono_fin H HF.
    Qed.

    Lemma lookup_scs x s : sc s = scs ->
      lookup_scopes x scs = option_map sc_of_value (lookup_frames x (frames s)).
    Proof. intros <-. apply lookup_scopes_of. Qed.

    Lemma expr_value_sim v : esim (expr_value G E v) (check_operand true T scs CE v).
    Proof.
      pose proof (R_function_call G E HER) as HRF.
      intros s r s' H Her Hsc. destruct v as [x | p | f args | x a | e | t tag];
        cbn [expr_value] in H; cbn [check_operand].
      - (* name *)
        mread H. unfold check_name. rewrite (lookup_scs (iname x) s Hsc). revert H.
        destruct (lookup_frames (iname x) (frames s)) as [val|]; cbn [option_map]; intro H.
        + unfold sc_of_value. msplit H r0 s1 Ea. mneutral Ea Hsc Her. mret H. pass_fin Her Hsc.
        + unfold T, tables_of. cbn [tb_consts]. rewrite alookup_map. revert H.
          destruct (alookup (iname x) (g_consts G)) as [c|]; cbn [option_map]; intro H.
          * msplit H r0 s1 Ea. mneutral Ea Hsc Her. mret H. pass_fin Her Hsc.
          * mskip H Hsc Her. msplit H u s2 Ee.
            pose proof (fails_add_error _ _ _ _ _ _ Ee Her) as HF. mono_fin H HF.
      - (* literal *)
        mret H. pass_fin Her Hsc.
      - (* call *)
        msplit H t0 s1 Ef. pose proof (function_call_sim f args _ _ _ Ef Her Hsc) as HX.
        destruct (check_call true T CE f args) as [t'|v|].
        + destruct HX as (Her1 & Hsc1 & ->). msplit H r0 s2 Eb. mneutral Eb Hsc1 Her1. mret H.
          pass_fin Her1 Hsc1.
        + mono_fin H HX.
        + contradiction.
      - (* field *)
        mread H. unfold check_field. rewrite (lookup_scs (iname x) s Hsc). revert H.
        destruct (lookup_frames (iname x) (frames s)) as [val|]; cbn [option_map]; intro H.
        2:{ msplit H u s2 Ee. pose proof (fails_add_error _ _ _ _ _ _ Ee Her) as HF.
            mono_fin H HF. }
        unfold sc_of_value. revert H.
        destruct (v_ty val) as [pt | name attrs | et en] eqn:Ety; intro H.
        1,3: msplit H u s2 Ee; pose proof (fails_add_error _ _ _ _ _ _ Ee Her) as HF;
             mono_fin H HF.
        unfold check_type_exists, amem in H. cbn [is_prim] in H.
        unfold T, tables_of. cbn [tb_types]. revert H.
        destruct (alookup (type_name (SStruct name attrs)) (g_types G)) as [declared|];
          intro H.
        2:{ msplit H ok s1 Ec. msplit Ec u s2 Ee.
            pose proof (fails_add_error _ _ _ _ _ _ Ee Her) as HF.
            assert (HF1 : fails (Viol ETypeNotFound (Some (iname x)) (iloc x)) s1)
              by (mono_fin Ec HF).
            mono_fin H HF1. }
        msplit H ok s1 Ec. mret Ec. cbn [negb] in H. revert H.
        destruct (sem_ty_eqb (SStruct name attrs) declared); cbn [negb]; intro H.
        2:{ msplit H u s2 Ee. pose proof (fails_add_error _ _ _ _ _ _ Ee Her) as HF.
            mono_fin H HF. }
        revert H. destruct (attr_lookup (iname a) attrs) as [[idx aty]|]; intro H.
        2:{ msplit H u s2 Ee. pose proof (fails_add_error _ _ _ _ _ _ Ee Her) as HF.
            mono_fin H HF. }
        mskip H Hsc Her. msplit H r0 s2 Eb. mneutral Eb Hsc Her. mret H. pass_fin Her Hsc.
      - (* bracket *)
        exact (HE e _ _ _ H Her Hsc).
      - (* extension *)
        msplit H r0 s1 Ea. mneutral Ea Hsc Her. mret H. pass_fin Her Hsc.
    Qed.

    Lemma expr_chain_sim : forall rest left,
      esim (expr_chain G E left rest) (check_links true T scs CE (r_ty left) rest).
    Proof.
      pose proof (R_expr_value G E HER) as HRV. pose proof (R_expr_chain G E HER) as HRC.
      induction rest as [|[op v] rest IH]; intros left s r s' H Her Hsc;
        cbn [expr_chain] in H; cbn [check_links].
      - mret H. pass_fin Her Hsc.
      - msplit H rv s1 Ev. pose proof (expr_value_sim v _ _ _ Ev Her Hsc) as HX.
        destruct (check_operand true T scs CE v) as [t|v0|]; cbn [andthen].
        + destruct HX as (Her1 & Hsc1 & rgt & -> & <-). unfold require. revert H.
          destruct (sem_ty_eqb (r_ty left) (r_ty rgt)); cbn [negb andthen]; intro H.
          * msplit H r0 s2 Ea. mneutral Ea Hsc1 Her1.
            exact (IH _ _ _ _ H Her1 Hsc1).
          * msplit H u s2 Ee. pose proof (fails_add_error _ _ _ _ _ _ Ee Her1) as HF.
            mono_fin H HF.
        + mono_fin H HX.
        + contradiction.
    Qed.

    Lemma expression_body_sim e :
      esim (expression_body G E e) (check_expr_step true T scs CE e).
    Proof.
      pose proof (R_expr_chain G E HER) as HRC.
      intros s r s' H Her Hsc. unfold expression_body in H. unfold check_expr_step.
      destruct (fold_priority e) as [v rest].
      msplit H rv s1 Ev. pose proof (expr_value_sim v _ _ _ Ev Her Hsc) as HX.
      destruct (check_operand true T scs CE v) as [t|v0|]; cbn [andthen].
      - destruct HX as (Her1 & Hsc1 & first & -> & <-).
        exact (expr_chain_sim rest first _ _ _ H Her1 Hsc1).
      - mono_fin H HX.
      - contradiction.
    Qed.
  End OneLevel.

  Theorem expression_sim : forall fuel e,
    esim (expression G fuel e) (check_expr true T scs fuel e).
  Proof.
    induction fuel as [|f IH]; intros e; cbn [expression check_expr].
    - intros s r s' H. discriminate H.
    - apply expression_body_sim; [apply R_expression | exact IH].
  Qed.
End Expr.
