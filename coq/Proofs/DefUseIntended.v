(** Definitions before uses (C08), the INTENDED statement outside the class of finding F7.

    [Proofs/DefUse.v] proves C08 modulo finding F7 ([chk_C08 true]): a register that nothing
    writes may be read when it is the register after one written by a [Call] or an
    [ExpressionStructValue].  In the model this shape arises exactly at the two leaves of an
    operator chain whose code increments the counter once more after the instruction it pushed:
    a call used as a VALUE ([EVCall]) and a field read ([EVField]).

    Here: the decidable class [no_f7_leaves] ("outside K_F7": no [EVCall] and no [EVField] occurs
    in any expression of any function body; call STATEMENTS are allowed, their arguments are
    expressions and must be free of the two leaves) and the theorem that for an accepted program
    of this class the intended statement holds ([run_reads_written]: [chk_C08 false]).

    Organisation: the development of [DefUse.v] is re-run with the flag [false]; what does not
    mention the flag is imported from there ([upd], [seen_from], [scan_app], [reg_ok_mono], the
    root view [Ctx] / [Seen], what the primitives do to the view, [AllocPost], [Ext]); the
    relation [Rl], the Hoare logic [Hat] / [Hat0] and the three levels (expressions, conditions,
    control) are restated for [scan false] / [reg_ok false] inside the module [Intended] (so that the
    names of [DefUse.v] are not shadowed for who imports both files), with the syntactic
    hypothesis threaded through the recursion; the two cases of [expr_value] that produce the
    F7 shape are excluded by it.  [fold_priority] re-brackets a chain into [EVSub] leaves of
    the same leaves: the class is closed under it ([no_f7_fold_priority]). *)
From Coq Require Import Lia.
From SA Require Import Model.
From SA.Spec Require Import Stack.
From SA.Mon Require Import C08.
From SA.Proofs Require Import Trace InvNames DefUse.
Local Open Scope list_scope.

(** ** The class *)
Fixpoint no_f7_expr (e : expr) : bool :=
  match e with
  | Expr v rest =>
      no_f7_val v &&
      (fix go (l : list (binop * expr_val)) : bool :=
         match l with [] => true | (_, v') :: l' => no_f7_val v' && go l' end) rest
  end
with no_f7_val (v : expr_val) : bool :=
  match v with
  | EVCall _ _ | EVField _ _ => false
  | EVSub e => no_f7_expr e
  | EVName _ | EVPrim _ | EVExt _ _ => true
  end.

Fixpoint no_f7_links (l : links) : bool :=
  match l with [] => true | (_, v) :: l' => no_f7_val v && no_f7_links l' end.

Fixpoint no_f7_lcond (c : lcond) : bool :=
  match c with
  | LC l _ r next =>
      no_f7_expr l && no_f7_expr r &&
      match next with Some (_, c') => no_f7_lcond c' | None => true end
  end.

Definition no_f7_cond (c : cond) : bool :=
  match c with CSingle e => no_f7_expr e | CLogic l => no_f7_lcond l end.

Fixpoint no_f7_stmt (s : stmt) : bool :=
  match s with
  | SLet _ _ _ e | SBind _ e | SRet e | SExprStmt e => no_f7_expr e
  | SCall _ args => forallb no_f7_expr args
  | SIf i => no_f7_if i
  | SLoop body =>
      (fix go (l : list stmt) : bool :=
         match l with [] => true | s' :: l' => no_f7_stmt s' && go l' end) body
  | SBreak | SContinue => true
  end
with no_f7_if (i : ifstmt) : bool :=
  match i with
  | IfS c body els elif =>
      no_f7_cond c && no_f7_ifbody body &&
      match els with Some b => no_f7_ifbody b | None => true end &&
      match elif with Some i' => no_f7_if i' | None => true end
  end
with no_f7_ifbody (b : ifbody) : bool :=
  match b with
  | IBIf ss | IBLoop ss =>
      (fix go (l : list stmt) : bool :=
         match l with [] => true | s' :: l' => no_f7_stmt s' && go l' end) ss
  end.

Definition no_f7_stmts (ss : list stmt) : bool := forallb no_f7_stmt ss.
Definition no_f7_fn (f : fn_decl) : bool := no_f7_stmts (fn_body f).

(** "Outside K_F7". *)
Definition no_f7_leaves (p : program) : bool := forallb no_f7_fn (functions_of p).

Lemma no_f7_expr_Expr v rest : no_f7_expr (Expr v rest) = no_f7_val v && no_f7_links rest.
Proof.
  reflexivity.
Qed.

Lemma no_f7_stmt_loop body : no_f7_stmt (SLoop body) = no_f7_stmts body.
Proof.
  cbn [no_f7_stmt]. induction body as [|s ss IH]; [reflexivity|].
  unfold no_f7_stmts. cbn [forallb]. fold (no_f7_stmts ss). rewrite IH. reflexivity.
Qed.

Lemma no_f7_ifbody_IBIf ss : no_f7_ifbody (IBIf ss) = no_f7_stmts ss.
Proof.
  cbn [no_f7_ifbody]. induction ss as [|s ss IH]; [reflexivity|].
  unfold no_f7_stmts. cbn [forallb]. fold (no_f7_stmts ss). rewrite IH. reflexivity.
Qed.

Lemma no_f7_ifbody_IBLoop ss : no_f7_ifbody (IBLoop ss) = no_f7_stmts ss.
Proof. exact (no_f7_ifbody_IBIf ss). Qed.

Lemma no_f7_if_IfS c body els elif :
  no_f7_if (IfS c body els elif) = true ->
  no_f7_cond c = true /\ no_f7_ifbody body = true /\
  match els with Some b => no_f7_ifbody b | None => true end = true /\
  match elif with Some i' => no_f7_if i' | None => true end = true.
Proof.
  cbn [no_f7_if]. rewrite !Bool.andb_true_iff. intros [[[H1 H2] H3] H4]. auto.
Qed.

(** ** The class is closed under priority folding *)
Definition no_f7_pair (a : expr_val * links) : bool := no_f7_val (fst a) && no_f7_links (snd a).

Lemma no_f7_fetch p : forall rest v,
  no_f7_pair (v, rest) = true -> no_f7_pair (fetch p v rest) = true.
Proof.
  unfold no_f7_pair.
  induction rest as [|[op v2] rest IH]; intros v H; cbn [fetch]; [exact H|].
  cbn [fst snd no_f7_links] in H. rewrite !Bool.andb_true_iff in H. destruct H as [Hv [H2 Hr]].
  destruct (N.eqb (prio op) p).
  - apply IH. cbn [fst snd no_f7_val]. rewrite no_f7_expr_Expr. cbn [no_f7_links].
    rewrite Hv, H2, Hr. reflexivity.
  - assert (Hp : no_f7_val (fst (v2, rest)) && no_f7_links (snd (v2, rest)) = true)
      by (cbn [fst snd]; rewrite H2, Hr; reflexivity).
    specialize (IH v2 Hp). destruct (fetch p v2 rest) as [v' r']. cbn [fst snd] in *.
    cbn [no_f7_links]. apply Bool.andb_true_iff in IH as [-> ->]. rewrite Hv. reflexivity.
Qed.

Lemma no_f7_fold_levels : forall ls a,
  no_f7_pair a = true ->
  no_f7_pair (fold_left (fun acc p => fetch p (fst acc) (snd acc)) ls a) = true.
Proof.
  induction ls as [|p ls IH]; intros a H; cbn [fold_left]; [exact H|].
  apply IH. apply no_f7_fetch. destruct a; exact H.
Qed.

Lemma no_f7_fold_priority e : no_f7_expr e = true -> no_f7_expr (fold_priority e) = true.
Proof.
  destruct e as [v rest]. intro H. unfold fold_priority.
  destruct rest as [|l1 [|l2 rest]]; try exact H.
  rewrite no_f7_expr_Expr in H.
  pose proof (no_f7_fold_levels levels (v, l1 :: l2 :: rest) H) as HF.
  destruct (fold_left _ levels _) as [v' r']. rewrite no_f7_expr_Expr. exact HF.
Qed.

Module Intended.
(** ** The root view, flag [false] *)
Definition uses_ok (s : bst) (l : list N) : Prop := forallb (reg_ok false (Seen s)) l = true.
Definition ok_res (s : bst) (er : eres) : Prop := uses_ok s (eres_reg er).

Definition Rl (b : bool) (s s' : bst) : Prop :=
  frames s' <> [] /\
  exists c e, Ctx s' = Ctx s ++ c /\ errs s' = errs s ++ e /\
              (b = true \/ e = [] -> scan false (Seen s) c = true).

Lemma Rl_ne b s s' : Rl b s s' -> frames s' <> [].
Proof. intros [H _]; exact H. Qed.

Lemma Rl_refl b s : frames s <> [] -> Rl b s s.
Proof.
  intro H. split; [exact H|]. exists [], []. rewrite !app_nil_r. repeat split.
Qed.

Lemma Rl_trans b s s1 s2 : Rl b s s1 -> Rl b s1 s2 -> Rl b s s2.
Proof.
  intros (_ & c1 & e1 & C1 & E1 & S1) (N2 & c2 & e2 & C2 & E2 & S2).
  split; [exact N2|]. exists (c1 ++ c2), (e1 ++ e2).
  split; [rewrite C2, C1, app_assoc; reflexivity|].
  split; [rewrite E2, E1, app_assoc; reflexivity|].
  intro Hb. rewrite scan_app.
  assert (H1 : b = true \/ e1 = []).
  { destruct Hb as [Hb|Hb]; [left; exact Hb | right]. apply app_eq_nil in Hb. apply Hb. }
  assert (H2 : b = true \/ e2 = []).
  { destruct Hb as [Hb|Hb]; [left; exact Hb | right]. apply app_eq_nil in Hb. apply Hb. }
  rewrite (S1 H1). cbn.
  assert (HS : seen_from (Seen s) c1 = Seen s1).
  { unfold Seen, seen_of. rewrite C1, seen_from_app. reflexivity. }
  rewrite HS. apply S2, H2.
Qed.

Lemma Rl_true b s s' : Rl true s s' -> Rl b s s'.
Proof.
  intros (N & c & e & C & E & S). split; [exact N|]. exists c, e.
  split; [exact C|]. split; [exact E|]. intros _. apply S. left. reflexivity.
Qed.

Lemma Rl_incl b s s' : Rl b s s' -> incl (Seen s) (Seen s').
Proof.
  intros (_ & c & e & C & _ & _). unfold Seen, seen_of. rewrite C, seen_from_app.
  apply incl_seen_from.
Qed.

Lemma uses_ok_Rl b s s' l : Rl b s s' -> uses_ok s l -> uses_ok s' l.
Proof.
  intros HR H. unfold uses_ok in *. rewrite forallb_forall in *. intros n Hn.
  eapply reg_ok_mono; [eapply Rl_incl, HR | apply H, Hn].
Qed.

Lemma ok_res_Rl b s s' er : Rl b s s' -> ok_res s er -> ok_res s' er.
Proof. apply uses_ok_Rl. Qed.

Lemma reg_ok_Rl b s s' n :
  Rl b s s' -> reg_ok false (Seen s) n = true -> reg_ok false (Seen s') n = true.
Proof. intros HR. apply reg_ok_mono. eapply Rl_incl, HR. Qed.

Lemma uses_ok_app s l1 l2 : uses_ok s l1 -> uses_ok s l2 -> uses_ok s (l1 ++ l2).
Proof. unfold uses_ok. intros H1 H2. rewrite forallb_app, H1, H2. reflexivity. Qed.

Lemma uses_ok_flat s l : Forall (ok_res s) l -> uses_ok s (flat_map eres_reg l).
Proof.
  induction 1 as [|er l H _ IH]; [reflexivity|]. cbn [flat_map]. apply uses_ok_app; assumption.
Qed.

Lemma uses_ok_one s n : reg_ok false (Seen s) n = true -> uses_ok s [n].
Proof. intro H. unfold uses_ok. cbn. rewrite H. reflexivity. Qed.

Lemma ok_res_reg s t n : reg_ok false (Seen s) n = true -> ok_res s (ERes t (RReg n)).
Proof. apply uses_ok_one. Qed.

Lemma ok_res_prim s t p : ok_res s (ERes t (RPrim p)).
Proof. reflexivity. Qed.

(** one step of the view: some instructions pushed, some errors added *)
Lemma Rl_step b s s' c e :
  frames s' <> [] -> Ctx s' = Ctx s ++ c -> errs s' = errs s ++ e ->
  scan false (Seen s) c = true -> Rl b s s'.
Proof.
  intros N C E S. split; [exact N|]. exists c, e.
  split; [exact C|]. split; [exact E|]. intros _. exact S.
Qed.

Lemma Rl_nop b s s' :
  frames s' <> [] -> Ctx s' = Ctx s -> errs s' = errs s -> Rl b s s'.
Proof.
  intros N C E. apply (Rl_step b s s' [] []); rewrite ?app_nil_r; try assumption. reflexivity.
Qed.

Lemma scan_one s i : uses_ok s (use_regs i) -> scan false (Seen s) [i] = true.
Proof. intro H. cbn. rewrite H. reflexivity. Qed.

(** ** The Hoare logic *)
Definition Hat {A} (b : bool) (s : bst) (m : M A) (Q : A -> bst -> Prop) : Prop :=
  frames s <> [] -> forall a s', m s = Ok a s' -> Rl b s s' /\ Q a s'.

Notation Gat b s m := (Hat b s m (fun _ _ => True)).

Lemma Hat_ret {A} b s (a : A) (Q : A -> bst -> Prop) : Q a s -> Hat b s (ret a) Q.
Proof. intros HQ Hne a' s' H. inversion H; subst. split; [apply Rl_refl, Hne | exact HQ]. Qed.
Lemma Hat_panic {A} b s k Q : Hat b s (@panic A k) Q.
Proof. intros _ a s' H. discriminate. Qed.
Lemma Hat_oof {A} b s Q : Hat b s (@out_of_fuel A) Q.
Proof. intros _ a s' H. discriminate. Qed.

Lemma Hat_bind {A B} b s (m : M A) (f : A -> M B) (Q1 : A -> bst -> Prop) Q :
  Hat b s m Q1 -> (forall a s1, Rl b s s1 -> Q1 a s1 -> Hat b s1 (f a) Q) -> Hat b s (bind m f) Q.
Proof.
  intros Hm Hf Hne x s' H. apply bind_ok in H as (a & s1 & E & H).
  destruct (Hm Hne a s1 E) as [R1 HQ1].
  destruct (Hf a s1 R1 HQ1 (Rl_ne _ _ _ R1) x s' H) as [R2 HQ].
  split; [eapply Rl_trans; eassumption | exact HQ].
Qed.

Lemma Gat_bind {A B} b s (m : M A) (f : A -> M B) Q :
  Gat b s m -> (forall a s1, Rl b s s1 -> Hat b s1 (f a) Q) -> Hat b s (bind m f) Q.
Proof. intros Hm Hf. eapply Hat_bind; [exact Hm|]. intros a s1 HR _. apply Hf, HR. Qed.

Lemma Hat_conseq {A} b s (m : M A) (Q Q' : A -> bst -> Prop) :
  Hat b s m Q -> (forall a s', Rl b s s' -> Q a s' -> Q' a s') -> Hat b s m Q'.
Proof.
  intros Hm HQ Hne a s' H. destruct (Hm Hne a s' H) as [R1 H1]. split; [exact R1 | eauto].
Qed.

Lemma Hat_weaken {A} b s (m : M A) Q : Hat b s m Q -> Gat b s m.
Proof. intro H. eapply Hat_conseq; [exact H | trivial]. Qed.

Lemma Hat_true {A} b s (m : M A) Q : Hat true s m Q -> Hat b s m Q.
Proof.
  intros Hm Hne a s' H. destruct (Hm Hne a s' H) as [R1 H1]. split; [apply Rl_true, R1 | exact H1].
Qed.

Lemma Hat_gets_bind {A B} b s (g : list block -> A) (f : A -> M B) Q :
  Hat b s (f (g (frames s))) Q -> Hat b s (bind (gets g) f) Q.
Proof. intros H Hne x s' Hb. unfold bind, gets in Hb. exact (H Hne x s' Hb). Qed.
Lemma Hat_lookup_bind {B} b s x (f : option value -> M B) Q :
  Hat b s (f (lookup_frames x (frames s))) Q -> Hat b s (bind (lookup_value x) f) Q.
Proof. apply Hat_gets_bind. Qed.
Lemma Hat_get_reg_bind {B} b s (f : N -> M B) Q :
  Hat b s (f (head_reg (frames s))) Q -> Hat b s (bind get_reg f) Q.
Proof. apply Hat_gets_bind. Qed.
Lemma Hat_gets {A} b s (g : list block -> A) (Q : A -> bst -> Prop) :
  Q (g (frames s)) s -> Hat b s (gets g) Q.
Proof. intros HQ Hne a s' H. inversion H; subst. split; [apply Rl_refl, Hne | exact HQ]. Qed.
Lemma Hat_get_reg b s (Q : N -> bst -> Prop) : Q (head_reg (frames s)) s -> Hat b s get_reg Q.
Proof. apply Hat_gets. Qed.

Lemma Gat_when b s c m : Gat b s m -> Gat b s (when c m).
Proof. intro H. destruct c; [exact H | apply Hat_ret; exact I]. Qed.

(** primitives *)
Lemma Hat_alloc b s mk :
  uses_ok s (use_regs (mk (head_reg (frames s) + 1))) -> Hat b s (alloc_emit mk) (AllocPost mk s).
Proof.
  intros Hu Hne r s' H. apply alloc_emit_eq in H as [-> ->].
  destruct (st_inc_view s Hne) as (N1 & C1 & E1 & H1).
  destruct (st_emit_view (mk (head_reg (frames (st_inc s)))) (st_inc s) N1) as (N2 & C2 & E2 & H2).
  unfold st_alloc. rewrite H1 in *. rewrite C1 in C2. split.
  - apply (Rl_step b s _ [mk (head_reg (frames s) + 1)] []); try assumption.
    + rewrite app_nil_r, E2. exact E1.
    + apply scan_one, Hu.
  - split; [reflexivity|]. split; [exact H2 | apply Seen_push, C2].
Qed.

Lemma Hat_bump b s :
  Hat b s bump (fun r s' => r = head_reg (frames s) + 1 /\ Ctx s' = Ctx s).
Proof.
  intros Hne r s' H. apply bump_eq in H as [-> ->].
  destruct (st_inc_view s Hne) as (N1 & C1 & E1 & H1).
  split; [apply Rl_nop; assumption | split; assumption].
Qed.

Lemma Gat_emit b s i : uses_ok s (use_regs i) -> Gat b s (emit i).
Proof.
  intros Hu Hne a s' H. apply emit_eq in H as ->.
  destruct (st_emit_view i s Hne) as (N1 & C1 & E1 & _). split; [|exact I].
  apply (Rl_step b s _ [i] []); try assumption; [rewrite app_nil_r; exact E1 | apply scan_one, Hu].
Qed.

Lemma Gat_emit_kid b s k i : uses_ok s (use_regs i) -> Gat b s (emit_kid k i).
Proof.
  intros Hu Hne a s' H. apply emit_kid_eq in H as ->.
  destruct (st_kid_view k i s Hne) as (N0 & C0 & E0).
  destruct (st_emit_view i (st_kid k i s) N0) as (N1 & C1 & E1 & _). split; [|exact I].
  apply (Rl_step b s _ [i] []); try assumption.
  - rewrite C1, C0. reflexivity.
  - rewrite app_nil_r, E1. exact E0.
  - apply scan_one, Hu.
Qed.

Lemma Gat_add_error b s e : Gat b s (add_error e).
Proof.
  intros Hne a s' H. apply add_error_eq in H as ->. split; [|exact I].
  apply (Rl_step b s _ [] [e]); [exact Hne | | reflexivity | reflexivity].
  unfold Ctx, st_error. cbn [frames]. rewrite app_nil_r. reflexivity.
Qed.

Lemma Gat_set_inner_name b s n : Gat b s (set_inner_name n).
Proof.
  intros Hne a s' H. apply set_inner_name_eq in H as ->. split; [|exact I]. unfold st_inner.
  apply Rl_nop; [apply map_ne, Hne | apply Ctx_map0; [exact Hne | reflexivity] | reflexivity].
Qed.
Lemma Gat_set_label_name b s n : Gat b s (set_label_name n).
Proof.
  intros Hne a s' H. apply set_label_name_eq in H as ->. split; [|exact I]. unfold st_label.
  apply Rl_nop; [apply map_ne, Hne | apply Ctx_map0; [exact Hne | reflexivity] | reflexivity].
Qed.
Lemma Gat_set_return b s : Gat b s set_return.
Proof.
  intros Hne a s' H. apply set_return_eq in H as ->. split; [|exact I]. unfold st_return.
  apply Rl_nop; [apply map_ne, Hne | apply Ctx_map0; [exact Hne | reflexivity] | reflexivity].
Qed.
Lemma Gat_insert_value b s x v : Gat b s (insert_value x v).
Proof.
  intros Hne a s' H. apply insert_value_eq in H as ->. split; [|exact I].
  destruct s as [fs e]. cbn [frames] in Hne. destruct fs as [|h r]; [congruence|].
  unfold st_value. cbn [frames errs].
  apply Rl_nop; [discriminate | apply Ctx_head; reflexivity | reflexivity].
Qed.
Lemma Gat_push_child b s : Gat b s push_child.
Proof.
  intros Hne a s' H. apply push_child_eq in H as ->. split; [|exact I]. unfold st_push.
  apply Rl_nop; [discriminate | | reflexivity].
  unfold Ctx. cbn [frames]. rewrite (root_of_cons _ _ Hne). reflexivity.
Qed.
Lemma Gat_pop_child b s : Gat b s pop_child.
Proof.
  intros Hne k s' H. apply pop_child_eq in H as (c & p & r & Hf & -> & _). split; [|exact I].
  apply Rl_nop; [discriminate | | reflexivity].
  unfold Ctx at 2. rewrite Hf. rewrite (root_of_cons c (p :: r)) by discriminate.
  apply (Ctx_head p (add_kid c p) r (errs s) (errs s)). reflexivity.
Qed.
Lemma Gat_next_inner_name b s fuel n : Gat b s (next_inner_name fuel n).
Proof.
  intros Hne a s' H. apply next_inner_name_spec in H as [-> _]. split; [apply Rl_refl, Hne | exact I].
Qed.

Lemma Gat_label_probe b fuel : forall n s, Gat b s (label_probe fuel n).
Proof.
  induction fuel as [|f IH]; intros n s Hne a s' H; cbn [label_probe] in H; [discriminate|].
  destruct (set_attr_counter n) as [n'|]; [|discriminate].
  destruct (label_exists n' (frames s)); [eapply IH; eassumption|].
  revert a s' H. apply (Gat_bind b s (set_label_name n') (fun _ => ret n'));
    [apply Gat_set_label_name | | exact Hne].
  intros. apply Hat_ret. exact I.
Qed.

Lemma Gat_gen_label b s base : Gat b s (gen_label base).
Proof.
  unfold gen_label. apply Hat_gets_bind. destruct (label_exists base (frames s)).
  - apply Hat_gets_bind. apply Gat_label_probe.
  - apply Gat_bind; [apply Gat_set_label_name|]. intros. apply Hat_ret. exact I.
Qed.

(** ** Facts about registers that the logic carries along *)
Definition ResOk (r : option eres) (s : bst) : Prop := forall er, r = Some er -> ok_res s er.
Definition ArgsOk (r : option (list eres)) (s : bst) : Prop :=
  forall l, r = Some l -> Forall (ok_res s) l.

Lemma ResOk_None s : ResOk None s.
Proof. intros er H. discriminate. Qed.

Lemma Forall_ok_res_Rl b s s' l : Rl b s s' -> Forall (ok_res s) l -> Forall (ok_res s') l.
Proof. intros HR H. eapply Forall_impl; [|exact H]. intro er. apply (ok_res_Rl _ _ _ _ HR). Qed.

Lemma AllocPost_written mk s r s' :
  def_reg (mk r) = Some r -> AllocPost mk s r s' -> reg_ok false (Seen s') r = true.
Proof. intros Hd (_ & _ & HS). rewrite HS. unfold upd. rewrite Hd. apply reg_ok_written. Qed.

(** allocate the register of an instruction and return it: the result is written *)
Lemma Hat_alloc_res b s mk t :
  (forall n, def_reg (mk n) = Some n) -> uses_ok s (use_regs (mk (head_reg (frames s) + 1))) ->
  Hat b s (r <- alloc_emit mk ;; ret (Some (ERes t (RReg r)))) ResOk.
Proof.
  intros Hd Hu. eapply Hat_bind; [apply Hat_alloc, Hu|]. intros r s1 R1 HP.
  apply Hat_ret. intros er Her. inversion Her; subst.
  apply ok_res_reg. eapply AllocPost_written; [apply Hd | exact HP].
Qed.

Ltac h_err :=
  apply Gat_bind; [apply Gat_add_error|]; intros; apply Hat_ret; first [apply ResOk_None | discriminate | exact I].
Ltac h_none := apply Hat_ret; first [apply ResOk_None | discriminate].

(** ** The anchored judgement, for the condition level

    [Hat0 s0 s m Q]: everything is relative to an anchor [s0] that reached the current state
    [s]; facts and the monitor condition are owed only when no error was added since [s0].
    Needed because [condition_expression] returns a register that is written only on its
    success paths, and the instruction that names it is pushed in either case. *)
Lemma Rl_Ext b s s' : Rl b s s' -> Ext s s'.
Proof. intros (N & c & e & C & E & _). split; [exact N|]. exists c, e. split; assumption. Qed.
Lemma uses_ok_Ext s s' l : Ext s s' -> uses_ok s l -> uses_ok s' l.
Proof.
  intros HX H. unfold uses_ok in *. rewrite forallb_forall in *. intros n Hn.
  eapply reg_ok_mono; [eapply Ext_incl, HX | apply H, Hn].
Qed.

Lemma errs_back s0 s1 s2 :
  Rl false s0 s1 -> Ext s1 s2 -> errs s2 = errs s0 -> errs s1 = errs s0.
Proof.
  intros (_ & c1 & e1 & _ & E1 & _) (_ & c2 & e2 & _ & E2) H.
  rewrite E2, E1, <- app_assoc in H. apply app_eq_self_nil, app_eq_nil in H as [-> _].
  rewrite E1. apply app_nil_r.
Qed.

Lemma cond_uses_ok s0 s1 s2 l :
  Rl false s0 s1 -> Ext s1 s2 -> (errs s1 = errs s0 -> uses_ok s1 l) ->
  errs s2 = errs s0 -> uses_ok s2 l.
Proof.
  intros R1 X2 H Hq. apply (uses_ok_Ext _ _ _ X2), H. eapply errs_back; eassumption.
Qed.

Lemma Rl0_step s0 s s' c e :
  Rl false s0 s -> frames s' <> [] -> Ctx s' = Ctx s ++ c -> errs s' = errs s ++ e ->
  (errs s = errs s0 -> e = [] -> scan false (Seen s) c = true) -> Rl false s0 s'.
Proof.
  intros (_ & c0 & e0 & C0 & E0 & S0) N C E S. split; [exact N|]. exists (c0 ++ c), (e0 ++ e).
  split; [rewrite C, C0, app_assoc; reflexivity|].
  split; [rewrite E, E0, app_assoc; reflexivity|].
  intros [Hb|Hb]; [discriminate|]. apply app_eq_nil in Hb as [-> ->].
  rewrite scan_app, S0 by (right; reflexivity). cbn [andb].
  assert (HS : seen_from (Seen s0) c0 = Seen s).
  { unfold Seen, seen_of. rewrite C0, seen_from_app. reflexivity. }
  rewrite HS. apply S; [rewrite E0; apply app_nil_r | reflexivity].
Qed.

Definition Hat0 {A} (s0 s : bst) (m : M A) (Q : A -> bst -> Prop) : Prop :=
  Rl false s0 s -> forall a s', m s = Ok a s' ->
  Rl false s0 s' /\ Ext s s' /\ (errs s' = errs s0 -> Q a s').

Lemma Hat0_of_Hat {A} s0 s (m : M A) Q : Hat false s m Q -> Hat0 s0 s m Q.
Proof.
  intros Hm R0 a s' H. destruct (Hm (Rl_ne _ _ _ R0) a s' H) as [R1 HQ].
  split; [eapply Rl_trans; eassumption|]. split; [eapply Rl_Ext, R1 | intros _; exact HQ].
Qed.

Lemma Hat0_bind {A B} s0 s (m : M A) (f : A -> M B) (Q1 : A -> bst -> Prop) Q :
  Hat0 s0 s m Q1 ->
  (forall a s1, Rl false s0 s1 -> Ext s s1 -> (errs s1 = errs s0 -> Q1 a s1) ->
                Hat0 s0 s1 (f a) Q) ->
  Hat0 s0 s (bind m f) Q.
Proof.
  intros Hm Hf R0 x s' H. apply bind_ok in H as (a & s1 & E & H).
  destruct (Hm R0 a s1 E) as (R1 & X1 & HQ1).
  destruct (Hf a s1 R1 X1 HQ1 R1 x s' H) as (R2 & X2 & HQ).
  split; [exact R2|]. split; [eapply Ext_trans; eassumption | exact HQ].
Qed.

Lemma Hat0_ret {A} s0 s (a : A) (Q : A -> bst -> Prop) :
  (errs s = errs s0 -> Q a s) -> Hat0 s0 s (ret a) Q.
Proof.
  intros HQ R0 a' s' H. inversion H; subst. split; [exact R0|].
  split; [apply Ext_refl, (Rl_ne _ _ _ R0) | exact HQ].
Qed.

Lemma Hat0_get_reg s0 s (Q : N -> bst -> Prop) :
  (errs s = errs s0 -> Q (head_reg (frames s)) s) -> Hat0 s0 s get_reg Q.
Proof.
  intros HQ R0 a' s' H. unfold get_reg, gets in H. inversion H; subst. split; [exact R0|].
  split; [apply Ext_refl, (Rl_ne _ _ _ R0) | exact HQ].
Qed.

Lemma Hat0_get_reg_bind {B} s0 s (f : N -> M B) Q :
  Hat0 s0 s (f (head_reg (frames s))) Q -> Hat0 s0 s (bind get_reg f) Q.
Proof. intros H R0 x s' Hb. unfold bind, get_reg, gets in Hb. exact (H R0 x s' Hb). Qed.

(** an error path: whatever is returned, nothing is owed *)
Lemma Hat0_dead s0 s e (Q : N -> bst -> Prop) : Hat0 s0 s (add_error e ;;; get_reg) Q.
Proof.
  intros R0 n s' H. unfold bind, add_error, get_reg, gets in H. inversion H; subst; clear H.
  pose proof (Rl_ne _ _ _ R0) as N.
  assert (C : Ctx (BSt (frames s) (errs s ++ [e])) = Ctx s ++ []) by (rewrite app_nil_r; reflexivity).
  split; [|split].
  - apply (Rl0_step s0 s (BSt (frames s) (errs s ++ [e])) [] [e] R0 N C);
      [reflexivity | intros _ Hn; discriminate].
  - split; [exact N|]. exists [], [e]. split; [exact C | reflexivity].
  - intro Hq. exfalso. destruct R0 as (_ & c0 & e0 & _ & E0 & _). cbn [errs] in Hq.
    rewrite E0, <- app_assoc in Hq. apply app_eq_self_nil, app_eq_nil in Hq as [_ Hq].
    discriminate.
Qed.

Lemma Hat0_alloc s0 s mk :
  (errs s = errs s0 -> uses_ok s (use_regs (mk (head_reg (frames s) + 1)))) ->
  Hat0 s0 s (alloc_emit mk) (AllocPost mk s).
Proof.
  intros Hu R0 r s' H. destruct (alloc_view _ _ _ _ (Rl_ne _ _ _ R0) H) as (N & C & E & HP).
  assert (Hr : r = head_reg (frames s) + 1) by apply HP.
  split; [|split].
  - apply (Rl0_step s0 s s' [mk r] [] R0 N C); [rewrite app_nil_r; exact E|].
    intros Hq _. apply scan_one. rewrite Hr. apply Hu, Hq.
  - split; [exact N|]. exists [mk r], []. split; [exact C | rewrite app_nil_r; exact E].
  - intros _. exact HP.
Qed.

Lemma Hat0_emit s0 s i :
  (errs s = errs s0 -> uses_ok s (use_regs i)) -> Hat0 s0 s (emit i) (fun _ _ => True).
Proof.
  intros Hu R0 a s' H. apply emit_eq in H as ->.
  destruct (st_emit_view i s (Rl_ne _ _ _ R0)) as (N & C & E & _).
  split; [|split; [|trivial]].
  - apply (Rl0_step s0 s _ [i] [] R0 N C); [rewrite app_nil_r; exact E|].
    intros Hq _. apply scan_one, Hu, Hq.
  - split; [exact N|]. exists [i], []. split; [exact C | rewrite app_nil_r; exact E].
Qed.

Lemma Gat_of_Hat0 {A} s (m : M A) Q : Hat0 s s m Q -> Gat false s m.
Proof.
  intros H Hne a s' Hm. destruct (H (Rl_refl _ _ Hne) a s' Hm) as (R & _ & _).
  split; [exact R | exact I].
Qed.

Definition RegOk (n : N) (s : bst) : Prop := uses_ok s [n].
Definition HeadOk (_ : unit) (s : bst) : Prop := RegOk (head_reg (frames s)) s.

Lemma AllocPost_head mk s r s' :
  def_reg (mk r) = Some r -> AllocPost mk s r s' -> RegOk (head_reg (frames s')) s'.
Proof.
  intros Hd HP. pose proof (AllocPost_written _ _ _ _ Hd HP) as Hw.
  destruct HP as (_ & -> & _). apply uses_ok_one, Hw.
Qed.

(** ** The syntax-directed pass over what names no register *)
Ltac g_go :=
  repeat first
    [ apply Hat_ret; exact I
    | apply Hat_panic | apply Hat_oof
    | match goal with H : _ |- Hat _ _ _ _ => solve [apply H; assumption] end
    | apply Gat_emit; reflexivity
    | apply Gat_emit_kid; reflexivity
    | apply Gat_gen_label | apply Gat_push_child | apply Gat_pop_child | apply Gat_add_error
    | apply Gat_set_return | apply Gat_set_inner_name | apply Gat_insert_value
    | apply Gat_when
    | apply Hat_gets_bind
    | apply Gat_bind; [| intros ? ? _]
    | match goal with |- Hat _ _ (match ?x with _ => _ end) _ => destruct x end
    | progress cbv zeta ].

Section Body.
  Variable G : globals.

  Lemma Gat_check_type_exists b s t v l : Gat b s (check_type_exists G t v l).
  Proof.
    unfold check_type_exists. destruct (is_prim t); [apply Hat_ret; exact I|].
    destruct (amem _ _); [apply Hat_ret; exact I|]. h_err.
  Qed.

  (** ** The expression level: no hypothesis on errors, outside K_F7 *)
  Section Expr.
    Variable E : expr -> M (option eres).
    Variable b : bool.
    Hypothesis HE : forall e s, no_f7_expr e = true -> Hat b s (E e) ResOk.

    Lemma Hat_call_args callee params : forall args i acc s,
      forallb no_f7_expr args = true ->
      Forall (ok_res s) acc -> Hat b s (call_args E callee params i args acc) ArgsOk.
    Proof.
      induction args as [|a args IH]; intros i acc s Hargs Hacc; cbn [call_args].
      - apply Hat_ret. intros l Hl. inversion Hl; subst. exact Hacc.
      - cbn [forallb] in Hargs. apply Bool.andb_true_iff in Hargs as [Ha Hargs].
        eapply Hat_bind; [apply HE, Ha|]. intros r s1 R1 HQ.
        pose proof (Forall_ok_res_Rl _ _ _ _ R1 Hacc) as Hacc1.
        destruct r as [er|]; [|apply Hat_ret; discriminate].
        specialize (HQ er eq_refl).
        assert (Herr : forall e0,
                   Hat b s1 (add_error e0 ;;; call_args E callee params (S i) args acc) ArgsOk).
        { intro e0. apply Gat_bind; [apply Gat_add_error|]. intros _ s2 R2.
          apply IH; [exact Hargs|]. apply (Forall_ok_res_Rl _ _ _ _ R2 Hacc1). }
        destruct (nth_error params i) as [pt|]; [|apply Herr].
        destruct (sem_ty_eqb pt (r_ty er)); [|apply Herr].
        apply IH; [exact Hargs|].
        apply Forall_app. split; [exact Hacc1 | constructor; [exact HQ | constructor]].
    Qed.

    (** a call: its arguments are read, its register is written.  (Whoever names the register
        AFTER it - the [EVCall] case of [expr_value] - is outside the class.) *)
    Lemma Gat_function_call f args s :
      forallb no_f7_expr args = true -> Gat b s (function_call G E f args).
    Proof.
      intro Hargs. unfold function_call. destruct (alookup (iname f) (g_funcs G)) as [fd|].
      - eapply Hat_bind; [apply Hat_call_args; [exact Hargs | constructor]|].
        intros ps s1 R1 HQ.
        destruct ps as [params|]; [|apply Hat_ret; exact I].
        eapply Hat_bind;
          [apply Hat_alloc; cbn [use_regs]; apply uses_ok_flat, HQ; reflexivity|].
        intros r s2 R2 HP. apply Hat_ret. exact I.
      - apply Gat_bind; [apply Gat_add_error|]. intros. apply Hat_ret. exact I.
    Qed.

    Lemma Hat_expr_value v s : no_f7_val v = true -> Hat b s (expr_value G E v) ResOk.
    Proof.
      intro Hv. destruct v; cbn [expr_value]; cbn [no_f7_val] in Hv; try discriminate Hv.
      - apply Hat_lookup_bind. destruct (lookup_frames _ _) as [val|].
        + apply Hat_alloc_res; [intro; reflexivity | reflexivity].
        + destruct (alookup _ _) as [c|].
          * apply Hat_alloc_res; [intro; reflexivity | reflexivity].
          * eapply Hat_bind; [apply Hat_bump|]. intros. h_err.
      - apply Hat_ret. intros er Her. inversion Her; subst. apply ok_res_prim.
      - apply HE, Hv.
      - apply Hat_alloc_res; [intro; reflexivity | reflexivity].
    Qed.

    Lemma Hat_expr_chain : forall rest left s,
      no_f7_links rest = true ->
      ok_res s left -> Hat b s (expr_chain G E left rest) ResOk.
    Proof.
      induction rest as [|[op v] rest IH]; intros left s Hrest Hl; cbn [expr_chain].
      - apply Hat_ret. intros er Her. inversion Her; subst. exact Hl.
      - cbn [no_f7_links] in Hrest. apply Bool.andb_true_iff in Hrest as [Hv Hrest].
        eapply Hat_bind; [apply Hat_expr_value, Hv|]. intros rv s1 R1 HQ.
        destruct rv as [rgt|]; [|h_none].
        destruct (negb _); [h_err|].
        eapply Hat_bind.
        + apply Hat_alloc. cbn [use_regs].
          apply uses_ok_app; [apply (ok_res_Rl _ _ _ _ R1), Hl | apply HQ; reflexivity].
        + intros r s2 R2 HP. apply IH; [exact Hrest|]. apply ok_res_reg.
          eapply AllocPost_written; [|exact HP]. reflexivity.
    Qed.

    Lemma Hat_expression_body e s :
      no_f7_expr e = true -> Hat b s (expression_body G E e) ResOk.
    Proof.
      intro He. apply no_f7_fold_priority in He.
      unfold expression_body. destruct (fold_priority e) as [v rest].
      rewrite no_f7_expr_Expr in He. apply Bool.andb_true_iff in He as [Hv Hrest].
      eapply Hat_bind; [apply Hat_expr_value, Hv|]. intros rv s1 R1 HQ.
      destruct rv as [first|]; [apply Hat_expr_chain; [exact Hrest | apply HQ; reflexivity] | h_none].
    Qed.
  End Expr.

  Lemma Hat_expression b fuel : forall e s,
    no_f7_expr e = true -> Hat b s (expression G fuel e) ResOk.
  Proof.
    induction fuel as [|f IH]; intros e s He; cbn [expression]; [apply Hat_oof|].
    apply Hat_expression_body; [exact IH | exact He].
  Qed.

  (** ** Statements that name the result of an expression: still no hypothesis on errors *)
  Section Stmts.
    Variable fuel : nat.
    Variable RT : sem_ty.

    Lemma Gat_let_binding b x m t e s :
      no_f7_expr e = true -> Gat b s (let_binding G fuel x m t e).
    Proof.
      intro He. unfold let_binding. cbv zeta.
      eapply Hat_bind; [apply Hat_expression, He|]. intros r s1 R1 HQ.
      destruct r as [er|]; [|apply Hat_ret; exact I]. specialize (HQ er eq_refl).
      destruct (match t with Some _ => _ | None => _ end); [apply Gat_add_error|].
      apply Hat_lookup_bind. apply Hat_gets_bind.
      apply Gat_bind; [apply Gat_next_inner_name|]. intros inner s2 R2.
      apply Gat_bind; [apply Gat_insert_value|]. intros _ s3 R3.
      apply Gat_bind; [apply Gat_set_inner_name|]. intros _ s4 R4.
      apply Gat_emit. cbn [use_regs].
      apply (ok_res_Rl _ _ _ _ R4), (ok_res_Rl _ _ _ _ R3), (ok_res_Rl _ _ _ _ R2), HQ.
    Qed.

    Lemma Gat_binding b x e s : no_f7_expr e = true -> Gat b s (binding G fuel x e).
    Proof.
      intro He. unfold binding. cbv zeta.
      eapply Hat_bind; [apply Hat_expression, He|]. intros r s1 R1 HQ.
      destruct r as [er|]; [|apply Hat_ret; exact I]. specialize (HQ er eq_refl).
      apply Hat_lookup_bind. destruct (lookup_frames _ _) as [val|]; [|apply Gat_add_error].
      destruct (negb (v_mut val)); [apply Gat_add_error|].
      destruct (negb _); [apply Gat_add_error|].
      apply Gat_emit. exact HQ.
    Qed.

    Lemma Gat_call_stmt b f args s :
      forallb no_f7_expr args = true -> Gat b s (call_stmt G fuel f args).
    Proof.
      intro Hargs. unfold call_stmt. cbv zeta.
      apply Gat_bind; [apply Gat_function_call; [apply Hat_expression | exact Hargs]|].
      intros. apply Hat_ret. exact I.
    Qed.

    Lemma Gat_check_return_type b er s : Gat b s (check_return_type RT er).
    Proof. unfold check_return_type. apply Gat_when, Gat_add_error. Qed.

    Lemma Gat_code_after_errors b k fl s : Gat b s (code_after_errors k fl).
    Proof.
      unfold code_after_errors. apply Gat_bind; [apply Gat_when, Gat_add_error|]. intros _ s1 _.
      destruct k; [apply Hat_ret; exact I| |];
        (apply Gat_bind; [apply Gat_when, Gat_add_error|]; intros; apply Gat_when, Gat_add_error).
    Qed.

    Lemma Gat_init_func_params b : forall ps s, Gat b s (init_func_params ps).
    Proof.
      induction ps as [|[x t] ps IH]; intro s; cbn [init_func_params]; [apply Hat_ret; exact I|].
      apply Hat_lookup_bind. destruct (lookup_frames _ _); [apply Gat_add_error|]. cbv zeta.
      apply Gat_bind; [apply Gat_insert_value|]. intros _ s1 _.
      apply Gat_bind; [apply Gat_set_inner_name|]. intros _ s2 _.
      apply Gat_bind; [apply Gat_emit; reflexivity|]. intros _ s3 _. apply IH.
    Qed.

    (** ** The condition level: accepted runs only *)
    Lemma Hat0_condition_expression c :
      forall s0 s, no_f7_lcond c = true -> Hat0 s0 s (condition_expression G fuel c) RegOk.
    Proof.
      induction c as [l cmp r | l cmp r op c' IH] using lcond_ind'; intros s0 s Hc;
        cbn [no_f7_lcond] in Hc; rewrite !Bool.andb_true_iff in Hc;
        destruct Hc as [[Hcl Hcr] Hcn];
        cbn [condition_expression]; cbv zeta;
        (eapply Hat0_bind; [apply Hat0_of_Hat, Hat_expression, Hcl|]; intros lres s1 R1 X1 HL;
         eapply Hat0_bind; [apply Hat0_of_Hat, Hat_expression, Hcr|]; intros rres s2 R2 X2 HR;
         destruct lres as [lr|]; [|apply Hat0_dead];
         destruct rres as [rr|]; [|apply Hat0_dead];
         destruct (negb (sem_ty_eqb _ _)); [apply Hat0_dead|];
         destruct (negb (is_prim _)); [apply Hat0_dead|];
         eapply Hat0_bind;
         [ apply Hat0_alloc; intro Hq; cbn [use_regs]; apply uses_ok_app;
           [ apply (cond_uses_ok s0 s1 s2 _ R1 X2);
             [intro Hq1; apply (HL Hq1); reflexivity | exact Hq]
           | apply (HR Hq); reflexivity ]
         | intros r3 s3 R3 X3 HP3 ]).
      - (* a single comparison: its register is the result *)
        eapply Hat0_bind with (Q1 := HeadOk).
        + apply Hat0_ret. intro Hq. eapply AllocPost_head; [|apply HP3, Hq]. reflexivity.
        + intros u s4 R4 X4 H4. apply Hat0_get_reg. exact H4.
      - (* a logic link: left input = the comparison's register, right input = the result of
           the rest, which is written when the rest added no error *)
        eapply Hat0_bind with (Q1 := HeadOk).
        + apply Hat0_get_reg_bind.
          eapply Hat0_bind; [apply IH, Hcn|]. intros rreg s4 R4 X4 H4.
          eapply Hat0_bind.
          * apply Hat0_alloc. intro Hq. cbn [use_regs].
            apply (uses_ok_app s4 [head_reg (frames s3)] [rreg]).
            -- apply (cond_uses_ok s0 s3 s4 _ R3 X4); [|exact Hq]. intro Hq3.
               eapply AllocPost_head; [|apply HP3, Hq3]. reflexivity.
            -- apply H4, Hq.
          * intros r5 s5 R5 X5 HP5. apply Hat0_ret. intro Hq.
            eapply AllocPost_head; [|apply HP5, Hq]. reflexivity.
        + intros u s6 R6 X6 H6. apply Hat0_get_reg. exact H6.
    Qed.

    Lemma Gat_if_condition_calculation c lb le lend ie s :
      no_f7_cond c = true -> Gat false s (if_condition_calculation G fuel c lb le lend ie).
    Proof.
      intro Hc. unfold if_condition_calculation. cbv zeta. destruct c as [e|lc]; cbn [no_f7_cond] in Hc.
      - eapply Hat_bind; [apply Hat_expression, Hc|]. intros r s1 R1 HQ.
        destruct r as [er|]; [|apply Hat_ret; exact I]. apply Gat_emit. apply HQ. reflexivity.
      - apply (Gat_of_Hat0 _ _ (fun _ _ => True)).
        eapply Hat0_bind; [apply Hat0_condition_expression, Hc|]. intros reg s1 R1 X1 H1.
        apply Hat0_emit. exact H1.
    Qed.

    (** ** The control level *)
    Section Control.
      Variable IFC : ifstmt -> option string -> option (string * string) -> M unit.
      Variable LOOP : list stmt -> M unit.
      Hypothesis HIFC : forall i le ll s, no_f7_if i = true -> Gat false s (IFC i le ll).
      Hypothesis HLOOP : forall body s, no_f7_stmts body = true -> Gat false s (LOOP body).

      Lemma Gat_nested_stmt k lend lloop fl st s :
        no_f7_stmt st = true ->
        Gat false s (nested_stmt G fuel RT IFC LOOP k lend lloop fl st).
      Proof.
        intro Hst.
        pose proof (Gat_let_binding false). pose proof (Gat_binding false).
        pose proof (Gat_call_stmt false).
        destruct st; cbn [nested_stmt]; cbv zeta;
          rewrite ?no_f7_stmt_loop in Hst; cbn [no_f7_stmt] in Hst; try solve [g_go].
        (* a nested return names the result of its expression *)
        eapply Hat_bind; [apply Hat_expression, Hst|]. intros r s1 R1 HQ.
        destruct r as [er|]; [|g_go]. specialize (HQ er eq_refl).
        apply Gat_bind; [apply Gat_check_return_type|]. intros _ s2 R2.
        apply Gat_bind; [apply Gat_emit; apply (ok_res_Rl _ _ _ _ R2), HQ|]. intros _ s3 _.
        g_go.
      Qed.

      Lemma Gat_run_body k lend lloop : forall ss fl s,
        no_f7_stmts ss = true ->
        Gat false s (run_body G fuel RT IFC LOOP k lend lloop fl ss).
      Proof.
        pose proof Gat_nested_stmt. pose proof (Gat_code_after_errors false).
        induction ss as [|st ss IH]; intros fl s Hss; cbn [run_body]; [g_go|].
        unfold no_f7_stmts in Hss. cbn [forallb] in Hss. fold (no_f7_stmts ss) in Hss.
        apply Bool.andb_true_iff in Hss as [Hst Hss]. g_go.
      Qed.

      Lemma Gat_if_body bd lend lloop s :
        no_f7_ifbody bd = true -> Gat false s (if_body G fuel RT IFC LOOP bd lend lloop).
      Proof.
        intro Hbd. pose proof Gat_run_body. unfold if_body.
        destruct bd; rewrite ?no_f7_ifbody_IBIf, ?no_f7_ifbody_IBLoop in Hbd; g_go.
      Qed.

      Lemma Gat_if_condition_step i le ll s :
        no_f7_if i = true -> Gat false s (if_condition_step G fuel RT IFC LOOP i le ll).
      Proof.
        intro Hi. pose proof Gat_if_body. pose proof Gat_if_condition_calculation.
        destruct i as [c body els elif]. apply no_f7_if_IfS in Hi as (Hc & Hbody & Hels & Helif).
        cbn [if_condition_step]. g_go.
      Qed.

      Lemma Gat_loop_step body s :
        no_f7_stmts body = true -> Gat false s (loop_step G fuel RT IFC LOOP body).
      Proof. intro Hb. pose proof Gat_run_body. unfold loop_step. g_go. Qed.
    End Control.

    Lemma Gat_control n :
      (forall i le ll s, no_f7_if i = true -> Gat false s (if_condition G fuel RT n i le ll)) /\
      (forall body s, no_f7_stmts body = true -> Gat false s (loop_statement G fuel RT n body)).
    Proof.
      induction n as [|n [IH1 IH2]]; split; intros; cbn [if_condition loop_statement];
        try apply Hat_oof.
      - apply Gat_if_condition_step; assumption.
      - apply Gat_loop_step; assumption.
    Qed.

    Lemma Gat_fn_stmt returned st s :
      no_f7_stmt st = true -> Gat false s (fn_stmt G fuel RT returned st).
    Proof.
      intro Hst.
      pose proof (Gat_let_binding false). pose proof (Gat_binding false).
      pose proof (Gat_call_stmt false). destruct (Gat_control fuel) as [HI HL].
      destruct st; cbn [fn_stmt]; cbv zeta;
        rewrite ?no_f7_stmt_loop in Hst; cbn [no_f7_stmt] in Hst; try solve [g_go].
      (* the function-level return (and the expression statement, which is the same code) *)
      all: eapply Hat_bind; [apply Hat_expression, Hst|]; intros r s1 R1 HQ;
        apply Gat_bind; [apply Gat_when, Gat_add_error|]; intros _ s2 R2;
        destruct r as [er|]; [|g_go]; specialize (HQ er eq_refl);
        apply Gat_bind; [apply Gat_check_type_exists|]; intros _ s3 R3;
        apply Gat_bind; [apply Gat_when, Gat_add_error|]; intros _ s4 R4;
        apply Hat_gets_bind;
        apply Gat_bind;
        [ destruct (head_mret _); apply Gat_emit;
          apply (ok_res_Rl _ _ _ _ R4), (ok_res_Rl _ _ _ _ R3), (ok_res_Rl _ _ _ _ R2), HQ
        | intros; apply Hat_ret; exact I ].
    Qed.

    Lemma Gat_fn_stmts : forall ss returned s,
      no_f7_stmts ss = true -> Gat false s (fn_stmts G fuel RT returned ss).
    Proof.
      pose proof Gat_fn_stmt.
      induction ss as [|st ss IH]; intros returned s Hss; cbn [fn_stmts]; [g_go|].
      unfold no_f7_stmts in Hss. cbn [forallb] in Hss. fold (no_f7_stmts ss) in Hss.
      apply Bool.andb_true_iff in Hss as [Hst Hss]. g_go.
    Qed.
  End Stmts.

  Lemma Gat_function_body_m f s : no_f7_fn f = true -> Gat false s (function_body_m G f).
  Proof.
    intro Hf. unfold no_f7_fn in Hf.
    pose proof (Gat_init_func_params false). pose proof Gat_fn_stmts.
    unfold function_body_m. g_go.
  Qed.
End Body.

(** ** The expression level, stated on its own: whatever errors are reported, the instructions
    pushed by the analysis of an expression outside K_F7 read only registers that are written
    at that point, and so does whoever names the result afterwards. *)
Theorem expression_reads_written : forall G fuel e s r s',
  no_f7_expr e = true ->
  frames s <> [] -> expression G fuel e s = Ok r s' ->
  (exists c, Ctx s' = Ctx s ++ c /\ scan false (Seen s) c = true) /\
  (forall er, r = Some er -> forallb (reg_ok false (Seen s')) (eres_reg er) = true).
Proof.
  intros G fuel e s r s' He Hne H.
  destruct (Hat_expression G true fuel e s He Hne r s' H) as [(_ & c & e0 & C & _ & S) HQ].
  split; [exists c; split; [exact C | apply S; left; reflexivity] | exact HQ].
Qed.

(** ** Function bodies and the driver *)
Lemma function_body_Rl G errs0 f a s :
  no_f7_fn f = true ->
  function_body G errs0 f = Ok a s -> Rl false (BSt [empty_block] errs0) s.
Proof.
  intros Hf H. unfold function_body in H.
  refine (proj1 (Gat_function_body_m G f (BSt [empty_block] errs0) Hf _ a s H)). discriminate.
Qed.

Lemma function_body_C08 G errs0 f a s :
  no_f7_fn f = true ->
  function_body G errs0 f = Ok a s -> errs s = errs0 -> scan false [] (Ctx s) = true.
Proof.
  intros Hf H Hq. destruct (function_body_Rl _ _ _ _ _ Hf H) as (_ & c & e & C & E & S).
  cbn [errs] in E. rewrite E in Hq. apply app_eq_self_nil in Hq.
  change (Ctx (BSt [empty_block] errs0)) with (@nil instr) in C. rewrite C. cbn [app].
  apply S. right. exact Hq.
Qed.

Lemma bodies_C08 G : forall fs errs0 roots errs1 roots1,
  forallb no_f7_fn fs = true ->
  bodies G errs0 roots fs = inr (errs1, roots1) ->
  (exists e, errs1 = errs0 ++ e) /\
  (errs1 = errs0 -> Forall (fun b => chk_C08_root false b = true) roots ->
   Forall (fun b => chk_C08_root false b = true) roots1).
Proof.
  induction fs as [|f fs IH]; intros errs0 roots errs1 roots1 Hfs H; cbn [bodies] in H.
  - inversion H; subst. split; [exists []; rewrite app_nil_r; reflexivity | trivial].
  - cbn [forallb] in Hfs. apply Bool.andb_true_iff in Hfs as [Hf Hfs].
    destruct (function_body G errs0 f) as [a s| |] eqn:E; try discriminate.
    destruct (frames s) as [|root [|]] eqn:Ef; try discriminate.
    destruct (IH _ _ _ _ Hfs H) as [[e2 E2] HF].
    destruct (function_body_errs _ _ _ _ _ E) as [e1 E1].
    split; [exists (e1 ++ e2); rewrite E2, E1, app_assoc; reflexivity|].
    intros Hq Hroots.
    assert (He : e1 = [] /\ e2 = []).
    { rewrite E2, E1, <- app_assoc in Hq. apply app_eq_self_nil, app_eq_nil in Hq. exact Hq. }
    destruct He as [-> ->]. rewrite app_nil_r in E1, E2.
    apply HF; [exact E2|]. apply Forall_app. split; [exact Hroots|].
    constructor; [|constructor].
    pose proof (function_body_C08 _ _ _ _ _ Hf E E1) as Hs.
    unfold Ctx in Hs. rewrite Ef in Hs. exact Hs.
Qed.
End Intended.

(** ** The theorems *)

(** The expression level, whatever errors are reported. *)
Theorem expression_reads_written : forall G fuel e s r s',
  no_f7_expr e = true ->
  frames s <> [] -> expression G fuel e s = Ok r s' ->
  (exists c, Ctx s' = Ctx s ++ c /\ scan false (Seen s) c = true) /\
  (forall er, r = Some er -> forallb (reg_ok false (Seen s')) (eres_reg er) = true).
Proof. exact Intended.expression_reads_written. Qed.

(** C08 as intended, outside K_F7: in every function stack of an accepted program without
    call-as-value and field-read leaves, every register that is read was written earlier in the
    same stack. *)
Theorem run_reads_written : forall p out,
  run p = ROk out -> o_errors out = [] -> no_f7_leaves p = true -> chk_C08 false out = true.
Proof.
  intros p out H Hacc Hp. unfold run in H.
  destruct (bodies (gs_globals (declarations p)) (gs_errs (declarations p)) [] (functions_of p))
    as [r|[errors roots]] eqn:E; [exfalso; eapply bodies_inl_not_ok; eauto|].
  inversion H; subst; clear H. cbn [o_errors] in Hacc. subst errors.
  unfold chk_C08. cbn [o_fns]. apply forallb_forall. apply Forall_forall.
  destruct (Intended.bodies_C08 _ _ _ _ _ _ Hp E) as [[e He] HF].
  symmetry in He. apply app_eq_nil in He as [He0 _].
  apply HF; [symmetry; exact He0 | constructor].
Qed.

(** The two monitors on the same output: the intended one implies the one with the finding
    (any output). *)
Lemma reg_ok_false_true sn n : reg_ok false sn n = true -> reg_ok true sn n = true.
Proof. unfold reg_ok. cbn. rewrite Bool.orb_false_r. intros ->. reflexivity. Qed.

Lemma scan_false_true : forall c sn, scan false sn c = true -> scan true sn c = true.
Proof.
  induction c as [|i c IH]; intros sn H; [reflexivity|].
  cbn [scan] in *. apply Bool.andb_true_iff in H as [Hu Hc].
  rewrite (IH _ Hc), Bool.andb_true_r.
  rewrite forallb_forall in *. intros n Hn. apply reg_ok_false_true, Hu, Hn.
Qed.

Theorem chk_C08_false_true o : chk_C08 false o = true -> chk_C08 true o = true.
Proof.
  unfold chk_C08. rewrite !forallb_forall. intros H b Hb. apply scan_false_true, H, Hb.
Qed.

Print Assumptions no_f7_fold_priority.
Print Assumptions expression_reads_written.
Print Assumptions run_reads_written.
Print Assumptions chk_C08_false_true.
