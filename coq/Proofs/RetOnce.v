(** C11, the part that needs acceptance: in an accepted program the stack of every function holds
    exactly one function-return instruction (its last instruction), and as many jump-to-return
    instructions as the source has [return] statements nested in if / loop bodies.

    The argument counts.  A computation of the body phase appends one common delta [d] to the
    stack of every live frame ([DS], from [FlowSem.v]); [jr d] / [fr d] are the numbers of
    jump-to-return / function-return instructions of [d]:

    - the code of an expression, a declaration, an assignment, a call statement and a condition
      is straight-line ([Line], from [FlowExpr.v]): both numbers are 0;
    - a nested statement / body / if / loop appends a delta with [fr d = 0] and
      [jr d = rets_... ] of the source construct ([Cnt]): the only instruction that is not
      straight-line and not a jump is the [IJumpFnRet] of [nested_stmt]'s [SRet] case; acceptance
      is what makes every nested [return] reach that [emit] (its expression does not fail) and
      what excludes a second [else] part being skipped silently;
    - a function-level statement appends [fr d = 1] exactly when it is the return / expression
      statement; after it no statement is analysed in an accepted run.

    With [accepted_stack_ends_with_return] (the last instruction is a function return) and
    [run_return_form] (the form of every return instruction is decided by "a jump-to-return
    occurred before") this is the monitor [chk_C11]. *)
From Coq Require Import Lia.
From SA Require Import Model.
From SA.Spec Require Import Stack Exec.
From SA.Mon Require Import Control.
From SA.Proofs Require Import Trace InvNames InvLabels Resolve ExecBasic.
From SA.Proofs Require Import FlowBasic FlowSem FlowExpr FlowFrag FlowSim.
From SA.Proofs Require InvRet.
Local Open Scope list_scope.

(** ** Counting *)
Definition jr (d : list instr) : nat := count_instr Control.is_jump_fn_ret d.
Definition fr (d : list instr) : nat := count_instr Control.is_fn_ret d.

Lemma count_instr_app f a b : count_instr f (a ++ b) = (count_instr f a + count_instr f b)%nat.
Proof. unfold count_instr. rewrite filter_app, app_length. reflexivity. Qed.
Lemma count_instr_cons f i d :
  count_instr f (i :: d) = ((if f i then 1 else 0) + count_instr f d)%nat.
Proof. unfold count_instr. cbn [filter]. destruct (f i); reflexivity. Qed.

Lemma jr_app a b : jr (a ++ b) = (jr a + jr b)%nat.
Proof. apply count_instr_app. Qed.
Lemma fr_app a b : fr (a ++ b) = (fr a + fr b)%nat.
Proof. apply count_instr_app. Qed.
Lemma jr_cons i d : jr (i :: d) = ((if Control.is_jump_fn_ret i then 1 else 0) + jr d)%nat.
Proof. apply count_instr_cons. Qed.
Lemma fr_cons i d : fr (i :: d) = ((if Control.is_fn_ret i then 1 else 0) + fr d)%nat.
Proof. apply count_instr_cons. Qed.
Lemma jr_nil : jr [] = O.
Proof. reflexivity. Qed.
Lemma fr_nil : fr [] = O.
Proof. reflexivity. Qed.

(** [n] jump-to-return instructions, no function-return instruction *)
Definition Cnt (n : nat) (d : list instr) : Prop := jr d = n /\ fr d = O.

Lemma Line_Cnt d : Line d -> Cnt O d.
Proof.
  induction d as [|i d IH]; intro HL; [split; reflexivity|].
  apply Line_cons in HL as [Hi HL]. destruct (IH HL) as [H1 H2].
  split; [rewrite jr_cons, H1 | rewrite fr_cons, H2]; destruct i; try discriminate; reflexivity.
Qed.

Lemma fr_zero_none d : fr d = O -> forall i, In i d -> Control.is_fn_ret i = false.
Proof.
  induction d as [|j d IH]; intros H i Hi; [contradiction|].
  rewrite fr_cons in H. destruct Hi as [->|Hi].
  - destruct (Control.is_fn_ret i); [discriminate | reflexivity].
  - apply IH; [|exact Hi]. destruct (Control.is_fn_ret j); [discriminate | exact H].
Qed.

(** closing a case: the final delta is an explicit concatenation of counted pieces *)
Ltac cnt_norm :=
  repeat rewrite ?jr_app, ?fr_app, ?jr_cons, ?fr_cons, ?jr_nil, ?fr_nil;
  cbn [Control.is_jump_fn_ret Control.is_fn_ret].
Ltac cnt_hyps :=
  repeat match goal with
         | H : Cnt _ _ |- _ => destruct H as [? ?]
         | H : Line _ |- _ => apply Line_Cnt in H
         end.
Ltac cnt_fin :=
  cnt_hyps; unfold Cnt; cnt_norm; subst; cnt_norm; split; lia.

(** ** The syntactic count, as list folds *)
Definition rets_list (ss : list stmt) : nat := fold_right (fun s n => (rets_stmt s + n)%nat) O ss.

Lemma rets_loop body : rets_stmt (SLoop body) = rets_list body.
Proof.
  cbn [rets_stmt]. induction body as [|s body IH]; [reflexivity|].
  cbn [rets_list fold_right]. fold (rets_list body). rewrite <- IH. reflexivity.
Qed.

Lemma rets_ifbody_list b : rets_ifbody b = rets_list (ifbody_stmts b).
Proof.
  destruct b as [ss|ss]; cbn [rets_ifbody ifbody_stmts];
    (induction ss as [|s ss IH]; [reflexivity|]);
    cbn [rets_list fold_right]; fold (rets_list ss); rewrite <- IH; reflexivity.
Qed.

Lemma rets_if_eq c body els elif :
  rets_if (IfS c body els elif) =
  (rets_ifbody body + match els with Some b => rets_ifbody b | None => O end +
   match elif with Some i' => rets_if i' | None => O end)%nat.
Proof. reflexivity. Qed.

Lemma nested_rets_cons st ss : nested_rets (st :: ss) = (nested_rets_stmt st + nested_rets ss)%nat.
Proof. reflexivity. Qed.

(** ** The walk *)
Lemma DS_seq_ret {A B} (m : M A) (b : B) (Q : list instr -> Prop) :
  DS m (fun _ d => Q d) -> DS (m ;;; ret b) (fun b' d => b' = b /\ Q d).
Proof.
  intros Hm s b' s' Hne H Hacc. apply bind_ok in H as (a & s1 & E & H). inversion H; subst.
  destruct (Hm s a s' Hne E Hacc) as (d & HC & HQ). exists d. split; [exact HC|].
  split; [reflexivity | exact HQ].
Qed.

Lemma DS_Line_Cnt {A} (m : M A) P : SL m P -> DS m (fun _ d => Cnt O d).
Proof. intro H. eapply DS_conseq; [exact H|]. intros a d [HL _]. apply Line_Cnt, HL. Qed.

Section Count.
  Variable G : globals.
  Hypothesis HG : fnames_ok G.
  Variable fuel : nat.
  Variable RT : sem_ty.

  Lemma C_calc cnd lb le lend ie :
    DS (if_condition_calculation G fuel cnd lb le lend ie) (fun _ d => Cnt O d).
  Proof.
    unfold if_condition_calculation. cbv zeta. destruct cnd as [e|lc]; intros s u s' Hne H Hacc.
    - dstep H Hacc as r E Hacc1.
      destruct (SL_expression G HG fuel e s r _ Hne E Hacc1) as (d0 & HC0 & HL0 & Hr & _).
      destruct r as [er|]; [|congruence].
      exists (d0 ++ [IIfCondExpr er lb (if ie then le else lend)]).
      split; [rewrite <- adds_adds, <- HC0; eapply emit_ctxs, H|]. cnt_fin.
    - dstep H Hacc as r E Hacc1.
      destruct (SL_condition_expression G HG fuel lc s r _ Hne E Hacc1) as (d0 & HC0 & HL0 & _).
      exists (d0 ++ [IIfCondLogic lb (if ie then le else lend) r]).
      split; [rewrite <- adds_adds, <- HC0; eapply emit_ctxs, H|]. cnt_fin.
  Qed.

  Section Control.
    Variable IFC : ifstmt -> option string -> option (string * string) -> M unit.
    Variable LOOP : list stmt -> M unit.
    Hypothesis HIFC : forall i oe ll, DS (IFC i oe ll) (fun _ d => Cnt (rets_if i) d).
    Hypothesis HLOOP : forall body, DS (LOOP body) (fun _ d => Cnt (rets_list body) d).
    Hypothesis HIFCr : forall i oe ll, R2 (IFC i oe ll).
    Hypothesis HLOOPr : forall body, R2 (LOOP body).

    Lemma C_IFCm i oe ll : Mono (IFC i oe ll).
    Proof. apply Mono_R2, HIFCr. Qed.
    Lemma C_LOOPm body : Mono (LOOP body).
    Proof. apply Mono_R2, HLOOPr. Qed.
    Lemma C_Mono_nested_stmt k lend lloop fl st :
      Mono (nested_stmt G fuel RT IFC LOOP k lend lloop fl st).
    Proof. apply Mono_R2, R2_nested_stmt; assumption. Qed.
    Lemma C_Mono_run_body k lend lloop fl ss : Mono (run_body G fuel RT IFC LOOP k lend lloop fl ss).
    Proof. apply Mono_R2, R2_run_body; assumption. Qed.
    Lemma C_Mono_if_body b lend lloop : Mono (if_body G fuel RT IFC LOOP b lend lloop).
    Proof. apply Mono_R2, R2_if_body; assumption. Qed.

    Lemma C_nested_stmt k lend lloop fl st :
      DS (nested_stmt G fuel RT IFC LOOP k lend lloop fl st) (fun _ d => Cnt (rets_stmt st) d).
    Proof.
      destruct st; cbn [nested_stmt].
      - eapply DS_conseq; [apply DS_seq_ret, (DS_Line_Cnt _ _ (SL_let_binding G HG fuel x mut ty e))|].
        intros fl' d [_ H]. exact H.
      - eapply DS_conseq; [apply DS_seq_ret, (DS_Line_Cnt _ _ (SL_binding G HG fuel x e))|].
        intros fl' d [_ H]. exact H.
      - eapply DS_conseq; [apply DS_seq_ret, (DS_Line_Cnt _ _ (SL_call_stmt G HG fuel f args))|].
        intros fl' d [_ H]. exact H.
      - destruct k; (eapply DS_conseq; [apply DS_seq_ret, HIFC|]); intros fl' d [_ H]; exact H.
      - eapply DS_conseq; [apply DS_seq_ret, HLOOP|]. intros fl' d [_ H]. rewrite rets_loop. exact H.
      - (* return: the one jump-to-return *)
        intros s fl' s' Hne H Hacc.
        pose proof (Mono_check_return_type RT) as HM1.
        dstep H Hacc as r E Hacc1.
        destruct (SL_expression G HG fuel e s r _ Hne E Hacc1) as (d0 & HC0 & HL0 & Hr & _).
        destruct r as [er|]; [|congruence].
        remember (ctxs s) as C eqn:HCs. symmetry in HCs. clear HCs.
        rename HC0 into HC.
        dstep H Hacc as u1 E1 Hacc2. score (check_return_type_ctxs RT er) in E1.
        dstep H Hacc as u2 E2 Hacc3. ecore E2.
        dstep H Hacc as u3 E3 Hacc4. score set_return_ctxs in E3.
        inversion H; subst; clear H.
        eexists. split; [exact HC|]. cbn [rets_stmt]. cnt_fin.
      - intros s fl' s' Hne H. discriminate.
      - destruct k; try (intros s fl' s' Hne H; discriminate);
          (destruct lloop as [[lb le]|]; [|intros s fl' s' Hne H; discriminate]);
          (intros s fl' s' _ H _; apply bind_ok in H as (u & s1 & E & H); inversion H; subst;
           exists [IJumpTo le]; split; [eapply emit_ctxs, E | cbn [rets_stmt]; cnt_fin]).
      - destruct k; try (intros s fl' s' Hne H; discriminate);
          (destruct lloop as [[lb le]|]; [|intros s fl' s' Hne H; discriminate]);
          (intros s fl' s' _ H _; apply bind_ok in H as (u & s1 & E & H); inversion H; subst;
           exists [IJumpTo lb]; split; [eapply emit_ctxs, E | cbn [rets_stmt]; cnt_fin]).
    Qed.

    Lemma C_run_body k lend lloop : forall ss fl,
      DS (run_body G fuel RT IFC LOOP k lend lloop fl ss) (fun _ d => Cnt (rets_list ss) d).
    Proof.
      pose proof C_Mono_nested_stmt as HM1. pose proof C_Mono_run_body as HM2.
      induction ss as [|st ss IH]; intros fl s fl' s' Hne H Hacc; cbn [run_body] in H.
      - inversion H; subst. exists []. rewrite adds_nil. split; [reflexivity | split; reflexivity].
      - dstep H Hacc as u E Hacc1.
        pose proof (code_after_errors_ctxs _ _ _ _ _ E) as HC0.
        dstep H Hacc as fl1 E1 Hacc2.
        assert (Hne0 : ctxs s0 <> []) by (rewrite HC0; exact Hne).
        destruct (C_nested_stmt k lend lloop fl st _ _ _ Hne0 E1 Hacc2) as (d1 & HC1 & HF1).
        assert (Hne1 : ctxs s1 <> []) by (rewrite HC1; apply adds_ne, Hne0).
        destruct (IH fl1 _ _ _ Hne1 H Hacc) as (d2 & HC2 & HF2).
        exists (d1 ++ d2). split; [rewrite HC2, HC1, HC0, adds_adds; reflexivity|].
        cbn [rets_list fold_right]. fold (rets_list ss). cnt_fin.
    Qed.

    Lemma C_if_body b lend lloop :
      DS (if_body G fuel RT IFC LOOP b lend lloop) (fun _ d => Cnt (rets_ifbody b) d).
    Proof.
      rewrite rets_ifbody_list. destruct b as [ss|ss]; cbn [if_body ifbody_stmts].
      - intros s r s' Hne H Hacc. apply bind_ok in H as (fl & s1 & E & H). inversion H; subst.
        exact (C_run_body KIf lend lloop ss flags0 _ _ _ Hne E Hacc).
      - destruct lloop as [l|]; [|intros s r s' Hne H; discriminate].
        intros s r s' Hne H Hacc. apply bind_ok in H as (fl & s1 & E & H). inversion H; subst.
        exact (C_run_body KIfLoop lend (Some l) ss flags0 _ _ _ Hne E Hacc).
    Qed.

    Lemma C_jump_end returned lend :
      DS (when (negb returned) (emit (IJumpTo lend))) (fun _ d => Cnt O d).
    Proof.
      intros s u s' _ H _. destruct returned; cbn [negb when] in H.
      - inversion H; subst. exists []. rewrite adds_nil. split; [reflexivity | split; reflexivity].
      - exists [IJumpTo lend]. split; [eapply emit_ctxs, H | cnt_fin].
    Qed.
    Lemma C_jump_end_kid slot returned lend :
      DS (when (negb returned) (emit_kid slot (IJumpTo lend))) (fun _ d => Cnt O d).
    Proof.
      intros s u s' _ H _. destruct returned; cbn [negb when] in H.
      - inversion H; subst. exists []. rewrite adds_nil. split; [reflexivity | split; reflexivity].
      - exists [IJumpTo lend]. split; [eapply emit_kid_ctxs, H | cnt_fin].
    Qed.
    Lemma C_set_end (b : bool) lend :
      DS (when b (emit (ISetLabel lend))) (fun _ d => Cnt O d).
    Proof.
      intros s u s' _ H _. destruct b; cbn [when] in H.
      - exists [ISetLabel lend]. split; [eapply emit_ctxs, H | cnt_fin].
      - inversion H; subst. exists []. rewrite adds_nil. split; [reflexivity | split; reflexivity].
    Qed.
    Lemma C_set_end_kid slot (b : bool) lend :
      DS (when b (emit_kid slot (ISetLabel lend))) (fun _ d => Cnt O d).
    Proof.
      intros s u s' _ H _. destruct b; cbn [when] in H.
      - exists [ISetLabel lend]. split; [eapply emit_kid_ctxs, H | cnt_fin].
      - inversion H; subst. exists []. rewrite adds_nil. split; [reflexivity | split; reflexivity].
    Qed.

    Lemma C_if_condition_step i oe ll :
      DS (if_condition_step G fuel RT IFC LOOP i oe ll) (fun _ d => Cnt (rets_if i) d).
    Proof.
      pose proof C_Mono_if_body as HM1. pose proof (Mono_if_condition_calculation G fuel) as HM2.
      pose proof C_IFCm as HM3.
      destruct i as [cnd body els elif]. intros s0 a s_end Hne H Hacc.
      remember (ctxs s0) as C eqn:HC. symmetry in HC.
      cbn [if_condition_step] in H. rewrite rets_if_eq.
      dstep H Hacc as u0 E0 Hacc0.
      destruct (when_error_acc _ _ _ _ _ E0 Hacc0) as [Hboth ->]. clear E0 Hacc0.
      dstep H Hacc as u1 E1 Hacc1. ecore E1.
      dstep H Hacc as lbegin E2 Hacc2. ecore E2.
      dstep H Hacc as lelse E3 Hacc3. ecore E3.
      dstep H Hacc as lend E4 Hacc4.
      destruct (lend_ctxs _ _ _ _ E4) as [HC4 _]. rewrite HC in HC4. clear HC E4. rename HC4 into HC.
      cbv zeta in H.
      dstep H Hacc as u5 E5 Hacc5.
      dcore (C_calc cnd lbegin lelse lend (is_some els || is_some elif)) as d1 Hd1 in E5.
      dstep H Hacc as u6 E6 Hacc6. ecore E6.
      dstep H Hacc as returned E7 Hacc7. dcore (C_if_body body lend ll) as d2 Hd2 in E7.
      dstep H Hacc as u8 E8 Hacc8. dcore (C_jump_end returned lend) as j Hj in E8.
      destruct els as [eb|]; [destruct elif as [ei|]; [discriminate|]|destruct elif as [ei|]];
        cbn [is_some orb] in H.
      - (* else *)
        dstep H Hacc as u9 E9 Hacc9. ecore E9.
        dstep H Hacc as slot E10 Hacc10. ecore E10.
        dstep H Hacc as u11 Hmid Hacc11.
        dstep Hmid Hacc11 as v1 F1 Hf1. ecore F1.
        dstep Hmid Hacc11 as returned' F2 Hf2. dcore (C_if_body eb lend ll) as d3 Hd3 in F2.
        dstep Hmid Hacc11 as v3 F3 Hf3. ecore F3.
        dcore (C_jump_end_kid slot returned' lend) as j' Hj' in Hmid.
        dcore (C_set_end_kid slot (negb (is_some oe)) lend) as t Ht in H.
        eexists. split; [exact HC|]. cnt_fin.
      - (* else-if *)
        dstep H Hacc as u9 E9 Hacc9. ecore E9.
        dstep H Hacc as slot E10 Hacc10. ecore E10.
        dstep H Hacc as u11 E11 Hacc11. dcore (HIFC ei (Some lend) ll) as d3 Hd3 in E11.
        dcore (C_set_end_kid slot (negb (is_some oe)) lend) as t Ht in H.
        eexists. split; [exact HC|]. cnt_fin.
      - (* no else part *)
        dstep H Hacc as u9 E9 Hacc9. dcore (C_set_end (negb (is_some oe)) lend) as t Ht in E9.
        dstep H Hacc as u10 E10 Hacc10. ecore E10.
        inversion H; subst; clear H.
        eexists. split; [exact HC|]. cnt_fin.
    Qed.

    Lemma C_loop_step body :
      DS (loop_step G fuel RT IFC LOOP body) (fun _ d => Cnt (rets_list body) d).
    Proof.
      pose proof C_Mono_run_body as HM1.
      intros s0 a s_end Hne H Hacc.
      remember (ctxs s0) as C eqn:HC. symmetry in HC.
      unfold loop_step in H.
      dstep H Hacc as u1 E1 Hacc1. ecore E1.
      dstep H Hacc as lbegin E2 Hacc2. ecore E2.
      dstep H Hacc as lend E3 Hacc3. ecore E3.
      dstep H Hacc as u4 E4 Hacc4. ecore E4.
      dstep H Hacc as u5 E5 Hacc5. ecore E5.
      dstep H Hacc as fl E6 Hacc6.
      dcore (C_run_body KLoop "" (Some (lbegin, lend)) body flags0) as db Hdb in E6.
      dstep H Hacc as u7 Hmid Hacc7.
      destruct (fl_ret fl).
      - rewrite bind_gets_eq in Hmid.
        dcore (C_set_end (existsb (is_jump_to lend) (head_ctx (frames s5))) lend) as t Ht in Hmid.
        dstep H Hacc as u8 E8 Hacc8. ecore E8. inversion H; subst; clear H.
        eexists. split; [exact HC|]. cnt_fin.
      - dstep Hmid Hacc7 as v1 F1 Hf1. ecore F1. ecore Hmid.
        dstep H Hacc as u8 E8 Hacc8. ecore E8. inversion H; subst; clear H.
        eexists. split; [exact HC|]. cnt_fin.
    Qed.
  End Control.

  Lemma C_control n :
    (forall i oe ll, DS (if_condition G fuel RT n i oe ll) (fun _ d => Cnt (rets_if i) d)) /\
    (forall body, DS (loop_statement G fuel RT n body) (fun _ d => Cnt (rets_list body) d)).
  Proof.
    induction n as [|n [IH1 IH2]]; split; intros; cbn [if_condition loop_statement];
      try (intros s a s' _ H; discriminate);
      destruct (R2_control G fuel RT n) as [R1 R2'].
    - apply C_if_condition_step; assumption.
    - apply C_loop_step; assumption.
  Qed.

  (** ** The function level *)
  Definition fr_of (returned : bool) : nat := if returned then 1%nat else O.

  Lemma C_fn_stmt st :
    DS (fn_stmt G fuel RT false st)
       (fun ret' d => jr d = nested_rets_stmt st /\ fr d = fr_of ret').
  Proof.
    destruct (C_control fuel) as [HI HLp].
    assert (Hret : forall e,
      DS (r <- expression G fuel e ;;
          when false (add_error (Err EReturnAlreadyCalled None loc10)) ;;;
          match r with
          | Some er =>
              check_type_exists G (r_ty er) None loc10 ;;;
              when (negb (sem_ty_eqb RT (r_ty er))) (add_error (Err EWrongReturnType None loc10)) ;;;
              mret <- gets head_mret ;;
              (if mret then emit (IFnRetLabel er) else emit (IFnRet er)) ;;;
              ret true
          | None => ret false
          end)
         (fun ret' d => jr d = O /\ fr d = fr_of ret')).
    { intros e s ret' s' Hne H Hacc.
      pose proof (Mono_check_type_exists G) as HM1.
      dstep H Hacc as r E Hacc1.
      destruct (SL_expression G HG fuel e s r _ Hne E Hacc1) as (d0 & HC0 & HL0 & Hr & _).
      destruct r as [er|]; [|congruence].
      remember (ctxs s) as C eqn:HCs. symmetry in HCs. clear HCs. rename HC0 into HC.
      dstep H Hacc as u1 E1 Hacc2. score (when_error_ctxs _ _) in E1.
      dstep H Hacc as u2 E2 Hacc3. score (check_type_exists_ctxs G (r_ty er) None loc10) in E2.
      dstep H Hacc as u3 E3 Hacc4. score (when_error_ctxs _ _) in E3.
      rewrite bind_gets_eq in H.
      dstep H Hacc as u4 E4 Hacc5. inversion H; subst; clear H.
      apply Line_Cnt in HL0 as [Hj0 Hf0].
      destruct (head_mret (frames s3)); ecore E4; (eexists; split; [exact HC|]);
        cnt_norm; cbn [fr_of]; split; lia. }
    destruct st; cbn [fn_stmt nested_rets_stmt].
    - eapply DS_conseq; [apply DS_seq_ret, (DS_Line_Cnt _ _ (SL_let_binding G HG fuel x mut ty e))|].
      intros r d [-> [H1 H2]]. split; assumption.
    - eapply DS_conseq; [apply DS_seq_ret, (DS_Line_Cnt _ _ (SL_binding G HG fuel x e))|].
      intros r d [-> [H1 H2]]. split; assumption.
    - eapply DS_conseq; [apply DS_seq_ret, (DS_Line_Cnt _ _ (SL_call_stmt G HG fuel f args))|].
      intros r d [-> [H1 H2]]. split; assumption.
    - eapply DS_conseq; [apply DS_seq_ret, HI|].
      intros r d [-> [H1 H2]]. split; assumption.
    - eapply DS_conseq; [apply DS_seq_ret, HLp|].
      intros r d [-> [H1 H2]]. rewrite rets_loop. split; assumption.
    - apply Hret.
    - apply Hret.
    - intros s a s' _ H. discriminate.
    - intros s a s' _ H. discriminate.
  Qed.

  Lemma C_fn_stmts : forall ss ret0,
    DS (fn_stmts G fuel RT ret0 ss)
       (fun ret1 d =>
          (ret0 = false -> jr d = nested_rets ss /\ fr d = fr_of ret1) /\
          (ret0 = true -> ss = [] /\ d = [] /\ ret1 = true)).
  Proof.
    pose proof (Mono_fn_stmt G fuel RT) as HM1. pose proof (Mono_fn_stmts G fuel RT) as HM2.
    induction ss as [|st ss IH]; intros ret0 s ret1 s' Hne H Hacc; cbn [fn_stmts] in H.
    - inversion H; subst. exists []. rewrite adds_nil. split; [reflexivity|]. split.
      + intros ->. split; reflexivity.
      + intros ->. repeat split.
    - dstep H Hacc as u E Hacc1.
      destruct (when_error_acc _ _ _ _ _ E Hacc1) as [-> ->]. clear E.
      dstep H Hacc as r1 E1 Hacc2.
      destruct (C_fn_stmt st _ _ _ Hne E1 Hacc2) as (d1 & HC1 & Hj1 & Hf1).
      pose proof (adds_ne d1 _ Hne) as Hne1. rewrite <- HC1 in Hne1.
      destruct (IH r1 _ _ _ Hne1 H Hacc) as (d2 & HC2 & HF2 & HF2').
      exists (d1 ++ d2). split; [rewrite HC2, HC1, adds_adds; reflexivity|].
      split; [|discriminate]. intros _. rewrite nested_rets_cons, jr_app, fr_app.
      destruct r1.
      + destruct (HF2' eq_refl) as (-> & -> & ->). cbn [nested_rets fold_right fr_of] in *.
        rewrite jr_nil, fr_nil. split; lia.
      + destruct (HF2 eq_refl) as [Hj2 Hf2]. cbn [fr_of] in Hf1. split; lia.
  Qed.
End Count.

(** ** One function *)
Lemma function_body_counts G f a s root :
  fnames_ok G -> function_body G [] f = Ok a s -> errs s = [] -> frames s = [root] ->
  jr (b_ctx root) = nested_rets (fn_body f) /\ fr (b_ctx root) = 1%nat.
Proof.
  intros HG H Hacc Hf.
  unfold function_body, function_body_m in H.
  pose proof Mono_init_func_params as HM0.
  pose proof (Mono_fn_stmts G (fuel_of f) (sem_of_ty (fn_result f))) as HM1.
  dstep H Hacc as u0 E0 Hacc0.
  assert (Hne0 : ctxs (BSt [empty_block] []) <> []) by discriminate.
  destruct (SL_init_func_params _ _ _ _ Hne0 E0 Hacc0) as (d0 & HC0 & HL0 & _).
  dstep H Hacc as returned E1 Hacc1.
  destruct (when_error_acc _ _ _ _ _ H Hacc) as [Hret ->]. clear H.
  apply Bool.negb_false_iff in Hret. subst returned.
  assert (Hne1 : ctxs s0 <> []) by (rewrite HC0; apply adds_ne, Hne0).
  destruct (C_fn_stmts G HG _ _ _ false _ _ _ Hne1 E1 Hacc) as (d1 & HC1 & HF & _).
  destruct (HF eq_refl) as [Hj Hfr].
  rewrite HC0 in HC1. unfold ctxs in HC1. rewrite Hf in HC1. cbn in HC1.
  inversion HC1 as [Hroot]. apply Line_Cnt in HL0 as [Hj0 Hf0].
  rewrite Hroot. cnt_norm. cbn [fr_of] in Hfr. split; lia.
Qed.

(** ** The monitor *)
Lemma existsb_is_jump_count c :
  existsb Control.is_jump_fn_ret c = InvRet.has_jump c.
Proof. reflexivity. Qed.

Lemma C11_fn_of_counts f root :
  (exists pre last, b_ctx root = pre ++ [last] /\ Control.is_fn_ret last = true) ->
  InvRet.form_ok false (b_ctx root) = true ->
  jr (b_ctx root) = nested_rets (fn_body f) -> fr (b_ctx root) = 1%nat ->
  chk_C11_fn f root = true.
Proof.
  intros (pre & last & Hc & Hlast) Hform Hj Hfr.
  unfold chk_C11_fn. rewrite Hc, rev_unit. rewrite <- Hc.
  fold (jr (b_ctx root)). rewrite Hj, Nat.eqb_refl, Hlast, Bool.andb_true_r. cbn [andb].
  assert (Hpre : fr pre = O).
  { rewrite Hc, fr_app, fr_cons, Hlast, fr_nil in Hfr. lia. }
  assert (Hnone : existsb Control.is_fn_ret (rev pre) = false).
  { apply existsb_false. intros i Hi. apply in_rev in Hi. exact (fr_zero_none pre Hpre i Hi). }
  rewrite Hnone. cbn [negb andb].
  assert (Hex : existsb Control.is_jump_fn_ret (rev pre) = InvRet.has_jump pre).
  { change (InvRet.has_jump pre) with (existsb Control.is_jump_fn_ret pre).
    destruct (existsb Control.is_jump_fn_ret pre) eqn:E.
    - apply existsb_exists in E as (i & Hi & Hx). apply existsb_exists. exists i.
      split; [apply in_rev in Hi; exact Hi | exact Hx].
    - apply existsb_false. intros i Hi. apply in_rev in Hi.
      exact (proj1 (existsb_false _ _) E i Hi). }
  rewrite Hex. rewrite Hc, InvRet.form_ok_snoc in Hform.
  apply Bool.andb_true_iff in Hform as [_ Hstep]. cbn [orb] in Hstep.
  destruct last; try discriminate; cbn [InvRet.step_ok Control.is_fn_ret_label] in *.
  - apply Bool.negb_true_iff in Hstep. rewrite Hstep. reflexivity.
  - rewrite Hstep. reflexivity.
Qed.

(** C11: in an accepted program, the stack of every function ends with exactly one
    function-return instruction and contains no other one; it is the with-label form exactly
    when a jump-to-return occurs earlier in the stack; the jump-to-return instructions are as
    many as the [return] statements nested in if / loop bodies. *)
Theorem run_single_return : forall p out,
  run p = ROk out -> o_errors out = [] -> chk_C11 p out = true.
Proof.
  intros p out H Hacc. unfold chk_C11.
  apply (proj2 (forallb2_Forall2 _ (fun f root => chk_C11_fn f root = true) _ _
                  (fun a b => iff_refl _))).
  pose proof (run_accepted_each p out H Hacc) as HF.
  pose proof (InvRet.run_return_form p out H) as HR.
  eapply Forall2_impl; [|exact (Forall2_Forall_r _ _ _ _ HF HR)]. cbv beta.
  intros f root [(a & s & Hb & He & Hfr) [Hform _]].
  destruct (function_body_counts _ f a s root (fnames_of_run p out H) Hb He Hfr) as [Hj Hf].
  apply C11_fn_of_counts; [|exact Hform | exact Hj | exact Hf].
  exact (function_body_ends _ _ _ _ _ Hb He Hfr).
Qed.

(** The Prop reading of the monitor ([ExecBasic.C11_fn]). *)
Corollary run_single_return_spec : forall p out,
  run p = ROk out -> o_errors out = [] -> Forall2 C11_fn (functions_of p) (o_fns out).
Proof. intros p out H Hacc. apply chk_C11_spec, run_single_return; assumption. Qed.

Print Assumptions run_single_return.
Print Assumptions run_single_return_spec.
