(** C05 with values, the static half of safety: the register machine on the stack of a function
    never looks up a label that is not set (every program on which the analysis terminates) and, in
    an accepted program, never runs off the end of the stack - whatever the interpretation, the
    arguments and the fuel.  The counterpart of [FlowBasic.v] for [vflat_run]. *)
From Coq Require Import Lia.
From SA Require Import Model.
From SA.Spec Require Import Stack Exec ValueExec.
From SA.Mon Require Import Control.
From SA.Proofs Require Import Trace InvNames InvLabels Resolve ExecBasic FlowBasic.
From SA.Proofs Require Import ValueSimBase.
Local Open Scope list_scope.

Section Safe.
  Variable V : Type.
  Variable I : interp V.

  Lemma vgoto_resolved c i l st :
    resolved c -> In i c -> In l (target_labels i) ->
    exists pc, vgoto V c l st = VNext [] pc st /\ (pc < length c)%nat.
  Proof.
    intros Hr Hi Hl. destruct (find_label_in l c (Hr i l Hi Hl)) as [pc E].
    exists pc. unfold vgoto. rewrite vfind_label_eq, E. split; [reflexivity | eapply find_label_lt, E].
  Qed.

  (** what a step can be, for an instruction of a resolved stack *)
  Lemma vinstr_step_cases c i pc st :
    resolved c -> In i c ->
    (exists ev st', vinstr_step V I c i pc st = VNext ev (S pc) st' /\ Control.is_fn_ret i = false) \/
    (exists pc' st', vinstr_step V I c i pc st = VNext [] pc' st' /\ (pc' < length c)%nat) \/
    (exists ev, vinstr_step V I c i pc st = VHalt ev VReturned) \/
    (exists w, vinstr_step V I c i pc st = VHalt [] (VStuck w)).
  Proof.
    intros Hr Hi.
    assert (Hgo : forall l, In l (target_labels i) ->
              exists pc' st', vgoto V c l st = VNext [] pc' st' /\ (pc' < length c)%nat).
    { intros l Hl. destruct (vgoto_resolved c i l st Hr Hi Hl) as (pc' & E & Hlt). exists pc', st. split; assumption. }
    destruct i; cbn [vinstr_step Control.is_fn_ret target_labels] in *; unfold stuck_at;
      repeat match goal with
             | |- context [match ?x with _ => _ end] =>
                 lazymatch x with
                 | vgoto _ _ _ _ => fail
                 | _ => destruct x eqn:?
                 end
             end;
      try (left; eexists _, _; split; reflexivity);
      try (right; right; left; eexists; reflexivity);
      try (right; right; right; eexists; reflexivity);
      try (right; left; apply Hgo; cbn; auto).
  Qed.

  Lemma vflat_run_no_bad_label c :
    resolved c -> forall n pc st l, snd (vflat_run V I c n pc st) <> VBadLabel l.
  Proof.
    intros Hr. induction n as [|n IH]; intros pc st l; cbn [vflat_run]; [discriminate|].
    unfold vflat_step. destruct (nth_error c pc) as [i|] eqn:En; [|discriminate].
    apply nth_error_In in En.
    destruct (vinstr_step_cases c i pc st Hr En)
      as [(ev & st' & -> & _)|[(pc' & st' & -> & _)|[(ev & ->)|(w & ->)]]];
      cbn [vprepend_trace snd]; try discriminate; apply IH.
  Qed.

  Lemma vflat_run_no_fell_off c pre last :
    resolved c -> c = pre ++ [last] -> Control.is_fn_ret last = true ->
    forall n pc st, (pc < length c)%nat -> snd (vflat_run V I c n pc st) <> VFellOff.
  Proof.
    intros Hr Hc Hlast. induction n as [|n IH]; intros pc st Hpc; cbn [vflat_run]; [discriminate|].
    unfold vflat_step. destruct (nth_error c pc) as [i|] eqn:En.
    2:{ apply nth_error_None in En. lia. }
    pose proof (nth_error_In _ _ En) as Hi.
    destruct (vinstr_step_cases c i pc st Hr Hi)
      as [(ev & st' & -> & Hnr)|[(pc' & st' & -> & Hlt)|[(ev & ->)|(w & ->)]]];
      cbn [vprepend_trace snd]; try discriminate.
    - apply IH. destruct (Nat.eq_dec (S pc) (length c)) as [Heq|Hne]; [|lia].
      exfalso. rewrite Hc, app_length in Heq. cbn in Heq.
      rewrite Hc, nth_error_app2 in En by lia.
      replace (pc - length pre)%nat with O in En by lia. cbn in En. inversion En; subst.
      congruence.
    - apply IH, Hlt.
  Qed.
End Safe.

(** For every program (accepted or not) on which the analysis terminates, whatever the
    interpretation, the arguments and the fuel: the register machine never looks up a label that
    is not set. *)
Theorem vflat_never_bad_label : forall (V : Type) (I : interp V) p out,
  run p = ROk out ->
  forall root, In root (o_fns out) ->
  forall args n l, snd (vflat_exec V I (b_ctx root) args n) <> VBadLabel l.
Proof.
  intros V I p out H root Hin args n l.
  pose proof (run_targets_resolved p out H) as HF. rewrite Forall_forall in HF.
  apply vflat_run_no_bad_label. exact (HF root Hin).
Qed.

(** In an accepted program the register machine never runs off the end of the stack. *)
Theorem vflat_never_falls_off : forall (V : Type) (I : interp V) p out,
  run p = ROk out -> o_errors out = [] ->
  forall root, In root (o_fns out) ->
  forall args n, snd (vflat_exec V I (b_ctx root) args n) <> VFellOff.
Proof.
  intros V I p out H Hacc root Hin args n.
  destruct (accepted_stack_ends_with_return p out H Hacc root Hin) as (pre & last & Hc & Hl).
  pose proof (run_targets_resolved p out H) as HF. rewrite Forall_forall in HF.
  eapply vflat_run_no_fell_off; [exact (HF root Hin) | exact Hc | exact Hl|].
  rewrite Hc, app_length. cbn. lia.
Qed.

Print Assumptions vflat_never_bad_label.
Print Assumptions vflat_never_falls_off.
