(** C05, the semantic core of the simulation: compiled fragments with exits.

    Everything here is about one fixed jump program [c] in which no label is set twice and every
    label that is named is set; no analyzer is involved.  A fragment is a segment [d] of [c]
    ([c = pre ++ d ++ post]); [Frag] / [FragL] say that executing [d] from its first instruction
    does what a structured run [R n w] does, and leaves [d] through the exit that corresponds to
    the completion of the structured run:

    - [Normal]: falls through to the instruction after [d] ([Frag]), or is at the end label of
      the enclosing if chain ([FragL]);
    - [JumpOuterEnd]: is at the end label of the enclosing if chain;
    - [Brk] / [Cont]: is at the end / begin label of the enclosing loop;
    - [Stop Returned], [Stop OutOfOutcomes]: has halted with that status;
    - [Stop OutOfFuel]: the structured run was cut off; whatever its fuel, the events of the
      jump program are comparable with the events so far ([Pre]).

    The shapes: straight-line code, sequences, return, break, continue, the if statement
    ([FragL_if]) and the loop ([Frag_loop]). *)
From Coq Require Import Lia.
From SA Require Import Model.
From SA.Spec Require Import Stack Exec.
From SA.Proofs Require Import ExecBasic FlowBasic FlowSem.
Local Open Scope list_scope.

Ltac len := repeat (progress (repeat rewrite app_length; cbn [length])); lia.
Ltac split_eq := repeat (progress (repeat rewrite <- app_assoc; cbn [app])); reflexivity.

Section Frag.
  Variable c : list instr.
  Hypothesis Hnd : NoDup (set_labels c).
  Hypothesis Hres : resolved c.

  (** ** Exits *)
  Inductive xt := XPos (pc : nat) | XHalt (st : status) | XPre.

  Definition does (p0 : nat) (w : list bool) (ev : list event) (x : xt) (w' : list bool) : Prop :=
    match x with
    | XPos pc => steps c p0 w ev pc w'
    | XHalt st => halts c p0 w ev st
    | XPre => Pre c p0 w ev
    end.

  Lemma does_prepend p w ev0 p0 w0 ev x w' :
    steps c p w ev0 p0 w0 -> does p0 w0 ev x w' -> does p w (ev0 ++ ev) x w'.
  Proof.
    intros Hs. destruct x; cbn [does]; intro H.
    - eapply steps_trans; eassumption.
    - eapply steps_halts; eassumption.
    - eapply steps_Pre; eassumption.
  Qed.

  (** a structured result against a table of exits *)
  Definition Sem (T : completion -> xt -> Prop) (p0 : nat) (w : list bool) (r : sres) : Prop :=
    let '(ev, cpl, w') := r in exists x, does p0 w ev x w' /\ T cpl x.

  Lemma Sem_prepend (T : completion -> xt -> Prop) p w ev0 p0 w0 r :
    steps c p w ev0 p0 w0 -> Sem T p0 w0 r -> Sem T p w (prepend ev0 r).
  Proof.
    destruct r as [[ev cpl] w']. intros Hs (x & Hd & HT). exists x.
    split; [eapply does_prepend; eassumption | exact HT].
  Qed.

  Lemma Sem_prepend_nil (T : completion -> xt -> Prop) p w p0 w0 r :
    steps c p w [] p0 w0 -> Sem T p0 w0 r -> Sem T p w r.
  Proof.
    intros Hs H. pose proof (Sem_prepend T p w [] p0 w0 r Hs H) as H'.
    destruct r as [[ev cpl] w']. exact H'.
  Qed.

  Lemma Sem_mono (T T' : completion -> xt -> Prop) p w r :
    (forall cpl x, T cpl x -> T' cpl x) -> Sem T p w r -> Sem T' p w r.
  Proof.
    destruct r as [[ev cpl] w']. intros HT (x & Hd & H). exists x. split; [exact Hd | apply HT, H].
  Qed.

  Lemma Sem_eq_pos (T : completion -> xt -> Prop) p p' w r : Sem T p w r -> p = p' -> Sem T p' w r.
  Proof. intros H <-. exact H. Qed.

  Lemma Sem_oof (T : completion -> xt -> Prop) p w : T (Stop OutOfFuel) XPre -> Sem T p w (out_of_fuel_res w).
  Proof. intro HT. exists XPre. split; [apply Pre_nil | exact HT]. Qed.

  (** ** The tables *)

  (** the exits every fragment has *)
  Definition TC (ll : option (string * string)) (d : list instr) (cpl : completion) (x : xt)
    : Prop :=
    match cpl with
    | Brk => exists lb le pc, ll = Some (lb, le) /\ In (IJumpTo le) d /\
                              find_label le c = Some pc /\ x = XPos pc
    | Cont => exists lb le pc, ll = Some (lb, le) /\ find_label lb c = Some pc /\ x = XPos pc
    | Stop Returned => x = XHalt Returned
    | Stop OutOfOutcomes => x = XHalt OutOfOutcomes
    | Stop OutOfFuel => x = XPre
    | _ => False
    end.

  Definition TF (oe : option string) (ll : option (string * string)) (nn : bool)
             (d : list instr) (pend : nat) (cpl : completion) (x : xt) : Prop :=
    match cpl with
    | Normal => nn = false /\ x = XPos pend
    | JumpOuterEnd => exists le pc, oe = Some le /\ find_label le c = Some pc /\ x = XPos pc
    | _ => TC ll d cpl x
    end.

  Definition TL (lend : string) (ll : option (string * string)) (d : list instr)
             (cpl : completion) (x : xt) : Prop :=
    match cpl with
    | Normal | JumpOuterEnd => exists pc, find_label lend c = Some pc /\ x = XPos pc
    | _ => TC ll d cpl x
    end.

  Lemma TC_incl ll d d' cpl x : incl d d' -> TC ll d cpl x -> TC ll d' cpl x.
  Proof.
    intros Hi. destruct cpl; cbn [TC]; try exact (fun H => H).
    intros (lb & le & pc & H1 & H2 & H3). exists lb, le, pc. split; [exact H1|].
    split; [apply Hi, H2 | exact H3].
  Qed.

  Lemma TL_incl lend ll d d' cpl x : incl d d' -> TL lend ll d cpl x -> TL lend ll d' cpl x.
  Proof.
    intros Hi. destruct cpl; cbn [TL]; try exact (fun H => H); apply TC_incl, Hi.
  Qed.

  Definition Frag (oe : option string) (ll : option (string * string))
             (R : nat -> list bool -> sres) (nn : bool) (d : list instr) : Prop :=
    forall pre post, c = pre ++ d ++ post ->
    forall n w, Sem (TF oe ll nn d (length pre + length d)) (length pre) w (R n w).

  Definition FragL (lend : string) (ll : option (string * string))
             (R : nat -> list bool -> sres) (d : list instr) : Prop :=
    forall pre post, c = pre ++ d ++ post ->
    forall n w, Sem (TL lend ll d) (length pre) w (R n w).

  Lemma Frag_ext oe ll R R' nn d : (forall n w, R n w = R' n w) -> Frag oe ll R nn d -> Frag oe ll R' nn d.
  Proof. intros HR H pre post Hc n w. rewrite <- HR. apply (H _ _ Hc). Qed.
  Lemma FragL_ext lend ll R R' d : (forall n w, R n w = R' n w) -> FragL lend ll R d -> FragL lend ll R' d.
  Proof. intros HR H pre post Hc n w. rewrite <- HR. apply (H _ _ Hc). Qed.

  (** ** Single instructions *)
  Lemma step_set pre l post w :
    c = pre ++ ISetLabel l :: post -> steps c (length pre) w [] (S (length pre)) w.
  Proof. intro Hc. apply steps_one. rewrite (step_at c pre _ post w Hc). reflexivity. Qed.

  Lemma label_pos pre l post : c = pre ++ ISetLabel l :: post -> find_label l c = Some (length pre).
  Proof. intro Hc. rewrite Hc. apply find_label_at. rewrite <- Hc. exact Hnd. Qed.

  Lemma in_mid {A} (pre : list A) x post : In x (pre ++ x :: post).
  Proof. apply in_or_app. right. left. reflexivity. Qed.

  Lemma step_jump pre l post w :
    c = pre ++ IJumpTo l :: post ->
    exists pc, find_label l c = Some pc /\ steps c (length pre) w [] pc w.
  Proof.
    intro Hc. destruct (find_label_in l c) as [pc E].
    { apply (Hres (IJumpTo l)); [rewrite Hc; apply in_mid | left; reflexivity]. }
    exists pc. split; [exact E|]. apply steps_one. rewrite (step_at c pre _ post w Hc).
    cbn [instr_step]. unfold goto. rewrite E. reflexivity.
  Qed.

  Definition is_cond (i : instr) (lt lf : string) : Prop :=
    (exists er, i = IIfCondExpr er lt lf) \/ (exists r, i = IIfCondLogic lt lf r).

  Lemma cond_step i lt lf pc w : is_cond i lt lf -> instr_step c i pc w = branch c lt lf w.
  Proof. intros [[er ->]|[r ->]]; reflexivity. Qed.
  Lemma cond_targets i lt lf : is_cond i lt lf -> target_labels i = [lt; lf].
  Proof. intros [[er ->]|[r ->]]; reflexivity. Qed.

  Definition is_ret (i : instr) : Prop :=
    match i with IFnRet _ | IFnRetLabel _ | IJumpFnRet _ => True | _ => False end.
  Lemma ret_step i pc w : is_ret i -> instr_step c i pc w = Halt [EvRet] Returned.
  Proof. destruct i; cbn; try contradiction; reflexivity. Qed.

  (** ** Straight-line statements *)
  Lemma Frag_line oe ll R d ev :
    Line d -> levs d = ev ->
    (forall n w, R n w = (ev, Normal, w) \/ R n w = out_of_fuel_res w) ->
    Frag oe ll R false d.
  Proof.
    intros HL Hev HR pre post Hc n w. destruct (HR n w) as [-> | ->].
    - exists (XPos (length pre + length d)). split; [|split; reflexivity].
      cbn [does]. rewrite <- Hev. eapply steps_line; eassumption.
    - apply Sem_oof. reflexivity.
  Qed.

  (** ** Return *)
  Lemma Frag_ret oe ll R d0 i ev :
    Line d0 -> levs d0 = ev -> is_ret i ->
    (forall n w, R n w = (ev ++ [EvRet], Stop Returned, w) \/ R n w = out_of_fuel_res w) ->
    Frag oe ll R true (d0 ++ [i]).
  Proof.
    intros HL Hev Hi HR pre post Hc n w. destruct (HR n w) as [-> | ->].
    - exists (XHalt Returned). split; [|reflexivity]. cbn [does].
      eapply steps_halts.
      + rewrite <- Hev. eapply (steps_line c d0 pre ([i] ++ post)); [|exact HL].
        rewrite Hc. split_eq.
      + apply halts_now.
        assert (Hc' : c = (pre ++ d0) ++ i :: post) by (rewrite Hc; split_eq).
        pose proof (step_at c _ _ _ w Hc') as Hs. rewrite app_length in Hs. rewrite Hs.
        apply ret_step, Hi.
    - apply Sem_oof. reflexivity.
  Qed.

  (** ** Break and continue *)
  Lemma Frag_break oe lb le R :
    (forall n w, R n w = ([], Brk, w) \/ R n w = out_of_fuel_res w) ->
    Frag oe (Some (lb, le)) R false [IJumpTo le].
  Proof.
    intros HR pre post Hc n w. destruct (HR n w) as [-> | ->]; [|apply Sem_oof; reflexivity].
    destruct (step_jump pre le post w Hc) as (pc & E & Hs).
    exists (XPos pc). split; [exact Hs|]. cbn. exists lb, le, pc. repeat split; auto.
  Qed.

  Lemma Frag_continue oe lb le R :
    (forall n w, R n w = ([], Cont, w) \/ R n w = out_of_fuel_res w) ->
    Frag oe (Some (lb, le)) R false [IJumpTo lb].
  Proof.
    intros HR pre post Hc n w. destruct (HR n w) as [-> | ->]; [|apply Sem_oof; reflexivity].
    destruct (step_jump pre lb post w Hc) as (pc & E & Hs).
    exists (XPos pc). split; [exact Hs|]. cbn. exists lb, le, pc. repeat split; auto.
  Qed.

  (** ** Sequences *)
  Lemma TF_incl_l oe ll nn d1 d2 pend cpl x :
    cpl <> Normal -> TF oe ll nn d1 pend cpl x -> forall nn' pend', TF oe ll nn' (d1 ++ d2) pend' cpl x.
  Proof.
    intros Hn H nn' pend'. destruct cpl; cbn [TF] in *; try exact H; try congruence;
      eapply TC_incl; [|exact H]; apply incl_appl, incl_refl.
  Qed.
  Lemma TF_incl_r oe ll nn d1 d2 pend cpl x :
    TF oe ll nn d2 pend cpl x -> TF oe ll nn (d1 ++ d2) pend cpl x.
  Proof.
    intro H. destruct cpl; cbn [TF] in *; try exact H;
      eapply TC_incl; [|exact H]; apply incl_appr, incl_refl.
  Qed.

  Lemma Frag_seq oe ll R1 R2 nn1 nn2 d1 d2 :
    Frag oe ll R1 nn1 d1 -> Frag oe ll R2 nn2 d2 ->
    Frag oe ll (fun n w => match n with
                           | O => out_of_fuel_res w
                           | S n' => seq (R1 n' w) (R2 n')
                           end) (nn1 || nn2) (d1 ++ d2).
  Proof.
    intros H1 H2 pre post Hc [|n] w; [apply Sem_oof; reflexivity|].
    assert (Hc1 : c = pre ++ d1 ++ (d2 ++ post)) by (rewrite Hc; split_eq).
    assert (Hc2 : c = (pre ++ d1) ++ d2 ++ post) by (rewrite Hc; split_eq).
    specialize (H1 pre _ Hc1 n w). destruct (R1 n w) as [[ev1 cpl1] w1] eqn:E1.
    destruct H1 as (x1 & Hd1 & HT1).
    assert (Hother : cpl1 <> Normal ->
              Sem (TF oe ll (nn1 || nn2) (d1 ++ d2) (length pre + length (d1 ++ d2))) (length pre) w (ev1, cpl1, w1)).
    { intro Hn. exists x1. split; [exact Hd1|]. eapply TF_incl_l; eassumption. }
    destruct cpl1; cbn [seq]; try (apply Hother; discriminate).
    destruct HT1 as [-> ->]. cbn [does] in Hd1. cbn [orb].
    specialize (H2 _ _ Hc2 n w1). rewrite app_length in H2.
    apply (Sem_prepend _ _ _ _ _ _ _ Hd1).
    eapply Sem_mono; [|exact H2]. intros cpl x HT. apply TF_incl_r.
    replace (length pre + length (d1 ++ d2))%nat with (length pre + length d1 + length d2)%nat by len.
    exact HT.
  Qed.

  Lemma Frag_nil oe ll R : (forall n w, R n w = ([], Normal, w)) -> Frag oe ll R false [].
  Proof.
    intros HR pre post Hc n w. rewrite HR. exists (XPos (length pre + 0)). split; [|split; reflexivity].
    cbn [does]. rewrite Nat.add_0_r. apply steps_refl.
  Qed.

  (** a statement is one level of fuel below its evaluation *)
  Lemma Frag_shift oe ll R nn d :
    Frag oe ll R nn d ->
    Frag oe ll (fun n w => match n with O => out_of_fuel_res w | S n' => R n' w end) nn d.
  Proof.
    intros H pre post Hc [|n] w; [apply Sem_oof; reflexivity | apply (H _ _ Hc)].
  Qed.

  (** ** A body and the jump to the end label *)
  Lemma FragL_body lend ll R nn d j :
    Frag (Some lend) ll R nn d ->
    (nn = false -> j = [IJumpTo lend]) -> (nn = true -> j = []) ->
    FragL lend ll R (d ++ j).
  Proof.
    intros H Hj0 Hj1 pre post Hc n w.
    assert (Hc1 : c = pre ++ d ++ (j ++ post)) by (rewrite Hc; split_eq).
    specialize (H pre _ Hc1 n w). destruct (R n w) as [[ev cpl] w'].
    destruct H as (x & Hd & HT).
    destruct cpl; cbn [TF] in HT.
    - destruct HT as [Hnn ->]. rewrite (Hj0 Hnn) in Hc.
      assert (Hc2 : c = (pre ++ d) ++ IJumpTo lend :: post) by (rewrite Hc; split_eq).
      destruct (step_jump _ _ _ w' Hc2) as (pc & E & Hs). rewrite app_length in Hs.
      exists (XPos pc). split; [|exists pc; split; [exact E | reflexivity]].
      cbn [does] in *. rewrite <- (app_nil_r ev). eapply steps_trans; eassumption.
    - exists x. split; [exact Hd|]. eapply TC_incl; [|exact HT]. apply incl_appl, incl_refl.
    - exists x. split; [exact Hd|]. eapply TC_incl; [|exact HT]. apply incl_appl, incl_refl.
    - destruct HT as (le & pc & Hle & E & ->). inversion Hle; subst le.
      exists (XPos pc). split; [exact Hd|]. exists pc. split; [exact E | reflexivity].
    - exists x. split; [exact Hd|]. eapply TC_incl; [|exact HT]. apply incl_appl, incl_refl.
  Qed.

  (** ** The if statement *)

  (** the else part of [exec_if] *)
  Definition else_run (els : option ifbody) (elif : option ifstmt) (n : nat) (w : list bool) : sres :=
    match els with
    | Some eb => exec_stmts true n true (ifbody_stmts eb) w
    | None =>
        match elif with
        | Some ei => exec_if true n ei w
        | None => ([], Normal, w)
        end
    end.

  Lemma FragL_if lend ll cnd body els elif dcond ci lbegin target dthen delse :
    Line dcond -> levs dcond = cond_events cnd -> is_cond ci lbegin target ->
    FragL lend ll (fun n w => exec_stmts true n true (ifbody_stmts body) w) dthen ->
    ((exists lelse de, target = lelse /\ delse = ISetLabel lelse :: de /\
                       FragL lend ll (else_run els elif) de) \/
     (els = None /\ elif = None /\ target = lend /\ delse = [])) ->
    FragL lend ll (fun n w => exec_if true n (IfS cnd body els elif) w)
          (dcond ++ ci :: ISetLabel lbegin :: dthen ++ delse).
  Proof.
    intros HL Hev Hci Hthen Helse pre post Hc [|n] w; [apply Sem_oof; reflexivity|].
    rewrite exec_if_S.
    set (d := dcond ++ ci :: ISetLabel lbegin :: dthen ++ delse) in *.
    assert (Hc0 : c = pre ++ dcond ++ (ci :: ISetLabel lbegin :: dthen ++ delse ++ post))
      by (rewrite Hc; unfold d; split_eq).
    pose proof (steps_line c dcond pre _ w Hc0 HL) as Hs0. rewrite Hev in Hs0.
    assert (Hc1 : c = (pre ++ dcond) ++ ci :: (ISetLabel lbegin :: dthen ++ delse ++ post))
      by (rewrite Hc; unfold d; split_eq).
    assert (Hci_in : In ci c) by (rewrite Hc1; apply in_mid).
    destruct w as [|b w'].
    - (* no outcome left *)
      exists (XHalt OutOfOutcomes). split; [|reflexivity]. cbn [does].
      rewrite <- (app_nil_r (cond_events cnd)). eapply steps_halts; [exact Hs0|].
      apply halts_now. pose proof (step_at c _ _ _ [] Hc1) as Hs. rewrite app_length in Hs.
      rewrite Hs, (cond_step _ _ _ _ _ Hci). reflexivity.
    - apply (Sem_prepend _ _ _ _ _ _ _ Hs0).
      pose proof (step_at c _ _ _ (b :: w') Hc1) as Hs. rewrite app_length in Hs.
      rewrite (cond_step _ _ _ _ _ Hci) in Hs. cbn [branch] in Hs.
      destruct b.
      + (* then *)
        assert (Hc2 : c = (pre ++ dcond ++ [ci]) ++ ISetLabel lbegin :: (dthen ++ delse ++ post))
          by (rewrite Hc; unfold d; split_eq).
        unfold goto in Hs. rewrite (label_pos _ _ _ Hc2) in Hs.
        assert (Hc3 : c = (pre ++ dcond ++ [ci; ISetLabel lbegin]) ++ dthen ++ (delse ++ post))
          by (rewrite Hc; unfold d; split_eq).
        specialize (Hthen _ _ Hc3 n w').
        eapply Sem_prepend_nil; [apply steps_one, Hs|].
        eapply Sem_prepend_nil; [eapply step_set, Hc2|].
        eapply Sem_mono; [|eapply Sem_eq_pos; [exact Hthen | len]].
        intros cpl x. apply TL_incl. unfold d. intros y Hy.
        apply in_or_app. right. right. right. apply in_or_app. left. exact Hy.
      + (* else *)
        destruct Helse as [(lelse & de & -> & -> & Hde)|(-> & -> & -> & ->)].
        * assert (Hc2 : c = (pre ++ dcond ++ [ci; ISetLabel lbegin] ++ dthen) ++ ISetLabel lelse :: (de ++ post))
            by (rewrite Hc; unfold d; split_eq).
          unfold goto in Hs. rewrite (label_pos _ _ _ Hc2) in Hs.
          assert (Hc3 : c = (pre ++ dcond ++ [ci; ISetLabel lbegin] ++ dthen ++ [ISetLabel lelse]) ++ de ++ post)
            by (rewrite Hc; unfold d; split_eq).
          specialize (Hde _ _ Hc3 n w').
          eapply Sem_prepend_nil; [apply steps_one, Hs|].
          eapply Sem_prepend_nil; [eapply step_set, Hc2|].
          eapply Sem_mono; [|eapply Sem_eq_pos; [exact Hde | len]].
          intros cpl x. apply TL_incl. unfold d. intros y Hy.
          apply in_or_app. right. right. right. apply in_or_app. right. right. exact Hy.
        * destruct (find_label_in lend c) as [pc E].
          { apply (Hres ci); [exact Hci_in|]. rewrite (cond_targets _ _ _ Hci). right. left. reflexivity. }
          unfold goto in Hs. rewrite E in Hs.
          exists (XPos pc). split; [apply steps_one, Hs|]. exists pc. split; [exact E | reflexivity].
  Qed.

  (** ** An if statement as a statement of a block *)

  (** in an if / else / else-if body: the end label is the enclosing chain's (finding F5) *)
  Lemma Frag_if_inner le ll i d :
    FragL le ll (fun n w => exec_if true n i w) d ->
    Frag (Some le) ll (fun n w => exec_stmt true n true (SIf i) w) false d.
  Proof.
    intros H pre post Hc [|n] w; [apply Sem_oof; reflexivity|].
    rewrite exec_stmt_S. specialize (H _ _ Hc n w).
    destruct (exec_if true n i w) as [[ev cpl] w']. destruct H as (x & Hd & HT).
    cbn [if_exit andb]. exists x. split; [exact Hd|].
    destruct cpl; cbn [TL TF] in *; try exact HT;
      destruct HT as (pc & E & ->); exists le, pc; repeat split; assumption.
  Qed.

  (** in a function body or a loop body: the statement owns the end label and sets it last *)
  Lemma Frag_if_outer oe lend ll i d :
    FragL lend ll (fun n w => exec_if true n i w) d ->
    Frag oe ll (fun n w => exec_stmt true n false (SIf i) w) false (d ++ [ISetLabel lend]).
  Proof.
    intros H pre post Hc [|n] w; [apply Sem_oof; reflexivity|].
    rewrite exec_stmt_S.
    assert (Hc1 : c = pre ++ d ++ ([ISetLabel lend] ++ post)) by (rewrite Hc; split_eq).
    assert (Hc2 : c = (pre ++ d) ++ ISetLabel lend :: post) by (rewrite Hc; split_eq).
    specialize (H _ _ Hc1 n w).
    destruct (exec_if true n i w) as [[ev cpl] w']. destruct H as (x & Hd & HT).
    cbn [if_exit andb].
    assert (Hnormal : (exists pc, find_label lend c = Some pc /\ x = XPos pc) ->
              Sem (TF oe ll false (d ++ [ISetLabel lend]) (length pre + length (d ++ [ISetLabel lend])))
                  (length pre) w (ev, Normal, w')).
    { intros (pc & E & ->). rewrite (label_pos _ _ _ Hc2) in E. inversion E; subst pc.
      exists (XPos (length pre + length (d ++ [ISetLabel lend]))). split; [|split; reflexivity].
      cbn [does] in *. rewrite <- (app_nil_r ev). eapply steps_trans; [exact Hd|].
      eapply steps_eq; [eapply step_set, Hc2 | reflexivity | len | reflexivity]. }
    destruct cpl; cbn [TL] in HT; try (apply Hnormal; exact HT);
      (exists x; split; [exact Hd|]; cbn [TF]; eapply TC_incl; [|exact HT]; apply incl_appl, incl_refl).
  Qed.

  (** ** The loop *)
  Lemma Frag_loop oe ll lb le body nn db tail :
    Frag None (Some (lb, le)) (fun n w => exec_stmts true n false body w) nn db ->
    ((nn = false /\ tail = [IJumpTo lb; ISetLabel le]) \/
     (nn = true /\ (tail = [ISetLabel le] \/ (~ In (IJumpTo le) db /\ tail = [])))) ->
    Frag oe ll (fun n w => exec_loop true n body w) false
         (IJumpTo lb :: ISetLabel lb :: db ++ tail).
  Proof.
    intros Hbody Htail pre post Hc.
    set (d := IJumpTo lb :: ISetLabel lb :: db ++ tail) in *.
    set (Pend := (length pre + length d)%nat).
    assert (Hc0 : c = pre ++ IJumpTo lb :: (ISetLabel lb :: db ++ tail ++ post))
      by (rewrite Hc; unfold d; split_eq).
    assert (Hc1 : c = (pre ++ [IJumpTo lb]) ++ ISetLabel lb :: (db ++ tail ++ post))
      by (rewrite Hc; unfold d; split_eq).
    assert (Hc2 : c = (pre ++ [IJumpTo lb; ISetLabel lb]) ++ db ++ (tail ++ post))
      by (rewrite Hc; unfold d; split_eq).
    pose proof (label_pos _ _ _ Hc1) as Hlb.
    (* from the setter of the begin label to the first instruction of the body *)
    assert (Hset : forall w, steps c (length (pre ++ [IJumpTo lb])) w []
                                   (length (pre ++ [IJumpTo lb; ISetLabel lb])) w).
    { intro w. eapply steps_eq; [eapply step_set, Hc1 | reflexivity | len | reflexivity]. }
    (* where a break goes *)
    assert (HLE : In (IJumpTo le) db \/ nn = false ->
                  exists ple pole, c = ple ++ ISetLabel le :: pole /\ S (length ple) = Pend).
    { intro Hin. destruct Htail as [[_ ->]|[Hnn [->|[Hno ->]]]].
      - exists (pre ++ [IJumpTo lb; ISetLabel lb] ++ db ++ [IJumpTo lb]), post.
        split; [rewrite Hc; unfold d; split_eq | unfold Pend, d; len].
      - exists (pre ++ [IJumpTo lb; ISetLabel lb] ++ db), post.
        split; [rewrite Hc; unfold d; split_eq | unfold Pend, d; len].
      - exfalso. destruct Hin as [Hin|Hin]; [exact (Hno Hin) | congruence]. }
    (* the iterations *)
    assert (Hiter : forall n w,
              Sem (TF oe ll false d Pend) (length (pre ++ [IJumpTo lb; ISetLabel lb])) w
                  (exec_loop true n body w)).
    { induction n as [|n IH]; intro w; [apply Sem_oof; reflexivity|].
      rewrite exec_loop_S.
      pose proof (Hbody _ _ Hc2 n w) as Hb.
      destruct (exec_stmts true n false body w) as [[ev cpl] w1]. destruct Hb as (x & Hd & HT).
      destruct cpl; cbn [loop_exit TF] in *.
      - (* the body fell through: jump back *)
        destruct HT as [Hnn ->]. cbn [does] in Hd.
        destruct Htail as [[_ Ht]|[Hnn' _]]; [|congruence]. subst tail.
        apply (Sem_prepend _ _ _ _ _ _ _ Hd).
        assert (Hc3 : c = (pre ++ [IJumpTo lb; ISetLabel lb] ++ db) ++ IJumpTo lb :: (ISetLabel le :: post))
          by (rewrite Hc; unfold d; split_eq).
        destruct (step_jump _ _ _ w1 Hc3) as (pc & E & Hs). rewrite Hlb in E. inversion E; subst pc.
        eapply Sem_prepend_nil; [eapply steps_eq; [exact Hs | len | reflexivity | reflexivity]|].
        eapply Sem_prepend_nil; [apply Hset|]. apply IH.
      - (* break *)
        destruct HT as (lb' & le' & pc & Hll & Hin & E & ->). inversion Hll; subst lb' le'.
        destruct (HLE (or_introl Hin)) as (ple & pole & Hcle & Hp).
        rewrite (label_pos _ _ _ Hcle) in E. inversion E; subst pc.
        exists (XPos Pend). split; [|split; reflexivity]. cbn [does] in *.
        rewrite <- (app_nil_r ev). eapply steps_trans; [exact Hd|].
        eapply steps_eq; [eapply step_set, Hcle | reflexivity | exact Hp | reflexivity].
      - (* continue *)
        destruct HT as (lb' & le' & pc & Hll & E & ->). inversion Hll; subst lb' le'.
        rewrite Hlb in E. inversion E; subst pc. cbn [does] in Hd.
        apply (Sem_prepend _ _ _ _ _ _ _ Hd).
        eapply Sem_prepend_nil; [apply Hset|]. apply IH.
      - destruct HT as (le' & pc & Hx & _). discriminate.
      - exists x. split; [exact Hd|]. destruct st; exact HT. }
    (* the entry *)
    intros n w.
    destruct (step_jump _ _ _ w Hc0) as (pc & E & Hs). rewrite Hlb in E. inversion E; subst pc.
    eapply Sem_prepend_nil; [exact Hs|].
    eapply Sem_prepend_nil; [apply Hset|]. apply Hiter.
  Qed.
End Frag.
