(** C07 for all leaf kinds and all statement positions: the emitted tree IS the bracketed source
    tree, not only the same token sequence.

    On accepted programs the output of the model passes the monitor of [Mon/C07x.v]:

      [run_emitted_shape_is_bracket] :
        run p = ROk out -> o_errors out = [] -> chk_C07_shape p out = true

    Skeleton of [Proofs/Denote.v] / [Proofs/DenoteExpr.v] (the end-anchored logic [HT] of
    [DenoteLogic.v], the compositional scan of [DenoteEnv.v], finding F7 through [operand_f7])
    with the tree handling of [Proofs/BracketEmit.v] (brackets made by the priority fold are the
    nodes of [bracket], by [Proofs/Fold.v]):
    - the shape of a source tree without fuel ([ShT]); the fuel of the monitor suffices
      ([shape_of_expr_spec]);
    - the expression level ([H_expression]): the operand of an accepted expression denotes a tree
      of exactly the shape of the bracketed source chain, and the call sites pushed are the calls
      of the expression with the shapes of their arguments;
    - statements, conditions, control, function body, driver;
    - alignment ([fn_hsites_aligned]): the source-side enumeration of [Mon/C07x.v] lists the same
      kinds of sites in the same order as [Mon/C06.fn_sites]. *)
From Coq Require Import Lia.
From SA Require Import Model.
From SA.Spec Require Import Stack Bracket.
From SA.Mon Require Import C06 C07x.
From SA.Proofs Require Import CodecRT Reach InvReg Trace InvNames DefUse Fold InvTree
  DenoteLogic DenoteEnv DenoteSrc DenoteExpr.
Local Open Scope list_scope.

Ltac unwrap := repeat match goal with |- Grow _ _ -> _ => intros _ end.

(** ** Shapes: induction, reflexivity of the boolean comparison *)
Section ShapeInd.
  Variable P : shape -> Prop.
  Hypothesis HLeaf : P ShLeaf.
  Hypothesis HCall : forall args, Forall P args -> P (ShCall args).
  Hypothesis HNode : forall o l r, P l -> P r -> P (ShNode o l r).
  Hypothesis HCmp : forall c l r, P l -> P r -> P (ShCmp c l r).
  Hypothesis HLogic : forall o l r, P l -> P r -> P (ShLogic o l r).
  Fixpoint shape_ind' (s : shape) : P s :=
    match s with
    | ShLeaf => HLeaf
    | ShCall args =>
        HCall args
          ((fix go (l : list shape) : Forall P l :=
              match l with
              | [] => Forall_nil _
              | a :: l' => Forall_cons a (shape_ind' a) (go l')
              end) args)
    | ShNode o l r => HNode o l r (shape_ind' l) (shape_ind' r)
    | ShCmp c l r => HCmp c l r (shape_ind' l) (shape_ind' r)
    | ShLogic o l r => HLogic o l r (shape_ind' l) (shape_ind' r)
    end.
End ShapeInd.

Lemma shape_eqb_refl : forall s, shape_eqb s s = true.
Proof.
  induction s as [|args IH|o l r IHl IHr|c l r IHl IHr|o l r IHl IHr] using shape_ind';
    cbn [shape_eqb].
  - reflexivity.
  - induction IH as [|a args Ha _ IHargs]; [reflexivity|].
    change (shape_eqb a a && shape_eqb (ShCall args) (ShCall args) = true).
    cbv beta in Ha, IHargs. rewrite Ha. exact IHargs.
  - rewrite IHl, IHr. unfold bop_eqb. rewrite String.eqb_refl. reflexivity.
  - rewrite IHl, IHr. unfold cop_eqb. rewrite String.eqb_refl. reflexivity.
  - rewrite IHl, IHr. unfold lop_eqb. rewrite String.eqb_refl. reflexivity.
Qed.

Lemma shapes_eqb_refl : forall l, shapes_eqb l l = true.
Proof.
  induction l as [|a l IH]; [reflexivity|]. cbn [shapes_eqb]. rewrite shape_eqb_refl. exact IH.
Qed.

Lemma hsite_eqb_refl h : hsite_eqb h h = true.
Proof. destruct h; cbn [hsite_eqb]; try apply shape_eqb_refl. apply shapes_eqb_refl. Qed.

Lemma hsites_eqb_refl : forall l, hsites_eqb l l = true.
Proof.
  induction l as [|a l IH]; [reflexivity|]. cbn [hsites_eqb]. rewrite hsite_eqb_refl. exact IH.
Qed.

(** ** The shape of a source tree, without fuel *)
Definition bracket_of (e : expr) : tree := match e with Expr v rest => bracket v rest end.

Inductive ShT : tree -> shape -> Prop :=
| ShT_name x : ShT (Leaf (EVName x)) ShLeaf
| ShT_prim p : ShT (Leaf (EVPrim p)) ShLeaf
| ShT_field x a : ShT (Leaf (EVField x a)) ShLeaf
| ShT_ext ty tag : ShT (Leaf (EVExt ty tag)) ShLeaf
| ShT_sub e s : ShT (bracket_of e) s -> ShT (Leaf (EVSub e)) s
| ShT_call f args shs :
    Forall2 (fun a s => ShT (bracket_of a) s) args shs -> ShT (Leaf (EVCall f args)) (ShCall shs)
| ShT_node l o r a b : ShT l a -> ShT r b -> ShT (Node l o r) (ShNode o a b).

(** the size that bounds the fuel: a leaf weighs its [size_val] *)
Fixpoint tsize (t : tree) : nat :=
  match t with
  | Leaf v => size_val v
  | Node l _ r => S (tsize l + tsize r)
  end.

Definition links_size (rest : links) : nat :=
  fold_right (fun ov n => S (size_val (snd ov) + n)) O rest.

Lemma links_size_cons o v rest : links_size ((o, v) :: rest) = S (size_val v + links_size rest).
Proof. reflexivity. Qed.

Lemma links_size_app a b : links_size (a ++ b) = (links_size a + links_size b)%nat.
Proof.
  induction a as [|[o v] a IH]; [reflexivity|].
  cbn [app]. rewrite !links_size_cons, IH. lia.
Qed.

Lemma tsize_inorder t : tsize t = (size_val (thead t) + links_size (tlinks t))%nat.
Proof.
  induction t as [v|l IHl o r IHr]; cbn [tsize thead tlinks].
  - cbn. lia.
  - rewrite links_size_app, links_size_cons. lia.
Qed.

Lemma size_expr_links v rest : size_expr (Expr v rest) = S (size_val v + links_size rest).
Proof.
  cbn [size_expr]. f_equal. f_equal.
  induction rest as [|[o v'] rest IH]; [reflexivity|].
  rewrite links_size_cons, <- IH. reflexivity.
Qed.

Lemma tsize_bracket e : S (tsize (bracket_of e)) = size_expr e.
Proof.
  destruct e as [v rest]. cbn [bracket_of]. rewrite tsize_inorder, size_expr_links.
  pose proof (bracket_inorder v rest) as H. unfold inorder in H. injection H as H1 H2.
  rewrite H1, H2. reflexivity.
Qed.

Lemma size_val_call f args :
  size_val (EVCall f args) = S (fold_right (fun e n => (size_expr e + n)%nat) O args).
Proof.
  reflexivity.
Qed.

(** the fuel of the monitor suffices *)
Lemma shape_of_tree_spec : forall fuel t, (tsize t < fuel)%nat -> ShT t (shape_of_tree fuel t).
Proof.
  induction fuel as [|f IH]; intros t Hlt; [lia|].
  destruct t as [v|l o r]; cbn [shape_of_tree].
  - destruct v as [x|p|g args|x a|e|ty tag]; try (constructor; fail).
    + (* a call *)
      constructor. cbn [tsize] in Hlt. rewrite size_val_call in Hlt.
      induction args as [|a args IHargs]; cbn [map]; constructor.
      * cbn [fold_right] in Hlt. destruct a as [v rest].
        apply (IH (bracket_of (Expr v rest))). pose proof (tsize_bracket (Expr v rest)). lia.
      * apply IHargs. cbn [fold_right] in Hlt. lia.
    + (* brackets *)
      destruct e as [v rest]. constructor. apply (IH (bracket_of (Expr v rest))).
      cbn [tsize size_val] in Hlt. pose proof (tsize_bracket (Expr v rest)). lia.
  - cbn [tsize] in Hlt. constructor; apply IH; lia.
Qed.

Lemma shape_of_expr_spec e : ShT (bracket_of e) (shape_of_expr e).
Proof.
  destruct e as [v rest]. unfold shape_of_expr. apply (shape_of_tree_spec _ (bracket_of (Expr v rest))).
  pose proof (tsize_bracket (Expr v rest)). lia.
Qed.

Lemma shape_of_exprs_spec args :
  Forall2 (fun a s => ShT (bracket_of a) s) args (map shape_of_expr args).
Proof. induction args as [|a args IH]; constructor; [apply shape_of_expr_spec | exact IH]. Qed.

(** ** The shape sites of a stack, compositionally (on top of [DenoteEnv]) *)
Definition hscan (env : denv) (c : list instr) : list hsite := map hsite_of_usite (scan env c).

Lemma hscan_app env c1 c2 : hscan env (c1 ++ c2) = hscan env c1 ++ hscan (env_from env c1) c2.
Proof. unfold hscan. rewrite dscan_app. apply map_app. Qed.

Lemma hscan_one env i : hscan env [i] = map hsite_of_usite (site_of env i).
Proof. unfold hscan. rewrite scan_one. reflexivity. Qed.

Lemma hscan_nil env : hscan env [] = [].
Proof. reflexivity. Qed.

(** ** Brackets made by the priority fold are the nodes of [bracket] *)
Lemma bracket_nil v : bracket v [] = Leaf v.
Proof. reflexivity. Qed.
Lemma bracket_one v o v2 : bracket v [(o, v2)] = Node (Leaf v) o (Leaf v2).
Proof. reflexivity. Qed.

Lemma ShT_embed : forall T t, ShT T t -> ShT (Leaf (embed T)) t.
Proof.
  induction T as [v|l IHl o r IHr]; intros t H; cbn [embed]; [exact H|].
  inversion H as [| | | | | |l' o' r' a b Ha Hb]; subst.
  constructor. cbn [bracket_of]. rewrite bracket_one. constructor; [apply IHl, Ha | apply IHr, Hb].
Qed.

Lemma ShT_fold e t :
  ShT (bracket_of e) t ->
  ShT (bracket_of (fold_priority e)) t /\
  (match fold_priority e with Expr _ rest' => length rest' <= 1 end)%nat.
Proof.
  destruct e as [v rest]. intro H. destruct (Nat.leb 2 (length rest)) eqn:El.
  - apply Nat.leb_le in El. rewrite fold_priority_is_bracket by exact El.
    cbn [bracket_of length]. rewrite bracket_nil. split; [apply ShT_embed, H | lia].
  - apply Nat.leb_gt in El. rewrite fold_priority_short by exact El. split; [exact H | lia].
Qed.

(** the shape of a left-to-right walk over links whose operands are units *)
Fixpoint chainS (a : shape) (rest : links) (t : shape) : Prop :=
  match rest with
  | [] => t = a
  | (o, v) :: rest' => exists b, ShT (Leaf v) b /\ chainS (ShNode o a b) rest' t
  end.

Lemma ShT_short v rest t :
  (length rest <= 1)%nat -> ShT (bracket v rest) t -> exists a, ShT (Leaf v) a /\ chainS a rest t.
Proof.
  intros Hl H. destruct rest as [|[o v2] [|x rest]]; cbn [length] in Hl; [| |lia].
  - rewrite bracket_nil in H. exists t. split; [exact H | reflexivity].
  - rewrite bracket_one in H. inversion H as [| | | | | |l o' r a b Ha Hb]; subst.
    exists a. split; [exact Ha|]. exists b. split; [exact Hb | reflexivity].
Qed.

(** ** The expression level *)
Definition chs (l : list (ident * list expr)) : list hsite := map call_hsite l.

Lemma chs_app a b : chs (a ++ b) = chs a ++ chs b.
Proof. apply map_app. Qed.

Lemma chs_args args : chs (args_calls args) = flat_map call_hsites args.
Proof.
  unfold chs, args_calls, call_hsites. induction args as [|a args IH]; [reflexivity|].
  cbn [flat_map]. rewrite map_app, IH. reflexivity.
Qed.

Section Walk.
  Variable Cf : list instr.
  Variable G : globals.

  Notation sod := shape_of_dt.

  (** what an expression-like computation owes: on an accepted run it yields an operand that
      names an old register (F7: or the one after), the use sites it pushed are the calls [calls]
      with the shapes of their arguments, and the operand denotes a tree of exactly the shape of
      [T] in the environment of the monitor *)
  Definition HP (s : bst) (T : tree) (calls : list (ident * list expr)) (r : option eres)
             (s' : bst) : Prop :=
    exists er c, r = Some er /\ Ctx s' = Ctx s ++ c /\ RegLe (hr s') er /\
      hscan (Env s) c = chs calls /\
      forall sh, ShT T sh -> sod (operand (Env s') er) = sh.

  Lemma H_leaf s mk ty t T :
    (forall n, def_reg (mk n) = Some n) ->
    (forall env n, env_upd env (mk n) = (n, t, false) :: env) ->
    (forall env n, site_of env (mk n) = []) ->
    (forall sh, ShT T sh -> sod t = sh) ->
    HT Cf s (r <- alloc_emit mk ;; ret (Some (ERes ty (RReg r)))) (HP s T []).
  Proof.
    intros Hd Hu Hs Ht. eapply HT_bind; [apply HT_alloc, Hd|]. intros r s1 W1 G1 H1.
    apply HT_ret. intros F. unwrap. fin_all. destruct H1 as (Er & Hh & C1 & V1).
    exists (ERes ty (RReg r)), [mk r].
    split; [reflexivity|]. split; [exact C1|]. split; [apply RegLe_reg; lia|].
    split; [rewrite hscan_one, Hs; reflexivity|].
    intros sh Hsh. rewrite (Env_app s s1 _ C1). cbn [env_from fold_left]. rewrite Hu.
    unfold operand. cbn [r_val env_find]. rewrite N.eqb_refl. apply Ht, Hsh.
  Qed.

  Section Expr.
    Variable E : expr -> M (option eres).
    Hypothesis HE : forall e s, HT Cf s (E e) (HP s (bracket_of e) (expr_calls e)).

    Lemma H_call_args callee params : forall args i acc s,
      HT Cf s (call_args E callee params i args acc)
         (fun r s' => Forall (RegLe (hr s)) acc ->
            exists ps c, r = Some ps /\ Ctx s' = Ctx s ++ c /\ Forall (RegLe (hr s')) ps /\
              hscan (Env s) c = chs (args_calls args) /\
              forall shs, Forall2 (fun a sh => ShT (bracket_of a) sh) args shs ->
                map (fun a => sod (operand (Env s') a)) ps =
                map (fun a => sod (operand (Env s) a)) acc ++ shs).
    Proof.
      induction args as [|a args IH]; intros i acc s; cbn [call_args].
      - apply HT_ret. intros _ Hacc. exists acc, []. rewrite !app_nil_r.
        split; [reflexivity|]. split; [reflexivity|]. split; [exact Hacc|].
        split; [reflexivity|]. intros shs Hs. inversion Hs. rewrite app_nil_r. reflexivity.
      - eapply HT_bind; [apply HE|]. intros r s1 W1 G1 H1.
        destruct r as [er|].
        2: { apply HT_ret. intros F. unwrap. fin_all. intros _.
             destruct H1 as (er & c & Hr & _). discriminate. }
        assert (Herr : forall e0 Q,
                   HT Cf s1 (add_error e0 ;;; call_args E callee params (S i) args acc) Q).
        { intros. apply HT_error_then. intro s2. eapply HT_weaken, IH. }
        destruct (nth_error params i) as [pt|]; [|apply Herr].
        destruct (sem_ty_eqb pt (r_ty er)); [|apply Herr].
        eapply HT_conseq; [apply IH|]. intros ps s' W' G' F' HQ. unwrap. fin_all.
        intros Hacc.
        destruct H1 as (er0 & c1 & Hr & C1 & R1 & S1 & T1). inversion Hr; subst er0.
        pose proof (Grow_defs _ _ _ G1 C1) as Hd1. pose proof (Grow_hr _ _ G1) as Hle1.
        destruct HQ as (ps' & c2 & Hps & C2 & R2 & S2 & T2).
        { apply Forall_app. split; [|constructor; [exact R1 | constructor]].
          eapply Forall_impl; [|exact Hacc]. intros e0. apply RegLe_mono. exact Hle1. }
        exists ps', (c1 ++ c2). split; [exact Hps|].
        split; [rewrite C2, C1, app_assoc; reflexivity|]. split; [exact R2|]. split.
        + cbn [args_calls flat_map]. fold (args_calls args). rewrite chs_app, hscan_app, S1.
          rewrite <- (Env_app s s1 c1 C1), S2. reflexivity.
        + intros shs Hs. inversion Hs as [|a0 sh0 args0 shs0 Ha Hrest]; subst.
          rewrite (T2 shs0 Hrest), map_app. cbn [map]. rewrite (T1 sh0 Ha), <- app_assoc.
          cbn [app]. f_equal. apply map_ext_in. intros e0 He0. f_equal.
          rewrite (Env_app s s1 c1 C1). apply (operand_stable (hr s) (hr s1)); [exact Hd1|].
          rewrite Forall_forall in Hacc. apply Hacc, He0.
    Qed.

    (** a call: its sites, and the register it wrote is F7-ready *)
    Definition FPh (s : bst) (f : ident) (args : list expr) (r : option sem_ty) (s' : bst)
      : Prop :=
      exists ty c, r = Some ty /\ Ctx s' = Ctx s ++ c /\
        hscan (Env s) c = flat_map call_hsites args ++ [call_hsite (f, args)] /\
        exists t, env_find (hr s') (Env s') = Some (t, true) /\
                  forall sh, ShT (Leaf (EVCall f args)) sh -> sod t = sh.

    Lemma H_function_call f args s : HT Cf s (function_call G E f args) (FPh s f args).
    Proof.
      unfold function_call. destruct (alookup (iname f) (g_funcs G)) as [fd|] eqn:Efd;
        [|apply HT_error_ret].
      eapply HT_bind; [apply H_call_args|]. intros ps s1 W1 G1 H1.
      destruct ps as [params|].
      2: { apply HT_ret. intros F. unwrap. fin_all.
           destruct (H1 (Forall_nil _)) as (ps & c & Hr & _). discriminate. }
      eapply HT_bind; [apply HT_alloc; intro; reflexivity|]. intros r s2 W2 G2 H2.
      apply HT_ret. intros F. unwrap. fin_all.
      destruct (H1 (Forall_nil _)) as (ps & c & Hr & C1 & R1 & S1 & T1).
      inversion Hr; subst ps. cbn [map app] in T1.
      destruct H2 as (Er & Hh & C2 & V2).
      assert (Hargs : forall shs, Forall2 (fun a sh => ShT (bracket_of a) sh) args shs ->
                                  map sod (map (operand (Env s1)) params) = shs).
      { intros shs Hs. rewrite map_map. apply T1, Hs. }
      exists (f_ty fd), (c ++ [ICall fd params r]). split; [reflexivity|].
      split; [rewrite C2, C1, app_assoc; reflexivity|]. split.
      - rewrite hscan_app, S1, chs_args. f_equal.
        rewrite <- (Env_app s s1 c C1), hscan_one. cbn [site_of map hsite_of_usite].
        unfold call_hsite. cbn [snd]. rewrite (Hargs _ (shape_of_exprs_spec args)). reflexivity.
      - exists (DCall (f_name fd) (map (operand (Env s1)) params)). split.
        + rewrite (Env_app s1 s2 _ C2). cbn [env_from fold_left env_upd]. rewrite Hh.
          cbn [env_find]. rewrite N.eqb_refl. reflexivity.
        + intros sh Hsh. inversion Hsh as [| | | | |f0 args0 shs Hs|]; subst.
          cbn [shape_of_dt]. rewrite (Hargs shs Hs). reflexivity.
    Qed.

    Lemma H_expr_value v s : HT Cf s (expr_value G E v) (HP s (Leaf v) (val_calls v)).
    Proof.
      destruct v as [x|p|f args|x a|e|t tag]; cbn [expr_value].
      - (* a name: a value in scope, else a constant *)
        apply HT_lookup_bind. destruct (lookup_frames _ _) as [val|] eqn:El.
        + apply (H_leaf s _ _ (DRead (v_inner val))); try (intros; reflexivity).
          intros sh Hsh. inversion Hsh. reflexivity.
        + destruct (alookup _ _) as [c|] eqn:Ec.
          * apply (H_leaf s _ _ (DConst (c_name c))); try (intros; reflexivity).
            intros sh Hsh. inversion Hsh. reflexivity.
          * eapply HT_bind; [apply HT_bump|]. intros. apply HT_error_ret.
      - (* a literal *)
        apply HT_ret. intros _. exists (ERes (SPrim (pv_ty p)) (RPrim p)), [].
        rewrite app_nil_r. split; [reflexivity|]. split; [reflexivity|].
        split; [apply RegLe_prim|]. split; [reflexivity|].
        intros sh Hsh. inversion Hsh. reflexivity.
      - (* a call: the operand names the register after the one written *)
        eapply HT_bind; [apply H_function_call|]. intros t s1 W1 G1 H1.
        destruct t as [ty|].
        2: { apply HT_ret. intros F. unwrap. fin_all.
             destruct H1 as (ty & c & Hr & _). discriminate. }
        eapply HT_bind; [apply HT_bump|]. intros r s2 W2 G2 H2.
        apply HT_ret. intros F. unwrap. fin_all.
        destruct H1 as (ty0 & c & _ & C1 & S1 & t & Hf & Ht).
        destruct H2 as (Er & Hh & C2 & V2).
        exists (ERes ty (RReg r)), c. split; [reflexivity|].
        split; [rewrite C2; exact C1|]. split; [apply RegLe_reg; lia|]. split.
        + rewrite val_calls_call, chs_app, chs_args. exact S1.
        + intros sh Hsh. rewrite Er, (operand_f7 s1 s2 t ty W1 C2 Hf). apply Ht, Hsh.
      - (* a field read: the same shape *)
        apply HT_lookup_bind. destruct (lookup_frames _ _) as [val|] eqn:El; [|apply HT_error_ret].
        destruct (v_ty val) as [pt|sn attrs|at_ an] eqn:Ety; try apply HT_error_ret.
        eapply HT_bind; [apply HT_check_type_exists|]. intros ok s1 W1 G1 H1.
        destruct ok; cbn [negb].
        2: { apply HT_ret. intros F. unwrap. fin_all. destruct H1 as [H1 _]. discriminate. }
        destruct (alookup _ _) as [declared|] eqn:Eal.
        2: { apply HT_ret. intros F. unwrap. fin_all. destruct H1 as (_ & _ & [H1|H1]);
             [discriminate|]. unfold amem in H1. rewrite Eal in H1. discriminate. }
        destruct (negb _); [apply HT_error_ret|].
        destruct (attr_lookup _ _) as [[idx aty]|] eqn:Eat; [|apply HT_error_ret].
        eapply HT_bind; [apply HT_alloc; intro; reflexivity|]. intros r s2 W2 G2 H2.
        eapply HT_bind; [apply HT_bump|]. intros r' s3 W3 G3 H3.
        apply HT_ret. intros F. unwrap. fin_all.
        destruct H1 as (_ & -> & _). destruct H2 as (Er & Hh2 & C2 & V2).
        destruct H3 as (Er' & Hh3 & C3 & V3).
        exists (ERes aty (RReg r')), [IExprStruct val idx r]. split; [reflexivity|].
        split; [rewrite C3; exact C2|]. split; [apply RegLe_reg; lia|].
        split; [rewrite hscan_one; reflexivity|].
        assert (Hf2 : env_find (hr s2) (Env s2) = Some (DField (v_inner val) idx, true)).
        { rewrite (Env_app s s2 _ C2). cbn [env_from fold_left env_upd]. rewrite Hh2.
          cbn [env_find]. rewrite N.eqb_refl. reflexivity. }
        intros sh Hsh. rewrite Er', (operand_f7 s2 s3 _ aty W2 C3 Hf2).
        inversion Hsh. reflexivity.
      - (* brackets *)
        eapply HT_conseq; [apply HE|]. intros r s' _ _ _ (er & c & Hr & C & R & S & T).
        exists er, c. split; [exact Hr|]. split; [exact C|]. split; [exact R|].
        split; [exact S|]. intros sh Hsh. apply T. inversion Hsh; subst. assumption.
      - (* an extension leaf *)
        apply (H_leaf s _ _ (DExt tag)); try (intros; reflexivity).
        intros sh Hsh. inversion Hsh. reflexivity.
    Qed.

    Lemma H_expr_chain : forall rest left s,
      HT Cf s (expr_chain G E left rest)
         (fun r s' => RegLe (hr s) left ->
            exists er c, r = Some er /\ Ctx s' = Ctx s ++ c /\ RegLe (hr s') er /\
              hscan (Env s) c = chs (links_calls rest) /\
              forall a t, sod (operand (Env s) left) = a -> chainS a rest t ->
                          sod (operand (Env s') er) = t).
    Proof.
      induction rest as [|[op v] rest IH]; intros left s; cbn [expr_chain].
      - apply HT_ret. intros _ Hl. exists left, []. rewrite app_nil_r.
        split; [reflexivity|]. split; [reflexivity|]. split; [exact Hl|]. split; [reflexivity|].
        intros a t Ha Ht. cbn [chainS] in Ht. subst t. exact Ha.
      - eapply HT_bind; [apply H_expr_value|]. intros rv s1 W1 G1 H1.
        destruct rv as [rgt|].
        2: { apply HT_ret. intros F. unwrap. fin_all. intros _.
             destruct H1 as (er & c & Hr & _). discriminate. }
        destruct (negb _); [apply HT_error_ret|].
        eapply HT_bind; [apply HT_alloc; intro; reflexivity|]. intros r s2 W2 G2 H2.
        eapply HT_conseq; [apply IH|]. intros er s' W' G' F' HQ. unwrap. fin_all.
        intros Hl.
        destruct H1 as (er0 & c1 & Hr & C1 & R1 & S1 & T1).
        inversion Hr; subst er0. destruct H2 as (Er & Hh & C2 & V2).
        pose proof (Grow_defs _ _ _ G1 C1) as Hd1.
        destruct HQ as (er' & c3 & Her & C3 & R3 & S3 & T3); [apply RegLe_reg; lia|].
        exists er', (c1 ++ [IExprOp op left rgt r] ++ c3). split; [exact Her|].
        split; [rewrite C3, C2, C1, <- !app_assoc; reflexivity|].
        split; [exact R3|]. split.
        + cbn [links_calls flat_map snd]. fold (links_calls rest). rewrite chs_app.
          rewrite hscan_app, S1. f_equal. rewrite <- (Env_app s s1 c1 C1).
          rewrite hscan_app, hscan_one. cbn [site_of map app].
          rewrite <- (Env_app s1 s2 _ C2). exact S3.
        + intros a t Ha Ht. cbn [chainS] in Ht. destruct Ht as (b & Hb & Ht).
          apply (T3 (ShNode op a b) t); [|exact Ht].
          rewrite (Env_app s1 s2 _ C2). cbn [env_from fold_left env_upd].
          unfold operand at 1. cbn [r_val env_find]. rewrite N.eqb_refl.
          cbn [shape_of_dt]. rewrite (T1 b Hb). rewrite (Env_app s s1 c1 C1).
          rewrite (operand_stable (hr s) (hr s1) c1 (Env s) left Hd1 Hl), Ha. reflexivity.
    Qed.

    Lemma H_expression_body e s :
      HT Cf s (expression_body G E e) (HP s (bracket_of e) (expr_calls e)).
    Proof.
      unfold expression_body.
      pose proof (fun t => ShT_fold e t) as Hfold.
      rewrite <- (expr_calls_fold e).
      destruct (fold_priority e) as [v rest].
      eapply HT_bind; [apply H_expr_value|]. intros rv s1 W1 G1 H1.
      destruct rv as [first|].
      2: { apply HT_ret. intros F. unwrap. fin_all.
           destruct H1 as (er & c & Hr & _). discriminate. }
      eapply HT_conseq; [apply H_expr_chain|]. intros er s' W' G' F' HQ. unwrap. fin_all.
      destruct H1 as (er0 & c1 & Hr & C1 & R1 & S1 & T1). inversion Hr; subst er0.
      destruct (HQ R1) as (er' & c2 & Her & C2 & R2 & S2 & T2).
      exists er', (c1 ++ c2). split; [exact Her|].
      split; [rewrite C2, C1, app_assoc; reflexivity|]. split; [exact R2|]. split.
      - rewrite expr_calls_flat, chs_app, hscan_app, S1, <- (Env_app s s1 c1 C1), S2. reflexivity.
      - intros t Ht. destruct (Hfold t Ht) as [Ht' Hlen]. cbn [bracket_of] in Ht'.
        destruct (ShT_short v rest t Hlen Ht') as (a & Ha & Hc).
        apply (T2 a t); [apply T1, Ha | exact Hc].
    Qed.
  End Expr.

  Lemma H_expression fuel : forall e s,
    HT Cf s (expression G fuel e) (HP s (bracket_of e) (expr_calls e)).
  Proof.
    induction fuel as [|f IH]; intros e s; cbn [expression]; [apply HT_oof|].
    apply H_expression_body. exact IH.
  Qed.
End Walk.

(** ** Statements: the shape sites of a pushed suffix *)
Definition SH (hs : list hsite) (s s' : bst) : Prop :=
  exists c, Ctx s' = Ctx s ++ c /\ hscan (Env s) c = hs.

Lemma SH_trans hs1 hs2 s s1 s2 : SH hs1 s s1 -> SH hs2 s1 s2 -> SH (hs1 ++ hs2) s s2.
Proof.
  intros (c1 & C1 & H1) (c2 & C2 & H2). exists (c1 ++ c2).
  split; [rewrite C2, C1, app_assoc; reflexivity|].
  rewrite hscan_app, H1, <- (Env_app s s1 c1 C1), H2. reflexivity.
Qed.

Lemma SH_neutral s s' : Ctx s' = Ctx s -> SH [] s s'.
Proof. intro C. exists []. rewrite app_nil_r. split; [exact C | reflexivity]. Qed.

Lemma SH_plain s s' i : Ctx s' = Ctx s ++ [i] -> (forall env, site_of env i = []) -> SH [] s s'.
Proof. intros C Hs. exists [i]. split; [exact C|]. rewrite hscan_one, Hs. reflexivity. Qed.

(** the nested fixpoints of [stmt_hsites], named *)
Definition body_hsites (ss : list stmt) : list hsite := flat_map stmt_hsites ss.
Definition body_of (b : ifbody) : list stmt := match b with IBIf ss | IBLoop ss => ss end.

Lemma hgo_eq ss :
  (fix go (l : list stmt) : list hsite :=
     match l with [] => [] | x :: l' => stmt_hsites x ++ go l' end) ss = body_hsites ss.
Proof. induction ss as [|x ss IH]; [reflexivity|]. cbn [body_hsites flat_map]. rewrite IH. reflexivity. Qed.

Lemma hs_loop body : stmt_hsites (SLoop body) = body_hsites body.
Proof. apply hgo_eq. Qed.

Lemma hs_ifbody b : ifbody_hsites b = body_hsites (body_of b).
Proof. destruct b as [ss|ss]; apply hgo_eq. Qed.

Lemma hs_if c body els elif :
  if_hsites (IfS c body els elif) =
  cond_hsites c ++ body_hsites (body_of body) ++
  match els with
  | Some eb => body_hsites (body_of eb)
  | None => match elif with Some ei => if_hsites ei | None => [] end
  end.
Proof.
  change (if_hsites (IfS c body els elif)) with
    (cond_hsites c ++ ifbody_hsites body ++
     match els with
     | Some eb => ifbody_hsites eb
     | None => match elif with Some ei => if_hsites ei | None => [] end
     end).
  rewrite hs_ifbody. destruct els as [b|]; [rewrite hs_ifbody|]; reflexivity.
Qed.

Section Stmt.
  Variable Cf : list instr.
  Variable G : globals.

  Notation sod := shape_of_dt.
  Notation STT hs s m := (HT Cf s m (fun _ s' => SH hs s s')).
  Notation NL s m := (HT Cf s m (fun _ s' => SH [] s s')).

  Lemma STT_bind hs1 hs2 {A B} s (m : M A) (f : A -> M B) :
    STT hs1 s m -> (forall a s1, STT hs2 s1 (f a)) -> STT (hs1 ++ hs2) s (bind m f).
  Proof.
    intros Hm Hf. eapply HT_bind; [exact Hm|]. intros a s1 W1 G1 H1.
    eapply HT_conseq; [apply Hf|]. intros b s' W' G' F' HQ _. fin_all.
    eapply SH_trans; eassumption.
  Qed.

  Lemma STT_conv hs' hs {A} s (m : M A) : STT hs' s m -> hs' = hs -> STT hs s m.
  Proof. intros H <-. exact H. Qed.

  Lemma NL_bind {A B} s (m : M A) (f : A -> M B) :
    NL s m -> (forall a s1, NL s1 (f a)) -> NL s (bind m f).
  Proof. intros Hm Hf. apply (STT_bind [] [] s m f Hm Hf). Qed.

  Lemma NL_ret {A} s (a : A) : NL s (ret a).
  Proof. apply HT_ret. intros _. apply SH_neutral. reflexivity. Qed.

  Lemma NL_same {A} s (m : M A) : HT Cf s m (fun _ s' => Same s s') -> NL s m.
  Proof.
    intro H. eapply HT_conseq; [exact H|]. intros a s' _ _ _ (_ & C & _). apply SH_neutral, C.
  Qed.

  Lemma NL_emit s i : def_reg i = None -> (forall env, site_of env i = []) -> NL s (emit i).
  Proof.
    intros Hd Hs. eapply HT_conseq; [apply HT_emit, Hd|]. intros a s' _ _ _ (_ & C & _).
    apply (SH_plain s s' i C Hs).
  Qed.
  Lemma NL_emit_kid s n i :
    def_reg i = None -> (forall env, site_of env i = []) -> NL s (emit_kid n i).
  Proof.
    intros Hd Hs. eapply HT_conseq; [apply HT_emit_kid, Hd|]. intros a s' _ _ _ (_ & C & _).
    apply (SH_plain s s' i C Hs).
  Qed.
  Lemma NL_push s : NL s push_child.
  Proof. eapply HT_conseq; [apply HT_push_child|]. intros a s' _ _ _ (_ & C & _). apply SH_neutral, C. Qed.
  Lemma NL_pop s : NL s pop_child.
  Proof. eapply HT_conseq; [apply HT_pop_child|]. intros a s' _ _ _ (_ & C & _). apply SH_neutral, C. Qed.
  Lemma NL_gen_label s base : NL s (gen_label base).
  Proof. apply NL_same, HT_gen_label. Qed.
  Lemma NL_set_return s : NL s set_return.
  Proof. apply NL_same, HT_set_return. Qed.
  Lemma NL_set_inner_name s n : NL s (set_inner_name n).
  Proof. apply NL_same, HT_set_inner_name. Qed.
  Lemma NL_insert_value s x v : NL s (insert_value x v).
  Proof. eapply HT_conseq; [apply HT_insert_value|]. intros a s' _ _ _ (_ & C & _). apply SH_neutral, C. Qed.
  Lemma NL_when s c m : NL s m -> NL s (when c m).
  Proof. intro H. destruct c; [exact H | apply NL_ret]. Qed.
  Lemma NL_gets_bind {A B} s (g : list block -> A) (f : A -> M B) :
    NL s (f (g (frames s))) -> NL s (bind (gets g) f).
  Proof. apply HT_gets_bind. Qed.
  Lemma STT_gets_bind hs {A B} s (g : list block -> A) (f : A -> M B) :
    STT hs s (f (g (frames s))) -> STT hs s (bind (gets g) f).
  Proof. apply HT_gets_bind. Qed.
  Lemma NL_gets {A} s (g : list block -> A) : NL s (gets g).
  Proof. apply HT_gets. intros _. apply SH_neutral. reflexivity. Qed.
  Lemma NL_error s e : NL s (add_error e).
  Proof. apply HT_error. Qed.

  Ltac nl_go :=
    repeat first
      [ apply NL_ret
      | apply HT_panic | apply HT_oof | apply NL_error
      | match goal with H : _ |- HT _ _ _ _ => solve [apply H] end
      | apply NL_emit; [reflexivity | reflexivity]
      | apply NL_emit_kid; [reflexivity | reflexivity]
      | apply NL_gen_label | apply NL_push | apply NL_pop | apply NL_set_return
      | apply NL_when
      | apply NL_gets_bind | apply NL_gets
      | apply NL_bind; [| intros ? ?]
      | match goal with |- HT _ _ (match ?x with _ => _ end) _ => destruct x end
      | progress cbv zeta ].

  Section Stmts.
    Variable fuel : nat.
    Variable RT : sem_ty.

    Notation Hexpr := (H_expression Cf G fuel).

    (** an expression, then code without sites, then one instruction whose site uses the result *)
    Lemma SH_expr_use s s1 s2 e er i (mk : shape -> hsite) :
      Grow s s1 -> HP s (bracket_of e) (expr_calls e) (Some er) s1 ->
      Ctx s2 = Ctx s1 ++ [i] ->
      (forall env, map hsite_of_usite (site_of env i) = [mk (sod (operand env er))]) ->
      SH (call_hsites e ++ [mk (shape_of_expr e)]) s s2.
    Proof.
      intros G1 (er0 & c1 & Hr & C1 & R1 & S1 & T1) C2 Hsite. inversion Hr; subst er0.
      exists (c1 ++ [i]). split; [rewrite C2, C1, app_assoc; reflexivity|].
      rewrite hscan_app, S1. f_equal. rewrite <- (Env_app s s1 c1 C1), hscan_one, Hsite.
      rewrite (T1 _ (shape_of_expr_spec e)). reflexivity.
    Qed.

    (** an expression that yielded nothing: impossible on an accepted run *)
    Lemma none_SH hs s s1 T calls : HP s T calls None s1 -> SH hs s s1.
    Proof. intros (er & c & Hr & _). discriminate. Qed.

    Lemma T_let_binding x m t e s :
      STT (call_hsites e ++ [HLet (shape_of_expr e)]) s (let_binding G fuel x m t e).
    Proof.
      unfold let_binding. cbv zeta.
      eapply HT_bind; [apply Hexpr|]. intros r s1 W1 G1 H1.
      destruct r as [er|].
      2: { apply HT_ret. intros F. unwrap. fin_all. eapply none_SH, H1. }
      destruct (match t with Some _ => _ | None => _ end); [apply HT_error|].
      apply HT_lookup_bind. apply HT_gets_bind.
      eapply HT_bind; [apply HT_next_inner_name|]. intros inner s2 W2 G2 H2.
      eapply HT_bind; [apply HT_insert_value|]. intros u3 s3 W3 G3 H3.
      eapply HT_bind; [apply HT_set_inner_name|]. intros u4 s4 W4 G4 H4.
      eapply HT_conseq; [apply HT_emit; reflexivity|]. intros u5 s5 W5 G5 F5 H5. unwrap. fin_all.
      destruct H2 as [-> _]. destruct H3 as (_ & C3 & V3). destruct H4 as (_ & C4 & V4).
      destruct H5 as (_ & C5 & V5).
      apply (SH_expr_use s s1 s5 e er (ILet (Value inner (r_ty er) m) er) HLet G1 H1).
      - rewrite C5, C4, C3. reflexivity.
      - intro env. reflexivity.
    Qed.

    Lemma T_binding x e s :
      STT (call_hsites e ++ [HAssign (shape_of_expr e)]) s (binding G fuel x e).
    Proof.
      unfold binding. cbv zeta.
      eapply HT_bind; [apply Hexpr|]. intros r s1 W1 G1 H1.
      destruct r as [er|].
      2: { apply HT_ret. intros F. unwrap. fin_all. eapply none_SH, H1. }
      apply HT_lookup_bind. destruct (lookup_frames _ _) as [val|] eqn:El; [|apply HT_error].
      destruct (negb (v_mut val)); [apply HT_error|].
      destruct (negb _); [apply HT_error|].
      eapply HT_conseq; [apply HT_emit; reflexivity|]. intros u2 s2 W2 G2 F2 H2. unwrap. fin_all.
      destruct H2 as (_ & C2 & V2).
      apply (SH_expr_use s s1 s2 e er (IBind val er) HAssign G1 H1 C2). intro env. reflexivity.
    Qed.

    Lemma T_call_stmt f args s :
      STT (flat_map call_hsites args ++ [call_hsite (f, args)]) s (call_stmt G fuel f args).
    Proof.
      unfold call_stmt.
      eapply HT_bind; [apply (H_function_call Cf G); apply Hexpr|]. intros r s1 W1 G1 H1.
      apply HT_ret. intros F. unwrap. fin_all.
      destruct H1 as (ty & c & _ & C1 & S1 & _). exists c. split; [exact C1 | exact S1].
    Qed.

    (** ** Conditions *)
    Definition CPh (s : bst) (c : lcond) (n : N) (s' : bst) : Prop :=
      exists c0, Ctx s' = Ctx s ++ c0 /\ n <= hr s' /\
        hscan (Env s) c0 = lcond_hcalls c /\
        sod (reg_tree (Env s') n) = shape_of_lcond c.

    (** the comparison instruction: what both cases share *)
    Lemma cmp_shape s s1 s2 s3 l r lr rr cmp r3 :
      Grow s s1 -> Grow s1 s2 ->
      HP s (bracket_of l) (expr_calls l) (Some lr) s1 ->
      HP s1 (bracket_of r) (expr_calls r) (Some rr) s2 ->
      AllocP (fun n => ICondExpr lr rr cmp n) s2 r3 s3 ->
      exists c, Ctx s3 = Ctx s ++ c /\
        hscan (Env s) c = call_hsites l ++ call_hsites r /\
        sod (reg_tree (Env s3) r3) = ShCmp cmp (shape_of_expr l) (shape_of_expr r).
    Proof.
      intros G1 G2 (er1 & c1 & Hr1 & C1 & R1 & S1 & T1) (er2 & c2 & Hr2 & C2 & R2 & S2 & T2)
             (Er & Hh & C3 & V3).
      inversion Hr1; subst er1. inversion Hr2; subst er2.
      pose proof (Grow_defs _ _ _ G2 C2) as Hd2.
      exists ((c1 ++ c2) ++ [ICondExpr lr rr cmp r3]).
      split; [rewrite C3, C2, C1, <- !app_assoc; reflexivity|]. split.
      - rewrite hscan_app, hscan_one. cbn [site_of map]. rewrite app_nil_r.
        rewrite hscan_app, S1, <- (Env_app s s1 c1 C1), S2. reflexivity.
      - rewrite (Env_app s2 s3 _ C3). cbn [env_from fold_left env_upd]. unfold reg_tree.
        cbn [env_find]. rewrite N.eqb_refl. cbn [shape_of_dt].
        rewrite (T2 _ (shape_of_expr_spec r)).
        rewrite (Env_app s1 s2 c2 C2), (operand_stable (hr s1) (hr s2) c2 (Env s1) lr Hd2 R1).
        rewrite (T1 _ (shape_of_expr_spec l)). reflexivity.
    Qed.

    Lemma T_condition_expression c : forall s, HT Cf s (condition_expression G fuel c) (CPh s c).
    Proof.
      induction c as [l cmp r | l cmp r op c' IH] using Trace.lcond_ind'; intro s;
        cbn [condition_expression]; cbv zeta;
        (eapply HT_bind; [apply Hexpr|]; intros lres s1 W1 G1 H1;
         eapply HT_bind; [apply Hexpr|]; intros rres s2 W2 G2 H2;
         destruct lres as [lr|]; [|apply HT_error_get_reg];
         destruct rres as [rr|]; [|apply HT_error_get_reg];
         destruct (negb (sem_ty_eqb _ _)); [apply HT_error_get_reg|];
         destruct (negb (is_prim _)); [apply HT_error_get_reg|];
         eapply HT_bind; [apply HT_alloc; intro; reflexivity|]; intros r3 s3 W3 G3 H3).
      - (* a single comparison *)
        eapply HT_bind; [apply HT_ret with (Q := fun _ s' => s' = s3); reflexivity|].
        intros u4 s4 W4 G4 H4. apply HT_get_reg. intros F. unwrap. fin_all. subst s4.
        destruct (cmp_shape s s1 s2 s3 l r lr rr cmp r3 G1 G2 H1 H2 H3) as (c & C & S & T).
        destruct H3 as (Er & Hh & C3 & V3).
        exists c. split; [exact C|]. split; [lia|].
        cbn [lcond_hcalls shape_of_lcond]. rewrite app_nil_r, Hh. split; [exact S | exact T].
      - (* a connective *)
        eapply HT_bind with
          (Q1 := fun _ s6 =>
                   exists c, Ctx s6 = Ctx s3 ++ c /\
                     hscan (Env s3) c = lcond_hcalls c' /\
                     sod (reg_tree (Env s6) (hr s6)) =
                       ShLogic op (sod (reg_tree (Env s3) (hr s3))) (shape_of_lcond c')).
        + apply HT_get_reg_bind.
          eapply HT_bind; [apply IH|]. intros rreg s4 W4 G4 H4.
          eapply HT_bind; [apply HT_alloc; intro; reflexivity|]. intros r5 s5 W5 G5 H5.
          apply HT_ret. intros F. unwrap. fin_all.
          destruct H4 as (c4 & C4 & L4 & S4 & T4).
          destruct H5 as (Er5 & Hh5 & C5 & V5).
          pose proof (Grow_defs _ _ _ G4 C4) as Hd4.
          exists (c4 ++ [ILogic op (hr s3) rreg r5]).
          split; [rewrite C5, C4, <- app_assoc; reflexivity|]. split.
          * rewrite hscan_app, hscan_one. cbn [site_of map]. rewrite app_nil_r. exact S4.
          * rewrite Hh5, (Env_app s4 s5 _ C5). cbn [env_from fold_left env_upd].
            unfold reg_tree at 1. cbn [env_find]. rewrite N.eqb_refl. cbn [shape_of_dt].
            rewrite T4, (Env_app s3 s4 c4 C4).
            rewrite (reg_tree_stable (hr s3) (hr s4) c4 (Env s3) (hr s3) Hd4) by lia. reflexivity.
        + intros u6 s6 W6 G6 H6. apply HT_get_reg. intros F. unwrap. fin_all.
          destruct (cmp_shape s s1 s2 s3 l r lr rr cmp r3 G1 G2 H1 H2 H3) as (c & C & S & T).
          destruct H3 as (Er & Hh & C3 & V3).
          destruct H6 as (c6 & C6 & S6 & T6).
          exists (c ++ c6). split; [rewrite C6, C, <- app_assoc; reflexivity|].
          split; [lia|]. cbn [lcond_hcalls shape_of_lcond]. split.
          * rewrite hscan_app, S, <- (Env_app s s3 c C), S6, <- app_assoc. reflexivity.
          * rewrite T6, Hh, T. reflexivity.
    Qed.

    Lemma T_if_condition_calculation c lb le lend ie s :
      STT (cond_hsites c) s (if_condition_calculation G fuel c lb le lend ie).
    Proof.
      unfold if_condition_calculation. cbv zeta. destruct c as [e|lc]; cbn [cond_hsites].
      - eapply HT_bind; [apply Hexpr|]. intros r s1 W1 G1 H1.
        destruct r as [er|].
        2: { apply HT_ret. intros F. unwrap. fin_all. eapply none_SH, H1. }
        eapply HT_conseq; [apply HT_emit; reflexivity|]. intros u2 s2 W2 G2 F2 H2. unwrap. fin_all.
        destruct H2 as (_ & C2 & V2).
        apply (SH_expr_use s s1 s2 e er (IIfCondExpr er lb (if ie then le else lend)) HCondSingle
                           G1 H1 C2).
        intro env. reflexivity.
      - eapply HT_bind; [apply T_condition_expression|]. intros reg s1 W1 G1 H1.
        eapply HT_conseq; [apply HT_emit; reflexivity|]. intros u2 s2 W2 G2 F2 H2. unwrap. fin_all.
        destruct H2 as (_ & C2 & V2). destruct H1 as (c1 & C1 & L1 & S1 & T1).
        exists (c1 ++ [IIfCondLogic lb (if ie then le else lend) reg]).
        split; [rewrite C2, C1, app_assoc; reflexivity|].
        rewrite hscan_app, S1. f_equal. rewrite <- (Env_app s s1 c1 C1), hscan_one.
        cbn [site_of map hsite_of_usite]. rewrite T1. reflexivity.
    Qed.

    Lemma T_code_after_errors kd fl s : NL s (code_after_errors kd fl).
    Proof. unfold code_after_errors. nl_go. Qed.

    (** ** The control level *)
    Ltac st_go :=
      repeat first
        [ apply NL_ret
        | apply HT_panic | apply HT_oof | apply NL_error
        | match goal with H : _ |- HT _ _ _ _ => solve [apply H] end
        | apply NL_emit; [reflexivity | reflexivity]
        | apply NL_emit_kid; [reflexivity | reflexivity]
        | apply NL_gen_label | apply NL_push | apply NL_pop | apply NL_set_return
        | apply NL_when
        | apply STT_gets_bind
        | eapply STT_bind; [| intros ? ?]
        | progress cbv zeta ].

    Ltac es_norm := cbn [app]; repeat rewrite app_nil_r; repeat rewrite <- app_assoc; reflexivity.

    Section Control.
      Variable IFC : ifstmt -> option string -> option (string * string) -> M unit.
      Variable LOOP : list stmt -> M unit.
      Hypothesis HIFC : forall i le ll s, STT (if_hsites i) s (IFC i le ll).
      Hypothesis HLOOP : forall body s, STT (body_hsites body) s (LOOP body).

      Lemma T_nested_ret kd lend lloop e fl s :
        STT (call_hsites e ++ [HRet (shape_of_expr e)]) s
            (nested_stmt G fuel RT IFC LOOP kd lend lloop fl (SRet e)).
      Proof.
        cbn [nested_stmt].
        eapply HT_bind; [apply Hexpr|]. intros r s1 W1 G1 H1.
        destruct r as [er|].
        2: { apply HT_ret. intros F. unwrap. fin_all. eapply none_SH, H1. }
        eapply HT_bind; [apply HT_when_error|]. intros u2 s2 W2 G2 H2.
        eapply HT_bind; [apply HT_emit; reflexivity|]. intros u3 s3 W3 G3 H3.
        eapply HT_bind; [apply HT_set_return|]. intros u4 s4 W4 G4 H4.
        apply HT_ret. intros F. unwrap. fin_all.
        destruct H2 as [_ ->]. destruct H3 as (_ & C3 & V3). destruct H4 as (_ & C4 & V4).
        apply (SH_expr_use s s1 s4 e er (IJumpFnRet er) HRet G1 H1).
        - rewrite C4. exact C3.
        - intro env. reflexivity.
      Qed.

      Lemma T_nested_stmt kd lend lloop fl st s :
        STT (stmt_hsites st) s (nested_stmt G fuel RT IFC LOOP kd lend lloop fl st).
      Proof.
        pose proof T_let_binding. pose proof T_binding. pose proof T_call_stmt.
        destruct st as [x m t e|x e|f args|i|body|e|e| |].
        - eapply STT_conv; [cbn [nested_stmt]; st_go | es_norm].
        - eapply STT_conv; [cbn [nested_stmt]; st_go | es_norm].
        - eapply STT_conv; [cbn [nested_stmt]; st_go | es_norm].
        - change (stmt_hsites (SIf i)) with (if_hsites i).
          destruct kd; (eapply STT_conv; [cbn [nested_stmt]; st_go | es_norm]).
        - rewrite hs_loop. eapply STT_conv; [cbn [nested_stmt]; st_go | es_norm].
        - apply T_nested_ret.
        - apply HT_panic.
        - destruct kd, lloop as [[lb le]|]; cbn [nested_stmt]; try apply HT_panic;
            (eapply STT_conv; [st_go | reflexivity]).
        - destruct kd, lloop as [[lb le]|]; cbn [nested_stmt]; try apply HT_panic;
            (eapply STT_conv; [st_go | reflexivity]).
      Qed.

      Lemma T_run_body kd lend lloop : forall ss fl s,
        STT (body_hsites ss) s (run_body G fuel RT IFC LOOP kd lend lloop fl ss).
      Proof.
        pose proof T_nested_stmt. pose proof T_code_after_errors.
        induction ss as [|st ss IH]; intros fl s; cbn [run_body].
        - apply NL_ret.
        - cbn [body_hsites flat_map]. fold (body_hsites ss).
          eapply STT_conv; [st_go | es_norm].
      Qed.

      Lemma T_if_body b lend lloop s :
        STT (body_hsites (body_of b)) s (if_body G fuel RT IFC LOOP b lend lloop).
      Proof.
        pose proof T_run_body.
        destruct b as [ss|ss]; cbn [if_body body_of]; [|destruct lloop as [ll|]; [|apply HT_panic]];
          (eapply STT_conv; [st_go | es_norm]).
      Qed.

      Lemma T_if_condition_step i le ll s :
        STT (if_hsites i) s (if_condition_step G fuel RT IFC LOOP i le ll).
      Proof.
        pose proof T_if_body. pose proof T_if_condition_calculation.
        destruct i as [c body els elif]. rewrite hs_if. cbn [if_condition_step].
        destruct els as [eb|]; [|destruct elif as [ei|]].
        - destruct elif as [ei|].
          + (* an else and an else-if: rejected *)
            cbn [is_some andb when]. apply HT_error_then. intro s1. eapply HT_weaken.
            destruct le as [le|]; cbn [is_some orb andb negb]; cbv iota; st_go.
          + destruct le as [le|]; cbn [is_some orb andb negb]; cbv iota;
              (eapply STT_conv; [st_go | es_norm]).
        - destruct le as [le|]; cbn [is_some orb andb negb]; cbv iota;
            (eapply STT_conv; [st_go | es_norm]).
        - destruct le as [le|]; cbn [is_some orb andb negb]; cbv iota;
            (eapply STT_conv; [st_go | es_norm]).
      Qed.

      Lemma T_loop_tail (c : bool) lb le s :
        NL s (if c then ctx <- gets head_ctx ;;
                        when (existsb (is_jump_to le) ctx) (emit (ISetLabel le))
              else emit (IJumpTo lb) ;;; emit (ISetLabel le)).
      Proof. destruct c; nl_go. Qed.

      Lemma T_loop_step body s : STT (body_hsites body) s (loop_step G fuel RT IFC LOOP body).
      Proof.
        pose proof T_run_body. pose proof T_loop_tail. unfold loop_step.
        eapply STT_conv; [st_go | es_norm].
      Qed.
    End Control.

    Lemma T_control n :
      (forall i le ll s, STT (if_hsites i) s (if_condition G fuel RT n i le ll)) /\
      (forall body s, STT (body_hsites body) s (loop_statement G fuel RT n body)).
    Proof.
      induction n as [|n [IH1 IH2]]; split; intros; cbn [if_condition loop_statement];
        try apply HT_oof.
      - apply T_if_condition_step; assumption.
      - apply T_loop_step; assumption.
    Qed.

    Lemma T_fn_ret returned e s :
      STT (call_hsites e ++ [HRet (shape_of_expr e)]) s (fn_stmt G fuel RT returned (SRet e)).
    Proof.
      cbn [fn_stmt].
      eapply HT_bind; [apply Hexpr|]. intros r s1 W1 G1 H1.
      eapply HT_bind; [apply HT_when_error|]. intros u2 s2 W2 G2 H2.
      destruct r as [er|].
      2: { apply HT_ret. intros F. unwrap. fin_all. destruct H2 as [_ ->]. eapply none_SH, H1. }
      eapply HT_bind; [apply HT_check_type_exists|]. intros ok s3 W3 G3 H3.
      eapply HT_bind; [apply HT_when_error|]. intros u4 s4 W4 G4 H4.
      apply HT_gets_bind.
      eapply HT_bind with
        (Q1 := fun _ s5 => exists i, (forall env, site_of env i = [URet (operand env er)]) /\
                                      EmitP i s4 s5).
      { destruct (head_mret (frames s4));
          (eapply HT_conseq; [apply HT_emit; reflexivity|]; intros u5 s5 _ _ _ H5;
           eexists; split; [|exact H5]; intro env; reflexivity). }
      intros u5 s5 W5 G5 H5. apply HT_ret. intros F. unwrap. fin_all.
      destruct H2 as [_ ->]. destruct H3 as (_ & -> & _). destruct H4 as [_ ->].
      destruct H5 as (i & Hsite & _ & C5 & V5).
      apply (SH_expr_use s s1 s5 e er i HRet G1 H1 C5).
      intro env. rewrite Hsite. reflexivity.
    Qed.

    Lemma T_fn_stmt returned st s : STT (stmt_hsites st) s (fn_stmt G fuel RT returned st).
    Proof.
      pose proof T_let_binding. pose proof T_binding. pose proof T_call_stmt.
      destruct (T_control fuel) as [HI HL].
      destruct st as [x m t e|x e|f args|i|body|e|e| |].
      - eapply STT_conv; [cbn [fn_stmt]; st_go | es_norm].
      - eapply STT_conv; [cbn [fn_stmt]; st_go | es_norm].
      - eapply STT_conv; [cbn [fn_stmt]; st_go | es_norm].
      - change (stmt_hsites (SIf i)) with (if_hsites i).
        eapply STT_conv; [cbn [fn_stmt]; st_go | es_norm].
      - rewrite hs_loop. eapply STT_conv; [cbn [fn_stmt]; st_go | es_norm].
      - apply T_fn_ret.
      - exact (T_fn_ret returned e s).
      - apply HT_panic.
      - apply HT_panic.
    Qed.

    Lemma T_fn_stmts : forall ss returned s,
      STT (body_hsites ss) s (fn_stmts G fuel RT returned ss).
    Proof.
      pose proof T_fn_stmt.
      induction ss as [|st ss IH]; intros returned s; cbn [fn_stmts].
      - apply NL_ret.
      - cbn [body_hsites flat_map]. fold (body_hsites ss).
        eapply STT_conv; [st_go | es_norm].
    Qed.
  End Stmts.

  Lemma T_init_func_params : forall ps s, NL s (init_func_params ps).
  Proof.
    induction ps as [|[x t] ps IH]; intro s; cbn [init_func_params]; [apply NL_ret|].
    pose proof NL_insert_value. pose proof NL_set_inner_name. nl_go.
  Qed.

  (** ** One function body *)
  Lemma T_function_body_m f s : STT (fn_hsites f) s (function_body_m G f).
  Proof.
    unfold function_body_m. cbv zeta.
    change (fn_hsites f) with (body_hsites (fn_body f)).
    eapply STT_conv.
    - eapply STT_bind; [apply T_init_func_params | intros ? ?].
      eapply STT_bind; [apply T_fn_stmts | intros ? ?].
      apply NL_when, NL_error.
    - cbn [app]. rewrite app_nil_r. reflexivity.
  Qed.
End Stmt.

(** ** One function *)
Lemma WF_init0 e : WF (BSt [empty_block] e).
Proof. split; [discriminate | apply Inv_reg_init]. Qed.

Lemma function_body_C07x G f a s root :
  function_body G [] f = Ok a s -> errs s = [] -> frames s = [root] ->
  chk_C07_shape_fn f root = true.
Proof.
  intros H He Hf.
  assert (HC : Ctx s = b_ctx root) by (unfold Ctx; rewrite Hf; reflexivity).
  unfold chk_C07_shape_fn, stack_hsites. rewrite <- HC. unfold function_body in H.
  destruct (T_function_body_m (Ctx s) G f (BSt [empty_block] []) (WF_init0 []) a s H)
    as (_ & _ & HQ).
  destruct HQ as (c & C & HQ).
  { split; [exact He|]. exists []. rewrite app_nil_r. reflexivity. }
  change (Ctx (BSt [empty_block] [])) with (@nil instr) in C. cbn [app] in C.
  change (Env (BSt [empty_block] [])) with (@nil (N * dt * bool)) in HQ. rewrite <- C in HQ.
  unfold hscan in HQ. rewrite HQ. apply hsites_eqb_refl.
Qed.

(** ** The driver *)
Lemma chk_fns_snoc : forall fs roots f r,
  chk_C07_shape_fns fs roots = true -> chk_C07_shape_fn f r = true ->
  chk_C07_shape_fns (fs ++ [f]) (roots ++ [r]) = true.
Proof.
  induction fs as [|f0 fs IH]; intros [|r0 roots] f r H Hc; cbn in *; try discriminate.
  - rewrite Hc. reflexivity.
  - apply Bool.andb_true_iff in H as [H1 H2]. rewrite H1. cbn. apply IH; assumption.
Qed.

Lemma bodies_errs_grow G : forall fs errs0 roots errs1 roots1,
  bodies G errs0 roots fs = inr (errs1, roots1) -> exists e, errs1 = errs0 ++ e.
Proof.
  induction fs as [|f fs IH]; intros errs0 roots errs1 roots1 H; cbn [bodies] in H.
  - inversion H; subst. exists []. rewrite app_nil_r. reflexivity.
  - destruct (function_body G errs0 f) as [a s| |] eqn:E; try discriminate.
    destruct (frames s) as [|root [|]]; try discriminate.
    destruct (IH _ _ _ _ H) as [e2 E2]. destruct (function_body_errs _ _ _ _ _ E) as [e1 E1].
    exists (e1 ++ e2). rewrite E2, E1, app_assoc. reflexivity.
Qed.

Lemma bodies_C07x G : forall fs fs0 errs0 roots errs1 roots1,
  bodies G errs0 roots fs = inr (errs1, roots1) -> errs1 = [] ->
  chk_C07_shape_fns fs0 roots = true -> chk_C07_shape_fns (fs0 ++ fs) roots1 = true.
Proof.
  induction fs as [|f fs IH]; intros fs0 errs0 roots errs1 roots1 H He Ho; cbn [bodies] in H.
  - inversion H; subst. rewrite app_nil_r. exact Ho.
  - destruct (function_body G errs0 f) as [a s| |] eqn:E; try discriminate.
    destruct (frames s) as [|root [|]] eqn:Ef; try discriminate.
    destruct (bodies_errs_grow _ _ _ _ _ _ H) as [e2 E2].
    destruct (function_body_errs _ _ _ _ _ E) as [e1 E1].
    subst errs1. symmetry in E2. apply app_eq_nil in E2 as [Hs _].
    rewrite Hs in E1. symmetry in E1. apply app_eq_nil in E1 as [H0 _]. subst errs0.
    pose proof (function_body_C07x G f a s root E Hs Ef) as Hc.
    specialize (IH (fs0 ++ [f]) (errs s) (roots ++ [root]) [] roots1 H eq_refl
                   (chk_fns_snoc _ _ _ _ Ho Hc)).
    rewrite <- app_assoc in IH. exact IH.
Qed.

(** C07, every leaf kind and every statement position: on accepted programs, the tree that every
    use site of the root stack denotes -- registers expanded through the instructions that define
    them -- has exactly the shape of the source expression bracketed by [Spec/Bracket.bracket]
    (explicit brackets transparent, calls with the shapes of their arguments, comparisons and
    connectives nested as written). *)
Theorem run_emitted_shape_is_bracket : forall p out,
  run p = ROk out -> o_errors out = [] -> chk_C07_shape p out = true.
Proof.
  intros p out H Hacc. unfold run in H.
  destruct (bodies (gs_globals (declarations p)) (gs_errs (declarations p)) [] (functions_of p))
    as [r|[errors roots]] eqn:E; [exfalso; eapply bodies_not_ok; subst r; exact E|].
  inversion H; subst; clear H. cbn [o_errors] in Hacc. subst errors.
  unfold chk_C07_shape. cbn [o_errors o_fns].
  apply (bodies_C07x _ _ [] _ _ _ _ E eq_refl eq_refl).
Qed.

Print Assumptions run_emitted_shape_is_bracket.

(** ** The expression level, stated on its own: on a run that is accepted in the end (no error up
    to [s'], whose root stack is a prefix of the final stack [Cf]), the analysis of [e] yields an
    operand whose tree -- read back through the registers, F7 included -- has exactly the shape
    of [e] bracketed by [bracket]; the use sites pushed are the calls of [e], in the order of
    [Mon/C06.expr_calls], with the shapes of their argument expressions; the code pushed defines
    only registers above the old counter. *)
Theorem expression_emits_shape : forall Cf G fuel e s r s',
  WF s -> expression G fuel e s = Ok r s' -> Fin Cf s' ->
  exists er c, r = Some er /\ Ctx s' = Ctx s ++ c /\ Env s' = env_from (Env s) c /\
    DefsIn (hr s) (hr s') c /\
    map hsite_of_usite (scan (Env s) c) = call_hsites e /\
    shape_of_dt (operand (Env s') er) = shape_of_expr e.
Proof.
  intros Cf G fuel e s r s' W H F.
  destruct (H_expression Cf G fuel e s W r s' H) as (_ & Gr & HQ).
  destruct (HQ F) as (er & c & Hr & C & _ & S & T).
  exists er, c. split; [exact Hr|]. split; [exact C|]. split; [apply Env_app, C|].
  split; [apply (Grow_defs _ _ _ Gr C)|]. split; [exact S|].
  apply T, shape_of_expr_spec.
Qed.

(** the fuel of the monitor's [shape_of_expr] suffices: its result is the shape of the bracketed
    chain in the fuel-free reading [ShT] *)
Theorem shape_of_expr_is_bracket_shape : forall e, ShT (bracket_of e) (shape_of_expr e).
Proof. exact shape_of_expr_spec. Qed.

(** old registers (F7 operands included) keep their tree when such code is appended *)
Theorem extension_keeps_old_operands : forall lo hi c env e,
  DefsIn lo hi c -> Forall (fun n => n <= lo) (eres_reg e) ->
  operand (env_from env c) e = operand env e.
Proof. exact operand_stable. Qed.

Print Assumptions expression_emits_shape.
Print Assumptions shape_of_expr_is_bracket_shape.
Print Assumptions extension_keeps_old_operands.

(** ** Alignment: the source-side enumeration is the one of [Mon/C06.v]: same kinds of sites (and the same
    number of arguments at every call) in the same order, whatever the declaration list, scope
    and declaration counter that [Mon/C06.fn_sites] threads for its tokens *)
Inductive skind := KiLet | KiAssign | KiRet | KiCondSingle | KiCondLogic | KiCall (arity : nat).

Definition hkind (h : hsite) : skind :=
  match h with
  | HLet _ => KiLet | HAssign _ => KiAssign | HRet _ => KiRet
  | HCondSingle _ => KiCondSingle | HCondLogic _ => KiCondLogic
  | HCall args => KiCall (length args)
  end.

Definition ekind (e : esite) : skind :=
  match e with
  | ELet _ _ _ => KiLet | EAssign _ _ _ => KiAssign | ERet _ => KiRet
  | ECondSingle _ => KiCondSingle | ECondLogic _ => KiCondLogic
  | ECall _ args => KiCall (length args)
  end.

Section Align.
  Variable D : list (string * sem_ty).

  Lemma kinds_calls sc e : map hkind (call_hsites e) = map ekind (call_sites D sc e).
  Proof.
    unfold call_hsites, call_sites. rewrite !map_map. apply map_ext. intros [f args].
    cbn [hkind call_hsite ekind call_site snd]. rewrite !map_length. reflexivity.
  Qed.

  Lemma kinds_flat_calls sc args :
    map hkind (flat_map call_hsites args) = map ekind (flat_map (call_sites D sc) args).
  Proof.
    induction args as [|a args IH]; [reflexivity|]. cbn [flat_map].
    rewrite !map_app, IH, (kinds_calls sc a). reflexivity.
  Qed.

  Lemma kinds_lcond sc c : map hkind (lcond_hcalls c) = map ekind (lcond_calls D sc c).
  Proof.
    induction c as [l cmp r | l cmp r op c' IH] using Trace.lcond_ind';
      cbn [lcond_hcalls lcond_calls]; rewrite !map_app, !(kinds_calls sc); [reflexivity|].
    rewrite IH. reflexivity.
  Qed.

  Lemma kinds_cond sc c : map hkind (cond_hsites c) = map ekind (cond_sites D sc c).
  Proof.
    destruct c as [e|lc]; cbn [cond_hsites cond_sites]; rewrite !map_app.
    - rewrite (kinds_calls sc). reflexivity.
    - rewrite (kinds_lcond sc). reflexivity.
  Qed.

  Definition Ps (s : stmt) : Prop :=
    forall sc k, map hkind (stmt_hsites s) = map ekind (ss_es D s sc k).
  Definition Pb (ss : list stmt) : Prop :=
    forall sc k, map hkind (body_hsites ss) = map ekind (bs_es D ss sc k).

  Lemma kinds_body ss : Forall Ps ss -> Pb ss.
  Proof.
    induction 1 as [|st ss Hst _ IH]; intros sc k; [reflexivity|].
    destruct (bs_cons D st ss sc k) as (E1 & _ & _). rewrite E1.
    cbn [body_hsites flat_map]. fold (body_hsites ss). rewrite !map_app, (Hst sc k), (IH (ss_sc D st sc k) (ss_k D st sc k)).
    reflexivity.
  Qed.

  Lemma kinds_all :
    (forall s, Ps s) /\
    (forall i sc k, map hkind (if_hsites i) = map ekind (if_es D i sc k)) /\
    (forall b, Pb (body_of b)).
  Proof.
    apply stmt_all_ind'.
    - intros x m ty e sc k. destruct (ss_let D x m ty e sc k) as (E & _). rewrite E.
      cbn [stmt_hsites]. rewrite !map_app, (kinds_calls sc). reflexivity.
    - intros x e sc k. destruct (ss_bind D x e sc k) as (E & _). rewrite E.
      cbn [stmt_hsites]. rewrite !map_app, (kinds_calls sc). reflexivity.
    - intros f args sc k. destruct (ss_call D f args sc k) as (E & _). rewrite E.
      cbn [stmt_hsites]. rewrite !map_app, (kinds_flat_calls sc).
      cbn [map hkind call_hsite ekind call_site snd]. rewrite !map_length. reflexivity.
    - intros i Hi sc k. destruct (ss_if D i sc k) as (E & _). rewrite E. apply Hi.
    - intros body Hb sc k. destruct (ss_loop D body sc k) as (E & _). rewrite E, hs_loop.
      apply kinds_body, Hb.
    - intros e sc k. destruct (ss_ret D e sc k) as (E & _). rewrite E.
      cbn [stmt_hsites]. rewrite !map_app, (kinds_calls sc). reflexivity.
    - intros e sc k. destruct (ss_exprstmt D e sc k) as (E & _). rewrite E.
      cbn [stmt_hsites]. rewrite !map_app, (kinds_calls sc). reflexivity.
    - intros sc k. reflexivity.
    - intros sc k. reflexivity.
    - intros c body els elif Hb He Hi sc k. rewrite hs_if.
      destruct els as [eb|]; [|destruct elif as [ei|]]; cbn [opt_holds] in He, Hi.
      + destruct (if_sites_else D c body eb elif sc k) as [E _]. rewrite E.
        rewrite !map_app, (kinds_cond sc), (Hb sc k), (He sc (bs_k D (stmts_of body) sc k)). reflexivity.
      + destruct (if_sites_elif D c body ei sc k) as [E _]. rewrite E.
        rewrite !map_app, (kinds_cond sc), (Hb sc k), (Hi sc (bs_k D (stmts_of body) sc k)). reflexivity.
      + destruct (if_sites_plain D c body sc k) as [E _]. rewrite E.
        rewrite !map_app, (kinds_cond sc), (Hb sc k). cbn [map]. rewrite app_nil_r. reflexivity.
    - intros ss H. apply kinds_body, H.
    - intros ss H. apply kinds_body, H.
  Qed.

  Theorem fn_hsites_aligned f : map hkind (fn_hsites f) = map ekind (fn_sites D f).
  Proof.
    unfold fn_sites. destruct (param_scope (fn_params f) [] 0) as [sc k].
    rewrite stmts_sites_eq. apply (kinds_body (fn_body f)).
    apply Forall_forall. intros s _. apply (proj1 kinds_all).
  Qed.
End Align.

Print Assumptions fn_hsites_aligned.
