(** The generic value-level monitor [Mon/C05h.chk_C05_gen] never fires on the output of the model
    for an accepted program, for every family of interpretations whose equality test is reflexive
    and every family of argument lists of the right lengths; hence neither does its constant-size
    instance [chk_C05h] (fingerprints), nor the instance with the free interpretation.

    From [ValueSim.value_simulation] (any value type, any interpretation),
    [ValueSim.value_simulation_returns], the safety lemmas of [ValueSimSafe.v] and
    [ValueSimMon.returned_not_stuck]. *)
From Coq Require Import Lia.
From SA Require Import Model.
From SA.Spec Require Import Stack Exec ValueExec.
From SA.Mon Require Import Control C05w C05h.
From SA.Proofs Require Import ExecBasic FlowBasic FlowSim ValueSimBase ValueSim ValueSimSafe ValueSimMon.
Local Open Scope list_scope.

Theorem chk_C05_gen_on_model :
  forall (V : Type) (mk : N -> interp V) (args : nat -> list V),
    (forall salt v, i_eqb (mk salt) v v = true) -> (forall n, length (args n) = n) ->
    forall salts nflat nsrc p out,
      run p = ROk out -> o_errors out = [] -> chk_C05_gen V mk args salts nflat nsrc p out = true.
Proof.
  intros V mk args Heq Hlen salts nflat nsrc p out H Hacc. unfold chk_C05_gen. rewrite Hacc.
  apply (proj2 (forallb2_Forall2 _ (fun f root => chk_C05_gen_fn V mk args salts nflat nsrc f root = true) _ _
                  (fun a b => iff_refl _))).
  assert (HIn : Forall (fun root => In root (o_fns out)) (o_fns out))
    by (apply Forall_forall; trivial).
  pose proof (Forall2_all _ 0%N _ _
                (fun salt => value_simulation_returns V (mk salt) p out H Hacc)) as HR.
  pose proof (Forall2_all _ 0%N _ _
                (fun salt => value_simulation V (mk salt) p out (Heq salt) H Hacc)) as HA.
  pose proof (Forall2_Forall_r _ _ _ _ (Forall2_and _ _ _ _ HA HR) HIn) as HF.
  eapply Forall2_impl; [|exact HF]. cbv beta.
  intros f root [[Hag Hret] Hin]. unfold chk_C05_gen_fn. apply forallb_forall. intros salt _.
  unfold chk_C05_gen_salt. cbv zeta.
  set (a := args (length (fn_params f))).
  assert (Ha : length a = length (fn_params f)) by apply Hlen.
  destruct (Hag salt a nflat nsrc Ha) as [Hv Ho]. rewrite Hv, Ho. cbn [andb].
  assert (Hc : machine_ends_inside (snd (vflat_exec V (mk salt) (b_ctx root) a nflat)) = true).
  { pose proof (vflat_never_bad_label V (mk salt) p out H root Hin a nflat) as H1.
    pose proof (vflat_never_falls_off V (mk salt) p out H Hacc root Hin a nflat) as H2.
    destruct (snd (vflat_exec _ _ _ _ _)); try reflexivity; [congruence | exfalso; eapply H1; reflexivity]. }
  rewrite Hc. cbn [andb].
  destruct (vstruct_exec V (mk salt) true f a nsrc) as [e ss] eqn:Es. cbn [snd].
  destruct ss; try reflexivity.
  eapply returned_not_stuck, (Hret salt); [exact Ha | exact Es].
Qed.

Lemma hash_args_length n : length (hash_args n) = n.
Proof. unfold hash_args. rewrite map_length, seq_length. reflexivity. Qed.

(** the constant-size monitor *)
Theorem chk_C05h_on_model : forall salts nflat nsrc p out,
  run p = ROk out -> o_errors out = [] -> chk_C05h salts nflat nsrc p out = true.
Proof.
  intros. apply chk_C05_gen_on_model; try assumption.
  - intros salt v. apply N.eqb_refl.
  - apply hash_args_length.
Qed.

(** the free interpretation again, as an instance of the generic theorem *)
Theorem chk_C05_free_on_model : forall salts nflat nsrc p out,
  run p = ROk out -> o_errors out = [] -> chk_C05_free salts nflat nsrc p out = true.
Proof.
  intros. apply chk_C05_gen_on_model; try assumption.
  - intros salt v. apply term_eqb_refl.
  - apply free_args_length.
Qed.

Print Assumptions chk_C05_gen_on_model.
Print Assumptions chk_C05h_on_model.
Print Assumptions chk_C05_free_on_model.
