(** Family T2 (C06), part 2: the source side of the monitor in the form the walk needs.

    - the statement-level site functions of [Mon/C06.v] with their nested fixpoints named
      ([body_sites]) and in projection form;
    - declaration numbers: the [ELet] sites of a site list carry consecutive numbers
      ([Numbered]), so the list of source names [decl_names] has the name of every let at the
      position of its number ([NMok]);
    - the scope invariant: what the live value tables hold is what the source scope selects
      ([ScopeOk]), for every suffix of the frame chain ([SInvV]). *)
From Coq Require Import Lia.
From SA Require Import Model.
From SA.Spec Require Import Stack.
From SA.Mon Require Import C06.
From SA.Proofs Require Import InvNames DenoteEnv.
Local Open Scope list_scope.

(** ** Site functions *)
Section Sites.
  Variable D : list (string * sem_ty).

  Fixpoint body_sites (ss : list stmt) (sc : scope) (k : N) : list esite * N :=
    match ss with
    | [] => ([], k)
    | s' :: ss' =>
        let '(a, sc1, k1) := stmt_sites D s' sc k in
        let '(b, k2) := body_sites ss' sc1 k1 in (a ++ b, k2)
    end.

  Fixpoint body_scope (ss : list stmt) (sc : scope) (k : N) : scope :=
    match ss with
    | [] => sc
    | s' :: ss' =>
        let '(_, sc1, k1) := stmt_sites D s' sc k in body_scope ss' sc1 k1
    end.

  Definition ss_es (st : stmt) (sc : scope) (k : N) : list esite := fst (fst (stmt_sites D st sc k)).
  Definition ss_sc (st : stmt) (sc : scope) (k : N) : scope := snd (fst (stmt_sites D st sc k)).
  Definition ss_k (st : stmt) (sc : scope) (k : N) : N := snd (stmt_sites D st sc k).
  Definition bs_es (ss : list stmt) (sc : scope) (k : N) : list esite := fst (body_sites ss sc k).
  Definition bs_k (ss : list stmt) (sc : scope) (k : N) : N := snd (body_sites ss sc k).
  Definition if_es (i : ifstmt) (sc : scope) (k : N) : list esite := fst (if_sites D i sc k).
  Definition if_k (i : ifstmt) (sc : scope) (k : N) : N := snd (if_sites D i sc k).
  Definition stmts_of (b : ifbody) : list stmt := match b with IBIf ss | IBLoop ss => ss end.

  Lemma bs_cons st ss sc k :
    bs_es (st :: ss) sc k = ss_es st sc k ++ bs_es ss (ss_sc st sc k) (ss_k st sc k) /\
    bs_k (st :: ss) sc k = bs_k ss (ss_sc st sc k) (ss_k st sc k) /\
    body_scope (st :: ss) sc k = body_scope ss (ss_sc st sc k) (ss_k st sc k).
  Proof.
    unfold bs_es, bs_k, ss_es, ss_sc, ss_k. cbn [body_sites body_scope].
    destruct (stmt_sites D st sc k) as [[a sc1] k1]. cbn [fst snd].
    destruct (body_sites ss sc1 k1) as [b k2]. repeat split.
  Qed.

  Lemma bs_nil sc k : bs_es [] sc k = [] /\ bs_k [] sc k = k /\ body_scope [] sc k = sc.
  Proof. repeat split. Qed.

  Lemma loop_go_eq : forall body sc k,
    (fix go (ss : list stmt) (sc0 : scope) (k0 : N) : list esite * N :=
       match ss with
       | [] => ([], k0)
       | s' :: ss' =>
           let '(a, sc1, k1) := stmt_sites D s' sc0 k0 in
           let '(b, k2) := go ss' sc1 k1 in (a ++ b, k2)
       end) body sc k = body_sites body sc k.
  Proof.
    induction body as [|s' ss IH]; intros sc k; [reflexivity|].
    cbn [body_sites]. destruct (stmt_sites D s' sc k) as [[a sc1] k1]. rewrite IH. reflexivity.
  Qed.

  Lemma ifbody_sites_eq b sc k : ifbody_sites D b sc k = body_sites (stmts_of b) sc k.
  Proof. destruct b as [ss|ss]; apply loop_go_eq. Qed.

  Lemma ss_let x m t e sc k :
    ss_es (SLet x m t e) sc k = call_sites D sc e ++ [ELet (iname x) k (etoks D sc e)] /\
    ss_sc (SLet x m t e) sc k = (iname x, k) :: sc /\ ss_k (SLet x m t e) sc k = k + 1.
  Proof. repeat split. Qed.
  Lemma ss_bind x e sc k :
    ss_es (SBind x e) sc k = call_sites D sc e ++ [EAssign (iname x) (sc_find (iname x) sc) (etoks D sc e)] /\
    ss_sc (SBind x e) sc k = sc /\ ss_k (SBind x e) sc k = k.
  Proof. repeat split. Qed.
  Lemma ss_call f args sc k :
    ss_es (SCall f args) sc k = flat_map (call_sites D sc) args ++ [call_site D sc (f, args)] /\
    ss_sc (SCall f args) sc k = sc /\ ss_k (SCall f args) sc k = k.
  Proof. repeat split. Qed.
  Lemma ss_ret e sc k :
    ss_es (SRet e) sc k = call_sites D sc e ++ [ERet (etoks D sc e)] /\
    ss_sc (SRet e) sc k = sc /\ ss_k (SRet e) sc k = k.
  Proof. repeat split. Qed.
  Lemma ss_exprstmt e sc k :
    ss_es (SExprStmt e) sc k = call_sites D sc e ++ [ERet (etoks D sc e)] /\
    ss_sc (SExprStmt e) sc k = sc /\ ss_k (SExprStmt e) sc k = k.
  Proof. repeat split. Qed.
  Lemma ss_break sc k : ss_es SBreak sc k = [] /\ ss_sc SBreak sc k = sc /\ ss_k SBreak sc k = k.
  Proof. repeat split. Qed.
  Lemma ss_continue sc k :
    ss_es SContinue sc k = [] /\ ss_sc SContinue sc k = sc /\ ss_k SContinue sc k = k.
  Proof. repeat split. Qed.
  Lemma ss_if i sc k :
    ss_es (SIf i) sc k = if_es i sc k /\ ss_sc (SIf i) sc k = sc /\ ss_k (SIf i) sc k = if_k i sc k.
  Proof.
    unfold ss_es, ss_sc, ss_k, if_es, if_k.
    change (stmt_sites D (SIf i) sc k) with (let '(l, k') := if_sites D i sc k in (l, sc, k')).
    destruct (if_sites D i sc k) as [l k']. repeat split.
  Qed.
  Lemma ss_loop body sc k :
    ss_es (SLoop body) sc k = bs_es body sc k /\ ss_sc (SLoop body) sc k = sc /\
    ss_k (SLoop body) sc k = bs_k body sc k.
  Proof.
    unfold ss_es, ss_sc, ss_k, bs_es, bs_k.
    change (stmt_sites D (SLoop body) sc k) with
      (let '(l, k') :=
         (fix go (ss : list stmt) (sc0 : scope) (k0 : N) : list esite * N :=
            match ss with
            | [] => ([], k0)
            | s' :: ss' =>
                let '(a, sc1, k1) := stmt_sites D s' sc0 k0 in
                let '(b, k2) := go ss' sc1 k1 in (a ++ b, k2)
            end) body sc k in
       (l, sc, k')).
    rewrite loop_go_eq. destruct (body_sites body sc k) as [l k']. repeat split.
  Qed.

  (** an [if] in its three shapes (an else wins over an else-if) *)
  Lemma if_sites_else c body eb elif sc k :
    if_es (IfS c body (Some eb) elif) sc k =
      cond_sites D sc c ++ bs_es (stmts_of body) sc k ++
      bs_es (stmts_of eb) sc (bs_k (stmts_of body) sc k) /\
    if_k (IfS c body (Some eb) elif) sc k = bs_k (stmts_of eb) sc (bs_k (stmts_of body) sc k).
  Proof.
    unfold if_es, if_k, bs_es, bs_k.
    change (if_sites D (IfS c body (Some eb) elif) sc k) with
      (let '(b, k1) := ifbody_sites D body sc k in
       let '(e, k2) := ifbody_sites D eb sc k1 in (cond_sites D sc c ++ b ++ e, k2)).
    rewrite (ifbody_sites_eq body). destruct (body_sites (stmts_of body) sc k) as [b k1].
    rewrite (ifbody_sites_eq eb). cbn [fst snd].
    destruct (body_sites (stmts_of eb) sc k1) as [e k2]. split; reflexivity.
  Qed.
  Lemma if_sites_elif c body ei sc k :
    if_es (IfS c body None (Some ei)) sc k =
      cond_sites D sc c ++ bs_es (stmts_of body) sc k ++ if_es ei sc (bs_k (stmts_of body) sc k) /\
    if_k (IfS c body None (Some ei)) sc k = if_k ei sc (bs_k (stmts_of body) sc k).
  Proof.
    unfold if_es, if_k, bs_es, bs_k.
    change (if_sites D (IfS c body None (Some ei)) sc k) with
      (let '(b, k1) := ifbody_sites D body sc k in
       let '(e, k2) := if_sites D ei sc k1 in (cond_sites D sc c ++ b ++ e, k2)).
    rewrite (ifbody_sites_eq body). destruct (body_sites (stmts_of body) sc k) as [b k1].
    cbn [fst snd]. destruct (if_sites D ei sc k1) as [e k2]. split; reflexivity.
  Qed.
  Lemma if_sites_plain c body sc k :
    if_es (IfS c body None None) sc k = cond_sites D sc c ++ bs_es (stmts_of body) sc k /\
    if_k (IfS c body None None) sc k = bs_k (stmts_of body) sc k.
  Proof.
    unfold if_es, if_k, bs_es, bs_k.
    change (if_sites D (IfS c body None None) sc k) with
      (let '(b, k1) := ifbody_sites D body sc k in (cond_sites D sc c ++ b ++ [], k1)).
    rewrite (ifbody_sites_eq body). destruct (body_sites (stmts_of body) sc k) as [b k1].
    cbn [fst snd]. rewrite app_nil_r. split; reflexivity.
  Qed.

  Lemma stmts_sites_eq : forall ss sc k, stmts_sites D ss sc k = bs_es ss sc k.
  Proof.
    induction ss as [|st ss IH]; intros sc k; [reflexivity|].
    rewrite (proj1 (bs_cons st ss sc k)). cbn [stmts_sites]. unfold ss_es, ss_sc, ss_k.
    destruct (stmt_sites D st sc k) as [[a sc1] k1]. cbn [fst snd]. rewrite IH. reflexivity.
  Qed.

  Lemma csites_args sc args : csites D sc (args_calls args) = flat_map (call_sites D sc) args.
  Proof.
    unfold csites, args_calls, call_sites. induction args as [|a args IH]; [reflexivity|].
    cbn [flat_map]. rewrite map_app, IH. reflexivity.
  Qed.
End Sites.

(** ** Declaration numbers *)
Inductive Numbered : N -> list esite -> N -> Prop :=
| Num_nil k : Numbered k [] k
| Num_let x k t es k' : Numbered (k + 1) es k' -> Numbered k (ELet x k t :: es) k'
| Num_other e es k k' : let_name e = [] -> Numbered k es k' -> Numbered k (e :: es) k'.

Lemma Numbered_app k es1 k1 es2 k2 :
  Numbered k es1 k1 -> Numbered k1 es2 k2 -> Numbered k (es1 ++ es2) k2.
Proof. intros H1 H2. induction H1; cbn [app]; [exact H2 | constructor; auto ..]. Qed.

Lemma Numbered_nolet k es : Forall (fun e => let_name e = []) es -> Numbered k es k.
Proof. induction 1; constructor; assumption. Qed.

Lemma Numbered_calls D sc k l : Numbered k (csites D sc l) k.
Proof. apply Numbered_nolet. unfold csites. apply Forall_map. apply Forall_forall. reflexivity. Qed.

Lemma Numbered_call_sites D sc k e : Numbered k (call_sites D sc e) k.
Proof. apply (Numbered_calls D sc k (expr_calls e)). Qed.

Lemma Numbered_flat_calls D sc k args : Numbered k (flat_map (call_sites D sc) args) k.
Proof. rewrite <- csites_args. apply Numbered_calls. Qed.

Lemma Numbered_count k es k' :
  Numbered k es k' -> k' = k + N.of_nat (length (flat_map let_name es)).
Proof.
  induction 1 as [k|x k t es k' _ IH|e es k k' He _ IH]; cbn [flat_map let_name app length].
  - lia.
  - rewrite IH. lia.
  - rewrite He. exact IH.
Qed.

Definition NMok (NM : list string) (es : list esite) : Prop :=
  forall x k t, In (ELet x k t) es -> nthN NM k = Some x.

Lemma NMok_app NM a b : NMok NM (a ++ b) <-> NMok NM a /\ NMok NM b.
Proof.
  unfold NMok. split.
  - intro H. split; intros x k t Hin; apply (H x k t), in_or_app; [left | right]; exact Hin.
  - intros [Ha Hb] x k t Hin. apply in_app_or in Hin as [Hin|Hin]; [eapply Ha | eapply Hb]; exact Hin.
Qed.

Lemma NMok_nil NM : NMok NM [].
Proof. intros x k t []. Qed.

(** the names list of the monitor: the let of number [k] is at position [k] *)
Lemma Numbered_NMok : forall k es k', Numbered k es k' ->
  forall pre, k = N.of_nat (length pre) -> NMok (pre ++ flat_map let_name es) es.
Proof.
  induction 1 as [k|x k t es k' _ IH|e es k k' He _ IH]; intros pre Hk.
  - apply NMok_nil.
  - intros y j u [Hin|Hin].
    + inversion Hin; subst. cbn [flat_map let_name app]. apply nthN_middle.
    + cbn [flat_map let_name app].
      replace (pre ++ x :: flat_map let_name es) with ((pre ++ [x]) ++ flat_map let_name es)
        by (rewrite <- app_assoc; reflexivity).
      apply (IH (pre ++ [x]) (ltac:(rewrite app_length; cbn; lia)) y j u Hin).
  - intros y j u [Hin|Hin]; [subst e; discriminate He|].
    cbn [flat_map]. rewrite He. cbn [app]. apply (IH pre Hk y j u Hin).
Qed.

(** [src] holds [L] from position [j] on *)
Definition at_offN {A} (src : list A) (j : N) (L : list A) : Prop :=
  forall i t, nthN L i = Some t -> nthN src (j + i) = Some t.

Lemma at_offN_prefix {A} (L rest : list A) : at_offN (L ++ rest) 0 L.
Proof. intros i t H. apply nthN_app_l. exact H. Qed.

Lemma at_offN_cons {A} (src : list A) j x L :
  at_offN src j (x :: L) -> nthN src j = Some x /\ at_offN src (j + 1) L.
Proof.
  intro H. split.
  - specialize (H 0 x eq_refl). rewrite N.add_0_r in H. exact H.
  - intros i t Hi. rewrite <- N.add_assoc. apply H. cbn [nthN].
    destruct (N.eqb_spec (1 + i) 0); [lia|]. replace (1 + i - 1) with i by lia. exact Hi.
Qed.

Lemma same_len_length {A B} : forall (a : list A) (b : list B), length a = length b -> same_len a b = true.
Proof.
  induction a as [|x a IH]; intros [|y b] H; cbn in *; try discriminate; [reflexivity|].
  apply IH. lia.
Qed.

(** ** The scope invariant *)
Fixpoint lookupV (x : string) (V : list (list (string * value))) : option value :=
  match V with
  | [] => None
  | h :: r => match alookup x h with Some v => Some v | None => lookupV x r end
  end.

Lemma lookup_frames_V x : forall fs, lookup_frames x fs = lookupV x (map b_values fs).
Proof. induction fs as [|b fs IH]; [reflexivity|]. cbn. rewrite IH. reflexivity. Qed.

Section Scope.
  Variable D : list (string * sem_ty).
  Variable NM : list string.

  Definition ScopeOk (sc : scope) (V : list (list (string * value))) : Prop :=
    forall x, match lookupV x V with
              | Some val => exists k, sc_find x sc = Some k /\
                                      nthN D k = Some (v_inner val, v_ty val) /\ nthN NM k = Some x
              | None => sc_find x sc = None
              end.

  Fixpoint SInvV (scs : list scope) (V : list (list (string * value))) : Prop :=
    match scs, V with
    | [], [] => True
    | sc :: scs', h :: V' => ScopeOk sc (h :: V') /\ SInvV scs' V'
    | _, _ => False
    end.

  Lemma ScopeOk_push sc V : ScopeOk sc V -> ScopeOk sc ([] :: V).
  Proof. intros H x. exact (H x). Qed.

  Lemma SInvV_push sc rest V : SInvV (sc :: rest) V -> SInvV (sc :: sc :: rest) ([] :: V).
  Proof.
    intro H. destruct V as [|h V']; [destruct H|]. split; [apply ScopeOk_push, H | exact H].
  Qed.

  Lemma SInvV_pop sc rest V : SInvV (sc :: rest) V -> SInvV rest (tl V).
  Proof. intro H. destruct V as [|h V']; [destruct H | apply H]. Qed.

  Lemma SInvV_head sc rest V : SInvV (sc :: rest) V -> ScopeOk sc V.
  Proof. intro H. destruct V as [|h V']; [destruct H | apply H]. Qed.

  Lemma ScopeOk_insert sc h V' x k val :
    ScopeOk sc (h :: V') -> nthN D k = Some (v_inner val, v_ty val) -> nthN NM k = Some x ->
    ScopeOk ((x, k) :: sc) (ainsert x val h :: V').
  Proof.
    intros H Hd Hn y. specialize (H y). cbn [lookupV sc_find] in *.
    rewrite alookup_ainsert. destruct (String.eqb_spec y x) as [->|Hne].
    - exists k. repeat split; assumption.
    - exact H.
  Qed.

  Lemma SInvV_insert sc rest V x k val :
    SInvV (sc :: rest) V -> nthN D k = Some (v_inner val, v_ty val) -> nthN NM k = Some x ->
    SInvV (((x, k) :: sc) :: rest)
          (match V with h :: t => ainsert x val h :: t | [] => [] end).
  Proof.
    intros H Hd Hn. destruct V as [|h V']; [destruct H|]. destruct H as [H1 H2].
    split; [apply ScopeOk_insert; assumption | exact H2].
  Qed.
End Scope.
