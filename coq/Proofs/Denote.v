(** Family T2: every computed value is the value the source expression denotes (C06).

    On accepted programs the output of the model passes the monitor of [Mon/C06.v], in both of
    its settings (names only / names and declaration numbers):

      [run_denotes_source]        : run p = ROk out -> o_errors out = [] -> chk_C06 p out = true
      [run_denotes_source_scoped] : ... -> chk_C06_scoped p out = true

    The expression level is [DenoteExpr.v].  Here: the statement kinds ([ULet] / [UAssign] with
    the translation of internal names through the declaration list, [URet], the two condition
    sites with the nesting of comparisons and connectives), the control level (blocks push and
    pop a scope; an [if] analyses its condition, its body, then its else part), the function
    body, the driver.  A statement is described by [SS scs k es scs' k' s s']: it pushed a
    suffix whose use sites are [es], from scopes [scs] (one per live frame) and declaration
    counter [k] to [scs'] and [k']. *)
From Coq Require Import Lia.
From SA Require Import Model.
From SA.Spec Require Import Stack Bracket.
From SA.Mon Require Import C06.
From SA.Proofs Require Import Reach InvReg Trace InvNames DefUse Fold InvTree
  DenoteLogic DenoteEnv DenoteSrc DenoteExpr.
Local Open Scope list_scope.

Section Walk.
  Variable Cf : list instr.
  Variable G : globals.
  Variable NM : list string.
  Notation D := (stack_decls Cf).
  Hypothesis HD : NoDup (map fst D).
  Hypothesis HGc : forall x c, alookup x (g_consts G) = Some c -> c_name c = x.
  Hypothesis HGf : forall x fd, alookup x (g_funcs G) = Some fd -> f_name fd = x.

  Notation tkD := (tk D NM).
  Notation okD := (site_ok D NM).
  Notation DPx := (DP Cf NM).

  Definition SInv (scs : list scope) (s : bst) : Prop := SInvV D NM scs (vals s).
  Definition KInv (k : N) (s : bst) : Prop := k = N.of_nat (length (stack_decls (Ctx s))).

  Definition SS (scs : list scope) (k : N) (es : list esite) (scs' : list scope) (k' : N)
             (s s' : bst) : Prop :=
    exists c, Ctx s' = Ctx s ++ c /\ Numbered k es k' /\
      (NMok NM es -> SInv scs s -> KInv k s ->
       Forall2 okD (scan (Env s) c) es /\ SInv scs' s' /\ KInv k' s').

  Lemma SS_trans scs k es1 scs1 k1 es2 scs2 k2 s s1 s2 :
    SS scs k es1 scs1 k1 s s1 -> SS scs1 k1 es2 scs2 k2 s1 s2 ->
    SS scs k (es1 ++ es2) scs2 k2 s s2.
  Proof.
    intros (c1 & C1 & N1 & H1) (c2 & C2 & N2 & H2). exists (c1 ++ c2).
    split; [rewrite C2, C1, app_assoc; reflexivity|].
    split; [eapply Numbered_app; eassumption|].
    intros Hnm Hs Hk. apply NMok_app in Hnm as [Hn1 Hn2].
    destruct (H1 Hn1 Hs Hk) as (S1 & I1 & K1). destruct (H2 Hn2 I1 K1) as (S2 & I2 & K2).
    split; [|split; assumption].
    rewrite dscan_app. apply Forall2_app; [exact S1|]. rewrite <- (Env_app s s1 c1 C1). exact S2.
  Qed.

  Lemma SS_neutral scs k s s' : Ctx s' = Ctx s -> vals s' = vals s -> SS scs k [] scs k s s'.
  Proof.
    intros C V. exists []. rewrite app_nil_r. split; [exact C|]. split; [constructor|].
    intros _ Hs Hk. split; [constructor|]. split.
    - unfold SInv. rewrite V. exact Hs.
    - unfold KInv. rewrite C. exact Hk.
  Qed.

  Definition dplain (i : instr) : Prop :=
    def_reg i = None /\ (forall env, site_of env i = []) /\ decl_of i = [].

  Lemma SS_plain scs k i s s' : dplain i -> EmitP i s s' -> SS scs k [] scs k s s'.
  Proof.
    intros (_ & Hs & Hd) (_ & C & V). exists [i]. split; [exact C|]. split; [constructor|].
    intros _ Hi Hk. split; [rewrite scan_one, Hs; constructor|]. split.
    - unfold SInv. rewrite V. exact Hi.
    - unfold KInv. rewrite C, stack_decls_app. cbn [stack_decls flat_map]. rewrite Hd.
      rewrite !app_nil_r. exact Hk.
  Qed.

  Lemma SS_push sc rest k s s' :
    Ctx s' = Ctx s -> vals s' = [] :: vals s -> SS (sc :: rest) k [] (sc :: sc :: rest) k s s'.
  Proof.
    intros C V. exists []. rewrite app_nil_r. split; [exact C|]. split; [constructor|].
    intros _ Hs Hk. split; [constructor|]. split.
    - unfold SInv. rewrite V. apply SInvV_push. exact Hs.
    - unfold KInv. rewrite C. exact Hk.
  Qed.

  Lemma SS_pop sc rest k s s' :
    Ctx s' = Ctx s -> vals s' = tl (vals s) -> SS (sc :: rest) k [] rest k s s'.
  Proof.
    intros C V. exists []. rewrite app_nil_r. split; [exact C|]. split; [constructor|].
    intros _ Hs Hk. split; [constructor|]. split.
    - unfold SInv. rewrite V. eapply SInvV_pop. exact Hs.
    - unfold KInv. rewrite C. exact Hk.
  Qed.

  (** a statement that declares nothing *)
  Lemma SS_stmt sc rest k es s s' c :
    Ctx s' = Ctx s ++ c -> Forall (fun e => let_name e = []) es ->
    (ScopeOk D NM sc (vals s) ->
     vals s' = vals s /\ stack_decls c = [] /\ Forall2 okD (scan (Env s) c) es) ->
    SS (sc :: rest) k es (sc :: rest) k s s'.
  Proof.
    intros C Hl Hs. exists c. split; [exact C|]. split; [apply Numbered_nolet, Hl|].
    intros _ Hi Hk. destruct (Hs (SInvV_head _ _ _ _ _ Hi)) as (V & Hd & S).
    split; [exact S|]. split.
    - unfold SInv. rewrite V. exact Hi.
    - unfold KInv. rewrite C, stack_decls_app, Hd, app_nil_r. exact Hk.
  Qed.

  Lemma calls_nolet sc e : Forall (fun x => let_name x = []) (call_sites D sc e).
  Proof. unfold call_sites. apply Forall_map, Forall_forall. reflexivity. Qed.

  Lemma flat_calls_nolet sc args : Forall (fun x => let_name x = []) (flat_map (call_sites D sc) args).
  Proof.
    induction args as [|a args IH]; [constructor|]. cbn [flat_map]. apply Forall_app.
    split; [apply calls_nolet | exact IH].
  Qed.

  (** an expression, then one instruction that uses its result *)
  Lemma SS_expr_use sc rest k s s1 s2 er i (toks : scope -> list tok) (calls : scope -> list esite)
        site :
    Grow s s1 ->
    (forall sc0, ScopeOk D NM sc0 (vals s) -> DPx s (toks sc0) (calls sc0) (Some er) s1) ->
    Forall (fun e => let_name e = []) (calls sc) -> let_name site = [] -> decl_of i = [] ->
    Ctx s2 = Ctx s1 ++ [i] -> vals s2 = vals s1 ->
    (forall env, tkD (operand env er) = toks sc -> nobad (toks sc) ->
       Forall2 okD (site_of env i) [site]) ->
    SS (sc :: rest) k (calls sc ++ [site]) (sc :: rest) k s s2.
  Proof.
    intros (c1 & e1 & C1 & _) Hdp Hcl Hsl Hdi C2 V2 Hsite.
    apply (SS_stmt sc rest k _ s s2 (c1 ++ [i])).
    - rewrite C2, C1, app_assoc. reflexivity.
    - apply Forall_app. split; [exact Hcl | constructor; [exact Hsl | constructor]].
    - intro Hsc. destruct (Hdp sc Hsc) as (er0 & c & Hr & C & V1 & D1 & _ & S & T & B).
      inversion Hr; subst er0. rewrite C1 in C. apply app_inv_head in C. subst c.
      split; [congruence|]. split.
      + rewrite stack_decls_app, D1. cbn [stack_decls flat_map]. rewrite Hdi. reflexivity.
      + rewrite dscan_app. apply Forall2_app; [exact S|].
        rewrite <- (Env_app s s1 c1 C1), scan_one. apply Hsite; assumption.
  Qed.

  Lemma DP_frame s toks calls r s1 :
    DPx s toks calls r s1 -> exists c1, Ctx s1 = Ctx s ++ c1 /\ vals s1 = vals s /\ stack_decls c1 = [].
  Proof. intros (er & c & _ & C & V & Dc & _). exists c. repeat split; assumption. Qed.

  Notation STT scs k es scs' k' s m := (HT Cf s m (fun _ s' => SS scs k es scs' k' s s')).

  Lemma STT_bind scs k es1 scs1 k1 es2 scs2 k2 {A B} s (m : M A) (f : A -> M B) :
    STT scs k es1 scs1 k1 s m -> (forall a s1, STT scs1 k1 es2 scs2 k2 s1 (f a)) ->
    STT scs k (es1 ++ es2) scs2 k2 s (bind m f).
  Proof.
    intros Hm Hf. eapply HT_bind; [exact Hm|]. intros a s1 W1 G1 H1.
    eapply HT_conseq; [apply Hf|]. intros b s' W' G' F' HQ _. fin_all.
    eapply SS_trans; eassumption.
  Qed.

  Lemma STT_conv es' scs'' k'' scs k es scs' k' {A} s (m : M A) :
    STT scs k es' scs'' k'' s m -> es' = es -> scs'' = scs' -> k'' = k' -> STT scs k es scs' k' s m.
  Proof. intros H <- <- <-. exact H. Qed.

  Lemma STT_ret scs k {A} s (a : A) : STT scs k [] scs k s (ret a).
  Proof. apply HT_ret. intros _. apply SS_neutral; reflexivity. Qed.

  Lemma STT_same scs k {A} s (m : M A) : HT Cf s m (fun _ s' => Same s s') -> STT scs k [] scs k s m.
  Proof.
    intro H. eapply HT_conseq; [exact H|]. intros a s' _ _ _ (_ & C & V). apply SS_neutral; assumption.
  Qed.

  Lemma STT_emit scs k s i : dplain i -> STT scs k [] scs k s (emit i).
  Proof.
    intro Hp. eapply HT_conseq; [apply HT_emit, Hp|]. intros a s' _ _ _ HE.
    eapply SS_plain; eassumption.
  Qed.
  Lemma STT_emit_kid scs k s n i : dplain i -> STT scs k [] scs k s (emit_kid n i).
  Proof.
    intro Hp. eapply HT_conseq; [apply HT_emit_kid, Hp|]. intros a s' _ _ _ HE.
    eapply SS_plain; eassumption.
  Qed.
  Lemma STT_push sc rest k s : STT (sc :: rest) k [] (sc :: sc :: rest) k s push_child.
  Proof.
    eapply HT_conseq; [apply HT_push_child|]. intros a s' _ _ _ (_ & C & V). apply SS_push; assumption.
  Qed.
  Lemma STT_pop sc rest k s : STT (sc :: rest) k [] rest k s pop_child.
  Proof.
    eapply HT_conseq; [apply HT_pop_child|]. intros a s' _ _ _ (_ & C & V). apply SS_pop; assumption.
  Qed.
  Lemma STT_gen_label scs k s base : STT scs k [] scs k s (gen_label base).
  Proof. apply STT_same, HT_gen_label. Qed.
  Lemma STT_set_return scs k s : STT scs k [] scs k s set_return.
  Proof. apply STT_same, HT_set_return. Qed.
  Lemma STT_when scs k s c m : STT scs k [] scs k s m -> STT scs k [] scs k s (when c m).
  Proof. intro H. destruct c; [exact H | apply STT_ret]. Qed.
  Lemma STT_gets_bind scs k es scs' k' {A B} s (g : list block -> A) (f : A -> M B) :
    STT scs k es scs' k' s (f (g (frames s))) -> STT scs k es scs' k' s (bind (gets g) f).
  Proof. apply HT_gets_bind. Qed.
  Lemma STT_error_nil scs k s e : STT scs k [] scs k s (add_error e).
  Proof. apply HT_error. Qed.

  Ltac st_go :=
    repeat first
      [ apply STT_ret
      | apply HT_panic | apply HT_oof | apply STT_error_nil
      | match goal with H : _ |- HT _ _ _ _ => solve [apply H] end
      | apply STT_emit; repeat split
      | apply STT_emit_kid; repeat split
      | apply STT_gen_label | apply STT_push | apply STT_pop | apply STT_set_return
      | apply STT_when
      | apply STT_gets_bind
      | eapply STT_bind; [| intros ? ?]
      | progress cbv zeta ].

  Ltac es_norm := cbn [app]; repeat rewrite app_nil_r; repeat rewrite <- app_assoc; reflexivity.

  Lemma nthN_at {A} (l1 : list A) x l2 k :
    k = N.of_nat (length l1) -> nthN (l1 ++ x :: l2) k = Some x.
  Proof. intros ->. apply nthN_middle. Qed.

  (** the declaration that a state pushes is, in the final list, at the position of the counter *)
  Lemma D_at s s' c1 i k p :
    Fin Cf s' -> Ctx s' = (Ctx s ++ c1) ++ [i] -> stack_decls c1 = [] -> decl_of i = [p] ->
    KInv k s -> nthN D k = Some p.
  Proof.
    intros [_ (crest & HCf)] C Hd Hi Hk. rewrite HCf, C, !stack_decls_app, Hd, app_nil_r.
    cbn [stack_decls flat_map]. rewrite Hi. cbn [app]. rewrite <- app_assoc. cbn [app].
    apply nthN_at. exact Hk.
  Qed.

  Lemma KInv_step s s' c1 i k p :
    Ctx s' = (Ctx s ++ c1) ++ [i] -> stack_decls c1 = [] -> decl_of i = [p] ->
    KInv k s -> KInv (k + 1) s'.
  Proof.
    intros C Hd Hi Hk. unfold KInv in *. rewrite C, !stack_decls_app, Hd, app_nil_r.
    cbn [stack_decls flat_map]. rewrite Hi. rewrite app_length. cbn [length app]. lia.
  Qed.

  (** ** Statements *)
  Section Stmts.
    Variable fuel : nat.
    Variable RT : sem_ty.

    Notation Dexpr := (D_expression Cf G NM HD HGc HGf fuel).

    (** an expression that yielded nothing: impossible on an accepted run from a good scope *)
    Lemma none_SS sc rest k es scs' k' s s1 toks calls :
      Grow s s1 -> Numbered k es k' ->
      (forall sc0, ScopeOk D NM sc0 (vals s) -> DPx s (toks sc0) (calls sc0) None s1) ->
      SS (sc :: rest) k es scs' k' s s1.
    Proof.
      intros (c & e0 & C & _) Hn H1. exists c. split; [exact C|]. split; [exact Hn|].
      intros _ Hs _. exfalso. destruct (H1 sc (SInvV_head _ _ _ _ _ Hs)) as (er & c0 & Hr & _).
      discriminate.
    Qed.

    Lemma T_let_binding x m t e sc rest k s :
      STT (sc :: rest) k (call_sites D sc e ++ [ELet (iname x) k (etoks D sc e)])
          (((iname x, k) :: sc) :: rest) (k + 1) s (let_binding G fuel x m t e).
    Proof.
      assert (Hnum : Numbered k (call_sites D sc e ++ [ELet (iname x) k (etoks D sc e)]) (k + 1)).
      { eapply Numbered_app; [apply Numbered_call_sites | apply Num_let, Num_nil]. }
      unfold let_binding. cbv zeta.
      eapply HT_bind; [apply Dexpr|]. intros r s1 W1 G1 H1.
      destruct r as [er|].
      2: { apply HT_ret. intros F. unwrap. fin_all.
           apply (none_SS sc rest k _ _ _ s s1 (fun sc0 => etk D sc0 e) (fun sc0 => call_sites D sc0 e));
             assumption. }
      destruct (match t with Some _ => _ | None => _ end); [apply HT_error|].
      apply HT_lookup_bind. apply HT_gets_bind.
      eapply HT_bind; [apply HT_next_inner_name|]. intros inner s2 W2 G2 H2.
      eapply HT_bind; [apply HT_insert_value|]. intros u3 s3 W3 G3 H3.
      eapply HT_bind; [apply HT_set_inner_name|]. intros u4 s4 W4 G4 H4.
      eapply HT_conseq; [apply HT_emit; reflexivity|]. intros u5 s5 W5 G5 F5 H5. unwrap. fin_all.
      destruct H2 as [-> _]. destruct H3 as (_ & C3 & V3). destruct H4 as (_ & C4 & V4).
      destruct H5 as (_ & C5 & V5). destruct G1 as (c1 & e1 & C1 & _).
      set (val := Value inner (r_ty er) m) in *.
      assert (C : Ctx s5 = (Ctx s ++ c1) ++ [ILet val er]) by (rewrite C5, C4, C3, C1; reflexivity).
      exists (c1 ++ [ILet val er]). split; [rewrite C, app_assoc; reflexivity|].
      split; [exact Hnum|]. intros Hnm Hs Hk.
      pose proof (SInvV_head _ _ _ _ _ Hs) as Hsc.
      destruct (H1 sc Hsc) as (er0 & c & Hr & C0 & V1 & D1 & R1 & S1 & T1 & B1).
      inversion Hr; subst er0. rewrite C1 in C0. apply app_inv_head in C0. subst c.
      assert (HDk : nthN D k = Some (v_inner val, v_ty val)).
      { apply (D_at s s5 c1 (ILet val er) k); try assumption; reflexivity. }
      assert (HNk : nthN NM k = Some (iname x)).
      { apply (Hnm (iname x) k (etoks D sc e)). apply in_or_app. right. left. reflexivity. }
      split; [|split].
      - rewrite dscan_app. apply Forall2_app; [exact S1|].
        rewrite <- (Env_app s s1 c1 C1), scan_one. cbn [site_of]. constructor; [|constructor].
        cbn [site_ok]. split; [apply (decl_index_of Cf HD k _ _ HDk)|]. split; [exact HNk|].
        split; [exact T1 | exact B1].
      - unfold SInv. rewrite V5, V4, V3, V1. apply SInvV_insert; assumption.
      - apply (KInv_step s s5 c1 (ILet val er) k (v_inner val, v_ty val)); try assumption; reflexivity.
    Qed.

    Lemma T_binding x e sc rest k s :
      STT (sc :: rest) k
          (call_sites D sc e ++ [EAssign (iname x) (sc_find (iname x) sc) (etoks D sc e)])
          (sc :: rest) k s (binding G fuel x e).
    Proof.
      assert (Hnum : Numbered k (call_sites D sc e ++
                                 [EAssign (iname x) (sc_find (iname x) sc) (etoks D sc e)]) k).
      { apply Numbered_nolet, Forall_app. split; [apply calls_nolet|].
        constructor; [reflexivity | constructor]. }
      unfold binding. cbv zeta.
      eapply HT_bind; [apply Dexpr|]. intros r s1 W1 G1 H1.
      destruct r as [er|].
      2: { apply HT_ret. intros F. unwrap. fin_all.
           apply (none_SS sc rest k _ _ _ s s1 (fun sc0 => etk D sc0 e) (fun sc0 => call_sites D sc0 e));
             assumption. }
      apply HT_lookup_bind. destruct (lookup_frames _ _) as [val|] eqn:El; [|apply HT_error].
      destruct (negb (v_mut val)); [apply HT_error|].
      destruct (negb _); [apply HT_error|].
      eapply HT_conseq; [apply HT_emit; reflexivity|]. intros u2 s2 W2 G2 F2 H2. unwrap. fin_all.
      destruct H2 as (_ & C2 & V2).
      destruct G1 as (c1 & e1 & C1 & _).
      exists (c1 ++ [IBind val er]). split; [rewrite C2, C1, app_assoc; reflexivity|].
      split; [exact Hnum|]. intros Hnm Hs Hk.
      pose proof (SInvV_head _ _ _ _ _ Hs) as Hsc.
      destruct (H1 sc Hsc) as (er0 & c & Hr & C0 & V1 & D1 & R1 & S1 & T1 & B1).
      inversion Hr; subst er0. rewrite C1 in C0. apply app_inv_head in C0. subst c.
      rewrite lookup_V, V1 in El. pose proof (Hsc (iname x)) as Hx. rewrite El in Hx.
      destruct Hx as (k0 & Hf & Hd0 & Hn0).
      split; [|split].
      - rewrite dscan_app. apply Forall2_app; [exact S1|].
        rewrite <- (Env_app s s1 c1 C1), scan_one. cbn [site_of]. constructor; [|constructor].
        cbn [site_ok]. exists k0. split; [exact Hf|].
        split; [apply (decl_index_of Cf HD k0 _ _ Hd0)|]. split; [exact Hn0|].
        split; [exact T1 | exact B1].
      - unfold SInv. rewrite V2, V1. exact Hs.
      - unfold KInv in *. rewrite C2, C1, !stack_decls_app, D1. cbn. rewrite !app_nil_r. exact Hk.
    Qed.

    Lemma T_call_stmt f args sc rest k s :
      STT (sc :: rest) k (flat_map (call_sites D sc) args ++ [call_site D sc (f, args)])
          (sc :: rest) k s (call_stmt G fuel f args).
    Proof.
      unfold call_stmt. cbv zeta.
      eapply HT_bind; [apply (D_function_call Cf G NM HGf); apply Dexpr|]. intros r s1 W1 G1 H1.
      apply HT_ret. intros F. unwrap. fin_all. destruct G1 as (c1 & e1 & C1 & _).
      exists c1. split; [exact C1|]. split.
      { apply Numbered_nolet, Forall_app. split; [apply flat_calls_nolet|].
        constructor; [reflexivity | constructor]. }
      intros Hnm Hs Hk. pose proof (SInvV_head _ _ _ _ _ Hs) as Hsc.
      destruct (H1 sc Hsc) as (ty & c & Hr & C0 & V1 & D1 & S1 & _).
      rewrite C1 in C0. apply app_inv_head in C0. subst c.
      split; [exact S1|]. split.
      - unfold SInv. rewrite V1. exact Hs.
      - unfold KInv in *. rewrite C1, stack_decls_app, D1, app_nil_r. exact Hk.
    Qed.

    (** ** Conditions *)
    Definition CPd (s : bst) (c : lcond) (n : N) (s' : bst) : Prop :=
      forall sc, ScopeOk D NM sc (vals s) ->
        exists c0, Ctx s' = Ctx s ++ c0 /\ vals s' = vals s /\ stack_decls c0 = [] /\ n <= hr s' /\
          Forall2 okD (scan (Env s) c0) (lcond_calls D sc c) /\
          tkD (reg_tree (Env s') n) = lcond_toks D sc c [] /\ nobad (lcond_toks D sc c []).

    Lemma lcond_toks_single sc l cmp r :
      lcond_toks D sc (LC l cmp r None) [] = KOpen :: etk D sc l ++ KCmp cmp :: etk D sc r ++ [KClose].
    Proof. cbn [lcond_toks]. rewrite !(proj1 (toks_acc D sc)). reflexivity. Qed.

    Lemma lcond_toks_link sc l cmp r op c' :
      lcond_toks D sc (LC l cmp r (Some (op, c'))) [] =
      KOpen :: (KOpen :: etk D sc l ++ KCmp cmp :: etk D sc r ++ [KClose]) ++
      KLogic op :: lcond_toks D sc c' [] ++ [KClose].
    Proof.
      cbn [lcond_toks]. rewrite (lcond_toks_acc D sc c' [KClose]).
      rewrite !(proj1 (toks_acc D sc)). app_norm. reflexivity.
    Qed.

    (** the comparison instruction: what both cases share *)
    Lemma cmp_tree s s1 s2 s3 sc l r lr rr cmp r3 c1 c2 :
      Grow s s1 -> Grow s1 s2 ->
      DPx s (etk D sc l) (call_sites D sc l) (Some lr) s1 ->
      DPx s1 (etk D sc r) (call_sites D sc r) (Some rr) s2 ->
      Ctx s1 = Ctx s ++ c1 -> Ctx s2 = Ctx s1 ++ c2 ->
      AllocP (fun n => ICondExpr lr rr cmp n) s2 r3 s3 ->
      Forall2 okD (scan (Env s) ((c1 ++ c2) ++ [ICondExpr lr rr cmp r3]))
              (call_sites D sc l ++ call_sites D sc r) /\
      tkD (reg_tree (Env s3) r3) = KOpen :: etk D sc l ++ KCmp cmp :: etk D sc r ++ [KClose] /\
      nobad (KOpen :: etk D sc l ++ KCmp cmp :: etk D sc r ++ [KClose]) /\
      stack_decls ((c1 ++ c2) ++ [ICondExpr lr rr cmp r3]) = [] /\ vals s3 = vals s.
    Proof.
      intros G1 G2 (er1 & c1' & Hr1 & C1' & V1 & D1 & R1 & S1 & T1 & B1)
             (er2 & c2' & Hr2 & C2' & V2 & D2 & R2 & S2 & T2 & B2) C1 C2 (Er & Hh & C3 & V3).
      inversion Hr1; subst er1. inversion Hr2; subst er2.
      rewrite C1 in C1'. apply app_inv_head in C1'. subst c1'.
      rewrite C2 in C2'. apply app_inv_head in C2'. subst c2'.
      pose proof (Grow_defs _ _ _ G2 C2) as Hd2.
      split; [|split; [|split; [|split]]].
      - rewrite dscan_app, scan_one. cbn [site_of]. rewrite app_nil_r.
        rewrite dscan_app. apply Forall2_app; [exact S1|]. rewrite <- (Env_app s s1 c1 C1). exact S2.
      - rewrite (Env_app s2 s3 _ C3). cbn [env_from fold_left env_upd]. unfold reg_tree.
        cbn [env_find]. rewrite N.eqb_refl. rewrite tk_cmp, T2.
        rewrite (Env_app s1 s2 c2 C2), (operand_stable (hr s1) (hr s2) c2 (Env s1) lr Hd2 R1), T1.
        reflexivity.
      - apply nobad_cons. split; [discriminate|]. apply nobad_app. split; [exact B1|].
        apply nobad_cons. split; [discriminate|]. apply nobad_app. split; [exact B2|].
        constructor; [discriminate | constructor].
      - rewrite !stack_decls_app, D1, D2. reflexivity.
      - congruence.
    Qed.

    Lemma T_condition_expression c : forall s, HT Cf s (condition_expression G fuel c) (CPd s c).
    Proof.
      induction c as [l cmp r | l cmp r op c' IH] using lcond_ind'; intro s;
        cbn [condition_expression]; cbv zeta;
        (eapply HT_bind; [apply Dexpr|]; intros lres s1 W1 G1 H1;
         eapply HT_bind; [apply Dexpr|]; intros rres s2 W2 G2 H2;
         destruct lres as [lr|]; [|apply HT_error_get_reg];
         destruct rres as [rr|]; [|apply HT_error_get_reg];
         destruct (negb (sem_ty_eqb _ _)); [apply HT_error_get_reg|];
         destruct (negb (is_prim _)); [apply HT_error_get_reg|];
         eapply HT_bind; [apply HT_alloc; intro; reflexivity|]; intros r3 s3 W3 G3 H3).
      - (* a single comparison *)
        eapply HT_bind; [apply HT_ret with (Q := fun _ s' => s' = s3); reflexivity|].
        intros u4 s4 W4 G4 H4. apply HT_get_reg. intros F. unwrap. fin_all. subst s4.
        intros sc Hsc. pose proof (H1 sc Hsc) as P1.
        destruct (DP_frame _ _ _ _ _ P1) as (c1 & C1 & V1 & _).
        assert (Hsc1 : ScopeOk D NM sc (vals s1)) by (rewrite V1; exact Hsc).
        pose proof (H2 sc Hsc1) as P2. destruct (DP_frame _ _ _ _ _ P2) as (c2 & C2 & V2 & _).
        destruct (cmp_tree s s1 s2 s3 sc l r lr rr cmp r3 c1 c2 G1 G2 P1 P2 C1 C2 H3)
          as (S & T & B & Dc & V).
        destruct H3 as (Er & Hh & C3 & V3).
        exists ((c1 ++ c2) ++ [ICondExpr lr rr cmp r3]).
        split; [rewrite C3, C2, C1, <- !app_assoc; reflexivity|]. split; [exact V|].
        split; [exact Dc|]. split; [lia|].
        cbn [lcond_calls]. rewrite app_nil_r, lcond_toks_single. rewrite Hh.
        split; [exact S|]. split; [exact T | exact B].
      - (* a connective *)
        eapply HT_bind with
          (Q1 := fun _ s6 => forall sc, ScopeOk D NM sc (vals s3) ->
                   exists c, Ctx s6 = Ctx s3 ++ c /\ vals s6 = vals s3 /\ stack_decls c = [] /\
                     Forall2 okD (scan (Env s3) c) (lcond_calls D sc c') /\
                     tkD (reg_tree (Env s6) (hr s6)) =
                       KOpen :: tkD (reg_tree (Env s3) (hr s3)) ++
                       KLogic op :: lcond_toks D sc c' [] ++ [KClose] /\
                     nobad (lcond_toks D sc c' [])).
        + apply HT_get_reg_bind.
          eapply HT_bind; [apply IH|]. intros rreg s4 W4 G4 H4.
          eapply HT_bind; [apply HT_alloc; intro; reflexivity|]. intros r5 s5 W5 G5 H5.
          apply HT_ret. intros F. unwrap. fin_all. intros sc Hsc.
          destruct (H4 sc Hsc) as (c4 & C4 & V4 & D4 & L4 & S4 & T4 & B4).
          destruct H5 as (Er5 & Hh5 & C5 & V5).
          pose proof (Grow_defs _ _ _ G4 C4) as Hd4.
          exists (c4 ++ [ILogic op (hr s3) rreg r5]).
          split; [rewrite C5, C4, <- app_assoc; reflexivity|]. split; [congruence|].
          split; [rewrite stack_decls_app, D4; reflexivity|].
          split; [|split; [|exact B4]].
          * rewrite dscan_app, scan_one. cbn [site_of]. rewrite app_nil_r. exact S4.
          * rewrite Hh5, (Env_app s4 s5 _ C5). cbn [env_from fold_left env_upd]. unfold reg_tree at 1.
            cbn [env_find]. rewrite N.eqb_refl. rewrite tk_logic, T4.
            rewrite (Env_app s3 s4 c4 C4).
            rewrite (reg_tree_stable (hr s3) (hr s4) c4 (Env s3) (hr s3) Hd4) by lia. reflexivity.
        + intros u6 s6 W6 G6 H6. apply HT_get_reg. intros F. unwrap. fin_all.
          intros sc Hsc. pose proof (H1 sc Hsc) as P1.
          destruct (DP_frame _ _ _ _ _ P1) as (c1 & C1 & V1 & _).
          assert (Hsc1 : ScopeOk D NM sc (vals s1)) by (rewrite V1; exact Hsc).
          pose proof (H2 sc Hsc1) as P2. destruct (DP_frame _ _ _ _ _ P2) as (c2 & C2 & V2 & _).
          destruct (cmp_tree s s1 s2 s3 sc l r lr rr cmp r3 c1 c2 G1 G2 P1 P2 C1 C2 H3)
            as (S & T & B & Dc & V).
          destruct H3 as (Er & Hh & C3 & V3).
          assert (Hsc3 : ScopeOk D NM sc (vals s3)) by (rewrite V; exact Hsc).
          destruct (H6 sc Hsc3) as (c6 & C6 & V6 & D6 & S6 & T6 & B6).
          exists (((c1 ++ c2) ++ [ICondExpr lr rr cmp r3]) ++ c6).
          split; [rewrite C6, C3, C2, C1, <- !app_assoc; reflexivity|]. split; [congruence|].
          split; [rewrite stack_decls_app, Dc, D6; reflexivity|]. split; [lia|].
          cbn [lcond_calls]. rewrite lcond_toks_link. split; [|split].
          * rewrite dscan_app, app_assoc. apply Forall2_app; [exact S|].
            assert (C03 : Ctx s3 = Ctx s ++ (c1 ++ c2) ++ [ICondExpr lr rr cmp r3])
              by (rewrite C3, C2, C1, <- !app_assoc; reflexivity).
            rewrite <- (Env_app s s3 _ C03). exact S6.
          * rewrite T6, Hh, T. reflexivity.
          * apply nobad_cons. split; [discriminate|]. apply nobad_app. split; [exact B|].
            apply nobad_cons. split; [discriminate|]. apply nobad_app. split; [exact B6|].
            constructor; [discriminate | constructor].
    Qed.

    Lemma T_if_condition_calculation c lb le lend ie sc rest k s :
      STT (sc :: rest) k (cond_sites D sc c) (sc :: rest) k s
          (if_condition_calculation G fuel c lb le lend ie).
    Proof.
      unfold if_condition_calculation. cbv zeta. destruct c as [e|lc]; cbn [cond_sites].
      - eapply HT_bind; [apply Dexpr|]. intros r s1 W1 G1 H1.
        destruct r as [er|].
        2: { apply HT_ret. intros F. unwrap. fin_all.
             apply (none_SS sc rest k _ _ _ s s1 (fun sc0 => etk D sc0 e) (fun sc0 => call_sites D sc0 e));
               try assumption.
             apply Numbered_nolet, Forall_app. split; [apply calls_nolet|].
             constructor; [reflexivity | constructor]. }
        eapply HT_conseq; [apply HT_emit; reflexivity|]. intros u2 s2 W2 G2 F2 H2. unwrap. fin_all.
        destruct H2 as (_ & C2 & V2).
        apply (SS_expr_use sc rest k s s1 s2 er (IIfCondExpr er lb (if ie then le else lend))
                           (fun sc0 => etk D sc0 e)
                           (fun sc0 => call_sites D sc0 e) (ECondSingle (etoks D sc e)) G1 H1);
          try assumption; try reflexivity; [apply calls_nolet|].
        intros env T B. cbn [site_of]. constructor; [|constructor]. split; assumption.
      - eapply HT_bind; [apply T_condition_expression|]. intros reg s1 W1 G1 H1.
        eapply HT_conseq; [apply HT_emit; reflexivity|]. intros u2 s2 W2 G2 F2 H2. unwrap. fin_all.
        destruct H2 as (_ & C2 & V2). destruct G1 as (c1 & e1 & C1 & _).
        apply (SS_stmt sc rest k _ s s2 (c1 ++ [IIfCondLogic lb (if ie then le else lend) reg])).
        + rewrite C2, C1, app_assoc. reflexivity.
        + apply Forall_app. split; [|constructor; [reflexivity | constructor]].
          clear. induction lc as [l cmp r | l cmp r op n IH] using lcond_ind'; cbn [lcond_calls];
            repeat (apply Forall_app; split); try apply calls_nolet; try constructor. exact IH.
        + intro Hsc. destruct (H1 sc Hsc) as (c0 & C0 & V1 & D1 & L1 & S1 & T1 & B1).
          rewrite C1 in C0. apply app_inv_head in C0. subst c0.
          split; [congruence|]. split; [rewrite stack_decls_app, D1; reflexivity|].
          rewrite dscan_app. apply Forall2_app; [exact S1|].
          rewrite <- (Env_app s s1 c1 C1), scan_one. cbn [site_of]. constructor; [|constructor].
          split; assumption.
    Qed.

    Lemma T_code_after_errors scs k kd fl s : STT scs k [] scs k s (code_after_errors kd fl).
    Proof.
      unfold code_after_errors. destruct kd; (eapply STT_conv; [st_go | reflexivity ..]).
    Qed.

    (** the site of a return, nested or at function level *)
    Lemma ret_site sc er e env (i : instr) :
      site_of env i = [URet (operand env er)] ->
      tkD (operand env er) = etk D sc e -> nobad (etk D sc e) ->
      Forall2 okD (site_of env i) [ERet (etoks D sc e)].
    Proof. intros -> T B. constructor; [|constructor]. split; assumption. Qed.

    (** ** The control level *)
    Section Control.
      Variable IFC : ifstmt -> option string -> option (string * string) -> M unit.
      Variable LOOP : list stmt -> M unit.
      Hypothesis HIFC : forall i le ll sc rest k s,
        STT (sc :: rest) k (if_es D i sc k) (sc :: rest) (if_k D i sc k) s (IFC i le ll).
      Hypothesis HLOOP : forall body sc rest k s,
        STT (sc :: rest) k (bs_es D body sc k) (sc :: rest) (bs_k D body sc k) s (LOOP body).

      Lemma T_nested_ret kd e fl sc rest k s :
        STT (sc :: rest) k (call_sites D sc e ++ [ERet (etoks D sc e)]) (sc :: rest) k s
            (nested_stmt G fuel RT IFC LOOP kd "" None fl (SRet e)).
      Proof.
        cbn [nested_stmt].
        eapply HT_bind; [apply Dexpr|]. intros r s1 W1 G1 H1.
        destruct r as [er|].
        2: { apply HT_ret. intros F. unwrap. fin_all.
             apply (none_SS sc rest k _ _ _ s s1 (fun sc0 => etk D sc0 e) (fun sc0 => call_sites D sc0 e));
               try assumption.
             apply Numbered_nolet, Forall_app. split; [apply calls_nolet|].
             constructor; [reflexivity | constructor]. }
        eapply HT_bind; [apply HT_when_error|]. intros u2 s2 W2 G2 H2.
        eapply HT_bind; [apply HT_emit; reflexivity|]. intros u3 s3 W3 G3 H3.
        eapply HT_bind; [apply HT_set_return|]. intros u4 s4 W4 G4 H4.
        apply HT_ret. intros F. unwrap. fin_all.
        destruct H2 as [_ ->]. destruct H3 as (_ & C3 & V3). destruct H4 as (_ & C4 & V4).
        apply (SS_expr_use sc rest k s s1 s4 er (IJumpFnRet er) (fun sc0 => etk D sc0 e)
                           (fun sc0 => call_sites D sc0 e) (ERet (etoks D sc e)) G1 H1);
          try reflexivity; try congruence; [apply calls_nolet|].
        intros env T B. apply (ret_site sc er e env); [reflexivity | assumption ..].
      Qed.

      Lemma T_nested_stmt kd lend lloop fl st sc rest k s :
        STT (sc :: rest) k (ss_es D st sc k) (ss_sc D st sc k :: rest) (ss_k D st sc k) s
            (nested_stmt G fuel RT IFC LOOP kd lend lloop fl st).
      Proof.
        pose proof T_let_binding. pose proof T_binding. pose proof T_call_stmt.
        destruct st as [x m t e|x e|f args|i|body|e|e| |].
        - eapply STT_conv; [cbn [nested_stmt]; st_go | es_norm | reflexivity | reflexivity].
        - eapply STT_conv; [cbn [nested_stmt]; st_go | es_norm | reflexivity | reflexivity].
        - eapply STT_conv; [cbn [nested_stmt]; st_go | es_norm | reflexivity | reflexivity].
        - destruct (ss_if D i sc k) as (E1 & E2 & E3). rewrite E1, E2, E3.
          destruct kd; (eapply STT_conv; [cbn [nested_stmt]; st_go | es_norm | reflexivity | reflexivity]).
        - destruct (ss_loop D body sc k) as (E1 & E2 & E3). rewrite E1, E2, E3.
          eapply STT_conv; [cbn [nested_stmt]; st_go | es_norm | reflexivity | reflexivity].
        - exact (T_nested_ret kd e fl sc rest k s).
        - apply HT_panic.
        - destruct kd, lloop as [[lb le]|]; cbn [nested_stmt]; try apply HT_panic;
            (eapply STT_conv; [st_go | reflexivity ..]).
        - destruct kd, lloop as [[lb le]|]; cbn [nested_stmt]; try apply HT_panic;
            (eapply STT_conv; [st_go | reflexivity ..]).
      Qed.

      Lemma T_run_body kd lend lloop : forall ss fl sc rest k s,
        STT (sc :: rest) k (bs_es D ss sc k) (body_scope D ss sc k :: rest) (bs_k D ss sc k) s
            (run_body G fuel RT IFC LOOP kd lend lloop fl ss).
      Proof.
        pose proof T_nested_stmt. pose proof T_code_after_errors.
        induction ss as [|st ss IH]; intros fl sc rest k s; cbn [run_body].
        - apply STT_ret.
        - destruct (bs_cons D st ss sc k) as (E1 & E2 & E3). rewrite E1, E2, E3.
          eapply STT_conv; [st_go | es_norm | reflexivity | reflexivity].
      Qed.

      Lemma T_if_body b lend lloop sc rest k s :
        STT (sc :: rest) k (bs_es D (stmts_of b) sc k) (body_scope D (stmts_of b) sc k :: rest)
            (bs_k D (stmts_of b) sc k) s (if_body G fuel RT IFC LOOP b lend lloop).
      Proof.
        pose proof T_run_body.
        destruct b as [ss|ss]; cbn [if_body stmts_of]; [|destruct lloop as [ll|]; [|apply HT_panic]];
          (eapply STT_conv; [st_go | es_norm | reflexivity | reflexivity]).
      Qed.

      Lemma T_if_condition_step i le ll sc rest k s :
        STT (sc :: rest) k (if_es D i sc k) (sc :: rest) (if_k D i sc k) s
            (if_condition_step G fuel RT IFC LOOP i le ll).
      Proof.
        pose proof T_if_body. pose proof T_if_condition_calculation.
        destruct i as [c body els elif]. cbn [if_condition_step].
        destruct els as [eb|]; [|destruct elif as [ei|]].
        - destruct (if_sites_else D c body eb elif sc k) as [E1 E2]. rewrite E1, E2.
          destruct elif as [ei|], le as [le|]; cbn [is_some orb andb negb]; cbv iota;
            (eapply STT_conv; [st_go | es_norm | reflexivity | reflexivity]).
        - destruct (if_sites_elif D c body ei sc k) as [E1 E2]. rewrite E1, E2.
          destruct le as [le|]; cbn [is_some orb andb negb]; cbv iota;
            (eapply STT_conv; [st_go | es_norm | reflexivity | reflexivity]).
        - destruct (if_sites_plain D c body sc k) as [E1 E2]. rewrite E1, E2.
          destruct le as [le|]; cbn [is_some orb andb negb]; cbv iota;
            (eapply STT_conv; [st_go | es_norm | reflexivity | reflexivity]).
      Qed.

      Lemma T_loop_tail (c : bool) lb le scs k s :
        STT scs k [] scs k s
            (if c then ctx <- gets head_ctx ;;
                       when (existsb (is_jump_to le) ctx) (emit (ISetLabel le))
             else emit (IJumpTo lb) ;;; emit (ISetLabel le)).
      Proof. destruct c; (eapply STT_conv; [st_go | reflexivity ..]). Qed.

      Lemma T_loop_step body sc rest k s :
        STT (sc :: rest) k (bs_es D body sc k) (sc :: rest) (bs_k D body sc k) s
            (loop_step G fuel RT IFC LOOP body).
      Proof.
        pose proof T_run_body. pose proof T_loop_tail. unfold loop_step.
        eapply STT_conv; [st_go | es_norm | reflexivity | reflexivity].
      Qed.
    End Control.

    Lemma T_control n :
      (forall i le ll sc rest k s,
          STT (sc :: rest) k (if_es D i sc k) (sc :: rest) (if_k D i sc k) s
              (if_condition G fuel RT n i le ll)) /\
      (forall body sc rest k s,
          STT (sc :: rest) k (bs_es D body sc k) (sc :: rest) (bs_k D body sc k) s
              (loop_statement G fuel RT n body)).
    Proof.
      induction n as [|n [IH1 IH2]]; split; intros; cbn [if_condition loop_statement];
        try apply HT_oof.
      - apply T_if_condition_step; assumption.
      - apply T_loop_step; assumption.
    Qed.

    Lemma T_fn_ret returned e sc rest k s :
      STT (sc :: rest) k (call_sites D sc e ++ [ERet (etoks D sc e)]) (sc :: rest) k s
          (fn_stmt G fuel RT returned (SRet e)).
    Proof.
      cbn [fn_stmt].
      eapply HT_bind; [apply Dexpr|]. intros r s1 W1 G1 H1.
      eapply HT_bind; [apply HT_when_error|]. intros u2 s2 W2 G2 H2.
      destruct r as [er|].
      2: { apply HT_ret. intros F. unwrap. fin_all. destruct H2 as [_ ->].
           apply (none_SS sc rest k _ _ _ s s1 (fun sc0 => etk D sc0 e) (fun sc0 => call_sites D sc0 e));
             try assumption.
           apply Numbered_nolet, Forall_app. split; [apply calls_nolet|].
           constructor; [reflexivity | constructor]. }
      eapply HT_bind; [apply HT_check_type_exists|]. intros ok s3 W3 G3 H3.
      eapply HT_bind; [apply HT_when_error|]. intros u4 s4 W4 G4 H4.
      apply HT_gets_bind.
      eapply HT_bind with
        (Q1 := fun _ s5 => exists i, (forall env, site_of env i = [URet (operand env er)]) /\
                                      decl_of i = [] /\ EmitP i s4 s5).
      { destruct (head_mret (frames s4));
          (eapply HT_conseq; [apply HT_emit; reflexivity|]; intros u5 s5 _ _ _ H5;
           eexists; split; [|split; [|exact H5]]; [intro env|]; reflexivity). }
      intros u5 s5 W5 G5 H5. apply HT_ret. intros F. unwrap. fin_all.
      destruct H2 as [_ ->]. destruct H3 as (_ & -> & _). destruct H4 as [_ ->].
      destruct H5 as (i & Hsite & Hdi & _ & C5 & V5).
      apply (SS_expr_use sc rest k s s1 s5 er i (fun sc0 => etk D sc0 e)
                         (fun sc0 => call_sites D sc0 e) (ERet (etoks D sc e)) G1 H1);
        try reflexivity; try assumption; [apply calls_nolet|].
      intros env T B. apply (ret_site sc er e env); [apply Hsite | assumption ..].
    Qed.

    Lemma T_fn_stmt returned st sc rest k s :
      STT (sc :: rest) k (ss_es D st sc k) (ss_sc D st sc k :: rest) (ss_k D st sc k) s
          (fn_stmt G fuel RT returned st).
    Proof.
      pose proof T_let_binding. pose proof T_binding. pose proof T_call_stmt.
      destruct (T_control fuel) as [HI HL].
      destruct st as [x m t e|x e|f args|i|body|e|e| |].
      - eapply STT_conv; [cbn [fn_stmt]; st_go | es_norm | reflexivity | reflexivity].
      - eapply STT_conv; [cbn [fn_stmt]; st_go | es_norm | reflexivity | reflexivity].
      - eapply STT_conv; [cbn [fn_stmt]; st_go | es_norm | reflexivity | reflexivity].
      - destruct (ss_if D i sc k) as (E1 & E2 & E3). rewrite E1, E2, E3.
        eapply STT_conv; [cbn [fn_stmt]; st_go | es_norm | reflexivity | reflexivity].
      - destruct (ss_loop D body sc k) as (E1 & E2 & E3). rewrite E1, E2, E3.
        eapply STT_conv; [cbn [fn_stmt]; st_go | es_norm | reflexivity | reflexivity].
      - apply T_fn_ret.
      - exact (T_fn_ret returned e sc rest k s).
      - apply HT_panic.
      - apply HT_panic.
    Qed.

    Lemma T_fn_stmts : forall ss returned sc rest k s,
      STT (sc :: rest) k (bs_es D ss sc k) (body_scope D ss sc k :: rest) (bs_k D ss sc k) s
          (fn_stmts G fuel RT returned ss).
    Proof.
      pose proof T_fn_stmt.
      induction ss as [|st ss IH]; intros returned sc rest k s; cbn [fn_stmts].
      - apply STT_ret.
      - destruct (bs_cons D st ss sc k) as (E1 & E2 & E3). rewrite E1, E2, E3.
        eapply STT_conv; [st_go | es_norm | reflexivity | reflexivity].
    Qed.
  End Stmts.

  (** ** Parameters: declarations without sites *)
  Definition pnames (ps : list (ident * ast_ty)) : list string := map (fun p => iname (fst p)) ps.

  Lemma T_init_func_params : forall ps sc rest k s,
    HT Cf s (init_func_params ps)
       (fun _ s' => exists c, Ctx s' = Ctx s ++ c /\
          (at_offN NM k (pnames ps) -> SInv (sc :: rest) s -> KInv k s ->
           scan (Env s) c = [] /\ SInv (fst (param_scope ps sc k) :: rest) s' /\
           KInv (snd (param_scope ps sc k)) s')).
  Proof.
    induction ps as [|[x t] ps IH]; intros sc rest k s; cbn [init_func_params].
    - apply HT_ret. intros _. exists []. rewrite app_nil_r. split; [reflexivity|].
      intros _ Hs Hk. repeat split; assumption.
    - apply HT_lookup_bind. destruct (lookup_frames _ _); [apply HT_error|]. cbv zeta.
      eapply HT_bind; [apply HT_insert_value|]. intros u1 s1 W1 G1 H1.
      eapply HT_bind; [apply HT_set_inner_name|]. intros u2 s2 W2 G2 H2.
      eapply HT_bind; [apply HT_emit; reflexivity|]. intros u3 s3 W3 G3 H3.
      eapply HT_conseq; [apply (IH ((iname x, k) :: sc) rest (k + 1))|].
      intros u4 s4 W4 G4 F4 (c4 & C4 & H4). unwrap. fin_all.
      destruct H1 as (_ & C1 & V1). destruct H2 as (_ & C2 & V2). destruct H3 as (_ & C3 & V3).
      set (val := Value (iname x) (sem_of_ty t) false) in *.
      set (i := IFnArg val (iname x) (sem_of_ty t)) in *.
      assert (C : Ctx s3 = (Ctx s ++ []) ++ [i]) by (rewrite app_nil_r, C3, C2, C1; reflexivity).
      exists ([i] ++ c4). split; [rewrite C4, C, app_nil_r, app_assoc; reflexivity|].
      intros Hoff Hs Hk. cbn [pnames map fst] in Hoff. apply at_offN_cons in Hoff as [HNk Hoff'].
      assert (HDk : nthN D k = Some (v_inner val, v_ty val)).
      { apply (D_at s s3 [] i k); try assumption; reflexivity. }
      destruct H4 as (S4 & I4 & K4).
      + exact Hoff'.
      + unfold SInv. rewrite V3, V2, V1. apply SInvV_insert; assumption.
      + apply (KInv_step s s3 [] i k (v_inner val, v_ty val)); try assumption; reflexivity.
      + cbn [param_scope]. split; [|split; assumption].
        rewrite dscan_app, scan_one. cbn [site_of app].
        assert (C03 : Ctx s3 = Ctx s ++ [i]) by (rewrite C, app_nil_r; reflexivity).
        rewrite <- (Env_app s s3 _ C03). exact S4.
  Qed.

  Lemma param_scope_k : forall ps sc k, snd (param_scope ps sc k) = k + N.of_nat (length ps).
  Proof.
    induction ps as [|[x t] ps IH]; intros sc k; cbn [param_scope length snd]; [lia|].
    rewrite IH. lia.
  Qed.

  (** ** One function body *)
  Lemma T_function_body_m f s :
    HT Cf s (function_body_m G f)
       (fun _ s' => exists c kend, Ctx s' = Ctx s ++ c /\
          Numbered (N.of_nat (length (fn_params f))) (fn_sites D f) kend /\
          (NMok NM (fn_sites D f) -> at_offN NM 0 (pnames (fn_params f)) ->
           SInv [[]] s -> KInv 0 s ->
           Forall2 okD (scan (Env s) c) (fn_sites D f) /\ KInv kend s')).
  Proof.
    unfold function_body_m. cbv zeta.
    eapply HT_bind; [apply (T_init_func_params (fn_params f) [] [] 0)|]. intros u1 s1 W1 G1 H1.
    eapply HT_bind; [apply (T_fn_stmts (fuel_of f) (sem_of_ty (fn_result f)) (fn_body f) false
                              (fst (param_scope (fn_params f) [] 0)) []
                              (snd (param_scope (fn_params f) [] 0)))|].
    intros returned s2 W2 G2 H2.
    eapply HT_conseq; [apply HT_when_error|]. intros u3 s3 W3 G3 F3 [_ ->]. unwrap. fin_all.
    destruct H1 as (c1 & C1 & H1). destruct H2 as (c2 & C2 & N2 & H2).
    assert (Hes : fn_sites D f = bs_es D (fn_body f) (fst (param_scope (fn_params f) [] 0))
                                        (snd (param_scope (fn_params f) [] 0))).
    { unfold fn_sites. destruct (param_scope (fn_params f) [] 0) as [sc0 k0]. cbn [fst snd].
      apply stmts_sites_eq. }
    assert (Hk0 : snd (param_scope (fn_params f) [] 0) = N.of_nat (length (fn_params f)))
      by (rewrite param_scope_k; lia).
    rewrite Hes, <- Hk0.
    exists (c1 ++ c2), (bs_k D (fn_body f) (fst (param_scope (fn_params f) [] 0))
                              (snd (param_scope (fn_params f) [] 0))).
    split; [rewrite C2, C1, app_assoc; reflexivity|]. split; [exact N2|].
    intros Hnm Hoff Hs Hk. destruct (H1 Hoff Hs Hk) as (S1 & I1 & K1).
    destruct (H2 Hnm I1 K1) as (S2 & _ & K2). split; [|exact K2].
    rewrite dscan_app, S1. cbn [app]. rewrite <- (Env_app s s1 c1 C1). exact S2.
  Qed.
End Walk.

(** ** Globals: a name is bound to the record that carries it *)
Definition GOk (G : globals) : Prop :=
  (forall x c, alookup x (g_consts G) = Some c -> c_name c = x) /\
  (forall x fd, alookup x (g_funcs G) = Some fd -> f_name fd = x).

Lemma alookup_snoc {V} x (l : list (string * V)) k v w :
  alookup x (l ++ [(k, v)]) = Some w -> alookup x l = Some w \/ (x = k /\ w = v).
Proof.
  induction l as [|[k' v'] l IH]; cbn.
  - destruct (String.eqb_spec x k); [|discriminate]. intro H; inversion H. right. split; auto.
  - destruct (String.eqb x k'); [intro H; left; exact H | exact IH].
Qed.

Lemma g_check_globals st t v l : gs_globals (fst (g_check_type_exists st t v l)) = gs_globals st.
Proof.
  unfold g_check_type_exists. destruct (is_prim t); [reflexivity|].
  destruct (amem _ _); reflexivity.
Qed.

Lemma decl_fn_params_globals : forall ps st q fl,
  gs_globals (fst (decl_fn_params st q fl ps)) = gs_globals st.
Proof.
  induction ps as [|[x t] ps IH]; intros st q fl; cbn [decl_fn_params]; [reflexivity|].
  destruct q; [apply IH|].
  pose proof (g_check_globals st (sem_of_ty t) (iname x) fl) as Hg.
  destruct (g_check_type_exists st (sem_of_ty t) (iname x) fl) as [st' ok]. cbn [fst] in Hg.
  rewrite IH. exact Hg.
Qed.

Lemma GOk_decl_type st n a : GOk (gs_globals st) -> GOk (gs_globals (decl_type st n a)).
Proof.
  intro H. unfold decl_type. destruct (amem _ _); [exact H|]. exact H.
Qed.

Lemma GOk_decl_const st n ty v : GOk (gs_globals st) -> GOk (gs_globals (decl_const st n ty v)).
Proof.
  intros [Hc Hf]. unfold decl_const. destruct (amem _ _); [split; assumption|].
  destruct (check_const_links _ _); [split; assumption|].
  pose proof (g_check_globals st (c_ty (const_of n ty v)) (c_name (const_of n ty v)) (iloc n)) as Hg.
  destruct (g_check_type_exists st _ _ _) as [st' ok]. cbn [fst] in Hg.
  destruct ok; [|rewrite Hg; split; assumption].
  cbn [gs_globals g_consts g_funcs]. rewrite Hg. split; [|exact Hf].
  intros x c Hl. apply alookup_snoc in Hl as [Hl|[-> ->]]; [apply Hc, Hl | reflexivity].
Qed.

Lemma GOk_decl_fn st f : GOk (gs_globals st) -> GOk (gs_globals (decl_fn st f)).
Proof.
  intros [Hc Hf]. unfold decl_fn. destruct (amem _ _); [split; assumption|].
  pose proof (g_check_globals st (sem_of_ty (fn_result f)) (iname (fn_name f)) (iloc (fn_name f))) as Hg1.
  destruct (g_check_type_exists st _ _ _) as [st1 ok]. cbn [fst] in Hg1.
  pose proof (decl_fn_params_globals (fn_params f) st1 (negb ok) (iloc (fn_name f))) as Hg2.
  destruct (decl_fn_params st1 _ _ _) as [st2 quit]. cbn [fst] in Hg2.
  destruct quit; [rewrite Hg2, Hg1; split; assumption|].
  cbn [gs_globals g_consts g_funcs]. rewrite Hg2, Hg1. split; [exact Hc|].
  intros x fd Hl. apply alookup_snoc in Hl as [Hl|[-> ->]]; [apply Hf, Hl | reflexivity].
Qed.

Lemma fold_left_inv {A B} (P : A -> Prop) (g : A -> B -> A) :
  (forall a b, P a -> P (g a b)) -> forall l a, P a -> P (fold_left g l a).
Proof. intros H l. induction l as [|b l IH]; intros a Ha; [exact Ha | apply IH, H, Ha]. Qed.

Lemma GOk_declarations p : GOk (gs_globals (declarations p)).
Proof.
  unfold declarations.
  apply (fold_left_inv (fun st => GOk (gs_globals st))).
  - intros st t H. destruct t; cbn [pass_decls]; [exact H | exact H | apply GOk_decl_const, H |
                                                   apply GOk_decl_fn, H].
  - apply (fold_left_inv (fun st => GOk (gs_globals st))).
    + intros st t H. destruct t; cbn [pass_types]; try exact H. apply GOk_decl_type, H.
    + split; intros x c H; discriminate.
Qed.

(** ** One function *)
Lemma decl_names_stack c : map fst (stack_decls c) = C12.decl_names c.
Proof.
  unfold stack_decls, C12.decl_names, decl_values. induction c as [|i c IH]; [reflexivity|].
  cbn [flat_map]. rewrite !map_app, IH. destruct i; reflexivity.
Qed.

Lemma WF_init0 e : WF (BSt [empty_block] e).
Proof. split; [discriminate | apply Inv_reg_init]. Qed.

Lemma function_body_C06 G sm f a s root :
  GOk G -> function_body G [] f = Ok a s -> errs s = [] -> frames s = [root] ->
  chk_C06_fn sm f root = true.
Proof.
  intros [HGc HGf] H He Hf.
  pose proof (function_body_Inv_names _ _ _ _ _ H) as Hin.
  assert (HC : Ctx s = b_ctx root) by (unfold Ctx; rewrite Hf; reflexivity).
  assert (HD : NoDup (map fst (stack_decls (Ctx s)))).
  { rewrite decl_names_stack. unfold Ctx. apply (in_nodup _ Hin). }
  unfold chk_C06_fn. rewrite <- HC.
  set (Cf := Ctx s) in *. set (D := stack_decls Cf). set (es := fn_sites D f).
  set (NM := C06.decl_names f es).
  unfold function_body in H.
  destruct (T_function_body_m Cf G NM HD HGc HGf f (BSt [empty_block] []) (WF_init0 []) a s H)
    as (_ & _ & HQ).
  destruct HQ as (c & kend & C & Hnum & HQ).
  { split; [exact He|]. exists []. rewrite app_nil_r. reflexivity. }
  change (Ctx (BSt [empty_block] [])) with (@nil instr) in C. cbn [app] in C. fold Cf in C.
  fold D es in Hnum, HQ.
  destruct HQ as [S K].
  - unfold NM, C06.decl_names. apply (Numbered_NMok _ _ _ Hnum). rewrite map_length. reflexivity.
  - unfold NM, C06.decl_names. apply at_offN_prefix.
  - split; [|exact I]. intro x. reflexivity.
  - reflexivity.
  - apply andb_true_intro. split.
    + apply same_len_length. unfold KInv in K. fold Cf D in K.
      pose proof (Numbered_count _ _ _ Hnum) as Hc. unfold NM, C06.decl_names.
      rewrite app_length, map_length. lia.
    + change (Env (BSt [empty_block] [])) with (@nil (N * dt * bool)) in S. rewrite <- C in S.
      apply sites_ok_eqb. exact S.
Qed.

(** ** The driver *)
Lemma chk_fns_snoc sm : forall fs roots f r,
  chk_C06_fns sm fs roots = true -> chk_C06_fn sm f r = true ->
  chk_C06_fns sm (fs ++ [f]) (roots ++ [r]) = true.
Proof.
  induction fs as [|f0 fs IH]; intros [|r0 roots] f r H Hc; cbn in *; try discriminate.
  - rewrite Hc. reflexivity.
  - apply Bool.andb_true_iff in H as [H1 H2]. rewrite H1. cbn. apply IH; assumption.
Qed.

Lemma bodies_errs_grow G : forall fs errs0 roots errs1 roots1,
  bodies G errs0 roots fs = inr (errs1, roots1) -> exists e, errs1 = errs0 ++ e.
Proof.
  induction fs as [|f fs IH]; intros errs0 roots errs1 roots1 H; cbn [bodies] in H.
  - inversion H; subst. exists []. rewrite app_nil_r. reflexivity.
  - destruct (function_body G errs0 f) as [a s| |] eqn:E; try discriminate.
    destruct (frames s) as [|root [|]]; try discriminate.
    destruct (IH _ _ _ _ H) as [e2 E2]. destruct (function_body_errs _ _ _ _ _ E) as [e1 E1].
    exists (e1 ++ e2). rewrite E2, E1, app_assoc. reflexivity.
Qed.

Lemma bodies_C06 G sm : GOk G -> forall fs fs0 errs0 roots errs1 roots1,
  bodies G errs0 roots fs = inr (errs1, roots1) -> errs1 = [] ->
  chk_C06_fns sm fs0 roots = true -> chk_C06_fns sm (fs0 ++ fs) roots1 = true.
Proof.
  intro HG. induction fs as [|f fs IH]; intros fs0 errs0 roots errs1 roots1 H He Ho;
    cbn [bodies] in H.
  - inversion H; subst. rewrite app_nil_r. exact Ho.
  - destruct (function_body G errs0 f) as [a s| |] eqn:E; try discriminate.
    destruct (frames s) as [|root [|]] eqn:Ef; try discriminate.
    destruct (bodies_errs_grow _ _ _ _ _ _ H) as [e2 E2].
    destruct (function_body_errs _ _ _ _ _ E) as [e1 E1].
    subst errs1. symmetry in E2. apply app_eq_nil in E2 as [Hs _].
    rewrite Hs in E1. symmetry in E1. apply app_eq_nil in E1 as [H0 _]. subst errs0.
    pose proof (function_body_C06 G sm f a s root HG E Hs Ef) as Hc.
    specialize (IH (fs0 ++ [f]) (errs s) (roots ++ [root]) [] roots1 H eq_refl
                   (chk_fns_snoc sm _ _ _ _ Ho Hc)).
    rewrite <- app_assoc in IH. exact IH.
Qed.

Theorem run_denotes_source_gen : forall sm p out,
  run p = ROk out -> o_errors out = [] -> chk_C06_gen sm p out = true.
Proof.
  intros sm p out H Hacc. unfold run in H.
  destruct (bodies (gs_globals (declarations p)) (gs_errs (declarations p)) [] (functions_of p))
    as [r|[errors roots]] eqn:E; [exfalso; eapply bodies_not_ok; subst r; exact E|].
  inversion H; subst; clear H. cbn [o_errors] in Hacc. subst errors.
  unfold chk_C06_gen. cbn [o_errors o_fns].
  apply (bodies_C06 _ sm (GOk_declarations p) _ [] _ _ _ _ E eq_refl eq_refl).
Qed.

(** C06: on accepted programs every computed value is the value the source expression denotes *)
Theorem run_denotes_source : forall p out,
  run p = ROk out -> o_errors out = [] -> chk_C06 p out = true.
Proof. exact (run_denotes_source_gen false). Qed.

(** the stronger reading: every read comes from the declaration that lexical scoping selects *)
Theorem run_denotes_source_scoped : forall p out,
  run p = ROk out -> o_errors out = [] -> chk_C06_scoped p out = true.
Proof. exact (run_denotes_source_gen true). Qed.

Print Assumptions run_denotes_source.
Print Assumptions run_denotes_source_scoped.

(** ** The expression level, stated on its own: on a run that is accepted in the end (no error up
    to [s'], whose root stack is a prefix of the final stack [Cf]), from value tables that hold
    what the source scope [sc] selects, the analysis of [e] yields an operand whose tree -- read
    back through the registers, F7 included -- has exactly the tokens of [e], and the calls of
    [e] as its use sites. *)
Theorem expression_denotes : forall Cf G NM fuel e s r s' sc,
  NoDup (map fst (stack_decls Cf)) -> GOk G -> WF s ->
  expression G fuel e s = Ok r s' -> Fin Cf s' ->
  ScopeOk (stack_decls Cf) NM sc (vals s) ->
  exists er c, r = Some er /\ Ctx s' = Ctx s ++ c /\ vals s' = vals s /\
    Forall2 (site_ok (stack_decls Cf) NM) (scan (Env s) c) (call_sites (stack_decls Cf) sc e) /\
    tk (stack_decls Cf) NM (operand (Env s') er) = etoks (stack_decls Cf) sc e /\
    nobad (etoks (stack_decls Cf) sc e).
Proof.
  intros Cf G NM fuel e s r s' sc HD [HGc HGf] W H F Hsc.
  destruct (D_expression Cf G NM HD HGc HGf fuel e s W r s' H) as (_ & _ & HQ).
  destruct (HQ F sc Hsc) as (er & c & Hr & C & V & _ & _ & S & T & B).
  exists er, c. repeat split; assumption.
Qed.

Print Assumptions expression_denotes.
