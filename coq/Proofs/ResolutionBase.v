(** C03 (names resolve by lexical scoping, operands keep source order): foundations.

    - the stack side of [Mon/C03.v] with its state made explicit ([sscan]), compositional;
    - the resolver of [Mon/C03.v] unfolded into first-order equations ([ev_expr_eq] ...), and the
      fact that operator folding keeps the order of the leaves ([ev_fold_priority]);
    - the view of a model state that matters here: the root stack, the value tables of the live
      frames, the root's registry of internal names;
    - the relation [Inv na s S n Ev] between a model state [s] and the resolver state
      (scopes [S], next declaration number [n]) plus the events [Ev] read so far from the root
      stack;
    - a small Hoare logic [J s m Q] over the body monad: [Q] is owed only when [m] added no
      error, and the error list only grows;
    - what the primitives do, and the computations that keep the relation ([K]). *)
From Coq Require Import Lia.
From SA Require Import Model.
From SA.Spec Require Import Stack.
From SA.Mon Require Import C03.
From SA.Proofs Require Import Trace InvNames DefUse.
Local Open Scope list_scope.

(** ** The stack side, state explicit *)
Definition sst := (nmap * nat * nat * bool)%type.
Definition st0 : sst := ([], O, O, false).

Definition step_st (i : instr) (st : sst) : option (sst * list ev) :=
  match st with
  | (m, k, na, lets) =>
      match i with
      | IFnArg v _ _ =>
          if lets then None
          else match nmap_find (v_inner v) m with
               | Some _ => None
               | None => Some (((v_inner v, k) :: m, S k, S na, lets), [])
               end
      | ILet v _ =>
          match nmap_find (v_inner v) m with
          | Some _ => None
          | None => Some (((v_inner v, k) :: m, S k, na, true), [EDecl k])
          end
      | IExprValue v _ =>
          match nmap_find (v_inner v) m with
          | Some d => Some ((m, k, na, lets), [EUse d])
          | None => None
          end
      | IExprConst cst _ => Some ((m, k, na, lets), [EUseConst (c_name cst)])
      | IExprStruct v idx _ =>
          match nmap_find (v_inner v) m, field_name (v_ty v) idx with
          | Some d, Some a => Some ((m, k, na, lets), [EUseField d a])
          | _, _ => None
          end
      | IBind v _ =>
          match nmap_find (v_inner v) m with
          | Some d => Some ((m, k, na, lets), [EAssign d])
          | None => None
          end
      | ICall f _ _ => Some ((m, k, na, lets), [ECall (f_name f)])
      | IExt tag _ => Some ((m, k, na, lets), [EExt tag])
      | IFnRet _ | IFnRetLabel _ | IJumpFnRet _ => Some ((m, k, na, lets), [ERet])
      | IExprOp _ _ _ _ | ISetLabel _ | IJumpTo _ | IIfCondExpr _ _ _ | ICondExpr _ _ _ _
      | ILogic _ _ _ _ | IIfCondLogic _ _ _ => Some ((m, k, na, lets), [])
      end
  end.

Fixpoint sscan (c : list instr) (st : sst) : option (sst * list ev) :=
  match c with
  | [] => Some (st, [])
  | i :: c' =>
      match step_st i st with
      | None => None
      | Some (st1, e) =>
          match sscan c' st1 with
          | None => None
          | Some (st2, es) => Some (st2, e ++ es)
          end
      end
  end.

Lemma sscan_app c1 : forall c2 st,
  sscan (c1 ++ c2) st =
  match sscan c1 st with
  | None => None
  | Some (st1, e1) =>
      match sscan c2 st1 with
      | None => None
      | Some (st2, e2) => Some (st2, e1 ++ e2)
      end
  end.
Proof.
  induction c1 as [|i c1 IH]; intros c2 st; cbn [app sscan].
  - destruct (sscan c2 st) as [[st2 e2]|]; reflexivity.
  - destruct (step_st i st) as [[st1 e]|]; [|reflexivity]. rewrite IH.
    destruct (sscan c1 st1) as [[st1' e1]|]; [|reflexivity].
    destruct (sscan c2 st1') as [[st2 e2]|]; [|reflexivity]. rewrite app_assoc. reflexivity.
Qed.

Lemma sscan_snoc c i st st1 e1 st2 e2 :
  sscan c st = Some (st1, e1) -> step_st i st1 = Some (st2, e2) ->
  sscan (c ++ [i]) st = Some (st2, e1 ++ e2).
Proof.
  intros H1 H2. rewrite sscan_app, H1. cbn [sscan]. rewrite H2, app_nil_r. reflexivity.
Qed.

(** the monitor's reading is this one *)
Lemma stack_scan_eq c : forall m k na lets,
  stack_scan c m k na lets =
  match sscan c (m, k, na, lets) with
  | Some ((_, _, na', _), es) => Some (na', es)
  | None => None
  end.
Proof.
  induction c as [|i c IH]; intros m k na lets; [reflexivity|].
  destruct i; cbn [stack_scan sscan step_st];
    repeat match goal with
           | |- context [if lets then _ else _] => destruct lets
           | |- context [match nmap_find ?x ?m with _ => _ end] => destruct (nmap_find x m)
           | |- context [match field_name ?x ?m with _ => _ end] => destruct (field_name x m)
           end;
    try reflexivity; rewrite IH; unfold nmap in *;
    match goal with
    | |- context [sscan c ?st] => destruct (sscan c st) as [[[[[m' k'] na'] l'] es]|]
    end; reflexivity.
Qed.

Lemma stack_events_eq c :
  stack_events c =
  match sscan c st0 with
  | Some ((_, _, na', _), es) => Some (na', es)
  | None => None
  end.
Proof. apply stack_scan_eq. Qed.

(** instructions that are not events and declare nothing *)
Definition silent (i : instr) : Prop :=
  match i with
  | IExprOp _ _ _ _ | ISetLabel _ | IJumpTo _ | IIfCondExpr _ _ _ | ICondExpr _ _ _ _
  | ILogic _ _ _ _ | IIfCondLogic _ _ _ => True
  | _ => False
  end.

Lemma step_silent i st : silent i -> step_st i st = Some (st, []).
Proof. destruct st as [[[m k] na] lets]. destruct i; cbn; intro H; try contradiction; reflexivity. Qed.

(** ** The resolver, first order *)
Lemma oapp_nil_r a : oapp a (Some []) = a.
Proof. destruct a as [l|]; cbn; [rewrite app_nil_r|]; reflexivity. Qed.
Lemma oapp_assoc a b c : oapp (oapp a b) c = oapp a (oapp b c).
Proof.
  destruct a as [x|], b as [y|], c as [z|]; cbn; try reflexivity. rewrite app_assoc. reflexivity.
Qed.
Lemma oapp_some a b l : oapp a b = Some l -> exists x y, a = Some x /\ b = Some y /\ l = x ++ y.
Proof.
  destruct a as [x|], b as [y|]; cbn; intro H; try discriminate. inversion H. eauto.
Qed.

Fixpoint ev_links (S : rscopes) (l : list (binop * expr_val)) : option (list ev) :=
  match l with
  | [] => Some []
  | (_, v) :: l' => oapp (ev_val S v) (ev_links S l')
  end.

Lemma ev_expr_eq S v rest : ev_expr S (Expr v rest) = oapp (ev_val S v) (ev_links S rest).
Proof.
  cbn [ev_expr]. f_equal.
  induction rest as [|[op v'] rest IH]; cbn [ev_links]; [reflexivity|]. rewrite IH. reflexivity.
Qed.

Lemma ev_val_call S f args :
  ev_val S (EVCall f args) = oapp (ev_exprs S args) (Some [ECall (iname f)]).
Proof.
  cbn [ev_val]. f_equal.
  induction args as [|a args IH]; cbn [ev_exprs]; [reflexivity|]. rewrite IH. reflexivity.
Qed.

Lemma ev_val_sub S e : ev_val S (EVSub e) = ev_expr S e.
Proof. destruct e; reflexivity. Qed.

Definition ifbody_stmts (b : ifbody) : list stmt := match b with IBIf ss | IBLoop ss => ss end.

Lemma ev_stmt_loop S n body :
  ev_stmt S n (SLoop body) =
  match ev_stmts ([] :: S) n body with
  | Some (n', es) => Some (S, n', es)
  | None => None
  end.
Proof.
  cbn [ev_stmt].
  match goal with
  | |- match ?a with _ => _ end = match ?b with _ => _ end => assert (Hg : a = b)
  end.
  { generalize ([] :: S) as S0. revert n.
    induction body as [|s body IH]; intros n S0; cbn [ev_stmts]; [reflexivity|].
    destruct (ev_stmt S0 n s) as [[[S1 n1] es]|]; [|reflexivity]. rewrite IH. reflexivity. }
  rewrite Hg. reflexivity.
Qed.

Lemma ev_ifbody_eq S n b : ev_ifbody S n b = ev_stmts S n (ifbody_stmts b).
Proof.
  destruct b as [ss|ss]; cbn [ev_ifbody ifbody_stmts]; revert S n;
    (induction ss as [|s ss IH]; intros S n; cbn [ev_stmts]; [reflexivity|];
     destruct (ev_stmt S n s) as [[[S1 n1] es]|]; [|reflexivity]; rewrite IH; reflexivity).
Qed.

Lemma ev_if_eq S n c body els elif :
  ev_if S n (IfS c body els elif) =
  match ev_cond ([] :: S) c with
  | None => None
  | Some ec =>
      match ev_ifbody ([] :: S) n body with
      | None => None
      | Some (n1, eb) =>
          match els with
          | Some b =>
              match ev_ifbody ([] :: S) n1 b with
              | Some (n2, ee) => Some (n2, ec ++ eb ++ ee)
              | None => None
              end
          | None =>
              match elif with
              | Some i' =>
                  match ev_if S n1 i' with
                  | Some (n2, ee) => Some (n2, ec ++ eb ++ ee)
                  | None => None
                  end
              | None => Some (n1, ec ++ eb)
              end
          end
      end
  end.
Proof. reflexivity. Qed.

(** a statement leaves the enclosing scopes alone *)
Lemma declare_in_tl x d S : tl (declare_in x d S) = tl S.
Proof. destruct S; reflexivity. Qed.

Lemma ev_stmt_tl S n s S' n' es : ev_stmt S n s = Some (S', n', es) -> tl S' = tl S.
Proof.
  destruct s; try rewrite ev_stmt_loop; cbn [ev_stmt]; intro H.
  - destruct (ev_expr S e); inversion H. apply declare_in_tl.
  - destruct (ev_expr S e); [|discriminate]. destruct (resolve _ S); inversion H. reflexivity.
  - destruct (ev_exprs S args); inversion H. reflexivity.
  - destruct (ev_if S n i) as [[n1 e1]|]; inversion H. reflexivity.
  - destruct (ev_stmts _ n body) as [[n1 e1]|]; inversion H. reflexivity.
  - destruct (ev_expr S e); inversion H. reflexivity.
  - destruct (ev_expr S e); inversion H. reflexivity.
  - inversion H. reflexivity.
  - inversion H. reflexivity.
Qed.

(** ** Folding keeps the leaves in order *)
Definition ev_chain (S : rscopes) (p : expr_val * links) : option (list ev) :=
  oapp (ev_val S (fst p)) (ev_links S (snd p)).

Lemma ev_fetch S p : forall rest v, ev_chain S (fetch p v rest) = ev_chain S (v, rest).
Proof.
  induction rest as [|[op v2] rest IH]; intro v; cbn [fetch]; [reflexivity|].
  destruct (N.eqb (prio op) p).
  - rewrite IH. unfold ev_chain. cbn [fst snd ev_links].
    rewrite ev_val_sub, ev_expr_eq. cbn [ev_links]. rewrite oapp_nil_r, oapp_assoc. reflexivity.
  - specialize (IH v2). destruct (fetch p v2 rest) as [v' r'].
    unfold ev_chain in *. cbn [fst snd ev_links] in *. rewrite IH. reflexivity.
Qed.

Lemma ev_fold_levels S : forall ls acc,
  ev_chain S (fold_left (fun acc p => fetch p (fst acc) (snd acc)) ls acc) = ev_chain S acc.
Proof.
  induction ls as [|p ls IH]; intro acc; cbn [fold_left]; [reflexivity|].
  rewrite IH, ev_fetch. destruct acc; reflexivity.
Qed.

Lemma ev_fold_priority S e : ev_expr S (fold_priority e) = ev_expr S e.
Proof.
  destruct e as [v rest]. unfold fold_priority.
  destruct rest as [|l1 [|l2 rest]]; try reflexivity.
  pose proof (ev_fold_levels S levels (v, l1 :: l2 :: rest)) as H.
  cbv zeta.
  match goal with
  | |- context [fold_left ?f levels ?a] => destruct (fold_left f levels a) as [v' r']
  end.
  rewrite !ev_expr_eq. exact H.
Qed.

(** ** Globals: tables are keyed by the names of their entries; struct types are normal forms *)
Definition idx_of (p : string * N * sem_ty) : N := snd (fst p).

Definition ty_wf (t : sem_ty) : Prop :=
  match t with SStruct _ attrs => NoDup (map idx_of attrs) | _ => True end.

Record GWF (GL : globals) : Prop := {
  gwf_types : forall k t, In (k, t) (g_types GL) -> ty_wf t;
  gwf_consts : forall k c, In (k, c) (g_consts GL) -> c_name c = k;
  gwf_funcs : forall k f, In (k, f) (g_funcs GL) -> f_name f = k }.

Lemma alookup_in {V} k (v : V) l : alookup k l = Some v -> In (k, v) l.
Proof.
  induction l as [|[k' v'] l IH]; cbn; [discriminate|].
  destruct (String.eqb k k') eqn:E.
  - apply String.eqb_eq in E; subst. intro H; inversion H; subst. left; reflexivity.
  - intro H. right. apply IH, H.
Qed.

Lemma norm_attrs_idx {A} : forall (l : list (string * A)) i p,
  In p (norm_attrs i l) -> i <= snd (fst p).
Proof.
  induction l as [|[x a] l IH]; intros i p; cbn [norm_attrs]; [intros []|].
  destruct (existsb _ l).
  - intro H. apply IH in H. lia.
  - intros [<-|H]; [cbn; lia|]. apply IH in H. lia.
Qed.

Lemma norm_attrs_nodup : forall (l : list (string * sem_ty)) i,
  NoDup (map idx_of (norm_attrs i l)).
Proof.
  induction l as [|[x a] l IH]; intro i; cbn [norm_attrs]; [constructor|].
  destruct (existsb _ l); [apply IH|]. cbn [map]. constructor; [|apply IH].
  intro H. apply in_map_iff in H as (p & Hp & Hin). apply norm_attrs_idx in Hin.
  unfold idx_of in Hp. cbn in Hp. lia.
Qed.

Lemma ty_wf_sem_of_ty t : ty_wf (sem_of_ty t).
Proof. destruct t; cbn; try exact I. apply norm_attrs_nodup. Qed.

Lemma GWF_0 : GWF (gs_globals gstate0).
Proof. constructor; cbn; intros ? ? []. Qed.

Lemma GWF_g_add_error e st : GWF (gs_globals st) -> GWF (gs_globals (g_add_error e st)).
Proof. trivial. Qed.

Lemma g_check_type_exists_globals st t v l :
  gs_globals (fst (g_check_type_exists st t v l)) = gs_globals st.
Proof.
  unfold g_check_type_exists. destruct (is_prim t); [reflexivity|].
  destruct (amem _ _); reflexivity.
Qed.

Lemma decl_fn_params_globals floc : forall ps st q,
  gs_globals (fst (decl_fn_params st q floc ps)) = gs_globals st.
Proof.
  induction ps as [|[x t] ps IH]; intros st q; cbn [decl_fn_params]; [reflexivity|].
  destruct q; [apply IH|].
  pose proof (g_check_type_exists_globals st (sem_of_ty t) (iname x) floc) as H.
  destruct (g_check_type_exists st (sem_of_ty t) (iname x) floc) as [st' ok]. cbn [fst] in H.
  rewrite IH. exact H.
Qed.

Lemma GWF_pass_types st t : GWF (gs_globals st) -> GWF (gs_globals (pass_types st t)).
Proof.
  intros [Ht Hc Hf]. destruct t; try (constructor; assumption). cbn [pass_types]. unfold decl_type.
  destruct (amem _ _); [constructor; assumption|].
  constructor; cbn [gs_globals g_types g_consts g_funcs]; try assumption.
  intros k t Hin. apply in_app_or in Hin as [Hin|[Hin|[]]]; [eapply Ht; exact Hin|].
  inversion Hin; subst. apply ty_wf_sem_of_ty.
Qed.

Lemma GWF_pass_decls st t : GWF (gs_globals st) -> GWF (gs_globals (pass_decls st t)).
Proof.
  intros HW. pose proof HW as [Ht Hc Hf]. destruct t; try exact HW; cbn [pass_decls].
  - unfold decl_const. destruct (amem _ _); [exact HW|].
    destruct (check_const_links _ _); [exact HW|].
    pose proof (g_check_type_exists_globals st (c_ty (const_of name ty v))
                  (c_name (const_of name ty v)) (iloc name)) as HG.
    destruct (g_check_type_exists _ _ _ _) as [st' ok]. cbn [fst] in HG.
    destruct ok; [|rewrite HG; exact HW].
    constructor; cbn [gs_globals g_types g_consts g_funcs]; rewrite HG; try assumption.
    intros k c Hin. apply in_app_or in Hin as [Hin|[Hin|[]]]; [eapply Hc; exact Hin|].
    inversion Hin; subst. reflexivity.
  - unfold decl_fn. destruct (amem _ _); [exact HW|].
    pose proof (g_check_type_exists_globals st (sem_of_ty (fn_result f)) (iname (fn_name f))
                  (iloc (fn_name f))) as HG1.
    destruct (g_check_type_exists _ _ _ _) as [st1 ok]. cbn [fst] in HG1.
    pose proof (decl_fn_params_globals (iloc (fn_name f)) (fn_params f) st1 (negb ok)) as HG2.
    destruct (decl_fn_params _ _ _ _) as [st2 quit]. cbn [fst] in HG2.
    rewrite HG1 in HG2.
    destruct quit; [rewrite HG2; exact HW|].
    constructor; cbn [gs_globals g_types g_consts g_funcs]; rewrite HG2; try assumption.
    intros k fd Hin. apply in_app_or in Hin as [Hin|[Hin|[]]]; [eapply Hf; exact Hin|].
    inversion Hin; subst. reflexivity.
Qed.

Lemma GWF_fold {T} (step : gstate -> T -> gstate) :
  (forall st t, GWF (gs_globals st) -> GWF (gs_globals (step st t))) ->
  forall l st, GWF (gs_globals st) -> GWF (gs_globals (fold_left step l st)).
Proof.
  intros Hs. induction l as [|t l IH]; intros st H; cbn [fold_left]; [exact H|].
  apply IH, Hs, H.
Qed.

Lemma GWF_declarations p : GWF (gs_globals (declarations p)).
Proof.
  unfold declarations. apply GWF_fold; [apply GWF_pass_decls|].
  apply GWF_fold; [apply GWF_pass_types | apply GWF_0].
Qed.

(** the field name the stack side reads back is the one that was looked up *)
Lemma attr_name_at_lookup a : forall attrs idx t,
  NoDup (map idx_of attrs) -> attr_lookup a attrs = Some (idx, t) ->
  attr_name_at idx attrs = Some a.
Proof.
  induction attrs as [|[[x i] t0] attrs IH]; intros idx t Hnd; cbn [attr_lookup attr_name_at];
    [discriminate|].
  cbn [map] in Hnd. inversion Hnd as [|? ? Hni Hnd']; subst.
  destruct (String.eqb a x) eqn:E.
  - apply String.eqb_eq in E; subst. intro H; inversion H; subst. rewrite N.eqb_refl. reflexivity.
  - intro H. destruct (N.eqb_spec idx i) as [->|Hne].
    + exfalso. apply Hni. clear - H.
      induction attrs as [|[[y j] u] attrs IH]; cbn in *; [discriminate|].
      destruct (String.eqb a y); [inversion H; left; reflexivity | right; apply IH, H].
    + eapply IH; eassumption.
Qed.
