(** C05 with values, expressions: in a run that ends without errors, the instructions that an
    expression appends compute, on the register machine, the value that the source semantics
    gives to the expression - in every machine state whose store agrees with the source
    environment through the value tables of the analyzer's live blocks - and emit the same calls.

    - [VH s m Q]: a Hoare logic over the body monad, state indexed; a run of [m] from [s] that
      ends without errors appends one delta [d] to the stack of every live frame, keeps the
      register invariant, moves the register counter from [hr s] to [hr s'], every register that
      [d] defines lies in between, and [Q a s' d];
    - [Pos]: a delta placed in the complete program [c], with what is known about the registers
      defined before, inside and after it;
    - [XRuns]: what executing a straight-line delta does to the register file (the store is only
      read);
    - the walk over [expression] ([V_expression]), call arguments, conditions. *)
From Coq Require Import Lia.
From SA Require Import Model.
From SA.Spec Require Import Stack Bracket Exec Tables.
From SA.Proofs Require Import Reach InvReg Trace InvNames InvLabels Resolve DefUse ExecBasic.
From SA.Proofs Require Import Fold FlowBasic FlowSem FlowExpr DenoteLogic ResolutionBase.
From SA.Spec Require Import ValueExec.
From SA.Proofs Require Import ValueSimBase.
Local Open Scope list_scope.

(** ** The root stack is the last of the stacks of the live frames *)
Lemma last_map_ctx fs : last (map b_ctx fs) [] = b_ctx (last fs empty_block).
Proof.
  induction fs as [|b fs IH]; [reflexivity|]. cbn [map]. destruct fs as [|b' fs]; [reflexivity|].
  change (last (b_ctx b :: map b_ctx (b' :: fs)) []) with (last (map b_ctx (b' :: fs)) []).
  rewrite IH. reflexivity.
Qed.

Lemma Ctx_last s : Ctx s = last (ctxs s) [].
Proof. unfold Ctx, ctxs, root_of. symmetry. apply last_map_ctx. Qed.

Lemma last_adds d : forall X, X <> [] -> last (adds d X) [] = last X [] ++ d.
Proof.
  induction X as [|x X IH]; intro H; [congruence|]. destruct X as [|y X]; [reflexivity|].
  change (last (adds d (x :: y :: X)) []) with (last (adds d (y :: X)) []).
  rewrite IH by discriminate. reflexivity.
Qed.

Lemma Ctx_adds s s' d : frames s <> [] -> ctxs s' = adds d (ctxs s) -> Ctx s' = Ctx s ++ d.
Proof.
  intros Hne H. rewrite !Ctx_last, H. apply last_adds. unfold ctxs. intro E.
  apply map_eq_nil in E. contradiction.
Qed.

(** ** The logic *)
Definition VH {A} (s : bst) (m : M A) (Q : A -> bst -> list instr -> Prop) : Prop :=
  WF s -> forall a s', m s = Ok a s' -> errs s' = [] ->
  exists d, ctxs s' = adds d (ctxs s) /\ WF s' /\ hr s <= hr s' /\ DefsIn (hr s) (hr s') d /\
            Q a s' d.

Lemma VH_conseq {A} s (m : M A) (Q Q' : A -> bst -> list instr -> Prop) :
  VH s m Q -> (forall a s' d, Q a s' d -> Q' a s' d) -> VH s m Q'.
Proof.
  intros H HQ W a s' E Hacc. destruct (H W a s' E Hacc) as (d & HC & W' & L & D & Hq).
  exists d. repeat split; try assumption; try apply W'. apply HQ, Hq.
Qed.

(** the postcondition may use what the logic itself concludes *)
Lemma VH_self {A} s (m : M A) (Q : A -> bst -> list instr -> Prop) :
  VH s m (fun a s' d => ctxs s' = adds d (ctxs s) -> WF s' -> hr s <= hr s' ->
                        DefsIn (hr s) (hr s') d -> Q a s' d) ->
  VH s m Q.
Proof.
  intros H W a s' E Hacc. destruct (H W a s' E Hacc) as (d & HC & W' & L & D & Hq).
  exists d. repeat split; try assumption; try apply W'. apply Hq; assumption.
Qed.

Lemma VH_ret {A} s (a : A) (Q : A -> bst -> list instr -> Prop) : Q a s [] -> VH s (ret a) Q.
Proof.
  intros HQ W a' s' E _. inversion E; subst. exists []. rewrite adds_nil.
  repeat split; try apply W; try lia; try constructor. exact HQ.
Qed.

Lemma VH_panic {A} s k Q : VH s (@panic A k) Q.
Proof. intros _ a s' E. discriminate. Qed.
Lemma VH_oof {A} s Q : VH s (@out_of_fuel A) Q.
Proof. intros _ a s' E. discriminate. Qed.

Lemma VH_bind {A B} s (m : M A) (f : A -> M B) (Q1 : A -> bst -> list instr -> Prop)
      (Q : B -> bst -> list instr -> Prop) :
  VH s m Q1 -> (forall a, Mono (f a)) ->
  (forall a s1 d1, Q1 a s1 d1 -> ctxs s1 = adds d1 (ctxs s) -> WF s1 -> hr s <= hr s1 ->
                   DefsIn (hr s) (hr s1) d1 ->
                   VH s1 (f a) (fun b s' d2 => hr s1 <= hr s' -> DefsIn (hr s1) (hr s') d2 ->
                                               Q b s' (d1 ++ d2))) ->
  VH s (bind m f) Q.
Proof.
  intros Hm Hmono Hf W b s' E Hacc. apply bind_ok in E as (a & s1 & E1 & E2).
  pose proof (errs_le_nil _ _ (Hmono a _ _ _ E2) Hacc) as Hacc1.
  destruct (Hm W a s1 E1 Hacc1) as (d1 & HC1 & W1 & L1 & D1 & HQ1).
  destruct (Hf a s1 d1 HQ1 HC1 W1 L1 D1 W1 b s' E2 Hacc) as (d2 & HC2 & W2 & L2 & D2 & HQ).
  exists (d1 ++ d2). split; [rewrite HC2, HC1, adds_adds; reflexivity|].
  split; [exact W2|]. split; [lia|]. split.
  - apply DefsIn_app. split.
    + eapply DefsIn_widen; [| |exact D1]; lia.
    + eapply DefsIn_widen; [| |exact D2]; lia.
  - apply HQ; assumption.
Qed.

Lemma VH_gets_bind {A B} s (g : list block -> A) (f : A -> M B) Q :
  VH s (f (g (frames s))) Q -> VH s (bind (gets g) f) Q.
Proof. intros H W b s' E. unfold bind, gets in E. exact (H W b s' E). Qed.

Lemma VH_gets {A} s (g : list block -> A) (Q : A -> bst -> list instr -> Prop) :
  Q (g (frames s)) s [] -> VH s (gets g) Q.
Proof. intro HQ. apply (VH_ret s (g (frames s))). exact HQ. Qed.

Lemma VH_error {A} s e (k : M A) Q : Mono k -> VH s (add_error e ;;; k) Q.
Proof.
  intros Hk _ a s' E Hacc. apply bind_ok in E as (u & s1 & E1 & E2).
  exfalso. eapply add_error_not_nil; [exact E1|]. eapply errs_le_nil; [eapply Hk, E2 | exact Hacc].
Qed.
Lemma VH_error_last s e Q : VH s (add_error e) Q.
Proof. intros _ a s' E Hacc. exfalso. eapply add_error_not_nil; eassumption. Qed.

Lemma VH_when_error s b e (k : M unit) :
  VH s (when b (add_error e)) (fun _ s' d => b = false /\ s' = s /\ d = []).
Proof.
  destruct b; cbn [when]; [apply VH_error_last|]. apply VH_ret. repeat split.
Qed.

(** from the logic of [DenoteLogic.v] (anchored at the stack of the last state) *)
Lemma VH_of_HT {A} s (m : M A) (Q' : A -> bst -> Prop) (dof : A -> list instr) :
  (forall Cf, HT Cf s m Q') ->
  (forall a s', m s = Ok a s' -> ctxs s' = adds (dof a) (ctxs s)) ->
  VH s m (fun a s' d => d = dof a /\ Q' a s').
Proof.
  intros HT1 HC W a s' E Hacc.
  destruct (HT1 (Ctx s') W a s' E) as (W' & G & HQ).
  pose proof (HC a s' E) as HC'. exists (dof a). split; [exact HC'|]. split; [exact W'|].
  pose proof (Ctx_adds s s' (dof a) (proj1 W) HC') as HCt.
  split; [apply Grow_hr, G|]. split; [eapply Grow_defs; eassumption|].
  split; [reflexivity|]. apply HQ. split; [exact Hacc|]. exists []. rewrite app_nil_r. reflexivity.
Qed.

Lemma VH_alloc s mk :
  (forall n, def_reg (mk n) = Some n) ->
  VH s (alloc_emit mk)
     (fun r s' d => d = [mk r] /\ r = hr s + 1 /\ hr s' = r /\ vals s' = vals s).
Proof.
  intro Hd. eapply VH_conseq.
  - apply (VH_of_HT s (alloc_emit mk) (AllocP mk s) (fun r => [mk r])).
    + intro Cf. apply HT_alloc, Hd.
    + intros r s' E. eapply alloc_emit_ctxs, E.
  - intros r s' d (-> & Hr & Hh & _ & Hv). repeat split; assumption.
Qed.

Lemma VH_bump s :
  VH s bump (fun r s' d => d = [] /\ r = hr s + 1 /\ hr s' = r /\ vals s' = vals s).
Proof.
  eapply VH_conseq.
  - apply (VH_of_HT s bump (fun r s' => r = hr s + 1 /\ hr s' = r /\ Ctx s' = Ctx s /\ vals s' = vals s) (fun _ => [])).
    + intro Cf. apply HT_bump.
    + intros r s' E. rewrite adds_nil. eapply bump_ctxs, E.
  - intros r s' d (-> & Hr & Hh & _ & Hv). repeat split; assumption.
Qed.

Lemma VH_emit s i :
  def_reg i = None -> VH s (emit i) (fun _ s' d => d = [i] /\ hr s' = hr s /\ vals s' = vals s).
Proof.
  intro Hd. eapply VH_conseq.
  - apply (VH_of_HT s (emit i) (fun _ s' => EmitP i s s') (fun _ => [i])).
    + intro Cf. apply HT_emit, Hd.
    + intros r s' E. eapply emit_ctxs, E.
  - intros r s' d (-> & Hh & _ & Hv). repeat split; assumption.
Qed.

Lemma VH_emit_kid s k i :
  def_reg i = None -> VH s (emit_kid k i) (fun _ s' d => d = [i] /\ hr s' = hr s /\ vals s' = vals s).
Proof.
  intro Hd. eapply VH_conseq.
  - apply (VH_of_HT s (emit_kid k i) (fun _ s' => EmitP i s s') (fun _ => [i])).
    + intro Cf. apply HT_emit_kid, Hd.
    + intros r s' E. eapply emit_kid_ctxs, E.
  - intros r s' d (-> & Hh & _ & Hv). repeat split; assumption.
Qed.

Lemma VH_same s (m : M unit) :
  (forall Cf, HT Cf s m (fun _ s' => Same s s')) ->
  (forall a s', m s = Ok a s' -> ctxs s' = ctxs s) ->
  VH s m (fun _ s' d => d = [] /\ hr s' = hr s /\ vals s' = vals s).
Proof.
  intros H1 H2. eapply VH_conseq.
  - apply (VH_of_HT s m (fun _ s' => Same s s') (fun _ => [])); [exact H1|]. intros a s' E. rewrite adds_nil. eapply H2, E.
  - intros a s' d (-> & Hh & _ & Hv). repeat split; assumption.
Qed.

Lemma VH_set_inner_name s n :
  VH s (set_inner_name n) (fun _ s' d => d = [] /\ hr s' = hr s /\ vals s' = vals s).
Proof. apply VH_same; [intro; apply HT_set_inner_name | apply set_inner_name_ctxs]. Qed.
Lemma VH_set_return s :
  VH s set_return (fun _ s' d => d = [] /\ hr s' = hr s /\ vals s' = vals s).
Proof. apply VH_same; [intro; apply HT_set_return | apply set_return_ctxs]. Qed.

Lemma VH_gen_label s base :
  VH s (gen_label base) (fun _ s' d => d = [] /\ hr s' = hr s /\ vals s' = vals s).
Proof.
  eapply VH_conseq.
  - apply (VH_of_HT s (gen_label base) (fun _ s' => Same s s') (fun _ => [])); [intro; apply HT_gen_label|].
    intros a s' E. rewrite adds_nil. eapply gen_label_ctxs, E.
  - intros a s' d (-> & Hh & _ & Hv). repeat split; assumption.
Qed.

Lemma VH_insert_value s x v :
  VH s (insert_value x v)
     (fun _ s' d => d = [] /\ hr s' = hr s /\
                    vals s' = match vals s with h :: t => ainsert x v h :: t | [] => [] end).
Proof.
  eapply VH_conseq.
  - apply (VH_of_HT s (insert_value x v)
               (fun _ s' => hr s' = hr s /\ Ctx s' = Ctx s /\
                            vals s' = match vals s with h :: t => ainsert x v h :: t | [] => [] end)
               (fun _ => [])); [intro; apply HT_insert_value|].
    intros a s' E. rewrite adds_nil. eapply insert_value_ctxs, E.
  - intros a s' d (-> & Hh & _ & Hv). repeat split; assumption.
Qed.

Lemma VH_next_inner_name s fuel n :
  VH s (next_inner_name fuel n) (fun a s' d => d = [] /\ s' = s /\ inner_exists a (frames s) = false).
Proof.
  intros W a s' E _. apply next_inner_name_spec in E as [-> Hf]. exists []. rewrite adds_nil.
  repeat split; try apply W; try lia; try constructor. exact Hf.
Qed.

Lemma VH_check_type_exists G s t v l :
  VH s (check_type_exists G t v l)
     (fun ok s' d => d = [] /\ ok = true /\ s' = s /\
                     (is_prim t = true \/ amem (type_name t) (g_types G) = true)).
Proof.
  unfold check_type_exists. destruct (is_prim t); [apply VH_ret; repeat split; left; reflexivity|].
  destruct (amem _ _); [apply VH_ret; repeat split; right; reflexivity|]. apply VH_error, Mono_ret.
Qed.

(** ** Placed deltas *)
Section Placed.
  Variable V : Type.
  Variable I : interp V.
  Variable c : list instr.

  Notation tab := (list (string * value)).

  Record Pos (pre d post : list instr) (h h' : N) : Prop := mkPos {
    pos_eq : c = pre ++ d ++ post;
    pos_pre : Forall (fun r => r <= h) (defs pre);
    pos_d : DefsIn h h' d;
    pos_post : Forall (fun r => h' < r) (defs post);
    pos_le : h <= h' }.

  Lemma Pos_split pre d1 d2 post h hm h' :
    Pos pre (d1 ++ d2) post h h' -> DefsIn h hm d1 -> DefsIn hm h' d2 -> h <= hm -> hm <= h' ->
    Pos pre d1 (d2 ++ post) h hm /\ Pos (pre ++ d1) d2 post hm h'.
  Proof.
    intros [E P1 _ P3 _] D1 D2 L1 L2. split; constructor; try assumption.
    - rewrite E, <- !app_assoc. reflexivity.
    - rewrite defs_app. apply Forall_app. split.
      + eapply Forall_impl; [|exact D2]. cbn. intros; lia.
      + eapply Forall_impl; [|exact P3]. cbn. intros; lia.
    - rewrite E, <- !app_assoc. reflexivity.
    - rewrite defs_app. apply Forall_app. split.
      + eapply Forall_impl; [|exact P1]. cbn. intros; lia.
      + eapply Forall_impl; [|exact D1]. cbn. intros; lia.
  Qed.

  (** a register of the range that the delta does not define is defined nowhere *)
  Lemma Pos_hole pre d post h h' n :
    Pos pre d post h h' -> h < n <= h' -> ~ In n (defs d) -> ~ In n (defs c).
  Proof.
    intros [E P1 _ P3 _] Hn Hd Hin. rewrite E, !defs_app in Hin.
    apply in_app_or in Hin as [Hin|Hin]; [|apply in_app_or in Hin as [Hin|Hin]].
    - rewrite Forall_forall in P1. specialize (P1 n Hin). cbn in P1. lia.
    - exact (Hd Hin).
    - rewrite Forall_forall in P3. specialize (P3 n Hin). cbn in P3. lia.
  Qed.

  Lemma Pos_def pre d post h h' n : Pos pre d post h h' -> In n (defs d) -> In n (defs c).
  Proof.
    intros [E _ _ _ _] Hin. rewrite E, !defs_app. apply in_or_app. right. apply in_or_app. left. exact Hin.
  Qed.

  (** ** What a straight-line delta does to the register file (the store is only read).
      [Pr]: what is asked of the register file before; [P]: what is known after. *)
  Definition XRunsP (ts : list tab) (h h' : N) (d : list instr)
             (Pr : venv V -> regfile V -> Prop)
             (P : venv V -> regfile V -> list (vevent V) -> regfile V -> Prop) : Prop :=
    forall pre post, Pos pre d post h h' ->
    forall rf mu az env, DomOK c rf -> Rel ts mu env -> Pr env rf ->
    exists e rf',
      vsteps I c (length pre) (MState rf mu az) e (length pre + length d) (MState rf' mu az) /\
      DomOK c rf' /\ Ext h rf rf' /\ P env rf e rf'.

  Definition XRuns (ts : list tab) (h h' : N) (d : list instr)
             (P : venv V -> list (vevent V) -> regfile V -> Prop) : Prop :=
    XRunsP ts h h' d (fun _ _ => True) (fun env _ e rf' => P env e rf').

  Lemma XRuns_conseq ts h h' d (P P' : venv V -> list (vevent V) -> regfile V -> Prop) :
    XRuns ts h h' d P -> (forall env e rf, P env e rf -> P' env e rf) -> XRuns ts h h' d P'.
  Proof.
    intros H HP pre post Hp rf mu az env HD HR HT.
    destruct (H pre post Hp rf mu az env HD HR HT) as (e & rf' & Hs & HD' & HE & Hq).
    exists e, rf'. repeat split; try assumption. apply HP, Hq.
  Qed.

  Lemma XRuns_nil ts h h' (P : venv V -> list (vevent V) -> regfile V -> Prop) :
    (forall env rf, P env [] rf) -> XRuns ts h h' [] P.
  Proof.
    intros HP pre post Hp rf mu az env HD HR _. exists [], rf. rewrite Nat.add_0_r.
    split; [apply vsteps_refl|]. split; [exact HD|]. split; [apply Ext_refl | apply HP].
  Qed.

  Lemma XRuns_seqP ts h hm h' d1 d2 (P1 P : venv V -> list (vevent V) -> regfile V -> Prop)
        (Pr2 : venv V -> regfile V -> Prop)
        (P2 : venv V -> regfile V -> list (vevent V) -> regfile V -> Prop) :
    XRuns ts h hm d1 P1 -> XRunsP ts hm h' d2 Pr2 P2 ->
    DefsIn h hm d1 -> DefsIn hm h' d2 -> h <= hm -> hm <= h' ->
    (forall env e1 rf1, P1 env e1 rf1 -> Pr2 env rf1) ->
    (forall env e1 rf1 e2 rf2, P1 env e1 rf1 -> Ext hm rf1 rf2 -> P2 env rf1 e2 rf2 -> P env (e1 ++ e2) rf2) ->
    XRuns ts h h' (d1 ++ d2) P.
  Proof.
    intros H1 H2 D1 D2 L1 L2 HPr HP pre post Hp rf mu az env HD HR _.
    destruct (Pos_split _ _ _ _ _ _ _ Hp D1 D2 L1 L2) as [Hp1 Hp2].
    destruct (H1 _ _ Hp1 rf mu az env HD HR Logic.I) as (e1 & rf1 & Hs1 & HD1 & HE1 & Hq1).
    destruct (H2 _ _ Hp2 rf1 mu az env HD1 HR (HPr _ _ _ Hq1)) as (e2 & rf2 & Hs2 & HD2 & HE2 & Hq2).
    exists (e1 ++ e2), rf2. split.
    - eapply vsteps_trans; [exact Hs1|]. eapply vsteps_eq; [exact Hs2 | | |reflexivity];
        rewrite !app_length; lia.
    - split; [exact HD2|]. split; [eapply Ext_trans; eassumption|]. eapply HP; eassumption.
  Qed.

  Lemma XRuns_seq ts h hm h' d1 d2 (P1 P2 P : venv V -> list (vevent V) -> regfile V -> Prop) :
    XRuns ts h hm d1 P1 -> XRuns ts hm h' d2 P2 ->
    DefsIn h hm d1 -> DefsIn hm h' d2 -> h <= hm -> hm <= h' ->
    (forall env e1 rf1 e2 rf2, P1 env e1 rf1 -> Ext hm rf1 rf2 -> P2 env e2 rf2 -> P env (e1 ++ e2) rf2) ->
    XRuns ts h h' (d1 ++ d2) P.
  Proof.
    intros H1 H2 D1 D2 L1 L2 HP.
    eapply (XRuns_seqP ts h hm h' d1 d2 P1 P (fun _ _ => True) (fun env _ e rf' => P2 env e rf'));
      try eassumption; trivial.
  Qed.

  (** one instruction that writes one register *)
  Lemma XRunsP_one ts h h' i r (Pr : venv V -> regfile V -> Prop) (P : venv V -> regfile V -> list (vevent V) -> regfile V -> Prop) :
    def_reg i = Some r -> h < r <= h' ->
    (forall pc rf mu az env, DomOK c rf -> Rel ts mu env -> Pr env rf ->
       (forall n, h < n <= h' -> n <> r -> reg_find V n rf = None) ->
       exists e x,
         vinstr_step V I c i pc (MState rf mu az) = VNext e (S pc) (MState (reg_set V r x rf) mu az) /\
         P env rf e (reg_set V r x rf)) ->
    XRunsP ts h h' [i] Pr P.
  Proof.
    intros Hd Hr Hstep pre post Hp rf mu az env HD HR HPr.
    assert (Hdefs : defs [i] = [r]) by (unfold defs; cbn; rewrite Hd; reflexivity).
    destruct (Hstep (length pre) rf mu az env HD HR HPr) as (e & x & Hs & Hq).
    { intros n Hn Hne. apply HD. eapply Pos_hole; [exact Hp | exact Hn|].
      rewrite Hdefs. intros [E|[]]. congruence. }
    exists e, (reg_set V r x rf). split.
    - eapply vsteps_eq; [apply vsteps_one| reflexivity | | reflexivity].
      + rewrite (vstep_at V I c pre i post); [exact Hs|]. destruct Hp as [E _ _ _ _]. exact E.
      + cbn. lia.
    - split; [|split; [|exact Hq]].
      + apply DomOK_set; [|exact HD]. eapply Pos_def; [exact Hp|]. rewrite Hdefs. left. reflexivity.
      + apply Ext_set. lia.
  Qed.

  Lemma XRuns_one ts h h' i r (P : venv V -> list (vevent V) -> regfile V -> Prop) :
    def_reg i = Some r -> h < r <= h' ->
    (forall pc rf mu az env, DomOK c rf -> Rel ts mu env ->
       (forall n, h < n <= h' -> n <> r -> reg_find V n rf = None) ->
       exists e x,
         vinstr_step V I c i pc (MState rf mu az) = VNext e (S pc) (MState (reg_set V r x rf) mu az) /\
         P env e (reg_set V r x rf)) ->
    XRuns ts h h' [i] P.
  Proof.
    intros Hd Hr Hstep. eapply XRunsP_one; [exact Hd | exact Hr|].
    intros pc rf mu az env HD HR _ Hh. apply Hstep; assumption.
  Qed.

  (** the call instruction; [h' = hm + 1]: a call statement; [h' = hm + 1 + 1]: a call operand,
      which names the register after the one written (finding F7) *)
  Lemma XRunsP_call ts fd ers hm h' t :
    hm + 1 <= h' ->
    XRunsP ts hm h' [ICall fd ers (hm + 1)]
           (fun _ rf => exists xs, operands V I rf ers = Rd xs)
           (fun _ rf e rf' => forall xs, operands V I rf ers = Rd xs ->
                                e = [VCall (f_name fd) xs] /\
                                (hm + 1 + 1 <= h' ->
                                 operand V I rf' (ERes t (RReg (hm + 1 + 1))) = Rd (i_call I (f_name fd) xs))).
  Proof.
    intro L. eapply XRunsP_one; [reflexivity | lia |].
    intros pc rf mu az env HD HR [xs Ho] Hhole. cbn [vinstr_step m_regs]. rewrite Ho.
    exists [VCall (f_name fd) xs], (RV (i_call I (f_name fd) xs), true). split; [reflexivity|].
    intros xs' Ho'. inversion Ho'; subst xs'. split; [reflexivity|].
    intro L2. apply operand_f7. apply Hhole; lia.
  Qed.
  (** an operation, a comparison, a connective *)
  Lemma XRunsP_op ts o l r h t :
    XRunsP ts h (h + 1) [IExprOp o l r (h + 1)]
           (fun _ rf => exists a b, operand V I rf l = Rd a /\ operand V I rf r = Rd b)
           (fun _ rf e rf' => forall a b, operand V I rf l = Rd a -> operand V I rf r = Rd b ->
                                e = [] /\ operand V I rf' (ERes t (RReg (h + 1))) = Rd (i_op I o a b)).
  Proof.
    eapply XRunsP_one; [reflexivity | lia |].
    intros pc rf mu az env HD HR (a & b & Ha & Hb) _. cbn [vinstr_step m_regs]. rewrite Ha, Hb.
    exists [], (RV (i_op I o a b), false). split; [reflexivity|].
    intros a' b' Ea Eb. inversion Ea; inversion Eb; subst. split; [reflexivity | apply operand_written].
  Qed.

  Lemma XRunsP_cmp ts cmp l r h :
    XRunsP ts h (h + 1) [ICondExpr l r cmp (h + 1)]
           (fun _ rf => exists a b, operand V I rf l = Rd a /\ operand V I rf r = Rd b)
           (fun _ rf e rf' => forall a b, operand V I rf l = Rd a -> operand V I rf r = Rd b ->
                                e = [] /\ bool_reg V rf' (h + 1) = Rd (i_cmp I cmp a b)).
  Proof.
    eapply XRunsP_one; [reflexivity | lia |].
    intros pc rf mu az env HD HR (a & b & Ha & Hb) _. cbn [vinstr_step m_regs]. rewrite Ha, Hb.
    exists [], (RB (i_cmp I cmp a b), false). split; [reflexivity|].
    intros a' b' Ea Eb. inversion Ea; inversion Eb; subst. split; [reflexivity | apply bool_reg_written].
  Qed.

  Lemma XRunsP_logic ts o lreg rreg h :
    XRunsP ts h (h + 1) [ILogic o lreg rreg (h + 1)]
           (fun _ rf => exists a b, bool_reg V rf lreg = Rd a /\ bool_reg V rf rreg = Rd b)
           (fun _ rf e rf' => forall a b, bool_reg V rf lreg = Rd a -> bool_reg V rf rreg = Rd b ->
                                e = [] /\ bool_reg V rf' (h + 1) = Rd (combine_logic o a b)).
  Proof.
    eapply XRunsP_one; [reflexivity | lia |].
    intros pc rf mu az env HD HR (a & b & Ha & Hb) _. cbn [vinstr_step m_regs]. rewrite Ha, Hb.
    exists [], (RB (combine_logic o a b), false). split; [reflexivity|].
    intros a' b' Ea Eb. inversion Ea; inversion Eb; subst. split; [reflexivity | apply bool_reg_written].
  Qed.
End Placed.

Arguments XRunsP {V} I c _ _ _ _ _ _.
Arguments XRuns {V} I c _ _ _ _ _.

(** the attribute name of an index *)
Lemma attr_name_of_lookup a : forall attrs idx t,
  NoDup (map idx_of attrs) -> attr_lookup a attrs = Some (idx, t) -> attr_name_of idx attrs = Some a.
Proof.
  induction attrs as [|[[x i] t0] attrs IH]; intros idx t Hnd; cbn [attr_lookup attr_name_of];
    [discriminate|].
  cbn [map] in Hnd. inversion Hnd as [|? ? Hni Hnd']; subst.
  destruct (String.eqb a x) eqn:E.
  - apply String.eqb_eq in E; subst. intro H; inversion H; subst. rewrite N.eqb_refl. reflexivity.
  - intro H. destruct (N.eqb_spec i idx) as [->|Hne].
    + exfalso. apply Hni. clear - H.
      induction attrs as [|[[y j] u] attrs IH]; cbn in *; [discriminate|].
      destruct (String.eqb a y); [inversion H; left; reflexivity | right; apply IH, H].
    + eapply IH; eassumption.
Qed.

(** ** The walk over the expression level *)
Section Walk.
  Variable V : Type.
  Variable I : interp V.
  Variable c : list instr.
  Variable G : globals.
  Hypothesis HW : GWF G.

  Notation XR := (XRuns I c).
  Notation XRP := (XRunsP I c).

  (** what the delta of an expression / a leaf / an argument list computes *)
  Definition PE (e0 : expr) (er : eres) : venv V -> list (vevent V) -> regfile V -> Prop :=
    fun env e rf => exists x, SEval I env e0 e x /\ operand V I rf er = Rd x.
  Definition PV (v : expr_val) (er : eres) : venv V -> list (vevent V) -> regfile V -> Prop :=
    fun env e rf => exists x, SVal I env v e x /\ operand V I rf er = Rd x.
  Definition PA (args : list expr) (ers : list eres) : venv V -> list (vevent V) -> regfile V -> Prop :=
    fun env e rf => exists xs, SArgs I env args e xs /\ operands V I rf ers = Rd xs.

  Definition QE (s : bst) (e0 : expr) (r : option eres) (s' : bst) (d : list instr) : Prop :=
    exists er, r = Some er /\ vals s' = vals s /\ RegLe (hr s') er /\
               XR (vals s) (hr s) (hr s') d (PE e0 er).
  Definition QV (s : bst) (v : expr_val) (r : option eres) (s' : bst) (d : list instr) : Prop :=
    exists er, r = Some er /\ vals s' = vals s /\ RegLe (hr s') er /\
               XR (vals s) (hr s) (hr s') d (PV v er).

  Lemma tabs_find_vals s x : lookup_frames x (frames s) = tabs_find x (vals s).
  Proof. apply lookup_frames_tabs. Qed.

  (** a call: the arguments, then the call instruction *)
  Definition QF (s : bst) (f : ident) (args : list expr) (r : option sem_ty) (s' : bst)
             (d : list instr) : Prop :=
    exists fd ers da hm,
      r = Some (f_ty fd) /\ f_name fd = iname f /\ vals s' = vals s /\
      d = da ++ [ICall fd ers (hm + 1)] /\ hr s' = hm + 1 /\ hr s <= hm /\
      DefsIn (hr s) hm da /\ Forall (RegLe hm) ers /\ XR (vals s) (hr s) hm da (PA args ers).

  Section WithE.
    Variable E : expr -> M (option eres).
    Hypothesis HE : forall e s, VH s (E e) (QE s e).
    Hypothesis HEr : forall e, R2 (E e).

    Lemma MonoE e : Mono (E e).
    Proof. apply Mono_R2, HEr. Qed.
    Lemma Mono_call_args' callee params args i acc : Mono (call_args E callee params i args acc).
    Proof. apply Mono_R2, R2_call_args, HEr. Qed.
    Lemma Mono_function_call' f args : Mono (function_call G E f args).
    Proof. apply Mono_R2, R2_function_call, HEr. Qed.
    Lemma Mono_expr_value' v : Mono (expr_value G E v).
    Proof. apply Mono_R2, R2_expr_value, HEr. Qed.
    Lemma Mono_expr_chain' left rest : Mono (expr_chain G E left rest).
    Proof. apply Mono_R2, R2_expr_chain, HEr. Qed.

    (** the arguments of a call, accumulated *)
    Lemma V_call_args callee params : forall args i acc s,
      VH s (call_args E callee params i args acc)
         (fun r s' d => exists ers, r = Some (acc ++ ers) /\ vals s' = vals s /\
                                    Forall (RegLe (hr s')) ers /\
                                    XR (vals s) (hr s) (hr s') d (PA args ers)).
    Proof.
      pose proof MonoE. pose proof Mono_call_args'.
      induction args as [|a args IH]; intros i acc s; cbn [call_args].
      - apply VH_ret. exists []. rewrite app_nil_r. split; [reflexivity|]. split; [reflexivity|].
        split; [constructor|]. apply XRuns_nil. intros env rf. exists []. split; [constructor | reflexivity].
      - eapply VH_bind; [apply HE | intros; mono_go |].
        intros r s1 d1 (er & -> & Hv1 & Hle1 & HX1) HC1 W1 L1 D1. cbv beta.
        destruct (nth_error params i) as [pt|]; [|apply VH_error, Mono_call_args'].
        destruct (sem_ty_eqb pt (r_ty er)); [|apply VH_error, Mono_call_args'].
        apply VH_self. eapply VH_conseq; [apply IH|].
        intros r s' d2 (ers & -> & Hv2 & Hle2 & HX2) HC2 W2 L2 D2 _ _.
        exists (er :: ers). rewrite <- app_assoc. split; [reflexivity|].
        split; [congruence|]. split.
        + constructor; [eapply RegLe_mono; [exact L2 | exact Hle1] | exact Hle2].
        + rewrite Hv1 in HX2. eapply XRuns_seq; try eassumption.
          intros env e1 rf1 e2 rf2 (x & Hx & Ho1) Hext (xs & Hxs & Ho2).
          exists (x :: xs). split; [constructor; assumption|]. cbn [operands].
          rewrite (operand_ext V I _ _ _ _ Hle1 Hext), Ho1, Ho2. reflexivity.
    Qed.

    Lemma V_function_call f args s : VH s (function_call G E f args) (QF s f args).
    Proof.
      pose proof MonoE. pose proof Mono_call_args'.
      unfold function_call. destruct (alookup (iname f) (g_funcs G)) as [fd|] eqn:Ef;
        [|apply VH_error, Mono_ret].
      eapply VH_bind; [apply V_call_args | intros; mono_go |].
      intros ps s1 d1 (ers & -> & Hv1 & Hle1 & HX1) HC1 W1 L1 D1. cbv beta. cbn [app].
      eapply VH_bind; [apply VH_alloc; intro; reflexivity | intros; mono_go |].
      intros r s2 d2 (-> & Hr & Hh2 & Hv2) HC2 W2 L2 D2. apply VH_ret. intros _ _.
      rewrite app_nil_r. exists fd, ers, d1, (hr s1). subst r.
      split; [reflexivity|]. split; [eapply (gwf_funcs _ HW), alookup_in, Ef|].
      split; [congruence|]. split; [reflexivity|]. split; [exact Hh2|]. split; [exact L1|].
      split; [exact D1|]. split; [exact Hle1 | exact HX1].
    Qed.

    Lemma V_expr_value v s : VH s (expr_value G E v) (QV s v).
    Proof.
      pose proof MonoE. pose proof Mono_function_call'.
      destruct v as [x|p|f args|x a|e|t tag]; cbn [expr_value].
      - (* name *)
        unfold lookup_value. apply VH_gets_bind. rewrite tabs_find_vals.
        destruct (tabs_find (iname x) (vals s)) as [val|] eqn:EL.
        + eapply VH_bind; [apply VH_alloc; intro; reflexivity | intros; mono_go |].
          intros r s1 d1 (-> & Hr & Hh1 & Hv1) HC1 W1 L1 D1. apply VH_ret. intros _ _.
          rewrite app_nil_r. eexists. split; [reflexivity|]. split; [exact Hv1|].
          split; [apply RegLe_reg; lia|]. rewrite Hh1.
          eapply XRuns_one; [reflexivity | lia |].
          intros pc rf mu az env HD HR _. pose proof (Rel_find V _ _ _ (iname x) HR) as HF.
          rewrite EL in HF. destruct HF as (w & F1 & F2).
          exists [], (RV w, false). cbn [vinstr_step m_store]. unfold read_name. rewrite F2.
          split; [reflexivity|]. exists w. split.
          * replace w with (read_var V I env (iname x)) by (unfold read_var; rewrite F1; reflexivity).
            constructor.
          * apply operand_written.
        + destruct (alookup (iname x) (g_consts G)) as [cst|] eqn:Ec.
          * eapply VH_bind; [apply VH_alloc; intro; reflexivity | intros; mono_go |].
            intros r s1 d1 (-> & Hr & Hh1 & Hv1) HC1 W1 L1 D1. apply VH_ret. intros _ _.
            rewrite app_nil_r. eexists. split; [reflexivity|]. split; [exact Hv1|].
            split; [apply RegLe_reg; lia|]. rewrite Hh1.
            eapply XRuns_one; [reflexivity | lia |].
            intros pc rf mu az env HD HR _. pose proof (Rel_find V _ _ _ (iname x) HR) as HF.
            rewrite EL in HF.
            exists [], (RV (i_const I (c_name cst)), false). split; [reflexivity|].
            exists (i_const I (c_name cst)). split; [|apply operand_written].
            rewrite (gwf_consts _ HW _ _ (alookup_in _ _ _ Ec)).
            replace (i_const I (iname x)) with (read_var V I env (iname x))
              by (unfold read_var; rewrite HF; reflexivity).
            constructor.
          * eapply VH_bind; [apply VH_bump | intros; mono_go |].
            intros; apply VH_error, Mono_ret.
      - (* literal *)
        apply VH_ret. eexists. split; [reflexivity|]. split; [reflexivity|].
        split; [apply RegLe_prim|]. apply XRuns_nil. intros env rf.
        exists (i_lit I p). split; [constructor | reflexivity].
      - (* call: the operand names the register after the one written (finding F7) *)
        eapply VH_bind; [apply V_function_call | intros; mono_go |].
        intros t s1 d1 (fd & ers & da & hm & -> & Hfn & Hv1 & -> & Hh1 & Lm & Dm & Hle & HXa) HC1 W1 L1 D1.
        cbv beta.
        eapply VH_bind; [apply VH_bump | intros; mono_go |].
        intros r s2 d2 (-> & Hr & Hh2 & Hv2) HC2 W2 L2 D2. apply VH_ret. intros _ _.
        rewrite !app_nil_r. eexists. split; [reflexivity|]. split; [congruence|].
        split; [apply RegLe_reg; lia|].
        rewrite Hh2, Hr, Hh1.
        eapply XRuns_seqP; [exact HXa | apply (XRunsP_call V I c _ fd ers hm (hm + 1 + 1) (f_ty fd)); lia
                           | exact Dm | eapply DefsIn_def; [reflexivity | lia] | exact Lm | lia | |].
        + intros env e1 rf1 (xs & _ & Ho). exists xs. exact Ho.
        + intros env e1 rf1 e2 rf2 (xs & Hxs & Ho) _ Hc2. destruct (Hc2 xs Ho) as [-> Hop].
          exists (i_call I (f_name fd) xs). split; [|apply Hop; lia].
          rewrite Hfn. constructor. exact Hxs.
      - (* field read: again the register after *)
        unfold lookup_value. apply VH_gets_bind. rewrite tabs_find_vals.
        destruct (tabs_find (iname x) (vals s)) as [val|] eqn:EL; [|apply VH_error, Mono_ret].
        destruct (v_ty val) as [pt|name attrs|et n] eqn:Ety; try (apply VH_error, Mono_ret).
        eapply VH_bind; [apply VH_check_type_exists | intros; mono_go |].
        intros ok s1 d1 (-> & -> & -> & Hty) _ _ _ _. cbn [negb].
        destruct Hty as [Hty|Hty]; [discriminate|]. unfold amem in Hty.
        destruct (alookup (type_name (SStruct name attrs)) (g_types G)) as [declared|] eqn:ED;
          [|discriminate].
        destruct (sem_ty_eqb (SStruct name attrs) declared) eqn:EQ; cbn [negb];
          [|apply VH_error, Mono_ret].
        destruct (attr_lookup (iname a) attrs) as [[idx aty]|] eqn:EA; [|apply VH_error, Mono_ret].
        assert (Hnd : NoDup (map idx_of attrs)).
        { apply sem_ty_eqb_eq in EQ. subst declared.
          exact (gwf_types _ HW _ _ (alookup_in _ _ _ ED)). }
        eapply VH_bind; [apply VH_alloc; intro; reflexivity | intros; mono_go |].
        intros r s1 d1 (-> & Hr & Hh1 & Hv1) HC1 W1 L1 D1. cbv beta.
        eapply VH_bind; [apply VH_bump | intros; mono_go |].
        intros r2 s2 d2 (-> & Hr2 & Hh2 & Hv2) HC2 W2 L2 D2. apply VH_ret. intros _ _.
        rewrite !app_nil_r. eexists. split; [reflexivity|]. split; [congruence|].
        split; [apply RegLe_reg; lia|].
        rewrite Hh2, Hr2, Hh1, Hr.
        eapply (XRuns_one V I c _ (hr s) (hr s + 1 + 1) _ (hr s + 1)); [reflexivity | lia |].
        intros pc rf mu az env HD HR Hhole. pose proof (Rel_find V _ _ _ (iname x) HR) as HF.
        rewrite EL in HF. destruct HF as (w & F1 & F2).
        exists [], (RV (i_field I w (iname a)), true).
        cbn [vinstr_step m_store]. unfold read_name. rewrite F2, Ety. cbn [field_name_of].
        rewrite (attr_name_of_lookup _ _ _ _ Hnd EA).
        split; [reflexivity|]. exists (i_field I w (iname a)). split; [constructor; exact F1|].
        apply operand_f7. apply Hhole; lia.
      - (* bracketed sub-expression *)
        eapply VH_conseq; [apply HE|]. intros r s' d (er & -> & Hv & Hle & HX).
        exists er. split; [reflexivity|]. split; [exact Hv|]. split; [exact Hle|].
        eapply XRuns_conseq; [exact HX|]. intros env e' rf (y & Hy & Ho). exists y.
        split; [constructor; exact Hy | exact Ho].
      - (* extension leaf *)
        eapply VH_bind; [apply VH_alloc; intro; reflexivity | intros; mono_go |].
        intros r s1 d1 (-> & Hr & Hh1 & Hv1) HC1 W1 L1 D1. apply VH_ret. intros _ _.
        rewrite app_nil_r. eexists. split; [reflexivity|]. split; [exact Hv1|].
        split; [apply RegLe_reg; lia|]. rewrite Hh1.
        eapply XRuns_one; [reflexivity | lia |].
        intros pc rf mu az env HD HR _.
        exists [], (RV (i_ext I tag), false). split; [reflexivity|].
        exists (i_ext I tag). split; [constructor | apply operand_written].
    Qed.

    (** a chain: after folding it has no link, or one *)
    Lemma V_expression_body e s : VH s (expression_body G E e) (QE s e).
    Proof.
      pose proof MonoE. pose proof Mono_expr_value'. pose proof Mono_expr_chain'.
      destruct e as [v rest]. unfold expression_body.
      destruct rest as [|[o v2] [|l2 rest]].
      - (* no link *)
        cbn [fold_priority].
        eapply VH_bind; [apply V_expr_value | intros; mono_go |].
        intros rv s1 d1 (er & -> & Hv1 & Hle1 & HX1) HC1 W1 L1 D1. cbv beta. cbn [expr_chain].
        apply VH_ret. intros _ _. rewrite app_nil_r. exists er. split; [reflexivity|].
        split; [exact Hv1|]. split; [exact Hle1|].
        eapply XRuns_conseq; [exact HX1|]. intros env e rf (y & Hy & Ho). exists y.
        split; [|exact Ho]. constructor. cbn. constructor. exact Hy.
      - (* one link *)
        cbn [fold_priority].
        eapply VH_bind; [apply V_expr_value | intros; mono_go |].
        intros rv s1 d1 (left & -> & Hv1 & Hle1 & HX1) HC1 W1 L1 D1. cbv beta. cbn [expr_chain].
        eapply VH_bind; [apply V_expr_value | intros; mono_go |].
        intros rv2 s2 d2 (rgt & -> & Hv2 & Hle2 & HX2) HC2 W2 L2 D2. cbv beta.
        destruct (negb (sem_ty_eqb (r_ty left) (r_ty rgt))); [apply VH_error, Mono_ret|].
        eapply VH_bind; [apply VH_alloc; intro; reflexivity | intros; mono_go |].
        intros r s3 d3 (-> & Hr & Hh3 & Hv3) HC3 W3 L3 D3. apply VH_ret. do 3 (intros _ _).
        rewrite !app_nil_r. eexists. split; [reflexivity|]. split; [congruence|].
        split; [apply RegLe_reg; lia|].
        rewrite Hv1 in HX2. rewrite app_assoc, Hh3, Hr.
        eapply (XRuns_seqP V I c _ (hr s) (hr s2) _ (d1 ++ d2) _
                  (fun env e rf => exists a b e1 e2, e = e1 ++ e2 /\ SVal I env v e1 a /\
                                     SVal I env v2 e2 b /\ operand V I rf left = Rd a /\
                                     operand V I rf rgt = Rd b));
          [ | apply (XRunsP_op V I c _ o left rgt (hr s2) (r_ty rgt)) | | | lia | lia | | ].
        + eapply XRuns_seq; try eassumption.
          intros env e1 rf1 e2 rf2 (a & Ha & Hoa) Hext (b & Hb & Hob).
          exists a, b, e1, e2. repeat split; try assumption.
          rewrite (operand_ext V I _ _ _ _ Hle1 Hext). exact Hoa.
        + apply DefsIn_app. split; (eapply DefsIn_widen; [| |eassumption]; lia).
        + eapply DefsIn_def; [reflexivity | lia].
        + intros env e1 rf1 (a & b & _ & _ & _ & _ & _ & Hoa & Hob). exists a, b. split; assumption.
        + intros env e rf1 e' rf2 (a & b & e1 & e2 & -> & Ha & Hb & Hoa & Hob) _ Hop.
          destruct (Hop a b Hoa Hob) as [-> Ho]. rewrite app_nil_r.
          exists (i_op I o a b). split; [|exact Ho].
          constructor. rewrite bracket_one. constructor; constructor; assumption.
      - (* two links or more: the fold yields the embedding of the bracketed tree *)
        rewrite fold_priority_is_bracket by (cbn [length]; lia).
        set (t := bracket v ((o, v2) :: l2 :: rest)).
        eapply VH_bind; [apply V_expr_value | intros; mono_go |].
        intros rv s1 d1 (er & -> & Hv1 & Hle1 & HX1) HC1 W1 L1 D1. cbv beta. cbn [expr_chain].
        apply VH_ret. intros _ _. rewrite app_nil_r. exists er. split; [reflexivity|].
        split; [exact Hv1|]. split; [exact Hle1|].
        eapply XRuns_conseq; [exact HX1|]. intros env e rf (y & Hy & Ho). exists y.
        split; [|exact Ho]. constructor. apply SVal_embed. exact Hy.
    Qed.
  End WithE.

  Lemma V_expression fuel : forall e s, VH s (expression G fuel e) (QE s e).
  Proof.
    induction fuel as [|f IH]; intros e s; cbn [expression]; [apply VH_oof|].
    apply V_expression_body; [exact IH | apply R2_expression].
  Qed.

  (** ** Conditions *)
  Definition PC (lc : lcond) (reg : N) : venv V -> list (vevent V) -> regfile V -> Prop :=
    fun env e rf => exists b, SLCond I env lc e b /\ bool_reg V rf reg = Rd b.
  Definition QC (s : bst) (lc : lcond) (reg : N) (s' : bst) (d : list instr) : Prop :=
    vals s' = vals s /\ reg = hr s' /\ XR (vals s) (hr s) (hr s') d (PC lc reg).

  (** the two sides of a comparison and the comparison *)
  Definition PCmp (l r : expr) (cmp : cmpop) (reg : N) : venv V -> list (vevent V) -> regfile V -> Prop :=
    fun env e rf => exists a b e1 e2, e = e1 ++ e2 /\ SEval I env l e1 a /\ SEval I env r e2 b /\
                                      bool_reg V rf reg = Rd (i_cmp I cmp a b).

  Lemma XR_cmp ts h h1 h2 d1 d2 l r cmp lr rr :
    XR ts h h1 d1 (PE l lr) -> XR ts h1 h2 d2 (PE r rr) ->
    DefsIn h h1 d1 -> DefsIn h1 h2 d2 -> h <= h1 -> h1 <= h2 -> RegLe h1 lr ->
    XR ts h (h2 + 1) ((d1 ++ d2) ++ [ICondExpr lr rr cmp (h2 + 1)]) (PCmp l r cmp (h2 + 1)).
  Proof.
    intros HX1 HX2 D1 D2 L1 L2 Hle1.
    eapply (XRuns_seqP V I c _ h h2 _ (d1 ++ d2) _
              (fun env e rf => exists a b e1 e2, e = e1 ++ e2 /\ SEval I env l e1 a /\
                                 SEval I env r e2 b /\ operand V I rf lr = Rd a /\
                                 operand V I rf rr = Rd b));
      [ | apply (XRunsP_cmp V I c _ cmp lr rr h2) | | | lia | lia | | ].
    - eapply XRuns_seq; try eassumption.
      intros env e1 rf1 e2 rf2 (a & Ha & Hoa) Hext (b & Hb & Hob).
      exists a, b, e1, e2. repeat split; try assumption.
      rewrite (operand_ext V I _ _ _ _ Hle1 Hext). exact Hoa.
    - apply DefsIn_app. split; (eapply DefsIn_widen; [| |eassumption]; lia).
    - eapply DefsIn_def; [reflexivity | lia].
    - intros env e1 rf1 (a & b & _ & _ & _ & _ & _ & Hoa & Hob). exists a, b. split; assumption.
    - intros env e rf1 e' rf2 (a & b & e1 & e2 & -> & Ha & Hb & Hoa & Hob) _ Hop.
      destruct (Hop a b Hoa Hob) as [-> Ho]. rewrite app_nil_r.
      exists a, b, e1, e2. repeat split; assumption.
  Qed.

  Section Conds.
    Variable fuel : nat.

    Lemma V_condition_expression lc : forall s, VH s (condition_expression G fuel lc) (QC s lc).
    Proof.
      pose proof (Mono_expression G fuel). pose proof (Mono_condition_expression G fuel).
      induction lc as [l cmp r | l cmp r op n IH] using lcond_ind'; intro s;
        cbn [condition_expression].
      - eapply VH_bind; [apply V_expression | intros; mono_go |].
        intros lres s1 d1 (lr & -> & Hv1 & Hle1 & HX1) HC1 W1 L1 D1. cbv beta.
        eapply VH_bind; [apply V_expression | intros; mono_go |].
        intros rres s2 d2 (rr & -> & Hv2 & Hle2 & HX2) HC2 W2 L2 D2. cbv beta.
        destruct (negb (sem_ty_eqb (r_ty lr) (r_ty rr))); [apply VH_error, Mono_get_reg|].
        destruct (negb (is_prim (r_ty lr))); [apply VH_error, Mono_get_reg|].
        eapply VH_bind; [apply VH_alloc; intro; reflexivity | intros; mono_go |].
        intros r0 s3 d3 (-> & Hr & Hh3 & Hv3) HC3 W3 L3 D3. cbv beta.
        eapply VH_bind; [apply VH_ret with (Q := fun _ s' d => s' = s3 /\ d = []); split; reflexivity
                        | intros; mono_go |].
        intros _ s4 d4 (-> & ->) _ _ _ _. unfold get_reg. apply VH_gets. do 4 (intros _ _).
        rewrite !app_nil_r. split; [congruence|]. split; [reflexivity|].
        rewrite Hv1 in HX2. rewrite app_assoc. fold (hr s3). rewrite Hh3, Hr.
        eapply XRuns_conseq; [eapply XR_cmp; eassumption|].
        intros env e rf (a & b & e1 & e2 & -> & Ha & Hb & Ho). eexists. split; [|exact Ho].
        constructor; assumption.
      - eapply VH_bind; [apply V_expression | intros; mono_go |].
        intros lres s1 d1 (lr & -> & Hv1 & Hle1 & HX1) HC1 W1 L1 D1. cbv beta.
        eapply VH_bind; [apply V_expression | intros; mono_go |].
        intros rres s2 d2 (rr & -> & Hv2 & Hle2 & HX2) HC2 W2 L2 D2. cbv beta.
        destruct (negb (sem_ty_eqb (r_ty lr) (r_ty rr))); [apply VH_error, Mono_get_reg|].
        destruct (negb (is_prim (r_ty lr))); [apply VH_error, Mono_get_reg|].
        eapply VH_bind; [apply VH_alloc; intro; reflexivity | intros; mono_go |].
        intros r0 s3 d3 (-> & Hr & Hh3 & Hv3) HC3 W3 L3 D3. cbv beta.
        eapply VH_bind with
          (Q1 := fun (_ : unit) s' d =>
                   vals s' = vals s3 /\
                   exists dn hn, d = dn ++ [ILogic op r0 hn (hn + 1)] /\ hr s' = hn + 1 /\
                                 hr s3 <= hn /\ DefsIn (hr s3) hn dn /\
                                 XR (vals s3) (hr s3) hn dn (PC n hn)).
        + unfold get_reg at 1. apply VH_gets_bind. fold (hr s3).
          eapply VH_bind; [apply IH | intros; mono_go |].
          intros rreg s4 d4 (Hv4 & -> & HX4) HC4 W4 L4 D4. cbv beta.
          eapply VH_bind; [apply VH_alloc; intro; reflexivity | intros; mono_go |].
          intros r1 s5 d5 (-> & Hr5 & Hh5 & Hv5) HC5 W5 L5 D5. apply VH_ret. do 2 (intros _ _).
          rewrite app_nil_r. split; [congruence|]. exists d4, (hr s4). subst r1. rewrite <- Hh3.
          split; [reflexivity|]. split; [exact Hh5|]. split; [exact L4|]. split; [exact D4 | exact HX4].
        + intros; mono_go.
        + intros _ s6 d6 (Hv6 & dn & hn & -> & Hh6 & Ln & Dn & HXn) HC6 W6 L6 D6.
          unfold get_reg. apply VH_gets. do 4 (intros _ _).
          rewrite !app_nil_r. split; [congruence|]. split; [reflexivity|].
          rewrite Hv1 in HX2. fold (hr s6). rewrite Hh6.
          pose proof (XR_cmp _ _ _ _ _ _ l r cmp lr rr HX1 HX2 D1 D2 L1 L2 Hle1) as HA.
          rewrite <- Hr in HA. rewrite Hv3, Hv2, Hv1, Hh3 in HXn. rewrite Hh3 in Dn, Ln.
          replace (d1 ++ d2 ++ [ICondExpr lr rr cmp r0] ++ dn ++ [ILogic op r0 hn (hn + 1)])
            with ((((d1 ++ d2) ++ [ICondExpr lr rr cmp r0]) ++ dn) ++ [ILogic op r0 hn (hn + 1)])
            by (rewrite <- !app_assoc; reflexivity).
          assert (DA : DefsIn (hr s) r0 ((d1 ++ d2) ++ [ICondExpr lr rr cmp r0])).
          { apply DefsIn_app. split.
            - apply DefsIn_app. split; (eapply DefsIn_widen; [| |eassumption]; lia).
            - eapply DefsIn_def; [reflexivity | lia]. }
          eapply (XRuns_seqP V I c _ (hr s) hn _ (((d1 ++ d2) ++ [ICondExpr lr rr cmp r0]) ++ dn) _
                    (fun env e rf => exists a b e1 e2 e3 b', e = (e1 ++ e2) ++ e3 /\
                                       SEval I env l e1 a /\ SEval I env r e2 b /\ SLCond I env n e3 b' /\
                                       bool_reg V rf r0 = Rd (i_cmp I cmp a b) /\
                                       bool_reg V rf hn = Rd b'));
            [ | apply (XRunsP_logic V I c _ op r0 hn hn) | | | lia | lia | | ].
          * eapply XRuns_seq; [exact HA | exact HXn | exact DA | exact Dn | lia | lia |].
            intros env e1' rf1 e2' rf2 (a & b & e1 & e2 & -> & Ha & Hb & Ho) Hext (b' & Hb' & Ho').
            exists a, b, e1, e2, e2', b'. repeat split; try assumption.
            rewrite (bool_reg_ext V r0 rf1 rf2 r0) by (try exact Hext; lia). exact Ho.
          * apply DefsIn_app. split; (eapply DefsIn_widen; [| |eassumption]; lia).
          * eapply DefsIn_def; [reflexivity | lia].
          * intros env e1' rf1 (a & b & _ & _ & _ & b' & _ & _ & _ & _ & Ho & Ho').
            eexists _, _. split; eassumption.
          * intros env e rf1 e' rf2 (a & b & e1 & e2 & e3 & b' & -> & Ha & Hb & Hb' & Ho & Ho') _ Hop.
            destruct (Hop _ _ Ho Ho') as [-> Hres]. rewrite app_nil_r, <- app_assoc.
            eexists. split; [|exact Hres]. constructor; assumption.
    Qed.
  End Conds.
End Walk.
